import Cactus.Lemmas.Inv.ActsSimple
import Cactus.Lemmas.Inv.ActsLinks
import Cactus.Lemmas.Inv.Frames
import Cactus.Spec.Reach
/-!
# Preservation of the safety invariant `InvS` by the user-level actions and by every frame step
other than `rcDrop`
-/
namespace Cactus

/-! ## `belowPhase3` -/

namespace State

@[simp] theorem belowPhase3_nil (o : Nat) : belowPhase3 o [] = 0 := rfl
@[simp] theorem belowPhase3_rcDrop (o t : Nat) (st : List Frame) :
    belowPhase3 o (.rcDrop t :: st) = belowPhase3 o st := rfl
@[simp] theorem belowPhase3_weakDrop (o t : Nat) (st : List Frame) :
    belowPhase3 o (.weakDrop t :: st) = belowPhase3 o st := rfl
@[simp] theorem belowPhase3_dropVal (o : Nat) (v : Val) (st : List Frame) :
    belowPhase3 o (.dropVal v :: st) = belowPhase3 o st := rfl
@[simp] theorem belowPhase3_script (o : Nat) (h w : List Nat) (as : List Act) (st : List Frame) :
    belowPhase3 o (.script h w as :: st) = belowPhase3 o st := rfl
@[simp] theorem belowPhase3_panic (o : Nat) (st : List Frame) :
    belowPhase3 o (.panic :: st) = belowPhase3 o st := rfl
@[simp] theorem belowPhase3_dropFields (o : Nat) (h w : List Nat) (st : List Frame) :
    belowPhase3 o (.dropFields h w :: st) = belowPhase3 o st := rfl
@[simp] theorem belowPhase3_finishSingle (o t : Nat) (st : List Frame) :
    belowPhase3 o (.finishSingle t :: st) = belowPhase3 o st := rfl
/-- unfolding on a `phase3` frame -/
theorem belowPhase3_phase3 (o : Nat) (ks : List Nat) (st : List Frame) :
    belowPhase3 o (.phase3 ks :: st)
      = if o ∈ ks then sumList (st.map (Frame.strongTo o)) else belowPhase3 o st := rfl

end State

/-- the frame is a `phase3` continuation -/
def Frame.isPhase3 : Frame → Bool
  | .phase3 _ => true
  | _ => false

namespace State

theorem belowPhase3_cons_of_not_phase3 (o : Nat) {f : Frame} (st : List Frame)
    (h : f.isPhase3 = false) : belowPhase3 o (f :: st) = belowPhase3 o st := by
  cases f <;> first | rfl | cases h

/-- frames pushed on top that are not `phase3` continuations do not matter -/
theorem belowPhase3_append (o : Nat) (fs st : List Frame) (h : ∀ f ∈ fs, f.isPhase3 = false) :
    belowPhase3 o (fs ++ st) = belowPhase3 o st := by
  induction fs with
  | nil => rfl
  | cons f fs ih =>
    rw [List.cons_append, belowPhase3_cons_of_not_phase3 o _ (h f List.mem_cons_self)]
    exact ih (fun g hg => h g (List.mem_cons_of_mem _ hg))

theorem belowPhase3_le (o : Nat) (st : List Frame) :
    belowPhase3 o st ≤ sumList (st.map (Frame.strongTo o)) := by
  induction st with
  | nil => simp
  | cons f st ih =>
    cases f with
    | phase3 ks =>
      rw [belowPhase3_phase3]
      split <;> simp <;> omega
    | _ => simp <;> omega

theorem Frame.isPhase3_of_cleanup {f : Frame} (h : f.isCleanup = true) : f.isPhase3 = false := by
  cases f <;> first | rfl | cases h

theorem belowPhase3_of_no_phase3 (o : Nat) (st : List Frame) (h : ∀ f ∈ st, f.isPhase3 = false) :
    belowPhase3 o st = 0 := by
  have := belowPhase3_append o st [] h
  simpa using this

/-- after unwinding no `phase3` frame is left -/
theorem belowPhase3_filter_cleanup (o : Nat) (st : List Frame) :
    belowPhase3 o (st.filter Frame.isCleanup) = 0 :=
  belowPhase3_of_no_phase3 o _ (fun _ hf => Frame.isPhase3_of_cleanup (List.mem_filter.mp hf).2)

/-- popping a frame keeps S3 -/
theorem belowPhase3_tail {f : Frame} {rest : List Frame} (h : ∀ o, belowPhase3 o (f :: rest) = 0)
    (o : Nat) : belowPhase3 o rest = 0 := by
  cases f with
  | phase3 ks =>
    have h1 := h o
    rw [belowPhase3_phase3] at h1
    split at h1
    · have := belowPhase3_le o rest; omega
    · exact h1
  | _ => simpa using h o

/-! ## the S2 witness -/

/-- a member of a group under teardown whose allocation is still owned by that teardown -/
def Wit (s : State) (o : Nat) : Prop :=
  ∃ ob, s.heap[o]? = some ob ∧ ob.strong = .uninit ∧ ob.links = none ∧ ob.implicit = true

theorem Wit_congr {s s' : State} (hh : s'.heap = s.heap) (o : Nat) : s'.Wit o ↔ s.Wit o := by
  unfold Wit; rw [hh]

theorem Wit.not_live {s : State} {o : Nat} (h : s.Wit o) : s.isLive o = false := by
  obtain ⟨ob, hg, hs, -, -⟩ := h
  rw [isLive_of_get hg, hs]; simp

theorem Wit_setObj {s : State} {a : Nat} {ob ob' : Obj} (hg : s.heap[a]? = some ob)
    (h : ob.strong = .uninit → ob.links = none → ob.implicit = true →
      ob'.strong = .uninit ∧ ob'.links = none ∧ ob'.implicit = true)
    {o : Nat} (hw : s.Wit o) : (s.setObj a ob').Wit o := by
  obtain ⟨obx, hx, h1, h2, h3⟩ := hw
  by_cases hao : o = a
  · subst hao
    rw [hg] at hx; cases hx
    exact ⟨ob', getElem?_setObj_same _ (get_lt hg), h h1 h2 h3⟩
  · exact ⟨obx, by rw [getElem?_setObj_other s _ hao]; exact hx, h1, h2, h3⟩

theorem Wit_setObj_other {s : State} {a o : Nat} (ob' : Obj) (hao : o ≠ a) (hw : s.Wit o) :
    (s.setObj a ob').Wit o := by
  obtain ⟨obx, hx, h1, h2, h3⟩ := hw
  exact ⟨obx, by rw [getElem?_setObj_other s _ hao]; exact hx, h1, h2, h3⟩

theorem Wit_fail {s : State} (e : Err) {o : Nat} (hw : s.Wit o) : (s.fail e).Wit o :=
  (Wit_congr (fail_heap s e) o).mpr hw

theorem Wit_alloc {s : State} (v : Val) {o : Nat} (hw : s.Wit o) : (s.alloc v).Wit o := by
  obtain ⟨obx, hx, r⟩ := hw
  exact ⟨obx, get_alloc_of_get v hx, r⟩

theorem Wit_setLinks {s : State} (a : Nat) (f : Table → Table) {o : Nat} (hw : s.Wit o) :
    (s.setLinks a f).Wit o := by
  rcases setLinks_cases s a f with ⟨e, he⟩ | ⟨ob, t, hc, hl, he⟩ <;> rw [he]
  · exact Wit_fail e hw
  · exact Wit_setObj (get_of_cell hc) (fun _ h2 _ => by rw [hl] at h2; cases h2) hw

theorem Wit_modVal {s : State} (a : Nat) (f : Val → Val) {o : Nat} (hw : s.Wit o) :
    (s.modVal a f).Wit o := by
  rcases modVal_cases s a f with ⟨e, he⟩ | ⟨ob, v, hc, hv, he⟩ <;> rw [he]
  · exact Wit_fail e hw
  · refine Wit_setObj (get_of_cell hc) ?_ hw
    intro h1 h2 h3; exact ⟨h1, h2, h3⟩

theorem Wit_incStrong {s : State} (a : Nat) {o : Nat} (hw : s.Wit o) : (s.incStrong a).Wit o := by
  rcases incStrong_cases s a with ⟨e, he⟩ | ⟨ob, n, hc, hs, he⟩ <;> rw [he]
  · exact Wit_fail e hw
  · exact Wit_setObj (get_of_cell hc) (fun h1 _ _ => by rw [hs] at h1; cases h1) hw

theorem Wit_incWeak {s : State} (a : Nat) {o : Nat} (hw : s.Wit o) : (s.incWeak a).Wit o := by
  rcases incWeak_cases s a with ⟨e, he⟩ | ⟨ob, hc, hw0, he⟩ <;> rw [he]
  · exact Wit_fail e hw
  · refine Wit_setObj (get_of_cell hc) ?_ hw
    intro h1 h2 h3; exact ⟨h1, h2, h3⟩

theorem Wit_of_skel {s s' : State} (hsk : Skel s s') {o : Nat} (hw : s.Wit o) : s'.Wit o := by
  obtain ⟨ob, hg, h1, h2, h3⟩ := hw
  obtain ⟨ob', hg', a1, -, -, a4, -, -, a7⟩ := hsk.2.2 o ob hg
  exact ⟨ob', hg', by rw [a1, h1], by rw [a7 (by rw [h1]; rfl), h2], by rw [a4, h3]⟩

/-! ## transfer lemmas for `InvSCore` -/

theorem InvSCore.s1 {s : State} (h : s.InvSCore) {o : Nat} (hl : s.isLive o = false) :
    s.ext o + s.inHeap o = 0 := by
  apply Nat.eq_zero_of_not_pos
  intro hp
  rw [h.1 o hp] at hl; cases hl

/-- the general transfer lemma: objects that stop being live have no handle left; objects that
are not live gain no handle; witnesses survive; S3 holds for the new stack -/
theorem InvSCore.general {s s' : State} (h : s.InvSCore)
    (hL : ∀ o, s.isLive o = true → s'.isLive o = false →
      s'.ext o + s'.inHeap o = 0 ∧ s'.pend o = 0)
    (h1 : ∀ o, s'.isLive o = false → s.isLive o = false → s.ext o + s.inHeap o = 0 →
      s'.ext o + s'.inHeap o = 0)
    (h2 : ∀ o, s'.isLive o = false → s.isLive o = false → s.ext o + s.inHeap o = 0 →
      s'.pend o ≤ s.pend o)
    (hU : ∀ o, s'.isLive o = false → 0 < s'.pend o → s.Wit o → s'.Wit o)
    (h3 : ∀ o, belowPhase3 o s'.stack = 0) : s'.InvSCore := by
  refine ⟨?_, ?_, h3⟩
  · intro o hp
    cases hl' : s'.isLive o with
    | true => rfl
    | false =>
      exfalso
      cases hl : s.isLive o with
      | true => have := (hL o hl hl').1; omega
      | false => have := h1 o hl' hl (h.s1 hl); omega
  · intro o hp hl'
    cases hl : s.isLive o with
    | true => have := (hL o hl hl').2; omega
    | false =>
      have hle := h2 o hl' hl (h.s1 hl)
      exact hU o hl' hp (h.2.1 o (by omega) hl)

/-- liveness is unchanged -/
theorem InvSCore.of_live_eq {s s' : State} (h : s.InvSCore)
    (hL : ∀ o, s'.isLive o = s.isLive o)
    (h1 : ∀ o, s.isLive o = false → s.ext o + s.inHeap o = 0 → s'.ext o + s'.inHeap o = 0)
    (h2 : ∀ o, s.isLive o = false → s.ext o + s.inHeap o = 0 → s'.pend o ≤ s.pend o)
    (hU : ∀ o, s.Wit o → s'.Wit o)
    (h3 : ∀ o, belowPhase3 o s'.stack = 0) : s'.InvSCore := by
  refine h.general ?_ (fun o _ hl => h1 o hl) (fun o _ hl => h2 o hl) (fun o _ _ => hU o) h3
  intro o hl hl'
  rw [hL, hl] at hl'; cases hl'

/-- `InvSCore` reads `heap`, `stack`, `ext` only -/
theorem InvSCore_congr {s s' : State} (h : s.InvSCore) (hh : s'.heap = s.heap)
    (hs : s'.stack = s.stack) (he : ∀ o, s'.ext o = s.ext o) : s'.InvSCore := by
  refine h.of_live_eq (isLive_congr hh) ?_ ?_ (fun o => (Wit_congr hh o).mpr) ?_
  · intro o _ h0; rw [he, inHeap_congr hh]; exact h0
  · intro o _ _; rw [pend_congr hs]; exact Nat.le_refl _
  · intro o; rw [hs]; exact h.2.2 o

/-- same skeleton, handles only moved between the program and stored values -/
theorem InvSCore.transfer {s s' : State} (h : s.InvSCore) (hsk : Skel s s')
    (hC : ∀ x, s'.ext x + s'.inHeap x = s.ext x + s.inHeap x) : s'.InvSCore := by
  refine h.of_live_eq hsk.isLive ?_ ?_ (fun o => Wit_of_skel hsk) ?_
  · intro o _ h0; rw [hC]; exact h0
  · intro o _ _; rw [pend_congr hsk.1]; exact Nat.le_refl _
  · intro o; rw [hsk.1]; exact h.2.2 o

theorem InvS_fail (s : State) (e : Err) : (s.fail e).InvS :=
  fun h => absurd h (fail_err_ne_none s e)

theorem InvS.badRoot {s : State} (h : s.InvS) (r : Nat) : (s.badRoot r).InvS := by
  rcases badRoot_cases s r with e | ⟨e, he⟩
  · rw [e]; exact h
  · rw [he]; exact InvS_fail s e

theorem InvS.emit {s : State} (h : s.InvS) (e : Ev) : (s.emit e).InvS :=
  fun herr => InvSCore_congr (h herr) rfl rfl (fun _ => rfl)

/-- one more strong handle to `o` appears in the program and its count is incremented; if `o` is
not live the increment aborts -/
theorem InvS_incStrong_gen {s s' : State} {o : Nat} (h : s.InvS)
    (herr : s'.err = (s.incStrong o).err)
    (hh : s'.heap = (s.incStrong o).heap) (hst : s'.stack = s.stack)
    (he : ∀ t, s'.ext t = s.ext t + (if o = t then 1 else 0)) : s'.InvS := by
  intro herr'
  rw [herr] at herr'
  obtain ⟨herr0, hl⟩ := (incStrong_err_eq_none_iff s o).mp herr'
  refine (h herr0).of_live_eq (fun x => by rw [isLive_congr hh, isLive_incStrong]) ?_ ?_ ?_ ?_
  · intro t ht h0
    have : o ≠ t := fun e => by rw [e, ht] at hl; cases hl
    rw [he, inHeap_congr hh, inHeap_incStrong, if_neg this]; exact h0
  · intro t _ _; rw [pend_congr hst]; exact Nat.le_refl _
  · intro t hw; exact (Wit_congr hh t).mpr (Wit_incStrong o hw)
  · intro t; rw [hst]; exact (h herr0).2.2 t

theorem InvS_incWeak_gen {s s' : State} {o : Nat} (h : s.InvS)
    (herr : s'.err = (s.incWeak o).err)
    (hh : s'.heap = (s.incWeak o).heap) (hst : s'.stack = s.stack)
    (he : ∀ t, s'.ext t = s.ext t) : s'.InvS := by
  intro herr'
  rw [herr] at herr'
  obtain ⟨herr0, -⟩ := (incWeak_err_eq_none_iff s o).mp herr'
  refine (h herr0).of_live_eq (fun x => by rw [isLive_congr hh, isLive_incWeak]) ?_ ?_ ?_ ?_
  · intro t _ h0
    rw [he, inHeap_congr hh, inHeap_incWeak]; exact h0
  · intro t _ _; rw [pend_congr hst]; exact Nat.le_refl _
  · intro t hw; exact (Wit_congr hh t).mpr (Wit_incWeak o hw)
  · intro t; rw [hst]; exact (h herr0).2.2 t

/-- a program-owned bundle of handles moves into one new frame `f` that is not a `phase3`
continuation -/
theorem InvSCore_push_move {s s0 : State} {f : Frame} (h : s.InvSCore) (hh : s0.heap = s.heap)
    (hst : s0.stack = s.stack)
    (hC : ∀ t, s0.ext t + Frame.strongTo t f = s.ext t)
    (hf : f.isPhase3 = false) : (s0.push [f]).InvSCore := by
  refine h.of_live_eq (fun x => by rw [isLive_push, isLive_congr hh]) ?_ ?_
    (fun o hw => (Wit_congr (s := s) (by simp [hh]) o).mpr hw) ?_
  · intro t _ h0
    have := hC t
    rw [ext_push, inHeap_push, inHeap_congr hh]; omega
  · intro t _ h0
    have := hC t
    simp only [pend_push, List.map_cons, List.map_nil, sumList_singleton, pend_congr hst]
    omega
  · intro t
    rw [push_stack, belowPhase3_append t _ _ (by simpa using hf), hst]
    exact h.2.2 t

/-- changing a stored value without touching the strong handles it owns -/
theorem InvS_modVal {s : State} (h : s.InvS) (o : Nat) (f : Val → Val)
    (hf : ∀ v, (f v).held = v.held) : (s.modVal o f).InvS := by
  intro herr
  have herr0 : s.err = none := ((modVal_err_eq_none_iff s o f).mp herr).1
  exact (h herr0).transfer (Skel.modVal s o f) (fun x => by
    rw [ext_modVal, inHeap_modVal_of_held_eq s o f hf])

end State

open State

/-! ## the simple actions -/

theorem applyAct_invS_new (s : State) (fh fw : List Nat) (h : s.InvS) :
    (applyAct s fh fw .new).InvS := by
  intro herr
  simp only [applyAct] at herr ⊢
  have hc := h herr
  refine hc.general ?_ ?_ ?_ ?_ ?_
  · intro o hl hl'
    have : (s.alloc { vid := s.nextVid, held := [], weaks := [], script := [], panics := false }).isLive o = true := isLive_alloc_of_isLive _ hl
    rw [show (s.alloc { vid := s.nextVid, held := [], weaks := [], script := [], panics := false }).isLive o = false from hl'] at this
    cases this
  · intro o hl' hl h0
    have hne : s.heap.length ≠ o := by
      intro e; subst e
      have : (s.alloc { vid := s.nextVid, held := [], weaks := [], script := [], panics := false }).isLive s.heap.length = true := isLive_alloc_new _ _
      rw [show (s.alloc { vid := s.nextVid, held := [], weaks := [], script := [], panics := false }).isLive s.heap.length = false from hl'] at this
      cases this
    simp [hne]
    simpa using h0
  · intro o _ _ _; exact Nat.le_refl _
  · intro o _ _ hw; exact Wit_alloc _ hw
  · intro o; exact hc.2.2 o

theorem applyAct_invS_clone (s : State) (fh fw : List Nat) (r : Nat) (h : s.InvS) :
    (applyAct s fh fw (.clone r)).InvS := by
  simp only [applyAct]
  split
  · exact InvS_incStrong_gen h rfl rfl (by simp) (fun t => by simp)
  · exact h.badRoot r

theorem applyAct_invS_drop (s : State) (fh fw : List Nat) (r : Nat) (h : s.InvS) :
    (applyAct s fh fw (.drop r)).InvS := by
  simp only [applyAct]
  split
  · rename_i o hu
    obtain ⟨hr, -⟩ := useRoot_some hu
    intro herr
    refine InvSCore_push_move (h herr) rfl rfl ?_ rfl
    intro t
    have := ext_withRoots_eraseIdx s (idxMod s.roots r) t
    simp only [hr, Option.some.injEq] at this
    simpa using this
  · exact h.badRoot r

theorem applyAct_invS_downgrade (s : State) (fh fw : List Nat) (r : Nat) (h : s.InvS) :
    (applyAct s fh fw (.downgrade r)).InvS := by
  simp only [applyAct]
  split
  · exact InvS_incWeak_gen h rfl rfl (by simp) (fun t => by simp)
  · exact h.badRoot r

theorem applyAct_invS_upgrade (s : State) (fh fw : List Nat) (w : Nat) (h : s.InvS) :
    (applyAct s fh fw (.upgrade w)).InvS := by
  simp only [applyAct]
  split
  · split
    · split
      · exact h.emit _
      · exact InvS_incStrong_gen h rfl rfl (by simp) (fun t => by simp)
    · exact InvS_fail _ _
  · exact h

theorem applyAct_invS_cloneWeak (s : State) (fh fw : List Nat) (w : Nat) (h : s.InvS) :
    (applyAct s fh fw (.cloneWeak w)).InvS := by
  simp only [applyAct]
  split
  · exact InvS_incWeak_gen h rfl rfl (by simp) (fun t => by simp)
  · exact h

theorem applyAct_invS_dropWeak (s : State) (fh fw : List Nat) (w : Nat) (h : s.InvS) :
    (applyAct s fh fw (.dropWeak w)).InvS := by
  simp only [applyAct]
  split
  · intro herr
    exact InvSCore_push_move (h herr) rfl rfl (fun t => by simp) rfl
  · exact h

theorem applyAct_invS_intoRaw (s : State) (fh fw : List Nat) (r : Nat) (h : s.InvS) :
    (applyAct s fh fw (.intoRaw r)).InvS := by
  simp only [applyAct]
  split
  · rename_i o hu
    obtain ⟨hr, -⟩ := useRoot_some hu
    intro herr
    exact InvSCore_congr (h herr) rfl rfl (fun t => ext_intoRaw s _ o t hr)
  · exact h.badRoot r

theorem applyAct_invS_fromRaw (s : State) (fh fw : List Nat) (i : Nat) (h : s.InvS) :
    (applyAct s fh fw (.fromRaw i)).InvS := by
  simp only [applyAct]
  split
  · rename_i o hn
    have hr := getElem?_idxMod_of_nthMod hn
    intro herr
    exact InvSCore_congr (h herr) rfl rfl (fun t => ext_fromRaw s _ o t hr)
  · exact h

theorem applyAct_invS_incStrong (s : State) (fh fw : List Nat) (i : Nat) (h : s.InvS) :
    (applyAct s fh fw (.incStrong i)).InvS := by
  simp only [applyAct]
  split
  · split
    · exact InvS_incStrong_gen h rfl rfl (by simp) (fun t => by simp)
    · exact InvS_fail _ _
  · exact h

theorem applyAct_invS_decStrong (s : State) (fh fw : List Nat) (i : Nat) (h : s.InvS) :
    (applyAct s fh fw (.decStrong i)).InvS := by
  simp only [applyAct]
  split
  · rename_i o hn
    have hr := getElem?_idxMod_of_nthMod hn
    split
    · intro herr
      refine InvSCore_push_move (h herr) rfl rfl ?_ rfl
      intro t
      have := ext_withRaws_eraseIdx s (idxMod s.raws i) t
      simp only [hr, Option.some.injEq] at this
      simpa using this
    · exact InvS_fail _ _
  · exact h

theorem applyAct_invS_ptrEq (s : State) (fh fw : List Nat) (r1 r2 : Nat) (h : s.InvS) :
    (applyAct s fh fw (.ptrEq r1 r2)).InvS := by
  simp only [applyAct]
  split
  · exact h.emit _
  · exact (h.badRoot r1).badRoot r2

theorem applyAct_invS_counts (s : State) (fh fw : List Nat) (r : Nat) (h : s.InvS) :
    (applyAct s fh fw (.counts r)).InvS := by
  simp only [applyAct]
  split
  · split
    · exact (h.emit _).emit _
    · exact InvS_fail _ _
  · exact h.badRoot r

theorem applyAct_invS_wcounts (s : State) (fh fw : List Nat) (w : Nat) (h : s.InvS) :
    (applyAct s fh fw (.wcounts w)).InvS := by
  simp only [applyAct]
  split
  · split
    · split <;> exact (h.emit _).emit _
    · exact InvS_fail _ _
  · exact h

theorem applyAct_invS_getMut (s : State) (fh fw : List Nat) (r : Nat) (h : s.InvS) :
    (applyAct s fh fw (.getMut r)).InvS := by
  simp only [applyAct]
  split
  · split
    · exact h.emit _
    · exact InvS_fail _ _
  · exact h.badRoot r

theorem applyAct_invS_setPanic (s : State) (fh fw : List Nat) (q : Nat) (h : s.InvS) :
    (applyAct s fh fw (.setPanic q)).InvS := by
  simp only [applyAct]
  split
  · exact InvS_modVal h _ _ (fun _ => rfl)
  · exact h.badRoot q

theorem applyAct_invS_setShallow (s : State) (fh fw : List Nat) (q : Nat) (h : s.InvS) :
    (applyAct s fh fw (.setShallow q)).InvS := by
  simp only [applyAct]
  split
  · exact InvS_modVal h _ _ (fun _ => rfl)
  · exact h.badRoot q

theorem applyAct_invS_upgradeField (s : State) (fh fw : List Nat) (k : Nat) (h : s.InvS) :
    (applyAct s fh fw (.upgradeField k)).InvS := by
  simp only [applyAct]
  split
  · split
    · split
      · exact h.emit _
      · exact InvS_incStrong_gen h rfl rfl (by simp) (fun t => by simp)
    · exact InvS_fail _ _
  · exact h

theorem applyAct_invS_cloneField (s : State) (fh fw : List Nat) (k : Nat) (h : s.InvS) :
    (applyAct s fh fw (.cloneField k)).InvS := by
  simp only [applyAct]
  split
  · exact InvS_incStrong_gen h rfl rfl (by simp) (fun t => by simp)
  · exact h

theorem applyAct_invS_downgradeField (s : State) (fh fw : List Nat) (k : Nat) (h : s.InvS) :
    (applyAct s fh fw (.downgradeField k)).InvS := by
  simp only [applyAct]
  split
  · exact InvS_incWeak_gen h rfl rfl (by simp) (fun t => by simp)
  · exact h

theorem applyAct_invS_dropValue (s : State) (fh fw : List Nat) (i : Nat) (h : s.InvS) :
    (applyAct s fh fw (.dropValue i)).InvS := by
  simp only [applyAct]
  split
  · rename_i v hn
    have hr := getElem?_idxMod_of_nthMod hn
    intro herr
    exact InvSCore_push_move (h herr) rfl rfl (fun t => ext_withVals_eraseIdx s _ v t hr) rfl
  · exact h

namespace State

/-! ## actions on link tables and stored handles -/

theorem InvSCore.adopt {s : State} (h : s.InvSCore) {a b : Nat} (ha : s.isLive a = true)
    (hb : s.isLive b = true) (same : Bool) : (s.adopt a b same).InvSCore :=
  h.transfer (Skel.adopt ha hb same) (by simp)

theorem InvSCore.unadopt {s : State} (h : s.InvSCore) {a b : Nat} (ha : s.isLive a = true)
    (hb : s.isLive b = true) (same : Bool) : (s.unadopt a b same).InvSCore :=
  h.transfer (Skel.unadopt ha hb same) (by simp)

theorem InvSCore.swap {s : State} (h : s.InvSCore) {o : Nat} (ho : s.isLive o = true) (i : Nat) :
    (s.setLinks o (·.swapAt i)).InvSCore :=
  h.transfer (Skel.setLinks ho _) (by simp)

theorem InvSCore.store {s : State} (h : s.InvSCore) (hO : s.InvO) {i t o : Nat}
    (hr : s.roots[i]? = some t) (ho : s.isLive o = true) :
    (({ s with roots := s.roots.eraseIdx i } : State).modVal o
      (fun v => { v with held := v.held ++ [t] })).InvSCore := by
  obtain ⟨v, hv⟩ := valOf_of_live hO ho
  have hv0 : ({ s with roots := s.roots.eraseIdx i } : State).valOf o = some v := hv
  refine h.transfer ((Skel.of_eq rfl rfl).trans (Skel.modVal _ _ _)) ?_
  intro x
  have h1 := ext_withRoots_eraseIdx s i x
  have h2 := inHeap_modVal (fun v => { v with held := v.held ++ [t] }) hv0 x
  rw [ext_modVal]
  simp only [inHeap_withRoots, count_concat, hr, Option.some.injEq] at h1 h2
  omega

theorem InvSCore.storeWeak {s : State} (h : s.InvSCore) {i t o : Nat} :
    (({ s with wroots := s.wroots.eraseIdx i } : State).modVal o
      (fun v => { v with weaks := v.weaks ++ [t] })).InvSCore := by
  refine h.transfer ((Skel.of_eq rfl rfl).trans (Skel.modVal _ _ _)) ?_
  intro x
  rw [ext_modVal, inHeap_modVal_of_held_eq _ o (fun v => { v with weaks := v.weaks ++ [t] }) (fun _ => rfl)]
  rfl

theorem InvSCore.take {s : State} (h : s.InvSCore) {o : Nat} {v : Val} (hv : s.valOf o = some v)
    {i t : Nat} (hk : v.held[i]? = some t) (f : Val → Val) (hf : (f v).held = v.held.eraseIdx i) :
    ({ s.modVal o f with roots := (s.modVal o f).roots ++ [t] } : State).InvSCore := by
  refine h.transfer ((Skel.modVal _ _ _).trans (Skel.of_eq rfl rfl)) ?_
  intro x
  have h1 := take_inHeap hv hk f hf x
  simp only [ext_withRoots_append, inHeap_withRoots, ext_modVal]
  omega

theorem InvSCore.unlink {s : State} (h : s.InvSCore) {o : Nat} {v : Val} (hv : s.valOf o = some v)
    {i t : Nat} (hk : v.held[i]? = some t) (f : Val → Val) (hf : (f v).held = v.held.eraseIdx i)
    (ho : s.isLive o = true) (ht : s.isLive t = true) :
    ({ (s.modVal o f).unadopt o t false with
        roots := ((s.modVal o f).unadopt o t false).roots ++ [t] } : State).InvSCore := by
  refine h.transfer
    ((Skel.modVal _ _ _).trans ((Skel.unadopt (by simpa using ho) (by simpa using ht) false).trans
      (Skel.of_eq rfl rfl))) ?_
  intro x
  have h1 := take_inHeap hv hk f hf x
  simp only [ext_withRoots_append, inHeap_withRoots, ext_modVal, ext_unadopt, inHeap_unadopt]
  omega

theorem InvS.adopt {s : State} (h : s.InvS) {a b : Nat} (ha : s.isLive a = true)
    (hb : s.isLive b = true) (same : Bool) : (s.adopt a b same).InvS :=
  fun herr => (h ((adopt_err_eq_none_iff s a b same).mp herr).1).adopt ha hb same

theorem InvS.unadopt {s : State} (h : s.InvS) {a b : Nat} (ha : s.isLive a = true)
    (hb : s.isLive b = true) (same : Bool) : (s.unadopt a b same).InvS :=
  fun herr => (h ((unadopt_err_eq_none_iff s a b same).mp herr).1).unadopt ha hb same

end State

open State

theorem applyAct_invS_adopt (s : State) (fh fw : List Nat) (r1 r2 : Nat) (h : s.InvS) :
    (applyAct s fh fw (.adopt r1 r2)).InvS := by
  simp only [applyAct]
  cases h1 : s.useRoot r1 with
  | none => exact (h.badRoot r1).badRoot r2
  | some a =>
    cases h2 : s.useRoot r2 with
    | none => exact (h.badRoot r1).badRoot r2
    | some b => exact h.adopt (useRoot_some h1).2 (useRoot_some h2).2 _

theorem applyAct_invS_unadopt (s : State) (fh fw : List Nat) (r1 r2 : Nat) (h : s.InvS) :
    (applyAct s fh fw (.unadopt r1 r2)).InvS := by
  simp only [applyAct]
  cases h1 : s.useRoot r1 with
  | none => exact (h.badRoot r1).badRoot r2
  | some a =>
    cases h2 : s.useRoot r2 with
    | none => exact (h.badRoot r1).badRoot r2
    | some b => exact h.unadopt (useRoot_some h1).2 (useRoot_some h2).2 _

theorem applyAct_invS_store (s : State) (fh fw : List Nat) (r q : Nat) (hI : s.Inv) (h : s.InvS) :
    (applyAct s fh fw (.store r q)).InvS := by
  simp only [applyAct]
  cases h1 : s.useRoot r with
  | none => exact (h.badRoot r).badRoot q
  | some t =>
    cases h2 : s.useRoot q with
    | none => exact (h.badRoot r).badRoot q
    | some o =>
      simp only []
      split
      · exact h
      · intro herr
        have e0 : s.err = none := ((modVal_err_eq_none_iff _ _ _).mp herr).1
        exact (h e0).store (hI e0).1 (useRoot_some h1).1 (useRoot_some h2).2

theorem applyAct_invS_storeWeak (s : State) (fh fw : List Nat) (w q : Nat) (h : s.InvS) :
    (applyAct s fh fw (.storeWeak w q)).InvS := by
  simp only [applyAct]
  cases h1 : nthMod s.wroots w with
  | none => exact h
  | some t =>
    cases h2 : s.useRoot q with
    | none => exact h.badRoot q
    | some o =>
      intro herr
      have e0 : s.err = none := ((modVal_err_eq_none_iff _ _ _).mp herr).1
      exact (h e0).storeWeak

theorem applyAct_invS_take (s : State) (fh fw : List Nat) (q k : Nat) (h : s.InvS) :
    (applyAct s fh fw (.take q k)).InvS := by
  simp only [applyAct]
  cases h1 : s.useRoot q with
  | none => exact h.badRoot q
  | some o =>
    dsimp only
    cases hv : s.valOf o with
    | none => exact InvS_fail _ _
    | some v =>
      dsimp only
      cases hk : nthMod v.held k with
      | none => exact h
      | some t =>
        intro herr
        have e1 : (s.modVal o (fun v => { v with held := v.held.eraseIdx (idxMod v.held k) })).err = none := herr
        rw [modVal_err _ hv] at e1
        exact (h e1).take hv (getElem?_idxMod_of_nthMod hk) _ rfl

theorem applyAct_invS_link (s : State) (fh fw : List Nat) (r q : Nat) (hI : s.Inv) (h : s.InvS) :
    (applyAct s fh fw (.link r q)).InvS := by
  simp only [applyAct]
  cases h1 : s.useRoot r with
  | none => exact (h.badRoot r).badRoot q
  | some t =>
    cases h2 : s.useRoot q with
    | none => exact (h.badRoot r).badRoot q
    | some o =>
      simp only []
      split
      · exact h
      · intro herr
        have e1 : (s.adopt o t false).err = none := ((modVal_err_eq_none_iff _ _ _).mp herr).1
        have e0 : s.err = none := ((adopt_err_eq_none_iff _ _ _ _).mp e1).1
        have ht := (useRoot_some h1).2
        have ho := (useRoot_some h2).2
        exact ((h e0).adopt ho ht false).store ((hI e0).adopt ho ht false).1 (i := idxMod s.roots r)
          (by rw [adopt_roots]; exact (useRoot_some h1).1) (by simpa using ho)

theorem applyAct_invS_unlink (s : State) (fh fw : List Nat) (q k : Nat) (h : s.InvS) :
    (applyAct s fh fw (.unlink q k)).InvS := by
  simp only [applyAct]
  cases h1 : s.useRoot q with
  | none => exact h.badRoot q
  | some o =>
    dsimp only
    cases hv : s.valOf o with
    | none => exact InvS_fail _ _
    | some v =>
      dsimp only
      cases hk : nthMod v.held k with
      | none => exact h
      | some t =>
        simp only []
        split
        · next hlt =>
          intro herr
          have e2 : ((s.modVal o (fun v => { v with held := v.held.eraseIdx (idxMod v.held k) })).unadopt
              o t false).err = none := herr
          have e1 := ((unadopt_err_eq_none_iff _ _ _ _).mp e2).1
          rw [modVal_err _ hv] at e1
          exact (h e1).unlink hv (getElem?_idxMod_of_nthMod hk) _ rfl (useRoot_some h1).2
            (by simpa using hlt)
        · intro herr
          exact absurd herr (fail_err_ne_none _ _)

theorem applyOp_invS_setScript (s : State) (q : Nat) (acts : List Act) (h : s.InvS) :
    (applyOp s (.setScript q acts)).InvS := by
  simp only [applyOp]
  split
  · exact InvS_modVal h _ _ (fun _ => rfl)
  · exact h.badRoot q

theorem applyOp_invS_shuffle (s : State) (q i : Nat) (h : s.InvS) :
    (applyOp s (.shuffle q i)).InvS := by
  simp only [applyOp]
  cases h1 : s.useRoot q with
  | none => exact h.badRoot q
  | some o =>
    intro herr
    have e0 : s.err = none := ((setLinks_err_eq_none_iff _ _ _).mp herr).1
    exact (h e0).swap (useRoot_some h1).2 i

namespace State

/-! ## updates that change nothing `InvS` reads: counters and link tables -/

/-- `s'` differs from `s` only in counters, link tables and `err` -/
structure Quiet (s s' : State) : Prop where
  roots : s'.roots = s.roots
  raws : s'.raws = s.raws
  vals : s'.vals = s.vals
  stack : s'.stack = s.stack
  len : s'.heap.length = s.heap.length
  isLive : ∀ x, s'.isLive x = s.isLive x
  heldOf : ∀ x, s'.heldOf x = s.heldOf x
  wit : ∀ x, s.Wit x → s'.Wit x
  err : s'.err = none → s.err = none

namespace Quiet

theorem refl (s : State) : Quiet s s :=
  ⟨rfl, rfl, rfl, rfl, rfl, fun _ => rfl, fun _ => rfl, fun _ h => h, fun h => h⟩

theorem trans {s s' s'' : State} (h1 : Quiet s s') (h2 : Quiet s' s'') : Quiet s s'' :=
  ⟨h2.roots.trans h1.roots, h2.raws.trans h1.raws, h2.vals.trans h1.vals, h2.stack.trans h1.stack,
    h2.len.trans h1.len, fun x => (h2.isLive x).trans (h1.isLive x),
    fun x => (h2.heldOf x).trans (h1.heldOf x), fun x h => h2.wit x (h1.wit x h),
    fun h => h1.err (h2.err h)⟩

theorem fail (s : State) (e : Err) : Quiet s (s.fail e) :=
  ⟨by simp, by simp, by simp, by simp, by simp, fun _ => by simp, fun _ => by simp,
    fun _ h => Wit_fail e h, fun h => absurd h (fail_err_ne_none s e)⟩

theorem setLinks (s : State) (o : Nat) (f : Table → Table) : Quiet s (s.setLinks o f) :=
  ⟨by simp, by simp, by simp, by simp, by simp, fun _ => by simp, fun _ => by simp,
    fun _ h => Wit_setLinks o f h, fun h => ((setLinks_err_eq_none_iff s o f).mp h).1⟩

theorem incStrong (s : State) (o : Nat) : Quiet s (s.incStrong o) :=
  ⟨by simp, by simp, by simp, by simp, by simp, fun _ => by simp, fun _ => by simp,
    fun _ h => Wit_incStrong o h, fun h => ((incStrong_err_eq_none_iff s o).mp h).1⟩

theorem incWeak (s : State) (o : Nat) : Quiet s (s.incWeak o) :=
  ⟨by simp, by simp, by simp, by simp, by simp, fun _ => by simp, fun _ => by simp,
    fun _ h => Wit_incWeak o h, fun h => ((incWeak_err_eq_none_iff s o).mp h).1⟩

theorem foldl {α : Type} (g : State → α → State) (hg : ∀ s a, Quiet s (g s a)) :
    ∀ (l : List α) (s : State), Quiet s (l.foldl g s) := by
  intro l
  induction l with
  | nil => intro s; exact refl s
  | cons a l ih => intro s; exact (hg s a).trans (ih (g s a))

theorem ext {s s' : State} (h : Quiet s s') (o : Nat) : s'.ext o = s.ext o :=
  ext_congr h.roots h.raws h.vals o

theorem pend {s s' : State} (h : Quiet s s') (o : Nat) : s'.pend o = s.pend o :=
  pend_congr h.stack o

theorem inHeap {s s' : State} (h : Quiet s s') (o : Nat) : s'.inHeap o = s.inHeap o := by
  simp only [inHeap_def, h.len, H_def, h.heldOf]

end Quiet

theorem Quiet.purgeOne (x : Nat) (s : State) (e : Link × Nat) : Quiet s (purgeOne x s e) := by
  unfold State.purgeOne
  split
  · exact Quiet.refl s
  · exact Quiet.setLinks _ _ _

theorem Quiet.purgePeers (s : State) (x : Nat) : Quiet s (s.purgePeers x) := by
  unfold State.purgePeers
  split
  · exact (Quiet.foldl _ (Quiet.purgeOne x) _ s).trans (Quiet.setLinks _ _ _)
  · exact Quiet.fail _ _

theorem Quiet.cloneHandles (s : State) (v : Val) : Quiet s (s.cloneHandles v) := by
  unfold State.cloneHandles
  exact (Quiet.foldl _ Quiet.incStrong _ s).trans (Quiet.foldl _ Quiet.incWeak _ _)

/-- what `giveUp` does, as far as `InvS` can see -/
theorem giveUp_spec (s : State) (o : Nat) (herr : (s.giveUp o).err = none) :
    s.err = none
    ∧ (s.giveUp o).roots = s.roots ∧ (s.giveUp o).raws = s.raws ∧ (s.giveUp o).vals = s.vals
    ∧ (s.giveUp o).stack = s.stack
    ∧ (∀ x, x ≠ o → (s.giveUp o).isLive x = s.isLive x)
    ∧ (s.giveUp o).isLive o = false
    ∧ (∀ t, (s.giveUp o).inHeap t + (s.heldOf o).count t = s.inHeap t)
    ∧ (∀ x, x ≠ o → s.Wit x → (s.giveUp o).Wit x) := by
  have hq := Quiet.purgePeers s o
  unfold giveUp at herr ⊢
  cases hc : (s.purgePeers o).cell o with
  | none =>
    rw [hc] at herr
    exact absurd herr (fail_err_ne_none _ _)
  | some ob =>
    rw [hc] at herr
    simp only []
    have hg := get_of_cell hc
    have hlt := get_lt hg
    have e1 : (s.purgePeers o).err = none :=
      ((decWeakFree_err_eq_none_iff _ _ _).mp herr).1
    refine ⟨hq.err e1, by simp [hq.roots], by simp [hq.raws], by simp [hq.vals], by simp [hq.stack],
      ?_, ?_, ?_, ?_⟩
    · intro x hx
      rw [isLive_decWeakFree_other _ _ hx, isLive_setObj_other _ _ hx, hq.isLive]
    · cases hl : State.isLive _ o with
      | false => rfl
      | true =>
        have := isLive_decWeakFree_le _ _ _ _ hl
        rw [isLive_setObj_same _ hlt] at this
        simp at this
    · intro t
      have := inHeap_setObj { ob with strong := .cnt 0, value := none, links := none } hg t
      rw [inHeap_decWeakFree]
      simp only [Obj.heldList_mk_none, List.count_nil, hq.heldOf, hq.inHeap] at this
      omega
    · intro x hx hw
      obtain ⟨obx, hgx, r⟩ := hq.wit x hw
      refine ⟨obx, ?_, r⟩
      rw [getElem?_decWeakFree_other _ _ hx, getElem?_setObj_other _ _ hx]
      exact hgx

end State

open State

/-! ## `try_unwrap` -/

theorem applyAct_invS_tryUnwrap (s : State) (fh fw : List Nat) (r : Nat) (hI : s.Inv) (h : s.InvS) :
    (applyAct s fh fw (.tryUnwrap r)).InvS := by
  simp only [applyAct]
  cases hu : s.useRoot r with
  | none => exact h.badRoot r
  | some o =>
    dsimp only
    cases hc : s.cell o with
    | none => exact InvS_fail _ _
    | some ob =>
      dsimp only
      split
      · rename_i v hs hv
        intro herr
        obtain ⟨hr, hlo⟩ := useRoot_some hu
        have hg := get_of_cell hc
        obtain ⟨herr0, g1, g2, g3, g4, g5, g6, g7, g8⟩ := giveUp_spec
          ({ s with roots := s.roots.eraseIdx (idxMod s.roots r), vals := s.vals ++ [v] } : State) o herr
        have herr0 : s.err = none := herr0
        have hcS := h herr0
        have hC := (hI herr0).2.2.1 o hlo
        rw [strongNat_of_get hg, hs] at hC
        simp only [Strong.toNat_cnt] at hC
        have hpos := ext_pos_of_useRoot hu
        have hheld : ({ s with roots := s.roots.eraseIdx (idxMod s.roots r), vals := s.vals ++ [v] } : State).heldOf o
            = v.held := by
          show s.heldOf o = v.held
          rw [heldOf_of_get hg, Obj.heldList_of_some hv]
        rw [hheld] at g7
        have hE : ∀ x, (State.giveUp { s with roots := s.roots.eraseIdx (idxMod s.roots r), vals := s.vals ++ [v] } o).ext x
            + (if o = x then 1 else 0) = s.ext x + v.held.count x := by
          intro x
          have := ext_withRootsVals_eraseIdx_append s (idxMod s.roots r) v x
          rw [ext_congr g1 g2 g3]
          simp only [hr, Option.some.injEq] at this
          exact this
        have hH : ∀ x, (State.giveUp { s with roots := s.roots.eraseIdx (idxMod s.roots r), vals := s.vals ++ [v] } o).inHeap x
            + v.held.count x = s.inHeap x := g7
        have hP : ∀ x, (State.giveUp { s with roots := s.roots.eraseIdx (idxMod s.roots r), vals := s.vals ++ [v] } o).pend x
            = s.pend x := fun x => pend_congr g4 x
        refine hcS.general ?_ ?_ ?_ ?_ ?_
        · intro x hl hl'
          by_cases hx : x = o
          · subst hx
            have := hE x; have := hH x; have := hP x
            simp only [if_true] at *
            simp only [ext_emit, inHeap_emit, pend_emit]
            omega
          · have : State.isLive _ x = s.isLive x := g5 x hx
            rw [isLive_emit, this, hl] at hl'; cases hl'
        · intro x _ hl h0
          have hx : o ≠ x := fun e => by rw [← e, hlo] at hl; cases hl
          have := hE x; have := hH x
          simp only [if_neg hx] at *
          simp only [ext_emit, inHeap_emit]
          omega
        · intro x _ _ _
          rw [pend_emit, hP]; exact Nat.le_refl _
        · intro x _ _ hw
          have hx : x ≠ o := fun e => by
            have := hw.not_live; rw [e, hlo] at this; cases this
          exact (Wit_congr (emit_heap _ _) x).mpr (g8 x hx hw)
        · intro x
          rw [emit_stack, g4]; exact hcS.2.2 x
      · exact InvS_fail _ _
      · exact h.emit _

namespace State

/-! ## `make_mut` -/

/-- clone branch: the handles of the live value are copied into a fresh allocation whose handle
replaces the root; the old root handle goes to a new `rcDrop` frame -/
theorem InvSCore.makeMut_clone_le {s sc s' : State} {o : Nat} {v v' : Val} (h : s.InvSCore)
    (hq : Quiet s sc) (hlo : s.isLive o = true) (hheld : s.heldOf o = v.held)
    (hv' : ∀ x, v'.held.count x ≤ v.held.count x)
    (hh : s'.heap = (sc.alloc v').heap) (hst : s'.stack = .rcDrop o :: sc.stack)
    (he : ∀ x, s'.ext x + (if o = x then 1 else 0)
      = sc.ext x + (if s.heap.length = x then 1 else 0)) : s'.InvSCore := by
  have hlive : ∀ x, s'.isLive x = true ↔ s.isLive x = true ∨ x = s.heap.length := by
    intro x
    rw [isLive_congr hh, isLive_alloc_iff, hq.isLive, hq.len]
  have hH : ∀ x, v.held.count x ≤ s.inHeap x := by
    intro x
    have := H_le_inHeap s o x
    rwa [H_def, hheld] at this
  refine h.general ?_ ?_ ?_ ?_ ?_
  · intro x hl hl'
    rw [(hlive x).mpr (Or.inl hl)] at hl'; cases hl'
  · intro x hl' hl h0
    have hx : o ≠ x := fun e => by rw [← e, hlo] at hl; cases hl
    have hx2 : s.heap.length ≠ x := fun e => by
      rw [(hlive x).mpr (Or.inr e.symm)] at hl'; cases hl'
    have h1 := he x
    have h2 := hH x
    rw [if_neg hx, if_neg hx2, hq.ext] at h1
    have h3 := hv' x
    rw [inHeap_congr hh, inHeap_alloc, hq.inHeap]
    omega
  · intro x hl' hl h0
    have hx : o ≠ x := fun e => by rw [← e, hlo] at hl; cases hl
    simp only [pend_def, hst, List.map_cons, sumList_cons, Frame.strongTo_rcDrop, if_neg hx,
      hq.stack]
    omega
  · intro x _ _ hw
    exact (Wit_congr hh x).mpr (Wit_alloc _ (hq.wit x hw))
  · intro x
    rw [hst, belowPhase3_rcDrop, hq.stack]; exact h.2.2 x

/-- clone branch, deep `Clone`: the fresh value holds copies of exactly the handles of `v` -/
theorem InvSCore.makeMut_clone {s sc s' : State} {o : Nat} {v v' : Val} (h : s.InvSCore)
    (hq : Quiet s sc) (hlo : s.isLive o = true) (hheld : s.heldOf o = v.held)
    (hv' : v'.held = v.held)
    (hh : s'.heap = (sc.alloc v').heap) (hst : s'.stack = .rcDrop o :: sc.stack)
    (he : ∀ x, s'.ext x + (if o = x then 1 else 0)
      = sc.ext x + (if s.heap.length = x then 1 else 0)) : s'.InvSCore :=
  h.makeMut_clone_le hq hlo hheld (fun x => by rw [hv']; exact Nat.le_refl _) hh hst he

/-- clone branch, shallow `Clone`: the fresh value holds no handle at all -/
theorem InvSCore.makeMut_clone_shallow {s s' : State} {o : Nat} {v v' : Val} (h : s.InvSCore)
    (hlo : s.isLive o = true) (hheld : s.heldOf o = v.held)
    (hv' : v'.held = [])
    (hh : s'.heap = (s.alloc v').heap) (hst : s'.stack = .rcDrop o :: s.stack)
    (he : ∀ x, s'.ext x + (if o = x then 1 else 0)
      = s.ext x + (if s.heap.length = x then 1 else 0)) : s'.InvSCore :=
  h.makeMut_clone_le (Quiet.refl s) hlo hheld (fun x => by rw [hv']; simp) hh hst he

/-- steal branch: the value moves to a fresh allocation whose handle replaces the root; the old
allocation, to which the root was the only strong handle, is given up -/
theorem InvSCore.makeMut_steal {s sb : State} {o : Nat} {v : Val} (h : s.InvSCore) (hC : s.InvC)
    (hlo : s.isLive o = true) (hst1 : s.strongNat o = 1) (hheld : s.heldOf o = v.held)
    (hh : sb.heap = (s.alloc v).heap) (hst : sb.stack = s.stack)
    (he : ∀ x, sb.ext x + (if o = x then 1 else 0)
      = s.ext x + (if s.heap.length = x then 1 else 0))
    (herr : (sb.giveUp o).err = none) : (sb.giveUp o).InvSCore := by
  obtain ⟨-, g1, g2, g3, g4, g5, g6, g7, g8⟩ := giveUp_spec sb o herr
  have holt : o < s.heap.length := isLive_lt hlo
  have hone : o ≠ s.heap.length := Nat.ne_of_lt holt
  have hheld' : sb.heldOf o = v.held := by
    rw [heldOf_congr hh, heldOf_alloc_old s v hone, hheld]
  have hE : ∀ x, (sb.giveUp o).ext x + (if o = x then 1 else 0)
      = s.ext x + (if s.heap.length = x then 1 else 0) := by
    intro x; rw [ext_congr g1 g2 g3]; exact he x
  have hH : ∀ x, (sb.giveUp o).inHeap x = s.inHeap x := by
    intro x
    have := g7 x
    rw [hheld', inHeap_congr hh, inHeap_alloc] at this
    omega
  have hP : ∀ x, (sb.giveUp o).pend x = s.pend x := fun x => by
    rw [pend_congr g4, pend_congr hst]
  have hlive : ∀ x, x ≠ o → ((sb.giveUp o).isLive x = true ↔ s.isLive x = true ∨ x = s.heap.length) := by
    intro x hx
    rw [g5 x hx, isLive_congr hh, isLive_alloc_iff]
  have hCo := hC o hlo
  refine h.general ?_ ?_ ?_ ?_ ?_
  · intro x hl hl'
    by_cases hx : x = o
    · subst hx
      have h1 := hE x
      have h2 : 0 < s.ext x + s.inHeap x + s.pend x := by omega
      rw [if_pos rfl, if_neg (Ne.symm hone)] at h1
      rw [hH, hP]
      omega
    · rw [(hlive x hx).mpr (Or.inl hl)] at hl'; cases hl'
  · intro x hl' hl h0
    have hx : o ≠ x := fun e => by rw [← e, hlo] at hl; cases hl
    have hx2 : s.heap.length ≠ x := fun e => by
      rw [(hlive x (Ne.symm hx)).mpr (Or.inr e.symm)] at hl'; cases hl'
    have h1 := hE x
    rw [if_neg hx, if_neg hx2] at h1
    rw [hH]; omega
  · intro x _ _ _; rw [hP]; exact Nat.le_refl _
  · intro x _ _ hw
    have hx : x ≠ o := fun e => by
      have := hw.not_live; rw [e, hlo] at this; cases this
    exact g8 x hx ((Wit_congr hh x).mpr (Wit_alloc v hw))
  · intro x
    rw [g4, hst]; exact h.2.2 x

end State

open State

theorem applyAct_invS_makeMut (s : State) (fh fw : List Nat) (r : Nat) (hI : s.Inv) (h : s.InvS) :
    (applyAct s fh fw (.makeMut r)).InvS := by
  simp only [applyAct]
  cases hu : s.useRoot r with
  | none => exact h.badRoot r
  | some o =>
    dsimp only
    cases hc : s.cell o with
    | none => exact InvS_fail _ _
    | some ob =>
      dsimp only
      cases hv : ob.value with
      | none => exact InvS_fail _ _
      | some v =>
        dsimp only
        obtain ⟨hr, hlo⟩ := useRoot_some hu
        have hg := get_of_cell hc
        have hheld : s.heldOf o = v.held := by
          rw [heldOf_of_get hg, Obj.heldList_of_some hv]
        have hilt : idxMod s.roots r < s.roots.length :=
          idxMod_lt_of_nthMod ((useRoot_eq_some_iff s r o).mp hu).1
        split
        · -- clone
          by_cases hsh : v.shallow = true
          · -- shallow `Clone`: no handle is copied
            simp only [if_pos hsh]
            intro herr
            have herr0 : s.err = none := herr
            refine (h herr0).makeMut_clone_shallow (v := v)
              (v' := { v with vid := s.nextVid, held := [], weaks := [] }) hlo hheld rfl rfl rfl ?_
            intro x
            have := ext_withRoots_set (s.alloc { v with vid := s.nextVid, held := [], weaks := [] })
              (idxMod s.roots r) s.heap.length x (by simpa using hilt)
            simp only [alloc_roots, hr, Option.some.injEq, ext_alloc] at this
            exact this
          simp only [if_neg hsh]
          intro herr
          have hq := Quiet.cloneHandles s v
          have herr0 : s.err = none := hq.err herr
          refine (h herr0).makeMut_clone (v' := { v with vid := s.nextVid }) hq hlo hheld rfl rfl rfl ?_
          intro x
          have := ext_withRoots_set ((s.cloneHandles v).alloc { v with vid := s.nextVid })
            (idxMod s.roots r) s.heap.length x (by simpa [hq.roots] using hilt)
          have hr' : ((s.cloneHandles v).alloc { v with vid := s.nextVid }).roots[idxMod s.roots r]?
              = some o := by rw [alloc_roots, hq.roots]; exact hr
          rw [hr'] at this
          simp only [Option.some.injEq, ext_alloc] at this
          exact this
        · split
          · -- steal
            rename_i hs1 hw1
            have hs1 : ob.strong = .cnt 1 := by
              cases hd : decide (ob.strong = .cnt 1) <;> simp_all
            intro herr
            have herr1 : (State.giveUp { s.alloc v with roots := (s.alloc v).roots.set (idxMod s.roots r) s.heap.length } o).err
                = none := herr
            have herr0 : s.err = none := (giveUp_spec _ o herr1).1
            refine InvSCore_congr (s := State.giveUp { s.alloc v with roots := (s.alloc v).roots.set (idxMod s.roots r) s.heap.length } o)
              ?_ rfl rfl (fun _ => rfl)
            refine (h herr0).makeMut_steal (hI herr0).2.2.1 hlo ?_ hheld rfl rfl ?_ herr1
            · rw [strongNat_of_get hg, hs1]; rfl
            · intro x
              have := ext_withRoots_set (s.alloc v) (idxMod s.roots r) s.heap.length x (by simpa using hilt)
              simp only [alloc_roots, hr, Option.some.injEq, ext_alloc] at this
              exact this
          · exact h.emit _

namespace State

end State

open State

/-! ## every action -/

/-- `InvS` is preserved by every user-level action (the adoption contract is not needed) -/
theorem applyAct_invS (s : State) (fh fw : List Nat) (a : Act) (hI : s.Inv) (hS : s.InvS) :
    (applyAct s fh fw a).InvS := by
  cases a with
  | new => exact applyAct_invS_new s fh fw hS
  | clone r => exact applyAct_invS_clone s fh fw r hS
  | drop r => exact applyAct_invS_drop s fh fw r hS
  | adopt r1 r2 => exact applyAct_invS_adopt s fh fw r1 r2 hS
  | unadopt r1 r2 => exact applyAct_invS_unadopt s fh fw r1 r2 hS
  | store r q => exact applyAct_invS_store s fh fw r q hI hS
  | take q k => exact applyAct_invS_take s fh fw q k hS
  | link r q => exact applyAct_invS_link s fh fw r q hI hS
  | unlink q k => exact applyAct_invS_unlink s fh fw q k hS
  | downgrade r => exact applyAct_invS_downgrade s fh fw r hS
  | upgrade w => exact applyAct_invS_upgrade s fh fw w hS
  | cloneWeak w => exact applyAct_invS_cloneWeak s fh fw w hS
  | dropWeak w => exact applyAct_invS_dropWeak s fh fw w hS
  | storeWeak w q => exact applyAct_invS_storeWeak s fh fw w q hS
  | tryUnwrap r => exact applyAct_invS_tryUnwrap s fh fw r hI hS
  | dropValue i => exact applyAct_invS_dropValue s fh fw i hS
  | makeMut r => exact applyAct_invS_makeMut s fh fw r hI hS
  | getMut r => exact applyAct_invS_getMut s fh fw r hS
  | intoRaw r => exact applyAct_invS_intoRaw s fh fw r hS
  | fromRaw i => exact applyAct_invS_fromRaw s fh fw i hS
  | incStrong i => exact applyAct_invS_incStrong s fh fw i hS
  | decStrong i => exact applyAct_invS_decStrong s fh fw i hS
  | ptrEq r1 r2 => exact applyAct_invS_ptrEq s fh fw r1 r2 hS
  | counts r => exact applyAct_invS_counts s fh fw r hS
  | wcounts w => exact applyAct_invS_wcounts s fh fw w hS
  | setPanic q => exact applyAct_invS_setPanic s fh fw q hS
  | setShallow q => exact applyAct_invS_setShallow s fh fw q hS
  | upgradeField k => exact applyAct_invS_upgradeField s fh fw k hS
  | cloneField k => exact applyAct_invS_cloneField s fh fw k hS
  | downgradeField k => exact applyAct_invS_downgradeField s fh fw k hS

/-- `InvS` is preserved by every top-level operation -/
theorem applyOp_invS (s : State) (op : Op) (hI : s.Inv) (hS : s.InvS) : (applyOp s op).InvS := by
  cases op with
  | act a => exact applyAct_invS s [] [] a hI hS
  | setScript q acts => exact applyOp_invS_setScript s q acts hS
  | shuffle q i => exact applyOp_invS_shuffle s q i hS

namespace State

/-! ## frame steps -/

theorem Wit_decWeakFree_false {s : State} (a : Nat) {o : Nat} (hw : s.Wit o) :
    (s.decWeakFree a false).Wit o := by
  rcases decWeakFree_cases s a false with ⟨e, he⟩ | ⟨ob, hc, hw1, he⟩ | ⟨ob, w, hc, hw2, he⟩ <;> rw [he]
  · exact Wit_fail e hw
  · refine (Wit_congr (emit_heap _ _) o).mpr (Wit_setObj (get_of_cell hc) ?_ hw)
    intro h1 h2 h3; exact ⟨h1, h2, by simp [h3]⟩
  · refine Wit_setObj (get_of_cell hc) ?_ hw
    intro h1 h2 h3; exact ⟨h1, h2, by simp [h3]⟩

theorem Wit_decWeakFree_other {s : State} {a o : Nat} (imp : Bool) (hne : o ≠ a) (hw : s.Wit o) :
    (s.decWeakFree a imp).Wit o := by
  obtain ⟨ob, hg, r⟩ := hw
  exact ⟨ob, by rw [getElem?_decWeakFree_other s imp hne]; exact hg, r⟩

/-- releasing a weak reference of an object that is not live changes no liveness -/
theorem isLive_decWeakFree_of_not_live {s : State} {a : Nat} (imp : Bool) (h : s.isLive a = false)
    (x : Nat) : (s.decWeakFree a imp).isLive x = s.isLive x := by
  by_cases hx : x = a
  · subst hx
    cases hl : (s.decWeakFree x imp).isLive x with
    | false => rw [h]
    | true => rw [isLive_decWeakFree_le s x imp x hl] at h; cases h
  · exact isLive_decWeakFree_other s imp hx

/-- popping the top frame -/
theorem pop_InvSCore {s : State} {f : Frame} {rest : List Frame} (hst : s.stack = f :: rest)
    (h : s.InvSCore) : ({ s with stack := rest } : State).InvSCore := by
  refine h.of_live_eq (fun _ => rfl) (fun o _ h0 => h0) ?_ (fun o hw => hw) ?_
  · intro o _ _
    rw [pend_of_stack_cons hst o]; omega
  · intro o
    exact belowPhase3_tail (f := f) (by rw [← hst]; exact h.2.2) o

/-- 1. `Weak::drop` -/
theorem step_invS_weakDrop {s : State} {rest : List Frame} {o : Nat}
    (hst : s.stack = Frame.weakDrop o :: rest) (herr : s.err = none) (hI : s.Inv) (hS : s.InvS) :
    (({ s with stack := rest } : State).weakDrop o).InvS := by
  intro herr'
  obtain ⟨hO, -, -, hW, -⟩ := hI herr
  unfold weakDrop at herr' ⊢
  obtain ⟨-, ob, hc, hw0⟩ := (decWeakFree_err_eq_none_iff _ _ _).mp herr'
  have hc' : s.cell o = some ob := hc
  have hg := get_of_cell hc'
  have hlive : ∀ x, (({ s with stack := rest } : State).decWeakFree o false).isLive x = s.isLive x := by
    intro x
    cases hl : s.isLive o with
    | false => exact isLive_decWeakFree_of_not_live (s := { s with stack := rest }) false hl x
    | true =>
      by_cases hx : x = o
      · subst hx
        rw [isLive_decWeakFree_same false hc hw0]
        have h1 := hW x (get_lt hg)
        have h2 := pendW_of_stack_cons hst x
        rw [Frame.weakTo_weakDrop, if_pos rfl] at h2
        rw [isLive_of_get hg] at hl
        have hnd : ob.strong.isDead = false := by
          cases hd : ob.strong.isDead <;> simp [hd] at hl ⊢
        obtain ⟨n, hn⟩ := (Strong.isDead_eq_false_iff _).mp hnd
        have himp := ((hO x ob hg).1 n hn).2.2.2
        rw [weakNat_of_get hg, implicitNat_of_get hg, himp] at h1
        have : ob.weak ≠ 1 := by simp at h1; omega
        simp [this]
      · exact isLive_decWeakFree_other _ false hx
  refine (hS herr).of_live_eq hlive ?_ ?_ ?_ ?_
  · intro x _ h0
    simpa using h0
  · intro x _ _
    rw [pend_decWeakFree, pend_of_stack_cons hst x]; omega
  · intro x hw
    exact Wit_decWeakFree_false (s := { s with stack := rest }) o hw
  · intro x
    rw [decWeakFree_stack_imp]
    exact belowPhase3_tail (f := Frame.weakDrop o) (by rw [← hst]; exact (hS herr).2.2) x

/-- 2. `drop(inner)` -/
theorem step_invS_dropVal {s : State} {rest : List Frame} {v : Val}
    (hst : s.stack = Frame.dropVal v :: rest) (herr : s.err = none) (hS : s.InvS) :
    (({ s with stack := rest } : State).dropVal v).InvS := by
  intro _
  refine (hS herr).of_live_eq (fun _ => rfl) (fun o _ h0 => h0) ?_ (fun o hw => hw) ?_
  · intro o _ _
    rw [pend_dropVal, pend_of_stack_cons hst o]; simp
  · intro o
    have h3 := (hS herr).2.2 o
    rw [hst] at h3
    unfold dropVal
    cases v.panics <;> simpa using h3

/-- 3. a destructor body that has run to its end -/
theorem step_invS_scriptNil {s : State} {rest : List Frame} {hh ww : List Nat}
    (hst : s.stack = Frame.script hh ww [] :: rest) (herr : s.err = none) (hS : s.InvS) :
    ({ s with stack := rest } : State).InvS :=
  fun _ => pop_InvSCore hst (hS herr)

/-- 4. the destructor panics -/
theorem step_invS_panic {s : State} {rest : List Frame}
    (hst : s.stack = Frame.panic :: rest) (herr : s.err = none) (hS : s.InvS) :
    (({ s with stack := rest } : State).panic).InvS := by
  intro _
  have h0 : ({ s with stack := rest } : State).InvSCore := pop_InvSCore hst (hS herr)
  refine h0.of_live_eq (isLive_congr (panic_heap _)) ?_ ?_ (fun o => (Wit_congr (panic_heap _) o).mpr) ?_
  · intro o _ h
    rw [ext_panic, inHeap_congr (panic_heap _)]; exact h
  · intro o _ _
    rw [pend_panic]; exact Nat.le_refl _
  · intro o
    unfold panic
    split
    · rw [fail_stack]; exact h0.2.2 o
    · exact belowPhase3_filter_cleanup o _

/-- 5. drop glue of the fields -/
theorem step_invS_dropFields {s : State} {rest : List Frame} {hs ws : List Nat}
    (hst : s.stack = Frame.dropFields hs ws :: rest) (herr : s.err = none) (hS : s.InvS) :
    (({ s with stack := rest } : State).dropFields hs ws).InvS := by
  intro _
  obtain ⟨fs, hfs⟩ := dropFields_eq_push ({ s with stack := rest } : State) hs ws
  have hheap : (({ s with stack := rest } : State).dropFields hs ws).heap = s.heap := by
    rw [hfs]; rfl
  refine (hS herr).of_live_eq (isLive_congr hheap) ?_ ?_ (fun o => (Wit_congr hheap o).mpr) ?_
  · intro o _ h0
    rw [inHeap_congr hheap, hfs]; exact h0
  · intro o _ _
    rw [pend_dropFields, pend_of_stack_cons hst o]; simp
  · intro o
    have h3 := (hS herr).2.2 o
    rw [hst] at h3
    cases hs with
    | cons a hs => simpa [dropFields] using h3
    | nil =>
      cases ws with
      | cons a ws => simpa [dropFields] using h3
      | nil => simpa [dropFields] using h3

/-- 6. rest of `drop_unreachable*` -/
theorem step_invS_finishSingle {s : State} {rest : List Frame} {o : Nat}
    (hst : s.stack = Frame.finishSingle o :: rest) (herr : s.err = none) (hI : s.Inv)
    (hS : s.InvS) : (({ s with stack := rest } : State).finishSingle o).InvS := by
  intro _
  have hcore := hI herr
  obtain ⟨ob, hget, hun, hlk, himpl⟩ :=
    hcore.2.2.2.2.1 o (by rw [hst]; exact List.mem_cons_self)
  have hc : ({ s with stack := rest } : State).cell o = some ob :=
    cell_of_implicit (s := s) hcore.1 hcore.2.2.2.1 hget himpl
  have hfs : ({ s with stack := rest } : State).finishSingle o
      = (({ s with stack := rest } : State).setObj o { ob with links := none }).decWeakFree o true := by
    unfold finishSingle
    rw [hc]
    simp only [hlk]
  rw [hfs]
  have hnl : s.isLive o = false := by rw [isLive_of_get hget, hun]; simp
  have hnl1 : (({ s with stack := rest } : State).setObj o { ob with links := none }).isLive o = false := by
    rw [isLive_setObj_of_eq (s := { s with stack := rest }) (ob' := { ob with links := none }) hget rfl rfl]; exact hnl
  have hlive : ∀ x, ((({ s with stack := rest } : State).setObj o { ob with links := none }).decWeakFree o true).isLive x
      = s.isLive x := by
    intro x
    rw [isLive_decWeakFree_of_not_live true hnl1,
      isLive_setObj_of_eq (s := { s with stack := rest }) (ob' := { ob with links := none }) hget rfl rfl]
    rfl
  refine (hS herr).general ?_ ?_ ?_ ?_ ?_
  · intro x hl hl'
    rw [hlive, hl] at hl'; cases hl'
  · intro x _ _ h0
    rw [ext_decWeakFree, inHeap_decWeakFree, ext_setObj,
      inHeap_setObj_of_value_eq (s := { s with stack := rest }) { ob with links := none } hget rfl]
    exact h0
  · intro x _ _ _
    rw [pend_decWeakFree, pend_setObj, pend_of_stack_cons hst x]; omega
  · intro x _ _ hw
    have hx : x ≠ o := by
      intro e
      obtain ⟨ob2, hg2, -, hl2, -⟩ := hw
      rw [e, hget] at hg2; cases hg2
      rw [hlk] at hl2; cases hl2
    exact Wit_decWeakFree_other true hx (Wit_setObj_other (s := { s with stack := rest }) _ hx hw)
  · intro x
    rw [decWeakFree_stack_imp, setObj_stack]
    exact belowPhase3_tail (f := Frame.finishSingle o) (by rw [← hst]; exact (hS herr).2.2) x

/-- one iteration of phase 3, as far as `InvS` can see -/
theorem phase3One_spec (s : State) (k : Nat) :
    (phase3One s k).roots = s.roots ∧ (phase3One s k).raws = s.raws ∧ (phase3One s k).vals = s.vals
    ∧ (phase3One s k).stack = s.stack
    ∧ (∀ x, (phase3One s k).isLive x = s.isLive x)
    ∧ (∀ x, (phase3One s k).inHeap x = s.inHeap x)
    ∧ (∀ x, x ≠ k → s.Wit x → (phase3One s k).Wit x) := by
  unfold phase3One
  cases hc : s.cell k with
  | none =>
    simp only []
    exact ⟨by simp, by simp, by simp, by simp, fun x => by simp, fun x => by simp,
      fun x _ hw => Wit_fail _ hw⟩
  | some ob =>
    simp only []
    split
    · rename_i hd
      have hnl : s.isLive k = false := by rw [isLive_of_cell hc, hd]; simp
      exact ⟨by simp, by simp, by simp, by simp, isLive_decWeakFree_of_not_live true hnl,
        fun x => by simp, fun x hx hw => Wit_decWeakFree_other true hx hw⟩
    · exact ⟨rfl, rfl, rfl, rfl, fun _ => rfl, fun _ => rfl, fun _ _ hw => hw⟩

theorem phase3_fold_spec : ∀ (ks : List Nat) (s : State),
    (ks.foldl phase3One s).roots = s.roots ∧ (ks.foldl phase3One s).raws = s.raws
    ∧ (ks.foldl phase3One s).vals = s.vals
    ∧ (ks.foldl phase3One s).stack = s.stack
    ∧ (∀ x, (ks.foldl phase3One s).isLive x = s.isLive x)
    ∧ (∀ x, (ks.foldl phase3One s).inHeap x = s.inHeap x)
    ∧ (∀ x, x ∉ ks → s.Wit x → (ks.foldl phase3One s).Wit x) := by
  intro ks
  induction ks with
  | nil => intro s; exact ⟨rfl, rfl, rfl, rfl, fun _ => rfl, fun _ => rfl, fun _ _ hw => hw⟩
  | cons k ks ih =>
    intro s
    obtain ⟨a1, a2, a3, a4, a5, a6, a7⟩ := phase3One_spec s k
    obtain ⟨b1, b2, b3, b4, b5, b6, b7⟩ := ih (phase3One s k)
    rw [List.foldl_cons]
    refine ⟨b1.trans a1, b2.trans a2, b3.trans a3, b4.trans a4, fun x => (b5 x).trans (a5 x),
      fun x => (b6 x).trans (a6 x), ?_⟩
    intro x hx hw
    simp only [List.mem_cons, not_or] at hx
    exact b7 x hx.2 (a7 x hx.1 hw)

/-- 7. phase 3 of `drop_cycle` -/
theorem step_invS_phase3 {s : State} {rest : List Frame} {ks : List Nat}
    (hst : s.stack = Frame.phase3 ks :: rest) (herr : s.err = none) (hS : s.InvS) :
    (ks.foldl phase3One ({ s with stack := rest } : State)).InvS := by
  intro _
  obtain ⟨b1, b2, b3, b4, b5, b6, b7⟩ := phase3_fold_spec ks ({ s with stack := rest } : State)
  have hP : ∀ x, (ks.foldl phase3One ({ s with stack := rest } : State)).pend x
      = ({ s with stack := rest } : State).pend x := fun x => pend_congr b4 x
  refine (hS herr).general ?_ ?_ ?_ ?_ ?_
  · intro x hl hl'
    rw [b5] at hl'
    rw [show s.isLive x = ({ s with stack := rest } : State).isLive x from rfl, hl'] at hl
    cases hl
  · intro x _ _ h0
    rw [ext_congr b1 b2 b3, b6]; exact h0
  · intro x _ _ _
    rw [hP, pend_of_stack_cons hst x]; omega
  · intro x _ hp hw
    by_cases hx : x ∈ ks
    · exfalso
      have h3 := (hS herr).2.2 x
      rw [hst, belowPhase3_phase3, if_pos hx] at h3
      rw [hP] at hp
      simp only [pend_withStack] at hp
      omega
    · exact b7 x hx hw
  · intro x
    rw [b4]
    exact belowPhase3_tail (f := Frame.phase3 ks) (by rw [← hst]; exact (hS herr).2.2) x

/-- 3'. a destructor body runs its next action -/
theorem step_invS_scriptCons {s : State} {rest : List Frame} {hh ww : List Nat} {a : Act}
    {as : List Act} (hst : s.stack = Frame.script hh ww (a :: as) :: rest) (herr : s.err = none)
    (hI : s.Inv) (hS : s.InvS) :
    (applyAct (({ s with stack := rest } : State).push [.script hh ww as]) hh ww a).InvS := by
  have hI1 : (({ s with stack := rest } : State).push [.script hh ww as]).Inv := by
    intro _
    have hmem : ∀ g, g ∈ (({ s with stack := rest } : State).push [.script hh ww as]).stack →
        g.isCont = true → g ∈ s.stack := by
      intro g hg hc
      rw [hst]
      simp only [push_stack, List.cons_append, List.nil_append, List.mem_cons] at hg
      rcases hg with rfl | hg
      · simp [Frame.isCont] at hc
      · exact List.mem_cons_of_mem _ hg
    refine InvCore_of_eq (s := s) rfl (fun _ => rfl) (fun _ => rfl) (fun o => ?_) (fun o => ?_)
      (fun o hm => hmem _ hm rfl) (fun ks hm => hmem _ hm rfl) (fun o => ?_) (hI herr)
    · rw [pend_push, pend_of_stack_cons hst o]; simp
    · rw [pendW_push, pendW_of_stack_cons hst o]; simp
    · rw [owed_push, owed_of_stack_cons hst o]; simp
  have hS1 : (({ s with stack := rest } : State).push [.script hh ww as]).InvS := by
    intro _
    refine (hS herr).of_live_eq (fun _ => rfl) (fun o _ h0 => h0) ?_ (fun o hw => hw) ?_
    · intro o _ _
      rw [pend_push, pend_of_stack_cons hst o]; simp
    · intro o
      have h3 := (hS herr).2.2 o
      rw [hst] at h3
      simpa using h3
  exact applyAct_invS _ hh ww a hI1 hS1

end State

open State

/-! ## summary -/

/-- `step` preserves `InvS` whenever the top frame is not an `rcDrop` -/
theorem step_invS_nonDrop (s : State) (hI : s.Inv) (hS : s.InvS)
    (hf : ∀ o rest, s.stack ≠ .rcDrop o :: rest) : (step s).InvS := by
  unfold step
  split
  · exact hS
  · rename_i herr
    split
    · exact hS
    · rename_i f rest hst
      split
      · rename_i o; exact absurd hst (hf o rest)
      · exact step_invS_weakDrop hst herr hI hS
      · exact step_invS_dropVal hst herr hS
      · exact step_invS_scriptNil hst herr hS
      · exact step_invS_scriptCons hst herr hI hS
      · exact step_invS_panic hst herr hS
      · exact step_invS_dropFields hst herr hS
      · exact step_invS_finishSingle hst herr hI hS
      · exact step_invS_phase3 hst herr hS

theorem endOp_invS (s : State) (hS : s.InvS) : (endOp s).InvS := by
  unfold endOp
  split
  · intro herr
    exact InvSCore_congr (hS herr) rfl rfl (fun _ => rfl)
  · exact hS

theorem begin_invS (s : State) (hint : List Nat) (hS : s.InvS) : (s.begin hint).InvS :=
  fun herr => InvSCore_congr (hS herr) rfl rfl (fun _ => rfl)

theorem fail_invS (s : State) (e : Err) : (s.fail e).InvS := InvS_fail s e

namespace State

end State
end Cactus
