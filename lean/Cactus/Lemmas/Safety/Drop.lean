import Cactus.Lemmas.Count
import Cactus.Lemmas.Orphan
import Cactus.Lemmas.CycleStruct
import Cactus.Lemmas.Inv.Frames
import Cactus.Lemmas.Inv.DropCycle
/-!
# Safety invariant `InvS`: preservation by the `rcDrop` step

Setting: `s.err = none`, `s.stack = .rcDrop o :: rest`, `s0 := { s with stack := rest }`,
`s.Inv`, `s.InvS`, and the adoption contract `s.P`.  Result: `(s0.rcDrop o).InvS`
(`rcDrop_invS`, `step_invS_rcDrop`).

* `InvSCore_transport`: `InvSCore` only reads `isLive`, `ext`, `inHeap`, `pend`, `belowPhase3` and
  the objects of non-live targets.
* `LinksOnly`: a step that rewrites link tables only (`setLinks`, `purgePeers`) keeps `InvSCore`.
* `beginSingle_invS`: the last-handle branch.
* `closure_core`, `closure_lemma`: a group that passed the orphan test has no holder outside the
  group (this is where the contract `P` is used).
* `Teardown.invSCore`: the group teardown keeps `InvSCore`.
* `trace_branch_invS`, `rcDrop_invS_core`, `rcDrop_invS`, `step_invS_rcDrop`.
-/
namespace Cactus
open State

/-! ## `belowPhase3` -/

theorem belowPhase3_cons_of_strongTo (x : Nat) (f : Frame) (rest : List Frame)
    (hf : ∀ ks, f ≠ Frame.phase3 ks) : belowPhase3 x (f :: rest) = belowPhase3 x rest := by
  cases f with
  | phase3 ks => exact absurd rfl (hf ks)
  | _ => rfl

@[simp] theorem belowPhase3_rcDrop (x t : Nat) (rest : List Frame) :
    belowPhase3 x (Frame.rcDrop t :: rest) = belowPhase3 x rest := rfl
@[simp] theorem belowPhase3_dropVal (x : Nat) (v : Val) (rest : List Frame) :
    belowPhase3 x (Frame.dropVal v :: rest) = belowPhase3 x rest := rfl
@[simp] theorem belowPhase3_finishSingle (x t : Nat) (rest : List Frame) :
    belowPhase3 x (Frame.finishSingle t :: rest) = belowPhase3 x rest := rfl
theorem belowPhase3_phase3 (x : Nat) (ks : List Nat) (rest : List Frame) :
    belowPhase3 x (Frame.phase3 ks :: rest)
      = if x ∈ ks then sumList (rest.map (Frame.strongTo x)) else belowPhase3 x rest := rfl

theorem belowPhase3_dropVals (x : Nat) (vs : List Val) (rest : List Frame) :
    belowPhase3 x (vs.map Frame.dropVal ++ rest) = belowPhase3 x rest := by
  induction vs with
  | nil => rfl
  | cons v vs ih => simpa using ih

/-! ## error states -/

theorem InvS_fail (s : State) (e : Err) : (s.fail e).InvS := by
  intro h
  have := fail_err_isSome s e
  rw [h] at this
  cases this

/-! ## transport -/

/-- `InvSCore` only reads `isLive`, `ext`, `inHeap`, `pend`, `belowPhase3` and the objects of
non-live targets -/
theorem InvSCore_transport {s s' : State}
    (hl : ∀ x, s'.isLive x = s.isLive x)
    (he : ∀ x, s'.ext x = s.ext x) (hi : ∀ x, s'.inHeap x = s.inHeap x)
    (hp : ∀ x, s'.pend x ≤ s.pend x)
    (hb : ∀ x, belowPhase3 x s'.stack = belowPhase3 x s.stack)
    (hh : ∀ x, s.isLive x = false → s'.heap[x]? = s.heap[x]?)
    (h : s.InvSCore) : s'.InvSCore := by
  obtain ⟨h1, h2, h3⟩ := h
  refine ⟨fun x hx => ?_, fun x hx hnl => ?_, fun x => ?_⟩
  · rw [hl]; apply h1; rw [he, hi] at hx; exact hx
  · rw [hl] at hnl
    rw [hh x hnl]
    exact h2 x (Nat.lt_of_lt_of_le hx (hp x)) hnl
  · rw [hb]; exact h3 x

/-- popping an `rcDrop` frame -/
theorem pop_InvSCore {s : State} {o : Nat} {rest : List Frame}
    (hst : s.stack = Frame.rcDrop o :: rest) (h : s.InvSCore) :
    ({ s with stack := rest } : State).InvSCore := by
  refine InvSCore_transport (s := s) (fun _ => rfl) (fun _ => rfl) (fun _ => rfl) (fun x => ?_)
    (fun x => ?_) (fun _ _ => rfl) h
  · rw [pend_of_stack_cons hst x]; omega
  · rw [hst]; rfl

/-! ## steps that rewrite link tables only -/

/-- `s'` differs from `s` only in link tables that were present (and possibly in `err`, `log`) -/
structure LinksOnly (s s' : State) : Prop where
  roots : s'.roots = s.roots
  raws : s'.raws = s.raws
  vals : s'.vals = s.vals
  stack : s'.stack = s.stack
  len : s'.heap.length = s.heap.length
  obj : ∀ (x : Nat) (ob : Obj), s.heap[x]? = some ob → ∃ ob' : Obj, s'.heap[x]? = some ob' ∧ ob'.strong = ob.strong
    ∧ ob'.value = ob.value ∧ ob'.freed = ob.freed ∧ ob'.implicit = ob.implicit
    ∧ (ob.links = none → ob'.links = none)

namespace LinksOnly

theorem refl (s : State) : LinksOnly s s :=
  ⟨rfl, rfl, rfl, rfl, rfl, fun _ ob h => ⟨ob, h, rfl, rfl, rfl, rfl, id⟩⟩

theorem trans {a b c : State} (h1 : LinksOnly a b) (h2 : LinksOnly b c) : LinksOnly a c := by
  refine ⟨h2.roots.trans h1.roots, h2.raws.trans h1.raws, h2.vals.trans h1.vals,
    h2.stack.trans h1.stack, h2.len.trans h1.len, ?_⟩
  intro x ob hg
  obtain ⟨ob1, hg1, a1, a2, a3, a4, a5⟩ := h1.obj x ob hg
  obtain ⟨ob2, hg2, b1, b2, b3, b4, b5⟩ := h2.obj x ob1 hg1
  exact ⟨ob2, hg2, b1.trans a1, b2.trans a2, b3.trans a3, b4.trans a4, fun h => b5 (a5 h)⟩

theorem fail (s : State) (e : Err) : LinksOnly s (s.fail e) :=
  ⟨by simp, by simp, by simp, by simp, by simp,
    fun _ ob h => ⟨ob, by simpa using h, rfl, rfl, rfl, rfl, id⟩⟩

theorem setLinks (s : State) (o : Nat) (f : Table → Table) : LinksOnly s (s.setLinks o f) := by
  rcases setLinks_cases s o f with ⟨e, h⟩ | ⟨ob, t, hc, hl, h⟩
  · rw [h]; exact LinksOnly.fail s e
  · rw [h]
    have hg := get_of_cell hc
    refine ⟨rfl, rfl, rfl, rfl, by simp, ?_⟩
    intro x obx hx
    by_cases hxo : x = o
    · subst hxo
      rw [hg] at hx
      cases hx
      refine ⟨_, getElem?_setObj_same _ (get_lt hg), rfl, rfl, rfl, rfl, ?_⟩
      intro hn
      rw [hl] at hn
      cases hn
    · exact ⟨obx, by rw [getElem?_setObj_other s _ hxo]; exact hx, rfl, rfl, rfl, rfl, id⟩

theorem purgeOne (x : Nat) (s : State) (e : Link × Nat) : LinksOnly s (State.purgeOne x s e) := by
  unfold State.purgeOne
  split
  · exact LinksOnly.refl s
  · exact LinksOnly.setLinks s _ _

theorem purgeFold (x : Nat) (t : List (Link × Nat)) (s : State) :
    LinksOnly s (t.foldl (State.purgeOne x) s) := by
  induction t generalizing s with
  | nil => exact LinksOnly.refl s
  | cons e t ih => exact (LinksOnly.purgeOne x s e).trans (ih _)

theorem purgePeers (s : State) (x : Nat) : LinksOnly s (s.purgePeers x) := by
  unfold State.purgePeers
  split
  · exact (LinksOnly.purgeFold x _ s).trans (LinksOnly.setLinks _ _ _)
  · exact LinksOnly.fail s _

variable {s s' : State}

theorem get_none (h : LinksOnly s s') {x : Nat} (hx : s.heap[x]? = none) : s'.heap[x]? = none := by
  rw [get_none_iff] at hx ⊢
  rw [h.len]; exact hx

theorem isLive_eq (h : LinksOnly s s') (x : Nat) : s'.isLive x = s.isLive x := by
  cases hg : s.heap[x]? with
  | none => rw [isLive_of_get_none hg, isLive_of_get_none (h.get_none hg)]
  | some ob =>
    obtain ⟨ob', hg', a1, -, a3, -, -⟩ := h.obj x ob hg
    rw [isLive_of_get hg, isLive_of_get hg', a1, a3]

theorem heldOf_eq (h : LinksOnly s s') (x : Nat) : s'.heldOf x = s.heldOf x := by
  cases hg : s.heap[x]? with
  | none => rw [heldOf_of_get_none hg, heldOf_of_get_none (h.get_none hg)]
  | some ob =>
    obtain ⟨ob', hg', -, a2, -, -, -⟩ := h.obj x ob hg
    rw [heldOf_of_get hg, heldOf_of_get hg', Obj.heldList_congr a2]

theorem inHeap_eq (h : LinksOnly s s') (x : Nat) : s'.inHeap x = s.inHeap x := by
  unfold State.inHeap
  rw [h.len]
  exact sumList_range_congr _ _ _ (fun i _ => by rw [h.heldOf_eq])

theorem ext_eq (h : LinksOnly s s') (x : Nat) : s'.ext x = s.ext x :=
  ext_congr h.roots h.raws h.vals x

theorem pend_eq (h : LinksOnly s s') (x : Nat) : s'.pend x = s.pend x := pend_congr h.stack x

theorem invSCore (h : LinksOnly s s') (hS : s.InvSCore) : s'.InvSCore := by
  obtain ⟨h1, h2, h3⟩ := hS
  refine ⟨fun x hx => ?_, fun x hx hnl => ?_, fun x => ?_⟩
  · rw [h.isLive_eq]; apply h1; rw [h.ext_eq, h.inHeap_eq] at hx; exact hx
  · rw [h.isLive_eq] at hnl
    rw [h.pend_eq] at hx
    obtain ⟨ob, hg, b1, b2, b3⟩ := h2 x hx hnl
    obtain ⟨ob', hg', a1, -, -, a4, a5⟩ := h.obj x ob hg
    exact ⟨ob', hg', a1.trans b1, a5 b2, a4.trans b3⟩
  · rw [h.stack]; exact h3 x

end LinksOnly

/-! ## the last-handle branch -/

/-- `beginSingle` on an object whose count has just dropped to zero and to which no handle is left -/
theorem beginSingle_invS {s : State} {o : Nat} {ob : Obj} (hg : s.heap[o]? = some ob)
    (hs : ob.strong = .cnt 0) (hS : s.InvSCore) (h0 : s.ext o + s.inHeap o + s.pend o = 0) :
    (s.beginSingle o).InvS := by
  obtain ⟨h1, h2, h3⟩ := hS
  have hnl : s.isLive o = false := by rw [isLive_of_get hg, hs]; simp
  unfold State.beginSingle
  rw [cell_of_get hg]
  cases hf : ob.freed with
  | true => exact InvS_fail _ _
  | false =>
    simp only [Bool.false_eq_true, if_false, hs]
    cases hv : ob.value with
    | none => exact InvS_fail _ _
    | some v =>
      simp only
      intro _
      have hlive : ∀ x, ((s.setObj o { ob with strong := .uninit, value := none }).push
          [.dropVal v, .finishSingle o]).isLive x = s.isLive x := by
        intro x
        rw [isLive_push]
        exact isLive_setObj_of_eq (ob' := { ob with strong := .uninit, value := none }) hg rfl
          (by rw [hs]; rfl) x
      have hin : ∀ x, ((s.setObj o { ob with strong := .uninit, value := none }).push
          [.dropVal v, .finishSingle o]).inHeap x + v.held.count x = s.inHeap x := by
        intro x
        rw [inHeap_push]
        exact inHeap_setObj_move_out _ hg hv rfl x
      have hpe : ∀ x, ((s.setObj o { ob with strong := .uninit, value := none }).push
          [.dropVal v, .finishSingle o]).pend x = v.held.count x + s.pend x := by
        intro x
        rw [pend_push, pend_setObj]
        simp
      refine ⟨fun x hx => ?_, fun x hx hnlx => ?_, fun x => ?_⟩
      · rw [hlive]
        apply h1
        have := hin x
        rw [ext_push, ext_setObj] at hx
        omega
      · rw [hlive] at hnlx
        rw [hpe] at hx
        have hvx : v.held.count x = 0 := by
          apply Classical.byContradiction
          intro hne
          have := hin x
          have : s.isLive x = true := h1 x (by omega)
          rw [this] at hnlx; cases hnlx
        have hxo : x ≠ o := by
          intro e; subst e; omega
        obtain ⟨obx, hgx, rest⟩ := h2 x (by omega) hnlx
        refine ⟨obx, ?_, rest⟩
        rw [push_heap, getElem?_setObj_other s _ hxo]
        exact hgx
      · rw [push_stack, setObj_stack]
        exact h3 x

/-! ## the closure lemma -/

/-- a duplicate-free family of indices contributes at most the whole sum -/
theorem sumList_sub_le_range (n : Nat) (R : List Nat) (g : Nat → Nat) (hnd : R.Nodup)
    (hlt : ∀ k ∈ R, k < n) : sumList (R.map g) ≤ sumList ((List.range n).map g) := by
  rw [← sumList_range_indicator n R g hnd hlt]
  apply sumList_map_le
  intro a _
  by_cases ha : a ∈ R
  · simp [ha]
  · simp [ha]

theorem sumList_H_le_inHeap (s : State) (R : List Nat) (m : Nat) (hnd : R.Nodup)
    (hlt : ∀ k ∈ R, k < s.heap.length) : sumList (R.map (fun n => s.H n m)) ≤ s.inHeap m :=
  sumList_sub_le_range s.heap.length R (fun n => s.H n m) hnd hlt

/-- **closure, list form.**  If every member of a duplicate-free list `R` of live objects has a
strong count bounded by the adoptions recorded inside `R`, then (under the contract `P` and exact
counts `InvC`) no handle to a member exists outside the values of the members. -/
theorem closure_core (s : State) (R : List Nat) (hC : s.InvC) (hP : s.P) (hnd : R.Nodup)
    (hlive : ∀ k ∈ R, s.isLive k = true)
    (hle : ∀ m ∈ R, s.strongNat m ≤ sumList (R.map (fun n => s.F n m))) :
    ∀ m ∈ R, s.ext m = 0 ∧ s.pend m = 0 ∧ s.inHeap m = sumList (R.map (fun n => s.H n m)) := by
  intro m hm
  have h1 := hle m hm
  have h2 : sumList (R.map (fun n => s.F n m)) ≤ sumList (R.map (fun n => s.H n m)) :=
    sumList_map_le R _ _ (fun n hn => hP n m (hlive n hn))
  have h3 := sumList_H_le_inHeap s R m hnd (fun k hk => isLive_lt (hlive k hk))
  have h4 := hC m (hlive m hm)
  omega

/-- **closure lemma.**  After a passed orphan test from the live object `o`, with
`R := (cycleRefs s1 o).visited` (= the keys of the cycle map): no member of `R` is designated by a
handle of the program or of a stack frame, and all handles stored in values and designating a
member are stored in values of members. -/
theorem closure_lemma (s1 : State) (o : Nat) (hO : s1.InvO) (hB : s1.InvB) (hC : s1.InvC)
    (hP : s1.P) (ho : s1.isLive o = true) (hne : (cycleRefs s1 o).cmap.isEmpty = false)
    (hext : hasExternalOwners s1 (cycleRefs s1 o).cmap = false) :
    ∀ m ∈ (cycleRefs s1 o).visited,
      s1.ext m = 0 ∧ s1.pend m = 0
      ∧ s1.inHeap m = sumOver (cycleRefs s1 o).visited (fun n => s1.H n m) := by
  have hkv := keys_eq_visited s1 o hO hB ho hne hext
  have := closure_core s1 (cycleRefs s1 o).visited hC hP (visited_nodup s1 o hO hB ho)
    (visited_live s1 o hO hB ho) (by
      intro m hm
      have h1 := strong_le_cmap s1 o hO hB ho hext m ((hkv m).mpr hm)
      rw [cmap_get_eq s1 o hO hB ho m] at h1
      exact h1)
  exact this

/-- the same statement over the key list of the cycle map -/
theorem closure_keys (s1 : State) (o : Nat) (hO : s1.InvO) (hB : s1.InvB) (hC : s1.InvC)
    (hP : s1.P) (ho : s1.isLive o = true) (hne : (cycleRefs s1 o).cmap.isEmpty = false)
    (hext : hasExternalOwners s1 (cycleRefs s1 o).cmap = false) :
    ∀ m ∈ (cycleRefs s1 o).cmap.keys,
      s1.ext m = 0 ∧ s1.pend m = 0
      ∧ s1.inHeap m = sumList ((cycleRefs s1 o).cmap.keys.map (fun n => s1.H n m)) := by
  have hkv := keys_eq_visited s1 o hO hB ho hne hext
  have hperm : (cycleRefs s1 o).cmap.keys.Perm (cycleRefs s1 o).visited :=
    (List.perm_ext_iff_of_nodup (keys_nodup s1 o hO hB ho) (visited_nodup s1 o hO hB ho)).mpr hkv
  intro m hm
  obtain ⟨h1, h2, h3⟩ := closure_lemma s1 o hO hB hC hP ho hne hext m ((hkv m).mp hm)
  refine ⟨h1, h2, ?_⟩
  rw [h3, sumList_map_perm hperm]
  rfl

/-! ## the state after the decrement -/

section dec
variable {s0 : State} {o : Nat} {ob : Obj} {n : Nat}

theorem dec_isLive (hg : s0.heap[o]? = some ob) (hs : ob.strong = .cnt (n + 2)) (x : Nat) :
    (s0.setObj o { ob with strong := .cnt (n + 1) }).isLive x = s0.isLive x :=
  isLive_setObj_of_eq (ob' := { ob with strong := .cnt (n + 1) }) hg rfl (by rw [hs]; rfl) x

theorem dec_F (hg : s0.heap[o]? = some ob) (x y : Nat) :
    (s0.setObj o { ob with strong := .cnt (n + 1) }).F x y = s0.F x y :=
  F_setObj_of_links_eq (ob' := { ob with strong := .cnt (n + 1) }) hg rfl rfl x y

theorem dec_B (hg : s0.heap[o]? = some ob) (x y : Nat) :
    (s0.setObj o { ob with strong := .cnt (n + 1) }).B x y = s0.B x y :=
  B_setObj_of_links_eq (ob' := { ob with strong := .cnt (n + 1) }) hg rfl rfl x y

theorem dec_H (hg : s0.heap[o]? = some ob) (x y : Nat) :
    (s0.setObj o { ob with strong := .cnt (n + 1) }).H x y = s0.H x y :=
  H_setObj_of_value_eq (ob' := { ob with strong := .cnt (n + 1) }) hg rfl x y

theorem dec_InvO (hg : s0.heap[o]? = some ob) (hs : ob.strong = .cnt (n + 2)) (hO : s0.InvO) :
    (s0.setObj o { ob with strong := .cnt (n + 1) }).InvO := by
  intro x obx hx
  by_cases hxo : x = o
  · subst hxo
    rw [getElem?_setObj_same _ (get_lt hg)] at hx
    cases hx
    obtain ⟨h1, -, -, h4⟩ := hO x ob hg
    refine ⟨fun k _ => h1 (n + 1) hs, fun h0 => ?_, fun hu => ?_, h4⟩
    · cases h0
    · cases hu
  · rw [getElem?_setObj_other s0 _ hxo] at hx
    exact hO x obx hx

theorem dec_InvB (hg : s0.heap[o]? = some ob) (hs : ob.strong = .cnt (n + 2)) (hB : s0.InvB) :
    (s0.setObj o { ob with strong := .cnt (n + 1) }).InvB := by
  refine ⟨fun x t ht => ?_, fun a b ha hb => ?_⟩
  · rw [tableOf_setObj_of_links_eq (ob' := { ob with strong := .cnt (n + 1) }) hg rfl rfl] at ht
    obtain ⟨hwf, he⟩ := hB.1 x t ht
    refine ⟨hwf, fun e hem => ⟨(he e hem).1, fun hk => ?_⟩⟩
    rw [dec_isLive hg hs]
    exact (he e hem).2 hk
  · rw [dec_isLive hg hs] at ha hb
    rw [dec_F hg, dec_B hg]
    exact hB.2 a b ha hb

/-- `hC` is `InvC` of the state before the pop: the popped `rcDrop o` frame owned one handle -/
theorem dec_InvC (hg : s0.heap[o]? = some ob) (hs : ob.strong = .cnt (n + 2))
    (hC : ∀ t, s0.isLive t = true →
      s0.strongNat t = s0.ext t + s0.inHeap t + s0.pend t + (if t = o then 1 else 0)) :
    (s0.setObj o { ob with strong := .cnt (n + 1) }).InvC := by
  intro t ht
  rw [dec_isLive hg hs] at ht
  have h := hC t ht
  rw [ext_setObj, pend_setObj,
    inHeap_setObj_of_value_eq { ob with strong := .cnt (n + 1) } hg rfl]
  by_cases hto : t = o
  · subst hto
    rw [strongNat_setObj_same _ (get_lt hg)]
    rw [strongNat_of_get hg, hs] at h
    simp at h ⊢
    omega
  · rw [strongNat_setObj_other s0 _ hto]
    simpa [hto] using h

/-- the contract transfers to the state after the decrement (`F`, `H`, `isLive` are the same) -/
theorem P_of_dec' (hg : s0.heap[o]? = some ob) (hs : ob.strong = .cnt (n + 2)) (hP : s0.P) :
    (s0.setObj o { ob with strong := .cnt (n + 1) }).P := by
  intro a b ha
  rw [dec_isLive hg hs] at ha
  rw [dec_F hg, dec_H hg]
  exact hP a b ha

theorem dec_InvSCore (hg : s0.heap[o]? = some ob) (hs : ob.strong = .cnt (n + 2))
    (hf : ob.freed = false) (hS : s0.InvSCore) : (s0.setObj o { ob with strong := .cnt (n + 1) }).InvSCore := by
  refine InvSCore_transport (dec_isLive hg hs) (fun x => ext_setObj _ _ _ _)
    (inHeap_setObj_of_value_eq { ob with strong := .cnt (n + 1) } hg rfl)
    (fun x => by rw [pend_setObj]; exact Nat.le_refl _) (fun x => by rw [setObj_stack])
    (fun x hx => ?_) hS
  have hxo : x ≠ o := by
    intro e; subst e
    rw [isLive_of_get hg, hs, hf] at hx
    cases hx
  exact getElem?_setObj_other s0 _ hxo

end dec

/-- `P` transfers from `s` to the state `s1` after the pop and the decrement -/
theorem P_of_dec {s : State} {o : Nat} {ob : Obj} {n : Nat} (rest : List Frame)
    (hg : s.heap[o]? = some ob) (hs : ob.strong = .cnt (n + 2)) (hP : s.P) :
    (({ s with stack := rest } : State).setObj o { ob with strong := .cnt (n + 1) }).P :=
  P_of_dec' (s0 := { s with stack := rest }) hg hs hP

/-! ## the group teardown -/

namespace Teardown

variable {s s' : State} {ks : List Nat} {vs : List Val}

/-- the handles owned by the collected values are the handles stored in the members -/
theorem vals_sum (h : Teardown s s' ks vs) (t : Nat) :
    sumList (vs.map (fun v => v.held.count t)) = sumList (ks.map (fun k => s.H k t)) := by
  rw [sumList_map_of_map_some vs ks _ (fun v => v.held.count t) h.vals]
  apply sumList_map_congr
  intro k _
  unfold State.H State.heldOf
  cases s.heap[k]? with
  | none => rfl
  | some ob => cases hv : ob.value <;> simp [hv]

/-- **the group teardown keeps the safety invariant**, provided the group is closed -/
theorem invSCore (h : Teardown s s' ks vs) (hO : s.InvO) (hS : s.InvSCore)
    (hcl : ∀ m ∈ ks, s.ext m = 0 ∧ s.pend m = 0
      ∧ s.inHeap m = sumList (ks.map (fun n => s.H n m))) : s'.InvSCore := by
  obtain ⟨h1, h2, h3⟩ := hS
  refine ⟨fun x hx => ?_, fun x hx hnl => ?_, fun x => ?_⟩
  · have e1 := State.ext_congr h.roots h.raws h.pvals x
    have e2 := h.inHeap_eq x
    by_cases hxk : x ∈ ks
    · obtain ⟨c1, -, c3⟩ := hcl x hxk
      have e3 := h.vals_sum x
      omega
    · rw [h.isLive_other hxk]
      exact h1 x (by omega)
  · by_cases hxk : x ∈ ks
    · obtain ⟨ob, n, hg, -, hs, hg'⟩ := h.key_obj hxk
      exact ⟨p2Obj ob, hg', rfl, rfl, ((hO x ob hg).1 n hs).2.2.2⟩
    · rw [h.isLive_other hxk] at hnl
      have e2 := h.inHeap_eq x
      have e4 := h.pend_eq x
      have hvx : sumList (vs.map (fun v => v.held.count x)) = 0 := by
        apply Classical.byContradiction
        intro hne
        have : s.isLive x = true := h1 x (by omega)
        rw [this] at hnl; cases hnl
      rw [h.other x hxk]
      exact h2 x (by omega) hnl
  · obtain ⟨vs', -, hst⟩ := h.stack
    rw [hst, List.append_assoc, belowPhase3_dropVals]
    show belowPhase3 x (Frame.phase3 ks :: s.stack) = 0
    rw [belowPhase3_phase3]
    by_cases hxk : x ∈ ks
    · rw [if_pos hxk]
      exact (hcl x hxk).2.1
    · rw [if_neg hxk]
      exact h3 x

end Teardown

/-! ## the trace branch -/

/-- **the trace branch of `Rc::drop` keeps the safety invariant** -/
theorem trace_branch_invS (s1 : State) (o : Nat) (herr : s1.err = none) (hO : s1.InvO)
    (hB : s1.InvB) (hC : s1.InvC) (hP : s1.P) (hS : s1.InvSCore) (ho : s1.isLive o = true) :
    (s1.traceBranch o).InvS := by
  obtain ⟨hbad, hfuel⟩ := cycleRefs_ok s1 o hO hB ho
  unfold State.traceBranch
  simp only [hbad, hfuel]
  generalize he : Ev.traced o (cycleRefs s1 o).visited.length (cycleRefs s1 o).popped = e
  have hO2 : (s1.emit e).InvO := hO
  have hB2 : (s1.emit e).InvB := hB
  have hC2 : (s1.emit e).InvC := hC
  have hP2 : (s1.emit e).P := hP
  have hS2 : (s1.emit e).InvSCore := hS
  have hcr : cycleRefs (s1.emit e) o = cycleRefs s1 o := cycleRefs_emit s1 e o
  have ho2 : (s1.emit e).isLive o = true := ho
  have herr2 : (s1.emit e).err = none := herr
  have hfu := firstUnreadable_none (s1.emit e) o hO2 hB2 ho2
  rw [hcr] at hfu
  simp only [hfu]
  by_cases hemp : (cycleRefs s1 o).cmap.isEmpty = true
  · simp only [hemp]
    exact fun _ => hS2
  · have hemp' : (cycleRefs s1 o).cmap.isEmpty = false := by simpa using hemp
    simp only [hemp']
    cases hext : hasExternalOwners (s1.emit e) (cycleRefs s1 o).cmap with
    | true => exact fun _ => hS2
    | false =>
      intro _
      have hne2 : (cycleRefs (s1.emit e) o).cmap.isEmpty = false := by rw [hcr]; exact hemp'
      have hext2 : hasExternalOwners (s1.emit e) (cycleRefs (s1.emit e) o).cmap = false := by
        rw [hcr]; exact hext
      have hT := dropCycle_teardown (s1.emit e) o hO2 hB2 herr2 ho2 hne2 hext2
      have hcl := closure_keys (s1.emit e) o hO2 hB2 hC2 hP2 ho2 hne2 hext2
      have := hT.invSCore hO2 hS2 hcl
      rw [hcr] at this
      simpa using this

/-! ## `rcDrop` -/

theorem rcDrop_eq_single_empty (s0 : State) (o : Nat) (ob : Obj) (t : Table)
    (hc : s0.cell o = some ob) (hs : ob.strong = .cnt 1) (hl : ob.links = some t)
    (ht : t.isEmpty = true) :
    s0.rcDrop o = (s0.setObj o { ob with strong := .cnt 0 }).beginSingle o := by
  unfold State.rcDrop
  simp only [hc, hs, hl, ht, if_true]

theorem rcDrop_eq_single_purge (s0 : State) (o : Nat) (ob : Obj) (t : Table)
    (hc : s0.cell o = some ob) (hs : ob.strong = .cnt 1) (hl : ob.links = some t)
    (ht : t.isEmpty = false) :
    s0.rcDrop o = ((s0.setObj o { ob with strong := .cnt 0 }).purgePeers o).beginSingle o := by
  unfold State.rcDrop
  simp only [hc, hs, hl, ht, Bool.false_eq_true, if_false, if_true]

theorem rcDrop_eq_dec_empty (s0 : State) (o : Nat) (ob : Obj) (n : Nat) (t : Table)
    (hc : s0.cell o = some ob) (hs : ob.strong = .cnt (n + 2)) (hl : ob.links = some t)
    (ht : t.isEmpty = true) :
    s0.rcDrop o = s0.setObj o { ob with strong := .cnt (n + 1) } := by
  unfold State.rcDrop
  simp only [hc, hs, hl, ht, if_true]
  rw [if_neg (Nat.succ_ne_zero n)]

/-- the `rcDrop` step, stated for the state `s0` in which the frame has already been popped:
`hC` is `InvC` of the state before the pop (the popped frame owned one handle to `o`) -/
theorem rcDrop_invS_core (s0 : State) (o : Nat) (herr : s0.err = none) (hO : s0.InvO)
    (hB : s0.InvB)
    (hC : ∀ t, s0.isLive t = true →
      s0.strongNat t = s0.ext t + s0.inHeap t + s0.pend t + (if t = o then 1 else 0))
    (hS : s0.InvSCore) (hP : s0.P) : (s0.rcDrop o).InvS := by
  cases hc : s0.cell o with
  | none =>
    simp only [State.rcDrop, hc]
    exact InvS_fail _ _
  | some ob =>
    have hg := get_of_cell hc
    have hfr := freed_of_cell hc
    have hlt := get_lt hg
    cases hs : ob.strong with
    | uninit =>
      simp only [State.rcDrop, hc, hs]
      exact fun _ => hS
    | cnt k =>
      cases k with
      | zero =>
        simp only [State.rcDrop, hc, hs]
        exact fun _ => hS
      | succ n =>
        cases hl : ob.links with
        | none =>
          simp only [State.rcDrop, hc, hs, hl]
          exact InvS_fail _ _
        | some t =>
          cases n with
          | zero =>
            -- (c) last handle
            have hlive_o : s0.isLive o = true := by rw [isLive_of_get hg, hfr, hs]; rfl
            have hCo := hC o hlive_o
            rw [strongNat_of_get hg, hs] at hCo
            simp at hCo
            have hg1 : (s0.setObj o { ob with strong := .cnt 0 }).heap[o]?
                = some { ob with strong := .cnt 0 } := getElem?_setObj_same _ hlt
            have hl1 : ∀ x, x ≠ o → (s0.setObj o { ob with strong := .cnt 0 }).isLive x
                = s0.isLive x := fun x hx => isLive_setObj_other s0 _ hx
            have hin1 : ∀ x, (s0.setObj o { ob with strong := .cnt 0 }).inHeap x = s0.inHeap x :=
              inHeap_setObj_of_value_eq { ob with strong := .cnt 0 } hg rfl
            have hS1 : (s0.setObj o { ob with strong := .cnt 0 }).InvSCore := by
              obtain ⟨h1, h2, h3⟩ := hS
              refine ⟨fun x hx => ?_, fun x hx hnl => ?_, fun x => ?_⟩
              · rw [ext_setObj, hin1] at hx
                have hxo : x ≠ o := by intro e; subst e; omega
                rw [hl1 x hxo]
                exact h1 x hx
              · rw [pend_setObj] at hx
                have hxo : x ≠ o := by intro e; subst e; omega
                rw [hl1 x hxo] at hnl
                rw [getElem?_setObj_other s0 _ hxo]
                exact h2 x hx hnl
              · rw [setObj_stack]; exact h3 x
            have h01 : (s0.setObj o { ob with strong := .cnt 0 }).ext o
                + (s0.setObj o { ob with strong := .cnt 0 }).inHeap o
                + (s0.setObj o { ob with strong := .cnt 0 }).pend o = 0 := by
              rw [ext_setObj, hin1, pend_setObj]; omega
            by_cases hte : t.isEmpty = true
            · rw [rcDrop_eq_single_empty s0 o ob t hc hs hl hte]
              exact beginSingle_invS hg1 rfl hS1 h01
            · have hte' : t.isEmpty = false := by simpa using hte
              rw [rcDrop_eq_single_purge s0 o ob t hc hs hl hte']
              have hLO := LinksOnly.purgePeers (s0.setObj o { ob with strong := .cnt 0 }) o
              obtain ⟨ob', hg', a1, -, -, -, -⟩ := hLO.obj o _ hg1
              refine beginSingle_invS hg' a1 (hLO.invSCore hS1) ?_
              rw [hLO.ext_eq, hLO.inHeap_eq, hLO.pend_eq]
              exact h01
          | succ n =>
            have hO1 := dec_InvO hg hs hO
            have hB1 := dec_InvB hg hs hB
            have hC1 := dec_InvC hg hs hC
            have hP1 := P_of_dec' hg hs hP
            have hS1 := dec_InvSCore hg hs hfr hS
            by_cases hte : t.isEmpty = true
            · rw [rcDrop_eq_dec_empty s0 o ob n t hc hs hl hte]
              exact fun _ => hS1
            · have hte' : t.isEmpty = false := by simpa using hte
              rw [State.rcDrop_eq_traceBranch s0 o ob n t hc hs hl hte']
              refine trace_branch_invS _ o herr hO1 hB1 hC1 hP1 hS1 ?_
              rw [dec_isLive hg hs, isLive_of_get hg, hfr, hs]
              rfl

/-- **`InvS` is preserved by the `rcDrop` step** -/
theorem rcDrop_invS {s : State} {o : Nat} {rest : List Frame} (herr : s.err = none)
    (hst : s.stack = Frame.rcDrop o :: rest) (hI : s.Inv) (hS : s.InvS) (hP : s.P) :
    (({ s with stack := rest } : State).rcDrop o).InvS := by
  obtain ⟨hO, hB, hC, -, -⟩ := hI herr
  refine rcDrop_invS_core _ o herr (State.pop_InvO rest hO) (State.pop_InvB rest hB) ?_
    (pop_InvSCore hst (hS herr)) hP
  intro t ht
  have h1 := hC t ht
  have h2 := pend_of_stack_cons hst t
  rw [Frame.strongTo_rcDrop] at h2
  show s.strongNat t = s.ext t + s.inHeap t + ({ s with stack := rest } : State).pend t
    + (if t = o then 1 else 0)
  by_cases hto : t = o
  · subst hto; simp at h2 ⊢; omega
  · have : ¬ o = t := fun e => hto e.symm
    simp [this, hto] at h2 ⊢; omega

/-- one machine step that runs an `rcDrop` frame keeps the safety invariant -/
theorem step_invS_rcDrop (s : State) (hI : s.Inv) (hS : s.InvS) (hP : s.P) (o : Nat)
    (rest : List Frame) (hst : s.stack = Frame.rcDrop o :: rest) (herr : s.err = none) :
    (step s).InvS := by
  have : step s = ({ s with stack := rest } : State).rcDrop o := by
    unfold step
    simp only [herr, hst]
  rw [this]
  exact rcDrop_invS herr hst hI hS hP

end Cactus
