import Cactus.Lemmas.Inv.Assemble
import Cactus.Lemmas.Inv.Range
import Cactus.Lemmas.Safety.Acts
import Cactus.Lemmas.Safety.Drop
/-!
# The invariants hold in every reachable state

`reachable_inv`: the unconditional invariants (`InvO ∧ InvB ∧ InvC ∧ InvW ∧ InvK` and `InvR`) hold
in every state of every execution of every history — at operation boundaries and in the middle of
any teardown, i.e. at every point where a user destructor can run.
`reachableP_invS`: if moreover the adoption contract `P` holds in every state passed through, the
safety invariant `InvS` holds too.
-/
namespace Cactus
open State

theorem rangeFacts : RangeFacts where
  applyOp := applyOp_invR
  step := step_invR
  endOp := fun s h _ => endOp_invR s h
  begin := fun s hint h _ => begin_invR s hint h

/-- every reachable state satisfies every unconditional invariant -/
theorem reachable_inv {s : State} (h : Reachable s) : s.InvAll := reachable_invAll rangeFacts h

theorem reachable_core {s : State} (h : Reachable s) (he : s.err = none) : s.InvCore ∧ s.InvR :=
  reachable_inv h he

theorem reachable_Inv {s : State} (h : Reachable s) : s.Inv := fun he => (reachable_inv h he).1

theorem reachable_InvR {s : State} (h : Reachable s) (he : s.err = none) : s.InvR :=
  (reachable_inv h he).2

theorem P_init : ({} : State).P := by
  intro a b ha
  simp [State.isLive] at ha

theorem P_endOp {s : State} (h : s.P) : (endOp s).P := by
  unfold endOp
  split
  · intro a b ha; exact h a b ha
  · exact h

theorem P_fail {s : State} (e : Err) (h : s.P) : (s.fail e).P := by
  intro a b ha
  have : (s.fail e).heap = s.heap := fail_heap s e
  have hl : (s.fail e).isLive a = s.isLive a := by simp [State.isLive, this]
  have hF : (s.fail e).F a b = s.F a b := by simp [State.F, State.tbl, State.tableOf, State.cell, this]
  have hH : (s.fail e).H a b = s.H a b := by simp [State.H, State.heldOf, this]
  rw [hF, hH]; exact h a b (hl ▸ ha)

/-- the contract holds in every state of a contract-respecting execution -/
theorem reachableP_P {s : State} (h : ReachableP s) : s.P := by
  induction h with
  | init => exact P_init
  | op _ _ _ _ hp _ => exact hp
  | step _ hp _ => exact hp
  | endOp _ ih => exact P_endOp ih
  | outOfFuel _ ih => exact P_fail _ ih

theorem InvS_init : ({} : State).InvS := by
  intro _
  refine ⟨?_, ?_, ?_⟩
  · intro o h; simp [State.ext, State.inHeap, State.sumList] at h
  · intro o h; simp [State.pend, State.sumList] at h
  · intro o; rfl

/-- in a contract-respecting execution the safety invariant holds in every state -/
theorem reachableP_invS {s : State} (h : ReachableP s) : s.InvS := by
  induction h with
  | init => exact InvS_init
  | @op s o hint hr hq _ ih =>
    have hI : (s.begin hint).Inv := begin_inv s hint (reachable_Inv hr.reachable)
    exact applyOp_invS _ o hI (begin_invS s hint ih)
  | @step s hr _ ih =>
    have hI := reachable_Inv hr.reachable
    by_cases herr : s.err = none
    · cases hst : s.stack with
      | nil =>
        have : step s = s := by unfold step; simp [herr, hst]
        rw [this]; exact ih
      | cons f rest =>
        by_cases hd : ∃ o, f = .rcDrop o
        · obtain ⟨o, rfl⟩ := hd
          exact step_invS_rcDrop s hI ih (reachableP_P hr) o rest hst herr
        · apply step_invS_nonDrop s hI ih
          intro o rest' h'
          rw [hst] at h'
          cases h'
          exact hd ⟨o, rfl⟩
    · have : step s = s := by
        cases he : s.err with
        | none => exact absurd he herr
        | some e => exact step_of_err he
      rw [this]; exact ih
  | endOp _ ih => exact endOp_invS _ ih
  | outOfFuel _ _ => exact fail_invS _ _

end Cactus
