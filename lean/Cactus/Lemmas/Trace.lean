import Cactus.Spec.Defs
/-!
# Specification of the reachability trace (`cycleRefs`)
-/
namespace Cactus


/-- recorded adoptions of `k` in table `t`: sum over Forward entries (no distinct-keys assumption) -/
def fwdCount (t : Table) (k : Nat) : Nat := match t with
  | [] => 0
  | (l, c) :: r => (if l.kind = .fwd ∧ l.ptr = k then c else 0) + fwdCount r k

def sumOver (vis : List Nat) (g : Nat → Nat) : Nat := (vis.map g).sum

/-- `j` is named by a Forward or a Backward entry of table `t` -/
def named (t : Table) (j : Nat) : Prop := (∃ c, (⟨j, .fwd⟩, c) ∈ t) ∨ (∃ c, (⟨j, .bwd⟩, c) ∈ t)

/-- reachability along Forward entries of readable tables -/
inductive FwdReach (s : State) : Nat → Nat → Prop
  | refl (x : Nat) : FwdReach s x x
  | step {x n j : Nat} {c : Nat} : FwdReach s x n → (⟨j, .fwd⟩, c) ∈ s.tbl n → FwdReach s x j

/-! ## `CMap` -/

theorem CMap.get_add (m : CMap) (k n j : Nat) :
    (m.add k n).get j = m.get j + (if j = k then n else 0) := by
  induction m with
  | nil => by_cases h : k = j <;> simp [CMap.add, CMap.get, h, eq_comm]
  | cons hd r ih =>
    obtain ⟨k', c⟩ := hd
    unfold CMap.add
    by_cases hk : k' = k
    · subst hk
      by_cases hj : k' = j
      · subst hj; simp [CMap.get]
      · simp [CMap.get, hj, Ne.symm hj]
    · by_cases hj : k' = j
      · subst hj; simp [CMap.get, hk]
      · simp [CMap.get, hk, hj, ih]

theorem CMap.has_add (m : CMap) (k n j : Nat) :
    (m.add k n).has j = (m.has j || decide (j = k)) := by
  induction m with
  | nil => simp [CMap.add, CMap.has, eq_comm]
  | cons hd r ih =>
    obtain ⟨k', c⟩ := hd
    unfold CMap.add
    by_cases hk : k' = k
    · subst hk
      by_cases hj : k' = j
      · subst hj; simp [CMap.has]
      · simp [CMap.has, hj, Ne.symm hj]
    · simp [CMap.has, hk, ih, Bool.or_assoc]

theorem CMap.has_iff_mem_keys (m : CMap) (j : Nat) : m.has j = true ↔ j ∈ m.keys := by
  induction m with
  | nil => simp [CMap.has, CMap.keys]
  | cons hd r ih =>
    obtain ⟨k', c⟩ := hd
    simp only [CMap.keys] at ih
    simp only [CMap.has, CMap.keys, List.map_cons, List.mem_cons, Bool.or_eq_true,
      decide_eq_true_eq, ih]
    constructor
    · rintro (h | h)
      · exact Or.inl h.symm
      · exact Or.inr h
    · rintro (h | h)
      · exact Or.inl h.symm
      · exact Or.inr h

theorem CMap.keys_add (m : CMap) (k n : Nat) :
    (m.add k n).keys = if m.has k then m.keys else m.keys ++ [k] := by
  induction m with
  | nil => simp [CMap.add, CMap.has, CMap.keys]
  | cons hd r ih =>
    obtain ⟨k', c⟩ := hd
    unfold CMap.add
    simp only [CMap.keys] at ih
    by_cases hk : k' = k
    · simp [CMap.has, CMap.keys, hk]
    · simp only [CMap.has, CMap.keys, hk, if_false, List.map_cons, ih, decide_false,
        Bool.false_or]
      split <;> simp

theorem CMap.keys_nodup_add (m : CMap) (k n : Nat) (h : m.keys.Nodup) :
    (m.add k n).keys.Nodup := by
  rw [CMap.keys_add]
  split
  · exact h
  · rename_i hk
    have : k ∉ m.keys := fun hm => hk ((CMap.has_iff_mem_keys m k).mpr hm)
    rw [List.nodup_append]
    refine ⟨h, by simp, ?_⟩
    intro a ha b hb
    simp at hb
    subst hb
    intro hab
    subst hab
    exact this ha

/-! ## one table scan -/

theorem scan_nil (acc : CMap × List Nat) : scan [] acc = acc := rfl

theorem scan_cons (e : Link × Nat) (r : Table) (acc : CMap × List Nat) :
    scan (e :: r) acc = scan r (scanStep acc e) := rfl

theorem scan_get (t : Table) (acc : CMap × List Nat) (j : Nat) :
    (scan t acc).1.get j = acc.1.get j + fwdCount t j := by
  induction t generalizing acc with
  | nil => simp [scan, fwdCount]
  | cons e r ih =>
    obtain ⟨l, c⟩ := e
    rw [scan_cons, ih]
    cases hk : l.kind <;> simp [scanStep, hk, fwdCount, CMap.get_add] <;> (try split) <;> simp_all <;> omega

theorem scan_has (t : Table) (acc : CMap × List Nat) (j : Nat) :
    (scan t acc).1.has j = true ↔ (acc.1.has j = true ∨ named t j) := by
  induction t generalizing acc with
  | nil => simp [scan, named]
  | cons e r ih =>
    obtain ⟨l, c⟩ := e
    rw [scan_cons, ih]
    obtain ⟨p, k⟩ := l
    cases k <;>
      simp only [scanStep, named, CMap.has_add, List.mem_cons, Prod.mk.injEq, Link.mk.injEq,
        Bool.or_eq_true, decide_eq_true_eq] <;> grind

theorem scan_wl (t : Table) (acc : CMap × List Nat) (j : Nat) :
    j ∈ (scan t acc).2 ↔ j ∈ acc.2 ∨ ∃ c, (⟨j, .fwd⟩, c) ∈ t := by
  induction t generalizing acc with
  | nil => simp [scan]
  | cons e r ih =>
    obtain ⟨l, c⟩ := e
    rw [scan_cons, ih]
    obtain ⟨p, k⟩ := l
    cases k <;> simp only [scanStep, List.mem_cons, Prod.mk.injEq, Link.mk.injEq] <;> grind

theorem scan_keys_nodup (t : Table) (acc : CMap × List Nat) (h : acc.1.keys.Nodup) :
    (scan t acc).1.keys.Nodup := by
  induction t generalizing acc with
  | nil => simpa [scan] using h
  | cons e r ih =>
    obtain ⟨l, c⟩ := e
    rw [scan_cons]
    apply ih
    cases hk : l.kind <;> simp only [scanStep, hk] <;>
      first | exact h | exact CMap.keys_nodup_add _ _ _ h

/-- number of Forward entries of a table -/
def fwdLen (t : Table) : Nat := (t.filter (fun e => e.1.kind == .fwd)).length

theorem scan_wl_length (t : Table) (acc : CMap × List Nat) :
    (scan t acc).2.length = acc.2.length + (t.filter (fun e => e.1.kind == .fwd)).length := by
  induction t generalizing acc with
  | nil => simp [scan]
  | cons e r ih =>
    obtain ⟨l, c⟩ := e
    rw [scan_cons, ih]
    cases hk : l.kind <;> simp [scanStep, hk] <;> omega

/-! ## `fwdCount` versus `Table.get` -/

theorem fwdCount_eq_zero (t : Table) (k : Nat) (h : (⟨k, .fwd⟩ : Link) ∉ t.map (·.1)) :
    fwdCount t k = 0 := by
  induction t with
  | nil => rfl
  | cons e r ih =>
    obtain ⟨⟨p, kd⟩, c⟩ := e
    simp only [List.map_cons, List.mem_cons, not_or] at h
    simp only [fwdCount, ih h.2, Nat.add_zero]
    split
    · rename_i hc
      obtain ⟨h1, h2⟩ := hc
      subst h1 h2
      exact absurd rfl h.1
    · rfl

theorem fwdCount_eq_get (t : Table) (hw : t.WF) (k : Nat) :
    fwdCount t k = t.get ⟨k, .fwd⟩ := by
  obtain ⟨hnd, -⟩ := hw
  induction t with
  | nil => rfl
  | cons e r ih =>
    obtain ⟨⟨p, kd⟩, c⟩ := e
    simp only [List.map_cons, List.nodup_cons] at hnd
    simp only [fwdCount, Table.get]
    by_cases hc : (⟨p, kd⟩ : Link) = ⟨k, .fwd⟩
    · rw [if_pos hc]
      rw [hc] at hnd
      rw [fwdCount_eq_zero r k hnd.1]
      simp only [Link.mk.injEq] at hc
      simp [hc.1, hc.2]
    · rw [if_neg hc, ← ih hnd.2]
      simp only [Link.mk.injEq] at hc
      rw [if_neg (by intro h; exact hc ⟨h.2, h.1⟩)]
      omega

/-! ## the worklist loop -/

theorem traceLoop_zero (s : State) (wl vis : List Nat) (m : CMap) (p : Nat) :
    traceLoop s 0 wl vis m p = ⟨m, vis, p, none, true⟩ := by
  cases wl <;> rfl

theorem traceLoop_nil (s : State) (f : Nat) (vis : List Nat) (m : CMap) (p : Nat) :
    traceLoop s (f + 1) [] vis m p = ⟨m, vis, p, none, false⟩ := rfl

theorem traceLoop_skip (s : State) (f n : Nat) (wl vis : List Nat) (m : CMap) (p : Nat)
    (h : n ∈ vis) :
    traceLoop s (f + 1) (n :: wl) vis m p = traceLoop s f wl vis m (p + 1) := by
  simp [traceLoop, h]

theorem traceLoop_bad (s : State) (f n : Nat) (wl vis : List Nat) (m : CMap) (p : Nat)
    (h : n ∉ vis) (ht : s.tableOf n = none) :
    traceLoop s (f + 1) (n :: wl) vis m p = ⟨m, vis, p + 1, some n, false⟩ := by
  simp [traceLoop, h, ht]

theorem traceLoop_scan (s : State) (f n : Nat) (wl vis : List Nat) (m : CMap) (p : Nat) (t : Table)
    (h : n ∉ vis) (ht : s.tableOf n = some t) :
    traceLoop s (f + 1) (n :: wl) vis m p
      = traceLoop s f (scan t (m, wl)).2 (n :: vis) (scan t (m, wl)).1 (p + 1) := by
  simp [traceLoop, h, ht]

theorem State.tbl_of_some {s : State} {n : Nat} {t : Table} (h : s.tableOf n = some t) :
    s.tbl n = t := by simp [State.tbl, h]

/-- Invariant principle for runs that finished normally: an invariant of (worklist, visited, map,
pop counter) preserved by both kinds of iteration holds at the end with an empty worklist. -/
theorem traceLoop_inv (s : State) (I : List Nat → List Nat → CMap → Nat → Prop)
    (hskip : ∀ n wl vis m p, I (n :: wl) vis m p → n ∈ vis → I wl vis m (p + 1))
    (hscan : ∀ n wl vis m p t, I (n :: wl) vis m p → n ∉ vis → s.tableOf n = some t →
      I (scan t (m, wl)).2 (n :: vis) (scan t (m, wl)).1 (p + 1))
    (f : Nat) (wl vis : List Nat) (m : CMap) (p : Nat)
    (hb : (traceLoop s f wl vis m p).bad = none)
    (hf : (traceLoop s f wl vis m p).outOfFuel = false)
    (h : I wl vis m p) :
    I [] (traceLoop s f wl vis m p).visited (traceLoop s f wl vis m p).cmap
      (traceLoop s f wl vis m p).popped := by
  induction f generalizing wl vis m p with
  | zero => simp [traceLoop_zero] at hf
  | succ f ih =>
    cases wl with
    | nil => simpa [traceLoop_nil] using h
    | cons n wl =>
      by_cases hn : n ∈ vis
      · rw [traceLoop_skip s f n wl vis m p hn] at hb hf ⊢
        exact ih wl vis m (p + 1) hb hf (hskip n wl vis m p h hn)
      · cases ht : s.tableOf n with
        | none => simp [traceLoop_bad s f n wl vis m p hn ht] at hb
        | some t =>
          rw [traceLoop_scan s f n wl vis m p t hn ht] at hb hf ⊢
          exact ih _ _ _ _ hb hf (hscan n wl vis m p t h hn ht)

section Loop
variable (s : State) (f : Nat) (wl vis : List Nat) (m : CMap) (p : Nat)
variable (hb : (traceLoop s f wl vis m p).bad = none)
variable (hf : (traceLoop s f wl vis m p).outOfFuel = false)
include hb hf

/-- `c[j] = Σ_{n ∈ visited} F n j` -/
theorem traceLoop_counts
    (h : ∀ j, m.get j = sumOver vis (fun n => fwdCount (s.tbl n) j)) :
    ∀ j, (traceLoop s f wl vis m p).cmap.get j
      = sumOver (traceLoop s f wl vis m p).visited (fun n => fwdCount (s.tbl n) j) := by
  refine traceLoop_inv s
    (fun _ vis m _ => ∀ j, m.get j = sumOver vis (fun n => fwdCount (s.tbl n) j))
    ?_ ?_ f wl vis m p hb hf h
  · intro n wl vis m p h _; exact h
  · intro n wl vis m p t h _ ht j
    rw [scan_get]
    have := h j
    simp only [sumOver, List.map_cons, List.sum_cons, State.tbl_of_some ht] at this ⊢
    omega

/-- the visited set is closed under Forward entries -/
theorem traceLoop_closed
    (h : ∀ n ∈ vis, ∀ j c, (⟨j, .fwd⟩, c) ∈ s.tbl n → j ∈ vis ∨ j ∈ wl) :
    ∀ n ∈ (traceLoop s f wl vis m p).visited, ∀ j c, (⟨j, .fwd⟩, c) ∈ s.tbl n →
      j ∈ (traceLoop s f wl vis m p).visited := by
  have := traceLoop_inv s
    (fun wl vis _ _ => ∀ n ∈ vis, ∀ j c, (⟨j, .fwd⟩, c) ∈ s.tbl n → j ∈ vis ∨ j ∈ wl)
    ?_ ?_ f wl vis m p hb hf h
  · intro n hn j c hj
    simpa using this n hn j c hj
  · intro n wl vis m p h hn a ha j c hj
    rcases h a ha j c hj with h1 | h1
    · exact Or.inl h1
    · rcases List.mem_cons.mp h1 with h2 | h2
      · subst h2; exact Or.inl hn
      · exact Or.inr h2
  · intro n wl vis m p t h _ ht a ha j c hj
    rcases List.mem_cons.mp ha with h2 | h2
    · subst h2
      rw [State.tbl_of_some ht] at hj
      exact Or.inr ((scan_wl _ _ _).mpr (Or.inr ⟨c, hj⟩))
    · rcases h a h2 j c hj with h1 | h1
      · exact Or.inl (List.mem_cons_of_mem _ h1)
      · rcases List.mem_cons.mp h1 with h3 | h3
        · subst h3; exact Or.inl List.mem_cons_self
        · exact Or.inr ((scan_wl _ _ _).mpr (Or.inl h3))

/-- keys of the map = objects named by a Forward or Backward entry of a visited object -/
theorem traceLoop_keys
    (h : ∀ j, m.has j = true ↔ ∃ n ∈ vis, named (s.tbl n) j) :
    ∀ j, (traceLoop s f wl vis m p).cmap.has j = true
      ↔ ∃ n ∈ (traceLoop s f wl vis m p).visited, named (s.tbl n) j := by
  refine traceLoop_inv s
    (fun _ vis m _ => ∀ j, m.has j = true ↔ ∃ n ∈ vis, named (s.tbl n) j)
    ?_ ?_ f wl vis m p hb hf h
  · intro n wl vis m p h _; exact h
  · intro n wl vis m p t h _ ht j
    rw [scan_has, h j]
    simp only [List.mem_cons, exists_eq_or_imp, State.tbl_of_some ht]
    exact Or.comm

theorem traceLoop_keys_nodup (h : m.keys.Nodup) :
    (traceLoop s f wl vis m p).cmap.keys.Nodup := by
  refine traceLoop_inv s (fun _ _ m _ => m.keys.Nodup) ?_ ?_ f wl vis m p hb hf h
  · intro n wl vis m p h _; exact h
  · intro n wl vis m p t h _ _
    exact scan_keys_nodup t (m, wl) h

theorem traceLoop_visited_nodup (h : vis.Nodup) :
    (traceLoop s f wl vis m p).visited.Nodup := by
  refine traceLoop_inv s (fun _ vis _ _ => vis.Nodup) ?_ ?_ f wl vis m p hb hf h
  · intro n wl vis m p h _; exact h
  · intro n wl vis m p t h hn _
    exact List.nodup_cons.mpr ⟨hn, h⟩

theorem traceLoop_visited_mono : ∀ n ∈ vis, n ∈ (traceLoop s f wl vis m p).visited := by
  refine traceLoop_inv s (fun _ vis' _ _ => ∀ n ∈ vis, n ∈ vis') ?_ ?_ f wl vis m p hb hf
    (fun _ h => h)
  · intro n wl vis m p h _; exact h
  · intro n wl vis' m p t h _ _ a ha
    exact List.mem_cons_of_mem _ (h a ha)

theorem traceLoop_visited_readable (h : ∀ n ∈ vis, (s.tableOf n).isSome) :
    ∀ n ∈ (traceLoop s f wl vis m p).visited, (s.tableOf n).isSome := by
  refine traceLoop_inv s (fun _ vis _ _ => ∀ n ∈ vis, (s.tableOf n).isSome) ?_ ?_
    f wl vis m p hb hf h
  · intro n wl vis m p h _; exact h
  · intro n wl vis m p t h _ ht a ha
    rcases List.mem_cons.mp ha with h2 | h2
    · subst h2; simp [ht]
    · exact h a h2

/-- every element of the worklist ends up visited -/
theorem traceLoop_visited_wl : ∀ n ∈ wl, n ∈ (traceLoop s f wl vis m p).visited := by
  have := traceLoop_inv s (fun wl' vis' _ _ => ∀ n ∈ wl, n ∈ vis' ∨ n ∈ wl') ?_ ?_
    f wl vis m p hb hf (fun _ h => Or.inr h)
  · intro n hn; simpa using this n hn
  · intro n wl' vis' m p h hn a ha
    rcases h a ha with h1 | h1
    · exact Or.inl h1
    · rcases List.mem_cons.mp h1 with h2 | h2
      · subst h2; exact Or.inl hn
      · exact Or.inr h2
  · intro n wl' vis' m p t h _ _ a ha
    rcases h a ha with h1 | h1
    · exact Or.inl (List.mem_cons_of_mem _ h1)
    · rcases List.mem_cons.mp h1 with h2 | h2
      · subst h2; exact Or.inl List.mem_cons_self
      · exact Or.inr ((scan_wl _ _ _).mpr (Or.inl h2))

/-- everything visited is Forward-reachable from the start -/
theorem traceLoop_reach (x : Nat)
    (hv : ∀ n ∈ vis, FwdReach s x n) (hw : ∀ n ∈ wl, FwdReach s x n) :
    ∀ n ∈ (traceLoop s f wl vis m p).visited, FwdReach s x n := by
  have := traceLoop_inv s
    (fun wl vis _ _ => (∀ n ∈ vis, FwdReach s x n) ∧ (∀ n ∈ wl, FwdReach s x n)) ?_ ?_
    f wl vis m p hb hf ⟨hv, hw⟩
  · exact this.1
  · intro n wl vis m p h _
    exact ⟨h.1, fun a ha => h.2 a (List.mem_cons_of_mem _ ha)⟩
  · intro n wl vis m p t h _ ht
    have hn : FwdReach s x n := h.2 n List.mem_cons_self
    refine ⟨?_, ?_⟩
    · intro a ha
      rcases List.mem_cons.mp ha with h2 | h2
      · subst h2; exact hn
      · exact h.1 a h2
    · intro a ha
      rcases (scan_wl _ _ _).mp ha with h2 | ⟨c, hc⟩
      · exact h.2 a (List.mem_cons_of_mem _ h2)
      · rw [← State.tbl_of_some ht] at hc
        exact FwdReach.step hn hc

end Loop

/-! ## `cycleRefs` -/

theorem cycleRefs_spec (s : State) (x : Nat)
    (hb : (cycleRefs s x).bad = none) (hf : (cycleRefs s x).outOfFuel = false) :
    x ∈ (cycleRefs s x).visited ∧
    (cycleRefs s x).visited.Nodup ∧
    (cycleRefs s x).cmap.keys.Nodup ∧
    (∀ n ∈ (cycleRefs s x).visited, (s.tableOf n).isSome) ∧
    (∀ n ∈ (cycleRefs s x).visited, FwdReach s x n) ∧
    (∀ n ∈ (cycleRefs s x).visited, ∀ j c, (⟨j, .fwd⟩, c) ∈ s.tbl n →
      j ∈ (cycleRefs s x).visited) ∧
    (∀ j, FwdReach s x j → j ∈ (cycleRefs s x).visited) ∧
    (∀ j, (cycleRefs s x).cmap.get j
      = sumOver (cycleRefs s x).visited (fun n => fwdCount (s.tbl n) j)) ∧
    (∀ j, (cycleRefs s x).cmap.has j = true
      ↔ ∃ n ∈ (cycleRefs s x).visited, named (s.tbl n) j) := by
  unfold cycleRefs at hb hf ⊢
  have hx := traceLoop_visited_wl s _ [x] [] [] 0 hb hf x List.mem_cons_self
  have hcl := traceLoop_closed s _ [x] [] [] 0 hb hf (by intro n hn; cases hn)
  refine ⟨hx, ?_, ?_, ?_, ?_, hcl, ?_, ?_, ?_⟩
  · exact traceLoop_visited_nodup s _ [x] [] [] 0 hb hf List.nodup_nil
  · exact traceLoop_keys_nodup s _ [x] [] [] 0 hb hf (by simp [CMap.keys])
  · exact traceLoop_visited_readable s _ [x] [] [] 0 hb hf (by intro n hn; cases hn)
  · apply traceLoop_reach s _ [x] [] [] 0 hb hf x (by intro n hn; cases hn)
    intro n hn
    simp only [List.mem_singleton] at hn
    subst hn
    exact FwdReach.refl n
  · intro j hj
    induction hj with
    | refl => exact hx
    | step _ hc ih => exact hcl _ ih _ _ hc
  · exact traceLoop_counts s _ [x] [] [] 0 hb hf (by intro j; simp [CMap.get, sumOver])
  · exact traceLoop_keys s _ [x] [] [] 0 hb hf (by intro j; simp [CMap.has])

/-! ## pop bound and fuel adequacy -/

theorem traceLoop_popped_le (s : State) (f : Nat) (wl vis : List Nat) (m : CMap) (p c : Nat)
    (h : p + wl.length ≤ c + sumOver vis (fun n => fwdLen (s.tbl n))) :
    (traceLoop s f wl vis m p).popped
      ≤ c + sumOver (traceLoop s f wl vis m p).visited (fun n => fwdLen (s.tbl n)) := by
  induction f generalizing wl vis m p with
  | zero => rw [traceLoop_zero]; simp only; omega
  | succ f ih =>
    cases wl with
    | nil => rw [traceLoop_nil]; simp only; omega
    | cons n wl =>
      simp only [List.length_cons] at h
      by_cases hn : n ∈ vis
      · rw [traceLoop_skip s f n wl vis m p hn]
        apply ih; omega
      · cases ht : s.tableOf n with
        | none => rw [traceLoop_bad s f n wl vis m p hn ht]; simp only; omega
        | some t =>
          rw [traceLoop_scan s f n wl vis m p t hn ht]
          apply ih
          rw [scan_wl_length]
          simp only [sumOver, List.map_cons, List.sum_cons, State.tbl_of_some ht, fwdLen] at h ⊢
          omega

/-- pops of a normally finished run: the start plus one per Forward entry of a visited object -/
theorem traceLoop_popped_eq (s : State) (f : Nat) (wl vis : List Nat) (m : CMap) (p c : Nat)
    (hb : (traceLoop s f wl vis m p).bad = none)
    (hf : (traceLoop s f wl vis m p).outOfFuel = false)
    (h : p + wl.length = c + sumOver vis (fun n => fwdLen (s.tbl n))) :
    (traceLoop s f wl vis m p).popped
      = c + sumOver (traceLoop s f wl vis m p).visited (fun n => fwdLen (s.tbl n)) := by
  have := traceLoop_inv s
    (fun wl vis _ p => p + wl.length = c + sumOver vis (fun n => fwdLen (s.tbl n))) ?_ ?_
    f wl vis m p hb hf h
  · simpa using this
  · intro n wl vis m p h _
    simp only [List.length_cons] at h
    omega
  · intro n wl vis m p t h _ ht
    rw [scan_wl_length]
    simp only [sumOver, List.map_cons, List.sum_cons, State.tbl_of_some ht, fwdLen,
      List.length_cons] at h ⊢
    omega

theorem cycleRefs_popped_le (s : State) (x : Nat) :
    (cycleRefs s x).popped
      ≤ 1 + sumOver (cycleRefs s x).visited (fun n => fwdLen (s.tbl n)) := by
  unfold cycleRefs
  apply traceLoop_popped_le
  simp [sumOver]

theorem cycleRefs_popped_eq (s : State) (x : Nat)
    (hb : (cycleRefs s x).bad = none) (hf : (cycleRefs s x).outOfFuel = false) :
    (cycleRefs s x).popped
      = 1 + sumOver (cycleRefs s x).visited (fun n => fwdLen (s.tbl n)) := by
  unfold cycleRefs at hb hf ⊢
  apply traceLoop_popped_eq _ _ _ _ _ _ _ hb hf
  simp [sumOver]

/-- Forward entries of the objects of `L` that are not in `vis` -/
def restOf (g : Nat → Nat) (L vis : List Nat) : Nat :=
  ((L.filter (fun n => !vis.contains n)).map g).sum

theorem restOf_cons_not_mem (g : Nat → Nat) (L vis : List Nat) (n : Nat) (hn : n ∉ L) :
    restOf g L (n :: vis) = restOf g L vis := by
  induction L with
  | nil => rfl
  | cons a L ih =>
    simp only [List.mem_cons, not_or] at hn
    have ih := ih hn.2
    have ha : a ≠ n := fun h => hn.1 h.symm
    simp only [restOf] at ih ⊢
    by_cases hv : a ∈ vis <;> simp [hv, ha] <;> simpa using ih

theorem restOf_cons (g : Nat → Nat) (L vis : List Nat) (n : Nat) (hL : L.Nodup) (hn : n ∈ L)
    (hv : n ∉ vis) : restOf g L vis = restOf g L (n :: vis) + g n := by
  induction L with
  | nil => cases hn
  | cons a L ih =>
    rw [List.nodup_cons] at hL
    by_cases ha : a = n
    · subst ha
      have := restOf_cons_not_mem g L vis a hL.1
      simp only [restOf] at this ⊢
      simp [hv]
      simp at this
      omega
    · have hn' : n ∈ L := by
        rcases List.mem_cons.mp hn with h | h
        · exact absurd h.symm ha
        · exact h
      have ih := ih hL.2 hn'
      simp only [restOf] at ih ⊢
      by_cases hav : a ∈ vis <;> simp [hav, ha] <;> simp at ih <;> omega

theorem State.tableOf_some {s : State} {n : Nat} {t : Table} (h : s.tableOf n = some t) :
    n < s.heap.length := by
  unfold State.tableOf State.cell at h
  cases hh : s.heap[n]? with
  | none => simp [hh] at h
  | some ob =>
    have := List.getElem?_eq_some_iff.mp hh
    exact this.1

theorem traceLoop_fuel (s : State) (f : Nat) (wl vis : List Nat) (m : CMap) (p : Nat)
    (h : wl.length + restOf (fun n => fwdLen (s.tbl n)) (List.range s.heap.length) vis < f) :
    (traceLoop s f wl vis m p).outOfFuel = false := by
  induction f generalizing wl vis m p with
  | zero => omega
  | succ f ih =>
    cases wl with
    | nil => rfl
    | cons n wl =>
      simp only [List.length_cons] at h
      by_cases hn : n ∈ vis
      · rw [traceLoop_skip s f n wl vis m p hn]
        apply ih; omega
      · cases ht : s.tableOf n with
        | none => rw [traceLoop_bad s f n wl vis m p hn ht]
        | some t =>
          rw [traceLoop_scan s f n wl vis m p t hn ht]
          apply ih
          rw [scan_wl_length]
          have hr : restOf (fun n => fwdLen (s.tbl n)) (List.range s.heap.length) vis
              = restOf (fun n => fwdLen (s.tbl n)) (List.range s.heap.length) (n :: vis)
                + fwdLen (s.tbl n) :=
            restOf_cons (fun n => fwdLen (s.tbl n)) (List.range s.heap.length) vis n
              List.nodup_range (List.mem_range.mpr (State.tableOf_some ht)) hn
          have e : fwdLen (s.tbl n) = (List.filter (fun e => e.1.kind == .fwd) t).length := by
            rw [State.tbl_of_some ht]; rfl
          simp only at h ⊢
          omega

theorem sum_range_le {α : Type} (l : List α) (k : Nat) (g : Nat → Nat) (h : α → Nat)
    (hle : ∀ i (hi : i < l.length), g (k + i) ≤ h l[i]) :
    ((List.range l.length).map (fun i => g (k + i))).sum ≤ (l.map h).sum := by
  induction l generalizing k with
  | nil => simp
  | cons a l ih =>
    have h0 := hle 0 (by simp)
    have := ih (k + 1) (by
      intro i hi
      have := hle (i + 1) (by simpa using hi)
      simpa [Nat.add_assoc, Nat.add_comm 1 i] using this)
    simp only [List.length_cons, List.range_succ_eq_map, List.map_cons, List.sum_cons,
      List.map_map, List.getElem_cons_zero, Nat.add_zero] at h0 this ⊢
    have e : ((fun i => g (k + i)) ∘ Nat.succ) = (fun i => g (k + 1 + i)) := by
      funext i; simp [Nat.add_assoc, Nat.add_comm 1 i]
    rw [e]
    omega

theorem State.fwdLen_tbl_le (s : State) (n : Nat) (hn : n < s.heap.length) :
    fwdLen (s.tbl n) ≤ (s.heap[n].links.getD []).length := by
  have hh : s.heap[n]? = some s.heap[n] := List.getElem?_eq_getElem hn
  unfold State.tbl State.tableOf State.cell
  rw [hh]
  simp only
  by_cases hfr : s.heap[n].freed = true
  · simp [hfr, fwdLen]
  · simp only [hfr, Bool.false_eq_true, if_false, fwdLen]
    exact List.length_filter_le _ _

theorem restOf_le_traceFuel (s : State) :
    1 + restOf (fun n => fwdLen (s.tbl n)) (List.range s.heap.length) [] + 1 ≤ traceFuel s := by
  have h1 : restOf (fun n => fwdLen (s.tbl n)) (List.range s.heap.length) []
      = ((List.range s.heap.length).map (fun i => fwdLen (s.tbl (0 + i)))).sum := by
    have : ∀ L : List Nat, L.filter (fun _ => true) = L := fun L =>
      List.filter_eq_self.mpr (fun _ _ => rfl)
    simp [restOf, this]
  have h2 := sum_range_le s.heap 0 (fun n => fwdLen (s.tbl n))
    (fun ob => (ob.links.getD []).length) (by
      intro i hi
      simpa using s.fwdLen_tbl_le i hi)
  unfold traceFuel
  omega

/-- fuel adequacy: the trace never runs out of fuel -/
theorem cycleRefs_fuel (s : State) (x : Nat) : (cycleRefs s x).outOfFuel = false := by
  unfold cycleRefs
  apply traceLoop_fuel
  have := restOf_le_traceFuel s
  simp only [List.length_cons, List.length_nil]
  omega

end Cactus
