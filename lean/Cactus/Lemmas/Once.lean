import Cactus.Lemmas.Final
/-!
# Every destructor runs at most once, every allocation is released at most once

`InvV`: the identifiers (`vid`) of all values that are still in place (stored in the heap, unwrapped
into `vals`, or waiting in a `dropVal` frame) together with the identifiers logged as `destroyed`
are pairwise distinct and below `nextVid`.  `InvF`: the identifiers logged as `freed` are pairwise
distinct and designate allocations whose `freed` flag is set.  Both are preserved by every
transition of the machine from an *arbitrary* state (no other invariant, no contract, and
regardless of the error field), hence hold in every reachable state.
-/
namespace Cactus

def State.allVals (s : State) : List Val :=
  (s.heap.filterMap (·.value)) ++ s.vals
    ++ (s.stack.filterMap (fun f => match f with | .dropVal v => some v | _ => none))

def State.destroyedVids (s : State) : List Nat :=
  s.log.filterMap (fun e => match e with | .destroyed v => some v | _ => none)

def State.freedIds (s : State) : List Nat :=
  s.log.filterMap (fun e => match e with | .freed o => some o | _ => none)

def State.InvV (s : State) : Prop :=
  ((s.allVals.map (·.vid)) ++ s.destroyedVids).Nodup
    ∧ ∀ x ∈ (s.allVals.map (·.vid)) ++ s.destroyedVids, x < s.nextVid

def State.InvF (s : State) : Prop :=
  s.freedIds.Nodup ∧ ∀ o ∈ s.freedIds, ∃ ob, s.heap[o]? = some ob ∧ ob.freed = true

/-! ## list helpers -/

theorem filterMap_cons_toList {α β : Type} (f : α → Option β) (x : α) (r : List α) :
    (x :: r).filterMap f = (f x).toList ++ r.filterMap f := by
  cases h : f x <;> simp [h]

theorem filterMap_set_perm {α : Type} (f : α → Option Nat) (l : List α) (o : Nat) (a b : α)
    (h : l[o]? = some a) :
    ((f a).toList ++ (l.set o b).filterMap f).Perm ((f b).toList ++ l.filterMap f) := by
  induction l generalizing o with
  | nil => simp at h
  | cons x r ih =>
    cases o with
    | zero =>
      simp at h; subst h
      simp only [List.set_cons_zero, filterMap_cons_toList]
      exact List.perm_append_comm_assoc _ _ _
    | succ o =>
      simp at h
      simp only [List.set_cons_succ, filterMap_cons_toList]
      refine (List.perm_append_comm_assoc _ _ _).trans ?_
      refine .trans ?_ (List.perm_append_comm_assoc _ _ _)
      exact (List.perm_append_left_iff _).mpr (ih o h)

theorem filterMap_set_same {α β : Type} (f : α → Option β) (l : List α) (o : Nat) (a b : α)
    (h : l[o]? = some a) (hf : f b = f a) : (l.set o b).filterMap f = l.filterMap f := by
  induction l generalizing o with
  | nil => simp
  | cons x r ih =>
    cases o with
    | zero =>
      simp at h; subst h
      simp only [List.set_cons_zero, filterMap_cons_toList, hf]
    | succ o =>
      simp at h
      simp only [List.set_cons_succ, filterMap_cons_toList, ih o h]

/-! ## the list of value identifiers -/

def Frame.vidOf : Frame → Option Nat
  | .dropVal v => some v.vid
  | _ => none

def Ev.dvid : Ev → Option Nat
  | .destroyed v => some v
  | _ => none

def Ev.fid : Ev → Option Nat
  | .freed o => some o
  | _ => none

def Obj.vidOf (ob : Obj) : Option Nat := ob.value.map (·.vid)

namespace State

def hv (s : State) : List Nat := s.heap.filterMap Obj.vidOf
def sv (s : State) : List Nat := s.stack.filterMap Frame.vidOf
def vidList (s : State) : List Nat := s.hv ++ s.vals.map (·.vid) ++ s.sv ++ s.destroyedVids

theorem destroyedVids_eq (s : State) : s.destroyedVids = s.log.filterMap Ev.dvid := by
  unfold destroyedVids
  congr 1

theorem freedIds_eq (s : State) : s.freedIds = s.log.filterMap Ev.fid := by
  unfold freedIds
  congr 1

theorem vidList_eq (s : State) : s.allVals.map (·.vid) ++ s.destroyedVids = s.vidList := by
  unfold vidList allVals hv sv
  simp only [List.map_append, List.map_filterMap]
  congr 3
  funext f
  cases f <;> rfl

theorem InvV_iff (s : State) : s.InvV ↔ s.vidList.Nodup ∧ ∀ x ∈ s.vidList, x < s.nextVid := by
  unfold InvV; rw [vidList_eq]


/-! ## relations between a state and its successor -/

/-- only counters, link tables, handle lists, flags and the error field differ -/
structure Keep (s s' : State) : Prop where
  heap : s'.heap.map (fun ob => (ob.value, ob.freed)) = s.heap.map (fun ob => (ob.value, ob.freed))
  vals : s'.vals = s.vals
  stack : s'.stack = s.stack
  log : s'.log = s.log
  nextVid : s'.nextVid = s.nextVid

theorem Keep.refl (s : State) : s.Keep s := ⟨rfl, rfl, rfl, rfl, rfl⟩

theorem Keep.trans {a b c : State} (h1 : a.Keep b) (h2 : b.Keep c) : a.Keep c :=
  ⟨h2.heap.trans h1.heap, h2.vals.trans h1.vals, h2.stack.trans h1.stack, h2.log.trans h1.log,
    h2.nextVid.trans h1.nextVid⟩

theorem Keep.of_fields {s s' : State} (h1 : s'.heap = s.heap) (h2 : s'.vals = s.vals)
    (h3 : s'.stack = s.stack) (h4 : s'.log = s.log) (h5 : s'.nextVid = s.nextVid) : s.Keep s' :=
  ⟨by rw [h1], h2, h3, h4, h5⟩

theorem Keep.fail (s : State) (e : Err) : s.Keep (s.fail e) := by
  unfold State.fail; split
  · exact Keep.refl s
  · exact Keep.of_fields rfl rfl rfl rfl rfl

theorem Keep.get {s s' : State} (h : s.Keep s') (o : Nat) :
    (s'.heap[o]?).map (fun ob => (ob.value, ob.freed)) = (s.heap[o]?).map (fun ob => (ob.value, ob.freed)) := by
  have := congrArg (·[o]?) h.heap
  simpa [List.getElem?_map] using this

theorem Keep.cell {s s' : State} (h : s.Keep s') {o : Nat} {ob : Obj} (hc : s.cell o = some ob) :
    ∃ ob', s'.cell o = some ob' ∧ ob'.value = ob.value := by
  have hg := h.get o
  rw [get_of_cell hc] at hg
  cases hg' : s'.heap[o]? with
  | none => rw [hg'] at hg; simp at hg
  | some ob' =>
    rw [hg'] at hg
    simp at hg
    refine ⟨ob', ?_, hg.1⟩
    unfold State.cell
    rw [hg']
    simp [hg.2, freed_of_cell hc]

theorem Keep.setObj {s : State} {o : Nat} {ob : Obj} (ob' : Obj) (hc : s.cell o = some ob)
    (hv : ob'.value = ob.value) (hf : ob'.freed = ob.freed) : s.Keep (s.setObj o ob') := by
  refine ⟨?_, rfl, rfl, rfl, rfl⟩
  show (s.heap.set o ob').map _ = _
  apply List.ext_getElem?
  intro i
  simp only [List.getElem?_map, List.getElem?_set]
  split
  · rename_i hio; subst hio
    rw [get_of_cell hc]
    have := get_lt (get_of_cell hc)
    simp [this, hv, hf]
  · rfl

/-- value identifiers are only moved around, `nextVid` is unchanged, `InvF` is preserved -/
structure Mv (s s' : State) : Prop where
  perm : s'.vidList.Perm s.vidList
  nv : s'.nextVid = s.nextVid
  f : s.InvF → s'.InvF

theorem Mv.refl (s : State) : s.Mv s := ⟨List.Perm.refl _, rfl, id⟩

theorem Mv.trans {a b c : State} (h1 : a.Mv b) (h2 : b.Mv c) : a.Mv c :=
  ⟨h2.perm.trans h1.perm, h2.nv.trans h1.nv, fun h => h2.f (h1.f h)⟩

theorem Mv.invV {s s' : State} (h : s.Mv s') (hv : s.InvV) : s'.InvV := by
  rw [InvV_iff] at hv ⊢
  refine ⟨(h.perm.nodup_iff).mpr hv.1, ?_⟩
  intro x hx
  rw [h.nv]
  exact hv.2 x ((h.perm.mem_iff).mp hx)

theorem InvF_of_mono {s s' : State} (fr : s'.freedIds = s.freedIds)
    (mono : ∀ (o : Nat) (ob : Obj), s.heap[o]? = some ob → ob.freed = true →
      ∃ ob' : Obj, s'.heap[o]? = some ob' ∧ ob'.freed = true)
    (h : s.InvF) : s'.InvF := by
  unfold InvF at h ⊢
  rw [fr]
  refine ⟨h.1, ?_⟩
  intro o ho
  obtain ⟨ob, h1, h2⟩ := h.2 o ho
  exact mono o ob h1 h2

theorem Keep.hv {s s' : State} (h : s.Keep s') : s'.hv = s.hv := by
  unfold State.hv
  have : ∀ l : List Obj, l.filterMap Obj.vidOf
      = (l.map (fun ob => (ob.value, ob.freed))).filterMap (fun p => p.1.map (·.vid)) := by
    intro l; rw [List.filterMap_map]; rfl
  rw [this, this, h.heap]

theorem Keep.mv {s s' : State} (h : s.Keep s') : s.Mv s' := by
  refine ⟨?_, h.nextVid, ?_⟩
  · unfold vidList State.sv
    rw [h.hv, h.vals, h.stack, destroyedVids_eq, destroyedVids_eq, h.log]
  · apply InvF_of_mono
    · rw [freedIds_eq, freedIds_eq, h.log]
    · intro o ob hg hf
      have hk := h.get o
      rw [hg] at hk
      cases hg' : s'.heap[o]? with
      | none => rw [hg'] at hk; simp at hk
      | some ob' =>
        rw [hg'] at hk; simp at hk
        exact ⟨ob', rfl, by rw [hk.2, hf]⟩

/-- the two invariants are preserved -/
structure Pres (s s' : State) : Prop where
  v : s.InvV → s'.InvV
  f : s.InvF → s'.InvF

theorem Pres.refl (s : State) : s.Pres s := ⟨id, id⟩
theorem Pres.trans {a b c : State} (h1 : a.Pres b) (h2 : b.Pres c) : a.Pres c :=
  ⟨fun h => h2.v (h1.v h), fun h => h2.f (h1.f h)⟩
theorem Mv.pres {s s' : State} (h : s.Mv s') : s.Pres s' := ⟨h.invV, h.f⟩
theorem Keep.pres {s s' : State} (h : s.Keep s') : s.Pres s' := h.mv.pres


/-! ## primitives -/

theorem destroyedVids_emit (s : State) (e : Ev) :
    (s.emit e).destroyedVids = s.destroyedVids ++ e.dvid.toList := by
  rw [destroyedVids_eq, destroyedVids_eq]
  show (s.log ++ [e]).filterMap Ev.dvid = _
  rw [List.filterMap_append, filterMap_cons_toList]; simp

theorem freedIds_emit (s : State) (e : Ev) : (s.emit e).freedIds = s.freedIds ++ e.fid.toList := by
  rw [freedIds_eq, freedIds_eq]
  show (s.log ++ [e]).filterMap Ev.fid = _
  rw [List.filterMap_append, filterMap_cons_toList]; simp

theorem vidList_emit (s : State) (e : Ev) : (s.emit e).vidList = s.vidList ++ e.dvid.toList := by
  unfold vidList
  rw [destroyedVids_emit]
  simp only [List.append_assoc]
  rfl

theorem sv_push (s : State) (fs : List Frame) : (s.push fs).sv = fs.filterMap Frame.vidOf ++ s.sv := by
  unfold State.sv
  show (fs ++ s.stack).filterMap Frame.vidOf = _
  rw [List.filterMap_append]

theorem vidList_push (s : State) (fs : List Frame) :
    (s.push fs).vidList.Perm (fs.filterMap Frame.vidOf ++ s.vidList) := by
  unfold vidList
  rw [sv_push]
  show (s.hv ++ s.vals.map (·.vid) ++ (fs.filterMap Frame.vidOf ++ s.sv) ++ s.destroyedVids).Perm _
  rw [List.perm_iff_count]; intro a
  simp only [List.count_append]; omega

theorem vidList_setObj_same {s : State} {o : Nat} {ob : Obj} (ob' : Obj) (hg : s.heap[o]? = some ob)
    (hv : ob'.vidOf = ob.vidOf) : (s.setObj o ob').vidList = s.vidList := by
  unfold vidList
  have : (s.setObj o ob').hv = s.hv := filterMap_set_same Obj.vidOf s.heap o ob ob' hg hv
  rw [this]; rfl

theorem vidList_setObj_perm {s : State} {o : Nat} {ob : Obj} (ob' : Obj) (hg : s.heap[o]? = some ob) :
    (ob.vidOf.toList ++ (s.setObj o ob').vidList).Perm (ob'.vidOf.toList ++ s.vidList) := by
  have h : (ob.vidOf.toList ++ (s.setObj o ob').hv).Perm (ob'.vidOf.toList ++ s.hv) :=
    filterMap_set_perm Obj.vidOf s.heap o ob ob' hg
  unfold vidList
  show (ob.vidOf.toList ++ ((s.setObj o ob').hv ++ s.vals.map (·.vid) ++ s.sv ++ s.destroyedVids)).Perm _
  rw [List.perm_iff_count] at h ⊢; intro a
  have := h a
  simp only [List.count_append] at this ⊢; omega

theorem mono_setObj_cell {s : State} {o : Nat} {ob : Obj} (ob' : Obj) (hc : s.cell o = some ob) :
    ∀ (o1 : Nat) (ob1 : Obj), s.heap[o1]? = some ob1 → ob1.freed = true →
      ∃ ob2 : Obj, (s.setObj o ob').heap[o1]? = some ob2 ∧ ob2.freed = true := by
  intro o1 ob1 hg hf
  by_cases h : o1 = o
  · subst h
    rw [get_of_cell hc] at hg; cases hg
    rw [freed_of_cell hc] at hf; cases hf
  · exact ⟨ob1, by rw [getElem?_setObj_other s _ h]; exact hg, hf⟩

theorem InvF_setObj_cell {s : State} {o : Nat} {ob : Obj} (ob' : Obj) (hc : s.cell o = some ob)
    (h : s.InvF) : (s.setObj o ob').InvF :=
  InvF_of_mono (s := s) (s' := s.setObj o ob') rfl (mono_setObj_cell ob' hc) h

theorem InvF_emit (s : State) (e : Ev) (h2 : e.fid = none) (h : s.InvF) : (s.emit e).InvF := by
  refine InvF_of_mono (s := s) ?_ ?_ h
  · rw [freedIds_emit, h2]; simp
  · intro o ob hg hf; exact ⟨ob, hg, hf⟩

theorem Mv.emit (s : State) (e : Ev) (h1 : e.dvid = none) (h2 : e.fid = none) : s.Mv (s.emit e) := by
  refine ⟨?_, rfl, ?_⟩
  · rw [vidList_emit, h1]; simp
  · apply InvF_of_mono
    · rw [freedIds_emit, h2]; simp
    · intro o ob hg hf; exact ⟨ob, hg, hf⟩

theorem Mv.push (s : State) (fs : List Frame) (h : fs.filterMap Frame.vidOf = []) : s.Mv (s.push fs) := by
  refine ⟨?_, rfl, ?_⟩
  · have := vidList_push s fs
    rw [h] at this; simpa using this
  · apply InvF_of_mono rfl
    intro o ob hg hf; exact ⟨ob, hg, hf⟩

theorem Mv.setObj {s : State} {o : Nat} {ob : Obj} (ob' : Obj) (hc : s.cell o = some ob)
    (hv : ob'.vidOf = ob.vidOf) : s.Mv (s.setObj o ob') := by
  refine ⟨?_, rfl, ?_⟩
  · rw [vidList_setObj_same ob' (get_of_cell hc) hv]
  · exact InvF_of_mono rfl (mono_setObj_cell ob' hc)

theorem Mv.modVal (s : State) (o : Nat) (f : Val → Val) (hf : ∀ v, (f v).vid = v.vid) :
    s.Mv (s.modVal o f) := by
  rcases modVal_cases s o f with ⟨e, he⟩ | ⟨ob, v, hc, hv, he⟩ <;> rw [he]
  · exact (Keep.fail s e).mv
  · apply Mv.setObj _ hc
    simp [Obj.vidOf, hv, hf]

theorem not_mem_freedIds_of_cell {s : State} {o : Nat} {ob : Obj} (hc : s.cell o = some ob)
    (h : s.InvF) : o ∉ s.freedIds := by
  intro hm
  obtain ⟨ob1, h1, h2⟩ := h.2 o hm
  rw [get_of_cell hc] at h1; cases h1
  rw [freed_of_cell hc] at h2; cases h2

theorem Mv.decWeakFree (s : State) (o : Nat) (imp : Bool) : s.Mv (s.decWeakFree o imp) := by
  rcases decWeakFree_cases s o imp with ⟨e, he⟩ | ⟨ob, hc, hw, he⟩ | ⟨ob, w, hc, hw, he⟩ <;> rw [he]
  · exact (Keep.fail s e).mv
  · refine ⟨?_, rfl, ?_⟩
    · rw [vidList_emit, vidList_setObj_same
        { ob with weak := 0, freed := true, implicit := ob.implicit && !imp } (get_of_cell hc) rfl]
      simp [Ev.dvid]
    · intro hF
      have hn := not_mem_freedIds_of_cell hc hF
      unfold InvF
      rw [freedIds_emit]
      show (s.freedIds ++ [o]).Nodup ∧ _
      refine ⟨?_, ?_⟩
      · rw [List.nodup_append]
        refine ⟨hF.1, by simp, ?_⟩
        intro a ha b hb
        simp at hb; subst hb
        intro hab; subst hab; exact hn ha
      · intro o1 ho1
        rw [List.mem_append] at ho1
        rcases ho1 with h1 | h1
        · obtain ⟨ob1, g1, f1⟩ := hF.2 o1 h1
          have hne : o1 ≠ o := fun h => hn (h ▸ h1)
          exact ⟨ob1, by show (s.setObj o _).heap[o1]? = _; rw [getElem?_setObj_other s _ hne]; exact g1, f1⟩
        · simp [Ev.fid] at h1; subst h1
          exact ⟨_, getElem?_setObj_same _ (get_lt (get_of_cell hc)), rfl⟩
  · exact Mv.setObj _ hc rfl


/-! ## library functions that touch counters and link tables only -/

theorem Keep.setLinks (s : State) (o : Nat) (f : Table → Table) : s.Keep (s.setLinks o f) := by
  rcases setLinks_cases s o f with ⟨e, he⟩ | ⟨ob, t, hc, hl, he⟩ <;> rw [he]
  · exact Keep.fail s e
  · exact Keep.setObj _ hc rfl rfl

theorem Keep.incStrong (s : State) (o : Nat) : s.Keep (s.incStrong o) := by
  rcases incStrong_cases s o with ⟨e, he⟩ | ⟨ob, n, hc, hs, he⟩ <;> rw [he]
  · exact Keep.fail s e
  · exact Keep.setObj _ hc rfl rfl

theorem Keep.incWeak (s : State) (o : Nat) : s.Keep (s.incWeak o) := by
  rcases incWeak_cases s o with ⟨e, he⟩ | ⟨ob, hc, hw, he⟩ <;> rw [he]
  · exact Keep.fail s e
  · exact Keep.setObj _ hc rfl rfl

theorem Keep.adopt (s : State) (a b : Nat) (same : Bool) : s.Keep (s.adopt a b same) := by
  unfold State.adopt; split
  · exact Keep.setLinks _ _ _
  · exact (Keep.setLinks _ _ _).trans (Keep.setLinks _ _ _)

theorem Keep.unadopt (s : State) (a b : Nat) (same : Bool) : s.Keep (s.unadopt a b same) := by
  unfold State.unadopt; split
  · exact Keep.setLinks _ _ _
  · exact (Keep.setLinks _ _ _).trans (Keep.setLinks _ _ _)

theorem Keep.foldl {α : Type} (f : State → α → State) (h : ∀ (s : State) (a : α), s.Keep (f s a)) (l : List α) (s : State) :
    s.Keep (l.foldl f s) := by
  induction l generalizing s with
  | nil => exact Keep.refl s
  | cons a l ih => exact (h s a).trans (ih _)

theorem Keep.purgeOne (x : Nat) (s : State) (e : Link × Nat) : s.Keep (State.purgeOne x s e) := by
  unfold State.purgeOne; split
  · exact Keep.refl s
  · exact Keep.setLinks _ _ _

theorem Keep.purgePeers (s : State) (x : Nat) : s.Keep (s.purgePeers x) := by
  unfold State.purgePeers; split
  · exact (Keep.foldl _ (Keep.purgeOne x) _ s).trans (Keep.setLinks _ _ _)
  · exact Keep.fail s _

theorem Keep.phase1One (keys : List Nat) (s : State) (e : Nat × Nat) : s.Keep (State.phase1One keys s e) := by
  unfold State.phase1One
  split
  · rename_i ob hc
    split
    · exact Keep.setObj _ hc rfl rfl
    · exact Keep.fail s _
    · exact Keep.fail s _
  · exact Keep.fail s _

theorem Keep.cloneHandles (s : State) (v : Val) : s.Keep (s.cloneHandles v) := by
  unfold State.cloneHandles
  exact (Keep.foldl _ Keep.incStrong _ s).trans (Keep.foldl _ Keep.incWeak _ _)

theorem Keep.badRoot (s : State) (r : Nat) : s.Keep (s.badRoot r) := by
  rcases badRoot_cases s r with h | ⟨e, h⟩ <;> rw [h]
  · exact Keep.refl s
  · exact Keep.fail s e

/-! ## teardown of one object -/

theorem Mv.foldl {α : Type} (f : State → α → State) (h : ∀ (s : State) (a : α), s.Mv (f s a)) (l : List α) (s : State) :
    s.Mv (l.foldl f s) := by
  induction l generalizing s with
  | nil => exact Mv.refl s
  | cons a l ih => exact (h s a).trans (ih _)

theorem Mv.beginSingle (s : State) (o : Nat) : s.Mv (s.beginSingle o) := by
  unfold State.beginSingle
  split
  · rename_i ob hc
    split
    · exact Mv.decWeakFree s o true
    · split
      · rename_i v hv
        refine ⟨?_, rfl, InvF_of_mono rfl (mono_setObj_cell _ hc)⟩
        have h1 := vidList_push (s.setObj o { ob with strong := .uninit, value := none }) [.dropVal v, .finishSingle o]
        rw [show [Frame.dropVal v, Frame.finishSingle o].filterMap Frame.vidOf = [v.vid] from rfl] at h1
        have h2 := vidList_setObj_perm { ob with strong := .uninit, value := none } (get_of_cell hc)
        simp only [Obj.vidOf, hv] at h2
        rw [List.perm_iff_count] at h1 h2 ⊢; intro a
        have h1 := h1 a; have h2 := h2 a
        simp [List.count_cons] at h1 h2 ⊢
        omega
      · exact (Keep.fail s _).mv
  · exact (Keep.fail s _).mv

theorem Mv.finishSingle (s : State) (o : Nat) : s.Mv (s.finishSingle o) := by
  unfold State.finishSingle
  split
  · rename_i ob hc
    split
    · exact (Mv.setObj { ob with links := none } hc rfl).trans (Mv.decWeakFree _ _ _)
    · exact (Keep.fail s _).mv
  · exact (Keep.fail s _).mv

theorem Mv.phase3One (s : State) (k : Nat) : s.Mv (s.phase3One k) := by
  unfold State.phase3One
  split
  · split
    · exact Mv.decWeakFree _ _ _
    · exact Mv.refl s
  · exact (Keep.fail s _).mv

/-- `giveUp o` after the value `v` of `o` has been copied out: exactly `v` leaves the heap -/
theorem giveUp_once {s : State} {o : Nat} {ob : Obj} {v : Val} (hc : s.cell o = some ob)
    (hv : ob.value = some v) :
    (v.vid :: (s.giveUp o).vidList).Perm s.vidList ∧ (s.giveUp o).nextVid = s.nextVid
      ∧ (s.InvF → (s.giveUp o).InvF) := by
  have hk := Keep.purgePeers s o
  obtain ⟨ob', hc', hv'⟩ := hk.cell hc
  have hm := hk.mv
  unfold State.giveUp
  rw [hc']
  show (v.vid :: ((s.purgePeers o).setObj o { ob' with strong := .cnt 0, value := none, links := none }
      |>.decWeakFree o true).vidList).Perm _ ∧ _
  have hd := Mv.decWeakFree
    ((s.purgePeers o).setObj o { ob' with strong := .cnt 0, value := none, links := none }) o true
  refine ⟨?_, hd.nv.trans hm.nv, fun h => hd.f (InvF_setObj_cell _ hc' (hm.f h))⟩
  have h2 := vidList_setObj_perm { ob' with strong := .cnt 0, value := none, links := none } (get_of_cell hc')
  simp only [Obj.vidOf, hv', hv] at h2
  have h1 := hd.perm
  have h3 := hm.perm
  rw [List.perm_iff_count] at h1 h2 h3 ⊢; intro a
  have h1 := h1 a; have h2 := h2 a; have h3 := h3 a
  simp [List.count_cons] at h1 h2 h3 ⊢
  omega


/-! ## teardown of a group -/

structure Mv2 (a b : State × List Val) : Prop where
  perm : (b.1.vidList ++ b.2.map (·.vid)).Perm (a.1.vidList ++ a.2.map (·.vid))
  nv : b.1.nextVid = a.1.nextVid
  f : a.1.InvF → b.1.InvF

theorem Mv2.refl (a : State × List Val) : Mv2 a a := ⟨List.Perm.refl _, rfl, id⟩

theorem Mv2.trans {a b c : State × List Val} (h1 : Mv2 a b) (h2 : Mv2 b c) : Mv2 a c :=
  ⟨h2.perm.trans h1.perm, h2.nv.trans h1.nv, fun h => h2.f (h1.f h)⟩

theorem Mv2.of_mv {s s' : State} (h : s.Mv s') (l : List Val) : Mv2 (s, l) (s', l) :=
  ⟨(List.perm_append_right_iff _).mpr h.perm, h.nv, h.f⟩

/-- each `phase2One` moves at most one value from the heap into the collected list -/
theorem Mv2.phase2One (acc : State × List Val) (k : Nat) : Mv2 acc (State.phase2One acc k) := by
  unfold State.phase2One
  split
  · rename_i ob hc
    split
    · split
      · rename_i v hv
        refine ⟨?_, rfl, InvF_setObj_cell _ hc⟩
        have h2 := vidList_setObj_perm { ob with strong := .uninit, value := none, links := none } (get_of_cell hc)
        simp only [Obj.vidOf, hv] at h2
        rw [List.perm_iff_count] at h2 ⊢; intro a
        have h2 := h2 a
        simp [List.count_cons] at h2 ⊢
        omega
      · exact Mv2.of_mv (Keep.fail _ _).mv _
    · exact Mv2.refl _
  · exact Mv2.of_mv (Keep.fail _ _).mv _

theorem Mv2.foldl (l : List Nat) (acc : State × List Val) : Mv2 acc (l.foldl State.phase2One acc) := by
  induction l generalizing acc with
  | nil => exact Mv2.refl acc
  | cons a l ih => exact (Mv2.phase2One acc a).trans (ih _)

theorem filterMap_vidOf_dropVals (l : List Val) (ks : List Nat) :
    (l.map Frame.dropVal ++ [Frame.phase3 ks]).filterMap Frame.vidOf = l.map (·.vid) := by
  induction l with
  | nil => rfl
  | cons v l ih => simp only [List.map_cons, List.cons_append, filterMap_cons_toList, ih]; rfl

theorem Mv.dropCycle (s : State) (c : CMap) : s.Mv (s.dropCycle c) := by
  unfold State.dropCycle
  dsimp only
  have h1 : s.Keep (c.foldl (State.phase1One c.keys) s) := Keep.foldl _ (Keep.phase1One _) _ _
  have h2 := Mv2.foldl c.keys (c.foldl (State.phase1One c.keys) s, [])
  generalize c.foldl (State.phase1One c.keys) s = s1 at h1 h2
  generalize c.keys.foldl State.phase2One (s1, []) = r at h2
  have h1 := h1.mv
  refine ⟨?_, h2.nv.trans h1.nv, fun h => h2.f (h1.f h)⟩
  have h3 := vidList_push r.1 ((reorder s.hint r.2).map Frame.dropVal ++ [Frame.phase3 c.keys])
  rw [filterMap_vidOf_dropVals] at h3
  have h4 := (reorder_perm s.hint r.2).map (·.vid)
  have h5 := h1.perm
  have h6 := h2.perm
  show (r.1.push _).vidList.Perm _
  rw [List.perm_iff_count] at h3 h4 h5 h6 ⊢; intro a
  have h3 := h3 a; have h4 := h4 a; have h5 := h5 a; have h6 := h6 a
  simp at h3 h4 h5 h6 ⊢
  omega

/-! ## `<Rc as Drop>::drop` -/

theorem Mv.rcDrop (s : State) (o : Nat) : s.Mv (s.rcDrop o) := by
  unfold State.rcDrop
  split
  · exact (Keep.fail s _).mv
  · rename_i ob hc
    split
    · exact Mv.refl s
    · exact Mv.refl s
    · rename_i n hs
      split
      · exact (Keep.fail s _).mv
      · rename_i t hl
        have h1 : s.Mv (s.setObj o { ob with strong := .cnt n }) := Mv.setObj _ hc rfl
        dsimp only
        split
        · split
          · exact h1.trans (Mv.beginSingle _ _)
          · exact h1
        · split
          · exact h1.trans ((Keep.purgePeers _ _).mv.trans (Mv.beginSingle _ _))
          · have h2 := h1.trans (Mv.emit _ (.traced o (cycleRefs (s.setObj o { ob with strong := .cnt n }) o).visited.length
              (cycleRefs (s.setObj o { ob with strong := .cnt n }) o).popped) rfl rfl)
            split
            · exact h2.trans (Keep.fail _ _).mv
            · split
              · exact h2.trans (Keep.fail _ _).mv
              · split
                · exact h2
                · split
                  · exact h2.trans (Keep.fail _ _).mv
                  · split
                    · exact h2
                    · exact h2.trans (Mv.dropCycle _ _)


/-! ## frames -/

theorem vidList_pop {s : State} {f : Frame} {rest : List Frame} (h : s.stack = f :: rest) :
    s.vidList.Perm (f.vidOf.toList ++ ({ s with stack := rest } : State).vidList) := by
  unfold vidList State.sv
  rw [h, filterMap_cons_toList]
  show (s.hv ++ s.vals.map (·.vid) ++ (f.vidOf.toList ++ rest.filterMap Frame.vidOf) ++ s.destroyedVids).Perm
    (f.vidOf.toList ++ (s.hv ++ s.vals.map (·.vid) ++ rest.filterMap Frame.vidOf ++ s.destroyedVids))
  rw [List.perm_iff_count]; intro a
  simp only [List.count_append]; omega

theorem Mv.pop {s : State} {f : Frame} {rest : List Frame} (h : s.stack = f :: rest)
    (hf : f.vidOf = none) : s.Mv { s with stack := rest } := by
  refine ⟨?_, rfl, id⟩
  have := vidList_pop h
  rw [hf] at this
  exact this.symm

theorem Mv.pop_dropVal {s : State} {v : Val} {rest : List Frame} (h : s.stack = .dropVal v :: rest) :
    s.Mv (({ s with stack := rest } : State).dropVal v) := by
  unfold State.dropVal
  refine ⟨?_, rfl, ?_⟩
  · have h1 := vidList_pop h
    have h2 := vidList_push (({ s with stack := rest } : State).emit (.destroyed v.vid))
      ([.script v.held v.weaks v.script] ++ (if v.panics then [.panic] else []) ++ [.dropFields v.held v.weaks])
    have h3 : ([Frame.script v.held v.weaks v.script] ++ (if v.panics then [Frame.panic] else [])
        ++ [Frame.dropFields v.held v.weaks]).filterMap Frame.vidOf = [] := by
      cases v.panics <;> rfl
    rw [h3, vidList_emit] at h2
    refine h2.trans ?_
    rw [List.perm_iff_count] at h1 ⊢; intro a
    have h1 := h1 a
    simp [Frame.vidOf, Ev.dvid, List.count_cons] at h1 ⊢
    omega
  · intro hF
    exact InvF_emit ({ s with stack := rest } : State) (.destroyed v.vid) rfl hF

theorem filterMap_vidOf_filter (l : List Frame) :
    (l.filter Frame.isCleanup).filterMap Frame.vidOf = l.filterMap Frame.vidOf := by
  induction l with
  | nil => rfl
  | cons f l ih =>
    cases f <;> simp [List.filter_cons, Frame.isCleanup, filterMap_cons_toList, ih, Frame.vidOf]

theorem Mv.panic (s : State) : s.Mv s.panic := by
  unfold State.panic
  split
  · exact (Keep.fail s _).mv
  · refine ⟨?_, rfl, id⟩
    unfold vidList State.sv
    show (s.hv ++ s.vals.map (·.vid) ++ (s.stack.filter Frame.isCleanup).filterMap Frame.vidOf
      ++ s.destroyedVids).Perm _
    rw [filterMap_vidOf_filter]

theorem Mv.dropFields (s : State) (h w : List Nat) : s.Mv (s.dropFields h w) := by
  unfold State.dropFields
  split
  · exact Mv.push _ _ rfl
  · exact Mv.push _ _ rfl
  · exact Mv.refl s

end State

/-! ## actions -/

open State

theorem vidList_heap_append {s s' : State} {ob : Obj} (h1 : s'.heap = s.heap ++ [ob])
    (h2 : s'.vals = s.vals) (h3 : s'.stack = s.stack) (h4 : s'.log = s.log) :
    s'.vidList.Perm (ob.vidOf.toList ++ s.vidList) := by
  unfold vidList State.hv State.sv
  rw [destroyedVids_eq, destroyedVids_eq, h1, h2, h3, h4, List.filterMap_append, filterMap_cons_toList]
  rw [List.perm_iff_count]; intro a
  simp only [List.count_append, List.filterMap_nil, List.count_nil]; omega

theorem InvF_heap_append {s s' : State} {ob : Obj} (h1 : s'.heap = s.heap ++ [ob])
    (h4 : s'.log = s.log) (h : s.InvF) : s'.InvF := by
  refine InvF_of_mono (s := s) ?_ ?_ h
  · rw [freedIds_eq, freedIds_eq, h4]
  · intro o x hg hf
    refine ⟨x, ?_, hf⟩
    rw [h1, List.getElem?_append_left (get_lt hg)]; exact hg

theorem cell_heap_append {s s' : State} {ob x : Obj} {o : Nat} (h1 : s'.heap = s.heap ++ [ob])
    (hc : s.cell o = some x) : s'.cell o = some x := by
  have hg := get_of_cell hc
  unfold State.cell
  rw [h1, List.getElem?_append_left (get_lt hg), hg]
  simp [freed_of_cell hc]

/-- a value with the fresh identifier `nextVid` is allocated and `nextVid` is bumped -/
theorem alloc_fresh {s s' : State} {ob : Obj} {v : Val} (h1 : s'.heap = s.heap ++ [ob])
    (h2 : s'.vals = s.vals) (h3 : s'.stack = s.stack) (h4 : s'.log = s.log)
    (hv : ob.value = some v) (hvid : v.vid = s.nextVid) (h5 : s'.nextVid = s.nextVid + 1) : s.Pres s' := by
  refine ⟨?_, InvF_heap_append h1 h4⟩
  intro hV
  rw [InvV_iff] at hV ⊢
  have hp := vidList_heap_append h1 h2 h3 h4
  simp only [Obj.vidOf, hv, Option.map_some, Option.toList_some, List.singleton_append] at hp
  refine ⟨hp.nodup_iff.mpr ?_, ?_⟩
  · rw [List.nodup_cons]
    refine ⟨?_, hV.1⟩
    intro hm
    have := hV.2 _ hm
    omega
  · intro x hx
    have hx := hp.mem_iff.mp hx
    rw [List.mem_cons] at hx
    rcases hx with hx | hx
    · omega
    · have := hV.2 _ hx; omega

theorem vidList_vals_append {s s' : State} {v : Val} (h1 : s'.heap = s.heap)
    (h2 : s'.vals = s.vals ++ [v]) (h3 : s'.stack = s.stack) (h4 : s'.log = s.log) :
    s'.vidList.Perm (v.vid :: s.vidList) := by
  unfold vidList State.hv State.sv
  rw [destroyedVids_eq, destroyedVids_eq, h1, h2, h3, h4, List.map_append]
  rw [List.perm_iff_count]; intro a
  simp [List.count_cons]; omega


theorem vidList_vals_erase {s s' : State} {v : Val} (h1 : s'.heap = s.heap)
    (h2 : (v :: s'.vals).Perm s.vals) (h3 : s'.stack = s.stack) (h4 : s'.log = s.log) :
    (v.vid :: s'.vidList).Perm s.vidList := by
  have h2 := h2.map (·.vid)
  unfold vidList State.hv State.sv
  rw [destroyedVids_eq, destroyedVids_eq, h1, h3, h4]
  rw [List.perm_iff_count] at h2 ⊢; intro a
  have h2 := h2 a
  simp [List.count_cons] at h2 ⊢; omega

/-- `giveUp o` once the value of `o` has been copied elsewhere -/
theorem giveUp_moved {s s0 : State} {o : Nat} {ob : Obj} {v : Val} (hc0 : s0.cell o = some ob)
    (hv : ob.value = some v) (hp : s0.vidList.Perm (v.vid :: s.vidList)) (hn : s0.nextVid = s.nextVid)
    (hF : s.InvF → s0.InvF) : s.Mv (s0.giveUp o) := by
  obtain ⟨g1, g2, g3⟩ := giveUp_once hc0 hv
  exact ⟨(g1.trans hp).cons_inv, g2.trans hn, fun h => g3 (hF h)⟩

theorem State.Keep.upd (s : State) (r w ra : List Nat) (e : Option Err) (u : Bool) (h : List Nat) :
    s.Keep ⟨s.heap, r, w, s.vals, ra, s.stack, s.log, e, u, h, s.nextVid⟩ := ⟨rfl, rfl, rfl, rfl, rfl⟩

/-- one structural step towards `s.Mv X`, peeling the outermost constructor of `X` -/
macro "mv_step" : tactic => `(tactic| first
  | with_reducible exact Mv.refl _
  | with_reducible exact (Keep.fail _ _).mv
  | with_reducible exact (Keep.badRoot _ _).mv
  | (with_reducible refine Mv.trans ?_ (Mv.push _ _ ?_)); rotate_left; rfl
  | (with_reducible refine Mv.trans ?_ (Mv.emit _ _ ?_ ?_)); rotate_left; rfl; rfl
  | (with_reducible refine Mv.trans ?_ (Mv.modVal _ _ _ ?_)); rotate_left; exact (fun _ => rfl)
  | with_reducible refine Mv.trans ?_ (Keep.incStrong _ _).mv
  | with_reducible refine Mv.trans ?_ (Keep.incWeak _ _).mv
  | with_reducible refine Mv.trans ?_ (Keep.adopt _ _ _ _).mv
  | with_reducible refine Mv.trans ?_ (Keep.unadopt _ _ _ _).mv
  | with_reducible refine Mv.trans ?_ (Keep.setLinks _ _ _).mv
  | with_reducible refine Mv.trans ?_ (Keep.badRoot _ _).mv
  | with_reducible refine Mv.trans ?_ (Keep.fail _ _).mv
  | with_reducible refine Mv.trans ?_ (Keep.upd _ _ _ _ _ _ _).mv)

macro "mv_tac" : tactic => `(tactic| (apply Mv.pres; (try dsimp only); repeat mv_step))

theorem upgrade_like (s : State) (o : Nat) :
    s.Pres (match s.cell o with
      | some ob =>
        if ob.strong.isDead then s.emit (retBool false)
        else
          let s1 := (s.incStrong o).emit (retBool true)
          { s1 with roots := s1.roots ++ [o] }
      | none => s.fail (.uaf o)) := by
  split
  · split
    · mv_tac
    · mv_tac
  · mv_tac

theorem applyAct_pres (s : State) (fh fw : List Nat) (a : Act) : s.Pres (applyAct s fh fw a) := by
  cases a with
  | new =>
    simp only [applyAct]
    exact alloc_fresh (ob := { strong := .cnt 1, weak := 1, links := some [], value := some _, freed := false })
      rfl rfl rfl rfl rfl rfl rfl
  | clone r => simp only [applyAct]; split <;> mv_tac
  | drop r => simp only [applyAct]; split <;> mv_tac
  | adopt r1 r2 => simp only [applyAct]; split <;> mv_tac
  | unadopt r1 r2 => simp only [applyAct]; split <;> mv_tac
  | store r q =>
    simp only [applyAct]; split
    · split <;> mv_tac
    · mv_tac
  | take q k =>
    simp only [applyAct]; split
    · split
      · split <;> mv_tac
      · mv_tac
    · mv_tac
  | link r q =>
    simp only [applyAct]; split
    · split <;> mv_tac
    · mv_tac
  | unlink q k =>
    simp only [applyAct]; split
    · split
      · split
        · apply Mv.pres
          refine Mv.trans ?_ (Keep.of_fields rfl rfl rfl rfl rfl).mv
          split <;> repeat mv_step
        · mv_tac
      · mv_tac
    · mv_tac
  | downgrade r => simp only [applyAct]; split <;> mv_tac
  | upgrade w =>
    simp only [applyAct]; split
    · exact upgrade_like s _
    · exact Pres.refl s
  | cloneWeak w => simp only [applyAct]; split <;> mv_tac
  | dropWeak w => simp only [applyAct]; split <;> mv_tac
  | storeWeak w q => simp only [applyAct]; split <;> mv_tac
  | tryUnwrap r =>
    simp only [applyAct]; split
    · split
      · rename_i ob hc
        split
        · rename_i v hs hv
          apply Mv.pres
          refine Mv.trans ?_ (Mv.emit _ _ rfl rfl)
          refine giveUp_moved (ob := ob) (v := v) ?_ hv ?_ rfl ?_
          · exact hc
          · exact vidList_vals_append rfl rfl rfl rfl
          · exact id
        · mv_tac
        · mv_tac
      · mv_tac
    · mv_tac
  | dropValue i =>
    simp only [applyAct]; split
    · rename_i v hn
      have hp := eraseIdx_perm_cons' s.vals _ v (getElem?_idxMod_of_nthMod hn)
      refine Mv.pres ⟨?_, rfl, id⟩
      refine (vidList_push _ _).trans ?_
      exact vidList_vals_erase (s := s) (s' := { s with vals := s.vals.eraseIdx (idxMod s.vals i) })
        rfl hp rfl rfl
    · mv_tac
  | makeMut r =>
    simp only [applyAct]; split
    · rename_i o ho
      split
      · rename_i ob hc
        split
        · rename_i v hv
          split
          · refine Pres.trans ?_ (Mv.push _ _ rfl).pres
            refine Pres.trans ?_ (Mv.emit _ _ rfl rfl).pres
            by_cases hsh : v.shallow = true
            · simp only [if_pos hsh]
              exact alloc_fresh (s := s)
                (ob := { strong := .cnt 1, weak := 1, links := some [],
                         value := some { v with vid := s.nextVid, held := [], weaks := [] },
                         freed := false })
                rfl rfl rfl rfl rfl rfl rfl
            · simp only [if_neg hsh]
              have hk := Keep.cloneHandles s v
              refine Pres.trans hk.pres ?_
              exact alloc_fresh (s := s.cloneHandles v)
                (ob := { strong := .cnt 1, weak := 1, links := some [], value := some { v with vid := s.nextVid },
                         freed := false })
                rfl rfl rfl rfl rfl hk.nextVid.symm (by rw [hk.nextVid])
          · split
            · apply Mv.pres
              refine Mv.trans ?_ (Mv.emit _ _ rfl rfl)
              refine giveUp_moved (ob := ob) (v := v) ?_ hv ?_ rfl ?_
              · exact cell_heap_append (s := s)
                  (ob := { strong := .cnt 1, weak := 1, links := some [], value := some v, freed := false }) rfl hc
              · exact vidList_heap_append (s := s)
                  (ob := { strong := .cnt 1, weak := 1, links := some [], value := some v, freed := false })
                  rfl rfl rfl rfl
              · exact InvF_heap_append (s := s)
                  (ob := { strong := .cnt 1, weak := 1, links := some [], value := some v, freed := false }) rfl rfl
            · mv_tac
        · mv_tac
      · mv_tac
    · mv_tac
  | getMut r =>
    simp only [applyAct]; split
    · split <;> mv_tac
    · mv_tac
  | intoRaw r => simp only [applyAct]; split <;> mv_tac
  | fromRaw i => simp only [applyAct]; split <;> mv_tac
  | incStrong i =>
    simp only [applyAct]; split
    · split <;> mv_tac
    · mv_tac
  | decStrong i =>
    simp only [applyAct]; split
    · split <;> mv_tac
    · mv_tac
  | ptrEq r1 r2 => simp only [applyAct]; split <;> mv_tac
  | counts r =>
    simp only [applyAct]; split
    · split <;> mv_tac
    · mv_tac
  | wcounts w =>
    simp only [applyAct]; split
    · split
      · split <;> mv_tac
      · mv_tac
    · mv_tac
  | setPanic q => simp only [applyAct]; split <;> mv_tac
  | setShallow q => simp only [applyAct]; split <;> mv_tac
  | upgradeField k =>
    simp only [applyAct]; split
    · exact upgrade_like s _
    · exact Pres.refl s
  | cloneField k => simp only [applyAct]; split <;> mv_tac
  | downgradeField k => simp only [applyAct]; split <;> mv_tac

/-! ## operations, machine steps, operation boundaries -/

theorem applyOp_pres (s : State) (op : Op) : s.Pres (applyOp s op) := by
  cases op with
  | act a => exact applyAct_pres s [] [] a
  | setScript q acts => simp only [applyOp]; split <;> mv_tac
  | shuffle q i => simp only [applyOp]; split <;> mv_tac

theorem step_pres (s : State) : s.Pres (step s) := by
  unfold step
  split
  · exact Pres.refl s
  · split
    · exact Pres.refl s
    · rename_i f rest hst
      dsimp only
      cases f with
      | rcDrop o => exact ((Mv.pop hst rfl).trans (Mv.rcDrop _ o)).pres
      | weakDrop o => exact ((Mv.pop hst rfl).trans (Mv.decWeakFree _ o false)).pres
      | dropVal v => exact (Mv.pop_dropVal hst).pres
      | script h w acts =>
        cases acts with
        | nil => exact (Mv.pop hst rfl).pres
        | cons a as =>
          exact ((Mv.pop hst rfl).trans (Mv.push _ [.script h w as] rfl)).pres.trans (applyAct_pres _ h w a)
      | panic => exact ((Mv.pop hst rfl).trans (Mv.panic _)).pres
      | dropFields h w => exact ((Mv.pop hst rfl).trans (Mv.dropFields _ h w)).pres
      | finishSingle o => exact ((Mv.pop hst rfl).trans (Mv.finishSingle _ o)).pres
      | phase3 ks => exact ((Mv.pop hst rfl).trans (Mv.foldl _ Mv.phase3One ks _)).pres

theorem endOp_pres (s : State) : s.Pres (endOp s) := by
  unfold endOp
  split
  · mv_tac
  · exact Pres.refl s

theorem begin_pres (s : State) (hint : List Nat) : s.Pres (s.begin hint) :=
  (Keep.of_fields (s := s) (s' := s.begin hint) rfl rfl rfl rfl rfl).pres

theorem fail_pres (s : State) (e : Err) : s.Pres (s.fail e) := (Keep.fail s e).pres

/-! the statements in the form "preserved by every transition" -/

theorem applyAct_invV (s : State) (fh fw : List Nat) (a : Act) (h : s.InvV) : (applyAct s fh fw a).InvV :=
  (applyAct_pres s fh fw a).v h
theorem applyAct_invF (s : State) (fh fw : List Nat) (a : Act) (h : s.InvF) : (applyAct s fh fw a).InvF :=
  (applyAct_pres s fh fw a).f h
theorem applyOp_invV (s : State) (op : Op) (h : s.InvV) : (applyOp s op).InvV := (applyOp_pres s op).v h
theorem applyOp_invF (s : State) (op : Op) (h : s.InvF) : (applyOp s op).InvF := (applyOp_pres s op).f h
theorem step_invV (s : State) (h : s.InvV) : (step s).InvV := (step_pres s).v h
theorem step_invF (s : State) (h : s.InvF) : (step s).InvF := (step_pres s).f h
theorem endOp_invV (s : State) (h : s.InvV) : (endOp s).InvV := (endOp_pres s).v h
theorem endOp_invF (s : State) (h : s.InvF) : (endOp s).InvF := (endOp_pres s).f h
theorem begin_invV (s : State) (hint : List Nat) (h : s.InvV) : (s.begin hint).InvV := (begin_pres s hint).v h
theorem begin_invF (s : State) (hint : List Nat) (h : s.InvF) : (s.begin hint).InvF := (begin_pres s hint).f h
theorem fail_invV (s : State) (e : Err) (h : s.InvV) : (s.fail e).InvV := (fail_pres s e).v h
theorem fail_invF (s : State) (e : Err) (h : s.InvF) : (s.fail e).InvF := (fail_pres s e).f h

/-! ## reachable states -/

theorem init_invV : ({} : State).InvV := by
  simp [State.InvV, State.allVals, State.destroyedVids]

theorem init_invF : ({} : State).InvF := by
  simp [State.InvF, State.freedIds]

/-- in every state of every execution of every history (error or not, contract or not) -/
theorem reachable_invVF {s : State} (h : Reachable s) : s.InvV ∧ s.InvF := by
  induction h with
  | init => exact ⟨init_invV, init_invF⟩
  | @op s0 o hint _ _ ih =>
    have hp := (begin_pres s0 hint).trans (applyOp_pres _ o)
    exact ⟨hp.v ih.1, hp.f ih.2⟩
  | step _ ih => exact ⟨step_invV _ ih.1, step_invF _ ih.2⟩
  | endOp _ ih => exact ⟨endOp_invV _ ih.1, endOp_invF _ ih.2⟩
  | outOfFuel _ ih => exact ⟨fail_invV _ _ ih.1, fail_invF _ _ ih.2⟩

theorem reachable_invV {s : State} (h : Reachable s) : s.InvV := (reachable_invVF h).1
theorem reachable_invF {s : State} (h : Reachable s) : s.InvF := (reachable_invVF h).2

/-- no destructor runs twice, no allocation is released twice (the hypothesis `s.err = none` is
not needed) -/
theorem reachable_once' {s : State} (h : Reachable s) : s.destroyedVids.Nodup ∧ s.freedIds.Nodup := by
  obtain ⟨hV, hF⟩ := reachable_invVF h
  exact ⟨(List.nodup_append.mp hV.1).2.1, hF.1⟩

theorem reachable_once {s : State} (h : Reachable s) (_he : s.err = none) :
    s.destroyedVids.Nodup ∧ s.freedIds.Nodup := reachable_once' h

/-- a value that is still in place (in the heap, unwrapped, or waiting for its destructor) has not
been destroyed -/
theorem reachable_stored_not_destroyed {s : State} (h : Reachable s) :
    ∀ v ∈ s.allVals, v.vid ∉ s.destroyedVids := by
  intro v hv hd
  have hV := (reachable_invV h).1
  exact (List.nodup_append.mp hV).2.2 v.vid (List.mem_map.mpr ⟨v, hv, rfl⟩) v.vid hd rfl

/-- two distinct places never hold values with the same identifier -/
theorem reachable_vids_nodup {s : State} (h : Reachable s) : (s.allVals.map (·.vid)).Nodup :=
  (List.nodup_append.mp (reachable_invV h).1).1

/-- every allocation logged as released is marked released -/
theorem reachable_freed_marked {s : State} (h : Reachable s) :
    ∀ o ∈ s.freedIds, ∃ ob, s.heap[o]? = some ob ∧ ob.freed = true := (reachable_invF h).2

/-- for the states produced by `run` -/
theorem run_once (ops : List (Op × List Nat)) :
    (run ops).destroyedVids.Nodup ∧ (run ops).freedIds.Nodup := reachable_once' (run_reachable ops)

end Cactus
