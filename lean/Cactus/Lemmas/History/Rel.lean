import Cactus.Lemmas.CollectLayout
import Cactus.Lemmas.Contract
/-!
# History lift of C09, part 1: the relation `LayoutEqL` and its congruence lemmas

`State.LayoutEqL s s'`: the two states agree up to (1) the order of the entries inside every link
table, (2) the order of the events in the log, (3) the hint.  Every primitive state transformer of
the model respects the relation (the table operations `insert`/`remove` need well-formed tables).
-/
namespace Cactus
open State

/-! ## extensionality of well-formed tables -/

namespace Table

theorem nodup_of_map_nodup {α β : Type} (f : α → β) (l : List α) (h : (l.map f).Nodup) :
    l.Nodup := by
  induction l with
  | nil => exact List.nodup_nil
  | cons a l ih =>
    simp only [List.map_cons, List.nodup_cons] at h ⊢
    exact ⟨fun hm => h.1 (List.mem_map_of_mem hm), ih h.2⟩

theorem nodup_of_WF (t : Table) (hw : t.WF) : t.Nodup := nodup_of_map_nodup _ t hw.1

theorem mem_iff_get (t : Table) (hw : t.WF) (l : Link) (c : Nat) :
    (l, c) ∈ t ↔ 0 < c ∧ t.get l = c := by
  constructor
  · intro h
    exact ⟨hw.2 _ h, mem_get t hw l c h⟩
  · rintro ⟨hc, hg⟩
    obtain ⟨c', hc'⟩ := (mem_keys_iff_get_pos t hw l).2 (by omega)
    have := mem_get t hw l c' hc'
    have : c' = c := by omega
    subst this
    exact hc'

/-- two well-formed tables with the same counts are permutations of each other -/
theorem perm_of_get_eq (t u : Table) (hw : t.WF) (hu : u.WF) (h : ∀ l, t.get l = u.get l) :
    t.Perm u := by
  apply (List.perm_ext_iff_of_nodup (nodup_of_WF t hw) (nodup_of_WF u hu)).2
  rintro ⟨l, c⟩
  rw [mem_iff_get t hw, mem_iff_get u hu, h l]

theorem insert_perm (t u : Table) (hw : t.WF) (hp : t.Perm u) (k : Link) :
    (t.insert k).Perm (u.insert k) := by
  have hu := WF_perm t u hw hp
  apply perm_of_get_eq _ _ (WF_insert t hw k) (WF_insert u hu k)
  intro l
  rw [get_insert, get_insert, get_perm t u hw hp]

theorem remove_perm (t u : Table) (hw : t.WF) (hp : t.Perm u) (k : Link) (n : Nat) :
    (t.remove k n).Perm (u.remove k n) := by
  have hu := WF_perm t u hw hp
  apply perm_of_get_eq _ _ (WF_remove t hw k n) (WF_remove u hu k n)
  intro l
  rw [get_remove t hw, get_remove u hu, get_perm t u hw hp, get_perm t u hw hp]

end Table

/-! ## heaps that agree up to the order of table entries -/

/-- same length, slot by slot the same object up to the order of the table entries -/
def HeapEq (h h' : List Obj) : Prop :=
  h.length = h'.length ∧ ∀ (i : Nat) (a b : Obj), h[i]? = some a → h'[i]? = some b → Obj.LayoutEq a b

namespace HeapEq

theorem refl (h : List Obj) : HeapEq h h :=
  ⟨rfl, fun i a b ha hb => by rw [ha] at hb; cases hb; exact Obj.LayoutEq.refl a⟩

theorem symm {h h' : List Obj} (e : HeapEq h h') : HeapEq h' h :=
  ⟨e.1.symm, fun i a b ha hb => (e.2 i b a hb ha).symm⟩

theorem trans {h h' h'' : List Obj} (e : HeapEq h h') (e' : HeapEq h' h'') : HeapEq h h'' := by
  refine ⟨e.1.trans e'.1, ?_⟩
  intro i a c ha hc
  have hi : i < h'.length := by
    have := (List.getElem?_eq_some_iff.mp ha).1
    have := e.1
    omega
  exact (e.2 i a _ ha (List.getElem?_eq_getElem hi)).trans
    (e'.2 i _ c (List.getElem?_eq_getElem hi) hc)

theorem cases {h h' : List Obj} (e : HeapEq h h') (i : Nat) :
    (h[i]? = none ∧ h'[i]? = none)
    ∨ ∃ a b, h[i]? = some a ∧ h'[i]? = some b ∧ Obj.LayoutEq a b := by
  by_cases hi : i < h.length
  · have hi' : i < h'.length := by have := e.1; omega
    exact Or.inr ⟨_, _, List.getElem?_eq_getElem hi, List.getElem?_eq_getElem hi',
      e.2 i _ _ (List.getElem?_eq_getElem hi) (List.getElem?_eq_getElem hi')⟩
  · have hi' : ¬ i < h'.length := by have := e.1; omega
    exact Or.inl ⟨List.getElem?_eq_none (by omega), List.getElem?_eq_none (by omega)⟩

theorem set {h h' : List Obj} (e : HeapEq h h') (o : Nat) {a b : Obj} (hab : Obj.LayoutEq a b) :
    HeapEq (h.set o a) (h'.set o b) := by
  refine ⟨by simp [e.1], ?_⟩
  intro i x y hx hy
  by_cases hio : o = i
  · subst hio
    rw [List.getElem?_set] at hx hy
    simp only [if_true] at hx hy
    split at hx
    · split at hy
      · cases hx; cases hy; exact hab
      · cases hy
    · cases hx
  · rw [List.getElem?_set_ne hio] at hx hy
    exact e.2 i x y hx hy

theorem append {h h' : List Obj} (e : HeapEq h h') {a b : Obj} (hab : Obj.LayoutEq a b) :
    HeapEq (h ++ [a]) (h' ++ [b]) := by
  refine ⟨by simp [e.1], ?_⟩
  intro i x y hx hy
  by_cases hi : i < h.length
  · have hi' : i < h'.length := by have := e.1; omega
    rw [List.getElem?_append_left hi] at hx
    rw [List.getElem?_append_left hi'] at hy
    exact e.2 i x y hx hy
  · have hi' : ¬ i < h'.length := by have := e.1; omega
    rw [List.getElem?_append_right (by omega)] at hx
    rw [List.getElem?_append_right (by omega)] at hy
    have e1 := e.1
    by_cases h0 : i - h.length = 0
    · have h0' : i - h'.length = 0 := by omega
      rw [h0] at hx; rw [h0'] at hy
      simp at hx hy
      subst hx; subst hy
      exact hab
    · have h0' : i - h'.length ≠ 0 := by omega
      have : ([a] : List Obj)[i - h.length]? = none := by
        apply List.getElem?_eq_none; simp; omega
      rw [this] at hx; cases hx

/-- pointwise map by functions that respect the object relation -/
theorem of_map {h h' g g' : List Obj} (e : HeapEq h h') (f f' : Nat → Obj → Obj)
    (hg : ∀ i, g[i]? = (h[i]?).map (f i)) (hg' : ∀ i, g'[i]? = (h'[i]?).map (f' i))
    (hf : ∀ i a b, h[i]? = some a → h'[i]? = some b → Obj.LayoutEq a b →
      Obj.LayoutEq (f i a) (f' i b)) :
    HeapEq g g' := by
  have hlen : ∀ (l m : List Obj) (φ : Nat → Obj → Obj), (∀ i, m[i]? = (l[i]?).map (φ i)) →
      m.length = l.length := by
    intro l m φ hm
    apply Nat.le_antisymm
    · apply Nat.le_of_not_lt
      intro hlt
      have h1 := hm l.length
      rw [List.getElem?_eq_none (Nat.le_refl _), List.getElem?_eq_getElem hlt] at h1
      cases h1
    · apply Nat.le_of_not_lt
      intro hlt
      have h1 := hm m.length
      rw [List.getElem?_eq_none (Nat.le_refl _), List.getElem?_eq_getElem hlt] at h1
      cases h1
  refine ⟨by rw [hlen h g f hg, hlen h' g' f' hg', e.1], ?_⟩
  intro i x y hx hy
  rw [hg i] at hx
  rw [hg' i] at hy
  rcases e.cases i with ⟨h1, h2⟩ | ⟨a, b, h1, h2, hab⟩
  · rw [h1] at hx; cases hx
  · rw [h1] at hx; rw [h2] at hy
    cases hx; cases hy
    exact hf i a b h1 h2 hab

end HeapEq

/-! ## the relation -/

/-- **`LayoutEq` with the event log compared up to permutation**: same heap up to the order of the
entries inside link tables, logs are permutations of each other, all other fields equal except
`hint` (arbitrary).  (Structure form of the conjunction; see `State.layoutEqL_iff`.) -/
structure State.LayoutEqL (s s' : State) : Prop where
  heap : HeapEq s.heap s'.heap
  roots : s.roots = s'.roots
  wroots : s.wroots = s'.wroots
  vals : s.vals = s'.vals
  raws : s.raws = s'.raws
  stack : s.stack = s'.stack
  log : s.log.Perm s'.log
  err : s.err = s'.err
  unwinding : s.unwinding = s'.unwinding
  nextVid : s.nextVid = s'.nextVid

/-- `LayoutEqL` is `LayoutEq` with `s.log = s'.log` replaced by `s.log.Perm s'.log` -/
theorem State.layoutEqL_iff (s s' : State) :
    s.LayoutEqL s' ↔
      (s.heap.length = s'.heap.length
      ∧ (∀ (i : Nat) (a b : Obj), s.heap[i]? = some a → s'.heap[i]? = some b → Obj.LayoutEq a b)
      ∧ s.roots = s'.roots ∧ s.wroots = s'.wroots ∧ s.vals = s'.vals ∧ s.raws = s'.raws
      ∧ s.stack = s'.stack ∧ s.log.Perm s'.log ∧ s.err = s'.err ∧ s.unwinding = s'.unwinding
      ∧ s.nextVid = s'.nextVid) := by
  constructor
  · intro h
    exact ⟨h.heap.1, h.heap.2, h.roots, h.wroots, h.vals, h.raws, h.stack, h.log, h.err,
      h.unwinding, h.nextVid⟩
  · rintro ⟨h0, h1, h2, h3, h4, h5, h6, h7, h8, h9, h10⟩
    exact ⟨⟨h0, h1⟩, h2, h3, h4, h5, h6, h7, h8, h9, h10⟩

namespace State.LayoutEqL

theorem refl (s : State) : s.LayoutEqL s :=
  ⟨HeapEq.refl _, rfl, rfl, rfl, rfl, rfl, List.Perm.refl _, rfl, rfl, rfl⟩

theorem symm {s s' : State} (h : s.LayoutEqL s') : s'.LayoutEqL s :=
  ⟨h.heap.symm, h.roots.symm, h.wroots.symm, h.vals.symm, h.raws.symm, h.stack.symm, h.log.symm,
    h.err.symm, h.unwinding.symm, h.nextVid.symm⟩

theorem trans {s s' s'' : State} (h : s.LayoutEqL s') (h' : s'.LayoutEqL s'') : s.LayoutEqL s'' :=
  ⟨h.heap.trans h'.heap, h.roots.trans h'.roots, h.wroots.trans h'.wroots, h.vals.trans h'.vals,
    h.raws.trans h'.raws, h.stack.trans h'.stack, h.log.trans h'.log, h.err.trans h'.err,
    h.unwinding.trans h'.unwinding, h.nextVid.trans h'.nextVid⟩

theorem equivalence : Equivalence State.LayoutEqL := ⟨refl, symm, trans⟩

/-- a `LayoutEq` pair is a `LayoutEqL` pair -/
theorem of_layoutEq {s s' : State} (h : s.LayoutEq s') : s.LayoutEqL s' := by
  obtain ⟨h0, h1, h2, h3, h4, h5, h6, h7, h8, h9, h10⟩ := h
  exact ⟨⟨h0, h1⟩, h2, h3, h4, h5, h6, h7 ▸ List.Perm.refl _, h8, h9, h10⟩

/-- forgetting the log of the second state gives a `LayoutEq` pair: all congruence lemmas of
`Cactus.Lemmas.Layout` apply (none of the functions they speak about reads the log) -/
theorem toLayoutEq {s s' : State} (h : s.LayoutEqL s') :
    s.LayoutEq { s' with log := s.log } :=
  ⟨h.heap.1, h.heap.2, h.roots, h.wroots, h.vals, h.raws, h.stack, rfl, h.err, h.unwinding,
    h.nextVid⟩

section
variable {s s' : State} (h : s.LayoutEqL s')
include h

theorem heap_cases (i : Nat) :
    (s.heap[i]? = none ∧ s'.heap[i]? = none)
    ∨ ∃ a b, s.heap[i]? = some a ∧ s'.heap[i]? = some b ∧ Obj.LayoutEq a b := h.heap.cases i

theorem cell_cases (o : Nat) :
    (s.cell o = none ∧ s'.cell o = none)
    ∨ ∃ a b, s.cell o = some a ∧ s'.cell o = some b ∧ Obj.LayoutEq a b := by
  rcases h.heap_cases o with ⟨h1, h2⟩ | ⟨a, b, h1, h2, hab⟩
  · exact Or.inl ⟨by simp [State.cell, h1], by simp [State.cell, h2]⟩
  · cases hf : a.freed with
    | true =>
      have hf' : b.freed = true := by rw [← hab.freed]; exact hf
      exact Or.inl ⟨by simp [State.cell, h1, hf], by simp [State.cell, h2, hf']⟩
    | false =>
      have hf' : b.freed = false := by rw [← hab.freed]; exact hf
      exact Or.inr ⟨a, b, by simp [State.cell, h1, hf], by simp [State.cell, h2, hf'], hab⟩

theorem isLive_eq (o : Nat) : s.isLive o = s'.isLive o := h.toLayoutEq.isLive_eq o
theorem strongOf_eq (o : Nat) : s.strongOf o = s'.strongOf o := h.toLayoutEq.strongOf_eq o
theorem strongNat_eq (o : Nat) : s.strongNat o = s'.strongNat o := h.toLayoutEq.strongNat_eq o
theorem weakNat_eq (o : Nat) : s.weakNat o = s'.weakNat o := h.toLayoutEq.weakNat_eq o
theorem heldOf_eq (o : Nat) : s.heldOf o = s'.heldOf o := h.toLayoutEq.heldOf_eq o
theorem weaksOf_eq (o : Nat) : s.weaksOf o = s'.weaksOf o := h.toLayoutEq.weaksOf_eq o
theorem H_eq (a b : Nat) : s.H a b = s'.H a b := h.toLayoutEq.H_eq a b
theorem tbl_perm (n : Nat) : (s.tbl n).Perm (s'.tbl n) := h.toLayoutEq.tbl_perm n
theorem F_eq (hB : s.InvB) (a b : Nat) : s.F a b = s'.F a b := h.toLayoutEq.F_eq hB a b

theorem tableOf_cases (n : Nat) :
    (s.tableOf n = none ∧ s'.tableOf n = none)
    ∨ ∃ t t', s.tableOf n = some t ∧ s'.tableOf n = some t' ∧ t.Perm t' :=
  h.toLayoutEq.tableOf_cases n

theorem valOf_eq (o : Nat) : s.valOf o = s'.valOf o := by
  unfold State.valOf
  rcases h.cell_cases o with ⟨h1, h2⟩ | ⟨a, b, h1, h2, hab⟩
  · rw [h1, h2]
  · rw [h1, h2]; exact hab.value

theorem useRoot_eq (r : Nat) : s.useRoot r = s'.useRoot r := by
  unfold State.useRoot
  rw [← h.roots]
  cases nthMod s.roots r with
  | none => rfl
  | some o => simp only [h.isLive_eq o]

/-! ### the primitive state transformers respect the relation -/

theorem fail (e : Err) : (s.fail e).LayoutEqL (s'.fail e) := by
  have he := h.err
  unfold State.fail
  cases hb : s'.err with
  | none =>
    rw [hb] at he
    simp only [he]
    exact ⟨h.heap, h.roots, h.wroots, h.vals, h.raws, h.stack, h.log, rfl, h.unwinding, h.nextVid⟩
  | some x =>
    rw [hb] at he
    simp only [he]
    exact ⟨h.heap, h.roots, h.wroots, h.vals, h.raws, h.stack, h.log, he.trans hb.symm,
      h.unwinding, h.nextVid⟩

theorem emit (e : Ev) : (s.emit e).LayoutEqL (s'.emit e) :=
  ⟨h.heap, h.roots, h.wroots, h.vals, h.raws, h.stack, h.log.append_right [e], h.err,
    h.unwinding, h.nextVid⟩

theorem push (fs : List Frame) : (s.push fs).LayoutEqL (s'.push fs) :=
  ⟨h.heap, h.roots, h.wroots, h.vals, h.raws, by simp [State.push, h.stack], h.log, h.err,
    h.unwinding, h.nextVid⟩

theorem setStack (st : List Frame) :
    ({ s with stack := st } : State).LayoutEqL { s' with stack := st } :=
  ⟨h.heap, h.roots, h.wroots, h.vals, h.raws, rfl, h.log, h.err, h.unwinding, h.nextVid⟩

theorem setHint (h1 h2 : List Nat) :
    ({ s with hint := h1 } : State).LayoutEqL { s' with hint := h2 } :=
  ⟨h.heap, h.roots, h.wroots, h.vals, h.raws, h.stack, h.log, h.err, h.unwinding, h.nextVid⟩

theorem setObj (o : Nat) {a b : Obj} (hab : Obj.LayoutEq a b) :
    (s.setObj o a).LayoutEqL (s'.setObj o b) :=
  ⟨h.heap.set o hab, h.roots, h.wroots, h.vals, h.raws, h.stack, h.log, h.err, h.unwinding,
    h.nextVid⟩

theorem badRoot (r : Nat) : (s.badRoot r).LayoutEqL (s'.badRoot r) := by
  unfold State.badRoot
  rw [← h.roots]
  cases nthMod s.roots r with
  | none => exact h
  | some o =>
    simp only [h.isLive_eq o]
    split
    · exact h
    · exact h.fail _

theorem incStrong (o : Nat) : (s.incStrong o).LayoutEqL (s'.incStrong o) := by
  unfold State.incStrong
  rcases h.cell_cases o with ⟨h1, h2⟩ | ⟨a, b, h1, h2, hab⟩
  · rw [h1, h2]; exact h.fail _
  · rw [h1, h2]
    simp only [← hab.strong]
    split
    · exact h.setObj o (by exact ⟨rfl, hab.weak, hab.value, hab.freed, hab.implicit, hab.links⟩)
    · exact h.fail _

theorem incWeak (o : Nat) : (s.incWeak o).LayoutEqL (s'.incWeak o) := by
  unfold State.incWeak
  rcases h.cell_cases o with ⟨h1, h2⟩ | ⟨a, b, h1, h2, hab⟩
  · rw [h1, h2]; exact h.fail _
  · rw [h1, h2]
    simp only [← hab.weak]
    split
    · exact h.fail _
    · exact h.setObj o (by exact ⟨hab.strong, rfl, hab.value, hab.freed, hab.implicit, hab.links⟩)

theorem decWeakFree (o : Nat) (imp : Bool) :
    (s.decWeakFree o imp).LayoutEqL (s'.decWeakFree o imp) := by
  unfold State.decWeakFree
  rcases h.cell_cases o with ⟨h1, h2⟩ | ⟨a, b, h1, h2, hab⟩
  · rw [h1, h2]; exact h.fail _
  · rw [h1, h2]
    simp only [← hab.weak]
    split
    · exact h.fail _
    · exact (h.setObj o (by exact ⟨hab.strong, rfl, hab.value, rfl, by simp [hab.implicit],
        hab.links⟩)).emit _
    · exact h.setObj o (by exact ⟨hab.strong, rfl, hab.value, hab.freed, by simp [hab.implicit],
        hab.links⟩)

theorem weakDrop (o : Nat) : (s.weakDrop o).LayoutEqL (s'.weakDrop o) := h.decWeakFree o false

theorem modVal (o : Nat) (f : Val → Val) : (s.modVal o f).LayoutEqL (s'.modVal o f) := by
  unfold State.modVal
  rcases h.cell_cases o with ⟨h1, h2⟩ | ⟨a, b, h1, h2, hab⟩
  · rw [h1, h2]; exact h.fail _
  · rw [h1, h2]
    simp only [← hab.value]
    split
    · exact h.setObj o (by exact ⟨hab.strong, hab.weak, rfl, hab.freed, hab.implicit, hab.links⟩)
    · exact h.fail _

theorem alloc (v : Val) : (s.alloc v).LayoutEqL (s'.alloc v) :=
  ⟨h.heap.append (Obj.LayoutEq.refl _), h.roots, h.wroots, h.vals, h.raws, h.stack, h.log, h.err,
    h.unwinding, h.nextVid⟩

theorem linksErr_eq (o : Nat) : s.linksErr o = s'.linksErr o := by
  unfold State.linksErr
  rcases h.cell_cases o with ⟨h1, h2⟩ | ⟨a, b, h1, h2, hab⟩
  · rw [h1, h2]
  · rw [h1, h2]

/-- a table update by two functions that agree up to permutation on the two tables -/
theorem setLinks (o : Nat) (f g : Table → Table)
    (hfg : ∀ t t', s.tableOf o = some t → s'.tableOf o = some t' → (f t).Perm (g t')) :
    (s.setLinks o f).LayoutEqL (s'.setLinks o g) := by
  unfold State.setLinks
  rcases h.cell_cases o with ⟨h1, h2⟩ | ⟨a, b, h1, h2, hab⟩
  · rw [h1, h2]; exact h.fail _
  · rw [h1, h2]
    dsimp only
    cases hla : a.links with
    | none =>
      have hlb : b.links = none := hab.links.none_iff.mp hla
      simp only [hlb]
      exact h.fail _
    | some t =>
      cases hlb : b.links with
      | none => rw [hab.links.none_iff.mpr hlb] at hla; cases hla
      | some t' =>
        dsimp only
        apply h.setObj o
        refine ⟨hab.strong, hab.weak, hab.value, hab.freed, hab.implicit, ?_⟩
        show (f t).Perm (g t')
        apply hfg
        · rw [State.tableOf, h1]; exact hla
        · rw [State.tableOf, h2]; exact hlb

theorem beginSingle (o : Nat) : (s.beginSingle o).LayoutEqL (s'.beginSingle o) := by
  unfold State.beginSingle
  rcases h.cell_cases o with ⟨h1, h2⟩ | ⟨a, b, h1, h2, hab⟩
  · rw [h1, h2]; exact h.fail _
  · rw [h1, h2]
    simp only [← hab.strong, ← hab.value]
    split
    · exact h.decWeakFree o true
    · split
      · exact (h.setObj o (by exact ⟨rfl, hab.weak, rfl, hab.freed, hab.implicit, hab.links⟩)).push _
      · exact h.fail _

theorem finishSingle (o : Nat) : (s.finishSingle o).LayoutEqL (s'.finishSingle o) := by
  unfold State.finishSingle
  rcases h.cell_cases o with ⟨h1, h2⟩ | ⟨a, b, h1, h2, hab⟩
  · rw [h1, h2]; exact h.fail _
  · rw [h1, h2]
    dsimp only
    cases hla : a.links with
    | none =>
      have hlb : b.links = none := hab.links.none_iff.mp hla
      simp only [hlb]
      exact h.fail _
    | some t =>
      cases hlb : b.links with
      | none => rw [hab.links.none_iff.mpr hlb] at hla; cases hla
      | some t' =>
        dsimp only
        exact (h.setObj o (by exact ⟨hab.strong, hab.weak, hab.value, hab.freed, hab.implicit,
          LinksEq.refl none⟩)).decWeakFree o true

theorem dropVal (v : Val) : (s.dropVal v).LayoutEqL (s'.dropVal v) := (h.emit _).push _

theorem dropFields (hs ws : List Nat) : (s.dropFields hs ws).LayoutEqL (s'.dropFields hs ws) := by
  cases hs with
  | cons x xs => exact h.push _
  | nil =>
    cases ws with
    | cons x xs => exact h.push _
    | nil => exact h

theorem phase3One (k : Nat) : (s.phase3One k).LayoutEqL (s'.phase3One k) := by
  unfold State.phase3One
  rcases h.cell_cases k with ⟨h1, h2⟩ | ⟨a, b, h1, h2, hab⟩
  · rw [h1, h2]; exact h.fail _
  · rw [h1, h2]
    simp only [← hab.strong]
    split
    · exact h.decWeakFree k true
    · exact h

theorem withRoots {r r' : List Nat} (hr : r = r') :
    ({ s with roots := r } : State).LayoutEqL { s' with roots := r' } :=
  ⟨h.heap, hr, h.wroots, h.vals, h.raws, h.stack, h.log, h.err, h.unwinding, h.nextVid⟩

theorem withWroots {r r' : List Nat} (hr : r = r') :
    ({ s with wroots := r } : State).LayoutEqL { s' with wroots := r' } :=
  ⟨h.heap, h.roots, hr, h.vals, h.raws, h.stack, h.log, h.err, h.unwinding, h.nextVid⟩

theorem withVals {r r' : List Val} (hr : r = r') :
    ({ s with vals := r } : State).LayoutEqL { s' with vals := r' } :=
  ⟨h.heap, h.roots, h.wroots, hr, h.raws, h.stack, h.log, h.err, h.unwinding, h.nextVid⟩

theorem withRaws {r r' : List Nat} (hr : r = r') :
    ({ s with raws := r } : State).LayoutEqL { s' with raws := r' } :=
  ⟨h.heap, h.roots, h.wroots, h.vals, hr, h.stack, h.log, h.err, h.unwinding, h.nextVid⟩

theorem withNextVid {r r' : Nat} (hr : r = r') :
    ({ s with nextVid := r } : State).LayoutEqL { s' with nextVid := r' } :=
  ⟨h.heap, h.roots, h.wroots, h.vals, h.raws, h.stack, h.log, h.err, h.unwinding, hr⟩

/-- record update of the handle tables and `nextVid` -/
theorem setCtl (r w : List Nat) (v : List Val) (rw' : List Nat) (n : Nat) :
    ({ s with roots := r, wroots := w, vals := v, raws := rw', nextVid := n } : State).LayoutEqL
      { s' with roots := r, wroots := w, vals := v, raws := rw', nextVid := n } :=
  ⟨h.heap, rfl, rfl, rfl, rfl, h.stack, h.log, h.err, h.unwinding, rfl⟩

end

end State.LayoutEqL

end Cactus
