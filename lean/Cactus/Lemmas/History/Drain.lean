import Cactus.Lemmas.History.Collect
/-!
# History lift of C09, part 12: `drain`, one operation

* `Sim.bigStep`: from corresponding stable points with a non-empty stack the two runs reach
  corresponding stable points again, in the same positive number of machine steps.
* `drain_sim`: `drain` with the same fuel: if run 1 does not run out of fuel, neither does run 2,
  and the results correspond.
* `execOp_sim`, `execOp_shuffle`: one operation of a history.
-/
namespace Cactus
open State

theorem Sim.bigStep {s s' : State} (h : Sim s s') (hne : s.stack ≠ []) :
    ∃ k t t', Run (k + 1) s t ∧ Run (k + 1) s' t' ∧ Sim t t' := by
  have he := h.good.err
  have he' := h.good'.err
  have hne' : s'.stack ≠ [] := by rw [← h.leq.stack]; exact hne
  cases hst : s.stack with
  | nil => exact absurd hst hne
  | cons f rest =>
    by_cases hf : ∃ o, f = .rcDrop o
    · obtain ⟨o, rfl⟩ := hf
      rcases h.step_rcDrop hst with hsim | ⟨ob, ob', n, hc, hc', h1⟩
      · exact ⟨0, step s, step s', Run.one he hne, Run.one he' hne', hsim⟩
      · obtain ⟨k, t, t', r, r', hsim⟩ := h.collect hc hc' h1
        exact ⟨k, t, t', .succ he hne r, .succ he' hne' r', hsim⟩
    · have hf' : ∀ o, f ≠ .rcDrop o := fun o e => hf ⟨o, e⟩
      exact ⟨0, step s, step s', Run.one he hne, Run.one he' hne', h.step_simple hst hf'⟩

theorem drain_of_stack_nil (f : Nat) (s : State) (h : s.stack = []) : drain f s = s := by
  cases f with
  | zero => simp [drain, h]
  | succ f =>
    unfold drain
    split
    · rename_i hst; rw [h] at hst; cases hst
    · rfl

/-- **`drain` on corresponding stable points**: the two runs need the same number of machine
steps, so the same fuel suffices -/
theorem drain_sim (f : Nat) : ∀ (s s' : State), Sim s s' → (drain f s).err = none →
    (drain f s').err = none ∧ Sim (drain f s) (drain f s') := by
  induction f using Nat.strongRecOn with
  | _ f ih =>
    intro s s' h he
    by_cases hne : s.stack = []
    · have hne' : s'.stack = [] := by rw [← h.leq.stack]; exact hne
      rw [drain_of_stack_nil f s hne, drain_of_stack_nil f s' hne']
      exact ⟨h.good'.err, h⟩
    · obtain ⟨k, t, t', r, r', hsim⟩ := h.bigStep hne
      by_cases hk : k + 1 ≤ f
      · rw [r.drain_eq f hk] at he ⊢
        rw [r'.drain_eq f hk]
        exact ih (f - (k + 1)) (by omega) t t' hsim he
      · exact absurd he (r.drain_err f (by omega))

/-! ## one operation -/

theorem drain_err_none (f : Nat) (s : State) (h : (drain f s).err = none) : s.err = none := by
  induction f generalizing s with
  | zero =>
    unfold drain at h
    split at h
    · exact h
    · cases he : s.err with
      | none => rfl
      | some e => rw [fail_err_of_some s _ e he] at h; cases h
  | succ f ih =>
    unfold drain at h
    split at h
    · exact step_err_none (ih _ h)
    · exact h

theorem endOp_of_not_unwinding (s : State) (h : s.unwinding = false) : endOp s = s := by
  unfold endOp
  simp [h]

theorem Safe_setHint {s : State} (hs : s.Safe) (hint : List Nat) :
    ({ s with hint := hint } : State).Safe :=
  ⟨hs.err, hint_InvCore s hint hs.core, hint_InvR s hint hs.rng, hint_InvSCore s hint hs.safe⟩

/-- `Good` after `applyOp` (installing any hint first) -/
theorem Good.applyOp {s : State} (hg : Good s) (hq : s.stack = []) (op : Op) (hop : op.fullQuiet)
    (hint : List Nat) (he : (applyOp { s with hint := hint } op).err = none) :
    Good (applyOp { s with hint := hint } op) := by
  have hs : ({ s with hint := hint } : State).Safe := Safe_setHint hg.safe hint
  have hfq : FQ noE ({ s with hint := hint } : State) := hg.fq.of_heap rfl
  have hctl : ({ s with hint := hint } : State).QuietCtl := hg.ctl.of_eq rfl rfl rfl
  refine ⟨ReachableC.op op hint hg.rc hq hop.respects, he, ?_, ?_⟩
  · cases op with
    | act a => exact applyAct_FQ hs hfq [] [] a hop
    | setScript q acts => exact absurd hop id
    | shuffle q i =>
      simp only [Cactus.applyOp]
      split
      · exact hfq.setLinks (fun t ht b => Table.get_swapAt t (hs.invB.1 _ t ht).1 i _)
      · exact hfq.badRoot q
  · cases op with
    | act a => exact applyAct_quietCtl hs hfq.quiet hctl [] [] a hop
    | setScript q acts => exact absurd hop id
    | shuffle q i =>
      simp only [Cactus.applyOp]
      split
      · exact hctl.of_eq (by simp) (by simp) (by simp)
      · exact hctl.of_eq (by simp) (by simp) (by simp)

/-- lock-step `applyOp` (the hints may differ) -/
theorem applyOp_leq {s s' : State} (h : s.LayoutEqL s') (hs : s.Safe) (hs' : s'.Safe) (op : Op)
    (hop : op.fullQuiet) (h1 h2 : List Nat) :
    (applyOp { s with hint := h1 } op).LayoutEqL (applyOp { s' with hint := h2 } op) := by
  have h0 := h.setHint h1 h2
  have hsa := Safe_setHint hs h1
  have hsb := Safe_setHint hs' h2
  cases op with
  | act a => exact applyAct_sim h0 hsa hsb [] [] a hop
  | setScript q acts => exact absurd hop id
  | shuffle q i =>
    simp only [Cactus.applyOp]
    rw [← h0.useRoot_eq q]
    cases ({ s with hint := h1 } : State).useRoot q with
    | none => exact h0.badRoot q
    | some o =>
      exact h0.setLinks_of (State.TablesWF.of_InvB hsa.invB) o _
        (fun t t' hw hp => ((Table.swapAt_perm t i).trans hp).trans (Table.swapAt_perm t' i).symm)

/-- **one operation of the history**, executed in both runs (with arbitrary hints) -/
theorem execOp_sim (fuel : Nat) {s s' : State} (h : Sim s s') (hq : s.stack = []) (op : Op)
    (hop : op.fullQuiet) (h1 h2 : List Nat) (he : (execOp fuel s op h1).err = none) :
    (execOp fuel s' op h2).err = none ∧ Sim (execOp fuel s op h1) (execOp fuel s' op h2)
      ∧ (execOp fuel s op h1).stack = [] := by
  have hq' : s'.stack = [] := by rw [← h.leq.stack]; exact hq
  have hes := h.good.err
  have hes' := h.good'.err
  have e1 : execOp fuel s op h1 = endOp (drain fuel (applyOp { s with hint := h1 } op)) := by
    simp [execOp, hes]
  have e2 : execOp fuel s' op h2 = endOp (drain fuel (applyOp { s' with hint := h2 } op)) := by
    simp [execOp, hes']
  rw [e1, endOp_err] at he
  have hea := drain_err_none _ _ he
  have hleq := applyOp_leq h.leq h.good.safe h.good'.safe op hop h1 h2
  have hea' : (applyOp { s' with hint := h2 } op).err = none := by rw [← hleq.err]; exact hea
  have hga := h.good.applyOp hq op hop h1 hea
  have hga' := h.good'.applyOp hq' op hop h2 hea'
  obtain ⟨hd, hsim⟩ := drain_sim fuel _ _ ⟨hleq, hga, hga'⟩ he
  rw [e1, e2, endOp_of_not_unwinding _ hsim.good.ctl.unw, endOp_of_not_unwinding _ hsim.good'.ctl.unw]
  exact ⟨hd, hsim, drain_quiescent fuel _ he⟩

/-- **a `shuffle` executed in one run only**: the state stays `Good` and layout-equal to itself -/
theorem execOp_shuffle (fuel : Nat) {s : State} (hg : Good s) (hq : s.stack = []) (q i : Nat)
    (hint : List Nat) :
    Good (execOp fuel s (.shuffle q i) hint) ∧ (execOp fuel s (.shuffle q i) hint).LayoutEqL s
      ∧ (execOp fuel s (.shuffle q i) hint).stack = [] := by
  have hs := Safe_setHint hg.safe hint
  have e1 : execOp fuel s (.shuffle q i) hint
      = endOp (drain fuel (applyOp { s with hint := hint } (.shuffle q i))) := by
    simp [execOp, hg.err]
  -- the shuffle itself
  have key : (applyOp { s with hint := hint } (.shuffle q i)).LayoutEqL s
      ∧ (applyOp { s with hint := hint } (.shuffle q i)).err = none
      ∧ (applyOp { s with hint := hint } (.shuffle q i)).stack = [] := by
    simp only [Cactus.applyOp, hs.useRoot_eq, hs.badRoot_eq]
    have hrefl : ({ s with hint := hint } : State).LayoutEqL s :=
      (LayoutEqL.refl s).symm.setHint s.hint hint |>.symm
    cases hr : nthMod ({ s with hint := hint } : State).roots q with
    | none => exact ⟨hrefl, hg.err, hq⟩
    | some o =>
      dsimp only
      have hl := hs.live_of_root hr
      obtain ⟨ob, n, v, t, hc, -, -, hlk, -⟩ := hs.live_obj hl
      have ht : ({ s with hint := hint } : State).tableOf o = some t := by
        rw [tableOf_of_cell hc, hlk]
      rw [setLinks_eq _ hc hlk]
      refine ⟨?_, hg.err, hq⟩
      have hobj : Obj.LayoutEq { ob with links := some (t.swapAt i) } ob :=
        ⟨rfl, rfl, rfl, rfl, rfl, by rw [hlk]; exact Table.swapAt_perm t i⟩
      have := hrefl.setObj o hobj
      rw [setObj_self (s := s) (get_of_cell hc)] at this
      exact this
  obtain ⟨k1, k2, k3⟩ := key
  have hga := hg.applyOp hq (.shuffle q i) trivial hint k2
  rw [e1, drain_of_stack_nil _ _ k3, endOp_of_not_unwinding _ hga.ctl.unw]
  exact ⟨hga, k1, k3⟩

end Cactus
