import Cactus.Lemmas.History.Good
/-!
# History lift of C09, part 6: counted runs

`Run k s t`: the machine goes from `s` to `t` in exactly `k` steps and in each of the `k` states
passed through (excluding `t`) there is no error and the stack is not empty — so `drain` with at
least `k` units of fuel goes from `s` through `t`, and with less fuel it reports `fuel`.
The block of destructors of a collected group takes a number of steps that depends only on the
multiset of its values (`blockSteps`), whatever their order.
-/
namespace Cactus
open State

inductive Run : Nat → State → State → Prop
  | zero (s : State) : Run 0 s s
  | succ {k : Nat} {s t : State} : s.err = none → s.stack ≠ [] → Run k (step s) t → Run (k + 1) s t

namespace Run

theorem one {s : State} (he : s.err = none) (hst : s.stack ≠ []) : Run 1 s (step s) :=
  .succ he hst (.zero _)

theorem trans {k j : Nat} {s t u : State} (h1 : Run k s t) (h2 : Run j t u) : Run (k + j) s u := by
  induction h1 with
  | zero s => rw [Nat.zero_add]; exact h2
  | succ he hst _ ih =>
    rw [Nat.add_right_comm]
    exact .succ he hst (ih h2)

theorem cast {k j : Nat} {s t : State} (h : Run k s t) (hk : k = j) : Run j s t := hk ▸ h

theorem runSteps_eq {k : Nat} {s t : State} (h : Run k s t) : runSteps k s = t := by
  induction h with
  | zero s => rfl
  | succ _ _ _ ih => exact ih

theorem reachableC {k : Nat} {s t : State} (h : Run k s t) (hr : ReachableC s) : ReachableC t := by
  induction h with
  | zero s => exact hr
  | succ _ _ _ ih => exact ih (.step hr)

/-- with enough fuel `drain` passes through `t` -/
theorem drain_eq {k : Nat} {s t : State} (h : Run k s t) (f : Nat) (hk : k ≤ f) :
    drain f s = drain (f - k) t := by
  induction h generalizing f with
  | zero s => rfl
  | @succ k s t he hst _ ih =>
    obtain ⟨f', rfl⟩ : ∃ f', f = f' + 1 := ⟨f - 1, by omega⟩
    have : drain (f' + 1) s = drain f' (step s) := by
      cases hs : s.stack with
      | nil => exact absurd hs hst
      | cons a r => simp [drain, he, hs]
    rw [this, ih f' (by omega)]
    congr 1
    omega

/-- with too little fuel `drain` reports an error -/
theorem drain_err {k : Nat} {s t : State} (h : Run k s t) (f : Nat) (hk : f < k) :
    (drain f s).err ≠ none := by
  induction h generalizing f with
  | zero s => omega
  | @succ k s t he hst _ ih =>
    cases hs : s.stack with
    | nil => exact absurd hs hst
    | cons a r =>
      cases f with
      | zero =>
        simp only [drain, hs]
        rw [fail_err_of_none s _ he]
        simp
      | succ f' =>
        have : drain (f' + 1) s = drain f' (step s) := by simp [drain, he, hs]
        rw [this]
        exact ih f' (by omega)

end Run

/-! ## the block of destructors, with step counts -/

/-- steps taken by the destructor and drop glue of one quiet value -/
def valSteps (v : Val) : Nat := 3 + 2 * v.held.length + 2 * v.weaks.length

/-- steps taken by a block of quiet values -/
def blockSteps (vs : List Val) : Nat := (vs.map valSteps).sum

theorem blockSteps_perm {vs vs' : List Val} (h : vs.Perm vs') : blockSteps vs = blockSteps vs' :=
  (h.map valSteps).sum_nat

theorem run_held' (rest : List Frame) (ws : List Nat) (hs : List Nat) :
    ∀ s : State, s.err = none → s.stack = .dropFields hs ws :: rest →
      (∀ t ∈ hs, ∃ ob, s.cell t = some ob ∧ ob.strong.isDead = true) →
      Run (2 * hs.length) s { s with stack := .dropFields [] ws :: rest } := by
  induction hs with
  | nil =>
    intro s _ hst _
    have : ({ s with stack := .dropFields [] ws :: rest } : State) = s := by rw [← hst]
    rw [this]
    exact .zero s
  | cons h hs ih =>
    intro s he hst hd
    obtain ⟨ob, hc, hdead⟩ := hd h (List.mem_cons_self ..)
    have h1 : step s = { s with stack := .rcDrop h :: .dropFields hs ws :: rest } := by
      simp [step, he, hst, State.dropFields, push]
    have h2 : step (step s) = { s with stack := .dropFields hs ws :: rest } := by
      rw [h1]
      simp only [step, he]
      exact rcDrop_dead_noop _ h ob hc hdead
    have hr := ih (step (step s)) (by rw [h2]; exact he) (by rw [h2])
      (by rw [h2]; intro t ht; exact hd t (List.mem_cons_of_mem _ ht))
    rw [h2] at hr
    have hr2 : Run 1 (step s) (step (step s)) :=
      Run.one (by rw [h1]; exact he) (by rw [h1]; simp)
    rw [h2] at hr2
    have hr1 : Run 1 s (step s) := Run.one he (by rw [hst]; simp)
    exact ((hr1.trans hr2).trans hr).cast (by simp only [List.length_cons]; omega)

theorem run_weaks' (rest : List Frame) (ws : List Nat) :
    ∀ s : State, s.err = none → s.stack = .dropFields [] ws :: rest → GoodW s.heap ws →
      Run (2 * ws.length + 1) s (releaseWeaks { s with stack := rest } ws) := by
  induction ws with
  | nil =>
    intro s he hst _
    have : step s = releaseWeaks { s with stack := rest } [] := by
      simp [step, he, hst, State.dropFields, releaseWeaks]
    rw [← this]
    exact Run.one he (by rw [hst]; simp)
  | cons w ws ih =>
    intro s he hst hgood
    obtain ⟨ob, hg, hf, hc⟩ := goodW_head _ _ _ hgood
    have h1 : step s = { s with stack := .weakDrop w :: .dropFields [] ws :: rest } := by
      simp [step, he, hst, State.dropFields, push]
    have h2 : step (step s)
        = ({ s with stack := .dropFields [] ws :: rest } : State).weakDrop w := by
      rw [h1]; simp only [step, he]
    have h3 := weakDrop_good { s with stack := .dropFields [] ws :: rest } w ob hg hf (by omega)
    have h4 := weakDrop_good { s with stack := rest } w ob hg hf (by omega)
    have h2' := h2
    rw [h3] at h2
    have hr := ih (step (step s)) (by rw [h2]; exact he) (by rw [h2])
      (by rw [h2]; exact goodW_step _ _ _ _ hg hgood)
    have hfin : releaseWeaks { step (step s) with stack := rest } ws
        = releaseWeaks { s with stack := rest } (w :: ws) := by
      rw [h2]
      show _ = releaseWeaks (({ s with stack := rest } : State).weakDrop w) ws
      rw [h4]
    rw [hfin] at hr
    have hr1 : Run 1 s (step s) := Run.one he (by rw [hst]; simp)
    have hr2 : Run 1 (step s) (step (step s)) :=
      Run.one (by rw [h1]; exact he) (by rw [h1]; simp)
    exact ((hr1.trans hr2).trans hr).cast (by simp only [List.length_cons]; omega)

theorem run_dropVal' (s : State) (v : Val) (rest : List Frame) (he : s.err = none)
    (hst : s.stack = .dropVal v :: rest) (hq : v.quiet) (hr : Ready s.heap v.held v.weaks) :
    Run (valSteps v) s (dropValQuiet { s with stack := rest } v) := by
  have h1 : step s = { s with stack := .script v.held v.weaks [] :: .dropFields v.held v.weaks :: rest,
                              log := s.log ++ [.destroyed v.vid] } := by
    simp [step, he, hst, State.dropVal, push, emit, hq.1, hq.2]
  have h2 : step (step s) = { s with stack := .dropFields v.held v.weaks :: rest,
                                     log := s.log ++ [.destroyed v.vid] } := by
    rw [h1]; simp [step, he]
  have r1 : Run 1 s (step s) := Run.one he (by rw [hst]; simp)
  have r2 : Run 1 (step s) (step (step s)) := Run.one (by rw [h1]; exact he) (by rw [h1]; simp)
  have r3 := run_held' rest v.weaks v.held (step (step s)) (by rw [h2]; exact he)
    (by rw [h2]) (by
      rw [h2]
      intro t ht
      obtain ⟨ob, hg, hf, hd, _⟩ := hr.2 t ht
      exact ⟨ob, by simp [cell, hg, hf], hd⟩)
  have r4 := run_weaks' rest v.weaks { step (step s) with stack := .dropFields [] v.weaks :: rest }
    (by rw [h2]; exact he) rfl (by rw [h2]; exact hr.1)
  have hfin : releaseWeaks
      { ({ step (step s) with stack := .dropFields [] v.weaks :: rest } : State) with stack := rest }
      v.weaks = dropValQuiet { s with stack := rest } v := by
    rw [h2]; rfl
  rw [hfin] at r4
  exact (((r1.trans r2).trans r3).trans r4).cast (by unfold valSteps; omega)

theorem run_block' (vs : List Val) :
    ∀ (s : State) (rest : List Frame), s.err = none → s.stack = vs.map Frame.dropVal ++ rest →
      (∀ v ∈ vs, v.quiet) →
      Ready s.heap (vs.map (·.held)).flatten (vs.map (·.weaks)).flatten →
      Run (blockSteps vs) s (blockResult { s with stack := rest } vs) := by
  induction vs with
  | nil =>
    intro s rest _ hst _ _
    have : blockResult { s with stack := rest } [] = s := by
      show ({ s with stack := rest } : State) = s
      rw [← show s.stack = rest from hst]
    rw [this]
    exact .zero s
  | cons v vs ih =>
    intro s rest he hst hq hr
    simp only [List.map_cons, List.flatten_cons] at hr
    have hn1 := run_dropVal' s v (vs.map Frame.dropVal ++ rest) he hst
      (hq v (List.mem_cons_self ..)) hr.left
    have hsp := dropValQuiet_spec { s with stack := vs.map Frame.dropVal ++ rest } v hr.left.1
    have hctl := hsp.1
    obtain ⟨s1, hs1⟩ : ∃ s1, s1 = dropValQuiet { s with stack := vs.map Frame.dropVal ++ rest } v :=
      ⟨_, rfl⟩
    rw [← hs1] at hn1 hsp hctl
    have hst1 : s1.stack = vs.map Frame.dropVal ++ rest := by rw [hctl]
    have he1 : s1.err = none := by rw [hctl]; exact he
    have hn2 := ih s1 rest he1 hst1 (fun v hv => hq v (List.mem_cons_of_mem _ hv))
      (hr.right hsp.2)
    have hfin : blockResult { s1 with stack := rest } vs
        = blockResult { s with stack := rest } (v :: vs) := by
      show _ = blockResult (dropValQuiet { s with stack := rest } v) vs
      congr 1
      rw [hs1, dropValQuiet_setStack s _ v, dropValQuiet_setStack s rest v]
    rw [hfin] at hn2
    exact (hn1.trans hn2).cast (by simp [blockSteps])

end Cactus
