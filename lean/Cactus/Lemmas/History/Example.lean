import Cactus.Lemmas.History.Main
/-!
# Non-vacuity of `history_layout_independent`

A concrete program: a 3-ring `0 → 1 → 2 → 0` with a tail `2 → 3`, built with `link`; a survivor
(object 4) adopting two further objects; the three program handles of the ring are dropped, the
last `drop` collects the group `{0, 1, 2, 3}`.  History `hB` is history `hA` with two `shuffle`s
inserted (the table of ring member 2 and the table of the survivor are permuted) and other hints.
Both are `fullQuiet`, `SameProgram hA hB` holds, `hA` ends without error — so the theorem applies —
and the two runs really differ: the group is destroyed in another order (the logs are different
lists) and the survivor's table has another order (the heaps are different lists).
-/
namespace Cactus.HistoryExample
open Cactus

/-- the program (without layout) -/
def prog : List Op := [
  .act .new, .act .new, .act .new, .act .new,
  .act (.clone 0), .act (.link 4 2),        -- 2 → 0
  .act (.clone 2), .act (.link 4 1),        -- 1 → 2
  .act (.clone 1), .act (.link 4 0),        -- 0 → 1
  .act (.link 3 2),                          -- 2 → 3 (tail)
  .act .new, .act .new, .act .new,
  .act (.link 5 3), .act (.link 4 3),       -- survivor 4 → 6, 4 → 5
  .act (.drop 2), .act (.drop 1), .act (.drop 0)]

/-- layout A: no shuffle, empty hints -/
def hA : List (Op × List Nat) := prog.map (fun o => (o, []))

/-- layout B: the tables of object 2 and of object 4 are permuted before the drops, and the
collecting operations get the hint `[3, 1]` -/
def hB : List (Op × List Nat) :=
  (prog.take 16).map (fun o => (o, [])) ++ [(.shuffle 2 0, [7]), (.shuffle 3 0, [])]
    ++ (prog.drop 16).map (fun o => (o, [3, 1]))

theorem same : SameProgram hA hB := by
  unfold hA hB prog
  simp only [List.map_cons, List.map_nil, List.take_succ_cons, List.take_zero, List.drop_succ_cons,
    List.drop_zero, List.cons_append, List.nil_append]
  repeat (first
    | exact .nil
    | apply SameProgram.op _ _ _ (by intro q i h; cases h)
    | apply SameProgram.shuffleR)

theorem fullQuiet : ∀ oh ∈ hA, oh.1.fullQuiet := by decide

theorem noErr : (run hA).err = none := by decide +kernel

/-- the theorem applies -/
theorem applies : (run hB).err = none ∧ (run hA).LayoutEqL (run hB) :=
  history_layout_independent hA hB same fullQuiet noErr

/-- … and is not an equality: the group is destroyed in a different order -/
theorem logs_differ : (run hA).log ≠ (run hB).log := by decide +kernel

theorem destroyed_A : (run hA).destroyedVids = [2, 1, 0, 3] := by decide +kernel
theorem destroyed_B : (run hB).destroyedVids = [3, 1, 2, 0] := by decide +kernel

/-- … and the surviving table has a different order -/
theorem heaps_differ : (run hA).heap ≠ (run hB).heap := by decide +kernel

/-- what the theorem gives for this pair -/
example : (run hA).destroyedVids.Perm (run hB).destroyedVids :=
  history_destroyed hA hB same fullQuiet noErr

example (o : Nat) : (run hA).strongNat o = (run hB).strongNat o :=
  history_strong_counts hA hB same fullQuiet noErr o

end Cactus.HistoryExample

/-! ## why `makeMut` is not `fullQuiet`

`make_mut` on a shared allocation clones the value — including the strong handles it stores — into
a fresh allocation, without recording an adoption: afterwards the fresh object (index 2) stores a
handle to object 1 that no table records, i.e. `Full` fails.  (`Full` is what makes the values of a
collected group hold handles to members only; without it the destructor block of a collection
drops handles to live outsiders and is no longer a closed form.) -/
namespace Cactus.HistoryExample
open Cactus

def hM : List (Op × List Nat) :=
  [(.act .new, []), (.act .new, []), (.act (.link 1 0), []), (.act (.clone 0), []),
   (.act (.makeMut 0), [])]

example : (run hM).err = none ∧ (run hM).isLive 2 = true
    ∧ (run hM).H 2 1 = 1 ∧ (run hM).F 2 1 = 0 := by decide +kernel

example : ¬ (run hM).Full := by
  intro h
  have := h 2 1 (by decide +kernel)
  revert this
  decide +kernel

end Cactus.HistoryExample
