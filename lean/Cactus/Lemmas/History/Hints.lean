import Cactus.Lemmas.History.Main
/-!
# Hint independence of whole histories (the special case without `shuffle`)

`history_hint_independent`: replacing the hints of a history by any others changes nothing but the
order of the log events inside collected groups.  This is the instance of
`history_layout_independent` in which `SameProgram` is built from `op` constructors only.
-/
namespace Cactus
open State

/-! ## hints only -/

/-- `ops2` is `ops1` with other hints -/
theorem sameProgram_of_hints (ops : List (Op × List Nat)) (hints : List (List Nat))
    (hns : ∀ oh ∈ ops, ∀ q i, oh.1 ≠ .shuffle q i) :
    SameProgram ops (ops.zipWith (fun oh h => (oh.1, h)) hints
      ++ (ops.drop hints.length)) := by
  induction ops generalizing hints with
  | nil => cases hints <;> exact .nil
  | cons oh ops ih =>
    obtain ⟨o, h⟩ := oh
    cases hints with
    | nil =>
      simp only [List.zipWith_nil_right, List.length_nil, List.drop_zero, List.nil_append]
      have := ih [] (fun x hx => hns x (List.mem_cons_of_mem _ hx))
      simp only [List.zipWith_nil_right, List.length_nil, List.drop_zero, List.nil_append] at this
      exact .op o h h (hns (o, h) List.mem_cons_self) this
    | cons h2 hints =>
      simp only [List.zipWith_cons_cons, List.length_cons, List.drop_succ_cons, List.cons_append]
      exact .op o h h2 (hns (o, h) List.mem_cons_self)
        (ih hints (fun x hx => hns x (List.mem_cons_of_mem _ hx)))

/-- **hint independence of whole histories**: replacing the hints of a history (of `fullQuiet`
operations without `shuffle`) by any others changes nothing but the order of the log events
inside collected groups -/
theorem history_hint_independent (ops : List (Op × List Nat)) (hints : List (List Nat))
    (hns : ∀ oh ∈ ops, ∀ q i, oh.1 ≠ .shuffle q i)
    (hfq : ∀ oh ∈ ops, oh.1.fullQuiet)
    (he1 : (run ops).err = none) :
    let ops2 := ops.zipWith (fun oh h => (oh.1, h)) hints ++ ops.drop hints.length
    (run ops2).err = none ∧ (run ops).LayoutEqL (run ops2) :=
  history_layout_independent ops _ (sameProgram_of_hints ops hints hns) hfq he1

end Cactus
