import Cactus.Lemmas.History.ActsSim
import Cactus.Lemmas.History.Run
/-!
# History lift of C09, part 7: lock-step machine steps

`Sim s s'`: the two runs are at corresponding stable points (`LayoutEqL`, both `Good`).
Every frame kind except the `rcDrop` that starts a collection is run in lock-step:
`Sim s s' → Sim (step s) (step s')`.
-/
namespace Cactus
open State

/-- corresponding stable points of the two runs -/
structure Sim (s s' : State) : Prop where
  leq : s.LayoutEqL s'
  good : Good s
  good' : Good s'

/-! ## frames other than `rcDrop`: unary -/

theorem Good.step_simple {s : State} (hg : Good s) {f : Frame} {rest : List Frame}
    (hst : s.stack = f :: rest) (hf : ∀ o, f ≠ .rcDrop o) : Good (step s) := by
  have hs := hg.safe
  have he := hg.err
  have hok : f.okQ := hg.ctl.stack f (by rw [hst]; exact List.mem_cons_self)
  have hrest : ∀ g ∈ rest, g.okQ := fun g hm => hg.ctl.stack g (by rw [hst]; exact List.mem_cons_of_mem _ hm)
  have hfq0 : FQ noE ({ s with stack := rest } : State) := hg.fq.of_heap rfl
  refine ⟨.step hg.rc, ?_, ?_, ?_⟩
  · -- no error
    cases f with
    | rcDrop o => exact absurd rfl (hf o)
    | weakDrop o =>
      have : step s = ({ s with stack := rest } : State).weakDrop o := by simp [step, he, hst]
      rw [this]; exact weakDrop_noerr hs hst
    | dropVal v =>
      have : step s = ({ s with stack := rest } : State).dropVal v := by simp [step, he, hst]
      rw [this]; exact he
    | script hh ww acts =>
      have ha : acts = [] := hok
      subst ha
      have : step s = ({ s with stack := rest } : State) := by simp [step, he, hst]
      rw [this]; exact he
    | panic => exact absurd hok id
    | dropFields hh ww =>
      have : step s = ({ s with stack := rest } : State).dropFields hh ww := by simp [step, he, hst]
      rw [this]
      cases hh with
      | cons x xs => exact he
      | nil =>
        cases ww with
        | cons x xs => exact he
        | nil => exact he
    | finishSingle o =>
      have : step s = ({ s with stack := rest } : State).finishSingle o := by simp [step, he, hst]
      rw [this]; exact finishSingle_noerr hs hst
    | phase3 ks => exact absurd hok id
  · -- `Full` and quiet heap
    cases f with
    | rcDrop o => exact absurd rfl (hf o)
    | weakDrop o =>
      have : step s = ({ s with stack := rest } : State).weakDrop o := by simp [step, he, hst]
      rw [this]; exact hfq0.decWeakFree o false
    | dropVal v =>
      have : step s = ({ s with stack := rest } : State).dropVal v := by simp [step, he, hst]
      rw [this]; exact hfq0.dropVal v
    | script hh ww acts =>
      have ha : acts = [] := hok
      subst ha
      have : step s = ({ s with stack := rest } : State) := by simp [step, he, hst]
      rw [this]; exact hfq0
    | panic => exact absurd hok id
    | dropFields hh ww =>
      have : step s = ({ s with stack := rest } : State).dropFields hh ww := by simp [step, he, hst]
      rw [this]; exact hfq0.dropFields hh ww
    | finishSingle o =>
      have : step s = ({ s with stack := rest } : State).finishSingle o := by simp [step, he, hst]
      rw [this]
      apply hfq0.finishSingle o
      obtain ⟨ob, hgo, hu, -, -⟩ := hs.invK.1 o (by rw [hst]; exact List.mem_cons_self)
      show s.isLive o = false
      rw [isLive_of_get hgo, hu]; simp
    | phase3 ks => exact absurd hok id
  · -- quiet control
    have hc0 : ({ s with stack := rest } : State).QuietCtl := ⟨hg.ctl.vals, hrest, hg.ctl.unw⟩
    cases f with
    | rcDrop o => exact absurd rfl (hf o)
    | weakDrop o =>
      have : step s = ({ s with stack := rest } : State).weakDrop o := by simp [step, he, hst]
      rw [this]; exact hc0.of_eq (by simp [State.weakDrop]) (by simp [State.weakDrop])
        (by simp [State.weakDrop])
    | dropVal v =>
      have hq : v.quiet := hok
      have : step s = (({ s with stack := rest } : State).emit (.destroyed v.vid)).push
          [.script v.held v.weaks [], .dropFields v.held v.weaks] := by
        simp [step, he, hst, State.dropVal, hq.1, hq.2]
      rw [this]
      refine hc0.of_push [.script v.held v.weaks [], .dropFields v.held v.weaks] ?_
        (fun w hw => hw) rfl rfl
      intro g hgm
      simp only [List.mem_cons, List.mem_nil_iff, or_false] at hgm
      rcases hgm with rfl | rfl
      · rfl
      · trivial
    | script hh ww acts =>
      have ha : acts = [] := hok
      subst ha
      have : step s = ({ s with stack := rest } : State) := by simp [step, he, hst]
      rw [this]; exact hc0
    | panic => exact absurd hok id
    | dropFields hh ww =>
      have : step s = ({ s with stack := rest } : State).dropFields hh ww := by simp [step, he, hst]
      rw [this]
      cases hh with
      | cons x xs =>
        refine hc0.of_push [.rcDrop x, .dropFields xs ww] ?_ (fun w hw => hw) rfl rfl
        intro g hgm
        simp only [List.mem_cons, List.mem_nil_iff, or_false] at hgm
        rcases hgm with rfl | rfl <;> trivial
      | nil =>
        cases ww with
        | cons x xs =>
          refine hc0.of_push [.weakDrop x, .dropFields [] xs] ?_ (fun w hw => hw) rfl rfl
          intro g hgm
          simp only [List.mem_cons, List.mem_nil_iff, or_false] at hgm
          rcases hgm with rfl | rfl <;> trivial
        | nil => exact hc0
    | finishSingle o =>
      have : step s = ({ s with stack := rest } : State).finishSingle o := by simp [step, he, hst]
      rw [this]
      exact hc0.of_eq (by unfold State.finishSingle; repeat' split <;> simp)
        (finishSingle_stack _ _) (by unfold State.finishSingle; repeat' split <;> simp)
    | phase3 ks => exact absurd hok id

/-! ## frames other than `rcDrop`: binary -/

theorem step_leq_simple {s s' : State} (h : s.LayoutEqL s') (he : s.err = none)
    {f : Frame} {rest : List Frame} (hst : s.stack = f :: rest) (hok : f.okQ)
    (hf : ∀ o, f ≠ .rcDrop o) : (step s).LayoutEqL (step s') := by
  have he' : s'.err = none := by rw [← h.err]; exact he
  have hst' : s'.stack = f :: rest := by rw [← h.stack]; exact hst
  have h0 := h.setStack rest
  cases f with
  | rcDrop o => exact absurd rfl (hf o)
  | weakDrop o =>
    have e1 : step s = ({ s with stack := rest } : State).weakDrop o := by simp [step, he, hst]
    have e2 : step s' = ({ s' with stack := rest } : State).weakDrop o := by simp [step, he', hst']
    rw [e1, e2]; exact h0.weakDrop o
  | dropVal v =>
    have e1 : step s = ({ s with stack := rest } : State).dropVal v := by simp [step, he, hst]
    have e2 : step s' = ({ s' with stack := rest } : State).dropVal v := by simp [step, he', hst']
    rw [e1, e2]; exact h0.dropVal v
  | script hh ww acts =>
    have ha : acts = [] := hok
    subst ha
    have e1 : step s = ({ s with stack := rest } : State) := by simp [step, he, hst]
    have e2 : step s' = ({ s' with stack := rest } : State) := by simp [step, he', hst']
    rw [e1, e2]; exact h0
  | panic => exact absurd hok id
  | dropFields hh ww =>
    have e1 : step s = ({ s with stack := rest } : State).dropFields hh ww := by simp [step, he, hst]
    have e2 : step s' = ({ s' with stack := rest } : State).dropFields hh ww := by
      simp [step, he', hst']
    rw [e1, e2]; exact h0.dropFields hh ww
  | finishSingle o =>
    have e1 : step s = ({ s with stack := rest } : State).finishSingle o := by simp [step, he, hst]
    have e2 : step s' = ({ s' with stack := rest } : State).finishSingle o := by
      simp [step, he', hst']
    rw [e1, e2]; exact h0.finishSingle o
  | phase3 ks => exact absurd hok id

theorem Sim.step_simple {s s' : State} (h : Sim s s') {f : Frame} {rest : List Frame}
    (hst : s.stack = f :: rest) (hf : ∀ o, f ≠ .rcDrop o) : Sim (step s) (step s') :=
  ⟨step_leq_simple h.leq h.good.err hst (h.good.ctl.stack f (by rw [hst]; exact List.mem_cons_self)) hf,
    h.good.step_simple hst hf,
    h.good'.step_simple (by rw [← h.leq.stack]; exact hst) hf⟩

end Cactus
