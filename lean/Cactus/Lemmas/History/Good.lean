import Cactus.Lemmas.History.Full
/-!
# History lift of C09, part 3: fully recorded, quiet programs

* `Act.fullQuiet`, `Op.fullQuiet`: the syntactic class of the theorem.
* `Good s`: the invariant carried along a history of such operations at every *stable point*
  (no collection in progress): reachable by a contract-respecting history, no error, `Full`,
  every value quiet, no script/panic/`phase3` frame on the stack, not unwinding.
* every `fullQuiet` action keeps `FQ` (`Full` + quiet heap) and `QuietCtl`.
-/
namespace Cactus
open State

/-! ## the class of operations -/

/-- the acts of a *fully recorded, quiet* program: stored strong handles are created and removed
only through the composites `link` (= adopt; store) and `unlink` (= take; unadopt), so that `Full`
holds at every operation boundary; no destructor scripts, no panicking destructors.  Excluded:
`adopt unadopt store take` (break `Full`), `makeMut` (its clone branch copies stored handles
without recording them), `setPanic setShallow` and the three destructor-only acts. -/
def Act.fullQuiet : Act → Prop
  | .new => True
  | .clone _ => True
  | .drop _ => True
  | .link _ _ => True
  | .unlink _ _ => True
  | .downgrade _ => True
  | .upgrade _ => True
  | .cloneWeak _ => True
  | .dropWeak _ => True
  | .storeWeak _ _ => True
  | .tryUnwrap _ => True
  | .dropValue _ => True
  | .getMut _ => True
  | .intoRaw _ => True
  | .fromRaw _ => True
  | .incStrong _ => True
  | .decStrong _ => True
  | .ptrEq _ _ => True
  | .counts _ => True
  | .wcounts _ => True
  | _ => False

instance : DecidablePred Act.fullQuiet := fun a => by
  cases a <;> simp only [Act.fullQuiet] <;> infer_instance

/-- `.act a` with `a.fullQuiet`; `shuffle` allowed; `setScript` not allowed -/
def Op.fullQuiet : Op → Prop
  | .act a => a.fullQuiet
  | .setScript _ _ => False
  | .shuffle _ _ => True

instance : DecidablePred Op.fullQuiet := fun o => by
  cases o <;> simp only [Op.fullQuiet] <;> infer_instance

theorem Act.fullQuiet.respects {a : Act} (h : a.fullQuiet) : a.respects := by
  cases a <;> simp only [Act.fullQuiet] at h <;> trivial

theorem Op.fullQuiet.respects {o : Op} (h : o.fullQuiet) : o.respects := by
  cases o with
  | act a => exact Act.fullQuiet.respects h
  | setScript q acts => exact absurd h id
  | shuffle q i => trivial

/-! ## quiet control state -/

/-- frames that may be on the stack at a stable point of a quiet program -/
def Frame.okQ : Frame → Prop
  | .dropVal v => v.quiet
  | .script _ _ acts => acts = []
  | .panic => False
  | .phase3 _ => False
  | _ => True

/-- unwrapped values are quiet, the stack holds no script, panic or `phase3` frame, no unwinding -/
structure State.QuietCtl (s : State) : Prop where
  vals : ∀ v ∈ s.vals, v.quiet
  stack : ∀ f ∈ s.stack, f.okQ
  unw : s.unwinding = false

/-- the invariant of a fully recorded, quiet history at a stable point -/
structure Good (s : State) : Prop where
  rc : ReachableC s
  err : s.err = none
  fq : FQ noE s
  ctl : s.QuietCtl

namespace Good
variable {s : State}

theorem safe (h : Good s) : s.Safe :=
  ⟨h.err, (reachable_core h.rc.reachable h.err).1, (reachable_core h.rc.reachable h.err).2,
    reachableP_invS (h.rc.reachableP h.err) h.err⟩

theorem full (h : Good s) : s.Full := h.fq.toFull

theorem P (h : Good s) : s.P := full_contract h.full

theorem init : Good {} := by
  refine ⟨.init, rfl, ⟨fun a _ ha => ?_, fun o ob v hg => ?_⟩, ⟨fun v hv => ?_, fun f hf => ?_, rfl⟩⟩
  · simp [State.isLive] at ha
  · simp at hg
  · simp at hv
  · simp at hf

end Good

/-! ## `Full` through the purge, `link` and `unlink` -/

namespace FQ
variable {E : Nat → Prop}

/-- `purgePeers x` in a state whose readable tables are those of a state with `InvO`, `InvB` in
which `x` is live; `x` itself is exempt or already dead, and no live object records `x` -/
theorem purgePeers {s s1 : State} {x : Nat} (h : FQ E s1) (hO : s.InvO) (hB : s.InvB)
    (hx : s.isLive x = true) (hT : ∀ p, s1.tableOf p = s.tableOf p) (herr : s1.err = none)
    (hEx : E x ∨ s1.isLive x = false)
    (hFx : ∀ a, a ≠ x → s1.isLive a = true → s1.F a x = 0) : FQ E (s1.purgePeers x) := by
  obtain ⟨t, ht⟩ := live_tableOf hO hx
  obtain ⟨-, c2, c3, hLO⟩ := purgePeers_of_InvB hO hB hx hT ht herr
  refine ⟨fun a ha hl b => ?_, fun o ob' v hg hv => ?_⟩
  · rw [isLive_purgePeers] at hl
    rw [H_purgePeers]
    by_cases hax : a = x
    · subst hax
      rcases hEx with he | hd
      · exact absurd he ha
      · rw [hd] at hl; cases hl
    · have hfull := h.full a ha hl
      obtain ⟨hn, hs⟩ := c3 a hax
      cases hta : s.tableOf a with
      | none =>
        rw [F_of_tableOf_none (hn.mpr hta), ← hfull b, F_of_tableOf_none ((hT a).trans hta)]
      | some tp =>
        obtain ⟨tp', e1, -, z1, -, e2, -⟩ := hs tp hta
        rw [F_of_tableOf e1]
        by_cases hb : b = x
        · subst hb
          rw [z1, ← hfull b, hFx a hax hl]
        · rw [e2 ⟨b, .fwd⟩ (by simp [hb]) (by simp), ← hfull b, F_of_tableOf ((hT a).trans hta)]
  · have hlt : o < s1.heap.length := by
      rw [← hLO.heap_length]; exact get_lt hg
    obtain ⟨ob, hgo⟩ : ∃ ob, s1.heap[o]? = some ob := ⟨_, List.getElem?_eq_getElem hlt⟩
    obtain ⟨ob2, hg2, q⟩ := hLO.obj o ob hgo
    rw [hg] at hg2; cases hg2
    exact h.quiet o ob v hgo (by rw [← q.2.2.1]; exact hv)

/-- giving up a live allocation that no live object records (`try_unwrap`) -/
theorem giveUp {s : State} {o : Nat} (h : FQ noE s) (hO : s.InvO) (hB : s.InvB)
    (ho : s.isLive o = true) (herr : s.err = none)
    (hFx : ∀ a, a ≠ o → s.isLive a = true → s.F a o = 0) : FQ noE (s.giveUp o) := by
  have h1 : FQ (fun a => a = o) (s.purgePeers o) :=
    (h.mono (fun _ e => absurd e id)).purgePeers hO hB ho (fun _ => rfl) herr (Or.inl rfl) hFx
  unfold State.giveUp
  split
  · rename_i ob hc
    have hg := get_of_cell hc
    have h2 := h1.setObj_dead (ob' := { ob with strong := .cnt 0, value := none, links := none })
      hg (by simp) (Or.inl rfl)
    refine (h2.close ?_).decWeakFree o true
    intro a ha
    subst ha
    rw [isLive_setObj_same _ (get_lt hg)]
    simp
  · exact (h1.close (fun a ha => by
      subst ha
      rename_i hc
      exact isLive_of_cell_none hc)).fail _

/-- `link`: one more recorded adoption `o → t`, one more handle to `t` stored in `o` -/
theorem link {s : State} (h : FQ noE s) (hO : s.InvO) {o t : Nat} (ho : s.isLive o = true)
    (ht : s.isLive t = true) (rs : List Nat) :
    FQ noE (({ s.adopt o t false with roots := rs } : State).modVal o
      (fun v => { v with held := v.held ++ [t] })) := by
  obtain ⟨v, hv⟩ := valOf_of_live hO ho
  have hv1 : ({ s.adopt o t false with roots := rs } : State).valOf o = some v := by
    show (s.adopt o t false).valOf o = some v
    rw [adopt_diff, valOf_setLinks, valOf_setLinks]; exact hv
  obtain ⟨to, hto⟩ := live_tableOf hO ho
  obtain ⟨tt, htt⟩ := live_tableOf hO ht
  refine ⟨fun a _ ha b => ?_, ?_⟩
  · have ha' : s.isLive a = true := by
      rw [isLive_modVal] at ha
      have : (s.adopt o t false).isLive a = true := ha
      rwa [isLive_adopt] at this
    have hab := h.full a (fun e => e) ha' b
    rw [F_modVal]
    show (s.adopt o t false).F a b = _
    rw [F_adopt_diff (by rw [hto]; rfl) (by rw [htt]; rfl)]
    by_cases hao : a = o
    · subst hao
      rw [H_def, heldOf_modVal_same _ hv1]
      rw [H_def, heldOf_of_valOf hv] at hab
      simp only [count_append, count_singleton_ite]
      by_cases hbt : b = t
      · subst hbt; simp; omega
      · have : ¬ t = b := fun e => hbt e.symm
        simp [hbt, this]; omega
    · rw [H_modVal_other _ _ hao]
      show _ = (s.adopt o t false).H a b
      rw [H_adopt]
      simp [hao]; exact hab
  · have h1 : HeapQ (s.adopt o t false) := by
      rw [adopt_diff]
      exact (h.quiet.setLinks _ _).setLinks _ _
    have h2 : HeapQ ({ s.adopt o t false with roots := rs } : State) := h1.of_heap rfl
    exact h2.modVal o (fun v hq => hq)

/-- `unlink`: the handle stored at position `i` of `o` leaves, the recorded adoption with it -/
theorem unlink {s : State} (h : FQ noE s) (hO : s.InvO) (hB : s.InvB) {o t : Nat} {v : Val}
    (hv : s.valOf o = some v) {i : Nat} (hk : v.held[i]? = some t) (f : Val → Val)
    (hf : (f v).held = v.held.eraseIdx i) (hfq : ∀ v, v.quiet → (f v).quiet)
    (ho : s.isLive o = true) (ht : s.isLive t = true) :
    FQ noE ((s.modVal o f).unadopt o t false) := by
  have hH : ∀ a b, (s.modVal o f).H a b
      = if a = o then (v.held.eraseIdx i).count b else s.H a b := by
    intro a b
    by_cases hao : a = o
    · subst hao; rw [if_pos rfl, H_def, heldOf_modVal_same _ hv, hf]
    · rw [if_neg hao, H_modVal_other _ _ hao]
  have hHo : ∀ b, s.H o b = v.held.count b := fun b => by rw [H_def, heldOf_of_valOf hv]
  obtain ⟨to, hto⟩ := live_tableOf hO ho
  obtain ⟨tt, htt⟩ := live_tableOf hO ht
  refine ⟨fun a _ ha b => ?_, ?_⟩
  · have ha' : s.isLive a = true := by simpa using ha
    have hab := h.full a (fun e => e) ha' b
    rw [F_unadopt_diff (ta := to) (tb := tt) (by simpa using hto) (by simpa using htt)
      (hB.1 o to hto).1 (hB.1 t tt htt).1, H_unadopt, hH]
    simp only [F_modVal]
    by_cases hao : a = o
    · subst hao
      rw [hHo] at hab
      by_cases hbt : b = t
      · subst hbt
        have := count_eraseIdx_of_eq v.held i b hk
        simp; omega
      · have : v.held[i]? ≠ some b := by rw [hk]; intro e; cases e; exact hbt rfl
        rw [count_eraseIdx_of_ne v.held i b this]
        simp [hbt]; exact hab
    · simp [hao]; exact hab
  · rw [unadopt_diff]
    exact ((h.quiet.modVal o hfq).setLinks _ _).setLinks _ _

end FQ

end Cactus
