import Cactus.Lemmas.History.Phases
/-!
# History lift of C09, part 11: a whole collection as one big step

`Good.collect`: from a stable point whose top frame starts a collection, the machine runs
`blockSteps vs + 2` steps (the `rcDrop` step, the block of destructors, the `phase3` frame) and
arrives at a stable point again (`Good`), the closed form of which is given.
`Sim.collect`: two corresponding stable points arrive at corresponding stable points, in the same
number of steps.
-/
namespace Cactus
open State

/-! ## `Full` and quietness through the teardown -/

namespace FQ

/-- a pointwise heap update that keeps tables, values and strong counts and never un-releases -/
theorem of_map {E : Nat → Prop} {s s' : State} (h : FQ E s) (g : Nat → Obj → Obj)
    (hh : ∀ i, s'.heap[i]? = (s.heap[i]?).map (g i))
    (hg : ∀ i ob, (g i ob).links = ob.links ∧ (g i ob).value = ob.value
      ∧ (g i ob).strong = ob.strong ∧ (ob.freed = true → (g i ob).freed = true)) : FQ E s' := by
  have key : ∀ a, s'.isLive a = true →
      s.isLive a = true ∧ (∀ b, s'.F a b = s.F a b) ∧ ∀ b, s'.H a b = s.H a b := by
    intro a ha
    cases hga : s.heap[a]? with
    | none =>
      have := hh a
      rw [hga] at this
      rw [isLive_of_get_none this] at ha; cases ha
    | some ob =>
      have hga' := hh a
      rw [hga] at hga'
      simp only [Option.map_some] at hga'
      obtain ⟨g1, g2, g3, g4⟩ := hg a ob
      rw [isLive_of_get hga'] at ha
      have hf' : (g a ob).freed = false := by
        cases hf : (g a ob).freed <;> simp [hf] at ha ⊢
      have hf : ob.freed = false := by
        cases hf : ob.freed with
        | false => rfl
        | true => rw [g4 hf] at hf'; cases hf'
      refine ⟨?_, fun b => ?_, fun b => ?_⟩
      · rw [isLive_of_get hga, hf, ← g3]
        rw [hf'] at ha; exact ha
      · rw [F_def, F_def, tbl_of_get hga', tbl_of_get hga, hf, hf', g1]
      · rw [H_of_get hga', H_of_get hga, Obj.heldList_congr g2]
  refine ⟨fun a ha hl b => ?_, fun o ob' v hgo hv => ?_⟩
  · obtain ⟨k1, k2, k3⟩ := key a hl
    rw [k2, k3]; exact h.full a ha k1 b
  · have := hh o
    rw [hgo] at this
    cases hgo' : s.heap[o]? with
    | none => rw [hgo'] at this; cases this
    | some ob =>
      rw [hgo'] at this
      simp only [Option.map_some, Option.some.injEq] at this
      subst this
      exact h.quiet o ob v hgo' (by rw [← (hg o ob).2.1]; exact hv)

/-- the group teardown: members die, survivors are untouched -/
theorem teardown {s s' : State} {ks : List Nat} {vs : List Val} (h : FQ noE s)
    (hT : Teardown s s' ks vs) : FQ noE s' := by
  refine ⟨fun a _ ha b => ?_, fun o ob' v hgo hv => ?_⟩
  · obtain ⟨hl, hak⟩ := (hT.isLive_iff a).mp ha
    rw [F_def, hT.tbl_other hak, H_def]
    simp only [State.heldOf, hT.other a hak]
    exact h.full a (fun e => e) hl b
  · by_cases hok : o ∈ ks
    · obtain ⟨ob, n, hg, -, -, hg'⟩ := hT.key_obj hok
      rw [hgo] at hg'; cases hg'
      simp [p2Obj] at hv
    · rw [hT.other o hok] at hgo
      exact h.quiet o ob' v hgo hv

end FQ

/-! ## small facts -/

theorem phase3One_vals (s : State) (k : Nat) : (s.phase3One k).vals = s.vals := by
  unfold State.phase3One
  split
  · split
    · simp
    · rfl
  · simp

theorem phase3One_unwinding (s : State) (k : Nat) : (s.phase3One k).unwinding = s.unwinding := by
  unfold State.phase3One
  split
  · split
    · simp
    · rfl
  · simp

theorem foldl_phase3One_vals (l : List Nat) (s : State) : (l.foldl phase3One s).vals = s.vals := by
  induction l generalizing s with
  | nil => rfl
  | cons k l ih => rw [List.foldl_cons, ih, phase3One_vals]

theorem foldl_phase3One_unwinding (l : List Nat) (s : State) :
    (l.foldl phase3One s).unwinding = s.unwinding := by
  induction l generalizing s with
  | nil => rfl
  | cons k l ih => rw [List.foldl_cons, ih, phase3One_unwinding]

/-! ## the unary big step -/

/-- the pieces of a collection started from `s`: `s2` is the state in which `dropCycle c` runs -/
structure CollectRun (s : State) (rest : List Frame) (s2 : State) (c : CMap) (t : State) : Prop where
  ready : CycleReady s2 c
  run : Run (blockSteps (s2.cyc2 c).2 + 1) (step s) t
  good : Good t
  goodW : GoodW (step s).heap (blockWeaks (reorder s.hint (s2.cyc2 c).2))
  ready3 : ∀ k ∈ c.keys,
    Ready3 (blockResult { step s with stack := rest } (reorder s.hint (s2.cyc2 c).2)) k
  final : t = c.keys.foldl State.phase3One
    (blockResult { step s with stack := rest } (reorder s.hint (s2.cyc2 c).2))

theorem collect_core {s : State} (hg : Good s) {o : Nat} {rest : List Frame}
    (hstk : s.stack = .rcDrop o :: rest) (s1 : State) (hd : DecFacts s1 o) (e : Ev)
    (hst1 : s1.stack = rest) (hhint1 : s1.hint = s.hint) (hvals1 : s1.vals = s.vals)
    (hunw1 : s1.unwinding = s.unwinding)
    (hne : (cycleRefs s1 o).cmap.isEmpty = false)
    (hext : hasExternalOwners s1 (cycleRefs s1 o).cmap = false)
    (hstep : step s = (s1.emit e).dropCycle (cycleRefs s1 o).cmap) :
    ∃ t, CollectRun s rest (s1.emit e) (cycleRefs s1 o).cmap t := by
  -- facts about `s2 = s1.emit e`
  have hcr : cycleRefs (s1.emit e) o = cycleRefs s1 o := cycleRefs_emit s1 e o
  have hI2 : (s1.emit e).InvCore := State.InvCore_emit hd.core e
  have hR2 : (s1.emit e).InvR := hd.rng.emit e
  have hS2 : (s1.emit e).InvSCore := hd.safe
  have herr2 : (s1.emit e).err = none := hd.err
  have hfq2 : FQ noE (s1.emit e) := hd.fq.emit e
  have hF2 : (s1.emit e).Full := hfq2.toFull
  have ho2 : (s1.emit e).isLive o = true := hd.live
  have hne2 : (cycleRefs (s1.emit e) o).cmap.isEmpty = false := by rw [hcr]; exact hne
  have hext2 : hasExternalOwners (s1.emit e) (cycleRefs (s1.emit e) o).cmap = false := by
    rw [hcr]; exact hext
  have hCR := cycleReady_of_inv (s1.emit e) o hI2.1 hI2.2.1 herr2 ho2 hext2
  have hT := dropCycle_teardown (s1.emit e) o hI2.1 hI2.2.1 herr2 ho2 hne2 hext2
  have hsafe3 := dropCycle_safe (s1.emit e) o hI2 hR2 hS2 herr2 hF2 ho2 hne2 hext2
  have hready := collection_block_ready (s1.emit e) o hI2 hR2 hS2 herr2 hF2 ho2 hne2 hext2
  rw [hcr] at hCR hT hsafe3 hready
  generalize hcm : (cycleRefs s1 o).cmap = c at *
  rw [← hstep] at hT hsafe3 hready
  -- the values
  generalize hvs : ((s1.emit e).cyc2 c).2 = vs at *
  have hq : ∀ v ∈ vs, v.quiet := by
    intro v hv
    obtain ⟨k, _, obk, hgk, hvk⟩ := hT.mem_vals hv
    exact hfq2.quiet k obk v hgk hvk
  obtain ⟨d1, d2, d3, d4, d5, d6, d7, d8, d9, d10, d11⟩ := dropCycle_spec (s1.emit e) c hCR
  rw [← hstep] at d1 d2 d3 d4 d5 d6 d7 d8 d9 d10 d11
  rw [hvs] at d3
  have hst2 : (s1.emit e).stack = rest := hst1
  have hhint : (s1.emit e).hint = s.hint := hhint1
  rw [hst2, hhint, List.append_assoc] at d3
  have hperm := reorder_perm s.hint vs
  have hr : Ready (step s).heap (blockHeld (reorder s.hint vs)) (blockWeaks (reorder s.hint vs)) :=
    hready.perm (blockHeld_perm hperm.symm) (blockWeaks_perm hperm.symm)
  -- the block
  have hrun := run_block' (reorder s.hint vs) (step s) ([Frame.phase3 c.keys] ++ rest) d2 d3
    (fun v hv => hq v ((mem_reorder s.hint _ v).mp hv)) hr
  rw [blockSteps_perm hperm] at hrun
  generalize hB : blockResult { step s with stack := [Frame.phase3 c.keys] ++ rest }
    (reorder s.hint vs) = B at hrun
  have hB0 : B = { blockResult { step s with stack := rest } (reorder s.hint vs) with
      stack := [Frame.phase3 c.keys] ++ rest } := by
    rw [← hB, blockResult_setStack _ (step s) _, blockResult_setStack _ (step s) rest]
  obtain ⟨k1, k2, k3⟩ := blockResult_spec
    ({ step s with stack := [Frame.phase3 c.keys] ++ rest } : State) (reorder s.hint vs) hr.1
  rw [hB] at k1 k2 k3
  have hstB : B.stack = Frame.phase3 c.keys :: rest := by rw [k1]; rfl
  have herB : B.err = none := by rw [k1]; exact d2
  have hinvB := runSteps_inv _ (step s) (fun _ => hsafe3.1) hsafe3.2.1
    (by rw [hrun.runSteps_eq]; exact herB)
  rw [hrun.runSteps_eq] at hinvB
  have hcoreB : B.InvCore := hinvB.1 herB
  obtain ⟨p1, p2⟩ := phase3_err_none herB hcoreB hstB
  have hstepB : step B = c.keys.foldl State.phase3One
      (blockResult { step s with stack := rest } (reorder s.hint vs)) := by
    have : step B = c.keys.foldl State.phase3One { B with stack := rest } := by
      simp [step, herB, hstB]
    rw [this]
    congr 1
    rw [← hB, blockResult_setStack _ (step s) _, blockResult_setStack _ (step s) rest]
  have hrun1 : Run 1 B (step B) := Run.one herB (by rw [hstB]; simp)
  have hrunT := hrun.trans hrun1
  -- readiness for phase 3
  have hr3 : ∀ k ∈ c.keys,
      Ready3 (blockResult { step s with stack := rest } (reorder s.hint vs)) k := by
    intro k hk
    obtain ⟨obk, hgk, huk, -, hik⟩ :=
      hcoreB.2.2.2.2.2.1 c.keys (by rw [hstB]; exact List.mem_cons_self) k hk
    have hck := cell_of_implicit hcoreB.1 hcoreB.2.2.2.1 hgk hik
    have hfk := freed_of_cell hck
    have hwk : obk.weak ≠ 0 := by
      intro h0
      have := ((hcoreB.1 k obk hgk).2.2.2).mpr h0
      rw [hfk] at this; cases this
    refine ⟨obk, ?_, hfk, by rw [huk]; rfl, by omega⟩
    have : B.heap = (blockResult { step s with stack := rest } (reorder s.hint vs)).heap := by
      rw [hB0]
    rw [← this]; exact hgk
  -- `Full` and quietness at the end
  have hfqd : FQ noE (step s) := hfq2.teardown hT
  have hfqB0 : FQ noE (blockResult { step s with stack := rest } (reorder s.hint vs)) := by
    have hspec := runItems_spec (blockItems (reorder s.hint vs)) ({ step s with stack := rest } : State)
      (by rw [rels_blockItems]; exact hr.1)
    rw [← blockResult_eq_runItems] at hspec
    refine (hfqd.of_heap (s' := { step s with stack := rest }) rfl).of_map
      (fun i ob => relObj ob ((rels (blockItems (reorder s.hint vs))).count i)) hspec.heap ?_
    intro i ob'
    unfold relObj
    split
    · exact ⟨rfl, rfl, rfl, fun h => h⟩
    · split
      · exact ⟨rfl, rfl, rfl, fun h => h⟩
      · exact ⟨rfl, rfl, rfl, fun _ => rfl⟩
  have c0 := (blockResult_spec ({ step s with stack := rest } : State) (reorder s.hint vs)
    hr.1).1
  subst hvs
  refine ⟨step B, hCR, ?_, ?_, hr.1, hr3, hstepB⟩
  · exact hrunT
  · refine ⟨hrunT.reachableC (.step hg.rc), p1, ?_, ?_⟩
    · rw [hstepB]
      exact FQ.foldl _ (fun u k hu => hu.phase3One k) _ _ hfqB0
    · have hctl0 := hg.ctl_pop hstk
      refine ⟨?_, ?_, ?_⟩
      · rw [hstepB, foldl_phase3One_vals, c0]
        show ∀ v ∈ (step s).vals, v.quiet
        rw [d6]
        show ∀ v ∈ s1.vals, v.quiet
        rw [hvals1]
        exact hg.ctl.vals
      · rw [p2]; exact hctl0.stack
      · rw [hstepB, foldl_phase3One_unwinding, c0]
        show (step s).unwinding = false
        rw [d9]
        show s1.unwinding = false
        rw [hunw1]
        exact hg.ctl.unw

theorem Good.collect {s : State} (hg : Good s) {o : Nat} {rest : List Frame} {ob : Obj} {n : Nat}
    (hc : Collects s o rest ob n) :
    ∃ t, CollectRun s rest ((decState s o rest ob n).emit
      (.traced o (cycleRefs (decState s o rest ob n) o).visited.length
        (cycleRefs (decState s o rest ob n) o).popped))
      (cycleRefs (decState s o rest ob n) o).cmap t :=
  collect_core hg hc.stack (decState s o rest ob n) (hg.decFacts hc.stack hc.cell hc.strong) _
    rfl rfl rfl rfl hc.hne hc.hext hc.step_eq

/-! ## the binary big step -/

/-- **a whole collection, from corresponding stable points to corresponding stable points, in the
same number of machine steps** -/
theorem Sim.collect {s s' : State} (h : Sim s s') {o : Nat} {rest : List Frame} {ob ob' : Obj}
    {n : Nat} (hc : Collects s o rest ob n) (hc' : Collects s' o rest ob' n)
    (h1 : (decState s o rest ob n).LayoutEqL (decState s' o rest ob' n)) :
    ∃ k t t', Run k (step s) t ∧ Run k (step s') t' ∧ Sim t t' := by
  obtain ⟨t, r⟩ := h.good.collect hc
  obtain ⟨t', r'⟩ := h.good'.collect hc'
  have hd := h.good.decFacts hc.stack hc.cell hc.strong
  obtain ⟨c1, -, -, -, c5, c6⟩ :=
    cycleRefs_layoutL (decState s o rest ob n) (decState s' o rest ob' n) o h1 hd.core.1
      hd.core.2.1 hd.live
  -- the states before `dropCycle`
  have h2 : ((decState s o rest ob n).emit
      (.traced o (cycleRefs (decState s o rest ob n) o).visited.length
        (cycleRefs (decState s o rest ob n) o).popped)).LayoutEqL
      ((decState s' o rest ob' n).emit
        (.traced o (cycleRefs (decState s' o rest ob' n) o).visited.length
          (cycleRefs (decState s' o rest ob' n) o).popped)) := by
    rw [← c5, ← c6]
    exact h1.emit _
  obtain ⟨q1, q2, q3⟩ := dropCycle_leq h2 r.ready r'.ready c1 rest
  rw [← hc.step_eq, ← hc'.step_eq] at q1
  have hperm := ((reorder_perm s.hint _).trans q2).trans (reorder_perm s'.hint _).symm
  have hb := blockResult_leq q1 hperm r.goodW r'.goodW
  have hfin := phase3_fold_leq hb q3 r.ready.nodup r.ready3 r'.ready3
  rw [← r.final, ← r'.final] at hfin
  refine ⟨_, t, t', r.run, ?_, ⟨hfin, r.good, r'.good⟩⟩
  rw [blockSteps_perm q2]
  exact r'.run

end Cactus
