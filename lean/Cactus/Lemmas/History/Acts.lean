import Cactus.Lemmas.History.Good
/-!
# History lift of C09, part 4: the actions

For every `fullQuiet` action `a`:
* `applyAct_FQ`: `Full` and quietness of the heap are kept;
* `applyAct_quietCtl`: the control state stays quiet;
* `applyAct_sim`: lock-step, `LayoutEqL s s' → LayoutEqL (applyAct s a) (applyAct s' a)`.
-/
namespace Cactus
open State

/-! ## unary: `Full` and quiet heap -/

/-- in a safe state, a live object whose strong count is 1 and that is named by a root handle is
stored in no value, hence (under `Full`) recorded by no live object -/
theorem no_record_of_unique {s : State} (hs : s.Safe) (h : FQ noE s) {o : Nat} {ob : Obj}
    (hc : s.cell o = some ob) (hst : ob.strong = .cnt 1) (hext : 0 < s.ext o + s.pend o) :
    ∀ a, a ≠ o → s.isLive a = true → s.F a o = 0 := by
  intro a _ ha
  have hg := get_of_cell hc
  have hl : s.isLive o = true := by rw [isLive_of_cell hc, hst]; rfl
  have hC := hs.invC o hl
  rw [strongNat_of_get hg, hst] at hC
  simp only [Strong.toNat_cnt] at hC
  have hH := H_le_inHeap s a o
  rw [h.full a (fun e => e) ha o]
  omega

theorem applyAct_FQ {s : State} (hs : s.Safe) (h : FQ noE s) (fh fw : List Nat) (a : Act)
    (ha : a.fullQuiet) : FQ noE (applyAct s fh fw a) := by
  have hO := hs.invO
  have hB := hs.invB
  cases a with
  | new =>
    simp only [applyAct]
    exact (h.alloc _ rfl ⟨rfl, rfl⟩).of_heap rfl
  | clone r =>
    simp only [applyAct]
    split
    · exact (h.incStrong _).of_heap rfl
    · exact h.badRoot r
  | drop r =>
    simp only [applyAct]
    split
    · exact h.of_heap rfl
    · exact h.badRoot r
  | link r q =>
    simp only [applyAct]
    cases h1 : s.useRoot r with
    | none => exact (h.badRoot r).badRoot q
    | some t =>
      cases h2 : s.useRoot q with
      | none => exact (h.badRoot r).badRoot q
      | some o =>
        simp only []
        split
        · exact h
        · exact h.link hO (useRoot_some h2).2 (useRoot_some h1).2 _
  | unlink q k =>
    simp only [applyAct]
    cases h1 : s.useRoot q with
    | none => exact h.badRoot q
    | some o =>
      dsimp only
      cases hv : s.valOf o with
      | none => exact h.fail _
      | some v =>
        dsimp only
        cases hk : nthMod v.held k with
        | none => exact h
        | some t =>
          simp only []
          have ht : s.isLive t = true := hs.live_of_held hv (mem_of_nthMod hk)
          rw [isLive_modVal, ht]
          simp only [if_true]
          have h3 := h.unlink hO hB hv (getElem?_idxMod_of_nthMod hk)
            (fun v => { v with held := v.held.eraseIdx (idxMod v.held k) }) rfl (fun v hq => hq)
            (useRoot_some h1).2 ht
          exact h3.of_heap rfl
  | downgrade r =>
    simp only [applyAct]
    split
    · exact (h.incWeak _).of_heap rfl
    · exact h.badRoot r
  | upgrade w =>
    simp only [applyAct]
    split
    · split
      · split
        · exact h.emit _
        · exact ((h.incStrong _).emit (retBool true)).of_heap rfl
      · exact h.fail _
    · exact h
  | cloneWeak w =>
    simp only [applyAct]
    split
    · exact (h.incWeak _).of_heap rfl
    · exact h
  | dropWeak w =>
    simp only [applyAct]
    split
    · exact h.of_heap rfl
    · exact h
  | storeWeak w q =>
    simp only [applyAct]
    split
    · exact FQ.modVal (s := { s with wroots := s.wroots.eraseIdx (idxMod s.wroots w) })
        (h.of_heap rfl) (fun v b => rfl) (fun v hq => hq)
    · exact h.badRoot q
    · exact h
  | tryUnwrap r =>
    simp only [applyAct]
    cases hu : s.useRoot r with
    | none => exact h.badRoot r
    | some o =>
      dsimp only
      cases hc : s.cell o with
      | none => exact h.fail _
      | some ob =>
        dsimp only
        split
        · rename_i v hst hv
          refine FQ.emit ?_ _
          have hlo := (useRoot_some hu).2
          have hFx := no_record_of_unique hs h hc hst
            (by have := ext_pos_of_useRoot hu; omega)
          exact FQ.giveUp
            (s := { s with roots := s.roots.eraseIdx (idxMod s.roots r), vals := s.vals ++ [v] })
            (h.of_heap rfl) (InvO_of_heap_eq rfl hO) (InvB_of_heap_eq rfl hB) hlo hs.err hFx
        · exact h.fail _
        · exact h.emit _
  | dropValue i =>
    simp only [applyAct]
    split
    · exact h.of_heap rfl
    · exact h
  | getMut r =>
    simp only [applyAct]
    split
    · split
      · exact h.emit _
      · exact h.fail _
    · exact h.badRoot r
  | intoRaw r =>
    simp only [applyAct]
    split
    · exact h.of_heap rfl
    · exact h.badRoot r
  | fromRaw i =>
    simp only [applyAct]
    split
    · exact h.of_heap rfl
    · exact h
  | incStrong i =>
    simp only [applyAct]
    split
    · split
      · exact (h.incStrong _).of_heap rfl
      · exact h.fail _
    · exact h
  | decStrong i =>
    simp only [applyAct]
    split
    · split
      · exact h.of_heap rfl
      · exact h.fail _
    · exact h
  | ptrEq r1 r2 =>
    simp only [applyAct]
    split
    · exact h.emit _
    · exact (h.badRoot r1).badRoot r2
  | counts r =>
    simp only [applyAct]
    split
    · split
      · exact (h.emit _).emit _
      · exact h.fail _
    · exact h.badRoot r
  | wcounts w =>
    simp only [applyAct]
    split
    · split
      · split <;> exact (h.emit _).emit _
      · exact h.fail _
    · exact h
  | adopt _ _ => exact absurd ha id
  | unadopt _ _ => exact absurd ha id
  | store _ _ => exact absurd ha id
  | take _ _ => exact absurd ha id
  | makeMut _ => exact absurd ha id
  | setPanic _ => exact absurd ha id
  | setShallow _ => exact absurd ha id
  | upgradeField _ => exact absurd ha id
  | cloneField _ => exact absurd ha id
  | downgradeField _ => exact absurd ha id

/-! ## unary: the control state stays quiet -/

namespace State.QuietCtl
variable {s s' : State}

theorem of_eq (h : s.QuietCtl) (hv : s'.vals = s.vals) (hst : s'.stack = s.stack)
    (hu : s'.unwinding = s.unwinding) : s'.QuietCtl :=
  ⟨by rw [hv]; exact h.vals, by rw [hst]; exact h.stack, by rw [hu]; exact h.unw⟩

/-- push quiet frames, keep or shrink the unwrapped values -/
theorem of_push (h : s.QuietCtl) (fs : List Frame) (hfs : ∀ f ∈ fs, f.okQ)
    (hv : ∀ v ∈ s'.vals, v ∈ s.vals) (hst : s'.stack = fs ++ s.stack)
    (hu : s'.unwinding = s.unwinding) : s'.QuietCtl := by
  refine ⟨fun v hvm => h.vals v (hv v hvm), ?_, by rw [hu]; exact h.unw⟩
  intro f hf
  rw [hst] at hf
  rcases List.mem_append.mp hf with h1 | h1
  · exact hfs f h1
  · exact h.stack f h1

theorem fail (h : s.QuietCtl) (e : Err) : (s.fail e).QuietCtl :=
  h.of_eq (by simp) (by simp) (by simp)

end State.QuietCtl

@[simp] theorem State.giveUp_vals' (s : State) (o : Nat) : (s.giveUp o).vals = s.vals := by
  unfold State.giveUp
  split <;> simp

@[simp] theorem State.giveUp_unwinding' (s : State) (o : Nat) :
    (s.giveUp o).unwinding = s.unwinding := by
  unfold State.giveUp
  split <;> simp

theorem applyAct_quietCtl {s : State} (hs : s.Safe) (hq : HeapQ s) (h : s.QuietCtl)
    (fh fw : List Nat) (a : Act) (ha : a.fullQuiet) : (applyAct s fh fw a).QuietCtl := by
  cases a with
  | new =>
    simp only [applyAct]
    exact h.of_eq rfl rfl rfl
  | clone r =>
    simp only [applyAct, hs.useRoot_eq, hs.badRoot_eq]
    split
    · exact h.of_eq (by simp) (by simp) (by simp)
    · exact h
  | drop r =>
    simp only [applyAct, hs.useRoot_eq, hs.badRoot_eq]
    split
    · exact h.of_push [.rcDrop _] (by simp [Frame.okQ]) (fun v hv => hv) rfl rfl
    · exact h
  | link r q =>
    simp only [applyAct, hs.useRoot_eq, hs.badRoot_eq]
    split
    · split
      · exact h
      · exact h.of_eq (by simp) (by simp) (by simp)
    · exact h
  | unlink q k =>
    simp only [applyAct, hs.useRoot_eq, hs.badRoot_eq]
    split
    · split
      · split
        · split
          · exact h.of_eq (by simp) (by simp) (by simp)
          · exact h.of_eq (by simp) (by simp) (by simp)
        · exact h
      · exact h.fail _
    · exact h
  | downgrade r =>
    simp only [applyAct, hs.useRoot_eq, hs.badRoot_eq]
    split
    · exact h.of_eq (by simp) (by simp) (by simp)
    · exact h
  | upgrade w =>
    simp only [applyAct]
    split
    · split
      · split
        · exact h.of_eq rfl rfl rfl
        · exact h.of_eq (by simp) (by simp) (by simp)
      · exact h.fail _
    · exact h
  | cloneWeak w =>
    simp only [applyAct]
    split
    · exact h.of_eq (by simp) (by simp) (by simp)
    · exact h
  | dropWeak w =>
    simp only [applyAct]
    split
    · exact h.of_push [.weakDrop _] (by simp [Frame.okQ]) (fun v hv => hv) rfl rfl
    · exact h
  | storeWeak w q =>
    simp only [applyAct, hs.useRoot_eq, hs.badRoot_eq]
    split
    · exact h.of_eq (by simp) (by simp) (by simp)
    · exact h
    · exact h
  | tryUnwrap r =>
    simp only [applyAct, hs.useRoot_eq, hs.badRoot_eq]
    cases hr : nthMod s.roots r with
    | none => exact h
    | some o =>
      dsimp only
      cases hc : s.cell o with
      | none => exact h.fail _
      | some ob =>
        dsimp only
        split
        · rename_i v hst hv
          refine ⟨?_, ?_, ?_⟩
          · intro w hw
            simp only [emit_vals, State.giveUp_vals', List.mem_append, List.mem_singleton] at hw
            rcases hw with hw | rfl
            · exact h.vals w hw
            · exact hq o ob _ (get_of_cell hc) hv
          · simp only [emit_stack, giveUp_stack]; exact h.stack
          · simp only [emit_unwinding, State.giveUp_unwinding']; exact h.unw
        · exact h.fail _
        · exact h.of_eq rfl rfl rfl
  | dropValue i =>
    simp only [applyAct]
    cases hv : nthMod s.vals i with
    | none => exact h
    | some v =>
      dsimp only
      refine h.of_push [.dropVal v] ?_ ?_ rfl rfl
      · intro f hf
        simp only [List.mem_singleton] at hf
        subst hf
        exact h.vals v (mem_of_nthMod hv)
      · intro w hw
        exact List.mem_of_mem_eraseIdx hw
  | getMut r =>
    simp only [applyAct, hs.useRoot_eq, hs.badRoot_eq]
    split
    · split
      · exact h.of_eq rfl rfl rfl
      · exact h.fail _
    · exact h
  | intoRaw r =>
    simp only [applyAct, hs.useRoot_eq, hs.badRoot_eq]
    split
    · exact h.of_eq rfl rfl rfl
    · exact h
  | fromRaw i =>
    simp only [applyAct]
    split
    · exact h.of_eq rfl rfl rfl
    · exact h
  | incStrong i =>
    simp only [applyAct]
    split
    · split
      · exact h.of_eq (by simp) (by simp) (by simp)
      · exact h.fail _
    · exact h
  | decStrong i =>
    simp only [applyAct]
    split
    · split
      · exact h.of_push [.rcDrop _] (by simp [Frame.okQ]) (fun v hv => hv) rfl rfl
      · exact h.fail _
    · exact h
  | ptrEq r1 r2 =>
    simp only [applyAct, hs.useRoot_eq, hs.badRoot_eq]
    split
    · exact h.of_eq rfl rfl rfl
    · exact h
  | counts r =>
    simp only [applyAct, hs.useRoot_eq, hs.badRoot_eq]
    split
    · split
      · exact h.of_eq rfl rfl rfl
      · exact h.fail _
    · exact h
  | wcounts w =>
    simp only [applyAct]
    split
    · split
      · split <;> exact h.of_eq rfl rfl rfl
      · exact h.fail _
    · exact h
  | adopt _ _ => exact absurd ha id
  | unadopt _ _ => exact absurd ha id
  | store _ _ => exact absurd ha id
  | take _ _ => exact absurd ha id
  | makeMut _ => exact absurd ha id
  | setPanic _ => exact absurd ha id
  | setShallow _ => exact absurd ha id
  | upgradeField _ => exact absurd ha id
  | cloneField _ => exact absurd ha id
  | downgradeField _ => exact absurd ha id

end Cactus
