import Cactus.Lemmas.History.RcDropSim
/-!
# History lift of C09, part 10: the phases of a collection on layout-equal states

* `dropCycle_leq`: phases 1 and 2 from layout-equal states with cycle maps that have the same key
  *set* give layout-equal heaps and permuted value lists;
* `blockResult_leq`: the block of destructors (closed form) respects `LayoutEqL` and permutation
  of the block;
* `phase3_fold_leq`: phase 3 over permuted key lists respects `LayoutEqL`.
-/
namespace Cactus
open State

/-! ## phase 3 in closed form -/

/-- a member after phase 3: the implicit weak reference is released -/
def p3Obj (ob : Obj) : Obj :=
  if ob.weak = 1 then { ob with weak := 0, freed := true, implicit := false }
  else { ob with weak := ob.weak - 1, implicit := false }

/-- readiness of a key for phase 3 -/
def Ready3 (u : State) (k : Nat) : Prop :=
  ∃ ob, u.heap[k]? = some ob ∧ ob.freed = false ∧ ob.strong.isDead = true ∧ 1 ≤ ob.weak

theorem phase3One_ready (u : State) (k : Nat) (ob : Obj) (hg : u.heap[k]? = some ob)
    (hf : ob.freed = false) (hd : ob.strong.isDead = true) (hw : 1 ≤ ob.weak) :
    u.phase3One k = { u with heap := u.heap.set k (p3Obj ob),
                             log := u.log ++ (if ob.weak = 1 then [Ev.freed k] else []) } := by
  have hc : u.cell k = some ob := by simp [State.cell, hg, hf]
  unfold State.phase3One
  simp only [hc, hd, if_true]
  unfold State.decWeakFree
  simp only [hc]
  split
  · rename_i h0; omega
  · rename_i h1
    simp [State.setObj, State.emit, p3Obj, h1]
  · rename_i w h2
    have : ¬ ob.weak = 1 := by omega
    simp [State.setObj, p3Obj, h2]

theorem wk_set_ne (h : List Obj) (k i : Nat) (ob : Obj) (hne : k ≠ i) :
    wk (h.set k ob) i = wk h i := by
  simp only [wk, List.getElem?_set_ne hne]

theorem phase3_fold_spec (ks : List Nat) :
    ∀ (u : State), ks.Nodup → (∀ k ∈ ks, Ready3 u k) →
      let u3 := ks.foldl State.phase3One u
      u3 = { u with heap := u3.heap, log := u3.log }
      ∧ u3.heap.length = u.heap.length
      ∧ (∀ k ∈ ks, ∀ ob, u.heap[k]? = some ob → u3.heap[k]? = some (p3Obj ob))
      ∧ (∀ i, i ∉ ks → u3.heap[i]? = u.heap[i]?)
      ∧ u3.log = u.log ++ (ks.filter (fun k => wk u.heap k == 1)).map Ev.freed := by
  induction ks with
  | nil => intro u _ _; simp
  | cons k ks ih =>
    intro u hnd hr
    have hnd' : k ∉ ks ∧ ks.Nodup := by simpa using hnd
    obtain ⟨ob, hg, hf, hd, hw⟩ := hr k List.mem_cons_self
    have hstep := phase3One_ready u k ob hg hf hd hw
    have hlt : k < u.heap.length := (List.getElem?_eq_some_iff.mp hg).1
    have hr' : ∀ k' ∈ ks, Ready3 (u.phase3One k) k' := by
      intro k' hk'
      have hne : k ≠ k' := fun e => hnd'.1 (e ▸ hk')
      obtain ⟨ob', hg', rest⟩ := hr k' (List.mem_cons_of_mem _ hk')
      refine ⟨ob', ?_, rest⟩
      rw [hstep]
      show (u.heap.set k (p3Obj ob))[k']? = some ob'
      rw [List.getElem?_set_ne hne]; exact hg'
    obtain ⟨h1, h2, h3, h4, h5⟩ := ih (u.phase3One k) hnd'.2 hr'
    simp only [List.foldl_cons]
    refine ⟨?_, ?_, ?_, ?_, ?_⟩
    · generalize ks.foldl State.phase3One (u.phase3One k) = u3 at h1 ⊢
      rw [h1, hstep]
    · rw [h2, hstep]; simp
    · intro k' hk' ob' hg'
      have hk'' : k' = k ∨ k' ∈ ks := by simpa using hk'
      rcases hk'' with rfl | hk''
      · rw [h4 _ hnd'.1, hstep]
        show (u.heap.set k' (p3Obj ob))[k']? = _
        rw [List.getElem?_set_self hlt]
        rw [hg] at hg'; cases hg'; rfl
      · have hne : k ≠ k' := fun e => hnd'.1 (e ▸ hk'')
        apply h3 k' hk'' ob'
        rw [hstep]
        show (u.heap.set k (p3Obj ob))[k']? = some ob'
        rw [List.getElem?_set_ne hne]; exact hg'
    · intro i hi
      have hi' : i ≠ k ∧ i ∉ ks := by simpa using hi
      rw [h4 i hi'.2, hstep]
      show (u.heap.set k (p3Obj ob))[i]? = _
      rw [List.getElem?_set_ne (Ne.symm hi'.1)]
    · rw [h5, hstep]
      show (u.log ++ _) ++ _ = _
      have hwk : wk u.heap k = ob.weak := by simp [wk, hg]
      have hfilt : ks.filter (fun k' => wk (u.heap.set k (p3Obj ob)) k' == 1)
          = ks.filter (fun k' => wk u.heap k' == 1) := by
        apply List.filter_congr
        intro k' hk'
        have hne : k ≠ k' := fun e => hnd'.1 (e ▸ hk')
        rw [wk_set_ne _ _ _ _ hne]
      rw [hfilt, List.filter_cons, hwk]
      by_cases h1w : ob.weak = 1
      · simp [h1w]
      · simp [h1w]

theorem p3Obj_layoutEq {a b : Obj} (h : Obj.LayoutEq a b) : Obj.LayoutEq (p3Obj a) (p3Obj b) := by
  unfold p3Obj
  rw [← h.weak]
  split
  · exact ⟨h.strong, rfl, h.value, rfl, rfl, h.links⟩
  · exact ⟨h.strong, rfl, h.value, h.freed, rfl, h.links⟩

theorem HeapEq.wk_eq {h h' : List Obj} (e : HeapEq h h') (i : Nat) : wk h i = wk h' i := by
  rcases e.cases i with ⟨h1, h2⟩ | ⟨a, b, h1, h2, hab⟩
  · simp [wk, h1, h2]
  · simp [wk, h1, h2, hab.weak]

/-- **phase 3 does not depend on the order of the keys** -/
theorem phase3_fold_leq {u u' : State} (h : u.LayoutEqL u') {ks ks' : List Nat}
    (hp : ks.Perm ks') (hnd : ks.Nodup) (hr : ∀ k ∈ ks, Ready3 u k) (hr' : ∀ k ∈ ks', Ready3 u' k) :
    (ks.foldl State.phase3One u).LayoutEqL (ks'.foldl State.phase3One u') := by
  have hnd' : ks'.Nodup := hp.nodup_iff.mp hnd
  obtain ⟨a1, a2, a3, a4, a5⟩ := phase3_fold_spec ks u hnd hr
  obtain ⟨b1, b2, b3, b4, b5⟩ := phase3_fold_spec ks' u' hnd' hr'
  generalize ks.foldl State.phase3One u = t at a1 a2 a3 a4 a5 ⊢
  generalize ks'.foldl State.phase3One u' = t' at b1 b2 b3 b4 b5 ⊢
  refine ⟨⟨by rw [a2, b2, h.heap.1], ?_⟩, by rw [a1, b1]; exact h.roots, by rw [a1, b1]; exact h.wroots,
    by rw [a1, b1]; exact h.vals, by rw [a1, b1]; exact h.raws, by rw [a1, b1]; exact h.stack, ?_,
    by rw [a1, b1]; exact h.err, by rw [a1, b1]; exact h.unwinding, by rw [a1, b1]; exact h.nextVid⟩
  · intro i x y hx hy
    by_cases hi : i ∈ ks
    · have hi' : i ∈ ks' := hp.mem_iff.mp hi
      obtain ⟨ob, hg, -⟩ := hr i hi
      obtain ⟨ob', hg', -⟩ := hr' i hi'
      rw [a3 i hi ob hg] at hx
      rw [b3 i hi' ob' hg'] at hy
      cases hx; cases hy
      exact p3Obj_layoutEq (h.heap.2 i ob ob' hg hg')
    · have hi' : i ∉ ks' := fun hm => hi (hp.mem_iff.mpr hm)
      rw [a4 i hi] at hx
      rw [b4 i hi'] at hy
      exact h.heap.2 i x y hx hy
  · rw [a5, b5]
    apply List.Perm.append h.log
    apply List.Perm.map
    have hfc : ks'.filter (fun k => wk u'.heap k == 1) = ks'.filter (fun k => wk u.heap k == 1) := by
      apply List.filter_congr
      intro k _
      rw [h.heap.wk_eq k]
    rw [hfc]
    exact hp.filter _

/-! ## the block of destructors in closed form -/

theorem relObj_layoutEq {a b : Obj} (h : Obj.LayoutEq a b) (c : Nat) :
    Obj.LayoutEq (relObj a c) (relObj b c) := by
  unfold relObj
  rw [← h.weak]
  split
  · exact h
  · split
    · exact ⟨h.strong, rfl, h.value, h.freed, h.implicit, h.links⟩
    · exact ⟨h.strong, rfl, h.value, rfl, h.implicit, h.links⟩

theorem freedCount_heapEq {h h' : List Obj} (e : HeapEq h h') (ws : List Nat) (ev : Ev) :
    freedCount h ws ev = freedCount h' ws ev := by
  cases ev <;> simp [freedCount, e.wk_eq]

/-- **the closed form of a block respects `LayoutEqL` and permutation of the block** -/
theorem blockResult_leq {u u' : State} (h : u.LayoutEqL u') {vs vs' : List Val} (hp : vs.Perm vs')
    (hgood : GoodW u.heap (blockWeaks vs)) (hgood' : GoodW u'.heap (blockWeaks vs')) :
    (blockResult u vs).LayoutEqL (blockResult u' vs') := by
  have hw : (blockWeaks vs).Perm (blockWeaks vs') := blockWeaks_perm hp
  have h1 := runItems_spec (blockItems vs) u (by rw [rels_blockItems]; exact hgood)
  have h2 := runItems_spec (blockItems vs') u' (by rw [rels_blockItems]; exact hgood')
  rw [← blockResult_eq_runItems] at h1 h2
  have c1 := h1.ctl
  have c2 := h2.ctl
  refine ⟨?_, by rw [c1, c2]; exact h.roots, by rw [c1, c2]; exact h.wroots,
    by rw [c1, c2]; exact h.vals, by rw [c1, c2]; exact h.raws, by rw [c1, c2]; exact h.stack, ?_,
    by rw [c1, c2]; exact h.err, by rw [c1, c2]; exact h.unwinding, by rw [c1, c2]; exact h.nextVid⟩
  · refine HeapEq.of_map h.heap (fun i ob => relObj ob ((rels (blockItems vs)).count i))
      (fun i ob => relObj ob ((rels (blockItems vs')).count i)) h1.heap h2.heap ?_
    intro i a b _ _ hab
    have : (rels (blockItems vs)).count i = (rels (blockItems vs')).count i := by
      rw [rels_blockItems, rels_blockItems]
      exact hw.count_eq i
    rw [this]
    exact relObj_layoutEq hab _
  · obtain ⟨l1, e1, k1⟩ := h1.log
    obtain ⟨l2, e2, k2⟩ := h2.log
    rw [e1, e2]
    apply List.Perm.append h.log
    rw [List.perm_iff_count]
    intro e
    rw [k1 e, k2 e, evs_blockItems, evs_blockItems, rels_blockItems, rels_blockItems,
      (hp.map (fun v => Ev.destroyed v.vid)).count_eq e, freedCount_heapEq h.heap]
    congr 1
    exact freedCount_perm _ hw e

/-! ## phases 1 and 2 -/

/-- the collected values, as a function of the heap and the key list -/
theorem vals_eq_filterMap {vs : List Val} {L : List (Option Val)} (h : vs.map some = L) :
    vs = L.filterMap id := by
  rw [← h, List.filterMap_map]
  simp

theorem p2Obj_layoutEq {a b : Obj} (h : Obj.LayoutEq a b) : Obj.LayoutEq (p2Obj a) (p2Obj b) :=
  ⟨rfl, h.weak, rfl, h.freed, h.implicit, trivial⟩

/-- **phases 1 and 2 do not depend on the layout**: from layout-equal states, with cycle maps that
have the same key set, `dropCycle` produces layout-equal states up to the control stack, and the
two lists of collected values are permutations of each other -/
theorem dropCycle_leq {s2 s2' : State} (h : s2.LayoutEqL s2') {c c' : CMap}
    (hR : CycleReady s2 c) (hR' : CycleReady s2' c')
    (hks : ∀ k, k ∈ c.keys ↔ k ∈ c'.keys) (st : List Frame) :
    ({ s2.dropCycle c with stack := st } : State).LayoutEqL { s2'.dropCycle c' with stack := st }
    ∧ (s2.cyc2 c).2.Perm (s2'.cyc2 c').2
    ∧ c.keys.Perm c'.keys := by
  have hperm : c.keys.Perm c'.keys := (List.perm_ext_iff_of_nodup hR.nodup hR'.nodup).mpr hks
  obtain ⟨d1, d2, -, d4, d5, d6, d7, d8, d9, -, d11⟩ := dropCycle_spec s2 c hR
  obtain ⟨e1, e2, -, e4, e5, e6, e7, e8, e9, -, e11⟩ := dropCycle_spec s2' c' hR'
  obtain ⟨-, -, p3, p4, p5, p6⟩ := phase2_spec s2 c hR
  obtain ⟨-, -, q3, q4, q5, q6⟩ := phase2_spec s2' c' hR'
  refine ⟨⟨⟨?_, ?_⟩, by show (s2.dropCycle c).roots = (s2'.dropCycle c').roots; rw [d4, e4, h.roots],
    by show (s2.dropCycle c).wroots = (s2'.dropCycle c').wroots; rw [d5, e5, h.wroots],
    by show (s2.dropCycle c).vals = (s2'.dropCycle c').vals; rw [d6, e6, h.vals],
    by show (s2.dropCycle c).raws = (s2'.dropCycle c').raws; rw [d7, e7, h.raws],
    rfl,
    by show (s2.dropCycle c).log.Perm (s2'.dropCycle c').log; rw [d8, e8]; exact h.log,
    by show (s2.dropCycle c).err = (s2'.dropCycle c').err; rw [d2, e2],
    by show (s2.dropCycle c).unwinding = (s2'.dropCycle c').unwinding; rw [d9, e9, h.unwinding],
    by show (s2.dropCycle c).nextVid = (s2'.dropCycle c').nextVid; rw [d11, e11, h.nextVid]⟩,
    ?_, hperm⟩
  · show (s2.dropCycle c).heap.length = (s2'.dropCycle c').heap.length
    rw [d1, e1, p3, q3, h.heap.1]
  · intro i x y hx hy
    have hx' : (s2.dropCycle c).heap[i]? = some x := hx
    have hy' : (s2'.dropCycle c').heap[i]? = some y := hy
    rw [d1] at hx'
    rw [e1] at hy'
    by_cases hi : i ∈ c.keys
    · have hi' : i ∈ c'.keys := (hks i).mp hi
      obtain ⟨ob, _, _, _, hg, -⟩ := hR.ready i hi
      obtain ⟨ob', _, _, _, hg', -⟩ := hR'.ready i hi'
      rw [p4 i hi ob hg] at hx'
      rw [q4 i hi' ob' hg'] at hy'
      cases hx'; cases hy'
      exact p2Obj_layoutEq (h.heap.2 i ob ob' hg hg')
    · have hi' : i ∉ c'.keys := fun hm => hi ((hks i).mpr hm)
      rw [p5 i hi] at hx'
      rw [q5 i hi'] at hy'
      exact h.heap.2 i x y hx' hy'
  · rw [vals_eq_filterMap p6, vals_eq_filterMap q6]
    have hval : ∀ k : Nat, (s2.heap[k]?).bind (fun ob : Obj => ob.value)
        = (s2'.heap[k]?).bind (fun ob : Obj => ob.value) := by
      intro k
      rcases h.heap_cases k with ⟨h1, h2⟩ | ⟨a, b, h1, h2, hab⟩
      · rw [h1, h2]
      · rw [h1, h2]; exact hab.value
    have : c'.keys.map (fun k => (s2'.heap[k]?).bind (fun ob => ob.value))
        = c'.keys.map (fun k => (s2.heap[k]?).bind (fun ob => ob.value)) := by
      apply List.map_congr_left
      intro k _
      exact (hval k).symm
    rw [this]
    exact (hperm.map _).filterMap _

end Cactus
