import Cactus.Lemmas.History.RcDrop
/-!
# History lift of C09, part 9: `Rc::drop` in lock-step

`Sim.step_rcDrop`: from corresponding stable points with an `rcDrop o` frame on top, either the two
runs take one step to corresponding stable points, or both start a collection of the same group
(`Collects`), from layout-equal states.
-/
namespace Cactus
open State

/-! ## the trace on layout-equal states -/

theorem fwdLen_perm {t t' : Table} (h : t.Perm t') : fwdLen t = fwdLen t' := by
  unfold fwdLen
  exact (h.filter _).length_eq

/-- `cycleRefs_layout` for `LayoutEqL`, plus: the number of visited objects and the number of
worklist pops (both are logged by the `traced` event) agree -/
theorem cycleRefs_layoutL (s s' : State) (x : Nat) (h : s.LayoutEqL s')
    (hO : s.InvO) (hB : s.InvB) (hx : s.isLive x = true) :
    (∀ k, k ∈ (cycleRefs s x).cmap.keys ↔ k ∈ (cycleRefs s' x).cmap.keys)
    ∧ (∀ k, (cycleRefs s x).cmap.get k = (cycleRefs s' x).cmap.get k)
    ∧ (cycleRefs s x).cmap.isEmpty = (cycleRefs s' x).cmap.isEmpty
    ∧ hasExternalOwners s (cycleRefs s x).cmap = hasExternalOwners s' (cycleRefs s' x).cmap
    ∧ (cycleRefs s x).visited.length = (cycleRefs s' x).visited.length
    ∧ (cycleRefs s x).popped = (cycleRefs s' x).popped := by
  have hL := h.toLayoutEq
  have e : cycleRefs ({ s' with log := s.log } : State) x = cycleRefs s' x :=
    cycleRefs_congr (s := s') (s' := { s' with log := s.log }) rfl x
  obtain ⟨hvis, hks, hget, hemp, hex⟩ := cycleRefs_layout s _ x hL hO hB hx
  rw [e] at hvis hks hget hemp hex
  have hex' : hasExternalOwners s (cycleRefs s x).cmap
      = hasExternalOwners s' (cycleRefs s' x).cmap := hex
  have hO' : s'.InvO := hL.invO hO
  have hB' : s'.InvB := hL.invB hB
  have hx' : s'.isLive x = true := by rw [← h.isLive_eq]; exact hx
  have hperm : (cycleRefs s x).visited.Perm (cycleRefs s' x).visited :=
    (List.perm_ext_iff_of_nodup (visited_nodup s x hO hB hx) (visited_nodup s' x hO' hB' hx')).mpr hvis
  obtain ⟨hb, hf⟩ := cycleRefs_ok s x hO hB hx
  obtain ⟨hb', hf'⟩ := cycleRefs_ok s' x hO' hB' hx'
  refine ⟨hks, hget, hemp, hex', hperm.length_eq, ?_⟩
  rw [cycleRefs_popped_eq s x hb hf, cycleRefs_popped_eq s' x hb' hf',
    sumOver_perm hperm (fun n => fwdLen (s.tbl n))]
  congr 1
  exact sumOver_congr _ (fun n _ => fwdLen_perm (h.tbl_perm n))

/-! ## the collecting case -/

/-- the state in which the trace of `Rc::drop` runs: the frame popped, the count decremented -/
def decState (s : State) (o : Nat) (rest : List Frame) (ob : Obj) (n : Nat) : State :=
  ({ s with stack := rest } : State).setObj o { ob with strong := .cnt (n + 1) }

/-- the `rcDrop o` frame on top of the stack of `s` starts a collection -/
structure Collects (s : State) (o : Nat) (rest : List Frame) (ob : Obj) (n : Nat) : Prop where
  stack : s.stack = .rcDrop o :: rest
  cell : s.cell o = some ob
  strong : ob.strong = .cnt (n + 2)
  hne : (cycleRefs (decState s o rest ob n) o).cmap.isEmpty = false
  hext : hasExternalOwners (decState s o rest ob n) (cycleRefs (decState s o rest ob n) o).cmap = false
  step_eq : step s = ((decState s o rest ob n).emit
      (.traced o (cycleRefs (decState s o rest ob n) o).visited.length
        (cycleRefs (decState s o rest ob n) o).popped)).dropCycle
      (cycleRefs (decState s o rest ob n) o).cmap

theorem perm_isEmpty {α : Type} {l l' : List α} (h : l.Perm l') : l.isEmpty = l'.isEmpty := by
  cases l with
  | nil => rw [List.nil_perm.mp h]
  | cons a l =>
    cases l' with
    | nil => exact absurd (List.perm_nil.mp h) (by simp)
    | cons b l' => rfl

/-- **`Rc::drop` in lock-step**, or the same collection starts in both runs -/
theorem Sim.step_rcDrop {s s' : State} (h : Sim s s') {o : Nat} {rest : List Frame}
    (hst : s.stack = .rcDrop o :: rest) :
    Sim (step s) (step s')
    ∨ ∃ ob ob' n, Collects s o rest ob n ∧ Collects s' o rest ob' n
        ∧ (decState s o rest ob n).LayoutEqL (decState s' o rest ob' n) := by
  have hg := h.good
  have hg' := h.good'
  have hst' : s'.stack = .rcDrop o :: rest := by rw [← h.leq.stack]; exact hst
  have hsafe := hg.safe
  have hsafe' := hg'.safe
  obtain ⟨a, hca⟩ := hg.rcDrop_cell hst
  have h0 := h.leq.setStack rest
  rcases h.leq.cell_cases o with ⟨k1, -⟩ | ⟨a', b, k1, hcb, hab⟩
  · rw [k1] at hca; cases hca
  rw [hca] at k1; cases k1
  have hga := get_of_cell hca
  have hgb := get_of_cell hcb
  have hfra := freed_of_cell hca
  have hfrb := freed_of_cell hcb
  cases hsa : a.strong with
  | uninit =>
    have hsb : b.strong = .uninit := by rw [← hab.strong]; exact hsa
    obtain ⟨e1, g1⟩ := hg.step_rcDrop_dead hst hca (by rw [hsa]; rfl)
    obtain ⟨e2, g2⟩ := hg'.step_rcDrop_dead hst' hcb (by rw [hsb]; rfl)
    exact Or.inl ⟨by rw [e1, e2]; exact h0, g1, g2⟩
  | cnt k =>
    have hsb : b.strong = .cnt k := by rw [← hab.strong]; exact hsa
    cases k with
    | zero =>
      obtain ⟨e1, g1⟩ := hg.step_rcDrop_dead hst hca (by rw [hsa]; rfl)
      obtain ⟨e2, g2⟩ := hg'.step_rcDrop_dead hst' hcb (by rw [hsb]; rfl)
      exact Or.inl ⟨by rw [e1, e2]; exact h0, g1, g2⟩
    | succ k =>
      obtain ⟨-, hlS, -, -⟩ := (hsafe.invO o a hga).1 k hsa
      obtain ⟨t, hla⟩ := Option.isSome_iff_exists.1 hlS
      obtain ⟨-, hlS', -, -⟩ := (hsafe'.invO o b hgb).1 k hsb
      obtain ⟨t', hlb⟩ := Option.isSome_iff_exists.1 hlS'
      have hperm : t.Perm t' := by
        have := hab.links
        rw [hla, hlb] at this
        exact this
      have hemp : t.isEmpty = t'.isEmpty := perm_isEmpty hperm
      cases k with
      | zero =>
        have hob : Obj.LayoutEq { a with strong := .cnt 0 } { b with strong := .cnt 0 } :=
          ⟨rfl, hab.weak, hab.value, hab.freed, hab.implicit, hab.links⟩
        cases hte : t.isEmpty with
        | true =>
          obtain ⟨e1, g1⟩ := hg.step_rcDrop_single_empty hst hca hsa hla hte
          obtain ⟨e2, g2⟩ := hg'.step_rcDrop_single_empty hst' hcb hsb hlb (by rw [← hemp]; exact hte)
          exact Or.inl ⟨by rw [e1, e2]; exact (h0.setObj o hob).beginSingle o, g1, g2⟩
        | false =>
          obtain ⟨e1, g1⟩ := hg.step_rcDrop_single_purge hst hca hsa hla hte
          obtain ⟨e2, g2⟩ := hg'.step_rcDrop_single_purge hst' hcb hsb hlb (by rw [← hemp]; exact hte)
          refine Or.inl ⟨?_, g1, g2⟩
          rw [e1, e2]
          have hlive : s.isLive o = true := by rw [isLive_of_get hga]; simp [hfra, hsa]
          have hlive' : s'.isLive o = true := by rw [← h.leq.isLive_eq]; exact hlive
          have hT : ∀ p, (({ s with stack := rest } : State).setObj o { a with strong := .cnt 0 }).tableOf p
              = s.tableOf p := by
            intro p
            rw [tableOf_setObj_of_links_eq (s := ({ s with stack := rest } : State))
              (ob' := { a with strong := .cnt 0 }) hga rfl rfl p]
            rfl
          have hT' : ∀ p, (({ s' with stack := rest } : State).setObj o { b with strong := .cnt 0 }).tableOf p
              = s'.tableOf p := by
            intro p
            rw [tableOf_setObj_of_links_eq (s := ({ s' with stack := rest } : State))
              (ob' := { b with strong := .cnt 0 }) hgb rfl rfl p]
            rfl
          exact (LayoutEqL.purgePeers (h0.setObj o hob) hsafe.invO hsafe.invB hlive hT
            hsafe'.invO hsafe'.invB hlive' hT' hg.err).beginSingle o
      | succ n =>
        have hob : Obj.LayoutEq { a with strong := .cnt (n + 1) } { b with strong := .cnt (n + 1) } :=
          ⟨rfl, hab.weak, hab.value, hab.freed, hab.implicit, hab.links⟩
        have h1 : (decState s o rest a n).LayoutEqL (decState s' o rest b n) := h0.setObj o hob
        cases hte : t.isEmpty with
        | true =>
          obtain ⟨e1, g1⟩ := hg.step_rcDrop_dec_empty hst hca hsa hla hte
          obtain ⟨e2, g2⟩ := hg'.step_rcDrop_dec_empty hst' hcb hsb hlb (by rw [← hemp]; exact hte)
          exact Or.inl ⟨by rw [e1, e2]; exact h1, g1, g2⟩
        | false =>
          have hte' : t'.isEmpty = false := by rw [← hemp]; exact hte
          have hd := hg.decFacts hst hca hsa
          have hd' := hg'.decFacts hst' hcb hsb
          obtain ⟨-, -, c3, c4, c5, c6⟩ :=
            cycleRefs_layoutL (decState s o rest a n) (decState s' o rest b n) o h1 hd.core.1
              hd.core.2.1 hd.live
          by_cases hno : (cycleRefs (decState s o rest a n) o).cmap.isEmpty = true
              ∨ hasExternalOwners (decState s o rest a n)
                  (cycleRefs (decState s o rest a n) o).cmap = true
          · have hno' : (cycleRefs (decState s' o rest b n) o).cmap.isEmpty = true
                ∨ hasExternalOwners (decState s' o rest b n)
                    (cycleRefs (decState s' o rest b n) o).cmap = true := by
              rw [← c3, ← c4]; exact hno
            obtain ⟨e1, g1⟩ := hg.step_rcDrop_trace_keep hst hca hsa hla hte hno
            obtain ⟨e2, g2⟩ := hg'.step_rcDrop_trace_keep hst' hcb hsb hlb hte' hno'
            refine Or.inl ⟨?_, g1, g2⟩
            rw [e1, e2]
            have key : ((decState s o rest a n).emit
                (.traced o (cycleRefs (decState s o rest a n) o).visited.length
                  (cycleRefs (decState s o rest a n) o).popped)).LayoutEqL
                ((decState s' o rest b n).emit
                  (.traced o (cycleRefs (decState s' o rest b n) o).visited.length
                    (cycleRefs (decState s' o rest b n) o).popped)) := by
              rw [← c5, ← c6]
              exact h1.emit _
            exact key
          · have hne : (cycleRefs (decState s o rest a n) o).cmap.isEmpty = false := by
              cases hx : (cycleRefs (decState s o rest a n) o).cmap.isEmpty with
              | false => rfl
              | true => exact absurd (Or.inl hx) hno
            have hext : hasExternalOwners (decState s o rest a n)
                (cycleRefs (decState s o rest a n) o).cmap = false := by
              cases hx : hasExternalOwners (decState s o rest a n)
                  (cycleRefs (decState s o rest a n) o).cmap with
              | false => rfl
              | true => exact absurd (Or.inr hx) hno
            have hno' : ¬ ((cycleRefs (decState s' o rest b n) o).cmap.isEmpty = true
                ∨ hasExternalOwners (decState s' o rest b n)
                    (cycleRefs (decState s' o rest b n) o).cmap = true) := by
              rw [← c3, ← c4]; exact hno
            refine Or.inr ⟨a, b, n, ⟨hst, hca, hsa, hne, hext, ?_⟩,
              ⟨hst', hcb, hsb, by rw [← c3]; exact hne, by rw [← c4]; exact hext, ?_⟩, h1⟩
            · rw [hg.step_rcDrop_eq hst,
                State.rcDrop_eq_traceBranch ({ s with stack := rest } : State) o a n t hca hsa hla hte]
              exact (traceBranch_eq _ o hd.core hd.live).trans (if_neg hno)
            · rw [hg'.step_rcDrop_eq hst',
                State.rcDrop_eq_traceBranch ({ s' with stack := rest } : State) o b n t' hcb hsb hlb hte']
              exact (traceBranch_eq _ o hd'.core hd'.live).trans (if_neg hno')

end Cactus
