import Cactus.Lemmas.History.Rel
/-!
# History lift of C09, part 2: `Full` and quietness are kept by the primitive state transformers

`FQ E s`: every live object outside the exempt set `E` records exactly the handles its value
stores (`Full` restricted to the complement of `E`) and every value in the heap is quiet (no
destructor script, not panicking).  The exempt set is needed inside `try_unwrap` (the purge clears
the table of the object that is given up before its value is moved out).
-/
namespace Cactus
open State

/-- every value stored in the heap is quiet -/
def HeapQ (s : State) : Prop :=
  ∀ (o : Nat) (ob : Obj) (v : Val), s.heap[o]? = some ob → ob.value = some v → v.quiet

namespace HeapQ
variable {s : State}

theorem of_heap {s' : State} (h : HeapQ s) (hh : s'.heap = s.heap) : HeapQ s' :=
  fun o ob v hg hv => h o ob v (hh ▸ hg) hv

theorem fail (h : HeapQ s) (e : Err) : HeapQ (s.fail e) := h.of_heap (fail_heap s e)

theorem setObj (h : HeapQ s) {o : Nat} {ob ob' : Obj} (hg : s.heap[o]? = some ob)
    (hq : ∀ v, ob'.value = some v → v.quiet ∨ ob.value = some v) : HeapQ (s.setObj o ob') := by
  intro x obx v hx hv
  by_cases hxo : x = o
  · subst hxo
    rw [getElem?_setObj_same _ (get_lt hg)] at hx
    cases hx
    rcases hq v hv with hqv | hov
    · exact hqv
    · exact h x ob v hg hov
  · rw [getElem?_setObj_other s _ hxo] at hx
    exact h x obx v hx hv

theorem setLinks (h : HeapQ s) (o : Nat) (f : Table → Table) : HeapQ (s.setLinks o f) := by
  rcases setLinks_cases s o f with ⟨e, he⟩ | ⟨ob, t, hc, hl, he⟩ <;> rw [he]
  · exact h.fail e
  · exact h.setObj (get_of_cell hc) (fun v hv => Or.inr hv)

theorem modVal (h : HeapQ s) (o : Nat) {f : Val → Val} (hq : ∀ v, v.quiet → (f v).quiet) :
    HeapQ (s.modVal o f) := by
  rcases modVal_cases s o f with ⟨e, he⟩ | ⟨ob, v, hc, hv, he⟩ <;> rw [he]
  · exact h.fail e
  · refine h.setObj (get_of_cell hc) (fun v' hv' => Or.inl ?_)
    simp only [Option.some.injEq] at hv'
    subst hv'
    exact hq v (h o ob v (get_of_cell hc) hv)

end HeapQ

/-- `Full` outside `E`, and all heap values quiet -/
structure FQ (E : Nat → Prop) (s : State) : Prop where
  full : ∀ a, ¬ E a → s.isLive a = true → ∀ b, s.F a b = s.H a b
  quiet : HeapQ s

/-- no exemption -/
abbrev noE : Nat → Prop := fun _ => False

namespace FQ
variable {E : Nat → Prop} {s : State}

theorem toFull (h : FQ noE s) : s.Full := fun a b ha => h.full a (fun e => e) ha b

theorem of_full (hF : s.Full) (hq : HeapQ s) : FQ E s := ⟨fun a _ ha b => hF a b ha, hq⟩

theorem mono {E' : Nat → Prop} (h : FQ E s) (hE : ∀ a, E a → E' a) : FQ E' s :=
  ⟨fun a ha => h.full a (fun e => ha (hE a e)), h.quiet⟩

/-- drop the exemption once the exempt objects are dead -/
theorem close (h : FQ E s) (hd : ∀ a, E a → s.isLive a = false) : FQ noE s := by
  refine ⟨fun a _ ha b => ?_, h.quiet⟩
  by_cases he : E a
  · rw [hd a he] at ha; cases ha
  · exact h.full a he ha b

theorem of_heap {s' : State} (h : FQ E s) (hh : s'.heap = s.heap) : FQ E s' := by
  refine ⟨fun a ha hl b => ?_, fun o ob v hg hv => h.quiet o ob v (hh ▸ hg) hv⟩
  rw [isLive_congr hh] at hl
  rw [F_congr hh, H_congr hh]
  exact h.full a ha hl b

theorem fail (h : FQ E s) (e : Err) : FQ E (s.fail e) := h.of_heap (fail_heap s e)
theorem emit (h : FQ E s) (e : Ev) : FQ E (s.emit e) := h.of_heap rfl
theorem push (h : FQ E s) (fs : List Frame) : FQ E (s.push fs) := h.of_heap rfl

theorem badRoot (h : FQ E s) (r : Nat) : FQ E (s.badRoot r) := by
  rcases badRoot_cases s r with e | ⟨e, he⟩
  · rw [e]; exact h
  · rw [he]; exact h.fail e

/-- the general heap update -/
theorem setObj (h : FQ E s) {o : Nat} {ob ob' : Obj} (hg : s.heap[o]? = some ob)
    (hfull : ¬ E o → (!ob'.freed && !ob'.strong.isDead) = true →
      ((!ob.freed && !ob.strong.isDead) = true →
        ∀ b, (ob.links.getD []).get ⟨b, .fwd⟩ = ob.heldList.count b) →
      ∀ b, (ob'.links.getD []).get ⟨b, .fwd⟩ = ob'.heldList.count b)
    (hq : ∀ v, ob'.value = some v → v.quiet ∨ ob.value = some v) :
    FQ E (s.setObj o ob') := by
  have hlt := get_lt hg
  refine ⟨fun a ha hl b => ?_, fun x obx v hx hv => ?_⟩
  · by_cases hao : a = o
    · subst hao
      rw [isLive_setObj_same ob' hlt] at hl
      have hf' : ob'.freed = false := by
        cases hf : ob'.freed <;> simp [hf] at hl ⊢
      rw [F_setObj_same ob' hlt, H_setObj_same ob' hlt, hf']
      apply hfull ha hl
      intro hlo b
      have hf : ob.freed = false := by
        cases hf : ob.freed <;> simp [hf] at hlo ⊢
      have := h.full a ha (by rw [isLive_of_get hg]; exact hlo) b
      rw [F_def, tbl_of_get hg, hf, H_of_get hg] at this
      exact this
    · rw [isLive_setObj_other s ob' hao] at hl
      rw [F_setObj_other s ob' hao, H_setObj_other s ob' hao]
      exact h.full a ha hl b
  · by_cases hxo : x = o
    · subst hxo
      rw [getElem?_setObj_same _ hlt] at hx
      cases hx
      rcases hq v hv with hqv | hov
      · exact hqv
      · exact h.quiet x ob v hg hov
    · rw [getElem?_setObj_other s _ hxo] at hx
      exact h.quiet x obx v hx hv

/-- the new object is not live; its value is the old one or moved out -/
theorem setObj_dead (h : FQ E s) {o : Nat} {ob ob' : Obj} (hg : s.heap[o]? = some ob)
    (hd : (!ob'.freed && !ob'.strong.isDead) = false)
    (hv : ob'.value = none ∨ ob'.value = ob.value) : FQ E (s.setObj o ob') := by
  refine h.setObj hg (fun _ hl => by rw [hd] at hl; cases hl) (fun v hvv => Or.inr ?_)
  rcases hv with hv | hv
  · rw [hv] at hvv; cases hvv
  · rw [← hv]; exact hvv

/-- only counters change -/
theorem setObj_keep (h : FQ E s) {o : Nat} {ob ob' : Obj} (hg : s.heap[o]? = some ob)
    (hf : ob'.freed = ob.freed) (hs : ob.strong.isDead = true → ob'.strong.isDead = true)
    (hl : ob'.links = ob.links) (hv : ob'.value = ob.value) : FQ E (s.setObj o ob') := by
  refine h.setObj hg (fun _ hlive hold b => ?_) (fun v hvv => Or.inr (by rw [← hv]; exact hvv))
  rw [hl, Obj.heldList_congr hv]
  apply hold
  rw [hf] at hlive
  cases hd : ob.strong.isDead with
  | false => simp only [Bool.and_eq_true, Bool.not_eq_true'] at hlive ⊢; exact ⟨hlive.1, trivial⟩
  | true => simp [hs hd] at hlive

theorem incStrong (h : FQ E s) (o : Nat) : FQ E (s.incStrong o) := by
  rcases incStrong_cases s o with ⟨e, he⟩ | ⟨ob, n, hc, hs, he⟩ <;> rw [he]
  · exact h.fail e
  · exact h.setObj_keep (ob' := { ob with strong := .cnt (n + 2) }) (get_of_cell hc) rfl
      (fun hd => by rw [hs] at hd; cases hd) rfl rfl

theorem incWeak (h : FQ E s) (o : Nat) : FQ E (s.incWeak o) := by
  rcases incWeak_cases s o with ⟨e, he⟩ | ⟨ob, hc, hw, he⟩ <;> rw [he]
  · exact h.fail e
  · exact h.setObj_keep (ob' := { ob with weak := ob.weak + 1 }) (get_of_cell hc) rfl
      (fun hd => hd) rfl rfl

theorem decWeakFree (h : FQ E s) (o : Nat) (imp : Bool) : FQ E (s.decWeakFree o imp) := by
  rcases decWeakFree_cases s o imp with ⟨e, he⟩ | ⟨ob, hc, hw, he⟩ | ⟨ob, w, hc, hw, he⟩ <;> rw [he]
  · exact h.fail e
  · exact (h.setObj_dead
      (ob' := { ob with weak := 0, freed := true, implicit := ob.implicit && !imp })
      (get_of_cell hc) (by simp) (Or.inr rfl)).emit _
  · exact h.setObj_keep (ob' := { ob with weak := w + 1, implicit := ob.implicit && !imp })
      (get_of_cell hc) rfl (fun hd => hd) rfl rfl

/-- a table update that changes no Forward count -/
theorem setLinks (h : FQ E s) {o : Nat} {f : Table → Table}
    (hf : ∀ t, s.tableOf o = some t → ∀ b, (f t).get ⟨b, .fwd⟩ = t.get ⟨b, .fwd⟩) :
    FQ E (s.setLinks o f) := by
  rcases setLinks_cases s o f with ⟨e, he⟩ | ⟨ob, t, hc, hl, he⟩ <;> rw [he]
  · exact h.fail e
  · refine h.setObj (get_of_cell hc) (fun _ hlive hold b => ?_) (fun v hv => Or.inr hv)
    have ht : s.tableOf o = some t := by rw [tableOf_of_cell hc, hl]
    have := hold hlive b
    rw [hl] at this
    simp only [Option.getD_some] at this ⊢
    rw [hf t ht b]
    exact this

/-- a value update that changes neither the stored strong handles nor the destructor -/
theorem modVal (h : FQ E s) {o : Nat} {f : Val → Val}
    (hf : ∀ v b, (f v).held.count b = v.held.count b) (hq : ∀ v, v.quiet → (f v).quiet) :
    FQ E (s.modVal o f) := by
  rcases modVal_cases s o f with ⟨e, he⟩ | ⟨ob, v, hc, hv, he⟩ <;> rw [he]
  · exact h.fail e
  · refine h.setObj (get_of_cell hc) (fun _ hlive hold b => ?_) (fun v' hv' => Or.inl ?_)
    · have := hold hlive b
      rw [Obj.heldList_of_some hv] at this
      simp only [Obj.heldList_mk_some]
      rw [hf v b]
      exact this
    · simp only [Option.some.injEq] at hv'
      subst hv'
      exact hq v (h.quiet o ob v (get_of_cell hc) hv)

theorem alloc (h : FQ E s) (v : Val) (hv : v.held = []) (hq : v.quiet) : FQ E (s.alloc v) := by
  refine ⟨fun a ha hl b => ?_, fun x obx w hx hw => ?_⟩
  · rcases (isLive_alloc_iff s v a).mp hl with hl' | rfl
    · rw [F_alloc, H_alloc, if_neg (Nat.ne_of_gt (isLive_lt hl'))]
      exact h.full a ha hl' b
    · rw [F_alloc_new, H_alloc_new, hv]; rfl
  · by_cases hxl : x = s.heap.length
    · subst hxl
      rw [getElem?_alloc_new] at hx
      cases hx
      simp only [Obj.fresh] at hw
      cases hw
      exact hq
    · rw [getElem?_alloc_old s v hxl] at hx
      exact h.quiet x obx w hx hw

theorem beginSingle (h : FQ E s) (o : Nat) : FQ E (s.beginSingle o) := by
  unfold State.beginSingle
  split
  · rename_i ob hc
    split
    · exact h.decWeakFree o true
    · split
      · rename_i v hv
        exact (h.setObj_dead (ob' := { ob with strong := .uninit, value := none })
          (get_of_cell hc) (by simp) (Or.inl rfl)).push _
      · exact h.fail _
  · exact h.fail _

theorem finishSingle (h : FQ E s) (o : Nat) (hd : s.isLive o = false) : FQ E (s.finishSingle o) := by
  unfold State.finishSingle
  split
  · rename_i ob hc
    split
    · have hg := get_of_cell hc
      rw [isLive_of_get hg] at hd
      exact (h.setObj_dead (ob' := { ob with links := none }) hg hd (Or.inr rfl)).decWeakFree o true
    · exact h.fail _
  · exact h.fail _

theorem phase3One (h : FQ E s) (k : Nat) : FQ E (s.phase3One k) := by
  unfold State.phase3One
  split
  · split
    · exact h.decWeakFree k true
    · exact h
  · exact h.fail _

theorem foldl {α : Type} (g : State → α → State) (hg : ∀ s a, FQ E s → FQ E (g s a)) :
    ∀ (l : List α) (s : State), FQ E s → FQ E (l.foldl g s) := by
  intro l
  induction l with
  | nil => intro s h; exact h
  | cons a l ih => intro s h; exact ih (g s a) (hg s a h)

theorem dropFields (h : FQ E s) (hs ws : List Nat) : FQ E (s.dropFields hs ws) := by
  obtain ⟨fs, hfs⟩ := dropFields_eq_push s hs ws
  rw [hfs]; exact h.push fs

theorem dropVal (h : FQ E s) (v : Val) : FQ E (s.dropVal v) := h.of_heap rfl

end FQ

end Cactus
