import Cactus.Lemmas.History.Frames
/-!
# History lift of C09, part 8: `Rc::drop`, the paths that do not start a collection

Case analysis of the `rcDrop o` frame: dead target (no-op), last handle with an empty table,
last handle with a non-empty table (purge), plain decrement, decrement followed by a trace that
finds an external owner.  All of them run in lock-step and keep `Good`.  The remaining case (the
trace finds an orphaned group) is `Collect.lean`.
-/
namespace Cactus
open State

/-! ## the state in which the trace runs -/

/-- the trace branch of `Rc::drop` in a state satisfying the invariants: the four error exits are
dead code, what is left is the orphan test -/
theorem traceBranch_eq (s1 : State) (o : Nat) (hI : s1.InvCore) (ho : s1.isLive o = true) :
    s1.traceBranch o =
      if (cycleRefs s1 o).cmap.isEmpty = true ∨ hasExternalOwners s1 (cycleRefs s1 o).cmap = true
      then s1.emit (.traced o (cycleRefs s1 o).visited.length (cycleRefs s1 o).popped)
      else (s1.emit (.traced o (cycleRefs s1 o).visited.length (cycleRefs s1 o).popped)).dropCycle
        (cycleRefs s1 o).cmap := by
  obtain ⟨hbad, hfuel⟩ := cycleRefs_ok s1 o hI.1 hI.2.1 ho
  unfold State.traceBranch
  simp only [hbad, hfuel]
  generalize he : Ev.traced o (cycleRefs s1 o).visited.length (cycleRefs s1 o).popped = e
  have hI2 : (s1.emit e).InvCore := State.InvCore_emit hI e
  have hcr : cycleRefs (s1.emit e) o = cycleRefs s1 o := cycleRefs_emit s1 e o
  have ho2 : (s1.emit e).isLive o = true := ho
  have hfu := firstUnreadable_none (s1.emit e) o hI2.1 hI2.2.1 ho2
  rw [hcr] at hfu
  simp only [hfu]
  have hx : hasExternalOwners (s1.emit e) (cycleRefs s1 o).cmap
      = hasExternalOwners s1 (cycleRefs s1 o).cmap := rfl
  rw [hx]
  by_cases hemp : (cycleRefs s1 o).cmap.isEmpty = true
  · simp [hemp]
  · cases hext : hasExternalOwners s1 (cycleRefs s1 o).cmap <;> simp [hemp]

/-- everything we need about the state after the pop and the decrement -/
structure DecFacts (s1 : State) (o : Nat) : Prop where
  core : s1.InvCore
  rng : s1.InvR
  safe : s1.InvSCore
  err : s1.err = none
  fq : FQ noE s1
  live : s1.isLive o = true

theorem Good.decFacts {s : State} (hg : Good s) {o : Nat} {rest : List Frame} {ob : Obj} {n : Nat}
    (hst : s.stack = .rcDrop o :: rest) (hc : s.cell o = some ob) (hs : ob.strong = .cnt (n + 2)) :
    DecFacts (({ s with stack := rest } : State).setObj o { ob with strong := .cnt (n + 1) }) o := by
  have hsafe := hg.safe
  have hgo : s.heap[o]? = some ob := get_of_cell hc
  have hg0 : ({ s with stack := rest } : State).heap[o]? = some ob := hgo
  have hfr := freed_of_cell hc
  have hc0 : ({ s with stack := rest } : State).cell o = some ob := hc
  refine ⟨rcDrop_inv_dec_state hg.err hst (fun _ => hsafe.core) hc hs, ?_, ?_, hg.err, ?_, ?_⟩
  · exact (hsafe.rng.pop hst).setObj_of_cell _ hc0 (Or.inr rfl)
  · exact dec_InvSCore hg0 hs hfr (Cactus.pop_InvSCore hst hsafe.safe)
  · exact (hg.fq.of_heap (s' := { s with stack := rest }) rfl).setObj_keep hg0 rfl
      (fun hd => by rw [hs] at hd; cases hd) rfl rfl
  · rw [dec_isLive hg0 hs]
    show s.isLive o = true
    rw [isLive_of_get hgo, hfr, hs]; rfl

/-! ## unary leaves -/

section leaves
variable {s : State} (hg : Good s) {o : Nat} {rest : List Frame}
  (hst : s.stack = .rcDrop o :: rest)
include hg hst

theorem Good.step_rcDrop_eq : step s = ({ s with stack := rest } : State).rcDrop o := by
  simp [step, hg.err, hst]

theorem Good.rcDrop_cell : ∃ ob, s.cell o = some ob := by
  have hp : 0 < s.pend o := by rw [pend_pop_rcDrop hst o, if_pos rfl]; omega
  obtain ⟨ob, hc, -⟩ := hg.safe.cell_of_pend hp
  exact ⟨ob, hc⟩

theorem Good.ctl_pop : ({ s with stack := rest } : State).QuietCtl :=
  ⟨hg.ctl.vals, fun g hm => hg.ctl.stack g (by rw [hst]; exact List.mem_cons_of_mem _ hm), hg.ctl.unw⟩

/-- common part: reachable, no error -/
theorem Good.step_rcDrop_rc_err : ReachableC (step s) ∧ (step s).err = none :=
  ⟨.step hg.rc, by rw [hg.step_rcDrop_eq hst]; exact rcDrop_noerr hg.safe hst⟩

/-- (A) the target is already dead: nothing happens -/
theorem Good.step_rcDrop_dead {ob : Obj} (hc : s.cell o = some ob)
    (hd : ob.strong.isDead = true) :
    step s = ({ s with stack := rest } : State) ∧ Good (step s) := by
  have e : step s = ({ s with stack := rest } : State) := by
    rw [hg.step_rcDrop_eq hst]
    exact rcDrop_dead_noop _ o ob hc hd
  refine ⟨e, (hg.step_rcDrop_rc_err hst).1, (hg.step_rcDrop_rc_err hst).2, ?_, ?_⟩
  · rw [e]; exact hg.fq.of_heap rfl
  · rw [e]; exact hg.ctl_pop hst

/-- (D) plain decrement: other handles remain and the table is empty -/
theorem Good.step_rcDrop_dec_empty {ob : Obj} {n : Nat} {t : Table} (hc : s.cell o = some ob)
    (hs : ob.strong = .cnt (n + 2)) (hl : ob.links = some t) (hte : t.isEmpty = true) :
    step s = ({ s with stack := rest } : State).setObj o { ob with strong := .cnt (n + 1) }
    ∧ Good (step s) := by
  have e : step s = ({ s with stack := rest } : State).setObj o { ob with strong := .cnt (n + 1) } := by
    rw [hg.step_rcDrop_eq hst]
    exact rcDrop_eq_dec_empty _ o ob n t hc hs hl hte
  have hd := hg.decFacts hst hc hs
  refine ⟨e, (hg.step_rcDrop_rc_err hst).1, (hg.step_rcDrop_rc_err hst).2, ?_, ?_⟩
  · rw [e]; exact hd.fq
  · rw [e]; exact (hg.ctl_pop hst).of_eq rfl rfl rfl

/-- (E) decrement, trace, and the orphan test fails -/
theorem Good.step_rcDrop_trace_keep {ob : Obj} {n : Nat} {t : Table} (hc : s.cell o = some ob)
    (hs : ob.strong = .cnt (n + 2)) (hl : ob.links = some t) (hte : t.isEmpty = false)
    (hno : (cycleRefs (({ s with stack := rest } : State).setObj o { ob with strong := .cnt (n + 1) })
        o).cmap.isEmpty = true
      ∨ hasExternalOwners (({ s with stack := rest } : State).setObj o { ob with strong := .cnt (n + 1) })
        (cycleRefs (({ s with stack := rest } : State).setObj o { ob with strong := .cnt (n + 1) })
          o).cmap = true) :
    let s1 := ({ s with stack := rest } : State).setObj o { ob with strong := .cnt (n + 1) }
    step s = s1.emit (.traced o (cycleRefs s1 o).visited.length (cycleRefs s1 o).popped)
    ∧ Good (step s) := by
  intro s1
  have hd := hg.decFacts hst hc hs
  have e : step s = s1.emit (.traced o (cycleRefs s1 o).visited.length (cycleRefs s1 o).popped) := by
    rw [hg.step_rcDrop_eq hst,
      State.rcDrop_eq_traceBranch ({ s with stack := rest } : State) o ob n t hc hs hl hte,
      traceBranch_eq _ o hd.core hd.live, if_pos hno]
  refine ⟨e, (hg.step_rcDrop_rc_err hst).1, (hg.step_rcDrop_rc_err hst).2, ?_, ?_⟩
  · rw [e]; exact hd.fq.emit _
  · rw [e]; exact (hg.ctl_pop hst).of_eq rfl rfl rfl

/-- no live object records `o` when the frame holds the last handle -/
theorem Good.last_handle_unrecorded {ob : Obj} (hc : s.cell o = some ob)
    (hs : ob.strong = .cnt 1) : ∀ a, a ≠ o → s.isLive a = true → s.F a o = 0 :=
  no_record_of_unique hg.safe hg.fq hc hs (by
    have : 0 < s.pend o := by rw [pend_pop_rcDrop hst o, if_pos rfl]; omega
    omega)

/-- (B) last handle, empty table -/
theorem Good.step_rcDrop_single_empty {ob : Obj} {t : Table} (hc : s.cell o = some ob)
    (hs : ob.strong = .cnt 1) (hl : ob.links = some t) (hte : t.isEmpty = true) :
    step s = (({ s with stack := rest } : State).setObj o { ob with strong := .cnt 0 }).beginSingle o
    ∧ Good (step s) := by
  have hgo : s.heap[o]? = some ob := get_of_cell hc
  have hg0 : ({ s with stack := rest } : State).heap[o]? = some ob := hgo
  have hlt : o < ({ s with stack := rest } : State).heap.length := get_lt hgo
  have hfr := freed_of_cell hc
  have e : step s
      = (({ s with stack := rest } : State).setObj o { ob with strong := .cnt 0 }).beginSingle o := by
    rw [hg.step_rcDrop_eq hst]
    exact rcDrop_eq_single_empty _ o ob t hc hs hl hte
  obtain ⟨hvS, -, -, -⟩ := (hg.safe.invO o ob hgo).1 0 hs
  obtain ⟨v, hv⟩ := Option.isSome_iff_exists.1 hvS
  have hc1 : (({ s with stack := rest } : State).setObj o { ob with strong := .cnt 0 }).cell o
      = some { ob with strong := .cnt 0 } := by
    rw [cell_setObj_same' _ hlt]; simp [hfr]
  have hfq1 : FQ noE (({ s with stack := rest } : State).setObj o { ob with strong := .cnt 0 }) :=
    (hg.fq.of_heap (s' := { s with stack := rest }) rfl).setObj_dead hg0 (by simp) (Or.inr rfl)
  refine ⟨e, (hg.step_rcDrop_rc_err hst).1, (hg.step_rcDrop_rc_err hst).2, ?_, ?_⟩
  · rw [e]; exact hfq1.beginSingle o
  · rw [e, beginSingle_of_cnt hc1 rfl (v := v) hv]
    refine (hg.ctl_pop hst).of_push [.dropVal v, .finishSingle o] ?_ (fun w hw => hw) rfl rfl
    intro g hgm
    simp only [List.mem_cons, List.mem_nil_iff, or_false] at hgm
    rcases hgm with rfl | rfl
    · exact hg.fq.quiet o ob v hgo hv
    · trivial

/-- (C) last handle, non-empty table: purge the peers first -/
theorem Good.step_rcDrop_single_purge {ob : Obj} {t : Table} (hc : s.cell o = some ob)
    (hs : ob.strong = .cnt 1) (hl : ob.links = some t) (hte : t.isEmpty = false) :
    step s = ((({ s with stack := rest } : State).setObj o { ob with strong := .cnt 0 }).purgePeers
      o).beginSingle o
    ∧ Good (step s) := by
  have hgo : s.heap[o]? = some ob := get_of_cell hc
  have hg0 : ({ s with stack := rest } : State).heap[o]? = some ob := hgo
  have hlt : o < ({ s with stack := rest } : State).heap.length := get_lt hgo
  have hfr := freed_of_cell hc
  have hsafe := hg.safe
  have e : step s = ((({ s with stack := rest } : State).setObj o
      { ob with strong := .cnt 0 }).purgePeers o).beginSingle o := by
    rw [hg.step_rcDrop_eq hst]
    exact rcDrop_eq_single_purge _ o ob t hc hs hl hte
  obtain ⟨hvS, -, -, -⟩ := (hsafe.invO o ob hgo).1 0 hs
  obtain ⟨v, hv⟩ := Option.isSome_iff_exists.1 hvS
  have hlive : s.isLive o = true := by rw [isLive_of_get hgo]; simp [hfr, hs]
  have hc1 : (({ s with stack := rest } : State).setObj o { ob with strong := .cnt 0 }).cell o
      = some { ob with strong := .cnt 0 } := by
    rw [cell_setObj_same' _ hlt]; simp [hfr]
  have ht : s.tableOf o = some t := by rw [tableOf_of_get hgo]; simp [hfr, hl]
  have hT : ∀ p, (({ s with stack := rest } : State).setObj o { ob with strong := .cnt 0 }).tableOf p
      = s.tableOf p := by
    intro p
    rw [tableOf_setObj_of_links_eq (s := ({ s with stack := rest } : State))
      (ob' := { ob with strong := .cnt 0 }) hgo rfl rfl p]
    rfl
  have herr1 : (({ s with stack := rest } : State).setObj o { ob with strong := .cnt 0 }).err = none :=
    hg.err
  have hfq1 : FQ noE (({ s with stack := rest } : State).setObj o { ob with strong := .cnt 0 }) :=
    (hg.fq.of_heap (s' := { s with stack := rest }) rfl).setObj_dead hg0 (by simp) (Or.inr rfl)
  have hdead1 : (({ s with stack := rest } : State).setObj o { ob with strong := .cnt 0 }).isLive o
      = false := by
    rw [isLive_setObj_same _ hlt]; simp
  have hFx : ∀ a, a ≠ o →
      (({ s with stack := rest } : State).setObj o { ob with strong := .cnt 0 }).isLive a = true →
      (({ s with stack := rest } : State).setObj o { ob with strong := .cnt 0 }).F a o = 0 := by
    intro a hao hla
    rw [isLive_setObj_other _ _ hao] at hla
    rw [F_setObj_other _ _ hao]
    exact hg.last_handle_unrecorded hst hc hs a hao hla
  have hfq2 := hfq1.purgePeers hsafe.invO hsafe.invB hlive hT herr1 (Or.inr hdead1) hFx
  obtain ⟨-, -, -, hLO⟩ := purgePeers_of_InvB hsafe.invO hsafe.invB hlive hT ht herr1
  obtain ⟨ob2, hg2, q1, -, q3, q4, -⟩ := hLO.obj o _ (get_of_cell hc1)
  have hc2 := cell_of_not_freed hg2 (q4.trans hfr)
  refine ⟨e, (hg.step_rcDrop_rc_err hst).1, (hg.step_rcDrop_rc_err hst).2, ?_, ?_⟩
  · rw [e]; exact hfq2.beginSingle o
  · rw [e, beginSingle_of_cnt hc2 q1 (v := v) (q3.trans hv)]
    refine (hg.ctl_pop hst).of_push [.dropVal v, .finishSingle o] ?_ ?_ ?_ ?_
    · intro g hgm
      simp only [List.mem_cons, List.mem_nil_iff, or_false] at hgm
      rcases hgm with rfl | rfl
      · exact hg.fq.quiet o ob v hgo hv
      · trivial
    · intro w hw
      simpa using hw
    · simp [State.push]
    · simp

end leaves

end Cactus
