import Cactus.Lemmas.History.Drain
import Cactus.Lemmas.Once
/-!
# C09 for whole histories: what a program destroys, and every count observable afterwards, do not
depend on the layout

`history_layout_independent`: two histories of a fully recorded, quiet program that differ only in
layout — `shuffle` pseudo-operations inserted anywhere (the order of the entries inside link
tables) and arbitrary hints (the order in which the values of a collected group are destroyed) —
end, if the first one ends without error, both without error, in states that agree up to the
order of table entries, the order of the events in the log, and the hint.
-/
namespace Cactus
open State

/-- same program, possibly different layouts: the two histories are equal after deleting every
`shuffle` pseudo-operation, and the hints are arbitrary -/
inductive SameProgram : List (Op × List Nat) → List (Op × List Nat) → Prop
  | nil : SameProgram [] []
  | op {a b : List (Op × List Nat)} (o : Op) (h1 h2 : List Nat) : (∀ q i, o ≠ .shuffle q i) →
      SameProgram a b → SameProgram ((o, h1) :: a) ((o, h2) :: b)
  | shuffleL {a b : List (Op × List Nat)} (q i : Nat) (h : List Nat) : SameProgram a b →
      SameProgram ((.shuffle q i, h) :: a) b
  | shuffleR {a b : List (Op × List Nat)} (q i : Nat) (h : List Nat) : SameProgram a b →
      SameProgram a ((.shuffle q i, h) :: b)

/-- running a list of operations from any state -/
def runFrom (fuel : Nat) (s : State) (ops : List (Op × List Nat)) : State :=
  ops.foldl (fun s oh => execOp fuel s oh.1 oh.2) s

theorem run_eq_runFrom (ops : List (Op × List Nat)) : run ops = runFrom defaultFuel {} ops := rfl

theorem runFrom_cons (fuel : Nat) (s : State) (oh : Op × List Nat) (ops : List (Op × List Nat)) :
    runFrom fuel s (oh :: ops) = runFrom fuel (execOp fuel s oh.1 oh.2) ops := rfl

/-- errors are sticky along a history -/
theorem runFrom_err_none (fuel : Nat) (ops : List (Op × List Nat)) (s : State)
    (h : (runFrom fuel s ops).err = none) : s.err = none := by
  induction ops generalizing s with
  | nil => exact h
  | cons oh ops ih =>
    rw [runFrom_cons] at h
    have h1 := ih _ h
    cases he : s.err with
    | none => rfl
    | some e =>
      have : execOp fuel s oh.1 oh.2 = s := by simp [execOp, he]
      rw [this, he] at h1
      exact h1

/-- the induction over `SameProgram`, from any pair of corresponding quiescent stable points -/
theorem runFrom_sim (fuel : Nat) {ops1 ops2 : List (Op × List Nat)} (hsame : SameProgram ops1 ops2) :
    ∀ (s s' : State), (∀ oh ∈ ops1, oh.1.fullQuiet) → Sim s s' → s.stack = [] →
      (runFrom fuel s ops1).err = none →
      (runFrom fuel s' ops2).err = none ∧ Sim (runFrom fuel s ops1) (runFrom fuel s' ops2) := by
  induction hsame with
  | nil => intro s s' _ h _ _; exact ⟨h.good'.err, h⟩
  | @op a b o h1 h2 _ _ ih =>
    intro s s' hfq h hq he
    rw [runFrom_cons] at he ⊢
    rw [runFrom_cons]
    have he1 := runFrom_err_none fuel a _ he
    obtain ⟨-, hsim, hq1⟩ := execOp_sim fuel h hq o (hfq (o, h1) List.mem_cons_self) h1 h2 he1
    exact ih _ _ (fun oh hm => hfq oh (List.mem_cons_of_mem _ hm)) hsim hq1 he
  | @shuffleL a b q i hint _ ih =>
    intro s s' hfq h hq he
    rw [runFrom_cons] at he ⊢
    obtain ⟨g1, l1, q1⟩ := execOp_shuffle fuel h.good hq q i hint
    exact ih _ _ (fun oh hm => hfq oh (List.mem_cons_of_mem _ hm)) ⟨l1.trans h.leq, g1, h.good'⟩ q1 he
  | @shuffleR a b q i hint _ ih =>
    intro s s' hfq h hq he
    rw [runFrom_cons]
    have hq' : s'.stack = [] := by rw [← h.leq.stack]; exact hq
    obtain ⟨g1, l1, -⟩ := execOp_shuffle fuel h.good' hq' q i hint
    exact ih _ _ hfq ⟨h.leq.trans l1.symm, h.good, g1⟩ hq he

/-- **C09 for whole histories.**  Two histories that are the same program of `fullQuiet`
operations up to layout (`SameProgram`: `shuffle`s inserted or deleted anywhere, arbitrary hints):
if the first ends without error then so does the second, and the final states agree up to the
order of table entries, the order of log events and the hint.

No hypothesis on the second run is needed: in a state satisfying the invariants a `shuffle`
cannot fail (`Safe.badRoot_eq`: every root handle designates a live object), and the two runs take
the *same number of machine steps* in every operation, so run 2 does not run out of fuel if run 1
does not. -/
theorem history_layout_independent (ops1 ops2 : List (Op × List Nat))
    (hsame : SameProgram ops1 ops2)
    (hfq : ∀ oh ∈ ops1, oh.1.fullQuiet)
    (he1 : (run ops1).err = none) :
    (run ops2).err = none ∧ (run ops1).LayoutEqL (run ops2) := by
  obtain ⟨h1, h2⟩ := runFrom_sim defaultFuel hsame {} {} hfq
    ⟨LayoutEqL.refl _, Good.init, Good.init⟩ rfl he1
  exact ⟨h1, h2.leq⟩

/-- the same for every fuel (the theorem does not depend on `defaultFuel`) -/
theorem history_layout_independent_fuel (fuel : Nat) (ops1 ops2 : List (Op × List Nat))
    (hsame : SameProgram ops1 ops2)
    (hfq : ∀ oh ∈ ops1, oh.1.fullQuiet)
    (he1 : (runFrom fuel {} ops1).err = none) :
    (runFrom fuel {} ops2).err = none ∧ (runFrom fuel {} ops1).LayoutEqL (runFrom fuel {} ops2) := by
  obtain ⟨h1, h2⟩ := runFrom_sim fuel hsame {} {} hfq
    ⟨LayoutEqL.refl _, Good.init, Good.init⟩ rfl he1
  exact ⟨h1, h2.leq⟩

/-! ## the content, made explicit -/

section corollaries
variable (ops1 ops2 : List (Op × List Nat)) (hsame : SameProgram ops1 ops2)
  (hfq : ∀ oh ∈ ops1, oh.1.fullQuiet) (he1 : (run ops1).err = none)
include hsame hfq he1

/-- every strong count observable afterwards is the same -/
theorem history_strong_counts (o : Nat) : (run ops1).strongNat o = (run ops2).strongNat o :=
  (history_layout_independent ops1 ops2 hsame hfq he1).2.strongNat_eq o

/-- every weak count observable afterwards is the same -/
theorem history_weak_counts (o : Nat) : (run ops1).weakNat o = (run ops2).weakNat o :=
  (history_layout_independent ops1 ops2 hsame hfq he1).2.weakNat_eq o

/-- the same objects are live -/
theorem history_live (o : Nat) : (run ops1).isLive o = (run ops2).isLive o :=
  (history_layout_independent ops1 ops2 hsame hfq he1).2.isLive_eq o

/-- the same allocations have been released, and the same values are still stored -/
theorem history_freed_value (o : Nat) :
    ((run ops1).heap[o]?).map (·.freed) = ((run ops2).heap[o]?).map (·.freed)
    ∧ ((run ops1).heap[o]?).map (·.value) = ((run ops2).heap[o]?).map (·.value) := by
  have h := (history_layout_independent ops1 ops2 hsame hfq he1).2
  rcases h.heap_cases o with ⟨h1, h2⟩ | ⟨a, b, h1, h2, hab⟩
  · rw [h1, h2]; exact ⟨rfl, rfl⟩
  · rw [h1, h2]
    simp only [Option.map_some, hab.freed, hab.value]
    exact ⟨trivial, trivial⟩

/-- every recorded adoption count is the same (the tables agree as maps) -/
theorem history_tables (a : Nat) (l : Link) :
    ((run ops1).tbl a).get l = ((run ops2).tbl a).get l := by
  have h := (history_layout_independent ops1 ops2 hsame hfq he1).2
  have hrc : ReachableC (run ops1) :=
    run_reachableC ops1 (fun oh hm => (hfq oh hm).respects)
  have hB := (reachable_core hrc.reachable he1).1.2.1
  exact Table.get_perm _ _ (State.tbl_WF hB a) (h.tbl_perm a) l

/-- the program's handle tables are equal -/
theorem history_handles :
    (run ops1).roots = (run ops2).roots ∧ (run ops1).wroots = (run ops2).wroots
    ∧ (run ops1).vals = (run ops2).vals ∧ (run ops1).raws = (run ops2).raws :=
  let h := (history_layout_independent ops1 ops2 hsame hfq he1).2
  ⟨h.roots, h.wroots, h.vals, h.raws⟩

/-- **the same values are destroyed** (as a multiset; the order inside one collected group is the
one thing a layout may change) -/
theorem history_destroyed : (run ops1).destroyedVids.Perm (run ops2).destroyedVids := by
  have h := (history_layout_independent ops1 ops2 hsame hfq he1).2
  unfold State.destroyedVids
  exact h.log.filterMap _

/-- the same allocations are released -/
theorem history_freedIds : (run ops1).freedIds.Perm (run ops2).freedIds := by
  have h := (history_layout_independent ops1 ops2 hsame hfq he1).2
  unfold State.freedIds
  exact h.log.filterMap _

/-- the whole logs are permutations of each other: the same return values, the same `traced`
events, the same destructions and releases -/
theorem history_log : (run ops1).log.Perm (run ops2).log :=
  (history_layout_independent ops1 ops2 hsame hfq he1).2.log

end corollaries

end Cactus
