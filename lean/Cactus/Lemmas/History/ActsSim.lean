import Cactus.Lemmas.History.Acts
/-!
# History lift of C09, part 5: the actions run in lock-step on layout-equal states

`applyAct_sim`: for every `fullQuiet` action, `LayoutEqL s s' → LayoutEqL (applyAct s a)
(applyAct s' a)`.  The purge loop (`try_unwrap`, and later `Rc::drop`) folds over a table in table
order; its effect on every peer table is characterised by its counts (`purgePeers_of_InvB`), so
the two results agree up to the order of entries (`Table.perm_of_get_eq`).
-/
namespace Cactus
open State

/-- the second object is the first one with another table -/
theorem Obj.LayoutEq.exists_eq {a b : Obj} (h : Obj.LayoutEq a b) :
    ∃ l', LinksEq a.links l' ∧ b = { a with links := l' } := by
  refine ⟨b.links, h.links, ?_⟩
  cases a; cases b
  have h1 := h.strong; have h2 := h.weak; have h3 := h.value; have h4 := h.freed
  have h5 := h.implicit
  simp only at h1 h2 h3 h4 h5
  subst h1 h2 h3 h4 h5
  rfl

/-- all readable tables are well formed -/
def State.TablesWF (s : State) : Prop := ∀ o t, s.tableOf o = some t → t.WF

theorem State.TablesWF.of_InvB {s : State} (h : s.InvB) : s.TablesWF := fun o t ht => (h.1 o t ht).1

theorem State.TablesWF.setLinks {s : State} (h : s.TablesWF) (o : Nat) (f : Table → Table)
    (hf : ∀ t, t.WF → (f t).WF) : (s.setLinks o f).TablesWF := by
  intro x t ht
  rw [tableOf_setLinks] at ht
  split at ht
  · cases hto : s.tableOf o with
    | none => rw [hto] at ht; cases ht
    | some t0 =>
      rw [hto] at ht
      simp only [Option.map_some, Option.some.injEq] at ht
      subst ht
      exact hf t0 (h o t0 hto)
  · exact h x t ht

theorem State.TablesWF.of_tableOf_eq {s s' : State} (h : s.TablesWF)
    (ht : ∀ o, s'.tableOf o = s.tableOf o) : s'.TablesWF := fun o t hto => h o t (ht o ▸ hto)

namespace State.LayoutEqL

section
variable {s s' : State} (h : s.LayoutEqL s')
include h

/-- a table update by a function that respects permutations of well-formed tables -/
theorem setLinks_of (hW : s.TablesWF) (o : Nat) (f : Table → Table)
    (hf : ∀ t t', t.WF → t.Perm t' → (f t).Perm (f t')) :
    (s.setLinks o f).LayoutEqL (s'.setLinks o f) := by
  apply h.setLinks o f f
  intro t t' ht ht'
  rcases h.tableOf_cases o with ⟨h1, -⟩ | ⟨t0, t0', h1, h2, hp⟩
  · rw [h1] at ht; cases ht
  · rw [h1] at ht; rw [h2] at ht'
    cases ht; cases ht'
    exact hf t t' (hW o t h1) hp

theorem adopt (hW : s.TablesWF) (a b : Nat) (same : Bool) :
    (s.adopt a b same).LayoutEqL (s'.adopt a b same) := by
  unfold State.adopt
  split
  · exact h.setLinks_of hW a _ (fun t t' hw hp => Table.insert_perm t t' hw hp _)
  · exact (h.setLinks_of hW a _ (fun t t' hw hp => Table.insert_perm t t' hw hp _)).setLinks_of
      (hW.setLinks a _ (fun t hw => Table.WF_insert t hw _)) b _
      (fun t t' hw hp => Table.insert_perm t t' hw hp _)

theorem unadopt (hW : s.TablesWF) (a b : Nat) (same : Bool) :
    (s.unadopt a b same).LayoutEqL (s'.unadopt a b same) := by
  unfold State.unadopt
  split
  · exact h.setLinks_of hW a _ (fun t t' hw hp => Table.remove_perm t t' hw hp _ _)
  · exact (h.setLinks_of hW a _ (fun t t' hw hp => Table.remove_perm t t' hw hp _ _)).setLinks_of
      (hW.setLinks a _ (fun t hw => Table.WF_remove t hw _ _)) b _
      (fun t t' hw hp => Table.remove_perm t t' hw hp _ _)

end

/-- **the purge loop does not depend on the order of the table it iterates over** -/
theorem purgePeers {u u' s1 s1' : State} {x : Nat} (h : s1.LayoutEqL s1')
    (hO : u.InvO) (hB : u.InvB) (hx : u.isLive x = true) (hT : ∀ p, s1.tableOf p = u.tableOf p)
    (hO' : u'.InvO) (hB' : u'.InvB) (hx' : u'.isLive x = true)
    (hT' : ∀ p, s1'.tableOf p = u'.tableOf p)
    (herr : s1.err = none) :
    (s1.purgePeers x).LayoutEqL (s1'.purgePeers x) := by
  have herr' : s1'.err = none := by rw [← h.err]; exact herr
  obtain ⟨t, ht⟩ := live_tableOf hO hx
  obtain ⟨t', ht'⟩ := live_tableOf hO' hx'
  obtain ⟨e1, c2, c3, hLO⟩ := purgePeers_of_InvB hO hB hx hT ht herr
  obtain ⟨e1', c2', c3', hLO'⟩ := purgePeers_of_InvB hO' hB' hx' hT' ht' herr'
  refine ⟨⟨by rw [hLO.heap_length, hLO'.heap_length, h.heap.1], ?_⟩, by rw [hLO.roots, hLO'.roots, h.roots],
    by rw [hLO.wroots, hLO'.wroots, h.wroots], by rw [hLO.vals, hLO'.vals, h.vals],
    by rw [hLO.raws, hLO'.raws, h.raws], by rw [hLO.stack, hLO'.stack, h.stack],
    by rw [hLO.log, hLO'.log]; exact h.log, by rw [e1, e1'],
    by rw [hLO.unwinding, hLO'.unwinding, h.unwinding], by rw [hLO.nextVid, hLO'.nextVid, h.nextVid]⟩
  intro i a2 b2 ha2 hb2
  have hlt : i < s1.heap.length := by rw [← hLO.heap_length]; exact get_lt ha2
  have hlt' : i < s1'.heap.length := by rw [← hLO'.heap_length]; exact get_lt hb2
  obtain ⟨a, hga⟩ : ∃ a, s1.heap[i]? = some a := ⟨_, List.getElem?_eq_getElem hlt⟩
  obtain ⟨b, hgb⟩ : ∃ b, s1'.heap[i]? = some b := ⟨_, List.getElem?_eq_getElem hlt'⟩
  have hab := h.heap.2 i a b hga hgb
  obtain ⟨a2', hg2, q⟩ := hLO.obj i a hga
  obtain ⟨b2', hg2', q'⟩ := hLO'.obj i b hgb
  rw [ha2] at hg2; cases hg2
  rw [hb2] at hg2'; cases hg2'
  obtain ⟨q1, q2, q3, q4, q5, q6, q7⟩ := q
  obtain ⟨r1, r2, r3, r4, r5, r6, r7⟩ := q'
  refine ⟨by rw [q1, r1, hab.strong], by rw [q2, r2, hab.weak], by rw [q3, r3, hab.value],
    by rw [q4, r4, hab.freed], by rw [q5, r5, hab.implicit], ?_⟩
  -- the tables
  cases hfa : a.freed with
  | true =>
    have hfb : b.freed = true := by rw [← hab.freed]; exact hfa
    rw [q7 hfa, r7 hfb]; exact hab.links
  | false =>
    have hfb : b.freed = false := by rw [← hab.freed]; exact hfa
    have hfa2 : a2.freed = false := q4.trans hfa
    have hfb2 : b2.freed = false := r4.trans hfb
    have ta2 : (s1.purgePeers x).tableOf i = a2.links := by rw [tableOf_of_get ha2, hfa2]; rfl
    have tb2 : (s1'.purgePeers x).tableOf i = b2.links := by rw [tableOf_of_get hb2, hfb2]; rfl
    by_cases hix : i = x
    · subst hix
      rw [← ta2, ← tb2, c2, c2']
      exact List.Perm.refl _
    · obtain ⟨n1, s1spec⟩ := c3 i hix
      obtain ⟨n1', s1spec'⟩ := c3' i hix
      rcases h.tableOf_cases i with ⟨k1, k2⟩ | ⟨tp, tp', k1, k2, hp⟩
      · rw [hT] at k1; rw [hT'] at k2
        rw [← ta2, ← tb2, n1.mpr k1, n1'.mpr k2]
        trivial
      · rw [hT] at k1; rw [hT'] at k2
        obtain ⟨tq, f1, w1, z1, z2, g1, -⟩ := s1spec tp k1
        obtain ⟨tq', f1', w1', z1', z2', g1', -⟩ := s1spec' tp' k2
        rw [← ta2, ← tb2, f1, f1']
        show tq.Perm tq'
        apply Table.perm_of_get_eq tq tq' w1 w1'
        intro l
        have hwtp : tp.WF := (hB.1 i tp k1).1
        by_cases hl1 : l = ⟨x, .fwd⟩
        · subst hl1; rw [z1, z1']
        · by_cases hl2 : l = ⟨x, .bwd⟩
          · subst hl2; rw [z2, z2']
          · rw [g1 l hl1 hl2, g1' l hl1 hl2, Table.get_perm tp tp' hwtp hp]

theorem giveUp {s s' : State} {o : Nat} (h : s.LayoutEqL s')
    (hO : s.InvO) (hB : s.InvB) (hO' : s'.InvO) (hB' : s'.InvB)
    (ho : s.isLive o = true) (herr : s.err = none) :
    (s.giveUp o).LayoutEqL (s'.giveUp o) := by
  have ho' : s'.isLive o = true := by rw [← h.isLive_eq]; exact ho
  have h1 := LayoutEqL.purgePeers h hO hB ho (fun _ => rfl) hO' hB' ho' (fun _ => rfl) herr
  unfold State.giveUp
  rcases h1.cell_cases o with ⟨k1, k2⟩ | ⟨a, b, k1, k2, hab⟩
  · rw [k1, k2]; exact h1.fail _
  · rw [k1, k2]
    exact (h1.setObj o (by exact ⟨rfl, hab.weak, rfl, hab.freed, hab.implicit,
      LinksEq.refl none⟩)).decWeakFree o true

end State.LayoutEqL

/-! ## the actions -/

theorem applyAct_sim {s s' : State} (h : s.LayoutEqL s') (hs : s.Safe) (hs' : s'.Safe)
    (fh fw : List Nat) (a : Act) (ha : a.fullQuiet) :
    (applyAct s fh fw a).LayoutEqL (applyAct s' fh fw a) := by
  have hW : s.TablesWF := State.TablesWF.of_InvB hs.invB
  cases a with
  | new =>
    simp only [applyAct]
    rw [← h.nextVid, ← h.heap.1]
    generalize ({ vid := s.nextVid, held := [], weaks := [], script := [], panics := false } : Val)
      = v
    have h1 := (h.alloc v).withRoots (r := s.roots ++ [s.heap.length])
      (r' := s'.roots ++ [s.heap.length]) (by rw [h.roots])
    exact h1.withNextVid rfl
  | clone r =>
    simp only [applyAct]
    rw [← h.useRoot_eq r]
    cases s.useRoot r with
    | none => exact h.badRoot r
    | some o => exact (h.incStrong o).withRoots (by simp [h.roots])
  | drop r =>
    simp only [applyAct]
    rw [← h.useRoot_eq r, ← h.roots]
    cases s.useRoot r with
    | none => exact h.badRoot r
    | some o => exact (h.withRoots rfl).push _
  | link r q =>
    simp only [applyAct]
    rw [← h.useRoot_eq r, ← h.useRoot_eq q, ← h.roots]
    cases s.useRoot r with
    | none => exact (h.badRoot r).badRoot q
    | some t =>
      cases s.useRoot q with
      | none => exact (h.badRoot r).badRoot q
      | some o =>
        dsimp only
        split
        · exact h
        · exact ((h.adopt hW o t false).withRoots (by simp [h.roots])).modVal o _
  | unlink q k =>
    simp only [applyAct]
    rw [← h.useRoot_eq q]
    cases hu : s.useRoot q with
    | none => exact h.badRoot q
    | some o =>
      dsimp only
      rw [← h.valOf_eq]
      cases s.valOf o with
      | none => exact h.fail _
      | some v =>
        dsimp only
        cases nthMod v.held k with
        | none => exact h
        | some t =>
          dsimp only
          have h1 := h.modVal o (fun v => { v with held := v.held.eraseIdx (idxMod v.held k) })
          rw [← h1.isLive_eq t]
          have hW1 : (s.modVal o
              (fun v => { v with held := v.held.eraseIdx (idxMod v.held k) })).TablesWF :=
            hW.of_tableOf_eq (fun _ => tableOf_modVal _ _ _ _)
          split
          · exact (h1.unadopt hW1 o t false).withRoots (by simp [h.roots])
          · exact (h1.fail _).withRoots (by simp [h.roots])
  | downgrade r =>
    simp only [applyAct]
    rw [← h.useRoot_eq r]
    cases s.useRoot r with
    | none => exact h.badRoot r
    | some o => exact (h.incWeak o).withWroots (by simp [h.wroots])
  | upgrade w =>
    simp only [applyAct]
    rw [← h.wroots]
    cases nthMod s.wroots w with
    | none => exact h
    | some o =>
      dsimp only
      rcases h.cell_cases o with ⟨k1, k2⟩ | ⟨a, b, k1, k2, hab⟩
      · rw [k1, k2]; exact h.fail _
      · rw [k1, k2]
        dsimp only
        rw [← hab.strong]
        split
        · exact h.emit _
        · exact ((h.incStrong o).emit _).withRoots (by simp [h.roots])
  | cloneWeak w =>
    simp only [applyAct]
    rw [← h.wroots]
    cases nthMod s.wroots w with
    | none => exact h
    | some o => exact (h.incWeak o).withWroots (by simp [h.wroots])
  | dropWeak w =>
    simp only [applyAct]
    rw [← h.wroots]
    cases nthMod s.wroots w with
    | none => exact h
    | some o => exact (h.withWroots rfl).push _
  | storeWeak w q =>
    simp only [applyAct]
    rw [← h.wroots, ← h.useRoot_eq q]
    cases nthMod s.wroots w with
    | none => exact h
    | some t =>
      cases s.useRoot q with
      | none => exact h.badRoot q
      | some o => exact (h.withWroots rfl).modVal o _
  | tryUnwrap r =>
    simp only [applyAct]
    rw [← h.useRoot_eq r, ← h.roots, ← h.vals]
    cases hu : s.useRoot r with
    | none => exact h.badRoot r
    | some o =>
      dsimp only
      rcases h.cell_cases o with ⟨k1, k2⟩ | ⟨a, b, k1, k2, hab⟩
      · rw [k1, k2]; exact h.fail _
      · rw [k1, k2]
        dsimp only
        rw [← hab.strong, ← hab.value]
        split
        · rename_i v hst hv
          refine LayoutEqL.emit ?_ _
          have h1 : ({ s with roots := s.roots.eraseIdx (idxMod s.roots r),
                              vals := s.vals ++ [v] } : State).LayoutEqL
              { s' with roots := s.roots.eraseIdx (idxMod s.roots r), vals := s.vals ++ [v] } :=
            (h.withRoots (r := s.roots.eraseIdx (idxMod s.roots r)) rfl).withVals rfl
          exact LayoutEqL.giveUp h1 (InvO_of_heap_eq rfl hs.invO) (InvB_of_heap_eq rfl hs.invB)
            (InvO_of_heap_eq rfl hs'.invO) (InvB_of_heap_eq rfl hs'.invB) (useRoot_some hu).2 hs.err
        · exact h.fail _
        · exact h.emit _
  | dropValue i =>
    simp only [applyAct]
    rw [← h.vals]
    cases nthMod s.vals i with
    | none => exact h
    | some v => exact (h.withVals rfl).push _
  | getMut r =>
    simp only [applyAct]
    rw [← h.useRoot_eq r]
    cases s.useRoot r with
    | none => exact h.badRoot r
    | some o =>
      dsimp only
      rcases h.cell_cases o with ⟨k1, k2⟩ | ⟨a, b, k1, k2, hab⟩
      · rw [k1, k2]; exact h.fail _
      · rw [k1, k2]
        dsimp only
        rw [← hab.strong, ← hab.weak]
        exact h.emit _
  | intoRaw r =>
    simp only [applyAct]
    rw [← h.useRoot_eq r, ← h.roots, ← h.raws]
    cases s.useRoot r with
    | none => exact h.badRoot r
    | some o =>
      exact (h.withRoots (r := s.roots.eraseIdx (idxMod s.roots r)) rfl).withRaws rfl
  | fromRaw i =>
    simp only [applyAct]
    rw [← h.roots, ← h.raws]
    cases nthMod s.raws i with
    | none => exact h
    | some o =>
      exact (h.withRaws (r := s.raws.eraseIdx (idxMod s.raws i)) rfl).withRoots rfl
  | incStrong i =>
    simp only [applyAct]
    rw [← h.raws]
    cases nthMod s.raws i with
    | none => exact h
    | some o =>
      dsimp only
      rw [← h.isLive_eq o]
      split
      · exact (h.incStrong o).withRaws (by simp [h.raws])
      · exact h.fail _
  | decStrong i =>
    simp only [applyAct]
    rw [← h.raws]
    cases nthMod s.raws i with
    | none => exact h
    | some o =>
      dsimp only
      rw [← h.isLive_eq o]
      split
      · exact (h.withRaws rfl).push _
      · exact h.fail _
  | ptrEq r1 r2 =>
    simp only [applyAct]
    rw [← h.useRoot_eq r1, ← h.useRoot_eq r2]
    cases s.useRoot r1 with
    | none => exact (h.badRoot r1).badRoot r2
    | some a =>
      cases s.useRoot r2 with
      | none => exact (h.badRoot r1).badRoot r2
      | some b => exact h.emit _
  | counts r =>
    simp only [applyAct]
    rw [← h.useRoot_eq r]
    cases s.useRoot r with
    | none => exact h.badRoot r
    | some o =>
      dsimp only
      rcases h.cell_cases o with ⟨k1, k2⟩ | ⟨a, b, k1, k2, hab⟩
      · rw [k1, k2]; exact h.fail _
      · rw [k1, k2]
        dsimp only
        rw [← hab.strong, ← hab.weak]
        exact (h.emit _).emit _
  | wcounts w =>
    simp only [applyAct]
    rw [← h.wroots]
    cases nthMod s.wroots w with
    | none => exact h
    | some o =>
      dsimp only
      rcases h.cell_cases o with ⟨k1, k2⟩ | ⟨a, b, k1, k2, hab⟩
      · rw [k1, k2]; exact h.fail _
      · rw [k1, k2]
        dsimp only
        rw [← hab.strong, ← hab.weak]
        split <;> exact (h.emit _).emit _
  | adopt _ _ => exact absurd ha id
  | unadopt _ _ => exact absurd ha id
  | store _ _ => exact absurd ha id
  | take _ _ => exact absurd ha id
  | makeMut _ => exact absurd ha id
  | setPanic _ => exact absurd ha id
  | setShallow _ => exact absurd ha id
  | upgradeField _ => exact absurd ha id
  | cloneField _ => exact absurd ha id
  | downgradeField _ => exact absurd ha id

end Cactus
