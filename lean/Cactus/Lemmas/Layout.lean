import Cactus.Lemmas.Final
/-!
# C09 — what an operation destroys does not depend on addresses or table order (decision level)

Layout enters the model only through (a) the order of entries inside a link table and (b) the
`hint` (the order in which the values of a collected group are destroyed).  `State.LayoutEq`
relates two states that differ in nothing else.  On such states all counting functions agree, the
structural invariants transfer, the reachability trace visits the same *set* of objects, builds a
map with the same key set and the same counts, and therefore the orphan test takes the same
decision and selects the same group.  Under `Full` the values of a collected group hold strong
handles to members of the group only.
-/
namespace Cactus
open State

/-! ## the relation -/

/-- two `links` cells agree up to the order of the entries -/
def LinksEq : Option Table → Option Table → Prop
  | none, none => True
  | some t, some t' => t.Perm t'
  | _, _ => False

theorem LinksEq.refl (l : Option Table) : LinksEq l l := by
  cases l with
  | none => trivial
  | some t => exact List.Perm.refl t

theorem LinksEq.symm {l l' : Option Table} (h : LinksEq l l') : LinksEq l' l := by
  cases l <;> cases l' <;> simp only [LinksEq] at h ⊢
  exact h.symm

theorem LinksEq.trans {l l' l'' : Option Table} (h : LinksEq l l') (h' : LinksEq l' l'') :
    LinksEq l l'' := by
  cases l <;> cases l' <;> cases l'' <;> simp only [LinksEq] at h h' ⊢
  exact h.trans h'

theorem LinksEq.isSome {l l' : Option Table} (h : LinksEq l l') : l.isSome = l'.isSome := by
  cases l <;> cases l' <;> simp only [LinksEq] at h <;> rfl

theorem LinksEq.none_iff {l l' : Option Table} (h : LinksEq l l') : l = none ↔ l' = none := by
  cases l <;> cases l' <;> simp only [LinksEq] at h <;> simp

theorem LinksEq.nil_iff {l l' : Option Table} (h : LinksEq l l') : l = some [] ↔ l' = some [] := by
  cases l <;> cases l' <;> simp only [LinksEq] at h
  · simp
  · simp only [Option.some.injEq]
    constructor
    · rintro rfl; exact (List.nil_perm.mp h)
    · rintro rfl; exact (List.perm_nil.mp h)

theorem LinksEq.getD_perm {l l' : Option Table} (h : LinksEq l l') :
    (l.getD []).Perm (l'.getD []) := by
  cases l <;> cases l' <;> simp only [LinksEq] at h
  · exact List.Perm.refl _
  · exact h

/-- two objects agree in every field except the order of the entries of their link table -/
structure Obj.LayoutEq (a b : Obj) : Prop where
  strong : a.strong = b.strong
  weak : a.weak = b.weak
  value : a.value = b.value
  freed : a.freed = b.freed
  implicit : a.implicit = b.implicit
  links : LinksEq a.links b.links

theorem Obj.LayoutEq.refl (a : Obj) : Obj.LayoutEq a a :=
  ⟨rfl, rfl, rfl, rfl, rfl, LinksEq.refl _⟩

theorem Obj.LayoutEq.symm {a b : Obj} (h : Obj.LayoutEq a b) : Obj.LayoutEq b a :=
  ⟨h.strong.symm, h.weak.symm, h.value.symm, h.freed.symm, h.implicit.symm, h.links.symm⟩

theorem Obj.LayoutEq.trans {a b c : Obj} (h : Obj.LayoutEq a b) (h' : Obj.LayoutEq b c) :
    Obj.LayoutEq a c :=
  ⟨h.strong.trans h'.strong, h.weak.trans h'.weak, h.value.trans h'.value,
    h.freed.trans h'.freed, h.implicit.trans h'.implicit, h.links.trans h'.links⟩

/-- same state up to layout: same heap length, objects agree up to the order of table entries,
all non-heap fields equal except `hint` (arbitrary) -/
def State.LayoutEq (s s' : State) : Prop :=
  s.heap.length = s'.heap.length
  ∧ (∀ (i : Nat) (a b : Obj), s.heap[i]? = some a → s'.heap[i]? = some b → Obj.LayoutEq a b)
  ∧ s.roots = s'.roots ∧ s.wroots = s'.wroots ∧ s.vals = s'.vals ∧ s.raws = s'.raws
  ∧ s.stack = s'.stack ∧ s.log = s'.log ∧ s.err = s'.err ∧ s.unwinding = s'.unwinding
  ∧ s.nextVid = s'.nextVid

namespace State.LayoutEq

theorem refl (s : State) : s.LayoutEq s := by
  refine ⟨rfl, ?_, rfl, rfl, rfl, rfl, rfl, rfl, rfl, rfl, rfl⟩
  intro i a b ha hb
  rw [ha] at hb
  cases hb
  exact Obj.LayoutEq.refl a

theorem symm {s s' : State} (h : s.LayoutEq s') : s'.LayoutEq s := by
  obtain ⟨h0, h1, h2, h3, h4, h5, h6, h7, h8, h9, h10⟩ := h
  exact ⟨h0.symm, fun i a b ha hb => (h1 i b a hb ha).symm, h2.symm, h3.symm, h4.symm, h5.symm,
    h6.symm, h7.symm, h8.symm, h9.symm, h10.symm⟩

theorem trans {s s' s'' : State} (h : s.LayoutEq s') (h' : s'.LayoutEq s'') : s.LayoutEq s'' := by
  obtain ⟨h0, h1, h2, h3, h4, h5, h6, h7, h8, h9, h10⟩ := h
  obtain ⟨k0, k1, k2, k3, k4, k5, k6, k7, k8, k9, k10⟩ := h'
  refine ⟨h0.trans k0, ?_, h2.trans k2, h3.trans k3, h4.trans k4, h5.trans k5,
    h6.trans k6, h7.trans k7, h8.trans k8, h9.trans k9, h10.trans k10⟩
  intro i a c ha hc
  have hi : i < s'.heap.length := by
    have := (List.getElem?_eq_some_iff.mp ha).1
    omega
  exact (h1 i a _ ha (List.getElem?_eq_getElem hi)).trans (k1 i _ c (List.getElem?_eq_getElem hi) hc)

theorem equivalence : Equivalence State.LayoutEq :=
  ⟨refl, symm, trans⟩

/-- the hint is irrelevant -/
theorem of_hint (s : State) (hint : List Nat) : s.LayoutEq { s with hint := hint } := by
  refine ⟨rfl, ?_, rfl, rfl, rfl, rfl, rfl, rfl, rfl, rfl, rfl⟩
  intro i a b ha hb
  have hb' : s.heap[i]? = some b := hb
  rw [ha] at hb'
  cases hb'
  exact Obj.LayoutEq.refl a

section
variable {s s' : State} (h : s.LayoutEq s')
include h

theorem heap_cases (i : Nat) :
    (s.heap[i]? = none ∧ s'.heap[i]? = none)
    ∨ ∃ a b, s.heap[i]? = some a ∧ s'.heap[i]? = some b ∧ Obj.LayoutEq a b := by
  by_cases hi : i < s.heap.length
  · have hi' : i < s'.heap.length := by have := h.1; omega
    exact Or.inr ⟨_, _, List.getElem?_eq_getElem hi, List.getElem?_eq_getElem hi',
      h.2.1 i _ _ (List.getElem?_eq_getElem hi) (List.getElem?_eq_getElem hi')⟩
  · have hi' : ¬ i < s'.heap.length := by have := h.1; omega
    exact Or.inl ⟨List.getElem?_eq_none (by omega), List.getElem?_eq_none (by omega)⟩

/-! ### accessors and counting functions agree -/

theorem isLive_eq (o : Nat) : s.isLive o = s'.isLive o := by
  rcases h.heap_cases o with ⟨h1, h2⟩ | ⟨a, b, h1, h2, hab⟩
  · simp [State.isLive, h1, h2]
  · simp [State.isLive, h1, h2, hab.strong, hab.freed]

theorem strongOf_eq (o : Nat) : s.strongOf o = s'.strongOf o := by
  rcases h.heap_cases o with ⟨h1, h2⟩ | ⟨a, b, h1, h2, hab⟩
  · simp [State.strongOf, h1, h2]
  · simp [State.strongOf, h1, h2, hab.strong]

theorem strongNat_eq (o : Nat) : s.strongNat o = s'.strongNat o := by
  rcases h.heap_cases o with ⟨h1, h2⟩ | ⟨a, b, h1, h2, hab⟩
  · simp [State.strongNat, h1, h2]
  · simp [State.strongNat, h1, h2, hab.strong]

theorem weakNat_eq (o : Nat) : s.weakNat o = s'.weakNat o := by
  rcases h.heap_cases o with ⟨h1, h2⟩ | ⟨a, b, h1, h2, hab⟩
  · simp [State.weakNat, h1, h2]
  · simp [State.weakNat, h1, h2, hab.weak]

theorem implicitNat_eq (o : Nat) : s.implicitNat o = s'.implicitNat o := by
  rcases h.heap_cases o with ⟨h1, h2⟩ | ⟨a, b, h1, h2, hab⟩
  · simp [State.implicitNat, h1, h2]
  · simp [State.implicitNat, h1, h2, hab.implicit]

theorem heldOf_eq (o : Nat) : s.heldOf o = s'.heldOf o := by
  rcases h.heap_cases o with ⟨h1, h2⟩ | ⟨a, b, h1, h2, hab⟩
  · simp [State.heldOf, h1, h2]
  · simp [State.heldOf, h1, h2, hab.value]

theorem weaksOf_eq (o : Nat) : s.weaksOf o = s'.weaksOf o := by
  rcases h.heap_cases o with ⟨h1, h2⟩ | ⟨a, b, h1, h2, hab⟩
  · simp [State.weaksOf, h1, h2]
  · simp [State.weaksOf, h1, h2, hab.value]

theorem H_eq (a b : Nat) : s.H a b = s'.H a b := by
  simp [State.H, h.heldOf_eq a]

theorem cell_isNone_eq (o : Nat) : (s.cell o).isNone = (s'.cell o).isNone := by
  rcases h.heap_cases o with ⟨h1, h2⟩ | ⟨a, b, h1, h2, hab⟩
  · simp [State.cell, h1, h2]
  · simp only [State.cell, h1, h2, hab.freed]
    split <;> rfl

theorem ext_eq (o : Nat) : s.ext o = s'.ext o := by
  obtain ⟨-, -, h2, -, h4, h5, -⟩ := h
  simp [State.ext, h2, h4, h5]

theorem extW_eq (o : Nat) : s.extW o = s'.extW o := by
  obtain ⟨-, -, -, h3, h4, -⟩ := h
  simp [State.extW, h3, h4]

theorem pend_eq (o : Nat) : s.pend o = s'.pend o := by
  obtain ⟨-, -, -, -, -, -, h6, -⟩ := h
  simp [State.pend, h6]

theorem pendW_eq (o : Nat) : s.pendW o = s'.pendW o := by
  obtain ⟨-, -, -, -, -, -, h6, -⟩ := h
  simp [State.pendW, h6]

theorem owed_eq (o : Nat) : s.owed o = s'.owed o := by
  obtain ⟨-, -, -, -, -, -, h6, -⟩ := h
  simp [State.owed, h6]

theorem inHeap_eq (o : Nat) : s.inHeap o = s'.inHeap o := by
  have hh : (fun a => (s.heldOf a).count o) = (fun a => (s'.heldOf a).count o) := by
    funext a; rw [h.heldOf_eq a]
  simp only [State.inHeap, h.1, hh]

theorem inHeapW_eq (o : Nat) : s.inHeapW o = s'.inHeapW o := by
  have hh : (fun a => (s.weaksOf a).count o) = (fun a => (s'.weaksOf a).count o) := by
    funext a; rw [h.weaksOf_eq a]
  simp only [State.inHeapW, h.1, hh]

/-! ### tables agree up to the order of entries -/

theorem tableOf_cases (n : Nat) :
    (s.tableOf n = none ∧ s'.tableOf n = none)
    ∨ ∃ t t', s.tableOf n = some t ∧ s'.tableOf n = some t' ∧ t.Perm t' := by
  rcases h.heap_cases n with ⟨h1, h2⟩ | ⟨a, b, h1, h2, hab⟩
  · exact Or.inl ⟨by simp [State.tableOf, State.cell, h1], by simp [State.tableOf, State.cell, h2]⟩
  · have hl := hab.links
    have hf := hab.freed
    cases hfa : a.freed with
    | true =>
      have hfb : b.freed = true := by rw [← hf, hfa]
      exact Or.inl ⟨by simp [State.tableOf, State.cell, h1, hfa],
        by simp [State.tableOf, State.cell, h2, hfb]⟩
    | false =>
      have hfb : b.freed = false := by rw [← hf, hfa]
      have e1 : s.tableOf n = a.links := by simp [State.tableOf, State.cell, h1, hfa]
      have e2 : s'.tableOf n = b.links := by simp [State.tableOf, State.cell, h2, hfb]
      rw [e1, e2]
      cases hla : a.links <;> cases hlb : b.links <;> rw [hla, hlb] at hl <;>
        simp only [LinksEq] at hl
      · exact Or.inl ⟨rfl, rfl⟩
      · exact Or.inr ⟨_, _, rfl, rfl, hl⟩

theorem tbl_perm (n : Nat) : (s.tbl n).Perm (s'.tbl n) := by
  rcases h.tableOf_cases n with ⟨h1, h2⟩ | ⟨t, t', h1, h2, hp⟩
  · simp [State.tbl, h1, h2]
  · simpa [State.tbl, h1, h2] using hp

theorem mem_tbl_iff (n : Nat) (e : Link × Nat) : e ∈ s.tbl n ↔ e ∈ s'.tbl n :=
  (h.tbl_perm n).mem_iff

theorem named_iff (n j : Nat) : named (s.tbl n) j ↔ named (s'.tbl n) j := by
  simp only [named, h.mem_tbl_iff]

theorem F_eq (hB : s.InvB) (a b : Nat) : s.F a b = s'.F a b :=
  Table.get_perm _ _ (s.tbl_WF hB a) (h.tbl_perm a) _

theorem B_eq (hB : s.InvB) (a b : Nat) : s.B a b = s'.B a b :=
  Table.get_perm _ _ (s.tbl_WF hB a) (h.tbl_perm a) _

/-! ### the structural invariants transfer -/

theorem invO (hO : s.InvO) : s'.InvO := by
  intro o b hb
  rcases h.heap_cases o with ⟨-, h2⟩ | ⟨a, b', h1, h2, hab⟩
  · rw [h2] at hb; cases hb
  · rw [h2] at hb
    cases hb
    obtain ⟨c1, c2, c3, c4⟩ := hO o a h1
    refine ⟨?_, ?_, ?_, ?_⟩
    · intro n hn
      obtain ⟨d1, d2, d3, d4⟩ := c1 n (hab.strong.trans hn)
      exact ⟨by rw [← hab.value]; exact d1, by rw [← hab.links.isSome]; exact d2,
        by rw [← hab.freed]; exact d3, by rw [← hab.implicit]; exact d4⟩
    · intro hn
      obtain ⟨d1, d2⟩ := c2 (hab.strong.trans hn)
      exact ⟨by rw [← hab.value]; exact d1, hab.links.none_iff.mp d2⟩
    · intro hn
      obtain ⟨d1, d2⟩ := c3 (hab.strong.trans hn)
      refine ⟨by rw [← hab.value]; exact d1, ?_⟩
      rcases d2 with d2 | ⟨d2, d3⟩
      · exact Or.inl (hab.links.none_iff.mp d2)
      · exact Or.inr ⟨hab.links.nil_iff.mp d2, by rw [← hab.implicit]; exact d3⟩
    · rw [← hab.freed, ← hab.weak]; exact c4

theorem invB (hB : s.InvB) : s'.InvB := by
  refine ⟨?_, ?_⟩
  · intro o t' ht'
    rcases h.tableOf_cases o with ⟨-, h2⟩ | ⟨t, t'', h1, h2, hp⟩
    · rw [h2] at ht'; cases ht'
    · rw [h2] at ht'
      cases ht'
      obtain ⟨hw, he⟩ := hB.1 o t h1
      refine ⟨Table.WF_perm t t' hw hp, ?_⟩
      intro e hm
      obtain ⟨e1, e2⟩ := he e (hp.mem_iff.mpr hm)
      exact ⟨e1, fun hk => by rw [← h.isLive_eq]; exact e2 hk⟩
  · intro a b ha hb
    rw [← h.isLive_eq] at ha hb
    rw [← h.F_eq hB, ← h.B_eq hB]
    exact hB.2 a b ha hb

theorem invC (hC : s.InvC) : s'.InvC := by
  intro t ht
  rw [← h.isLive_eq] at ht
  rw [← h.strongNat_eq, ← h.ext_eq, ← h.inHeap_eq, ← h.pend_eq]
  exact hC t ht

theorem invW (hW : s.InvW) : s'.InvW := by
  intro t ht
  rw [← h.1] at ht
  rw [← h.weakNat_eq, ← h.extW_eq, ← h.inHeapW_eq, ← h.pendW_eq, ← h.implicitNat_eq]
  exact hW t ht

theorem full (hB : s.InvB) (hF : s.Full) : s'.Full := by
  intro a b ha
  rw [← h.isLive_eq] at ha
  rw [← h.F_eq hB, ← h.H_eq]
  exact hF a b ha

theorem contract (hB : s.InvB) (hP : s.P) : s'.P := by
  intro a b ha
  rw [← h.isLive_eq] at ha
  rw [← h.F_eq hB, ← h.H_eq]
  exact hP a b ha

/-! ### Forward reachability is a property of the entry *sets* -/

theorem fwdReach_imp {x n : Nat} (hr : FwdReach s x n) : FwdReach s' x n := by
  induction hr with
  | refl => exact FwdReach.refl _
  | step _ hc ih => exact FwdReach.step ih ((h.mem_tbl_iff _ _).mp hc)

end

theorem fwdReach_iff {s s' : State} (h : s.LayoutEq s') (x n : Nat) :
    FwdReach s x n ↔ FwdReach s' x n :=
  ⟨h.fwdReach_imp, h.symm.fwdReach_imp⟩

end State.LayoutEq

/-! ## small facts about maps -/

theorem sumOver_perm {l l' : List Nat} (hp : l.Perm l') (g : Nat → Nat) :
    sumOver l g = sumOver l' g :=
  (hp.map g).sum_nat

theorem sumOver_congr (l : List Nat) {g g' : Nat → Nat} (hg : ∀ n ∈ l, g n = g' n) :
    sumOver l g = sumOver l g' := by
  unfold sumOver
  rw [List.map_congr_left hg]

/-- with distinct keys an entry of a map is determined by its key -/
theorem CMap.mem_iff_of_nodup (m : CMap) (hn : m.keys.Nodup) (k c : Nat) :
    (k, c) ∈ m ↔ k ∈ m.keys ∧ c = m.get k := by
  induction m with
  | nil => simp [CMap.keys]
  | cons hd r ih =>
    obtain ⟨k', c'⟩ := hd
    simp only [CMap.keys, List.map_cons, List.nodup_cons] at hn ih ⊢
    have ih := ih hn.2
    by_cases hk : k' = k
    · subst hk
      have hnot : ¬ (k', c) ∈ r := fun hm => hn.1 (List.mem_map.mpr ⟨_, hm, rfl⟩)
      simp only [List.mem_cons, Prod.mk.injEq, true_and, CMap.get, if_true, true_or]
      constructor
      · rintro (h1 | h1)
        · exact h1
        · exact absurd h1 hnot
      · intro h1; exact Or.inl h1
    · have hk' : ¬ k = k' := fun e => hk e.symm
      simp only [List.mem_cons, Prod.mk.injEq, hk', false_and, false_or, CMap.get, hk, if_false]
      exact ih

/-- `hasExternalOwners` depends on the map only through its key set and its `get` -/
theorem hasExternalOwners_iff (s : State) (m : CMap) (hn : m.keys.Nodup) :
    hasExternalOwners s m = true
      ↔ ∃ k ∈ m.keys, strongExceeds (s.strongOf k) (m.get k) = true := by
  unfold hasExternalOwners
  rw [List.any_eq_true]
  constructor
  · rintro ⟨⟨k, c⟩, hm, hp⟩
    obtain ⟨hk, hc⟩ := (CMap.mem_iff_of_nodup m hn k c).mp hm
    subst hc
    exact ⟨k, hk, hp⟩
  · rintro ⟨k, hk, hp⟩
    exact ⟨(k, m.get k), (CMap.mem_iff_of_nodup m hn k _).mpr ⟨hk, rfl⟩, hp⟩

theorem CMap.isEmpty_iff_keys (m : CMap) : m.isEmpty = true ↔ ∀ k, k ∉ m.keys := by
  cases m with
  | nil => simp [CMap.keys]
  | cons e r =>
    simp only [List.isEmpty_cons, Bool.false_eq_true, false_iff]
    intro hk
    exact hk e.1 (by simp [CMap.keys])

/-! ## the trace does not depend on the layout -/

/-- **C09, decision level.**  On two states that differ only in the order of table entries (and in
the hint) the reachability trace from a live object visits the same set of objects, builds a map
with the same key set and the same counts, and the orphan test takes the same decision. -/
theorem cycleRefs_layout (s s' : State) (x : Nat) (h : s.LayoutEq s')
    (hO : s.InvO) (hB : s.InvB) (hx : s.isLive x = true) :
    (∀ k, k ∈ (cycleRefs s x).visited ↔ k ∈ (cycleRefs s' x).visited)
    ∧ (∀ k, k ∈ (cycleRefs s x).cmap.keys ↔ k ∈ (cycleRefs s' x).cmap.keys)
    ∧ (∀ k, (cycleRefs s x).cmap.get k = (cycleRefs s' x).cmap.get k)
    ∧ (cycleRefs s x).cmap.isEmpty = (cycleRefs s' x).cmap.isEmpty
    ∧ hasExternalOwners s (cycleRefs s x).cmap = hasExternalOwners s' (cycleRefs s' x).cmap := by
  have hO' : s'.InvO := h.invO hO
  have hB' : s'.InvB := h.invB hB
  have hx' : s'.isLive x = true := by rw [← h.isLive_eq]; exact hx
  obtain ⟨hb, hf⟩ := cycleRefs_ok s x hO hB hx
  obtain ⟨hb', hf'⟩ := cycleRefs_ok s' x hO' hB' hx'
  obtain ⟨-, hnd, hknd, -, hreach, -, hcomp, -, hkeys⟩ := cycleRefs_spec s x hb hf
  obtain ⟨-, hnd', hknd', -, hreach', -, hcomp', -, hkeys'⟩ := cycleRefs_spec s' x hb' hf'
  -- same visited set: both are the Forward-reachable set
  have hvis : ∀ k, k ∈ (cycleRefs s x).visited ↔ k ∈ (cycleRefs s' x).visited := by
    intro k
    constructor
    · intro hk; exact hcomp' k ((h.fwdReach_iff x k).mp (hreach k hk))
    · intro hk; exact hcomp k ((h.fwdReach_iff x k).mpr (hreach' k hk))
  have hperm : (cycleRefs s x).visited.Perm (cycleRefs s' x).visited :=
    (List.perm_ext_iff_of_nodup hnd hnd').mpr hvis
  -- same key set: objects named by a visited object
  have hks : ∀ k, k ∈ (cycleRefs s x).cmap.keys ↔ k ∈ (cycleRefs s' x).cmap.keys := by
    intro k
    rw [← CMap.has_iff_mem_keys, ← CMap.has_iff_mem_keys, hkeys k, hkeys' k]
    constructor
    · rintro ⟨n, hn, hnm⟩; exact ⟨n, (hvis n).mp hn, (h.named_iff n k).mp hnm⟩
    · rintro ⟨n, hn, hnm⟩; exact ⟨n, (hvis n).mpr hn, (h.named_iff n k).mpr hnm⟩
  -- same counts
  have hget : ∀ k, (cycleRefs s x).cmap.get k = (cycleRefs s' x).cmap.get k := by
    intro k
    rw [cmap_get_eq s x hO hB hx k, cmap_get_eq s' x hO' hB' hx' k,
      sumOver_perm hperm (fun n => s.F n k)]
    exact sumOver_congr _ (fun n _ => h.F_eq hB n k)
  refine ⟨hvis, hks, hget, ?_, ?_⟩
  · rw [Bool.eq_iff_iff, CMap.isEmpty_iff_keys, CMap.isEmpty_iff_keys]
    constructor
    · intro hh k hk; exact hh k ((hks k).mpr hk)
    · intro hh k hk; exact hh k ((hks k).mp hk)
  · rw [Bool.eq_iff_iff, hasExternalOwners_iff s _ hknd, hasExternalOwners_iff s' _ hknd']
    constructor
    · rintro ⟨k, hk, hp⟩
      exact ⟨k, (hks k).mp hk, by rw [← h.strongOf_eq, ← hget]; exact hp⟩
    · rintro ⟨k, hk, hp⟩
      exact ⟨k, (hks k).mpr hk, by rw [h.strongOf_eq, hget]; exact hp⟩

/-- the other two tests of the trace branch of `Rc::drop` are layout independent as well (they
never fire in a state satisfying the invariants) -/
theorem cycleRefs_layout_ok (s s' : State) (x : Nat) (h : s.LayoutEq s')
    (hO : s.InvO) (hB : s.InvB) (hx : s.isLive x = true) :
    (cycleRefs s x).bad = (cycleRefs s' x).bad
    ∧ (cycleRefs s x).outOfFuel = (cycleRefs s' x).outOfFuel
    ∧ firstUnreadable s (cycleRefs s x).cmap = firstUnreadable s' (cycleRefs s' x).cmap := by
  have hO' : s'.InvO := h.invO hO
  have hB' : s'.InvB := h.invB hB
  have hx' : s'.isLive x = true := by rw [← h.isLive_eq]; exact hx
  obtain ⟨hb, hf⟩ := cycleRefs_ok s x hO hB hx
  obtain ⟨hb', hf'⟩ := cycleRefs_ok s' x hO' hB' hx'
  rw [hb, hb', hf, hf', firstUnreadable_none s x hO hB hx, firstUnreadable_none s' x hO' hB' hx']
  exact ⟨rfl, rfl, rfl⟩

/-- **C09: the group torn down does not depend on the layout.**  If the orphan test passes in `s`
it passes in every layout variant `s'`, and the set of objects torn down (`cmap.keys`, which is
the visited set) is the same, whatever the hints; as lists without repetition the two groups are
permutations of each other. -/
theorem group_members_layout (s s' : State) (x : Nat) (h : s.LayoutEq s')
    (hO : s.InvO) (hB : s.InvB) (hx : s.isLive x = true)
    (hne : (cycleRefs s x).cmap.isEmpty = false)
    (hext : hasExternalOwners s (cycleRefs s x).cmap = false) :
    (cycleRefs s' x).cmap.isEmpty = false
    ∧ hasExternalOwners s' (cycleRefs s' x).cmap = false
    ∧ (∀ k, k ∈ (cycleRefs s x).cmap.keys ↔ k ∈ (cycleRefs s' x).cmap.keys)
    ∧ (cycleRefs s x).cmap.keys.Perm (cycleRefs s' x).cmap.keys
    ∧ (∀ k, k ∈ (cycleRefs s' x).cmap.keys ↔ k ∈ (cycleRefs s x).visited) := by
  obtain ⟨-, hks, -, hemp, hex⟩ := cycleRefs_layout s s' x h hO hB hx
  have hO' : s'.InvO := h.invO hO
  have hB' : s'.InvB := h.invB hB
  have hx' : s'.isLive x = true := by rw [← h.isLive_eq]; exact hx
  refine ⟨by rw [← hemp]; exact hne, by rw [← hex]; exact hext, hks, ?_, ?_⟩
  · exact (List.perm_ext_iff_of_nodup (keys_nodup s x hO hB hx) (keys_nodup s' x hO' hB' hx')).mpr hks
  · intro k
    rw [← hks k]
    exact keys_eq_visited s x hO hB hx hne hext k

/-! ## under `Full` a collected group is closed under stored handles -/

/-- Under `Full` the value of a visited object holds strong handles to visited objects only
(the orphan test need not even pass for this). -/
theorem full_visited_closed (s : State) (x : Nat) (hO : s.InvO) (hB : s.InvB) (hF : s.Full)
    (hx : s.isLive x = true) (m t : Nat) (hm : m ∈ (cycleRefs s x).visited) (hH : 0 < s.H m t) :
    t ∈ (cycleRefs s x).visited := by
  obtain ⟨hb, hf⟩ := cycleRefs_ok s x hO hB hx
  obtain ⟨-, -, -, -, -, hcl, -⟩ := cycleRefs_spec s x hb hf
  have hml : s.isLive m = true := visited_live s x hO hB hx m hm
  have hpos : 0 < s.F m t := by rw [hF m t hml]; exact hH
  obtain ⟨c, hc⟩ := (s.F_pos_iff hB m t).mp hpos
  exact hcl m hm t c hc

/-- **C09, group closure.**  If every stored handle is recorded (`Full`) and the orphan test
passes for `x`, the values of the collected group hold strong handles to members of the group
only: whatever order the hint chooses for destroying them, every handle they release targets an
object that is already dead (`C16_drop_dead_noop`). -/
theorem full_group_closed (s : State) (x : Nat) (hO : s.InvO) (hB : s.InvB) (hF : s.Full)
    (hx : s.isLive x = true)
    (hne : (cycleRefs s x).cmap.isEmpty = false)
    (hext : hasExternalOwners s (cycleRefs s x).cmap = false)
    (m t : Nat) (hm : m ∈ (cycleRefs s x).visited) (hH : 0 < s.H m t) :
    t ∈ (cycleRefs s x).visited ∧ t ∈ (cycleRefs s x).cmap.keys := by
  have hv := full_visited_closed s x hO hB hF hx m t hm hH
  exact ⟨hv, (keys_eq_visited s x hO hB hx hne hext t).mpr hv⟩

end Cactus
