import Cactus.Lemmas.Termination.Measure
/-!
# Termination of the teardown, part 2: the library primitives and the measure

* `State.Same s t`: `t` has the stack, the unwrapped values and, slot by slot, the heap values of
  `s` (so the same `work`); holds for every primitive that only touches counters and link tables.
* the primitives that move values: `beginSingle` (`work` does not grow), `dropCycle`/`rcDrop`
  (`+ 1` at most: the `phase3` frame of a collection that finds no dead member), `dropVal`,
  `dropFields`, `panic`, `modVal`, `alloc`, `giveUp`.
-/
namespace Cactus
open State

namespace State

/-- same control stack, same unwrapped values, same value in every heap slot -/
structure Same (s t : State) : Prop where
  stack : t.stack = s.stack
  vals : t.vals = s.vals
  hv : hv t.heap = hv s.heap

namespace Same

theorem refl (s : State) : s.Same s := ⟨rfl, rfl, rfl⟩
theorem trans {a b c : State} (h1 : a.Same b) (h2 : b.Same c) : a.Same c :=
  ⟨h2.stack.trans h1.stack, h2.vals.trans h1.vals, h2.hv.trans h1.hv⟩

theorem heapW {s t : State} (h : s.Same t) : heapW t.heap = Cactus.heapW s.heap := heapW_of_hv h.hv
theorem work {s t : State} (h : s.Same t) : t.work = s.work := by
  unfold State.work; rw [h.stack, h.vals, h.heapW]

theorem of_eq {s t : State} (hs : t.stack = s.stack) (hv : t.vals = s.vals) (hh : t.heap = s.heap) :
    s.Same t := ⟨hs, hv, by rw [hh]⟩

theorem fail (s : State) (e : Err) : s.Same (s.fail e) := of_eq (fail_stack s e) (fail_vals s e) (fail_heap s e)
theorem emit (s : State) (e : Ev) : s.Same (s.emit e) := of_eq rfl rfl rfl

theorem setObj {s : State} {o : Nat} {ob : Obj} (ob' : Obj) (hc : s.cell o = some ob)
    (hval : ob'.value = ob.value) : s.Same (s.setObj o ob') :=
  ⟨rfl, rfl, hv_set_same (cell_some_get s o ob hc).1 hval⟩

theorem foldl {α : Type} (f : State → α → State) (hf : ∀ (s : State) (a : α), s.Same (f s a)) (l : List α)
    (s : State) : s.Same (l.foldl f s) := by
  induction l generalizing s with
  | nil => exact refl s
  | cons a r ih => exact (hf s a).trans (ih (f s a))

theorem setLinks (s : State) (o : Nat) (f : Table → Table) : s.Same (s.setLinks o f) := by
  unfold State.setLinks
  split
  · split
    · exact setObj _ ‹_› (by rfl)
    · exact fail _ _
  · exact fail _ _

theorem incStrong (s : State) (o : Nat) : s.Same (s.incStrong o) := by
  unfold State.incStrong
  split
  · split
    · exact setObj _ ‹_› (by rfl)
    · exact fail _ _
  · exact fail _ _

theorem incWeak (s : State) (o : Nat) : s.Same (s.incWeak o) := by
  unfold State.incWeak
  split
  · split
    · exact fail _ _
    · exact setObj _ ‹_› (by rfl)
  · exact fail _ _

theorem decWeakFree (s : State) (o : Nat) (imp : Bool) : s.Same (s.decWeakFree o imp) := by
  unfold State.decWeakFree
  split
  · split
    · exact fail _ _
    · exact (setObj _ ‹_› (by rfl)).trans (emit _ _)
    · exact setObj _ ‹_› (by rfl)
  · exact fail _ _

theorem adopt (s : State) (a b : Nat) (same : Bool) : s.Same (s.adopt a b same) := by
  unfold State.adopt
  split
  · exact setLinks _ _ _
  · exact (setLinks _ _ _).trans (setLinks _ _ _)

theorem unadopt (s : State) (a b : Nat) (same : Bool) : s.Same (s.unadopt a b same) := by
  unfold State.unadopt
  split
  · exact setLinks _ _ _
  · exact (setLinks _ _ _).trans (setLinks _ _ _)

theorem purgeOne (x : Nat) (s : State) (e : Link × Nat) : s.Same (State.purgeOne x s e) := by
  unfold State.purgeOne
  split
  · exact refl s
  · exact setLinks _ _ _

theorem purgePeers (s : State) (x : Nat) : s.Same (s.purgePeers x) := by
  unfold State.purgePeers
  split
  · exact (foldl _ (purgeOne x) _ s).trans (setLinks _ _ _)
  · exact fail _ _

theorem finishSingle (s : State) (o : Nat) : s.Same (s.finishSingle o) := by
  unfold State.finishSingle
  split
  · split
    · exact (setObj _ ‹_› (by rfl)).trans (decWeakFree _ _ _)
    · exact fail _ _
  · exact fail _ _

theorem phase1One (keys : List Nat) (s : State) (e : Nat × Nat) : s.Same (State.phase1One keys s e) := by
  unfold State.phase1One
  split
  · split
    · exact setObj _ ‹_› (by rfl)
    · exact fail _ _
    · exact fail _ _
  · exact fail _ _

theorem phase3One (s : State) (k : Nat) : s.Same (s.phase3One k) := by
  unfold State.phase3One
  split
  · split
    · exact decWeakFree _ _ _
    · exact refl s
  · exact fail _ _

theorem weakDrop (s : State) (o : Nat) : s.Same (s.weakDrop o) := decWeakFree _ _ _

theorem cloneHandles (s : State) (v : Val) : s.Same (s.cloneHandles v) :=
  (foldl _ incStrong _ s).trans (foldl _ incWeak _ _)

theorem badRoot (s : State) (r : Nat) : s.Same (s.badRoot r) := by
  rcases badRoot_cases s r with h | ⟨e, h⟩ <;> rw [h]
  · exact refl s
  · exact fail s e

end Same
end State

/-! ### the same facts as rewrite rules (for `simp`) -/

section simps
variable (s : State)

@[simp] theorem tw_fail_stack (e : Err) : stackW (s.fail e).stack = stackW s.stack := by rw [(Same.fail s e).stack]
@[simp] theorem tw_fail_vals (e : Err) : valsW (s.fail e).vals = valsW s.vals := by rw [(Same.fail s e).vals]
@[simp] theorem tw_fail_heap (e : Err) : heapW (s.fail e).heap = heapW s.heap := (Same.fail s e).heapW
@[simp] theorem tw_emit_stack (e : Ev) : stackW (s.emit e).stack = stackW s.stack := rfl
@[simp] theorem tw_emit_vals (e : Ev) : valsW (s.emit e).vals = valsW s.vals := rfl
@[simp] theorem tw_emit_heap (e : Ev) : heapW (s.emit e).heap = heapW s.heap := rfl
@[simp] theorem tw_push_stack (fs : List Frame) : stackW (s.push fs).stack = stackW fs + stackW s.stack := by
  simp [push_stack]
@[simp] theorem tw_push_vals (fs : List Frame) : valsW (s.push fs).vals = valsW s.vals := rfl
@[simp] theorem tw_push_heap (fs : List Frame) : heapW (s.push fs).heap = heapW s.heap := rfl
@[simp] theorem tw_incStrong_stack (o : Nat) : stackW (s.incStrong o).stack = stackW s.stack := by rw [(Same.incStrong s o).stack]
@[simp] theorem tw_incStrong_vals (o : Nat) : valsW (s.incStrong o).vals = valsW s.vals := by rw [(Same.incStrong s o).vals]
@[simp] theorem tw_incStrong_heap (o : Nat) : heapW (s.incStrong o).heap = heapW s.heap := (Same.incStrong s o).heapW
@[simp] theorem tw_incWeak_stack (o : Nat) : stackW (s.incWeak o).stack = stackW s.stack := by rw [(Same.incWeak s o).stack]
@[simp] theorem tw_incWeak_vals (o : Nat) : valsW (s.incWeak o).vals = valsW s.vals := by rw [(Same.incWeak s o).vals]
@[simp] theorem tw_incWeak_heap (o : Nat) : heapW (s.incWeak o).heap = heapW s.heap := (Same.incWeak s o).heapW
@[simp] theorem tw_adopt_stack (a b : Nat) (c : Bool) : stackW (s.adopt a b c).stack = stackW s.stack := by rw [(Same.adopt s a b c).stack]
@[simp] theorem tw_adopt_vals (a b : Nat) (c : Bool) : valsW (s.adopt a b c).vals = valsW s.vals := by rw [(Same.adopt s a b c).vals]
@[simp] theorem tw_adopt_heap (a b : Nat) (c : Bool) : heapW (s.adopt a b c).heap = heapW s.heap := (Same.adopt s a b c).heapW
@[simp] theorem tw_unadopt_stack (a b : Nat) (c : Bool) : stackW (s.unadopt a b c).stack = stackW s.stack := by rw [(Same.unadopt s a b c).stack]
@[simp] theorem tw_unadopt_vals (a b : Nat) (c : Bool) : valsW (s.unadopt a b c).vals = valsW s.vals := by rw [(Same.unadopt s a b c).vals]
@[simp] theorem tw_unadopt_heap (a b : Nat) (c : Bool) : heapW (s.unadopt a b c).heap = heapW s.heap := (Same.unadopt s a b c).heapW
@[simp] theorem tw_badRoot_stack (r : Nat) : stackW (s.badRoot r).stack = stackW s.stack := by rw [(Same.badRoot s r).stack]
@[simp] theorem tw_badRoot_vals (r : Nat) : valsW (s.badRoot r).vals = valsW s.vals := by rw [(Same.badRoot s r).vals]
@[simp] theorem tw_badRoot_heap (r : Nat) : heapW (s.badRoot r).heap = heapW s.heap := (Same.badRoot s r).heapW
@[simp] theorem tw_cloneHandles_stack (v : Val) : stackW (s.cloneHandles v).stack = stackW s.stack := by rw [(Same.cloneHandles s v).stack]
@[simp] theorem tw_cloneHandles_vals (v : Val) : valsW (s.cloneHandles v).vals = valsW s.vals := by rw [(Same.cloneHandles s v).vals]
@[simp] theorem tw_cloneHandles_heap (v : Val) : heapW (s.cloneHandles v).heap = heapW s.heap := (Same.cloneHandles s v).heapW
@[simp] theorem tw_alloc_stack (v : Val) : stackW (s.alloc v).stack = stackW s.stack := rfl
@[simp] theorem tw_alloc_vals (v : Val) : valsW (s.alloc v).vals = valsW s.vals := rfl
@[simp] theorem tw_alloc_heap (v : Val) : heapW (s.alloc v).heap = heapW s.heap + (v.cost + 3) := by
  simp [State.alloc, optW]

end simps

/-! ## the primitives that move values -/

/-- the zero-count path: the value leaves the heap (`cost + 3`) and becomes a `dropVal` frame
(`cost + 1`) followed by `finishSingle` (1) -/
theorem beginSingle_work (s : State) (o : Nat) : (s.beginSingle o).work ≤ s.work := by
  unfold State.beginSingle
  split
  · rename_i ob hc
    split
    · rw [(Same.decWeakFree s o true).work]; exact Nat.le_refl _
    · split
      · rename_i v hv
        have h := heapW_set (ob' := { ob with strong := .uninit, value := none }) (cell_some_get s o ob hc).1
        rw [hv] at h
        simp only [optW_none, optW_some] at h
        simp only [State.work, tw_push_stack, tw_push_vals, tw_push_heap, stackW_cons, stackW_nil,
          Frame.work, State.setObj]
        omega
      · rw [(Same.fail s _).work]; exact Nat.le_refl _
  · rw [(Same.fail s _).work]; exact Nat.le_refl _

/-- phase 2 moves values from the heap into the block: nothing is lost, nothing is created -/
theorem phase2One_work (acc : State × List Val) (k : Nat) :
    (State.phase2One acc k).1.stack = acc.1.stack ∧ (State.phase2One acc k).1.vals = acc.1.vals
    ∧ heapW (State.phase2One acc k).1.heap + valsW (State.phase2One acc k).2 + 2 * (State.phase2One acc k).2.length
      = heapW acc.1.heap + valsW acc.2 + 2 * acc.2.length := by
  unfold State.phase2One
  split
  · rename_i ob hc
    split
    · split
      · rename_i v hv
        have h := heapW_set (ob' := { ob with strong := .uninit, value := none, links := none })
          (cell_some_get acc.1 k ob hc).1
        rw [hv] at h
        simp only [optW_none, optW_some] at h
        refine ⟨rfl, rfl, ?_⟩
        simp only [State.setObj, valsW_append, valsW_cons, valsW_nil, List.length_append,
          List.length_cons, List.length_nil]
        omega
      · exact ⟨fail_stack _ _, fail_vals _ _, by simp⟩
    · exact ⟨rfl, rfl, rfl⟩
  · exact ⟨fail_stack _ _, fail_vals _ _, by simp⟩

theorem phase2_foldl_work (ks : List Nat) (acc : State × List Val) :
    (ks.foldl State.phase2One acc).1.stack = acc.1.stack ∧ (ks.foldl State.phase2One acc).1.vals = acc.1.vals
    ∧ heapW (ks.foldl State.phase2One acc).1.heap + valsW (ks.foldl State.phase2One acc).2
        + 2 * (ks.foldl State.phase2One acc).2.length
      = heapW acc.1.heap + valsW acc.2 + 2 * acc.2.length := by
  induction ks generalizing acc with
  | nil => exact ⟨rfl, rfl, rfl⟩
  | cons k r ih =>
    obtain ⟨a1, a2, a3⟩ := phase2One_work acc k
    obtain ⟨b1, b2, b3⟩ := ih (State.phase2One acc k)
    exact ⟨b1.trans a1, b2.trans a2, b3.trans a3⟩

/-- a collection: the dead members' values become `dropVal` frames, one `phase3` frame is pushed -/
theorem dropCycle_work (s : State) (c : CMap) : (s.dropCycle c).work ≤ s.work + 1 := by
  have h1 := Same.foldl _ (Same.phase1One c.keys) c s
  obtain ⟨a1, a2, a3⟩ := phase2_foldl_work c.keys (c.foldl (State.phase1One c.keys) s, [])
  have hp := valsW_perm (reorder_perm s.hint (c.keys.foldl State.phase2One (c.foldl (State.phase1One c.keys) s, [])).2)
  unfold State.dropCycle
  simp only [State.work, tw_push_stack, tw_push_vals, tw_push_heap, stackW_append, stackW_map_dropVal,
    stackW_cons, stackW_nil, Frame.work]
  rw [hp, a1, a2, h1.stack, h1.vals]
  have := h1.heapW
  simp only [valsW_nil, List.length_nil] at a3
  omega

/-- `Rc::drop`: the work grows by one at most (so the popped `rcDrop` frame, weight 2, pays) -/
theorem rcDrop_work (s : State) (o : Nat) : (s.rcDrop o).work ≤ s.work + 1 := by
  unfold State.rcDrop
  split
  · rw [(Same.fail s _).work]; omega
  · rename_i ob hc
    split
    · omega
    · omega
    · rename_i n hst
      split
      · rw [(Same.fail s _).work]; omega
      · have h1 : s.Same (s.setObj o { ob with strong := .cnt n }) := Same.setObj _ hc rfl
        dsimp only
        split
        · split
          · have := beginSingle_work (s.setObj o { ob with strong := .cnt n }) o
            have := h1.work; omega
          · have := h1.work; omega
        · split
          · have := beginSingle_work ((s.setObj o { ob with strong := .cnt n }).purgePeers o) o
            have := (h1.trans (Same.purgePeers _ o)).work; omega
          · have h2 := h1.trans (Same.emit _ (.traced o (cycleRefs (s.setObj o { ob with strong := .cnt n }) o).visited.length
              (cycleRefs (s.setObj o { ob with strong := .cnt n }) o).popped))
            split
            · rw [(Same.fail _ _).work]; have := h2.work; omega
            · split
              · rw [(Same.fail _ _).work]; have := h2.work; omega
              · split
                · have := h2.work; omega
                · split
                  · rw [(Same.fail _ _).work]; have := h2.work; omega
                  · split
                    · have := h2.work; omega
                    · have := h2.work
                      have := dropCycle_work ((s.setObj o { ob with strong := .cnt n }).emit
                        (.traced o (cycleRefs (s.setObj o { ob with strong := .cnt n }) o).visited.length
                          (cycleRefs (s.setObj o { ob with strong := .cnt n }) o).popped))
                        (cycleRefs (s.setObj o { ob with strong := .cnt n }) o).cmap
                      omega

/-- entering a destructor: the `dropVal` frame (popped by the caller) is worth one more than what
it pushes -/
theorem dropVal_work (s : State) (v : Val) : (s.dropVal v).work ≤ s.work + v.cost := by
  unfold State.dropVal
  simp only [State.work, tw_push_stack, tw_push_vals, tw_push_heap, tw_emit_stack, tw_emit_vals,
    tw_emit_heap, stackW_append, stackW_cons, stackW_nil, Frame.work, Val.cost]
  split <;> simp [Frame.work] <;> omega

theorem panic_work (s : State) : s.panic.work ≤ s.work := by
  unfold State.panic
  split
  · rw [(Same.fail s _).work]; exact Nat.le_refl _
  · have := stackW_filter_le Frame.isCleanup s.stack
    simp only [State.work]
    omega

/-- the drop glue: one handle per step -/
theorem dropFields_work (s : State) (h w : List Nat) :
    (s.dropFields h w).work ≤ s.work + 3 * h.length + 2 * w.length := by
  unfold State.dropFields
  split <;>
    simp only [State.work, tw_push_stack, tw_push_vals, tw_push_heap, stackW_cons, stackW_nil,
      Frame.work, List.length_cons, List.length_nil] <;> omega

/-- editing a value in place -/
theorem modVal_work (s : State) (o : Nat) (f : Val → Val) (d : Nat) (hf : ∀ v, (f v).cost ≤ v.cost + d) :
    (s.modVal o f).stack = s.stack ∧ (s.modVal o f).vals = s.vals
    ∧ heapW (s.modVal o f).heap ≤ heapW s.heap + d := by
  rcases modVal_cases s o f with ⟨e, he⟩ | ⟨ob, v, hc, hv, he⟩ <;> rw [he]
  · exact ⟨fail_stack _ _, fail_vals _ _, by simp⟩
  · refine ⟨rfl, rfl, ?_⟩
    have h := heapW_set (ob' := { ob with value := some (f v) }) (cell_some_get s o ob hc).1
    rw [hv] at h
    simp only [optW_some] at h
    have := hf v
    simp only [State.setObj]
    omega

theorem modVal_stack_eq (s : State) (o : Nat) (f : Val → Val) : (s.modVal o f).stack = s.stack := by
  rcases modVal_cases s o f with ⟨e, he⟩ | ⟨ob, v, hc, hv, he⟩ <;> rw [he]
  · exact fail_stack _ _
  · rfl

theorem modVal_vals_eq (s : State) (o : Nat) (f : Val → Val) : (s.modVal o f).vals = s.vals := by
  rcases modVal_cases s o f with ⟨e, he⟩ | ⟨ob, v, hc, hv, he⟩ <;> rw [he]
  · exact fail_vals _ _
  · rfl

@[simp] theorem tw_modVal_stack (s : State) (o : Nat) (f : Val → Val) :
    stackW (s.modVal o f).stack = stackW s.stack := by rw [modVal_stack_eq]
@[simp] theorem tw_modVal_vals (s : State) (o : Nat) (f : Val → Val) :
    valsW (s.modVal o f).vals = valsW s.vals := by rw [modVal_vals_eq]

theorem modVal_work_le (s : State) (o : Nat) (f : Val → Val) (d : Nat) (hf : ∀ v, (f v).cost ≤ v.cost + d) :
    (s.modVal o f).work ≤ s.work + d := by
  have := (modVal_work s o f d hf).2.2
  simp only [State.work, tw_modVal_stack, tw_modVal_vals]
  omega

/-- giving up an allocation whose value has been moved or copied out: unless it fails, the value
slot is emptied -/
theorem giveUp_work (s : State) (o : Nat) (ob : Obj) (hg : s.heap[o]? = some ob) :
    (s.giveUp o).stack = s.stack ∧ (s.giveUp o).vals = s.vals
    ∧ ((s.giveUp o).err ≠ none ∨ heapW (s.giveUp o).heap + optW ob.value = heapW s.heap) := by
  have hp := Same.purgePeers s o
  unfold State.giveUp
  split
  · rename_i ob' hc'
    have hd := Same.decWeakFree ((s.purgePeers o).setObj o { ob' with strong := .cnt 0, value := none, links := none }) o true
    refine ⟨?_, ?_, Or.inr ?_⟩
    · rw [hd.stack]; exact hp.stack
    · rw [hd.vals]; exact hp.vals
    · rw [hd.heapW]
      have h := heapW_set (ob' := { ob' with strong := .cnt 0, value := none, links := none })
        (cell_some_get _ o ob' hc').1
      have hv' : ob'.value = ob.value := by
        have h1 : (hv (s.purgePeers o).heap)[o]? = (hv s.heap)[o]? := by rw [hp.hv]
        simp only [hv, List.getElem?_map, (cell_some_get _ o ob' hc').1, hg, Option.map_some] at h1
        exact Option.some.inj h1
      rw [hv'] at h
      simp only [optW_none] at h
      have := hp.heapW
      simp only [State.setObj]
      omega
  · refine ⟨?_, ?_, Or.inl ?_⟩
    · rw [fail_stack]; exact hp.stack
    · rw [fail_vals]; exact hp.vals
    · have := fail_err_isSome (s.purgePeers o) (.uaf o)
      intro h; rw [h] at this; cases this

end Cactus
