import Cactus.Lemmas.Termination.Step
import Cactus.Lemmas.Termination.NoFuel
/-!
# Termination of the teardown: the drop returns

For every state in which no destructor script contains `makeMut` (`State.NoMM`, class (b); the
general statement is false, see `Termination/Loop.lean`):

* `teardown_terminates`: within `s.work` machine steps the control stack is empty or an error is
  raised;
* `drain_no_fuel_error`: `drain f s` with `s.work ≤ f` never ends in `err = some .fuel`;
  `drain_finishes`: it ends with an empty stack or another error;
* `execOp_no_fuel_error`, `execOp_no_fuel_of_work`, `run_no_fuel_error` (a static condition:
  `6·#ops + 7·Σ script lengths ≤ defaultFuel` for histories without `makeMut`),
  `State.work_le_size` (the measure in terms of heap size, stored handles and script lengths);
* `NoMM_of_noScripts`: class (a) (no scripts at all) is an instance.
-/
namespace Cactus
open State

/-! ## termination -/

/-- **the teardown terminates**: at most `s.work` machine steps -/
theorem teardown_terminates (s : State) (hq : s.NoMM) :
    ∃ k, k ≤ s.work ∧ ((runSteps k s).stack = [] ∨ (runSteps k s).err ≠ none) := by
  generalize hn : s.work = n
  induction n using Nat.strongRecOn generalizing s with
  | _ n ih =>
    cases he : s.err with
    | some e => exact ⟨0, Nat.zero_le _, Or.inr (by simp [runSteps, he])⟩
    | none =>
      by_cases hst : s.stack = []
      · exact ⟨0, Nat.zero_le _, Or.inl hst⟩
      · have hpos := work_pos_of_stack hst
        rcases step_work_lt_of_noMM s hq he hst with h | h
        · exact ⟨1, by omega, Or.inr h⟩
        · obtain ⟨k, hk, hfin⟩ := ih (step s).work (by omega) (step s) (step_noMM s hq) rfl
          exact ⟨k + 1, by omega, hfin⟩

/-- an error is sticky through `drain` -/
theorem drain_err_of_err {t : State} {e : Err} (h : t.err = some e) (f : Nat) : (drain f t).err = some e := by
  cases f with
  | zero =>
    unfold drain
    split
    · exact h
    · exact fail_err_of_some t _ e h
  | succ f =>
    unfold drain
    split
    · rename_i h1 _; rw [h] at h1; cases h1
    · exact h

theorem drain_succ_running {s : State} (he : s.err = none) (hst : s.stack ≠ []) (f : Nat) :
    drain (f + 1) s = drain f (step s) := by
  cases hs : s.stack with
  | nil => exact absurd hs hst
  | cons a r => simp [drain, he, hs]

/-- **the step budget suffices**: `drain` with at least `s.work` fuel never reports `.fuel` -/
theorem drain_no_fuel_error (f : Nat) (s : State) (hq : s.NoMM) (he : s.err = none) (hf : s.work ≤ f) :
    (drain f s).err ≠ some .fuel := by
  induction f generalizing s with
  | zero =>
    by_cases hst : s.stack = []
    · rw [drain_of_stack_nil _ _ hst, he]; simp
    · have := work_pos_of_stack hst; omega
  | succ f ih =>
    by_cases hst : s.stack = []
    · rw [drain_of_stack_nil _ _ hst, he]; simp
    · rw [drain_succ_running he hst]
      cases hse : (step s).err with
      | some e =>
        rw [drain_err_of_err hse]
        intro h
        cases h
        have := step_err_fuel s hse
        rw [he] at this; cases this
      | none =>
        rcases step_work_lt_of_noMM s hq he hst with h | h
        · exact absurd hse h
        · exact ih (step s) (step_noMM s hq) hse (by omega)

/-- … and, the budget being sufficient, `drain` stops because the stack is empty or because of an
error that is not `.fuel`; the work has not grown -/
theorem drain_finishes (f : Nat) (s : State) (hq : s.NoMM) (he : s.err = none) (hf : s.work ≤ f) :
    ((drain f s).err = none ∧ (drain f s).stack = [] ∧ (drain f s).work ≤ s.work)
    ∨ ((drain f s).err ≠ none ∧ (drain f s).err ≠ some .fuel) := by
  induction f generalizing s with
  | zero =>
    by_cases hst : s.stack = []
    · rw [drain_of_stack_nil _ _ hst]; exact Or.inl ⟨he, hst, Nat.le_refl _⟩
    · have := work_pos_of_stack hst; omega
  | succ f ih =>
    by_cases hst : s.stack = []
    · rw [drain_of_stack_nil _ _ hst]; exact Or.inl ⟨he, hst, Nat.le_refl _⟩
    · rw [drain_succ_running he hst]
      cases hse : (step s).err with
      | some e =>
        rw [drain_err_of_err hse]
        refine Or.inr ⟨by simp, ?_⟩
        intro h
        cases h
        have := step_err_fuel s hse
        rw [he] at this; cases this
      | none =>
        rcases step_work_lt_of_noMM s hq he hst with h | h
        · exact absurd hse h
        · rcases ih (step s) (step_noMM s hq) hse (by omega) with ⟨h1, h2, h3⟩ | h1
          · exact Or.inl ⟨h1, h2, by omega⟩
          · exact Or.inr h1

theorem drain_noMM (f : Nat) (s : State) (hq : s.NoMM) : (drain f s).NoMM := by
  induction f generalizing s with
  | zero =>
    unfold drain
    split
    · exact hq
    · exact (SLe.fail _ _).scriptsQ hq
  | succ f ih =>
    unfold drain
    split
    · exact ih _ (step_noMM s hq)
    · exact hq

/-! ## one operation -/

/-- scripts installed by the operation contain no `makeMut` (a top-level `makeMut` is harmless) -/
def Op.scriptNoMM : Op → Prop
  | .setScript _ acts => ∀ a ∈ acts, a.notMakeMut
  | _ => True

/-- length of the script the operation installs -/
def Op.scriptLen : Op → Nat
  | .setScript _ acts => acts.length
  | _ => 0

theorem applyOp_noMM (s : State) (op : Op) (hop : op.scriptNoMM) (hq : s.NoMM) : (applyOp s op).NoMM := by
  cases op with
  | act a => exact applyAct_scriptsQ s [] [] a hq
  | setScript q acts => exact applyOp_scriptsQ s _ hop hq
  | shuffle q i => exact applyOp_scriptsQ s _ trivial hq

theorem endOp_work (s : State) : (endOp s).work = s.work := by
  unfold endOp; split <;> rfl

theorem endOp_noMM (s : State) (hq : s.NoMM) : (endOp s).NoMM := endOp_scriptsQ s hq

/-- an operation whose initial work is within the budget does not report `.fuel` -/
theorem execOp_no_fuel_error (fuel : Nat) (s : State) (op : Op) (hint : List Nat)
    (he : s.err ≠ some .fuel) (hq : (applyOp (s.begin hint) op).NoMM)
    (hw : (applyOp (s.begin hint) op).work ≤ fuel) :
    (execOp fuel s op hint).err ≠ some .fuel := by
  unfold execOp
  split
  · exact he
  · rename_i hse
    rw [endOp_err]
    cases ha : (applyOp (s.begin hint) op).err with
    | some e =>
      have : (drain fuel (applyOp { s with hint := hint } op)).err = some e := drain_err_of_err ha fuel
      rw [this]
      intro h
      cases h
      have := applyOp_err_fuel (s.begin hint) op ha
      exact he this
    | none => exact drain_no_fuel_error fuel _ hq ha hw

/-- the same from the state *before* the operation: `2·work + 6 + 7·|installed script|` -/
theorem execOp_no_fuel_of_work (fuel : Nat) (s : State) (op : Op) (hint : List Nat)
    (he : s.err ≠ some .fuel) (hq : s.NoMM) (hop : op.scriptNoMM)
    (hw : 2 * s.work + 6 + 7 * op.scriptLen ≤ fuel) :
    (execOp fuel s op hint).err ≠ some .fuel := by
  have hq' : (applyOp (s.begin hint) op).NoMM := applyOp_noMM _ op hop (begin_scriptsQ s hint hq)
  rcases applyOp_work (s.begin hint) op with h | h
  · unfold execOp
    split
    · exact he
    · rw [endOp_err]
      cases ha : (applyOp (s.begin hint) op).err with
      | none => exact absurd ha h
      | some e =>
        have : (drain fuel (applyOp { s with hint := hint } op)).err = some e := drain_err_of_err ha fuel
        rw [this]
        intro h'
        cases h'
        exact he (applyOp_err_fuel (s.begin hint) op ha)
  · refine execOp_no_fuel_error fuel s op hint he hq' (Nat.le_trans h ?_)
    have : (s.begin hint).work = s.work := rfl
    rw [this]
    cases op <;> simpa [Op.scriptLen] using hw

instance : DecidablePred Op.scriptNoMM := fun op => by
  cases op <;> simp only [Op.scriptNoMM] <;> infer_instance

instance : DecidablePred (Op.S Act.notMakeMut) := fun op => by
  cases op <;> simp only [Op.S] <;> infer_instance

/-- class (b) is an invariant of histories that install no script containing `makeMut` (a top-level
`makeMut` is allowed: it clones scripts that are in the class) -/
theorem execOp_noMM (fuel : Nat) (s : State) (op : Op) (hint : List Nat) (hq : s.NoMM)
    (hop : op.scriptNoMM) : (execOp fuel s op hint).NoMM := by
  unfold execOp
  split
  · exact hq
  · exact endOp_noMM _ (drain_noMM fuel _ (applyOp_noMM _ op hop (begin_scriptsQ s hint hq)))

theorem run_noMM (ops : List (Op × List Nat)) (hops : ∀ oh ∈ ops, oh.1.scriptNoMM) : (run ops).NoMM := by
  unfold run
  have key : ∀ (l : List (Op × List Nat)) (s : State), s.NoMM → (∀ oh ∈ l, oh.1.scriptNoMM) →
      (l.foldl (fun s oh => execOp defaultFuel s oh.1 oh.2) s).NoMM := by
    intro l
    induction l with
    | nil => intro s hs _; exact hs
    | cons x l ih =>
      intro s hs hl
      rw [List.foldl_cons]
      exact ih _ (execOp_noMM _ s x.1 x.2 hs (hl x List.mem_cons_self))
        (fun y hy => hl y (List.mem_cons_of_mem _ hy))
  exact key ops {} ScriptsQ_init hops

/-! ## whole histories without `makeMut` -/

/-- without `makeMut` an operation adds at most `6 + 7·|installed script|` -/
theorem applyOp_work_noMM (s : State) (op : Op) (hop : op.S Act.notMakeMut) :
    (applyOp s op).err ≠ none ∨ (applyOp s op).work ≤ s.work + 6 + 7 * op.scriptLen := by
  cases op with
  | act a =>
    rcases applyAct_work s [] [] a hop with h | h
    · exact Or.inl h
    · exact Or.inr (by simpa [applyOp, Op.scriptLen] using h)
  | setScript q acts =>
    rcases applyOp_work s (.setScript q acts) with h | h
    · exact Or.inl h
    · right
      simp only [Op.scriptLen]
      simp only [applyOp]
      split
      · refine Nat.le_trans (modVal_work_le s _ _ (7 * acts.length) ?_) (by omega)
        intro v; simp only [Val.cost]; omega
      · rw [(Same.badRoot s q).work]; omega
  | shuffle q i =>
    right
    simp only [applyOp]
    split
    · rw [(Same.setLinks s _ _).work]; omega
    · rw [(Same.badRoot s q).work]; omega

theorem Op.scriptNoMM_of_S {op : Op} (h : op.S Act.notMakeMut) : op.scriptNoMM := by
  cases op <;> first | exact h | trivial

/-- one operation of a `makeMut`-free history: no `.fuel`, and the work grows by `6 + 7·len` at most -/
theorem execOp_noMM_step (fuel : Nat) (s : State) (op : Op) (hint : List Nat)
    (he : s.err ≠ some .fuel) (hq : s.NoMM) (hop : op.S Act.notMakeMut)
    (hw : s.work + 6 + 7 * op.scriptLen ≤ fuel) :
    (execOp fuel s op hint).err ≠ some .fuel ∧ (execOp fuel s op hint).NoMM
    ∧ ((execOp fuel s op hint).err = none → (execOp fuel s op hint).work ≤ s.work + 6 + 7 * op.scriptLen) := by
  have hq' : (applyOp (s.begin hint) op).NoMM :=
    applyOp_noMM _ op (Op.scriptNoMM_of_S hop) (begin_scriptsQ s hint hq)
  unfold execOp
  split
  · rename_i e hse
    exact ⟨he, hq, fun h => by rw [hse] at h; cases h⟩
  · rename_i hse
    refine ⟨?_, endOp_noMM _ (drain_noMM fuel _ hq'), ?_⟩
    · have := execOp_no_fuel_error fuel s op hint he hq'
      rcases applyOp_work_noMM (s.begin hint) op hop with h | h
      · rw [endOp_err]
        cases ha : (applyOp (s.begin hint) op).err with
        | none => exact absurd ha h
        | some e =>
          have : (drain fuel (applyOp { s with hint := hint } op)).err = some e := drain_err_of_err ha fuel
          rw [this]
          intro h'
          cases h'
          exact he (applyOp_err_fuel (s.begin hint) op ha)
      · have h2 := this (Nat.le_trans h hw)
        unfold execOp at h2
        simpa only [hse] using h2
    · rw [endOp_err, endOp_work]
      intro hd
      cases ha : (applyOp (s.begin hint) op).err with
      | some e =>
        have : (drain fuel (applyOp { s with hint := hint } op)).err = some e := drain_err_of_err ha fuel
        rw [this] at hd; cases hd
      | none =>
        rcases applyOp_work_noMM (s.begin hint) op hop with h | h
        · exact absurd ha h
        · have hb : (s.begin hint).work = s.work := rfl
          rw [hb] at h
          rcases drain_finishes fuel _ hq' ha (Nat.le_trans h hw) with ⟨_, _, h3⟩ | ⟨h1, _⟩
          · exact Nat.le_trans h3 h
          · exact absurd hd h1

theorem foldl_execOp_no_fuel (fuel : Nat) (ops : List (Op × List Nat)) (s : State)
    (he : s.err ≠ some .fuel) (hq : s.NoMM) (hops : ∀ oh ∈ ops, oh.1.S Act.notMakeMut)
    (hw : s.work + 6 * ops.length + 7 * (ops.map (·.1.scriptLen)).sum ≤ fuel) :
    (ops.foldl (fun s oh => execOp fuel s oh.1 oh.2) s).err ≠ some .fuel := by
  induction ops generalizing s with
  | nil => exact he
  | cons oh ops ih =>
    simp only [List.length_cons, List.map_cons, List.sum_cons] at hw
    obtain ⟨h1, h2, h3⟩ := execOp_noMM_step fuel s oh.1 oh.2 he hq (hops oh List.mem_cons_self) (by omega)
    rw [List.foldl_cons]
    cases hd : (execOp fuel s oh.1 oh.2).err with
    | some e =>
      -- an error: the rest of the history is skipped
      have hskip : ∀ (l : List (Op × List Nat)) (t : State), t.err = some e →
          (l.foldl (fun s oh => execOp fuel s oh.1 oh.2) t) = t := by
        intro l
        induction l with
        | nil => intro t _; rfl
        | cons x l ihl =>
          intro t ht
          rw [List.foldl_cons]
          have : execOp fuel t x.1 x.2 = t := by unfold execOp; simp [ht]
          rw [this]; exact ihl t ht
      rw [hskip ops _ hd]; exact h1
    | none =>
      have := h3 hd
      exact ih _ h1 h2 (fun x hx => hops x (List.mem_cons_of_mem _ hx)) (by omega)

/-- **a static sufficient condition**: a history without `makeMut` (neither as an action nor in a
destructor script) with `6·#operations + 7·Σ script lengths ≤ defaultFuel` never reports `.fuel` -/
theorem run_no_fuel_error (ops : List (Op × List Nat)) (hops : ∀ oh ∈ ops, oh.1.S Act.notMakeMut)
    (hsize : 6 * ops.length + 7 * (ops.map (·.1.scriptLen)).sum ≤ defaultFuel) :
    (run ops).err ≠ some .fuel := by
  unfold run
  refine foldl_execOp_no_fuel defaultFuel ops {} (by simp) ScriptsQ_init hops ?_
  have : ({} : State).work = 0 := rfl
  omega

/-! ## the measure in terms of sizes -/

/-- every value of the state that is not on the control stack -/
def State.storedVals (s : State) : List Val := s.heap.filterMap (·.value) ++ s.vals

/-- handles (strong and Weak) stored in values -/
def State.storedHandles (s : State) : Nat := (s.storedVals.map (fun v => v.held.length + v.weaks.length)).sum

/-- total length of the destructor scripts of the values -/
def State.scriptTotal (s : State) : Nat := (s.storedVals.map (fun v => v.script.length)).sum

theorem heapW_le (h : List Obj) :
    heapW h ≤ 6 * h.length + 3 * ((h.filterMap (·.value)).map (fun v => v.held.length + v.weaks.length)).sum
      + 7 * ((h.filterMap (·.value)).map (fun v => v.script.length)).sum := by
  induction h with
  | nil => simp
  | cons ob h ih =>
    cases hv : ob.value with
    | none => simp [hv]; omega
    | some v => simp [hv, Val.cost]; omega

theorem valsW_le (l : List Val) :
    valsW l ≤ 6 * l.length + 3 * (l.map (fun v => v.held.length + v.weaks.length)).sum
      + 7 * (l.map (fun v => v.script.length)).sum := by
  induction l with
  | nil => simp
  | cons v l ih => simp [Val.cost]; omega

/-- the measure of a state is bounded by the stack plus `6·(#allocations + #unwrapped values)
+ 3·#stored handles + 7·Σ script lengths` -/
theorem State.work_le_size (s : State) :
    s.work ≤ stackW s.stack + 6 * (s.heap.length + s.vals.length) + 3 * s.storedHandles + 7 * s.scriptTotal := by
  have h1 := heapW_le s.heap
  have h2 := valsW_le s.vals
  simp only [State.work, State.storedHandles, State.scriptTotal, State.storedVals, List.map_append,
    List.sum_append]
  omega

/-- an operation on a quiescent state, in terms of sizes -/
theorem execOp_no_fuel_of_size (fuel : Nat) (s : State) (op : Op) (hint : List Nat)
    (he : s.err ≠ some .fuel) (hst : s.stack = []) (hq : s.NoMM) (hop : op.scriptNoMM)
    (hw : 12 * (s.heap.length + s.vals.length) + 6 * s.storedHandles + 14 * s.scriptTotal + 6
      + 7 * op.scriptLen ≤ fuel) :
    (execOp fuel s op hint).err ≠ some .fuel := by
  refine execOp_no_fuel_of_work fuel s op hint he hq hop ?_
  have := s.work_le_size
  rw [hst] at this
  simp only [stackW_nil] at this
  omega

/-! ## class (a): no scripts at all -/

theorem ScriptsQ_mono {Q Q' : Act → Prop} (hQ : ∀ a, Q a → Q' a) {s : State} (h : s.ScriptsQ Q) :
    s.ScriptsQ Q' := by
  refine ⟨?_, ?_, ?_⟩
  · intro f hf
    have := h.1 f hf
    cases f <;> first | trivial | exact fun a ha => hQ a (this a ha)
  · intro o ob v hg hv a ha
    exact hQ a (h.2.1 o ob v hg hv a ha)
  · intro v hv a ha
    exact hQ a (h.2.2 v hv a ha)

/-- class (a): states in which every destructor script is empty (in particular: all values
`quiet`) are in class (b) -/
theorem NoMM_of_noScripts {s : State} (h : s.ScriptsQ (fun _ => False)) : s.NoMM :=
  ScriptsQ_mono (fun _ hf => hf.elim) h

theorem teardown_terminates_noScripts (s : State) (h : s.ScriptsQ (fun _ => False)) :
    ∃ k, k ≤ s.work ∧ ((runSteps k s).stack = [] ∨ (runSteps k s).err ≠ none) :=
  teardown_terminates s (NoMM_of_noScripts h)

end Cactus
