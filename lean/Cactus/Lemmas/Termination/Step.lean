import Cactus.Lemmas.Termination.Acts
/-!
# Termination of the teardown, part 5: every machine step decreases `State.work`

…except the step that executes a `makeMut` action of a destructor script (`step_work_lt`, no
hypothesis on the state besides that).  `State.NoMM`: no destructor script anywhere in the state
(running, pending, in the heap, among the unwrapped values) contains `makeMut`; it is preserved by
every step (`step_scriptsQ`) and excludes that case (`step_work_lt_of_noMM`).
-/
namespace Cactus
open State

/-- actions that are not `makeMut` -/
def Act.notMakeMut (a : Act) : Prop := a.isMakeMut = false

instance : DecidablePred Act.notMakeMut := fun a => inferInstanceAs (Decidable (a.isMakeMut = false))

/-- no destructor script in the state contains `makeMut` (class (b)) -/
abbrev State.NoMM (s : State) : Prop := s.ScriptsQ Act.notMakeMut

theorem Frame.work_pos (f : Frame) : 0 < f.work := by
  cases f <;> simp [Frame.work] <;> omega

theorem work_of_stack {s : State} {f : Frame} {rest : List Frame} (hst : s.stack = f :: rest) :
    s.work = f.work + ({ s with stack := rest } : State).work := by
  simp only [State.work, hst, stackW_cons]; omega

theorem work_pos_of_stack {s : State} (hst : s.stack ≠ []) : 0 < s.work := by
  cases h : s.stack with
  | nil => exact absurd h hst
  | cons f rest => have := f.work_pos; rw [work_of_stack h]; omega

/-- **the measure decreases**: one machine step from a running state either raises an error or
strictly decreases `work`, unless it executes a `makeMut` action of a destructor script -/
theorem step_work_lt (s : State) (he : s.err = none) (hst : s.stack ≠ [])
    (hmm : ∀ h w r as rest, s.stack ≠ .script h w (.makeMut r :: as) :: rest) :
    (step s).err ≠ none ∨ (step s).work < s.work := by
  cases hs : s.stack with
  | nil => exact absurd hs hst
  | cons f rest =>
    have hw := work_of_stack hs
    have e := step_eq_frame he hs
    cases f with
    | rcDrop o =>
      have := rcDrop_work ({ s with stack := rest } : State) o
      right; rw [e, hw]; simp only [Frame.work]; omega
    | weakDrop o =>
      have := (Same.weakDrop ({ s with stack := rest } : State) o).work
      right; rw [e, hw]; simp only [Frame.work]; omega
    | dropVal v =>
      have := dropVal_work ({ s with stack := rest } : State) v
      right; rw [e, hw]; simp only [Frame.work]; omega
    | script h w acts =>
      cases acts with
      | nil => right; rw [e, hw]; simp only [Frame.work]; omega
      | cons a as =>
        have ha : a.isMakeMut = false := by
          cases a <;> first | rfl | exact absurd hs (hmm _ _ _ _ _)
        have hp : (({ s with stack := rest } : State).push [.script h w as]).work
            = ({ s with stack := rest } : State).work + (1 + 7 * as.length) := by
          simp only [State.work, tw_push_stack, tw_push_vals, tw_push_heap, stackW_cons, stackW_nil,
            Frame.work]; omega
        rcases applyAct_work (({ s with stack := rest } : State).push [.script h w as]) h w a ha with h1 | h1
        · left; rw [e]; exact h1
        · right; rw [e, hw]; simp only [Frame.work, List.length_cons]; omega
    | panic =>
      have := panic_work ({ s with stack := rest } : State)
      right; rw [e, hw]; simp only [Frame.work]; omega
    | dropFields h w =>
      have := dropFields_work ({ s with stack := rest } : State) h w
      right; rw [e, hw]; simp only [Frame.work]; omega
    | finishSingle o =>
      have := (Same.finishSingle ({ s with stack := rest } : State) o).work
      right; rw [e, hw]; simp only [Frame.work]; omega
    | phase3 ks =>
      have := (Same.foldl _ Same.phase3One ks ({ s with stack := rest } : State)).work
      right; rw [e, hw]; simp only [Frame.work]; omega

theorem step_work_lt_of_noMM (s : State) (hq : s.NoMM) (he : s.err = none) (hst : s.stack ≠ []) :
    (step s).err ≠ none ∨ (step s).work < s.work := by
  refine step_work_lt s he hst ?_
  intro h w r as rest hs
  have := hq.1 (.script h w (.makeMut r :: as)) (by rw [hs]; exact List.mem_cons_self)
  exact absurd (this (.makeMut r) List.mem_cons_self) (by simp [Act.notMakeMut, Act.isMakeMut])

theorem step_noMM (s : State) (hq : s.NoMM) : (step s).NoMM := step_scriptsQ s hq

theorem runSteps_noMM (k : Nat) (s : State) (hq : s.NoMM) : (runSteps k s).NoMM := by
  induction k generalizing s with
  | zero => exact hq
  | succ k ih => exact ih _ (step_noMM s hq)

end Cactus
