import Cactus.Lemmas.Termination.Prims
/-!
# Termination of the teardown, part 3: one user-level action and the measure

Every action except the clone branch of `makeMut` adds at most 6 to `State.work`
(`applyAct_work`); `makeMut` at most doubles it (`applyAct_work_makeMut`: the cloned value, script
included, is already counted once in the heap).
-/
namespace Cactus
open State

def Act.isMakeMut : Act → Bool
  | .makeMut _ => true
  | _ => false

/-- unfold `work` of a term built from the primitives -/
macro "tw_simp" : tactic =>
  `(tactic| simp only [State.work, tw_fail_stack, tw_fail_vals, tw_fail_heap, tw_emit_stack, tw_emit_vals,
      tw_emit_heap, tw_push_stack, tw_push_vals, tw_push_heap, tw_incStrong_stack, tw_incStrong_vals,
      tw_incStrong_heap, tw_incWeak_stack, tw_incWeak_vals, tw_incWeak_heap, tw_adopt_stack, tw_adopt_vals,
      tw_adopt_heap, tw_unadopt_stack, tw_unadopt_vals, tw_unadopt_heap, tw_badRoot_stack, tw_badRoot_vals,
      tw_badRoot_heap, tw_cloneHandles_stack, tw_cloneHandles_vals, tw_cloneHandles_heap, tw_alloc_stack,
      tw_alloc_vals, tw_alloc_heap, tw_modVal_stack, tw_modVal_vals, stackW_cons, stackW_nil, Frame.work,
      valsW_append, valsW_cons, valsW_nil, Val.cost, List.length_nil, List.length_cons, List.length_append])

macro "tw_easy" : tactic => `(tactic| (right; (try tw_simp); omega))

theorem applyAct_work (s : State) (fh fw : List Nat) (a : Act) (ha : a.isMakeMut = false) :
    (applyAct s fh fw a).err ≠ none ∨ (applyAct s fh fw a).work ≤ s.work + 6 := by
  cases a with
  | makeMut r => cases ha
  | new => simp only [applyAct]; tw_easy
  | clone r => simp only [applyAct]; split <;> tw_easy
  | drop r => simp only [applyAct]; split <;> tw_easy
  | adopt r1 r2 => simp only [applyAct]; split <;> tw_easy
  | unadopt r1 r2 => simp only [applyAct]; split <;> tw_easy
  | downgrade r => simp only [applyAct]; split <;> tw_easy
  | upgrade w => simp only [applyAct]; (repeat' split) <;> tw_easy
  | cloneWeak w => simp only [applyAct]; split <;> tw_easy
  | dropWeak w => simp only [applyAct]; split <;> tw_easy
  | getMut r => simp only [applyAct]; (repeat' split) <;> tw_easy
  | intoRaw r => simp only [applyAct]; split <;> tw_easy
  | fromRaw i => simp only [applyAct]; split <;> tw_easy
  | incStrong i => simp only [applyAct]; (repeat' split) <;> tw_easy
  | decStrong i => simp only [applyAct]; (repeat' split) <;> tw_easy
  | ptrEq r1 r2 => simp only [applyAct]; split <;> tw_easy
  | counts r => simp only [applyAct]; (repeat' split) <;> tw_easy
  | wcounts w => simp only [applyAct]; (repeat' split) <;> tw_easy
  | upgradeField k => simp only [applyAct]; (repeat' split) <;> tw_easy
  | cloneField k => simp only [applyAct]; split <;> tw_easy
  | downgradeField k => simp only [applyAct]; split <;> tw_easy
  | store r q =>
    simp only [applyAct]
    split
    · split
      · tw_easy
      · refine Or.inr (Nat.le_trans (modVal_work_le _ _ _ 3 ?_) ?_)
        · intro v; simp only [Val.cost, List.length_append, List.length_cons, List.length_nil]; omega
        · tw_simp; omega
    · tw_easy
  | take q k =>
    simp only [applyAct]
    split
    · split
      · split
        · refine Or.inr (Nat.le_trans (modVal_work_le s _ _ 0 ?_) ?_)
          · intro v
            have := List.length_eraseIdx_le v.held (idxMod v.held k)
            simp only [Val.cost]; omega
          · omega
        · tw_easy
      · tw_easy
    · tw_easy
  | link r q =>
    simp only [applyAct]
    split
    · split
      · tw_easy
      · refine Or.inr (Nat.le_trans (modVal_work_le _ _ _ 3 ?_) ?_)
        · intro v; simp only [Val.cost, List.length_append, List.length_cons, List.length_nil]; omega
        · tw_simp; omega
    · tw_easy
  | unlink q k =>
    simp only [applyAct]
    split
    · split
      · split
        · rename_i _ o _ _ v _ _ t _
          have hm := modVal_work_le s o (fun v => { v with held := v.held.eraseIdx (idxMod v.held k) }) 0 (by
            intro v
            have := List.length_eraseIdx_le v.held (idxMod v.held k)
            simp only [Val.cost]; omega)
          simp only [State.work, tw_modVal_stack, tw_modVal_vals] at hm
          right
          split <;> tw_simp <;> omega
        · tw_easy
      · tw_easy
    · tw_easy
  | storeWeak w q =>
    simp only [applyAct]
    split
    · refine Or.inr (Nat.le_trans (modVal_work_le _ _ _ 2 ?_) ?_)
      · intro v; simp only [Val.cost, List.length_append, List.length_cons, List.length_nil]; omega
      · tw_simp; omega
    · tw_easy
    · tw_easy
  | setPanic q =>
    simp only [applyAct]
    split
    · exact Or.inr (Nat.le_trans (modVal_work_le s _ _ 0 (fun v => Nat.le_refl _)) (by omega))
    · tw_easy
  | setShallow q =>
    simp only [applyAct]
    split
    · exact Or.inr (Nat.le_trans (modVal_work_le s _ _ 0 (fun v => Nat.le_refl _)) (by omega))
    · tw_easy
  | dropValue i =>
    simp only [applyAct]
    split
    · rename_i v hv
      have := valsW_eraseIdx (getElem?_idxMod_of_nthMod hv)
      right; tw_simp; simp only [Val.cost] at this; omega
    · tw_easy
  | tryUnwrap r =>
    simp only [applyAct]
    split
    · split
      · split
        · rename_i _ o _ _ ob hc _ _ v hst hv
          obtain ⟨h1, h2, h3⟩ := giveUp_work
            ({ s with roots := s.roots.eraseIdx (idxMod s.roots r), vals := s.vals ++ [v] } : State) o ob
            (cell_some_get s o ob hc).1
          rcases h3 with h3 | h3
          · exact Or.inl h3
          · right
            rw [hv] at h3
            simp only [State.work, tw_emit_stack, tw_emit_vals, tw_emit_heap, h1, h2, valsW_append,
              valsW_cons, valsW_nil]
            simp only [optW_some] at h3
            omega
        · tw_easy
        · tw_easy
      · tw_easy
    · tw_easy

/-- `make_mut`: the clone branch copies a value that is counted in the heap, so the work at most
doubles; the other branches move the value or do nothing -/
theorem applyAct_work_makeMut (s : State) (fh fw : List Nat) (r : Nat) :
    (applyAct s fh fw (.makeMut r)).err ≠ none ∨ (applyAct s fh fw (.makeMut r)).work ≤ 2 * s.work + 5 := by
  simp only [applyAct]
  split
  · split
    · split
      · rename_i _ o _ _ ob hc _ v hv
        have hg := (cell_some_get s o ob hc).1
        have hle := optW_le_heapW hg
        rw [hv, optW_some] at hle
        split
        · right
          split
          · tw_simp
            simp only [Val.cost] at hle
            omega
          · tw_simp
            simp only [Val.cost] at hle
            omega
        · split
          · obtain ⟨h1, h2, h3⟩ := giveUp_work
              ({ (s.alloc v) with roots := (s.alloc v).roots.set (idxMod s.roots r) s.heap.length } : State) o ob
              (get_alloc_of_get v hg)
            rcases h3 with h3 | h3
            · exact Or.inl h3
            · right
              rw [hv, optW_some] at h3
              simp only [tw_alloc_heap] at h3
              simp only [State.work, tw_emit_stack, tw_emit_vals, tw_emit_heap, h1, h2, tw_alloc_stack, tw_alloc_vals]
              omega
          · tw_easy
      · tw_easy
    · tw_easy
  · tw_easy

/-- every action: `work` at most doubles, plus 6 -/
theorem applyAct_work_any (s : State) (fh fw : List Nat) (a : Act) :
    (applyAct s fh fw a).err ≠ none ∨ (applyAct s fh fw a).work ≤ 2 * s.work + 6 := by
  cases h : a.isMakeMut with
  | false => rcases applyAct_work s fh fw a h with h | h
             · exact Or.inl h
             · exact Or.inr (by omega)
  | true =>
    cases a <;> simp [Act.isMakeMut] at h
    rename_i r
    rcases applyAct_work_makeMut s fh fw r with h | h
    · exact Or.inl h
    · exact Or.inr (by omega)

/-- a top-level operation: an action, or the installation of a script (7 per action) -/
theorem applyOp_work (s : State) (op : Op) :
    (applyOp s op).err ≠ none
    ∨ (applyOp s op).work ≤ 2 * s.work + 6 + 7 * (match op with | .setScript _ acts => acts.length | _ => 0) := by
  cases op with
  | act a => simpa [applyOp] using applyAct_work_any s [] [] a
  | setScript q acts =>
    simp only [applyOp]
    split
    · refine Or.inr (Nat.le_trans (modVal_work_le s _ _ (7 * acts.length) ?_) (by omega))
      intro v; simp only [Val.cost]; omega
    · right; rw [(Same.badRoot s q).work]; omega
  | shuffle q i =>
    simp only [applyOp]
    split
    · right; rw [(Same.setLinks s _ _).work]; omega
    · right; rw [(Same.badRoot s q).work]; omega

end Cactus
