import Cactus.Lemmas.Termination.Main
/-!
# Termination of the teardown: the general statement is false (`makeMut` in a destructor)

A destructor script may call `make_mut` on a *shared* handle to an object whose value carries the
same script: the clone branch copies the value **with its script** into a fresh allocation; the
script then drops the fresh handle, which destroys the copy, whose destructor runs the same
script again…  In Rust terms: `impl Drop for Node { fn drop(&mut self) { let mut h =
PROTOTYPE.clone(); Rc::make_mut(&mut h); drop(h) } }` where `Node: Clone` — an unbounded
recursion of `drop`.

History: `new; setScript 0 [clone 0, makeMut 1, drop 1]; clone 0; makeMut 1; drop 1`.
The last operation never returns: `makeMut_loop_never_returns` (for **every** step budget the
operation ends with `err = some .fuel`), by the loop invariant `loop_six_steps` (six machine steps
lead from `loopState n` to `loopState (n + 1)`); `loop_work` shows the measure growing by 3 per
round (the `makeMut` step adds 22, the other five steps remove 19).
-/
namespace Cactus.TerminationLoop
open Cactus State

def loopScript : List Act := [.clone 0, .makeMut 1, .drop 1]

def loopVal (k : Nat) : Val := { vid := k, held := [], weaks := [], script := loopScript, panics := false }

/-- the prototype: object 0, one program handle, carries the script -/
def proto (n : Nat) : Obj :=
  { strong := .cnt n, weak := 1, links := some [], value := some (loopVal 0), freed := false }

/-- an allocation whose value has been moved out by `drop_unreachable` and whose destructor is
still running -/
def husk : Obj := { strong := .uninit, weak := 1, links := some [], value := none, freed := false }

def fresh (k : Nat) : Obj :=
  { strong := .cnt 1, weak := 1, links := some [], value := some (loopVal k), freed := false }

/-- the shape of the state every sixth step -/
def loopShape (tl : List Obj) (rest : List Frame) (lg : List Ev) (j nv : Nat) : State :=
  { heap := proto 1 :: tl, roots := [0], stack := .dropVal (loopVal j) :: rest, log := lg, nextVid := nv }

theorem get_last {α : Type} (a x : α) (tl : List α) : (a :: (tl ++ [x]))[tl.length + 1]? = some x := by
  simp

theorem set_last {α : Type} (a x y : α) (tl : List α) :
    (a :: (tl ++ [x])).set (tl.length + 1) y = a :: (tl ++ [y]) := by
  simp

/-- after steps 1–4 of a round: `dropVal`, `clone 0`, `makeMut 1` (clone branch), the old handle
dropped; the script is about to drop the fresh handle -/
def mid4 (tl : List Obj) (rest : List Frame) (lg : List Ev) (j nv : Nat) : State :=
  { heap := proto 1 :: (tl ++ [fresh nv]), roots := [0, tl.length + 1],
    stack := .script [] [] [.drop 1] :: .dropFields [] [] :: rest,
    log := lg ++ [.destroyed j, .ret 2], nextVid := nv + 1 }

/-- after step 5: `drop 1` has pushed the `rcDrop` of the fresh handle -/
def mid5 (tl : List Obj) (rest : List Frame) (lg : List Ev) (j nv : Nat) : State :=
  { heap := proto 1 :: (tl ++ [fresh nv]), roots := [0],
    stack := .rcDrop (tl.length + 1) :: .script [] [] [] :: .dropFields [] [] :: rest,
    log := lg ++ [.destroyed j, .ret 2], nextVid := nv + 1 }

/-- after step 1: the destructor body has been entered -/
def mid1 (tl : List Obj) (rest : List Frame) (lg : List Ev) (j nv : Nat) : State :=
  { heap := proto 1 :: tl, roots := [0],
    stack := .script [] [] loopScript :: .dropFields [] [] :: rest,
    log := lg ++ [.destroyed j], nextVid := nv }

/-- after step 2: `clone 0`, the prototype is shared -/
def mid2 (tl : List Obj) (rest : List Frame) (lg : List Ev) (j nv : Nat) : State :=
  { heap := proto 2 :: tl, roots := [0, 0],
    stack := .script [] [] [.makeMut 1, .drop 1] :: .dropFields [] [] :: rest,
    log := lg ++ [.destroyed j], nextVid := nv }

/-- after step 3: `makeMut 1` has cloned the prototype's value, script included, into a fresh
allocation and scheduled the drop of the handle it replaced -/
def mid3 (tl : List Obj) (rest : List Frame) (lg : List Ev) (j nv : Nat) : State :=
  { heap := proto 2 :: (tl ++ [fresh nv]), roots := [0, tl.length + 1],
    stack := .rcDrop 0 :: .script [] [] [.drop 1] :: .dropFields [] [] :: rest,
    log := lg ++ [.destroyed j, .ret 2], nextVid := nv + 1 }

theorem step_1 (tl : List Obj) (rest : List Frame) (lg : List Ev) (j nv : Nat) :
    step (loopShape tl rest lg j nv) = mid1 tl rest lg j nv := by
  simp [loopShape, mid1, step, State.dropVal, State.push, State.emit, loopVal]

theorem step_2 (tl : List Obj) (rest : List Frame) (lg : List Ev) (j nv : Nat) :
    step (mid1 tl rest lg j nv) = mid2 tl rest lg j nv := by
  simp [mid1, mid2, step, loopScript, applyAct, State.useRoot, nthMod, State.isLive, State.push,
    State.incStrong, State.cell, State.setObj, proto, Strong.isDead]

theorem step_3 (tl : List Obj) (rest : List Frame) (lg : List Ev) (j nv : Nat) :
    step (mid2 tl rest lg j nv) = mid3 tl rest lg j nv := by
  simp [mid2, mid3, step, applyAct, State.useRoot, nthMod, idxMod, State.isLive, State.push,
    State.cell, State.alloc, State.emit, State.cloneHandles, proto, fresh, loopVal, Strong.isDead]

theorem step_4 (tl : List Obj) (rest : List Frame) (lg : List Ev) (j nv : Nat) :
    step (mid3 tl rest lg j nv) = mid4 tl rest lg j nv := by
  simp [mid3, mid4, step, State.rcDrop, State.cell, State.setObj, proto]

theorem step_5 (tl : List Obj) (rest : List Frame) (lg : List Ev) (j nv : Nat) :
    step (mid4 tl rest lg j nv) = mid5 tl rest lg j nv := by
  simp [mid4, mid5, step, applyAct, State.useRoot, nthMod, idxMod, State.isLive, State.push, fresh,
    Strong.isDead]

/-- step 6: the count of the fresh allocation reaches zero: its value (a copy of the prototype's,
script included) is moved out and its destructor scheduled -/
theorem step_6 (tl : List Obj) (rest : List Frame) (lg : List Ev) (j nv : Nat) :
    step (mid5 tl rest lg j nv)
      = loopShape (tl ++ [husk])
          (.finishSingle (tl.length + 1) :: .script [] [] [] :: .dropFields [] [] :: rest)
          (lg ++ [.destroyed j, .ret 2]) nv (nv + 1) := by
  simp [mid5, step, State.rcDrop, State.cell, State.beginSingle, State.setObj, State.push, fresh, husk,
    loopShape]

/-- the six steps of one round, with an arbitrary tail of the heap and an arbitrary rest of the
stack -/
theorem six_steps (tl : List Obj) (rest : List Frame) (lg : List Ev) (j nv : Nat) :
    runSteps 6 (loopShape tl rest lg j nv)
      = loopShape (tl ++ [husk])
          (.finishSingle (tl.length + 1) :: .script [] [] [] :: .dropFields [] [] :: rest)
          (lg ++ [.destroyed j, .ret 2]) nv (nv + 1) := by
  show step (step (step (step (step (step _))))) = _
  rw [step_1, step_2, step_3, step_4, step_5, step_6]

/-! ## the rounds -/

def restN : Nat → List Frame
  | 0 => [.finishSingle 1]
  | n + 1 => .finishSingle (n + 2) :: .script [] [] [] :: .dropFields [] [] :: restN n

def logN : Nat → List Ev
  | 0 => [.ret 2]
  | n + 1 => logN n ++ [.destroyed (n + 1), .ret 2]

/-- the state at the beginning of round `n`: the prototype, `n + 1` husks whose destructors are all
still running (nested), the copy number `n + 1` about to be destroyed -/
def loopState (n : Nat) : State :=
  loopShape (List.replicate (n + 1) husk) (restN n) (logN n) (n + 1) (n + 2)

/-- **loop invariant**: six machine steps lead from round `n` to round `n + 1` -/
theorem loop_six_steps (n : Nat) : runSteps 6 (loopState n) = loopState (n + 1) := by
  unfold loopState
  rw [six_steps, ← List.replicate_succ', List.length_replicate]
  rfl

theorem loop_rounds (n : Nat) : runSteps (6 * n) (loopState 0) = loopState n := by
  induction n with
  | zero => rfl
  | succ n ih =>
    have : 6 * (n + 1) = 6 * n + 6 := by omega
    rw [this, runSteps_add, ih, loop_six_steps]

/-- the history: build the prototype, share it, `makeMut` one handle (first copy), … -/
def loopPre : List (Op × List Nat) :=
  [(.act .new, []), (.setScript 0 loopScript, []), (.act (.clone 0), []), (.act (.makeMut 1), [])]

/-- … and drop the copy: the state in which `drop 1` has pushed its `rcDrop` frame -/
def loopStart : State := applyOp ((run loopPre).begin []) (.act (.drop 1))

theorem loopPre_ok : (run loopPre).err = none ∧ (run loopPre).stack = [] := by decide +kernel

theorem loopStart_step : step loopStart = loopState 0 := by
  rfl

/-! ## the operation never returns -/

/-- the machine is still running -/
def Running (s : State) : Prop := s.err = none ∧ s.stack ≠ []

theorem step_of_not_running {s : State} (h : ¬ Running s) : step s = s := by
  cases he : s.err with
  | some e => exact step_of_err he
  | none =>
    cases hs : s.stack with
    | nil => exact step_of_stack_nil hs
    | cons f r => exact absurd ⟨he, by rw [hs]; simp⟩ h

theorem runSteps_of_not_running (k : Nat) {s : State} (h : ¬ Running s) : runSteps k s = s := by
  induction k with
  | zero => rfl
  | succ k ih => rw [runSteps, step_of_not_running h, ih]

/-- a machine that is running after `m + k` steps was running after `m` steps -/
theorem running_of_later {s : State} {m k : Nat} (h : Running (runSteps (m + k) s)) :
    Running (runSteps m s) := by
  apply Classical.byContradiction
  intro hn
  rw [runSteps_add, runSteps_of_not_running k hn] at h
  exact hn h

theorem loopState_running (n : Nat) : Running (loopState n) := ⟨rfl, by simp [loopState, loopShape]⟩

/-- after any number of steps the teardown started by `drop 1` is still running -/
theorem loop_running (m : Nat) : Running (runSteps m loopStart) := by
  have h : Running (runSteps (m + (5 * m + 1)) loopStart) := by
    have e : m + (5 * m + 1) = 1 + 6 * m := by omega
    rw [e, runSteps_add]
    show Running (runSteps (6 * m) (step loopStart))
    rw [loopStart_step, loop_rounds]
    exact loopState_running m
  exact running_of_later h

/-- a machine that keeps running exhausts every budget -/
theorem drain_fuel_of_running (f : Nat) (s : State) (h : ∀ m, m ≤ f → Running (runSteps m s)) :
    (drain f s).err = some .fuel := by
  induction f generalizing s with
  | zero =>
    have h0 : Running s := h 0 (Nat.le_refl _)
    obtain ⟨he, hst⟩ := h0
    cases hs : s.stack with
    | nil => exact absurd hs hst
    | cons a r =>
      simp only [drain, hs]
      exact fail_err_of_none s _ he
  | succ f ih =>
    have h0 : Running s := h 0 (Nat.zero_le _)
    rw [drain_succ_running h0.1 h0.2]
    apply ih
    intro m hm
    have := h (m + 1) (by omega)
    rw [Nat.add_comm, runSteps_add] at this
    exact this

/-- **counterexample to unconditional termination**: whatever the step budget, the last operation
of the history `new; setScript 0 [clone 0, makeMut 1, drop 1]; clone 0; makeMut 1; drop 1` ends with
the `fuel` error: the teardown it starts runs forever -/
theorem makeMut_loop_never_returns (f : Nat) :
    (execOp f (run loopPre) (.act (.drop 1)) []).err = some .fuel := by
  unfold execOp
  rw [loopPre_ok.1]
  show (endOp (drain f loopStart)).err = some .fuel
  rw [endOp_err]
  exact drain_fuel_of_running f loopStart (fun m _ => loop_running m)

/-- the same as a statement about machine steps: after any number of steps there is no error and
the control stack is not empty -/
theorem makeMut_loop_runs_forever (m : Nat) :
    (runSteps m loopStart).err = none ∧ (runSteps m loopStart).stack ≠ [] := loop_running m

/-- the scripts of this state are not in class (b) -/
theorem loopStart_not_noMM : ¬ loopStart.NoMM := by
  intro h
  obtain ⟨k, _, hk⟩ := teardown_terminates loopStart h
  have := loop_running k
  rcases hk with hk | hk
  · exact this.2 hk
  · exact hk this.1

theorem stackW_restN (n : Nat) : stackW (restN n) = 1 + 3 * n := by
  induction n with
  | zero => rfl
  | succ n ih => simp [restN, Frame.work, ih]; omega

theorem heapW_husks (k : Nat) : heapW (List.replicate k husk) = 0 := by
  induction k with
  | zero => rfl
  | succ k ih =>
    rw [List.replicate_succ, heapW_cons, ih]; rfl

/-- the measure along the loop: it grows by 3 per round (the `makeMut` step adds 22, the other five
steps of a round remove 19) -/
theorem loop_work (n : Nat) : (loopState n).work = 53 + 3 * n := by
  simp [loopState, loopShape, State.work, stackW_restN, heapW_husks, Frame.work, Val.cost, proto,
    loopVal, loopScript]
  omega

end Cactus.TerminationLoop
