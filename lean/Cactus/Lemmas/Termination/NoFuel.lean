import Cactus.Lemmas.NoRevive
import Cactus.Lemmas.Trace
/-!
# Termination of the teardown, part 4: no machine step raises the `fuel` error

The only place inside `step` that can set `err := some .fuel` is the trace of `Rc::drop` running
out of its own budget, and `cycleRefs_fuel` says it never does.  So `.fuel` comes from `drain`
alone: `step_err_fuel`, `applyOp_err_fuel`.
-/
namespace Cactus
open State

/-- "going from error cell `e0` to error cell `e` did not introduce `.fuel`" -/
def NFE (e0 e : Option Err) : Prop := e = some .fuel → e0 = some .fuel

/-- `t` reports `.fuel` only if `s` already did -/
def State.NF (s t : State) : Prop := NFE s.err t.err

namespace NFE
variable {x : Option Err}

theorem refl (x : Option Err) : NFE x x := id
theorem trans {a b c : Option Err} (h1 : NFE a b) (h2 : NFE b c) : NFE a c := fun h => h1 (h2 h)

theorem fail (t : State) (e : Err) (he : e ≠ .fuel) (a : NFE x t.err) : NFE x (t.fail e).err := by
  intro h
  apply a
  cases ht : t.err with
  | none => rw [fail_err_of_none t e ht] at h; cases h; exact absurd rfl he
  | some e0 => rw [fail_err_of_some t e e0 ht] at h; exact h

theorem emit (t : State) (e : Ev) (a : NFE x t.err) : NFE x (t.emit e).err := a
theorem push (t : State) (fs : List Frame) (a : NFE x t.err) : NFE x (t.push fs).err := a
theorem setObj (t : State) (o : Nat) (ob : Obj) (a : NFE x t.err) : NFE x (t.setObj o ob).err := a
theorem alloc (t : State) (v : Val) (a : NFE x t.err) : NFE x (t.alloc v).err := a

end NFE

theorem linksErr_ne_fuel (s : State) (o : Nat) : s.linksErr o ≠ .fuel := by
  unfold State.linksErr; split <;> (intro h; cases h)

namespace State
namespace NF

theorem refl (s : State) : s.NF s := NFE.refl _
theorem trans {a b c : State} (h1 : a.NF b) (h2 : b.NF c) : a.NF c := NFE.trans h1 h2
theorem of_eq {s t : State} (h : t.err = s.err) : s.NF t := by unfold NF; rw [h]; exact NFE.refl _

theorem fail (s : State) (e : Err) (he : e ≠ .fuel) : s.NF (s.fail e) := NFE.fail s e he (NFE.refl _)

theorem foldl {α : Type} (f : State → α → State) (hf : ∀ (s : State) (a : α), s.NF (f s a)) (l : List α)
    (s : State) : s.NF (l.foldl f s) := by
  induction l generalizing s with
  | nil => exact refl s
  | cons a r ih => exact (hf s a).trans (ih (f s a))

end NF
end State

/-- side goals `e ≠ .fuel` -/
macro "nf_side" : tactic =>
  `(tactic| first | exact linksErr_ne_fuel _ _ | (intro h_nf; cases h_nf))

namespace State
namespace NF

theorem setLinks (s : State) (o : Nat) (f : Table → Table) : s.NF (s.setLinks o f) := by
  unfold State.setLinks
  split
  · split
    · exact refl _
    · exact fail _ _ (by nf_side)
  · exact fail _ _ (by nf_side)

theorem incStrong (s : State) (o : Nat) : s.NF (s.incStrong o) := by
  unfold State.incStrong
  split
  · split
    · exact refl _
    · exact fail _ _ (by nf_side)
  · exact fail _ _ (by nf_side)

theorem incWeak (s : State) (o : Nat) : s.NF (s.incWeak o) := by
  unfold State.incWeak
  split
  · split
    · exact fail _ _ (by nf_side)
    · exact refl _
  · exact fail _ _ (by nf_side)

theorem decWeakFree (s : State) (o : Nat) (imp : Bool) : s.NF (s.decWeakFree o imp) := by
  unfold State.decWeakFree
  split
  · split
    · exact fail _ _ (by nf_side)
    · exact refl _
    · exact refl _
  · exact fail _ _ (by nf_side)

theorem adopt (s : State) (a b : Nat) (same : Bool) : s.NF (s.adopt a b same) := by
  unfold State.adopt
  split
  · exact setLinks _ _ _
  · exact (setLinks _ _ _).trans (setLinks _ _ _)

theorem unadopt (s : State) (a b : Nat) (same : Bool) : s.NF (s.unadopt a b same) := by
  unfold State.unadopt
  split
  · exact setLinks _ _ _
  · exact (setLinks _ _ _).trans (setLinks _ _ _)

theorem purgeOne (x : Nat) (s : State) (e : Link × Nat) : s.NF (State.purgeOne x s e) := by
  unfold State.purgeOne
  split
  · exact refl s
  · exact setLinks _ _ _

theorem purgePeers (s : State) (x : Nat) : s.NF (s.purgePeers x) := by
  unfold State.purgePeers
  split
  · exact (foldl _ (purgeOne x) _ s).trans (setLinks _ _ _)
  · exact fail _ _ (by nf_side)

theorem beginSingle (s : State) (o : Nat) : s.NF (s.beginSingle o) := by
  unfold State.beginSingle
  split
  · split
    · exact decWeakFree _ _ _
    · split
      · exact refl _
      · exact fail _ _ (by nf_side)
  · exact fail _ _ (by nf_side)

theorem finishSingle (s : State) (o : Nat) : s.NF (s.finishSingle o) := by
  unfold State.finishSingle
  split
  · split
    · exact (of_eq rfl).trans (decWeakFree _ _ _)
    · exact fail _ _ (by nf_side)
  · exact fail _ _ (by nf_side)

theorem phase1One (keys : List Nat) (s : State) (e : Nat × Nat) : s.NF (State.phase1One keys s e) := by
  unfold State.phase1One
  split
  · split
    · exact refl _
    · exact fail _ _ (by nf_side)
    · exact fail _ _ (by nf_side)
  · exact fail _ _ (by nf_side)

theorem phase2One (acc : State × List Val) (k : Nat) : acc.1.NF (State.phase2One acc k).1 := by
  unfold State.phase2One
  split
  · split
    · split
      · exact refl _
      · exact fail _ _ (by nf_side)
    · exact refl _
  · exact fail _ _ (by nf_side)

theorem phase2_foldl (ks : List Nat) (acc : State × List Val) :
    acc.1.NF (ks.foldl State.phase2One acc).1 := by
  induction ks generalizing acc with
  | nil => exact refl _
  | cons k r ih => exact (phase2One acc k).trans (ih _)

theorem phase3One (s : State) (k : Nat) : s.NF (s.phase3One k) := by
  unfold State.phase3One
  split
  · split
    · exact decWeakFree _ _ _
    · exact refl s
  · exact fail _ _ (by nf_side)

theorem dropCycle (s : State) (c : CMap) : s.NF (s.dropCycle c) := by
  unfold State.dropCycle
  exact ((foldl _ (phase1One c.keys) c s).trans (phase2_foldl c.keys (_, []))).trans (of_eq rfl)

/-- `Rc::drop`: the trace never runs out of its budget (`cycleRefs_fuel`) -/
theorem rcDrop (s : State) (o : Nat) : s.NF (s.rcDrop o) := by
  unfold State.rcDrop
  split
  · exact fail _ _ (by nf_side)
  · rename_i ob hc
    split
    · exact refl s
    · exact refl s
    · rename_i n hst
      split
      · exact fail _ _ (by nf_side)
      · have h1 : s.NF (s.setObj o { ob with strong := .cnt n }) := of_eq rfl
        dsimp only
        split
        · split
          · exact h1.trans (beginSingle _ _)
          · exact h1
        · split
          · exact (h1.trans (purgePeers _ _)).trans (beginSingle _ _)
          · have h2 : s.NF ((s.setObj o { ob with strong := .cnt n }).emit
                (.traced o (cycleRefs (s.setObj o { ob with strong := .cnt n }) o).visited.length
                  (cycleRefs (s.setObj o { ob with strong := .cnt n }) o).popped)) := of_eq rfl
            split
            · exact h2.trans (fail _ _ (by nf_side))
            · split
              · rename_i hf
                rw [cycleRefs_fuel] at hf
                cases hf
              · split
                · exact h2
                · split
                  · exact h2.trans (fail _ _ (by nf_side))
                  · split
                    · exact h2
                    · exact h2.trans (dropCycle _ _)

theorem dropVal (s : State) (v : Val) : s.NF (s.dropVal v) := of_eq rfl

theorem panic (s : State) : s.NF s.panic := by
  unfold State.panic
  split
  · exact fail _ _ (by nf_side)
  · exact of_eq rfl

theorem dropFields (s : State) (hs ws : List Nat) : s.NF (s.dropFields hs ws) := by
  unfold State.dropFields
  split <;> exact of_eq rfl

theorem weakDrop (s : State) (o : Nat) : s.NF (s.weakDrop o) := decWeakFree _ _ _

theorem modVal (s : State) (o : Nat) (f : Val → Val) : s.NF (s.modVal o f) := by
  unfold State.modVal
  split
  · split
    · exact refl _
    · exact fail _ _ (by nf_side)
  · exact fail _ _ (by nf_side)

theorem cloneHandles (s : State) (v : Val) : s.NF (s.cloneHandles v) :=
  (foldl _ incStrong _ s).trans (foldl _ incWeak _ _)

theorem giveUp (s : State) (o : Nat) : s.NF (s.giveUp o) := by
  unfold State.giveUp
  split
  · exact ((purgePeers s o).trans (of_eq rfl)).trans (decWeakFree _ _ _)
  · exact (purgePeers s o).trans (fail _ _ (by nf_side))

theorem badRoot (s : State) (r : Nat) : s.NF (s.badRoot r) := by
  unfold State.badRoot
  split
  · split
    · exact refl s
    · exact fail _ _ (by nf_side)
  · exact refl s

end NF
end State

namespace NFE
variable {x : Option Err}

theorem of_nf {t t' : State} (g : t.NF t') (a : NFE x t.err) : NFE x t'.err := NFE.trans a g
theorem badRoot (t : State) (r : Nat) (a : NFE x t.err) : NFE x (t.badRoot r).err := of_nf (NF.badRoot t r) a
theorem incStrong (t : State) (o : Nat) (a : NFE x t.err) : NFE x (t.incStrong o).err := of_nf (NF.incStrong t o) a
theorem incWeak (t : State) (o : Nat) (a : NFE x t.err) : NFE x (t.incWeak o).err := of_nf (NF.incWeak t o) a
theorem setLinks (t : State) (o : Nat) (f : Table → Table) (a : NFE x t.err) : NFE x (t.setLinks o f).err :=
  of_nf (NF.setLinks t o f) a
theorem adopt (t : State) (p q : Nat) (b : Bool) (a : NFE x t.err) : NFE x (t.adopt p q b).err :=
  of_nf (NF.adopt t p q b) a
theorem unadopt (t : State) (p q : Nat) (b : Bool) (a : NFE x t.err) : NFE x (t.unadopt p q b).err :=
  of_nf (NF.unadopt t p q b) a
theorem modVal (t : State) (o : Nat) (f : Val → Val) (a : NFE x t.err) : NFE x (t.modVal o f).err :=
  of_nf (NF.modVal t o f) a
theorem giveUp (t : State) (o : Nat) (a : NFE x t.err) : NFE x (t.giveUp o).err := of_nf (NF.giveUp t o) a
theorem cloneHandles (t : State) (v : Val) (a : NFE x t.err) : NFE x (t.cloneHandles v).err :=
  of_nf (NF.cloneHandles t v) a

end NFE

/-- one step of the search that proves `NF s (… s …)` for a term built from the primitives -/
macro "nf_step" : tactic =>
  `(tactic| first
    | with_reducible exact NFE.refl _
    | dsimp only
    | split
    | (refine NFE.fail _ _ ?_ ?_; (focus nf_side))
    | with_reducible (first
      | apply NFE.emit | apply NFE.push | apply NFE.alloc
      | apply NFE.badRoot | apply NFE.incStrong | apply NFE.incWeak | apply NFE.setLinks | apply NFE.adopt
      | apply NFE.unadopt | apply NFE.modVal | apply NFE.giveUp | apply NFE.cloneHandles))

macro "nf_tac" : tactic => `(tactic| (unfold State.NF; repeat' nf_step))

namespace State
namespace NF

theorem applyAct (s : State) (fh fw : List Nat) (a : Act) : s.NF (Cactus.applyAct s fh fw a) := by
  cases a <;> simp only [Cactus.applyAct] <;> nf_tac

theorem applyOp (s : State) (op : Op) : s.NF (Cactus.applyOp s op) := by
  cases op with
  | act a => exact applyAct s [] [] a
  | setScript q acts => simp only [Cactus.applyOp]; nf_tac
  | shuffle q i => simp only [Cactus.applyOp]; nf_tac

theorem step (s : State) : s.NF (Cactus.step s) := by
  unfold Cactus.step
  split
  · exact refl s
  · split
    · exact refl s
    · rename_i f rest _
      have h0 : s.NF { s with stack := rest } := of_eq rfl
      cases f with
      | rcDrop o => exact h0.trans (rcDrop _ o)
      | weakDrop o => exact h0.trans (weakDrop _ o)
      | dropVal v => exact h0.trans (dropVal _ v)
      | script hs ws acts =>
        cases acts with
        | nil => exact h0
        | cons a as => exact (h0.trans (of_eq rfl)).trans (applyAct _ hs ws a)
      | panic => exact h0.trans (panic _)
      | dropFields hs ws => exact h0.trans (dropFields _ hs ws)
      | finishSingle o => exact h0.trans (finishSingle _ o)
      | phase3 ks => exact h0.trans (foldl _ phase3One ks _)

end NF
end State

/-- **no machine step raises the `fuel` error** -/
theorem step_err_fuel (s : State) (h : (step s).err = some .fuel) : s.err = some .fuel :=
  State.NF.step s h

theorem applyOp_err_fuel (s : State) (op : Op) (h : (applyOp s op).err = some .fuel) : s.err = some .fuel :=
  State.NF.applyOp s op h

end Cactus
