import Cactus.Lemmas.PayAsYouGo.Scripts
import Cactus.Lemmas.Depth.Step
/-!
# Termination of the teardown, part 1: the measure `State.work`

`State.work` is an upper bound on the number of machine steps the control stack still needs, *as
long as no destructor script executes the clone branch of `makeMut`* (see `Loop.lean` for the
counterexample).  It is a plain weighted sum:

* a value `v`, wherever it is, costs `v.cost = 3 + 7·|script| + 3·|held| + 2·|weaks|`: what its
  destruction pushes (`script` frame, `panic` frame, `dropFields` frame and, through `dropFields`, one
  `rcDrop` frame per strong handle and one `weakDrop` frame per Weak handle);
* frames: `rcDrop` 2, `weakDrop`/`panic`/`finishSingle`/`phase3` 1, `dropFields h w`
  `1 + 3|h| + 2|w|`, `script _ _ acts` `1 + 7|acts|`, `dropVal v` `v.cost + 1`;
* a value still in the heap costs `v.cost + 3` (the `dropVal` frame it becomes, plus the
  continuation `finishSingle`/`phase3` of the call that moves it out), an unwrapped value in
  `vals` costs `v.cost + 1`.

The weight 7 of a script action pays for whatever one action can add: `new` (a fresh value with
empty script and no handles, `3 + 3 = 6`), `drop`/`decStrong` (a `rcDrop` frame, 2), `store`/`link`
(one more stored handle, 3), `storeWeak` (2), `dropWeak` (1).
-/
namespace Cactus
open State

/-- what the destruction of a value costs, once its `dropVal` frame has been popped -/
def Val.cost (v : Val) : Nat := 3 + 7 * v.script.length + 3 * v.held.length + 2 * v.weaks.length

/-- weight of a control-stack frame -/
def Frame.work : Frame → Nat
  | .rcDrop _ => 2
  | .weakDrop _ => 1
  | .dropVal v => v.cost + 1
  | .script _ _ acts => 1 + 7 * acts.length
  | .panic => 1
  | .dropFields h w => 1 + 3 * h.length + 2 * w.length
  | .finishSingle _ => 1
  | .phase3 _ => 1

def stackW (l : List Frame) : Nat := (l.map Frame.work).sum

/-- weight of a heap slot: a value in place costs its `dropVal` frame plus 2 -/
def optW : Option Val → Nat
  | some v => v.cost + 3
  | none => 0

@[simp] theorem optW_none : optW none = 0 := rfl
@[simp] theorem optW_some (v : Val) : optW (some v) = v.cost + 3 := rfl

/-- the values of the heap, slot by slot -/
def hv (h : List Obj) : List (Option Val) := h.map (·.value)

def heapW (h : List Obj) : Nat := ((hv h).map optW).sum

/-- weight of a list of values that are not in the heap (`vals`, or a block of `dropVal` frames) -/
def valsW (vs : List Val) : Nat := (vs.map (fun v => v.cost + 1)).sum

/-- **the measure** -/
def State.work (s : State) : Nat := stackW s.stack + heapW s.heap + valsW s.vals

/-! ## arithmetic of the three sums -/

@[simp] theorem stackW_nil : stackW [] = 0 := rfl
@[simp] theorem stackW_cons (f : Frame) (l : List Frame) : stackW (f :: l) = f.work + stackW l := by
  simp [stackW]
@[simp] theorem stackW_append (a b : List Frame) : stackW (a ++ b) = stackW a + stackW b := by
  simp [stackW]

@[simp] theorem valsW_nil : valsW [] = 0 := rfl
@[simp] theorem valsW_cons (v : Val) (l : List Val) : valsW (v :: l) = (v.cost + 1) + valsW l := by
  simp [valsW]
@[simp] theorem valsW_append (a b : List Val) : valsW (a ++ b) = valsW a + valsW b := by
  simp [valsW]

theorem valsW_perm {a b : List Val} (h : a.Perm b) : valsW a = valsW b :=
  (h.map _).sum_nat

@[simp] theorem stackW_map_dropVal (vs : List Val) : stackW (vs.map Frame.dropVal) = valsW vs := by
  induction vs with
  | nil => rfl
  | cons v vs ih => simp [ih, Frame.work]

theorem stackW_filter_le (p : Frame → Bool) (l : List Frame) : stackW (l.filter p) ≤ stackW l := by
  induction l with
  | nil => simp
  | cons f l ih =>
    rw [List.filter_cons]
    split <;> simp <;> omega

theorem valsW_eraseIdx {l : List Val} {j : Nat} {v : Val} (h : l[j]? = some v) :
    valsW (l.eraseIdx j) + (v.cost + 1) = valsW l := by
  induction l generalizing j with
  | nil => simp at h
  | cons a l ih =>
    cases j with
    | zero => simp at h; subst h; simp; omega
    | succ j =>
      simp at h
      have := ih h
      simp; omega

@[simp] theorem hv_nil : hv [] = [] := rfl
@[simp] theorem hv_cons (ob : Obj) (h : List Obj) : hv (ob :: h) = ob.value :: hv h := rfl
@[simp] theorem hv_append (a b : List Obj) : hv (a ++ b) = hv a ++ hv b := by simp [hv]

theorem hv_set (h : List Obj) (o : Nat) (ob : Obj) : hv (h.set o ob) = (hv h).set o ob.value := by
  simp [hv, List.map_set]

/-- overwriting a slot without touching its value leaves the values alone -/
theorem hv_set_same {h : List Obj} {o : Nat} {ob ob' : Obj} (hg : h[o]? = some ob)
    (hval : ob'.value = ob.value) : hv (h.set o ob') = hv h := by
  rw [hv_set, hval]
  apply List.ext_getElem?
  intro i
  by_cases hi : o = i
  · subst hi
    have hlt : o < (hv h).length := by simpa [hv] using (List.getElem?_eq_some_iff.mp hg).1
    rw [List.getElem?_set_self hlt]
    simp [hv, hg]
  · rw [List.getElem?_set_ne hi]

@[simp] theorem heapW_nil : heapW [] = 0 := rfl
@[simp] theorem heapW_cons (ob : Obj) (h : List Obj) : heapW (ob :: h) = optW ob.value + heapW h := by
  simp [heapW]
@[simp] theorem heapW_append (a b : List Obj) : heapW (a ++ b) = heapW a + heapW b := by
  simp [heapW]

theorem heapW_of_hv {a b : List Obj} (h : hv a = hv b) : heapW a = heapW b := by
  unfold heapW; rw [h]

/-- overwriting a slot exchanges the weight of its value -/
theorem heapW_set {h : List Obj} {o : Nat} {ob : Obj} (ob' : Obj) (hg : h[o]? = some ob) :
    heapW (h.set o ob') + optW ob.value = heapW h + optW ob'.value := by
  induction h generalizing o with
  | nil => simp at hg
  | cons a h ih =>
    cases o with
    | zero => simp at hg; subst hg; simp; omega
    | succ o =>
      simp at hg
      have := ih hg
      simp; omega

theorem optW_le_heapW {h : List Obj} {o : Nat} {ob : Obj} (hg : h[o]? = some ob) :
    optW ob.value ≤ heapW h := by
  induction h generalizing o with
  | nil => simp at hg
  | cons a h ih =>
    cases o with
    | zero => simp at hg; subst hg; simp
    | succ o =>
      simp at hg
      have := ih hg
      simp; omega

end Cactus
