import Cactus.Lemmas.Main
/-!
# Histories: every state produced by `run` is reachable
-/
namespace Cactus
open State

theorem drain_quiescent (f : Nat) (s : State) : (drain f s).err = none → (drain f s).stack = [] := by
  induction f generalizing s with
  | zero =>
    unfold drain
    split
    · intro _; assumption
    · intro h
      have := fail_err_isSome s .fuel
      simp [h] at this
  | succ f ih =>
    unfold drain
    split
    · exact ih _
    · rename_i h1
      intro he
      cases hs : s.stack with
      | nil => rfl
      | cons a r => exact absurd hs (h1 a r he)

theorem endOp_stack (s : State) : (endOp s).stack = s.stack := by
  unfold endOp; split <;> rfl

theorem execOp_quiescent (fuel : Nat) (s : State) (o : Op) (hint : List Nat)
    (hq : s.err = none → s.stack = []) :
    (execOp fuel s o hint).err = none → (execOp fuel s o hint).stack = [] := by
  unfold execOp
  split
  · exact hq
  · intro he
    rw [endOp_stack]
    rw [endOp_err] at he
    exact drain_quiescent fuel _ he

/-- every state produced by running a history (any fuel, any hints) is reachable and quiescent -/
theorem foldl_execOp_reachable (fuel : Nat) (ops : List (Op × List Nat)) (s : State)
    (hr : Reachable s) (hq : s.err = none → s.stack = []) :
    Reachable (ops.foldl (fun s oh => execOp fuel s oh.1 oh.2) s)
    ∧ ((ops.foldl (fun s oh => execOp fuel s oh.1 oh.2) s).err = none →
        (ops.foldl (fun s oh => execOp fuel s oh.1 oh.2) s).stack = []) := by
  induction ops generalizing s with
  | nil => exact ⟨hr, hq⟩
  | cons oh rest ih =>
    simp only [List.foldl_cons]
    apply ih
    · unfold execOp
      split
      · exact hr
      · rename_i he
        exact .endOp (drain_reachable fuel _ (.op oh.1 oh.2 hr (hq he)))
    · exact execOp_quiescent fuel s oh.1 oh.2 hq

theorem run_reachable (ops : List (Op × List Nat)) : Reachable (run ops) :=
  (foldl_execOp_reachable defaultFuel ops {} .init (fun _ => rfl)).1

/-- `H a o ≤ inHeap o` for an allocated holder -/
theorem H_le_inHeap' (s : State) (a o : Nat) (_ha : s.isLive a = true) : s.H a o ≤ s.inHeap o :=
  State.H_le_inHeap s a o

/-- everything reachable from the program's handles is live (needs the safety invariant) -/
theorem reach_live {s : State} (hS : s.InvSCore) {o : Nat} (hr : s.Reach o) : s.isLive o = true := by
  induction hr with
  | root h => exact hS.1 _ (by omega)
  | @step a o _ ha hH _ =>
    have := H_le_inHeap' s a o ha
    exact hS.1 _ (by omega)

end Cactus
