import Cactus.Lemmas.Release
import Cactus.Lemmas.NoRevive
import Cactus.Lemmas.Basic
/-!
# No leak without a panic (C04 under a semantic hypothesis)

`Release.lean` proves that destroyed objects return all memory for `ReachableNP` states: histories
restricted *syntactically* to operations that cannot make a destructor panic (no `setPanic`).
Here the restriction is replaced by what the execution actually *did*:

* `reachable_invN_or_panic`: in every `Reachable` state (any history) the release invariant
  `InvN` holds, or a panic is unwinding, or a panic has been caught (`Ev.panicked ∈ log`), or the
  machine has stopped with an error.
* the only transition that can lose `InvN` (from an error-free state to an error-free state) is
  the step of a `panic` frame: `step_InvN_of_not_panic`, `applyOp_InvN`, `endOp_InvN_of_InvN`.
* `C04_dead_object_released_sem`, `C04_all_collected_nothing_left_sem`: the two results of
  `Release.lean` for `Reachable` states at an operation boundary in which no destructor has
  panicked so far.
-/
namespace Cactus
open State

namespace ReleaseSem

/-! ## `unwinding` is written by the `panic` frame and by `endOp` only -/

theorem phase1One_unw (keys : List Nat) (s : State) (e : Nat × Nat) :
    (State.phase1One keys s e).unwinding = s.unwinding := by
  unfold State.phase1One
  (repeat' split) <;> simp

theorem phase1_fold_unw (keys : List Nat) : ∀ (c : List (Nat × Nat)) (s : State),
    (c.foldl (State.phase1One keys) s).unwinding = s.unwinding
  | [], _ => rfl
  | e :: c, s => (phase1_fold_unw keys c _).trans (phase1One_unw keys s e)

theorem phase2One_unw (acc : State × List Val) (k : Nat) :
    (State.phase2One acc k).1.unwinding = acc.1.unwinding := by
  unfold State.phase2One
  (repeat' split) <;> simp

theorem phase2_fold_unw : ∀ (ks : List Nat) (acc : State × List Val),
    (ks.foldl State.phase2One acc).1.unwinding = acc.1.unwinding
  | [], _ => rfl
  | k :: ks, acc => (phase2_fold_unw ks _).trans (phase2One_unw acc k)

theorem phase3One_unw (s : State) (k : Nat) : (s.phase3One k).unwinding = s.unwinding := by
  unfold State.phase3One
  (repeat' split) <;> simp

theorem phase3_fold_unw : ∀ (ks : List Nat) (s : State),
    (ks.foldl State.phase3One s).unwinding = s.unwinding
  | [], _ => rfl
  | k :: ks, s => (phase3_fold_unw ks _).trans (phase3One_unw s k)

theorem dropCycle_unw (s : State) (c : CMap) : (s.dropCycle c).unwinding = s.unwinding := by
  unfold State.dropCycle
  simp only [push_unwinding]
  rw [phase2_fold_unw]
  exact phase1_fold_unw _ _ _

theorem beginSingle_unw (s : State) (o : Nat) : (s.beginSingle o).unwinding = s.unwinding := by
  unfold State.beginSingle
  (repeat' split) <;> simp

theorem finishSingle_unw (s : State) (o : Nat) : (s.finishSingle o).unwinding = s.unwinding := by
  unfold State.finishSingle
  (repeat' split) <;> simp

theorem rcDrop_unw (s : State) (o : Nat) : (s.rcDrop o).unwinding = s.unwinding := by
  unfold State.rcDrop
  split
  · simp
  · split
    · rfl
    · rfl
    · split
      · simp
      · dsimp only
        (repeat' split) <;> simp [beginSingle_unw, dropCycle_unw]

theorem dropVal_unw (s : State) (v : Val) : (s.dropVal v).unwinding = s.unwinding := rfl

theorem dropFields_unw (s : State) (hs ws : List Nat) :
    (s.dropFields hs ws).unwinding = s.unwinding := by
  unfold State.dropFields
  (repeat' split) <;> simp

theorem weakDrop_unw (s : State) (o : Nat) : (s.weakDrop o).unwinding = s.unwinding := by
  simp [State.weakDrop]

theorem applyAct_unw (s : State) (fh fw : List Nat) (a : Act) :
    (applyAct s fh fw a).unwinding = s.unwinding := by
  cases a <;> simp only [applyAct] <;> (repeat' split) <;> simp

theorem applyOp_unw (s : State) (op : Op) : (applyOp s op).unwinding = s.unwinding := by
  cases op with
  | act a => exact applyAct_unw s [] [] a
  | setScript q acts => simp only [applyOp]; split <;> simp
  | shuffle q i => simp only [applyOp]; split <;> simp

/-- the `panic` frame's step: abort if already unwinding, else start unwinding -/
theorem panic_unw_or_err (s : State) : s.panic.unwinding = true ∨ s.panic.err ≠ none := by
  unfold State.panic
  split
  · exact Or.inr (fail_err_ne_none _ _)
  · exact Or.inl rfl

/-- a machine step never ends an unwinding -/
theorem step_unw_mono (s : State) (hu : s.unwinding = true) : (step s).unwinding = true := by
  cases herr : s.err with
  | some e => rw [step_of_err herr]; exact hu
  | none =>
  cases hst : s.stack with
  | nil =>
    have : step s = s := by unfold step; simp only [herr, hst]
    rw [this]; exact hu
  | cons f rest =>
    rw [step_eq_of_stack herr hst]
    cases f with
    | rcDrop o => simp only []; rw [rcDrop_unw]; exact hu
    | weakDrop o => simp only []; rw [weakDrop_unw]; exact hu
    | dropVal v => exact hu
    | script hh ww acts =>
      cases acts with
      | nil => exact hu
      | cons a as => simp only []; rw [applyAct_unw]; exact hu
    | panic =>
      simp only []
      unfold State.panic
      simp only [hu, if_true, fail_unwinding]
    | dropFields hh ww => simp only []; rw [dropFields_unw]; exact hu
    | finishSingle o => simp only []; rw [finishSingle_unw]; exact hu
    | phase3 ks => simp only []; rw [phase3_fold_unw]; exact hu

/-- a step other than that of a `panic` frame does not touch `unwinding` -/
theorem step_unw_eq_of_not_panic (s : State) (htop : ∀ rest, s.stack ≠ .panic :: rest) :
    (step s).unwinding = s.unwinding := by
  cases herr : s.err with
  | some e => rw [step_of_err herr]
  | none =>
  cases hst : s.stack with
  | nil =>
    have : step s = s := by unfold step; simp only [herr, hst]
    rw [this]
  | cons f rest =>
    rw [step_eq_of_stack herr hst]
    cases f with
    | rcDrop o => simp only []; rw [rcDrop_unw]
    | weakDrop o => simp only []; rw [weakDrop_unw]
    | dropVal v => rfl
    | script hh ww acts =>
      cases acts with
      | nil => rfl
      | cons a as => simp only []; rw [applyAct_unw]; rfl
    | panic => exact absurd hst (htop rest)
    | dropFields hh ww => simp only []; rw [dropFields_unw]
    | finishSingle o => simp only []; rw [finishSingle_unw]
    | phase3 ks => simp only []; rw [phase3_fold_unw]

/-! ## the log only grows -/

theorem mem_log_of_grow {s t : State} (g : s.Grow t) {e : Ev} (h : e ∈ s.log) : e ∈ t.log :=
  g.log_prefix.subset h

theorem endOp_of_not_unw (s : State) (h : s.unwinding = false) : endOp s = s := by
  unfold endOp; simp [h]

theorem endOp_panicked_of_unw (s : State) (h : s.unwinding = true) : Ev.panicked ∈ (endOp s).log := by
  unfold endOp; simp [h]

theorem endOp_unw (s : State) : (endOp s).unwinding = false := by
  unfold endOp
  split
  · rfl
  · rename_i h; simpa using h

end ReleaseSem

open ReleaseSem

/-! ## Every step except that of a `panic` frame preserves the release invariant -/

/-- `step_InvN'` of `Release.lean` with the syntactic hypothesis `s.NP` replaced by what it was used
for: the frame being executed is not `panic`. -/
theorem step_InvN'_of_not_panic (s : State) (h : s.Inv) (hN : s.InvN')
    (htop : ∀ rest, s.stack ≠ .panic :: rest)
    (he : (step s).err = none) : (step s).InvN' := by
  have herr : s.err = none := step_err_none he
  cases hst : s.stack with
  | nil =>
    have : step s = s := by unfold step; simp only [herr, hst]
    rw [this]; exact hN
  | cons f rest =>
    have e := step_eq_of_stack herr hst
    cases f with
    | rcDrop o => rw [e] at he ⊢; exact rcDrop_InvN' hst herr h hN he
    | weakDrop o =>
      rw [e]
      have hN0 := pop_InvN' hst hN (fun _ => rfl)
      exact InvN'_mono hN0 (fun x hd => by simpa [weakDrop] using hd) (fun x => by simp [weakDrop])
    | dropVal v =>
      rw [e]
      have hN0 := pop_InvN' hst hN (fun _ => rfl)
      refine InvN'_mono hN0 (fun x hd => ?_) (fun x => by rw [owed_dropVal]; exact Nat.le_refl _)
      simpa [State.dropVal] using hd
    | script hh ww acts =>
      have hN0 := pop_InvN' hst hN (fun _ => rfl)
      cases acts with
      | nil => rw [e]; exact hN0
      | cons a as =>
        rw [e] at he ⊢
        refine InvN'_mono hN0 (fun x hd => ?_) (fun x => ?_)
        · have := di_applyAct_le _ hh ww a x he hd
          simpa using this
        · rw [owed_applyAct, owed_push]; simp
    | panic => exact absurd hst (htop rest)
    | dropFields hh ww =>
      rw [e]
      have hN0 := pop_InvN' hst hN (fun _ => rfl)
      refine InvN'_mono hN0 (fun x hd => ?_) (fun x => by rw [owed_dropFields]; exact Nat.le_refl _)
      obtain ⟨fs, hfs⟩ := dropFields_eq_push ({ s with stack := rest } : State) hh ww
      simp only [] at hd
      rw [hfs] at hd; simpa using hd
    | finishSingle o =>
      rw [e] at he ⊢
      refine finishSingle_InvN' _ o (fun x hx hd => ?_) he
      have := hN x hd
      rw [owed_of_stack_cons hst x, Frame.owes_finishSingle, if_neg (fun e => hx e.symm)] at this
      omega
    | phase3 ks =>
      rw [e] at he ⊢
      refine phase3_InvN' _ ks (fun x hx hd => ?_) he
      have := hN x hd
      rw [owed_of_stack_cons hst x, Frame.owes_phase3, List.count_eq_zero_of_not_mem hx] at this
      omega

/-- **The only transition that can lose the release invariant is the step of a `panic` frame**
(with `applyOp_InvN` of `Release.lean` and `endOp_InvN_of_InvN`, `fail` leading to an error state):
every other machine step, whatever the values involved could do later, preserves `InvN`. -/
theorem step_InvN_of_not_panic (s : State) (hI : s.Inv) (hR : s.InvR) (hN : s.InvN)
    (htop : ∀ rest, s.stack ≠ .panic :: rest)
    (he : (step s).err = none) : (step s).InvN := by
  have hI' := step_inv s hI hR he
  exact InvN_of_InvN' hI'.2.2.2.2 (step_InvN'_of_not_panic s hI (InvN'_of_InvN hN) htop he)

/-- `catch_unwind` keeps the invariant (it touches neither the heap nor the stack) -/
theorem endOp_InvN_of_InvN (s : State) (hN : s.InvN) : (endOp s).InvN := by
  unfold endOp
  split
  · exact hN
  · exact hN

/-- the step of a `panic` frame: either the machine aborts (double panic) or unwinding starts -/
theorem step_panic_frame (s : State) (herr : s.err = none) {rest : List Frame}
    (hst : s.stack = .panic :: rest) :
    (step s).unwinding = true ∨ (step s).err ≠ none := by
  rw [step_eq_of_stack herr hst]
  exact panic_unw_or_err _

/-! ## (1) the semantic characterisation -/

/-- **The release invariant can only be lost by an actual panic.**  In every reachable state (any
history, `setPanic` allowed): `InvN` holds, or a panic is unwinding right now, or a panic has been
caught at an operation boundary earlier, or the machine has stopped with an error (an abort on a
double panic, fuel, a history outside the contract). -/
theorem reachable_invN_or_panic {s : State} (h : Reachable s) :
    s.InvN ∨ s.unwinding = true ∨ Ev.panicked ∈ s.log ∨ s.err ≠ none := by
  induction h with
  | init => exact Or.inl InvN_init
  | @op s o hint hr hq ih =>
    by_cases he : (applyOp (s.begin hint) o).err = none
    · have h0 : (s.begin hint).err = none := applyOp_err_none he
      rcases ih with hN | hu | hl | hne
      · obtain ⟨hI, hRs⟩ := reachable_core hr h0
        have hIb : (s.begin hint).Inv := begin_inv s hint (fun _ => hI)
        have hRb : (s.begin hint).InvR := begin_invR s hint hRs
        exact Or.inl (applyOp_InvN _ o hIb hRb (begin_InvN s hint hN) he)
      · exact Or.inr (Or.inl ((applyOp_unw _ o).trans hu))
      · exact Or.inr (Or.inr (Or.inl (mem_log_of_grow (State.Grow.applyOp (s.begin hint) o) hl)))
      · exact absurd h0 hne
    · exact Or.inr (Or.inr (Or.inr he))
  | @step s hr ih =>
    by_cases he : (step s).err = none
    · have h0 : s.err = none := step_err_none he
      rcases ih with hN | hu | hl | hne
      · by_cases htop : ∀ rest, s.stack ≠ .panic :: rest
        · obtain ⟨hI, hRs⟩ := reachable_core hr h0
          exact Or.inl (step_InvN_of_not_panic s (fun _ => hI) hRs hN htop he)
        · have : ∃ rest, s.stack = .panic :: rest := by
            apply Classical.byContradiction
            intro hc
            exact htop (fun rest hr => hc ⟨rest, hr⟩)
          obtain ⟨rest, hst⟩ := this
          rcases step_panic_frame s h0 hst with hu | hne
          · exact Or.inr (Or.inl hu)
          · exact absurd he hne
      · exact Or.inr (Or.inl (step_unw_mono s hu))
      · exact Or.inr (Or.inr (Or.inl (mem_log_of_grow (State.Grow.step s) hl)))
      · exact absurd h0 hne
    · exact Or.inr (Or.inr (Or.inr he))
  | @endOp s hr ih =>
    rcases ih with hN | hu | hl | hne
    · exact Or.inl (endOp_InvN_of_InvN s hN)
    · exact Or.inr (Or.inr (Or.inl (endOp_panicked_of_unw s hu)))
    · exact Or.inr (Or.inr (Or.inl (mem_log_of_grow (State.Grow.endOp s) hl)))
    · exact Or.inr (Or.inr (Or.inr (by rw [endOp_err]; exact hne)))
  | @outOfFuel s _ _ => exact Or.inr (Or.inr (Or.inr (fail_err_ne_none s _)))

/-- if no destructor has panicked so far, the release invariant holds -/
theorem reachable_invN_of_no_panic {s : State} (h : Reachable s) (he : s.err = none)
    (hu : s.unwinding = false) (hl : Ev.panicked ∉ s.log) : s.InvN := by
  rcases reachable_invN_or_panic h with hN | hu' | hl' | hne
  · exact hN
  · rw [hu] at hu'; cases hu'
  · exact absurd hl' hl
  · exact absurd he hne

/-! ## (2) C04 under the semantic hypothesis -/

/-- the derivation of `C04_dead_object_released` from `InvN` and the counting invariants -/
theorem dead_object_released_of_InvN {s : State} (h : Reachable s) (he : s.err = none)
    (hq : s.stack = []) (hN : s.InvN) {o : Nat} {ob : Obj} (hg : s.heap[o]? = some ob)
    (hd : ob.strong.isDead = true) :
    ob.links = none ∧ ob.value = none ∧ ob.implicit = false
      ∧ (ob.freed = true ↔ s.extW o + s.inHeapW o = 0) := by
  obtain ⟨⟨hO, -, -, hW, -⟩, -⟩ := reachable_core h he
  have himp : ob.implicit = false := by
    cases hi : ob.implicit with
    | false => rfl
    | true =>
      have := hN o ob hg hd hi
      rw [owed_of_stack_nil hq] at this
      cases this
  obtain ⟨-, h0, hu, hf⟩ := hO o ob hg
  have hw := hW o (get_lt hg)
  rw [weakNat_of_get hg, implicitNat_of_get hg, pendW_of_stack_nil hq, himp] at hw
  have hfr : ob.freed = true ↔ s.extW o + s.inHeapW o = 0 := by
    rw [hf, hw]; simp
  cases hs : ob.strong with
  | uninit =>
    obtain ⟨hv, hl⟩ := hu hs
    rcases hl with hl | ⟨-, hi⟩
    · exact ⟨hl, hv, himp, hfr⟩
    · rw [himp] at hi; cases hi
  | cnt n =>
    cases n with
    | zero =>
      obtain ⟨hv, hl⟩ := h0 hs
      exact ⟨hl, hv, himp, hfr⟩
    | succ n => rw [hs] at hd; cases hd

/-- **C04, no leak without a panic.**  Between operations of *any* execution in which no destructor
has panicked so far (no `Ev.panicked` in the log — whatever the program could have done), an object
whose value has been destroyed (or moved out) holds neither a link table nor a value nor its
implicit weak reference, and its allocation has been released exactly if no `Weak` handle to it
exists. -/
theorem C04_dead_object_released_sem {s : State} (h : Reachable s) (he : s.err = none)
    (hq : s.stack = []) (hu : s.unwinding = false) (hl : Ev.panicked ∉ s.log)
    {o : Nat} {ob : Obj} (hg : s.heap[o]? = some ob) (hd : ob.strong.isDead = true) :
    ob.links = none ∧ ob.value = none ∧ ob.implicit = false
      ∧ (ob.freed = true ↔ s.extW o + s.inHeapW o = 0) :=
  dead_object_released_of_InvN h he hq (reachable_invN_of_no_panic h he hu hl) hg hd

/-- **C04 (everything collected), no leak without a panic.**  If moreover every object is dead and
the program holds no `Weak` handle and no unwrapped value, every allocation has been released. -/
theorem C04_all_collected_nothing_left_sem {s : State} (h : Reachable s) (he : s.err = none)
    (hq : s.stack = []) (hu : s.unwinding = false) (hl : Ev.panicked ∉ s.log)
    (hall : ∀ (o : Nat) (ob : Obj), s.heap[o]? = some ob → ob.strong.isDead = true)
    (hw : s.wroots = []) (hv : s.vals = []) :
    ∀ (o : Nat) (ob : Obj), s.heap[o]? = some ob → ob.freed = true := by
  intro o ob hg
  obtain ⟨-, -, -, hfr⟩ := C04_dead_object_released_sem h he hq hu hl hg (hall o ob hg)
  rw [hfr]
  have h1 : s.extW o = 0 := by simp [extW_def, hw, hv]
  have h2 : s.inHeapW o = 0 := by
    rw [inHeapW_def, sumList_range_eq_zero_iff]
    intro a ha
    obtain ⟨oa, hga⟩ : ∃ oa, s.heap[a]? = some oa := ⟨s.heap[a], List.getElem?_eq_getElem ha⟩
    obtain ⟨-, hva, -, -⟩ := C04_dead_object_released_sem h he hq hu hl hga (hall a oa hga)
    rw [weaksOf_of_get hga]
    simp [Obj.weakList, hva]
  omega

/-- the old theorems are instances: a `ReachableNP` state has not panicked -/
theorem ReachableNP.no_panic_so_far {s : State} (h : ReachableNP s) (he : s.err = none) :
    s.unwinding = false ∧ s.InvN :=
  ⟨(reachableNP_invN h he).2.1, (reachableNP_invN h he).1⟩

end Cactus
