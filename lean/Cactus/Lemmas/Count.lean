import Cactus.Spec.Inv
import Cactus.Lemmas.Basic
import Cactus.Lemmas.Table
/-!
# Counting lemmas

A library of rewriting ("frame") lemmas: how the counting functions of `Spec/Inv.lean`
(`ext`, `extW`, `pend`, `pendW`, `owed`, `inHeap`, `inHeapW`, `strongNat`, `weakNat`, `implicitNat`,
`heldOf`, `weaksOf`, `H`, `F`, `B`) and the accessors of the model (`heap`, `cell`, `tableOf`, `tbl`,
`isLive`, `strongOf`) change under the primitive state updates of the machine.

Sections
* A  `sumList`, `List.count`
* I  accessors: `cell`, `isLive`, `tableOf`, `tbl`, `strongNat`, … in terms of `heap[o]?`
* B  frame lemmas ("untouched")
* C  stack updates
* D  program handle lists
* E  `setObj`
* F  `alloc`
* G  `setLinks`, `adopt`, `unadopt`
* H  `setStrong`, `incStrong`, `incWeak`, `decWeakFree`, `modVal`
* J  selectors `nthMod`, `idxMod`, `useRoot`, `badRoot`

Conventions
* naming: `<function>_<update>` (`<update>_<field>` for projections); the record update
  `{ s with fld := x }` is called `withFld`; `_same` / `_other` = at the updated index / elsewhere;
  `_of_get` = from `s.heap[o]? = some ob`; `_cases` = "fails or is a `setObj`".
* lemmas about `{ s with … }` are `@[simp ↓]`: they must fire before `simp` rewrites inside the record.
* indicator terms are oriented `if <modified/owned object> = <queried object> then 1 else 0`.
* helper definitions: `Strong.toNat`, `Obj.heldList`, `Obj.weakList`, `Obj.fresh`.
-/
namespace Cactus

/-! ## A. `sumList` and `List.count` -/

namespace State

theorem sumList_eq_sum (l : List Nat) : sumList l = l.sum := rfl

@[simp] theorem sumList_nil : sumList [] = 0 := rfl

@[simp] theorem sumList_cons (a : Nat) (l : List Nat) : sumList (a :: l) = a + sumList l := rfl

@[simp] theorem sumList_singleton (a : Nat) : sumList [a] = a := rfl

@[simp] theorem sumList_append (l₁ l₂ : List Nat) :
    sumList (l₁ ++ l₂) = sumList l₁ + sumList l₂ := by
  induction l₁ with
  | nil => simp
  | cons a l ih => simp [ih]; omega

theorem sumList_map_add {α : Type} (l : List α) (f g : α → Nat) :
    sumList (l.map (fun x => f x + g x)) = sumList (l.map f) + sumList (l.map g) := by
  induction l with
  | nil => rfl
  | cons a l ih => simp [ih]; omega

theorem sumList_perm {l₁ l₂ : List Nat} (h : l₁.Perm l₂) : sumList l₁ = sumList l₂ := by
  induction h with
  | nil => rfl
  | cons a _ ih => simp [ih]
  | swap a b l => simp; omega
  | trans _ _ ih₁ ih₂ => exact ih₁.trans ih₂

theorem sumList_map_perm {α : Type} {l₁ l₂ : List α} (h : l₁.Perm l₂) (f : α → Nat) :
    sumList (l₁.map f) = sumList (l₂.map f) := sumList_perm (h.map f)

@[simp] theorem sumList_map_const_zero {α : Type} (l : List α) :
    sumList (l.map (fun _ => 0)) = 0 := by
  induction l with
  | nil => rfl
  | cons a l ih => simp [ih]

theorem sumList_eq_zero_iff (l : List Nat) : sumList l = 0 ↔ ∀ x ∈ l, x = 0 := by
  induction l with
  | nil => simp
  | cons a l ih => simp [ih]

theorem sumList_pos_iff (l : List Nat) : 0 < sumList l ↔ ∃ x ∈ l, 0 < x := by
  induction l with
  | nil => simp
  | cons a l ih =>
    simp only [sumList_cons, List.mem_cons, exists_eq_or_imp, ← ih]; omega

theorem sumList_map_eq_zero_iff {α : Type} (l : List α) (f : α → Nat) :
    sumList (l.map f) = 0 ↔ ∀ x ∈ l, f x = 0 := by
  simp [sumList_eq_zero_iff]

theorem sumList_map_pos_iff {α : Type} (l : List α) (f : α → Nat) :
    0 < sumList (l.map f) ↔ ∃ x ∈ l, 0 < f x := by
  induction l with
  | nil => simp
  | cons a l ih =>
    simp only [List.map_cons, sumList_cons, List.mem_cons, exists_eq_or_imp, ← ih]; omega

theorem sumList_map_le {α : Type} (l : List α) (f g : α → Nat) (h : ∀ x ∈ l, f x ≤ g x) :
    sumList (l.map f) ≤ sumList (l.map g) := by
  induction l with
  | nil => simp
  | cons a l ih =>
    have h1 := h a (by simp)
    have h2 := ih (fun x hx => h x (by simp [hx]))
    simp only [List.map_cons, sumList_cons]; omega

theorem sumList_map_congr {α : Type} (l : List α) (f g : α → Nat) (h : ∀ x ∈ l, f x = g x) :
    sumList (l.map f) = sumList (l.map g) := by
  rw [List.map_congr_left h]

/-- one summand is below the sum -/
theorem le_sumList_of_mem {x : Nat} {l : List Nat} (h : x ∈ l) : x ≤ sumList l := by
  induction l with
  | nil => cases h
  | cons a l ih =>
    rcases List.mem_cons.mp h with rfl | h'
    · simp
    · have := ih h'; simp only [sumList_cons]; omega

theorem le_sumList_map_of_mem {α : Type} {a : α} {l : List α} (f : α → Nat) (h : a ∈ l) :
    f a ≤ sumList (l.map f) := le_sumList_of_mem (List.mem_map_of_mem h)

/-- filtering away elements that contribute `0` does not change the sum -/
theorem sumList_map_filter {α : Type} (l : List α) (p : α → Bool) (f : α → Nat)
    (h : ∀ x ∈ l, p x = false → f x = 0) :
    sumList ((l.filter p).map f) = sumList (l.map f) := by
  induction l with
  | nil => rfl
  | cons a l ih =>
    have ih' := ih (fun x hx => h x (by simp [hx]))
    cases hp : p a with
    | true => simp [hp, ih']
    | false => simp [hp, ih', h a (by simp) hp]

theorem sumList_range_succ (n : Nat) (g : Nat → Nat) :
    sumList ((List.range (n + 1)).map g) = sumList ((List.range n).map g) + g n := by
  simp [List.range_succ]

theorem sumList_range_congr (n : Nat) (g g' : Nat → Nat) (h : ∀ i, i < n → g' i = g i) :
    sumList ((List.range n).map g') = sumList ((List.range n).map g) :=
  sumList_map_congr _ _ _ (fun x hx => h x (List.mem_range.mp hx))

/-- single index update of a sum over `List.range n` -/
theorem sumList_range_update (n a : Nat) (g g' : Nat → Nat) (ha : a < n)
    (h : ∀ i, i < n → i ≠ a → g' i = g i) :
    sumList ((List.range n).map g') + g a = sumList ((List.range n).map g) + g' a := by
  induction n with
  | zero => omega
  | succ n ih =>
    rw [sumList_range_succ, sumList_range_succ]
    by_cases hn : a = n
    · subst hn
      have := sumList_range_congr a g g' (fun i hi => h i (by omega) (by omega))
      omega
    · have h1 := ih (by omega) (fun i hi hia => h i (by omega) hia)
      have h2 := h n (by omega) (fun e => hn e.symm)
      omega

theorem le_sumList_range {n a : Nat} (g : Nat → Nat) (ha : a < n) :
    g a ≤ sumList ((List.range n).map g) :=
  le_sumList_map_of_mem g (List.mem_range.mpr ha)

theorem sumList_range_pos_iff (n : Nat) (g : Nat → Nat) :
    0 < sumList ((List.range n).map g) ↔ ∃ a, a < n ∧ 0 < g a := by
  simp [sumList_map_pos_iff]

theorem sumList_range_eq_zero_iff (n : Nat) (g : Nat → Nat) :
    sumList ((List.range n).map g) = 0 ↔ ∀ a, a < n → g a = 0 := by
  simp [sumList_map_eq_zero_iff]

end State

/-! ### `List.count` (on `Nat`) -/

theorem count_append (l₁ l₂ : List Nat) (o : Nat) :
    (l₁ ++ l₂).count o = l₁.count o + l₂.count o := List.count_append

theorem count_concat (l : List Nat) (t o : Nat) :
    (l ++ [t]).count o = l.count o + (if t = o then 1 else 0) := by
  simp [List.count_append, List.count_cons]

@[simp] theorem count_singleton_ite (t o : Nat) : [t].count o = if t = o then 1 else 0 := by
  simp [List.count_cons]

theorem count_cons' (l : List Nat) (t o : Nat) :
    (t :: l).count o = (if t = o then 1 else 0) + l.count o := by
  simp [List.count_cons]; omega

theorem count_pos_iff_mem (l : List Nat) (o : Nat) : 0 < l.count o ↔ o ∈ l := List.count_pos_iff

theorem count_eq_zero_iff_not_mem (l : List Nat) (o : Nat) : l.count o = 0 ↔ o ∉ l :=
  List.count_eq_zero

theorem count_eraseIdx_add {α : Type} [DecidableEq α] (l : List α) (i : Nat) (o : α) :
    (l.eraseIdx i).count o + (if l[i]? = some o then 1 else 0) = l.count o := by
  induction l generalizing i with
  | nil => simp
  | cons a l ih =>
    cases i with
    | zero =>
      by_cases h : a = o <;> simp [h]
    | succ i =>
      have := ih i
      simp only [List.eraseIdx_cons_succ, List.count_cons, List.getElem?_cons_succ]
      omega

theorem count_eraseIdx_le {α : Type} [DecidableEq α] (l : List α) (i : Nat) (o : α) :
    (l.eraseIdx i).count o ≤ l.count o := by
  have := count_eraseIdx_add l i o; omega

theorem count_eraseIdx_of_ne {α : Type} [DecidableEq α] (l : List α) (i : Nat) (o : α)
    (h : l[i]? ≠ some o) : (l.eraseIdx i).count o = l.count o := by
  have := count_eraseIdx_add l i o; simp [h] at this; exact this

theorem count_eraseIdx_of_eq {α : Type} [DecidableEq α] (l : List α) (i : Nat) (o : α)
    (h : l[i]? = some o) : (l.eraseIdx i).count o + 1 = l.count o := by
  have := count_eraseIdx_add l i o; simp [h] at this; exact this

/-- `set` on a list: the old element leaves, the new one arrives -/
theorem count_set_add {α : Type} [DecidableEq α] (l : List α) (i : Nat) (t o : α) (h : i < l.length) :
    (l.set i t).count o + (if l[i]? = some o then 1 else 0)
      = l.count o + (if t = o then 1 else 0) := by
  induction l generalizing i with
  | nil => simp at h
  | cons a l ih =>
    cases i with
    | zero => simp [List.count_cons]; omega
    | succ i =>
      have := ih i (by simpa using h)
      simp only [List.set_cons_succ, List.count_cons, List.getElem?_cons_succ]
      omega

theorem count_set_of_ge {α : Type} [DecidableEq α] (l : List α) (i : Nat) (t o : α)
    (h : l.length ≤ i) : (l.set i t).count o = l.count o := by
  rw [List.set_eq_of_length_le h]

theorem mem_of_getElem?_eq_some {α : Type} {l : List α} {i : Nat} {o : α} (h : l[i]? = some o) :
    o ∈ l := List.mem_of_getElem? h

end Cactus

namespace Cactus

/-! ## I. Accessors in terms of `heap[o]?` -/

/-- numeric value of a strong cell (`uninit` counts as `0`) -/
def Strong.toNat : Strong → Nat
  | .cnt n => n
  | .uninit => 0

@[simp] theorem Strong.toNat_cnt (n : Nat) : (Strong.cnt n).toNat = n := rfl
@[simp] theorem Strong.toNat_uninit : Strong.uninit.toNat = 0 := rfl
@[simp] theorem Strong.isDead_cnt_zero : (Strong.cnt 0).isDead = true := rfl
@[simp] theorem Strong.isDead_uninit : Strong.uninit.isDead = true := rfl
@[simp] theorem Strong.isDead_cnt_succ (n : Nat) : (Strong.cnt (n + 1)).isDead = false := rfl

theorem Strong.isDead_eq_false_iff (st : Strong) : st.isDead = false ↔ ∃ n, st = .cnt (n + 1) := by
  cases st with
  | uninit => simp
  | cnt n => cases n <;> simp

theorem Strong.isDead_eq_true_iff (st : Strong) : st.isDead = true ↔ st = .cnt 0 ∨ st = .uninit := by
  cases st with
  | uninit => simp
  | cnt n => cases n <;> simp

theorem Strong.toNat_pos_iff (st : Strong) : 0 < st.toNat ↔ st.isDead = false := by
  cases st with
  | uninit => simp
  | cnt n => cases n <;> simp

theorem Strong.isDead_iff_toNat_eq_zero (st : Strong) : st.isDead = true ↔ st.toNat = 0 := by
  cases st with
  | uninit => simp
  | cnt n => cases n <;> simp

/-- strong handles owned by the value stored in an object (`[]` when moved out) -/
def Obj.heldList (ob : Obj) : List Nat :=
  match ob.value with
  | some v => v.held
  | none => []

/-- Weak handles owned by the value stored in an object (`[]` when moved out) -/
def Obj.weakList (ob : Obj) : List Nat :=
  match ob.value with
  | some v => v.weaks
  | none => []

theorem Obj.heldList_of_some {ob : Obj} {v : Val} (h : ob.value = some v) : ob.heldList = v.held := by
  simp [Obj.heldList, h]
theorem Obj.heldList_of_none {ob : Obj} (h : ob.value = none) : ob.heldList = [] := by
  simp [Obj.heldList, h]
theorem Obj.weakList_of_some {ob : Obj} {v : Val} (h : ob.value = some v) : ob.weakList = v.weaks := by
  simp [Obj.weakList, h]
theorem Obj.weakList_of_none {ob : Obj} (h : ob.value = none) : ob.weakList = [] := by
  simp [Obj.weakList, h]
theorem Obj.heldList_congr {ob ob' : Obj} (h : ob'.value = ob.value) : ob'.heldList = ob.heldList := by
  simp [Obj.heldList, h]
theorem Obj.weakList_congr {ob ob' : Obj} (h : ob'.value = ob.value) : ob'.weakList = ob.weakList := by
  simp [Obj.weakList, h]
@[simp] theorem Obj.heldList_mk_some (st : Strong) (w : Nat) (l : Option Table) (v : Val) (f i : Bool) :
    (Obj.mk st w l (some v) f i).heldList = v.held := rfl
@[simp] theorem Obj.heldList_mk_none (st : Strong) (w : Nat) (l : Option Table) (f i : Bool) :
    (Obj.mk st w l none f i).heldList = [] := rfl
@[simp] theorem Obj.weakList_mk_some (st : Strong) (w : Nat) (l : Option Table) (v : Val) (f i : Bool) :
    (Obj.mk st w l (some v) f i).weakList = v.weaks := rfl
@[simp] theorem Obj.weakList_mk_none (st : Strong) (w : Nat) (l : Option Table) (f i : Bool) :
    (Obj.mk st w l none f i).weakList = [] := rfl
/-- record updates that keep `value` keep the handle lists -/
@[simp] theorem Obj.heldList_mk_value (ob : Obj) (st : Strong) (w : Nat) (l : Option Table) (f i : Bool) :
    (Obj.mk st w l ob.value f i).heldList = ob.heldList := rfl
@[simp] theorem Obj.weakList_mk_value (ob : Obj) (st : Strong) (w : Nat) (l : Option Table) (f i : Bool) :
    (Obj.mk st w l ob.value f i).weakList = ob.weakList := rfl

namespace State

/-! ### definitional unfoldings -/

theorem tbl_def (s : State) (o : Nat) : s.tbl o = (s.tableOf o).getD [] := rfl
theorem F_def (s : State) (a b : Nat) : s.F a b = (s.tbl a).get ⟨b, .fwd⟩ := rfl
theorem B_def (s : State) (b a : Nat) : s.B b a = (s.tbl b).get ⟨a, .bwd⟩ := rfl
theorem H_def (s : State) (a b : Nat) : s.H a b = (s.heldOf a).count b := rfl
theorem ext_def (s : State) (o : Nat) :
    s.ext o = s.roots.count o + s.raws.count o + sumList (s.vals.map (fun v => v.held.count o)) := rfl
theorem extW_def (s : State) (o : Nat) :
    s.extW o = s.wroots.count o + sumList (s.vals.map (fun v => v.weaks.count o)) := rfl
theorem pend_def (s : State) (o : Nat) : s.pend o = sumList (s.stack.map (Frame.strongTo o)) := rfl
theorem pendW_def (s : State) (o : Nat) : s.pendW o = sumList (s.stack.map (Frame.weakTo o)) := rfl
theorem owed_def (s : State) (o : Nat) : s.owed o = sumList (s.stack.map (Frame.owes o)) := rfl
theorem inHeap_def (s : State) (o : Nat) :
    s.inHeap o = sumList ((List.range s.heap.length).map (fun a => s.H a o)) := rfl
theorem inHeapW_def (s : State) (o : Nat) :
    s.inHeapW o = sumList ((List.range s.heap.length).map (fun a => (s.weaksOf a).count o)) := rfl

/-! ### every accessor at an allocated index -/

section get
variable {s : State} {o : Nat} {ob : Obj}

theorem get_lt (h : s.heap[o]? = some ob) : o < s.heap.length :=
  (List.getElem?_eq_some_iff.mp h).1

theorem get_none_iff : s.heap[o]? = none ↔ s.heap.length ≤ o := List.getElem?_eq_none_iff

theorem cell_of_get (h : s.heap[o]? = some ob) : s.cell o = if ob.freed then none else some ob := by
  simp [cell, h]
theorem strongOf_of_get (h : s.heap[o]? = some ob) : s.strongOf o = ob.strong := by
  simp [strongOf, h]
theorem isLive_of_get (h : s.heap[o]? = some ob) : s.isLive o = (!ob.freed && !ob.strong.isDead) := by
  simp [isLive, h]
theorem tableOf_of_get (h : s.heap[o]? = some ob) : s.tableOf o = if ob.freed then none else ob.links := by
  unfold tableOf; rw [cell_of_get h]; cases ob.freed <;> rfl
theorem tbl_of_get (h : s.heap[o]? = some ob) : s.tbl o = if ob.freed then [] else ob.links.getD [] := by
  unfold tbl; rw [tableOf_of_get h]; cases ob.freed <;> rfl
theorem heldOf_of_get (h : s.heap[o]? = some ob) : s.heldOf o = ob.heldList := by
  simp only [heldOf, h]; rfl
theorem weaksOf_of_get (h : s.heap[o]? = some ob) : s.weaksOf o = ob.weakList := by
  simp only [weaksOf, h]; rfl
theorem H_of_get (h : s.heap[o]? = some ob) (t : Nat) : s.H o t = ob.heldList.count t := by
  simp [H, heldOf_of_get h]
theorem strongNat_of_get (h : s.heap[o]? = some ob) : s.strongNat o = ob.strong.toNat := by
  simp only [strongNat, h]; cases ob.strong <;> rfl
theorem weakNat_of_get (h : s.heap[o]? = some ob) : s.weakNat o = ob.weak := by
  simp [weakNat, h]
theorem implicitNat_of_get (h : s.heap[o]? = some ob) : s.implicitNat o = if ob.implicit then 1 else 0 := by
  simp [implicitNat, h]

theorem cell_of_get_none (h : s.heap[o]? = none) : s.cell o = none := by simp [cell, h]
theorem strongOf_of_get_none (h : s.heap[o]? = none) : s.strongOf o = .uninit := by simp [strongOf, h]
theorem isLive_of_get_none (h : s.heap[o]? = none) : s.isLive o = false := by simp [isLive, h]
theorem tableOf_of_get_none (h : s.heap[o]? = none) : s.tableOf o = none := by
  simp [tableOf, cell_of_get_none h]
theorem tbl_of_get_none (h : s.heap[o]? = none) : s.tbl o = [] := by
  simp [tbl, tableOf_of_get_none h]
theorem heldOf_of_get_none (h : s.heap[o]? = none) : s.heldOf o = [] := by simp [heldOf, h]
theorem weaksOf_of_get_none (h : s.heap[o]? = none) : s.weaksOf o = [] := by simp [weaksOf, h]
theorem H_of_get_none (h : s.heap[o]? = none) (t : Nat) : s.H o t = 0 := by
  simp [H, heldOf_of_get_none h]
theorem strongNat_of_get_none (h : s.heap[o]? = none) : s.strongNat o = 0 := by simp [strongNat, h]
theorem weakNat_of_get_none (h : s.heap[o]? = none) : s.weakNat o = 0 := by simp [weakNat, h]
theorem implicitNat_of_get_none (h : s.heap[o]? = none) : s.implicitNat o = 0 := by simp [implicitNat, h]
theorem F_of_get_none (h : s.heap[o]? = none) (b : Nat) : s.F o b = 0 := by
  simp [F, tbl_of_get_none h]
theorem B_of_get_none (h : s.heap[o]? = none) (b : Nat) : s.B o b = 0 := by
  simp [B, tbl_of_get_none h]

end get

/-! ### `cell` -/

theorem cell_eq_some_iff (s : State) (o : Nat) (ob : Obj) :
    s.cell o = some ob ↔ s.heap[o]? = some ob ∧ ob.freed = false := by
  constructor
  · exact cell_some_get s o ob
  · rintro ⟨h, hf⟩; simp [cell_of_get h, hf]

theorem cell_eq_none_iff (s : State) (o : Nat) :
    s.cell o = none ↔ ∀ ob, s.heap[o]? = some ob → ob.freed = true := by
  cases h : s.heap[o]? with
  | none => simp [cell_of_get_none h]
  | some ob => cases hf : ob.freed <;> simp [cell_of_get h, hf]

theorem cell_of_not_freed {s : State} {o : Nat} {ob : Obj} (h : s.heap[o]? = some ob)
    (hf : ob.freed = false) : s.cell o = some ob := (cell_eq_some_iff s o ob).mpr ⟨h, hf⟩

theorem cell_of_freed {s : State} {o : Nat} {ob : Obj} (h : s.heap[o]? = some ob)
    (hf : ob.freed = true) : s.cell o = none := by simp [cell_of_get h, hf]

theorem get_of_cell {s : State} {o : Nat} {ob : Obj} (h : s.cell o = some ob) : s.heap[o]? = some ob :=
  (cell_some_get s o ob h).1

theorem freed_of_cell {s : State} {o : Nat} {ob : Obj} (h : s.cell o = some ob) : ob.freed = false :=
  (cell_some_get s o ob h).2

theorem cell_of_ge {s : State} {o : Nat} (h : s.heap.length ≤ o) : s.cell o = none :=
  cell_of_get_none (get_none_iff.mpr h)

/-! ### `isLive` -/

theorem isLive_eq_true_iff (s : State) (o : Nat) :
    s.isLive o = true ↔ ∃ ob n, s.heap[o]? = some ob ∧ ob.freed = false ∧ ob.strong = .cnt (n + 1) := by
  cases h : s.heap[o]? with
  | none => simp [isLive_of_get_none h]
  | some ob =>
    rw [isLive_of_get h]
    simp only [Bool.and_eq_true, Bool.not_eq_true', Strong.isDead_eq_false_iff, Option.some.injEq]
    constructor
    · rintro ⟨hf, n, hn⟩; exact ⟨ob, n, rfl, hf, hn⟩
    · rintro ⟨ob', n, rfl, hf, hn⟩; exact ⟨hf, n, hn⟩

theorem isLive_iff_cell (s : State) (o : Nat) :
    s.isLive o = true ↔ ∃ ob n, s.cell o = some ob ∧ ob.strong = .cnt (n + 1) := by
  rw [isLive_eq_true_iff]
  constructor
  · rintro ⟨ob, n, h, hf, hn⟩; exact ⟨ob, n, cell_of_not_freed h hf, hn⟩
  · rintro ⟨ob, n, h, hn⟩; exact ⟨ob, n, get_of_cell h, freed_of_cell h, hn⟩

theorem isLive_lt {s : State} {o : Nat} (h : s.isLive o = true) : o < s.heap.length := by
  obtain ⟨ob, _, hg, _⟩ := (isLive_eq_true_iff s o).mp h
  exact get_lt hg

theorem isLive_of_ge {s : State} {o : Nat} (h : s.heap.length ≤ o) : s.isLive o = false :=
  isLive_of_get_none (get_none_iff.mpr h)

theorem isLive_of_cell {s : State} {o : Nat} {ob : Obj} (h : s.cell o = some ob) :
    s.isLive o = !ob.strong.isDead := by
  rw [isLive_of_get (get_of_cell h), freed_of_cell h]; rfl

theorem isLive_of_cell_none {s : State} {o : Nat} (h : s.cell o = none) : s.isLive o = false := by
  cases hg : s.heap[o]? with
  | none => exact isLive_of_get_none hg
  | some ob => rw [isLive_of_get hg, (cell_eq_none_iff s o).mp h ob hg]; rfl

theorem strongNat_pos_of_isLive {s : State} {o : Nat} (h : s.isLive o = true) : 0 < s.strongNat o := by
  obtain ⟨ob, n, hg, _, hn⟩ := (isLive_eq_true_iff s o).mp h
  rw [strongNat_of_get hg, hn]; simp

theorem isLive_iff_strongNat_pos {s : State} {o : Nat} {ob : Obj} (h : s.heap[o]? = some ob)
    (hf : ob.freed = false) : s.isLive o = true ↔ 0 < s.strongNat o := by
  rw [isLive_of_get h, strongNat_of_get h, hf, Strong.toNat_pos_iff]; simp

theorem isLive_cell_isSome {s : State} {o : Nat} (h : s.isLive o = true) : (s.cell o).isSome = true := by
  obtain ⟨ob, _, hc, _⟩ := (isLive_iff_cell s o).mp h
  simp [hc]

/-! ### `tableOf`, `tbl` -/

theorem tableOf_eq_some_iff (s : State) (o : Nat) (t : Table) :
    s.tableOf o = some t ↔ ∃ ob, s.heap[o]? = some ob ∧ ob.freed = false ∧ ob.links = some t := by
  constructor
  · intro h
    obtain ⟨ob, hc, hl⟩ := tableOf_eq_some s o t h
    exact ⟨ob, get_of_cell hc, freed_of_cell hc, hl⟩
  · rintro ⟨ob, hg, hf, hl⟩
    simp [tableOf_of_get hg, hf, hl]

theorem tableOf_of_cell {s : State} {o : Nat} {ob : Obj} (h : s.cell o = some ob) :
    s.tableOf o = ob.links := by simp [tableOf, h]

theorem tableOf_of_cell_none {s : State} {o : Nat} (h : s.cell o = none) : s.tableOf o = none := by
  simp [tableOf, h]

theorem tbl_eq_of_tableOf {s : State} {o : Nat} {t : Table} (h : s.tableOf o = some t) : s.tbl o = t := by
  simp [tbl, h]

theorem tbl_eq_nil_of_tableOf_none {s : State} {o : Nat} (h : s.tableOf o = none) : s.tbl o = [] := by
  simp [tbl, h]

theorem tbl_of_cell {s : State} {o : Nat} {ob : Obj} (h : s.cell o = some ob) :
    s.tbl o = ob.links.getD [] := by simp [tbl, tableOf_of_cell h]

theorem tbl_of_cell_none {s : State} {o : Nat} (h : s.cell o = none) : s.tbl o = [] := by
  simp [tbl, tableOf_of_cell_none h]

theorem F_of_tableOf {s : State} {a : Nat} {t : Table} (h : s.tableOf a = some t) (b : Nat) :
    s.F a b = t.get ⟨b, .fwd⟩ := by simp [F, tbl_eq_of_tableOf h]

theorem B_of_tableOf {s : State} {b : Nat} {t : Table} (h : s.tableOf b = some t) (a : Nat) :
    s.B b a = t.get ⟨a, .bwd⟩ := by simp [B, tbl_eq_of_tableOf h]

theorem F_of_tableOf_none {s : State} {a : Nat} (h : s.tableOf a = none) (b : Nat) : s.F a b = 0 := by
  simp [F, tbl_eq_nil_of_tableOf_none h]

theorem B_of_tableOf_none {s : State} {b : Nat} (h : s.tableOf b = none) (a : Nat) : s.B b a = 0 := by
  simp [B, tbl_eq_nil_of_tableOf_none h]

/-! ### `inHeap` / `inHeapW` and single objects -/

theorem H_le_inHeap (s : State) (a o : Nat) : s.H a o ≤ s.inHeap o := by
  by_cases h : a < s.heap.length
  · exact le_sumList_range (fun a => (s.heldOf a).count o) h
  · rw [H_of_get_none (get_none_iff.mpr (by omega))]; omega

theorem count_weaksOf_le_inHeapW (s : State) (a o : Nat) : (s.weaksOf a).count o ≤ s.inHeapW o := by
  by_cases h : a < s.heap.length
  · exact le_sumList_range (fun a => (s.weaksOf a).count o) h
  · rw [weaksOf_of_get_none (get_none_iff.mpr (by omega))]; simp

theorem inHeap_pos_iff (s : State) (o : Nat) : 0 < s.inHeap o ↔ ∃ a, a < s.heap.length ∧ 0 < s.H a o := by
  unfold inHeap; rw [sumList_range_pos_iff]; rfl

theorem inHeap_eq_zero_iff (s : State) (o : Nat) : s.inHeap o = 0 ↔ ∀ a, s.H a o = 0 := by
  constructor
  · intro h a; have := H_le_inHeap s a o; omega
  · intro h; unfold inHeap; rw [sumList_range_eq_zero_iff]; intro a _; exact h a

theorem inHeapW_pos_iff (s : State) (o : Nat) :
    0 < s.inHeapW o ↔ ∃ a, a < s.heap.length ∧ o ∈ s.weaksOf a := by
  unfold inHeapW; rw [sumList_range_pos_iff]; simp [List.count_pos_iff]

/-! ### congruence: each function only reads some fields -/

section congr
variable {s s' : State}

theorem cell_congr (h : s'.heap = s.heap) (o : Nat) : s'.cell o = s.cell o := by simp [cell, h]
theorem strongOf_congr (h : s'.heap = s.heap) (o : Nat) : s'.strongOf o = s.strongOf o := by simp [strongOf, h]
theorem isLive_congr (h : s'.heap = s.heap) (o : Nat) : s'.isLive o = s.isLive o := by simp [isLive, h]
theorem tableOf_congr (h : s'.heap = s.heap) (o : Nat) : s'.tableOf o = s.tableOf o := by
  simp [tableOf, cell_congr h]
theorem tbl_congr (h : s'.heap = s.heap) (o : Nat) : s'.tbl o = s.tbl o := by simp [tbl, tableOf_congr h]
theorem F_congr (h : s'.heap = s.heap) (a b : Nat) : s'.F a b = s.F a b := by simp [F, tbl_congr h]
theorem B_congr (h : s'.heap = s.heap) (a b : Nat) : s'.B a b = s.B a b := by simp [B, tbl_congr h]
theorem heldOf_congr (h : s'.heap = s.heap) (o : Nat) : s'.heldOf o = s.heldOf o := by simp [heldOf, h]
theorem weaksOf_congr (h : s'.heap = s.heap) (o : Nat) : s'.weaksOf o = s.weaksOf o := by simp [weaksOf, h]
theorem H_congr (h : s'.heap = s.heap) (a b : Nat) : s'.H a b = s.H a b := by simp [H, heldOf_congr h]
theorem inHeap_congr (h : s'.heap = s.heap) (o : Nat) : s'.inHeap o = s.inHeap o := by
  simp [inHeap, heldOf_congr h, h]
theorem inHeapW_congr (h : s'.heap = s.heap) (o : Nat) : s'.inHeapW o = s.inHeapW o := by
  simp [inHeapW, weaksOf_congr h, h]
theorem strongNat_congr (h : s'.heap = s.heap) (o : Nat) : s'.strongNat o = s.strongNat o := by
  simp [strongNat, h]
theorem weakNat_congr (h : s'.heap = s.heap) (o : Nat) : s'.weakNat o = s.weakNat o := by simp [weakNat, h]
theorem implicitNat_congr (h : s'.heap = s.heap) (o : Nat) : s'.implicitNat o = s.implicitNat o := by
  simp [implicitNat, h]
theorem ext_congr (h₁ : s'.roots = s.roots) (h₂ : s'.raws = s.raws) (h₃ : s'.vals = s.vals) (o : Nat) :
    s'.ext o = s.ext o := by simp [ext, h₁, h₂, h₃]
theorem extW_congr (h₁ : s'.wroots = s.wroots) (h₂ : s'.vals = s.vals) (o : Nat) :
    s'.extW o = s.extW o := by simp [extW, h₁, h₂]
theorem pend_congr (h : s'.stack = s.stack) (o : Nat) : s'.pend o = s.pend o := by simp [pend, h]
theorem pendW_congr (h : s'.stack = s.stack) (o : Nat) : s'.pendW o = s.pendW o := by simp [pendW, h]
theorem owed_congr (h : s'.stack = s.stack) (o : Nat) : s'.owed o = s.owed o := by simp [owed, h]

end congr

end State
end Cactus

namespace Cactus
namespace State

/-! ## B. Frame lemmas: fields and functions untouched by a primitive update

Generated systematically.  `withFld` stands for the record update `{ s with fld := x }`; those
lemmas are `@[simp ↓]` (tried *before* `simp` rewrites inside the record, which would otherwise
destroy the `{ s with … }` shape when `s` is itself an updated state). -/

/-! ### B.0 projections of the primitive updates (complements `Lemmas/Basic.lean`) -/

@[simp] theorem fail_hint (s : State) (e : Err) : (s.fail e).hint = s.hint := by unfold fail; split <;> rfl
@[simp] theorem fail_nextVid (s : State) (e : Err) : (s.fail e).nextVid = s.nextVid := by unfold fail; split <;> rfl
@[simp] theorem emit_wroots (s : State) (e : Ev) : (s.emit e).wroots = s.wroots := rfl
@[simp] theorem emit_vals (s : State) (e : Ev) : (s.emit e).vals = s.vals := rfl
@[simp] theorem emit_raws (s : State) (e : Ev) : (s.emit e).raws = s.raws := rfl
@[simp] theorem emit_unwinding (s : State) (e : Ev) : (s.emit e).unwinding = s.unwinding := rfl
@[simp] theorem emit_hint (s : State) (e : Ev) : (s.emit e).hint = s.hint := rfl
@[simp] theorem emit_nextVid (s : State) (e : Ev) : (s.emit e).nextVid = s.nextVid := rfl
@[simp] theorem push_wroots (s : State) (fs : List Frame) : (s.push fs).wroots = s.wroots := rfl
@[simp] theorem push_vals (s : State) (fs : List Frame) : (s.push fs).vals = s.vals := rfl
@[simp] theorem push_raws (s : State) (fs : List Frame) : (s.push fs).raws = s.raws := rfl
@[simp] theorem push_unwinding (s : State) (fs : List Frame) : (s.push fs).unwinding = s.unwinding := rfl
@[simp] theorem push_hint (s : State) (fs : List Frame) : (s.push fs).hint = s.hint := rfl
@[simp] theorem push_nextVid (s : State) (fs : List Frame) : (s.push fs).nextVid = s.nextVid := rfl
@[simp] theorem setObj_wroots (s : State) (a : Nat) (ob : Obj) : (s.setObj a ob).wroots = s.wroots := rfl
@[simp] theorem setObj_vals (s : State) (a : Nat) (ob : Obj) : (s.setObj a ob).vals = s.vals := rfl
@[simp] theorem setObj_raws (s : State) (a : Nat) (ob : Obj) : (s.setObj a ob).raws = s.raws := rfl
@[simp] theorem setObj_unwinding (s : State) (a : Nat) (ob : Obj) : (s.setObj a ob).unwinding = s.unwinding := rfl
@[simp] theorem setObj_hint (s : State) (a : Nat) (ob : Obj) : (s.setObj a ob).hint = s.hint := rfl
@[simp] theorem setObj_nextVid (s : State) (a : Nat) (ob : Obj) : (s.setObj a ob).nextVid = s.nextVid := rfl
@[simp] theorem alloc_roots (s : State) (v : Val) : (s.alloc v).roots = s.roots := rfl
@[simp] theorem alloc_wroots (s : State) (v : Val) : (s.alloc v).wroots = s.wroots := rfl
@[simp] theorem alloc_vals (s : State) (v : Val) : (s.alloc v).vals = s.vals := rfl
@[simp] theorem alloc_raws (s : State) (v : Val) : (s.alloc v).raws = s.raws := rfl
@[simp] theorem alloc_stack (s : State) (v : Val) : (s.alloc v).stack = s.stack := rfl
@[simp] theorem alloc_log (s : State) (v : Val) : (s.alloc v).log = s.log := rfl
@[simp] theorem alloc_err (s : State) (v : Val) : (s.alloc v).err = s.err := rfl
@[simp] theorem alloc_unwinding (s : State) (v : Val) : (s.alloc v).unwinding = s.unwinding := rfl
@[simp] theorem alloc_hint (s : State) (v : Val) : (s.alloc v).hint = s.hint := rfl
@[simp] theorem alloc_nextVid (s : State) (v : Val) : (s.alloc v).nextVid = s.nextVid := rfl
@[simp] theorem setObj_heap (s : State) (a : Nat) (ob : Obj) : (s.setObj a ob).heap = s.heap.set a ob := rfl

/-! ### B. untouched by `fail` -/

@[simp] theorem cell_fail (s : State) (e : Err) (o : Nat) : (s.fail e).cell o = s.cell o := by unfold fail; split <;> rfl
@[simp] theorem tableOf_fail (s : State) (e : Err) (o : Nat) : (s.fail e).tableOf o = s.tableOf o := by unfold fail; split <;> rfl
@[simp] theorem tbl_fail (s : State) (e : Err) (o : Nat) : (s.fail e).tbl o = s.tbl o := by unfold fail; split <;> rfl
@[simp] theorem isLive_fail (s : State) (e : Err) (o : Nat) : (s.fail e).isLive o = s.isLive o := by unfold fail; split <;> rfl
@[simp] theorem strongOf_fail (s : State) (e : Err) (o : Nat) : (s.fail e).strongOf o = s.strongOf o := by unfold fail; split <;> rfl
@[simp] theorem heldOf_fail (s : State) (e : Err) (o : Nat) : (s.fail e).heldOf o = s.heldOf o := by unfold fail; split <;> rfl
@[simp] theorem weaksOf_fail (s : State) (e : Err) (o : Nat) : (s.fail e).weaksOf o = s.weaksOf o := by unfold fail; split <;> rfl
@[simp] theorem H_fail (s : State) (e : Err) (x y : Nat) : (s.fail e).H x y = s.H x y := by unfold fail; split <;> rfl
@[simp] theorem F_fail (s : State) (e : Err) (x y : Nat) : (s.fail e).F x y = s.F x y := by unfold fail; split <;> rfl
@[simp] theorem B_fail (s : State) (e : Err) (x y : Nat) : (s.fail e).B x y = s.B x y := by unfold fail; split <;> rfl
@[simp] theorem ext_fail (s : State) (e : Err) (o : Nat) : (s.fail e).ext o = s.ext o := by unfold fail; split <;> rfl
@[simp] theorem extW_fail (s : State) (e : Err) (o : Nat) : (s.fail e).extW o = s.extW o := by unfold fail; split <;> rfl
@[simp] theorem pend_fail (s : State) (e : Err) (o : Nat) : (s.fail e).pend o = s.pend o := by unfold fail; split <;> rfl
@[simp] theorem pendW_fail (s : State) (e : Err) (o : Nat) : (s.fail e).pendW o = s.pendW o := by unfold fail; split <;> rfl
@[simp] theorem owed_fail (s : State) (e : Err) (o : Nat) : (s.fail e).owed o = s.owed o := by unfold fail; split <;> rfl
@[simp] theorem inHeap_fail (s : State) (e : Err) (o : Nat) : (s.fail e).inHeap o = s.inHeap o := by unfold fail; split <;> rfl
@[simp] theorem inHeapW_fail (s : State) (e : Err) (o : Nat) : (s.fail e).inHeapW o = s.inHeapW o := by unfold fail; split <;> rfl
@[simp] theorem strongNat_fail (s : State) (e : Err) (o : Nat) : (s.fail e).strongNat o = s.strongNat o := by unfold fail; split <;> rfl
@[simp] theorem weakNat_fail (s : State) (e : Err) (o : Nat) : (s.fail e).weakNat o = s.weakNat o := by unfold fail; split <;> rfl
@[simp] theorem implicitNat_fail (s : State) (e : Err) (o : Nat) : (s.fail e).implicitNat o = s.implicitNat o := by unfold fail; split <;> rfl

/-! ### B. untouched by `emit` -/

@[simp] theorem cell_emit (s : State) (e : Ev) (o : Nat) : (s.emit e).cell o = s.cell o := rfl
@[simp] theorem tableOf_emit (s : State) (e : Ev) (o : Nat) : (s.emit e).tableOf o = s.tableOf o := rfl
@[simp] theorem tbl_emit (s : State) (e : Ev) (o : Nat) : (s.emit e).tbl o = s.tbl o := rfl
@[simp] theorem isLive_emit (s : State) (e : Ev) (o : Nat) : (s.emit e).isLive o = s.isLive o := rfl
@[simp] theorem strongOf_emit (s : State) (e : Ev) (o : Nat) : (s.emit e).strongOf o = s.strongOf o := rfl
@[simp] theorem heldOf_emit (s : State) (e : Ev) (o : Nat) : (s.emit e).heldOf o = s.heldOf o := rfl
@[simp] theorem weaksOf_emit (s : State) (e : Ev) (o : Nat) : (s.emit e).weaksOf o = s.weaksOf o := rfl
@[simp] theorem H_emit (s : State) (e : Ev) (x y : Nat) : (s.emit e).H x y = s.H x y := rfl
@[simp] theorem F_emit (s : State) (e : Ev) (x y : Nat) : (s.emit e).F x y = s.F x y := rfl
@[simp] theorem B_emit (s : State) (e : Ev) (x y : Nat) : (s.emit e).B x y = s.B x y := rfl
@[simp] theorem ext_emit (s : State) (e : Ev) (o : Nat) : (s.emit e).ext o = s.ext o := rfl
@[simp] theorem extW_emit (s : State) (e : Ev) (o : Nat) : (s.emit e).extW o = s.extW o := rfl
@[simp] theorem pend_emit (s : State) (e : Ev) (o : Nat) : (s.emit e).pend o = s.pend o := rfl
@[simp] theorem pendW_emit (s : State) (e : Ev) (o : Nat) : (s.emit e).pendW o = s.pendW o := rfl
@[simp] theorem owed_emit (s : State) (e : Ev) (o : Nat) : (s.emit e).owed o = s.owed o := rfl
@[simp] theorem inHeap_emit (s : State) (e : Ev) (o : Nat) : (s.emit e).inHeap o = s.inHeap o := rfl
@[simp] theorem inHeapW_emit (s : State) (e : Ev) (o : Nat) : (s.emit e).inHeapW o = s.inHeapW o := rfl
@[simp] theorem strongNat_emit (s : State) (e : Ev) (o : Nat) : (s.emit e).strongNat o = s.strongNat o := rfl
@[simp] theorem weakNat_emit (s : State) (e : Ev) (o : Nat) : (s.emit e).weakNat o = s.weakNat o := rfl
@[simp] theorem implicitNat_emit (s : State) (e : Ev) (o : Nat) : (s.emit e).implicitNat o = s.implicitNat o := rfl

/-! ### B. untouched by `push` -/

@[simp] theorem cell_push (s : State) (fs : List Frame) (o : Nat) : (s.push fs).cell o = s.cell o := rfl
@[simp] theorem tableOf_push (s : State) (fs : List Frame) (o : Nat) : (s.push fs).tableOf o = s.tableOf o := rfl
@[simp] theorem tbl_push (s : State) (fs : List Frame) (o : Nat) : (s.push fs).tbl o = s.tbl o := rfl
@[simp] theorem isLive_push (s : State) (fs : List Frame) (o : Nat) : (s.push fs).isLive o = s.isLive o := rfl
@[simp] theorem strongOf_push (s : State) (fs : List Frame) (o : Nat) : (s.push fs).strongOf o = s.strongOf o := rfl
@[simp] theorem heldOf_push (s : State) (fs : List Frame) (o : Nat) : (s.push fs).heldOf o = s.heldOf o := rfl
@[simp] theorem weaksOf_push (s : State) (fs : List Frame) (o : Nat) : (s.push fs).weaksOf o = s.weaksOf o := rfl
@[simp] theorem H_push (s : State) (fs : List Frame) (x y : Nat) : (s.push fs).H x y = s.H x y := rfl
@[simp] theorem F_push (s : State) (fs : List Frame) (x y : Nat) : (s.push fs).F x y = s.F x y := rfl
@[simp] theorem B_push (s : State) (fs : List Frame) (x y : Nat) : (s.push fs).B x y = s.B x y := rfl
@[simp] theorem ext_push (s : State) (fs : List Frame) (o : Nat) : (s.push fs).ext o = s.ext o := rfl
@[simp] theorem extW_push (s : State) (fs : List Frame) (o : Nat) : (s.push fs).extW o = s.extW o := rfl
@[simp] theorem inHeap_push (s : State) (fs : List Frame) (o : Nat) : (s.push fs).inHeap o = s.inHeap o := rfl
@[simp] theorem inHeapW_push (s : State) (fs : List Frame) (o : Nat) : (s.push fs).inHeapW o = s.inHeapW o := rfl
@[simp] theorem strongNat_push (s : State) (fs : List Frame) (o : Nat) : (s.push fs).strongNat o = s.strongNat o := rfl
@[simp] theorem weakNat_push (s : State) (fs : List Frame) (o : Nat) : (s.push fs).weakNat o = s.weakNat o := rfl
@[simp] theorem implicitNat_push (s : State) (fs : List Frame) (o : Nat) : (s.push fs).implicitNat o = s.implicitNat o := rfl

/-! ### B. untouched by `withStack` -/

@[simp ↓] theorem cell_withStack (s : State) (st : List Frame) (o : Nat) : ({ s with stack := st } : State).cell o = s.cell o := rfl
@[simp ↓] theorem tableOf_withStack (s : State) (st : List Frame) (o : Nat) : ({ s with stack := st } : State).tableOf o = s.tableOf o := rfl
@[simp ↓] theorem tbl_withStack (s : State) (st : List Frame) (o : Nat) : ({ s with stack := st } : State).tbl o = s.tbl o := rfl
@[simp ↓] theorem isLive_withStack (s : State) (st : List Frame) (o : Nat) : ({ s with stack := st } : State).isLive o = s.isLive o := rfl
@[simp ↓] theorem strongOf_withStack (s : State) (st : List Frame) (o : Nat) : ({ s with stack := st } : State).strongOf o = s.strongOf o := rfl
@[simp ↓] theorem heldOf_withStack (s : State) (st : List Frame) (o : Nat) : ({ s with stack := st } : State).heldOf o = s.heldOf o := rfl
@[simp ↓] theorem weaksOf_withStack (s : State) (st : List Frame) (o : Nat) : ({ s with stack := st } : State).weaksOf o = s.weaksOf o := rfl
@[simp ↓] theorem H_withStack (s : State) (st : List Frame) (x y : Nat) : ({ s with stack := st } : State).H x y = s.H x y := rfl
@[simp ↓] theorem F_withStack (s : State) (st : List Frame) (x y : Nat) : ({ s with stack := st } : State).F x y = s.F x y := rfl
@[simp ↓] theorem B_withStack (s : State) (st : List Frame) (x y : Nat) : ({ s with stack := st } : State).B x y = s.B x y := rfl
@[simp ↓] theorem ext_withStack (s : State) (st : List Frame) (o : Nat) : ({ s with stack := st } : State).ext o = s.ext o := rfl
@[simp ↓] theorem extW_withStack (s : State) (st : List Frame) (o : Nat) : ({ s with stack := st } : State).extW o = s.extW o := rfl
@[simp ↓] theorem inHeap_withStack (s : State) (st : List Frame) (o : Nat) : ({ s with stack := st } : State).inHeap o = s.inHeap o := rfl
@[simp ↓] theorem inHeapW_withStack (s : State) (st : List Frame) (o : Nat) : ({ s with stack := st } : State).inHeapW o = s.inHeapW o := rfl
@[simp ↓] theorem strongNat_withStack (s : State) (st : List Frame) (o : Nat) : ({ s with stack := st } : State).strongNat o = s.strongNat o := rfl
@[simp ↓] theorem weakNat_withStack (s : State) (st : List Frame) (o : Nat) : ({ s with stack := st } : State).weakNat o = s.weakNat o := rfl
@[simp ↓] theorem implicitNat_withStack (s : State) (st : List Frame) (o : Nat) : ({ s with stack := st } : State).implicitNat o = s.implicitNat o := rfl

/-! ### B. untouched by `withRoots` -/

@[simp ↓] theorem cell_withRoots (s : State) (r : List Nat) (o : Nat) : ({ s with roots := r } : State).cell o = s.cell o := rfl
@[simp ↓] theorem tableOf_withRoots (s : State) (r : List Nat) (o : Nat) : ({ s with roots := r } : State).tableOf o = s.tableOf o := rfl
@[simp ↓] theorem tbl_withRoots (s : State) (r : List Nat) (o : Nat) : ({ s with roots := r } : State).tbl o = s.tbl o := rfl
@[simp ↓] theorem isLive_withRoots (s : State) (r : List Nat) (o : Nat) : ({ s with roots := r } : State).isLive o = s.isLive o := rfl
@[simp ↓] theorem strongOf_withRoots (s : State) (r : List Nat) (o : Nat) : ({ s with roots := r } : State).strongOf o = s.strongOf o := rfl
@[simp ↓] theorem heldOf_withRoots (s : State) (r : List Nat) (o : Nat) : ({ s with roots := r } : State).heldOf o = s.heldOf o := rfl
@[simp ↓] theorem weaksOf_withRoots (s : State) (r : List Nat) (o : Nat) : ({ s with roots := r } : State).weaksOf o = s.weaksOf o := rfl
@[simp ↓] theorem H_withRoots (s : State) (r : List Nat) (x y : Nat) : ({ s with roots := r } : State).H x y = s.H x y := rfl
@[simp ↓] theorem F_withRoots (s : State) (r : List Nat) (x y : Nat) : ({ s with roots := r } : State).F x y = s.F x y := rfl
@[simp ↓] theorem B_withRoots (s : State) (r : List Nat) (x y : Nat) : ({ s with roots := r } : State).B x y = s.B x y := rfl
@[simp ↓] theorem extW_withRoots (s : State) (r : List Nat) (o : Nat) : ({ s with roots := r } : State).extW o = s.extW o := rfl
@[simp ↓] theorem pend_withRoots (s : State) (r : List Nat) (o : Nat) : ({ s with roots := r } : State).pend o = s.pend o := rfl
@[simp ↓] theorem pendW_withRoots (s : State) (r : List Nat) (o : Nat) : ({ s with roots := r } : State).pendW o = s.pendW o := rfl
@[simp ↓] theorem owed_withRoots (s : State) (r : List Nat) (o : Nat) : ({ s with roots := r } : State).owed o = s.owed o := rfl
@[simp ↓] theorem inHeap_withRoots (s : State) (r : List Nat) (o : Nat) : ({ s with roots := r } : State).inHeap o = s.inHeap o := rfl
@[simp ↓] theorem inHeapW_withRoots (s : State) (r : List Nat) (o : Nat) : ({ s with roots := r } : State).inHeapW o = s.inHeapW o := rfl
@[simp ↓] theorem strongNat_withRoots (s : State) (r : List Nat) (o : Nat) : ({ s with roots := r } : State).strongNat o = s.strongNat o := rfl
@[simp ↓] theorem weakNat_withRoots (s : State) (r : List Nat) (o : Nat) : ({ s with roots := r } : State).weakNat o = s.weakNat o := rfl
@[simp ↓] theorem implicitNat_withRoots (s : State) (r : List Nat) (o : Nat) : ({ s with roots := r } : State).implicitNat o = s.implicitNat o := rfl

/-! ### B. untouched by `withWroots` -/

@[simp ↓] theorem cell_withWroots (s : State) (r : List Nat) (o : Nat) : ({ s with wroots := r } : State).cell o = s.cell o := rfl
@[simp ↓] theorem tableOf_withWroots (s : State) (r : List Nat) (o : Nat) : ({ s with wroots := r } : State).tableOf o = s.tableOf o := rfl
@[simp ↓] theorem tbl_withWroots (s : State) (r : List Nat) (o : Nat) : ({ s with wroots := r } : State).tbl o = s.tbl o := rfl
@[simp ↓] theorem isLive_withWroots (s : State) (r : List Nat) (o : Nat) : ({ s with wroots := r } : State).isLive o = s.isLive o := rfl
@[simp ↓] theorem strongOf_withWroots (s : State) (r : List Nat) (o : Nat) : ({ s with wroots := r } : State).strongOf o = s.strongOf o := rfl
@[simp ↓] theorem heldOf_withWroots (s : State) (r : List Nat) (o : Nat) : ({ s with wroots := r } : State).heldOf o = s.heldOf o := rfl
@[simp ↓] theorem weaksOf_withWroots (s : State) (r : List Nat) (o : Nat) : ({ s with wroots := r } : State).weaksOf o = s.weaksOf o := rfl
@[simp ↓] theorem H_withWroots (s : State) (r : List Nat) (x y : Nat) : ({ s with wroots := r } : State).H x y = s.H x y := rfl
@[simp ↓] theorem F_withWroots (s : State) (r : List Nat) (x y : Nat) : ({ s with wroots := r } : State).F x y = s.F x y := rfl
@[simp ↓] theorem B_withWroots (s : State) (r : List Nat) (x y : Nat) : ({ s with wroots := r } : State).B x y = s.B x y := rfl
@[simp ↓] theorem ext_withWroots (s : State) (r : List Nat) (o : Nat) : ({ s with wroots := r } : State).ext o = s.ext o := rfl
@[simp ↓] theorem pend_withWroots (s : State) (r : List Nat) (o : Nat) : ({ s with wroots := r } : State).pend o = s.pend o := rfl
@[simp ↓] theorem pendW_withWroots (s : State) (r : List Nat) (o : Nat) : ({ s with wroots := r } : State).pendW o = s.pendW o := rfl
@[simp ↓] theorem owed_withWroots (s : State) (r : List Nat) (o : Nat) : ({ s with wroots := r } : State).owed o = s.owed o := rfl
@[simp ↓] theorem inHeap_withWroots (s : State) (r : List Nat) (o : Nat) : ({ s with wroots := r } : State).inHeap o = s.inHeap o := rfl
@[simp ↓] theorem inHeapW_withWroots (s : State) (r : List Nat) (o : Nat) : ({ s with wroots := r } : State).inHeapW o = s.inHeapW o := rfl
@[simp ↓] theorem strongNat_withWroots (s : State) (r : List Nat) (o : Nat) : ({ s with wroots := r } : State).strongNat o = s.strongNat o := rfl
@[simp ↓] theorem weakNat_withWroots (s : State) (r : List Nat) (o : Nat) : ({ s with wroots := r } : State).weakNat o = s.weakNat o := rfl
@[simp ↓] theorem implicitNat_withWroots (s : State) (r : List Nat) (o : Nat) : ({ s with wroots := r } : State).implicitNat o = s.implicitNat o := rfl

/-! ### B. untouched by `withVals` -/

@[simp ↓] theorem cell_withVals (s : State) (vs : List Val) (o : Nat) : ({ s with vals := vs } : State).cell o = s.cell o := rfl
@[simp ↓] theorem tableOf_withVals (s : State) (vs : List Val) (o : Nat) : ({ s with vals := vs } : State).tableOf o = s.tableOf o := rfl
@[simp ↓] theorem tbl_withVals (s : State) (vs : List Val) (o : Nat) : ({ s with vals := vs } : State).tbl o = s.tbl o := rfl
@[simp ↓] theorem isLive_withVals (s : State) (vs : List Val) (o : Nat) : ({ s with vals := vs } : State).isLive o = s.isLive o := rfl
@[simp ↓] theorem strongOf_withVals (s : State) (vs : List Val) (o : Nat) : ({ s with vals := vs } : State).strongOf o = s.strongOf o := rfl
@[simp ↓] theorem heldOf_withVals (s : State) (vs : List Val) (o : Nat) : ({ s with vals := vs } : State).heldOf o = s.heldOf o := rfl
@[simp ↓] theorem weaksOf_withVals (s : State) (vs : List Val) (o : Nat) : ({ s with vals := vs } : State).weaksOf o = s.weaksOf o := rfl
@[simp ↓] theorem H_withVals (s : State) (vs : List Val) (x y : Nat) : ({ s with vals := vs } : State).H x y = s.H x y := rfl
@[simp ↓] theorem F_withVals (s : State) (vs : List Val) (x y : Nat) : ({ s with vals := vs } : State).F x y = s.F x y := rfl
@[simp ↓] theorem B_withVals (s : State) (vs : List Val) (x y : Nat) : ({ s with vals := vs } : State).B x y = s.B x y := rfl
@[simp ↓] theorem pend_withVals (s : State) (vs : List Val) (o : Nat) : ({ s with vals := vs } : State).pend o = s.pend o := rfl
@[simp ↓] theorem pendW_withVals (s : State) (vs : List Val) (o : Nat) : ({ s with vals := vs } : State).pendW o = s.pendW o := rfl
@[simp ↓] theorem owed_withVals (s : State) (vs : List Val) (o : Nat) : ({ s with vals := vs } : State).owed o = s.owed o := rfl
@[simp ↓] theorem inHeap_withVals (s : State) (vs : List Val) (o : Nat) : ({ s with vals := vs } : State).inHeap o = s.inHeap o := rfl
@[simp ↓] theorem inHeapW_withVals (s : State) (vs : List Val) (o : Nat) : ({ s with vals := vs } : State).inHeapW o = s.inHeapW o := rfl
@[simp ↓] theorem strongNat_withVals (s : State) (vs : List Val) (o : Nat) : ({ s with vals := vs } : State).strongNat o = s.strongNat o := rfl
@[simp ↓] theorem weakNat_withVals (s : State) (vs : List Val) (o : Nat) : ({ s with vals := vs } : State).weakNat o = s.weakNat o := rfl
@[simp ↓] theorem implicitNat_withVals (s : State) (vs : List Val) (o : Nat) : ({ s with vals := vs } : State).implicitNat o = s.implicitNat o := rfl

/-! ### B. untouched by `withRaws` -/

@[simp ↓] theorem cell_withRaws (s : State) (r : List Nat) (o : Nat) : ({ s with raws := r } : State).cell o = s.cell o := rfl
@[simp ↓] theorem tableOf_withRaws (s : State) (r : List Nat) (o : Nat) : ({ s with raws := r } : State).tableOf o = s.tableOf o := rfl
@[simp ↓] theorem tbl_withRaws (s : State) (r : List Nat) (o : Nat) : ({ s with raws := r } : State).tbl o = s.tbl o := rfl
@[simp ↓] theorem isLive_withRaws (s : State) (r : List Nat) (o : Nat) : ({ s with raws := r } : State).isLive o = s.isLive o := rfl
@[simp ↓] theorem strongOf_withRaws (s : State) (r : List Nat) (o : Nat) : ({ s with raws := r } : State).strongOf o = s.strongOf o := rfl
@[simp ↓] theorem heldOf_withRaws (s : State) (r : List Nat) (o : Nat) : ({ s with raws := r } : State).heldOf o = s.heldOf o := rfl
@[simp ↓] theorem weaksOf_withRaws (s : State) (r : List Nat) (o : Nat) : ({ s with raws := r } : State).weaksOf o = s.weaksOf o := rfl
@[simp ↓] theorem H_withRaws (s : State) (r : List Nat) (x y : Nat) : ({ s with raws := r } : State).H x y = s.H x y := rfl
@[simp ↓] theorem F_withRaws (s : State) (r : List Nat) (x y : Nat) : ({ s with raws := r } : State).F x y = s.F x y := rfl
@[simp ↓] theorem B_withRaws (s : State) (r : List Nat) (x y : Nat) : ({ s with raws := r } : State).B x y = s.B x y := rfl
@[simp ↓] theorem extW_withRaws (s : State) (r : List Nat) (o : Nat) : ({ s with raws := r } : State).extW o = s.extW o := rfl
@[simp ↓] theorem pend_withRaws (s : State) (r : List Nat) (o : Nat) : ({ s with raws := r } : State).pend o = s.pend o := rfl
@[simp ↓] theorem pendW_withRaws (s : State) (r : List Nat) (o : Nat) : ({ s with raws := r } : State).pendW o = s.pendW o := rfl
@[simp ↓] theorem owed_withRaws (s : State) (r : List Nat) (o : Nat) : ({ s with raws := r } : State).owed o = s.owed o := rfl
@[simp ↓] theorem inHeap_withRaws (s : State) (r : List Nat) (o : Nat) : ({ s with raws := r } : State).inHeap o = s.inHeap o := rfl
@[simp ↓] theorem inHeapW_withRaws (s : State) (r : List Nat) (o : Nat) : ({ s with raws := r } : State).inHeapW o = s.inHeapW o := rfl
@[simp ↓] theorem strongNat_withRaws (s : State) (r : List Nat) (o : Nat) : ({ s with raws := r } : State).strongNat o = s.strongNat o := rfl
@[simp ↓] theorem weakNat_withRaws (s : State) (r : List Nat) (o : Nat) : ({ s with raws := r } : State).weakNat o = s.weakNat o := rfl
@[simp ↓] theorem implicitNat_withRaws (s : State) (r : List Nat) (o : Nat) : ({ s with raws := r } : State).implicitNat o = s.implicitNat o := rfl

/-! ### B. untouched by `withHint` -/

@[simp ↓] theorem cell_withHint (s : State) (h : List Nat) (o : Nat) : ({ s with hint := h } : State).cell o = s.cell o := rfl
@[simp ↓] theorem tableOf_withHint (s : State) (h : List Nat) (o : Nat) : ({ s with hint := h } : State).tableOf o = s.tableOf o := rfl
@[simp ↓] theorem tbl_withHint (s : State) (h : List Nat) (o : Nat) : ({ s with hint := h } : State).tbl o = s.tbl o := rfl
@[simp ↓] theorem isLive_withHint (s : State) (h : List Nat) (o : Nat) : ({ s with hint := h } : State).isLive o = s.isLive o := rfl
@[simp ↓] theorem strongOf_withHint (s : State) (h : List Nat) (o : Nat) : ({ s with hint := h } : State).strongOf o = s.strongOf o := rfl
@[simp ↓] theorem heldOf_withHint (s : State) (h : List Nat) (o : Nat) : ({ s with hint := h } : State).heldOf o = s.heldOf o := rfl
@[simp ↓] theorem weaksOf_withHint (s : State) (h : List Nat) (o : Nat) : ({ s with hint := h } : State).weaksOf o = s.weaksOf o := rfl
@[simp ↓] theorem H_withHint (s : State) (h : List Nat) (x y : Nat) : ({ s with hint := h } : State).H x y = s.H x y := rfl
@[simp ↓] theorem F_withHint (s : State) (h : List Nat) (x y : Nat) : ({ s with hint := h } : State).F x y = s.F x y := rfl
@[simp ↓] theorem B_withHint (s : State) (h : List Nat) (x y : Nat) : ({ s with hint := h } : State).B x y = s.B x y := rfl
@[simp ↓] theorem ext_withHint (s : State) (h : List Nat) (o : Nat) : ({ s with hint := h } : State).ext o = s.ext o := rfl
@[simp ↓] theorem extW_withHint (s : State) (h : List Nat) (o : Nat) : ({ s with hint := h } : State).extW o = s.extW o := rfl
@[simp ↓] theorem pend_withHint (s : State) (h : List Nat) (o : Nat) : ({ s with hint := h } : State).pend o = s.pend o := rfl
@[simp ↓] theorem pendW_withHint (s : State) (h : List Nat) (o : Nat) : ({ s with hint := h } : State).pendW o = s.pendW o := rfl
@[simp ↓] theorem owed_withHint (s : State) (h : List Nat) (o : Nat) : ({ s with hint := h } : State).owed o = s.owed o := rfl
@[simp ↓] theorem inHeap_withHint (s : State) (h : List Nat) (o : Nat) : ({ s with hint := h } : State).inHeap o = s.inHeap o := rfl
@[simp ↓] theorem inHeapW_withHint (s : State) (h : List Nat) (o : Nat) : ({ s with hint := h } : State).inHeapW o = s.inHeapW o := rfl
@[simp ↓] theorem strongNat_withHint (s : State) (h : List Nat) (o : Nat) : ({ s with hint := h } : State).strongNat o = s.strongNat o := rfl
@[simp ↓] theorem weakNat_withHint (s : State) (h : List Nat) (o : Nat) : ({ s with hint := h } : State).weakNat o = s.weakNat o := rfl
@[simp ↓] theorem implicitNat_withHint (s : State) (h : List Nat) (o : Nat) : ({ s with hint := h } : State).implicitNat o = s.implicitNat o := rfl

/-! ### B. untouched by `withUnwinding` -/

@[simp ↓] theorem cell_withUnwinding (s : State) (b : Bool) (o : Nat) : ({ s with unwinding := b } : State).cell o = s.cell o := rfl
@[simp ↓] theorem tableOf_withUnwinding (s : State) (b : Bool) (o : Nat) : ({ s with unwinding := b } : State).tableOf o = s.tableOf o := rfl
@[simp ↓] theorem tbl_withUnwinding (s : State) (b : Bool) (o : Nat) : ({ s with unwinding := b } : State).tbl o = s.tbl o := rfl
@[simp ↓] theorem isLive_withUnwinding (s : State) (b : Bool) (o : Nat) : ({ s with unwinding := b } : State).isLive o = s.isLive o := rfl
@[simp ↓] theorem strongOf_withUnwinding (s : State) (b : Bool) (o : Nat) : ({ s with unwinding := b } : State).strongOf o = s.strongOf o := rfl
@[simp ↓] theorem heldOf_withUnwinding (s : State) (b : Bool) (o : Nat) : ({ s with unwinding := b } : State).heldOf o = s.heldOf o := rfl
@[simp ↓] theorem weaksOf_withUnwinding (s : State) (b : Bool) (o : Nat) : ({ s with unwinding := b } : State).weaksOf o = s.weaksOf o := rfl
@[simp ↓] theorem H_withUnwinding (s : State) (b : Bool) (x y : Nat) : ({ s with unwinding := b } : State).H x y = s.H x y := rfl
@[simp ↓] theorem F_withUnwinding (s : State) (b : Bool) (x y : Nat) : ({ s with unwinding := b } : State).F x y = s.F x y := rfl
@[simp ↓] theorem B_withUnwinding (s : State) (b : Bool) (x y : Nat) : ({ s with unwinding := b } : State).B x y = s.B x y := rfl
@[simp ↓] theorem ext_withUnwinding (s : State) (b : Bool) (o : Nat) : ({ s with unwinding := b } : State).ext o = s.ext o := rfl
@[simp ↓] theorem extW_withUnwinding (s : State) (b : Bool) (o : Nat) : ({ s with unwinding := b } : State).extW o = s.extW o := rfl
@[simp ↓] theorem pend_withUnwinding (s : State) (b : Bool) (o : Nat) : ({ s with unwinding := b } : State).pend o = s.pend o := rfl
@[simp ↓] theorem pendW_withUnwinding (s : State) (b : Bool) (o : Nat) : ({ s with unwinding := b } : State).pendW o = s.pendW o := rfl
@[simp ↓] theorem owed_withUnwinding (s : State) (b : Bool) (o : Nat) : ({ s with unwinding := b } : State).owed o = s.owed o := rfl
@[simp ↓] theorem inHeap_withUnwinding (s : State) (b : Bool) (o : Nat) : ({ s with unwinding := b } : State).inHeap o = s.inHeap o := rfl
@[simp ↓] theorem inHeapW_withUnwinding (s : State) (b : Bool) (o : Nat) : ({ s with unwinding := b } : State).inHeapW o = s.inHeapW o := rfl
@[simp ↓] theorem strongNat_withUnwinding (s : State) (b : Bool) (o : Nat) : ({ s with unwinding := b } : State).strongNat o = s.strongNat o := rfl
@[simp ↓] theorem weakNat_withUnwinding (s : State) (b : Bool) (o : Nat) : ({ s with unwinding := b } : State).weakNat o = s.weakNat o := rfl
@[simp ↓] theorem implicitNat_withUnwinding (s : State) (b : Bool) (o : Nat) : ({ s with unwinding := b } : State).implicitNat o = s.implicitNat o := rfl

/-! ### B. untouched by `withNextVid` -/

@[simp ↓] theorem cell_withNextVid (s : State) (n : Nat) (o : Nat) : ({ s with nextVid := n } : State).cell o = s.cell o := rfl
@[simp ↓] theorem tableOf_withNextVid (s : State) (n : Nat) (o : Nat) : ({ s with nextVid := n } : State).tableOf o = s.tableOf o := rfl
@[simp ↓] theorem tbl_withNextVid (s : State) (n : Nat) (o : Nat) : ({ s with nextVid := n } : State).tbl o = s.tbl o := rfl
@[simp ↓] theorem isLive_withNextVid (s : State) (n : Nat) (o : Nat) : ({ s with nextVid := n } : State).isLive o = s.isLive o := rfl
@[simp ↓] theorem strongOf_withNextVid (s : State) (n : Nat) (o : Nat) : ({ s with nextVid := n } : State).strongOf o = s.strongOf o := rfl
@[simp ↓] theorem heldOf_withNextVid (s : State) (n : Nat) (o : Nat) : ({ s with nextVid := n } : State).heldOf o = s.heldOf o := rfl
@[simp ↓] theorem weaksOf_withNextVid (s : State) (n : Nat) (o : Nat) : ({ s with nextVid := n } : State).weaksOf o = s.weaksOf o := rfl
@[simp ↓] theorem H_withNextVid (s : State) (n : Nat) (x y : Nat) : ({ s with nextVid := n } : State).H x y = s.H x y := rfl
@[simp ↓] theorem F_withNextVid (s : State) (n : Nat) (x y : Nat) : ({ s with nextVid := n } : State).F x y = s.F x y := rfl
@[simp ↓] theorem B_withNextVid (s : State) (n : Nat) (x y : Nat) : ({ s with nextVid := n } : State).B x y = s.B x y := rfl
@[simp ↓] theorem ext_withNextVid (s : State) (n : Nat) (o : Nat) : ({ s with nextVid := n } : State).ext o = s.ext o := rfl
@[simp ↓] theorem extW_withNextVid (s : State) (n : Nat) (o : Nat) : ({ s with nextVid := n } : State).extW o = s.extW o := rfl
@[simp ↓] theorem pend_withNextVid (s : State) (n : Nat) (o : Nat) : ({ s with nextVid := n } : State).pend o = s.pend o := rfl
@[simp ↓] theorem pendW_withNextVid (s : State) (n : Nat) (o : Nat) : ({ s with nextVid := n } : State).pendW o = s.pendW o := rfl
@[simp ↓] theorem owed_withNextVid (s : State) (n : Nat) (o : Nat) : ({ s with nextVid := n } : State).owed o = s.owed o := rfl
@[simp ↓] theorem inHeap_withNextVid (s : State) (n : Nat) (o : Nat) : ({ s with nextVid := n } : State).inHeap o = s.inHeap o := rfl
@[simp ↓] theorem inHeapW_withNextVid (s : State) (n : Nat) (o : Nat) : ({ s with nextVid := n } : State).inHeapW o = s.inHeapW o := rfl
@[simp ↓] theorem strongNat_withNextVid (s : State) (n : Nat) (o : Nat) : ({ s with nextVid := n } : State).strongNat o = s.strongNat o := rfl
@[simp ↓] theorem weakNat_withNextVid (s : State) (n : Nat) (o : Nat) : ({ s with nextVid := n } : State).weakNat o = s.weakNat o := rfl
@[simp ↓] theorem implicitNat_withNextVid (s : State) (n : Nat) (o : Nat) : ({ s with nextVid := n } : State).implicitNat o = s.implicitNat o := rfl

/-! ### B. untouched by `withRootsNextVid` -/

@[simp ↓] theorem cell_withRootsNextVid (s : State) (r : List Nat) (n : Nat) (o : Nat) : ({ s with roots := r, nextVid := n } : State).cell o = s.cell o := rfl
@[simp ↓] theorem tableOf_withRootsNextVid (s : State) (r : List Nat) (n : Nat) (o : Nat) : ({ s with roots := r, nextVid := n } : State).tableOf o = s.tableOf o := rfl
@[simp ↓] theorem tbl_withRootsNextVid (s : State) (r : List Nat) (n : Nat) (o : Nat) : ({ s with roots := r, nextVid := n } : State).tbl o = s.tbl o := rfl
@[simp ↓] theorem isLive_withRootsNextVid (s : State) (r : List Nat) (n : Nat) (o : Nat) : ({ s with roots := r, nextVid := n } : State).isLive o = s.isLive o := rfl
@[simp ↓] theorem strongOf_withRootsNextVid (s : State) (r : List Nat) (n : Nat) (o : Nat) : ({ s with roots := r, nextVid := n } : State).strongOf o = s.strongOf o := rfl
@[simp ↓] theorem heldOf_withRootsNextVid (s : State) (r : List Nat) (n : Nat) (o : Nat) : ({ s with roots := r, nextVid := n } : State).heldOf o = s.heldOf o := rfl
@[simp ↓] theorem weaksOf_withRootsNextVid (s : State) (r : List Nat) (n : Nat) (o : Nat) : ({ s with roots := r, nextVid := n } : State).weaksOf o = s.weaksOf o := rfl
@[simp ↓] theorem H_withRootsNextVid (s : State) (r : List Nat) (n : Nat) (x y : Nat) : ({ s with roots := r, nextVid := n } : State).H x y = s.H x y := rfl
@[simp ↓] theorem F_withRootsNextVid (s : State) (r : List Nat) (n : Nat) (x y : Nat) : ({ s with roots := r, nextVid := n } : State).F x y = s.F x y := rfl
@[simp ↓] theorem B_withRootsNextVid (s : State) (r : List Nat) (n : Nat) (x y : Nat) : ({ s with roots := r, nextVid := n } : State).B x y = s.B x y := rfl
@[simp ↓] theorem extW_withRootsNextVid (s : State) (r : List Nat) (n : Nat) (o : Nat) : ({ s with roots := r, nextVid := n } : State).extW o = s.extW o := rfl
@[simp ↓] theorem pend_withRootsNextVid (s : State) (r : List Nat) (n : Nat) (o : Nat) : ({ s with roots := r, nextVid := n } : State).pend o = s.pend o := rfl
@[simp ↓] theorem pendW_withRootsNextVid (s : State) (r : List Nat) (n : Nat) (o : Nat) : ({ s with roots := r, nextVid := n } : State).pendW o = s.pendW o := rfl
@[simp ↓] theorem owed_withRootsNextVid (s : State) (r : List Nat) (n : Nat) (o : Nat) : ({ s with roots := r, nextVid := n } : State).owed o = s.owed o := rfl
@[simp ↓] theorem inHeap_withRootsNextVid (s : State) (r : List Nat) (n : Nat) (o : Nat) : ({ s with roots := r, nextVid := n } : State).inHeap o = s.inHeap o := rfl
@[simp ↓] theorem inHeapW_withRootsNextVid (s : State) (r : List Nat) (n : Nat) (o : Nat) : ({ s with roots := r, nextVid := n } : State).inHeapW o = s.inHeapW o := rfl
@[simp ↓] theorem strongNat_withRootsNextVid (s : State) (r : List Nat) (n : Nat) (o : Nat) : ({ s with roots := r, nextVid := n } : State).strongNat o = s.strongNat o := rfl
@[simp ↓] theorem weakNat_withRootsNextVid (s : State) (r : List Nat) (n : Nat) (o : Nat) : ({ s with roots := r, nextVid := n } : State).weakNat o = s.weakNat o := rfl
@[simp ↓] theorem implicitNat_withRootsNextVid (s : State) (r : List Nat) (n : Nat) (o : Nat) : ({ s with roots := r, nextVid := n } : State).implicitNat o = s.implicitNat o := rfl

/-! ### B. untouched by `withRootsVals` -/

@[simp ↓] theorem cell_withRootsVals (s : State) (r : List Nat) (vs : List Val) (o : Nat) : ({ s with roots := r, vals := vs } : State).cell o = s.cell o := rfl
@[simp ↓] theorem tableOf_withRootsVals (s : State) (r : List Nat) (vs : List Val) (o : Nat) : ({ s with roots := r, vals := vs } : State).tableOf o = s.tableOf o := rfl
@[simp ↓] theorem tbl_withRootsVals (s : State) (r : List Nat) (vs : List Val) (o : Nat) : ({ s with roots := r, vals := vs } : State).tbl o = s.tbl o := rfl
@[simp ↓] theorem isLive_withRootsVals (s : State) (r : List Nat) (vs : List Val) (o : Nat) : ({ s with roots := r, vals := vs } : State).isLive o = s.isLive o := rfl
@[simp ↓] theorem strongOf_withRootsVals (s : State) (r : List Nat) (vs : List Val) (o : Nat) : ({ s with roots := r, vals := vs } : State).strongOf o = s.strongOf o := rfl
@[simp ↓] theorem heldOf_withRootsVals (s : State) (r : List Nat) (vs : List Val) (o : Nat) : ({ s with roots := r, vals := vs } : State).heldOf o = s.heldOf o := rfl
@[simp ↓] theorem weaksOf_withRootsVals (s : State) (r : List Nat) (vs : List Val) (o : Nat) : ({ s with roots := r, vals := vs } : State).weaksOf o = s.weaksOf o := rfl
@[simp ↓] theorem H_withRootsVals (s : State) (r : List Nat) (vs : List Val) (x y : Nat) : ({ s with roots := r, vals := vs } : State).H x y = s.H x y := rfl
@[simp ↓] theorem F_withRootsVals (s : State) (r : List Nat) (vs : List Val) (x y : Nat) : ({ s with roots := r, vals := vs } : State).F x y = s.F x y := rfl
@[simp ↓] theorem B_withRootsVals (s : State) (r : List Nat) (vs : List Val) (x y : Nat) : ({ s with roots := r, vals := vs } : State).B x y = s.B x y := rfl
@[simp ↓] theorem pend_withRootsVals (s : State) (r : List Nat) (vs : List Val) (o : Nat) : ({ s with roots := r, vals := vs } : State).pend o = s.pend o := rfl
@[simp ↓] theorem pendW_withRootsVals (s : State) (r : List Nat) (vs : List Val) (o : Nat) : ({ s with roots := r, vals := vs } : State).pendW o = s.pendW o := rfl
@[simp ↓] theorem owed_withRootsVals (s : State) (r : List Nat) (vs : List Val) (o : Nat) : ({ s with roots := r, vals := vs } : State).owed o = s.owed o := rfl
@[simp ↓] theorem inHeap_withRootsVals (s : State) (r : List Nat) (vs : List Val) (o : Nat) : ({ s with roots := r, vals := vs } : State).inHeap o = s.inHeap o := rfl
@[simp ↓] theorem inHeapW_withRootsVals (s : State) (r : List Nat) (vs : List Val) (o : Nat) : ({ s with roots := r, vals := vs } : State).inHeapW o = s.inHeapW o := rfl
@[simp ↓] theorem strongNat_withRootsVals (s : State) (r : List Nat) (vs : List Val) (o : Nat) : ({ s with roots := r, vals := vs } : State).strongNat o = s.strongNat o := rfl
@[simp ↓] theorem weakNat_withRootsVals (s : State) (r : List Nat) (vs : List Val) (o : Nat) : ({ s with roots := r, vals := vs } : State).weakNat o = s.weakNat o := rfl
@[simp ↓] theorem implicitNat_withRootsVals (s : State) (r : List Nat) (vs : List Val) (o : Nat) : ({ s with roots := r, vals := vs } : State).implicitNat o = s.implicitNat o := rfl

/-! ### B. untouched by `withRootsRaws` -/

@[simp ↓] theorem cell_withRootsRaws (s : State) (r r' : List Nat) (o : Nat) : ({ s with roots := r, raws := r' } : State).cell o = s.cell o := rfl
@[simp ↓] theorem tableOf_withRootsRaws (s : State) (r r' : List Nat) (o : Nat) : ({ s with roots := r, raws := r' } : State).tableOf o = s.tableOf o := rfl
@[simp ↓] theorem tbl_withRootsRaws (s : State) (r r' : List Nat) (o : Nat) : ({ s with roots := r, raws := r' } : State).tbl o = s.tbl o := rfl
@[simp ↓] theorem isLive_withRootsRaws (s : State) (r r' : List Nat) (o : Nat) : ({ s with roots := r, raws := r' } : State).isLive o = s.isLive o := rfl
@[simp ↓] theorem strongOf_withRootsRaws (s : State) (r r' : List Nat) (o : Nat) : ({ s with roots := r, raws := r' } : State).strongOf o = s.strongOf o := rfl
@[simp ↓] theorem heldOf_withRootsRaws (s : State) (r r' : List Nat) (o : Nat) : ({ s with roots := r, raws := r' } : State).heldOf o = s.heldOf o := rfl
@[simp ↓] theorem weaksOf_withRootsRaws (s : State) (r r' : List Nat) (o : Nat) : ({ s with roots := r, raws := r' } : State).weaksOf o = s.weaksOf o := rfl
@[simp ↓] theorem H_withRootsRaws (s : State) (r r' : List Nat) (x y : Nat) : ({ s with roots := r, raws := r' } : State).H x y = s.H x y := rfl
@[simp ↓] theorem F_withRootsRaws (s : State) (r r' : List Nat) (x y : Nat) : ({ s with roots := r, raws := r' } : State).F x y = s.F x y := rfl
@[simp ↓] theorem B_withRootsRaws (s : State) (r r' : List Nat) (x y : Nat) : ({ s with roots := r, raws := r' } : State).B x y = s.B x y := rfl
@[simp ↓] theorem extW_withRootsRaws (s : State) (r r' : List Nat) (o : Nat) : ({ s with roots := r, raws := r' } : State).extW o = s.extW o := rfl
@[simp ↓] theorem pend_withRootsRaws (s : State) (r r' : List Nat) (o : Nat) : ({ s with roots := r, raws := r' } : State).pend o = s.pend o := rfl
@[simp ↓] theorem pendW_withRootsRaws (s : State) (r r' : List Nat) (o : Nat) : ({ s with roots := r, raws := r' } : State).pendW o = s.pendW o := rfl
@[simp ↓] theorem owed_withRootsRaws (s : State) (r r' : List Nat) (o : Nat) : ({ s with roots := r, raws := r' } : State).owed o = s.owed o := rfl
@[simp ↓] theorem inHeap_withRootsRaws (s : State) (r r' : List Nat) (o : Nat) : ({ s with roots := r, raws := r' } : State).inHeap o = s.inHeap o := rfl
@[simp ↓] theorem inHeapW_withRootsRaws (s : State) (r r' : List Nat) (o : Nat) : ({ s with roots := r, raws := r' } : State).inHeapW o = s.inHeapW o := rfl
@[simp ↓] theorem strongNat_withRootsRaws (s : State) (r r' : List Nat) (o : Nat) : ({ s with roots := r, raws := r' } : State).strongNat o = s.strongNat o := rfl
@[simp ↓] theorem weakNat_withRootsRaws (s : State) (r r' : List Nat) (o : Nat) : ({ s with roots := r, raws := r' } : State).weakNat o = s.weakNat o := rfl
@[simp ↓] theorem implicitNat_withRootsRaws (s : State) (r r' : List Nat) (o : Nat) : ({ s with roots := r, raws := r' } : State).implicitNat o = s.implicitNat o := rfl

/-! ### B. untouched by `withUnwindingStack` -/

@[simp ↓] theorem cell_withUnwindingStack (s : State) (b : Bool) (st : List Frame) (o : Nat) : ({ s with unwinding := b, stack := st } : State).cell o = s.cell o := rfl
@[simp ↓] theorem tableOf_withUnwindingStack (s : State) (b : Bool) (st : List Frame) (o : Nat) : ({ s with unwinding := b, stack := st } : State).tableOf o = s.tableOf o := rfl
@[simp ↓] theorem tbl_withUnwindingStack (s : State) (b : Bool) (st : List Frame) (o : Nat) : ({ s with unwinding := b, stack := st } : State).tbl o = s.tbl o := rfl
@[simp ↓] theorem isLive_withUnwindingStack (s : State) (b : Bool) (st : List Frame) (o : Nat) : ({ s with unwinding := b, stack := st } : State).isLive o = s.isLive o := rfl
@[simp ↓] theorem strongOf_withUnwindingStack (s : State) (b : Bool) (st : List Frame) (o : Nat) : ({ s with unwinding := b, stack := st } : State).strongOf o = s.strongOf o := rfl
@[simp ↓] theorem heldOf_withUnwindingStack (s : State) (b : Bool) (st : List Frame) (o : Nat) : ({ s with unwinding := b, stack := st } : State).heldOf o = s.heldOf o := rfl
@[simp ↓] theorem weaksOf_withUnwindingStack (s : State) (b : Bool) (st : List Frame) (o : Nat) : ({ s with unwinding := b, stack := st } : State).weaksOf o = s.weaksOf o := rfl
@[simp ↓] theorem H_withUnwindingStack (s : State) (b : Bool) (st : List Frame) (x y : Nat) : ({ s with unwinding := b, stack := st } : State).H x y = s.H x y := rfl
@[simp ↓] theorem F_withUnwindingStack (s : State) (b : Bool) (st : List Frame) (x y : Nat) : ({ s with unwinding := b, stack := st } : State).F x y = s.F x y := rfl
@[simp ↓] theorem B_withUnwindingStack (s : State) (b : Bool) (st : List Frame) (x y : Nat) : ({ s with unwinding := b, stack := st } : State).B x y = s.B x y := rfl
@[simp ↓] theorem ext_withUnwindingStack (s : State) (b : Bool) (st : List Frame) (o : Nat) : ({ s with unwinding := b, stack := st } : State).ext o = s.ext o := rfl
@[simp ↓] theorem extW_withUnwindingStack (s : State) (b : Bool) (st : List Frame) (o : Nat) : ({ s with unwinding := b, stack := st } : State).extW o = s.extW o := rfl
@[simp ↓] theorem inHeap_withUnwindingStack (s : State) (b : Bool) (st : List Frame) (o : Nat) : ({ s with unwinding := b, stack := st } : State).inHeap o = s.inHeap o := rfl
@[simp ↓] theorem inHeapW_withUnwindingStack (s : State) (b : Bool) (st : List Frame) (o : Nat) : ({ s with unwinding := b, stack := st } : State).inHeapW o = s.inHeapW o := rfl
@[simp ↓] theorem strongNat_withUnwindingStack (s : State) (b : Bool) (st : List Frame) (o : Nat) : ({ s with unwinding := b, stack := st } : State).strongNat o = s.strongNat o := rfl
@[simp ↓] theorem weakNat_withUnwindingStack (s : State) (b : Bool) (st : List Frame) (o : Nat) : ({ s with unwinding := b, stack := st } : State).weakNat o = s.weakNat o := rfl
@[simp ↓] theorem implicitNat_withUnwindingStack (s : State) (b : Bool) (st : List Frame) (o : Nat) : ({ s with unwinding := b, stack := st } : State).implicitNat o = s.implicitNat o := rfl

/-! ### B. untouched by `setObj` -/

@[simp] theorem ext_setObj (s : State) (a : Nat) (ob : Obj) (o : Nat) : (s.setObj a ob).ext o = s.ext o := rfl
@[simp] theorem extW_setObj (s : State) (a : Nat) (ob : Obj) (o : Nat) : (s.setObj a ob).extW o = s.extW o := rfl
@[simp] theorem pend_setObj (s : State) (a : Nat) (ob : Obj) (o : Nat) : (s.setObj a ob).pend o = s.pend o := rfl
@[simp] theorem pendW_setObj (s : State) (a : Nat) (ob : Obj) (o : Nat) : (s.setObj a ob).pendW o = s.pendW o := rfl
@[simp] theorem owed_setObj (s : State) (a : Nat) (ob : Obj) (o : Nat) : (s.setObj a ob).owed o = s.owed o := rfl

/-! ### B. untouched by `alloc` -/

@[simp] theorem ext_alloc (s : State) (v : Val) (o : Nat) : (s.alloc v).ext o = s.ext o := rfl
@[simp] theorem extW_alloc (s : State) (v : Val) (o : Nat) : (s.alloc v).extW o = s.extW o := rfl
@[simp] theorem pend_alloc (s : State) (v : Val) (o : Nat) : (s.alloc v).pend o = s.pend o := rfl
@[simp] theorem pendW_alloc (s : State) (v : Val) (o : Nat) : (s.alloc v).pendW o = s.pendW o := rfl
@[simp] theorem owed_alloc (s : State) (v : Val) (o : Nat) : (s.alloc v).owed o = s.owed o := rfl

end State
end Cactus

namespace Cactus

/-! ## C. Stack changes -/

/-! ### the three frame weights on constructors -/

@[simp] theorem Frame.strongTo_rcDrop (o : Nat) (t : Nat) : Frame.strongTo o (.rcDrop t) = if t = o then 1 else 0 := rfl
@[simp] theorem Frame.strongTo_weakDrop (o : Nat) (t : Nat) : Frame.strongTo o (.weakDrop t) = 0 := rfl
@[simp] theorem Frame.strongTo_dropVal (o : Nat) (v : Val) : Frame.strongTo o (.dropVal v) = v.held.count o := rfl
@[simp] theorem Frame.strongTo_script (o : Nat) (h w : List Nat) (as : List Act) : Frame.strongTo o (.script h w as) = 0 := rfl
@[simp] theorem Frame.strongTo_panic (o : Nat) : Frame.strongTo o .panic = 0 := rfl
@[simp] theorem Frame.strongTo_dropFields (o : Nat) (h w : List Nat) : Frame.strongTo o (.dropFields h w) = h.count o := rfl
@[simp] theorem Frame.strongTo_finishSingle (o : Nat) (t : Nat) : Frame.strongTo o (.finishSingle t) = 0 := rfl
@[simp] theorem Frame.strongTo_phase3 (o : Nat) (ks : List Nat) : Frame.strongTo o (.phase3 ks) = 0 := rfl
@[simp] theorem Frame.weakTo_rcDrop (o : Nat) (t : Nat) : Frame.weakTo o (.rcDrop t) = 0 := rfl
@[simp] theorem Frame.weakTo_weakDrop (o : Nat) (t : Nat) : Frame.weakTo o (.weakDrop t) = if t = o then 1 else 0 := rfl
@[simp] theorem Frame.weakTo_dropVal (o : Nat) (v : Val) : Frame.weakTo o (.dropVal v) = v.weaks.count o := rfl
@[simp] theorem Frame.weakTo_script (o : Nat) (h w : List Nat) (as : List Act) : Frame.weakTo o (.script h w as) = 0 := rfl
@[simp] theorem Frame.weakTo_panic (o : Nat) : Frame.weakTo o .panic = 0 := rfl
@[simp] theorem Frame.weakTo_dropFields (o : Nat) (h w : List Nat) : Frame.weakTo o (.dropFields h w) = w.count o := rfl
@[simp] theorem Frame.weakTo_finishSingle (o : Nat) (t : Nat) : Frame.weakTo o (.finishSingle t) = 0 := rfl
@[simp] theorem Frame.weakTo_phase3 (o : Nat) (ks : List Nat) : Frame.weakTo o (.phase3 ks) = 0 := rfl
@[simp] theorem Frame.owes_rcDrop (o : Nat) (t : Nat) : Frame.owes o (.rcDrop t) = 0 := rfl
@[simp] theorem Frame.owes_weakDrop (o : Nat) (t : Nat) : Frame.owes o (.weakDrop t) = 0 := rfl
@[simp] theorem Frame.owes_dropVal (o : Nat) (v : Val) : Frame.owes o (.dropVal v) = 0 := rfl
@[simp] theorem Frame.owes_script (o : Nat) (h w : List Nat) (as : List Act) : Frame.owes o (.script h w as) = 0 := rfl
@[simp] theorem Frame.owes_panic (o : Nat) : Frame.owes o .panic = 0 := rfl
@[simp] theorem Frame.owes_dropFields (o : Nat) (h w : List Nat) : Frame.owes o (.dropFields h w) = 0 := rfl
@[simp] theorem Frame.owes_finishSingle (o : Nat) (t : Nat) : Frame.owes o (.finishSingle t) = if t = o then 1 else 0 := rfl
@[simp] theorem Frame.owes_phase3 (o : Nat) (ks : List Nat) : Frame.owes o (.phase3 ks) = ks.count o := rfl

/-- only cleanup frames own strong handles -/
theorem Frame.strongTo_of_not_cleanup (o : Nat) (f : Frame) (h : f.isCleanup = false) :
    Frame.strongTo o f = 0 := by
  cases f <;> simp_all [Frame.isCleanup]

/-- only cleanup frames own Weak handles -/
theorem Frame.weakTo_of_not_cleanup (o : Nat) (f : Frame) (h : f.isCleanup = false) :
    Frame.weakTo o f = 0 := by
  cases f <;> simp_all [Frame.isCleanup]

/-- cleanup frames owe no implicit weak reference -/
theorem Frame.owes_of_cleanup (o : Nat) (f : Frame) (h : f.isCleanup = true) :
    Frame.owes o f = 0 := by
  cases f <;> simp_all [Frame.isCleanup]

theorem Frame.owes_pos_iff (o : Nat) (f : Frame) :
    0 < Frame.owes o f ↔ f = .finishSingle o ∨ ∃ ks, f = .phase3 ks ∧ o ∈ ks := by
  cases f <;> simp [List.count_pos_iff]
  · rename_i t; by_cases h : t = o <;> simp [h]

namespace State

/-! ### list level -/

theorem sumList_strongTo_filter_cleanup (st : List Frame) (o : Nat) :
    sumList ((st.filter Frame.isCleanup).map (Frame.strongTo o)) = sumList (st.map (Frame.strongTo o)) :=
  sumList_map_filter st _ _ (fun f _ h => Frame.strongTo_of_not_cleanup o f h)

theorem sumList_weakTo_filter_cleanup (st : List Frame) (o : Nat) :
    sumList ((st.filter Frame.isCleanup).map (Frame.weakTo o)) = sumList (st.map (Frame.weakTo o)) :=
  sumList_map_filter st _ _ (fun f _ h => Frame.weakTo_of_not_cleanup o f h)

theorem sumList_owes_filter_cleanup (st : List Frame) (o : Nat) :
    sumList ((st.filter Frame.isCleanup).map (Frame.owes o)) = 0 := by
  rw [sumList_map_eq_zero_iff]
  intro f hf
  exact Frame.owes_of_cleanup o f (List.mem_filter.mp hf).2

/-! ### `push` -/

@[simp] theorem pend_push (s : State) (fs : List Frame) (o : Nat) :
    (s.push fs).pend o = sumList (fs.map (Frame.strongTo o)) + s.pend o := by
  simp [pend]
@[simp] theorem pendW_push (s : State) (fs : List Frame) (o : Nat) :
    (s.push fs).pendW o = sumList (fs.map (Frame.weakTo o)) + s.pendW o := by
  simp [pendW]
@[simp] theorem owed_push (s : State) (fs : List Frame) (o : Nat) :
    (s.push fs).owed o = sumList (fs.map (Frame.owes o)) + s.owed o := by
  simp [owed]

@[simp] theorem push_nil (s : State) : s.push [] = s := rfl
theorem push_push (s : State) (fs gs : List Frame) : (s.push fs).push gs = s.push (gs ++ fs) := by
  simp [push]

/-! ### replacing the stack -/

@[simp ↓] theorem pend_withStack (s : State) (st : List Frame) (o : Nat) :
    ({ s with stack := st } : State).pend o = sumList (st.map (Frame.strongTo o)) := rfl
@[simp ↓] theorem pendW_withStack (s : State) (st : List Frame) (o : Nat) :
    ({ s with stack := st } : State).pendW o = sumList (st.map (Frame.weakTo o)) := rfl
@[simp ↓] theorem owed_withStack (s : State) (st : List Frame) (o : Nat) :
    ({ s with stack := st } : State).owed o = sumList (st.map (Frame.owes o)) := rfl

@[simp ↓] theorem pend_withUnwindingStack (s : State) (b : Bool) (st : List Frame) (o : Nat) :
    ({ s with unwinding := b, stack := st } : State).pend o = sumList (st.map (Frame.strongTo o)) := rfl
@[simp ↓] theorem pendW_withUnwindingStack (s : State) (b : Bool) (st : List Frame) (o : Nat) :
    ({ s with unwinding := b, stack := st } : State).pendW o = sumList (st.map (Frame.weakTo o)) := rfl
@[simp ↓] theorem owed_withUnwindingStack (s : State) (b : Bool) (st : List Frame) (o : Nat) :
    ({ s with unwinding := b, stack := st } : State).owed o = sumList (st.map (Frame.owes o)) := rfl

theorem pend_withStack_cons (s : State) (f : Frame) (rest : List Frame) (o : Nat) :
    ({ s with stack := f :: rest } : State).pend o
      = Frame.strongTo o f + ({ s with stack := rest } : State).pend o := rfl
theorem pendW_withStack_cons (s : State) (f : Frame) (rest : List Frame) (o : Nat) :
    ({ s with stack := f :: rest } : State).pendW o
      = Frame.weakTo o f + ({ s with stack := rest } : State).pendW o := rfl
theorem owed_withStack_cons (s : State) (f : Frame) (rest : List Frame) (o : Nat) :
    ({ s with stack := f :: rest } : State).owed o
      = Frame.owes o f + ({ s with stack := rest } : State).owed o := rfl

/-- popping the top frame, as `step` does -/
theorem pend_of_stack_cons {s : State} {f : Frame} {rest : List Frame} (h : s.stack = f :: rest) (o : Nat) :
    s.pend o = Frame.strongTo o f + ({ s with stack := rest } : State).pend o := by
  simp [pend, h]
theorem pendW_of_stack_cons {s : State} {f : Frame} {rest : List Frame} (h : s.stack = f :: rest) (o : Nat) :
    s.pendW o = Frame.weakTo o f + ({ s with stack := rest } : State).pendW o := by
  simp [pendW, h]
theorem owed_of_stack_cons {s : State} {f : Frame} {rest : List Frame} (h : s.stack = f :: rest) (o : Nat) :
    s.owed o = Frame.owes o f + ({ s with stack := rest } : State).owed o := by
  simp [owed, h]

theorem pend_of_stack_nil {s : State} (h : s.stack = []) (o : Nat) : s.pend o = 0 := by simp [pend, h]
theorem pendW_of_stack_nil {s : State} (h : s.stack = []) (o : Nat) : s.pendW o = 0 := by simp [pendW, h]
theorem owed_of_stack_nil {s : State} (h : s.stack = []) (o : Nat) : s.owed o = 0 := by simp [owed, h]

/-- a frame on the stack contributes to the sums -/
theorem strongTo_le_pend {s : State} {f : Frame} (h : f ∈ s.stack) (o : Nat) : Frame.strongTo o f ≤ s.pend o :=
  le_sumList_map_of_mem _ h
theorem weakTo_le_pendW {s : State} {f : Frame} (h : f ∈ s.stack) (o : Nat) : Frame.weakTo o f ≤ s.pendW o :=
  le_sumList_map_of_mem _ h
theorem owes_le_owed {s : State} {f : Frame} (h : f ∈ s.stack) (o : Nat) : Frame.owes o f ≤ s.owed o :=
  le_sumList_map_of_mem _ h

theorem owed_pos_iff (s : State) (o : Nat) :
    0 < s.owed o ↔ Frame.finishSingle o ∈ s.stack ∨ ∃ ks, Frame.phase3 ks ∈ s.stack ∧ o ∈ ks := by
  unfold owed
  rw [sumList_map_pos_iff]
  constructor
  · rintro ⟨f, hf, hp⟩
    rcases (Frame.owes_pos_iff o f).mp hp with rfl | ⟨ks, rfl, hk⟩
    · exact Or.inl hf
    · exact Or.inr ⟨ks, hf, hk⟩
  · rintro (h | ⟨ks, h, hk⟩)
    · exact ⟨_, h, (Frame.owes_pos_iff o _).mpr (Or.inl rfl)⟩
    · exact ⟨_, h, (Frame.owes_pos_iff o _).mpr (Or.inr ⟨ks, rfl, hk⟩)⟩

/-! ### unwinding: `List.filter Frame.isCleanup` -/

theorem pend_filter_cleanup (s : State) (o : Nat) :
    ({ s with stack := s.stack.filter Frame.isCleanup } : State).pend o = s.pend o :=
  sumList_strongTo_filter_cleanup s.stack o
theorem pendW_filter_cleanup (s : State) (o : Nat) :
    ({ s with stack := s.stack.filter Frame.isCleanup } : State).pendW o = s.pendW o :=
  sumList_weakTo_filter_cleanup s.stack o
theorem owed_filter_cleanup (s : State) (o : Nat) :
    ({ s with stack := s.stack.filter Frame.isCleanup } : State).owed o = 0 :=
  sumList_owes_filter_cleanup s.stack o

@[simp] theorem pend_panic (s : State) (o : Nat) : s.panic.pend o = s.pend o := by
  unfold panic; split
  · simp
  · exact sumList_strongTo_filter_cleanup s.stack o
@[simp] theorem pendW_panic (s : State) (o : Nat) : s.panic.pendW o = s.pendW o := by
  unfold panic; split
  · simp
  · exact sumList_weakTo_filter_cleanup s.stack o
theorem owed_panic (s : State) (o : Nat) : s.panic.owed o = if s.unwinding then s.owed o else 0 := by
  unfold panic; split
  · simp
  · exact sumList_owes_filter_cleanup s.stack o
theorem owed_panic_le (s : State) (o : Nat) : s.panic.owed o ≤ s.owed o := by
  rw [owed_panic]; split <;> omega

/-! ### the frames pushed by `dropVal` and `dropFields` -/

theorem dropVal_eq (s : State) (v : Val) :
    s.dropVal v = (s.emit (.destroyed v.vid)).push
      ([.script v.held v.weaks v.script] ++ (if v.panics then [.panic] else []) ++ [.dropFields v.held v.weaks]) := rfl

@[simp] theorem pend_dropVal (s : State) (v : Val) (o : Nat) : (s.dropVal v).pend o = v.held.count o + s.pend o := by
  unfold dropVal; cases v.panics <;> simp
@[simp] theorem pendW_dropVal (s : State) (v : Val) (o : Nat) : (s.dropVal v).pendW o = v.weaks.count o + s.pendW o := by
  unfold dropVal; cases v.panics <;> simp
@[simp] theorem owed_dropVal (s : State) (v : Val) (o : Nat) : (s.dropVal v).owed o = s.owed o := by
  unfold dropVal; cases v.panics <;> simp

theorem dropFields_eq_push (s : State) (h w : List Nat) : ∃ fs, s.dropFields h w = s.push fs := by
  cases h with
  | cons a h => exact ⟨_, rfl⟩
  | nil =>
    cases w with
    | cons a w => exact ⟨_, rfl⟩
    | nil => exact ⟨[], rfl⟩

@[simp] theorem pend_dropFields (s : State) (h w : List Nat) (o : Nat) :
    (s.dropFields h w).pend o = h.count o + s.pend o := by
  cases h with
  | cons a h => simp [dropFields, count_cons']
  | nil => cases w <;> simp [dropFields]
@[simp] theorem pendW_dropFields (s : State) (h w : List Nat) (o : Nat) :
    (s.dropFields h w).pendW o = w.count o + s.pendW o := by
  cases h with
  | cons a h => simp [dropFields]
  | nil => cases w <;> simp [dropFields, count_cons']
@[simp] theorem owed_dropFields (s : State) (h w : List Nat) (o : Nat) :
    (s.dropFields h w).owed o = s.owed o := by
  cases h with
  | cons a h => simp [dropFields]
  | nil => cases w <;> simp [dropFields]

end State
end Cactus

namespace Cactus
namespace State

/-! ## D. Program handle lists (`roots`, `raws`, `wroots`, `vals`) -/

theorem sumList_map_eraseIdx {α : Type} (l : List α) (i : Nat) (a : α) (f : α → Nat) (h : l[i]? = some a) :
    sumList ((l.eraseIdx i).map f) + f a = sumList (l.map f) := by
  induction l generalizing i with
  | nil => simp at h
  | cons b l ih =>
    cases i with
    | zero => simp at h; subst h; simp; omega
    | succ i =>
      have := ih i (by simpa using h)
      simp only [List.eraseIdx_cons_succ, List.map_cons, sumList_cons]; omega

theorem sumList_map_eraseIdx_of_ge {α : Type} (l : List α) (i : Nat) (f : α → Nat) (h : l.length ≤ i) :
    sumList ((l.eraseIdx i).map f) = sumList (l.map f) := by
  rw [List.eraseIdx_of_length_le h]

/-! ### general form: replacing one list -/

theorem ext_withRoots_gen (s : State) (r : List Nat) (o : Nat) :
    ({ s with roots := r } : State).ext o + s.roots.count o = s.ext o + r.count o := by
  simp only [ext]; omega
theorem ext_withRaws_gen (s : State) (r : List Nat) (o : Nat) :
    ({ s with raws := r } : State).ext o + s.raws.count o = s.ext o + r.count o := by
  simp only [ext]; omega
theorem extW_withWroots_gen (s : State) (r : List Nat) (o : Nat) :
    ({ s with wroots := r } : State).extW o + s.wroots.count o = s.extW o + r.count o := by
  simp only [extW]; omega
theorem ext_withVals_gen (s : State) (vs : List Val) (o : Nat) :
    ({ s with vals := vs } : State).ext o + sumList (s.vals.map (fun v => v.held.count o))
      = s.ext o + sumList (vs.map (fun v => v.held.count o)) := by
  simp only [ext]; omega
theorem extW_withVals_gen (s : State) (vs : List Val) (o : Nat) :
    ({ s with vals := vs } : State).extW o + sumList (s.vals.map (fun v => v.weaks.count o))
      = s.extW o + sumList (vs.map (fun v => v.weaks.count o)) := by
  simp only [extW]; omega

/-! ### `roots` -/

@[simp ↓] theorem ext_withRoots_append (s : State) (t o : Nat) :
    ({ s with roots := s.roots ++ [t] } : State).ext o = s.ext o + (if t = o then 1 else 0) := by
  simp only [ext, count_concat]; omega

theorem ext_withRoots_eraseIdx (s : State) (i o : Nat) :
    ({ s with roots := s.roots.eraseIdx i } : State).ext o + (if s.roots[i]? = some o then 1 else 0)
      = s.ext o := by
  have := count_eraseIdx_add s.roots i o
  simp only [ext]; omega

theorem ext_withRoots_eraseIdx_of_eq (s : State) (i o : Nat) (h : s.roots[i]? = some o) :
    ({ s with roots := s.roots.eraseIdx i } : State).ext o + 1 = s.ext o := by
  have := ext_withRoots_eraseIdx s i o; simpa [h] using this

theorem ext_withRoots_eraseIdx_of_ne (s : State) (i o : Nat) (h : s.roots[i]? ≠ some o) :
    ({ s with roots := s.roots.eraseIdx i } : State).ext o = s.ext o := by
  have := ext_withRoots_eraseIdx s i o; simpa [h] using this

theorem ext_withRoots_set (s : State) (i t o : Nat) (h : i < s.roots.length) :
    ({ s with roots := s.roots.set i t } : State).ext o + (if s.roots[i]? = some o then 1 else 0)
      = s.ext o + (if t = o then 1 else 0) := by
  have := count_set_add s.roots i t o h
  simp only [ext]; omega

theorem ext_withRoots_set_of_ge (s : State) (i t o : Nat) (h : s.roots.length ≤ i) :
    ({ s with roots := s.roots.set i t } : State).ext o = s.ext o := by
  simp only [ext, count_set_of_ge _ _ _ _ h]

/-! ### `raws` -/

@[simp ↓] theorem ext_withRaws_append (s : State) (t o : Nat) :
    ({ s with raws := s.raws ++ [t] } : State).ext o = s.ext o + (if t = o then 1 else 0) := by
  simp only [ext, count_concat]; omega

theorem ext_withRaws_eraseIdx (s : State) (i o : Nat) :
    ({ s with raws := s.raws.eraseIdx i } : State).ext o + (if s.raws[i]? = some o then 1 else 0)
      = s.ext o := by
  have := count_eraseIdx_add s.raws i o
  simp only [ext]; omega

theorem ext_withRaws_eraseIdx_of_eq (s : State) (i o : Nat) (h : s.raws[i]? = some o) :
    ({ s with raws := s.raws.eraseIdx i } : State).ext o + 1 = s.ext o := by
  have := ext_withRaws_eraseIdx s i o; simpa [h] using this

theorem ext_withRaws_eraseIdx_of_ne (s : State) (i o : Nat) (h : s.raws[i]? ≠ some o) :
    ({ s with raws := s.raws.eraseIdx i } : State).ext o = s.ext o := by
  have := ext_withRaws_eraseIdx s i o; simpa [h] using this

/-- `into_raw`: a handle moves from `roots` to `raws` -/
theorem ext_intoRaw (s : State) (i t o : Nat) (h : s.roots[i]? = some t) :
    ({ s with roots := s.roots.eraseIdx i, raws := s.raws ++ [t] } : State).ext o = s.ext o := by
  have := count_eraseIdx_add s.roots i o
  simp only [ext, count_concat, h, Option.some.injEq] at *; omega

/-- `from_raw`: a handle moves from `raws` to `roots` -/
theorem ext_fromRaw (s : State) (i t o : Nat) (h : s.raws[i]? = some t) :
    ({ s with raws := s.raws.eraseIdx i, roots := s.roots ++ [t] } : State).ext o = s.ext o := by
  have := count_eraseIdx_add s.raws i o
  simp only [ext, count_concat, h, Option.some.injEq] at *; omega

theorem ext_withRootsRaws_gen (s : State) (r r' : List Nat) (o : Nat) :
    ({ s with roots := r, raws := r' } : State).ext o + s.roots.count o + s.raws.count o
      = s.ext o + r.count o + r'.count o := by
  simp only [ext]; omega

@[simp ↓] theorem ext_withRootsNextVid (s : State) (r : List Nat) (n : Nat) (o : Nat) :
    ({ s with roots := r, nextVid := n } : State).ext o = ({ s with roots := r } : State).ext o := rfl

/-! ### `wroots` -/

@[simp ↓] theorem extW_withWroots_append (s : State) (t o : Nat) :
    ({ s with wroots := s.wroots ++ [t] } : State).extW o = s.extW o + (if t = o then 1 else 0) := by
  simp only [extW, count_concat]; omega

theorem extW_withWroots_eraseIdx (s : State) (i o : Nat) :
    ({ s with wroots := s.wroots.eraseIdx i } : State).extW o + (if s.wroots[i]? = some o then 1 else 0)
      = s.extW o := by
  have := count_eraseIdx_add s.wroots i o
  simp only [extW]; omega

theorem extW_withWroots_eraseIdx_of_eq (s : State) (i o : Nat) (h : s.wroots[i]? = some o) :
    ({ s with wroots := s.wroots.eraseIdx i } : State).extW o + 1 = s.extW o := by
  have := extW_withWroots_eraseIdx s i o; simpa [h] using this

theorem extW_withWroots_eraseIdx_of_ne (s : State) (i o : Nat) (h : s.wroots[i]? ≠ some o) :
    ({ s with wroots := s.wroots.eraseIdx i } : State).extW o = s.extW o := by
  have := extW_withWroots_eraseIdx s i o; simpa [h] using this

/-! ### `vals` -/

@[simp ↓] theorem ext_withVals_append (s : State) (v : Val) (o : Nat) :
    ({ s with vals := s.vals ++ [v] } : State).ext o = s.ext o + v.held.count o := by
  simp only [ext, List.map_append, sumList_append, List.map_cons, List.map_nil, sumList_singleton]; omega

@[simp ↓] theorem extW_withVals_append (s : State) (v : Val) (o : Nat) :
    ({ s with vals := s.vals ++ [v] } : State).extW o = s.extW o + v.weaks.count o := by
  simp only [extW, List.map_append, sumList_append, List.map_cons, List.map_nil, sumList_singleton]; omega

theorem ext_withVals_eraseIdx (s : State) (i : Nat) (v : Val) (o : Nat) (h : s.vals[i]? = some v) :
    ({ s with vals := s.vals.eraseIdx i } : State).ext o + v.held.count o = s.ext o := by
  have := sumList_map_eraseIdx s.vals i v (fun v => v.held.count o) h
  simp only [ext]; omega

theorem extW_withVals_eraseIdx (s : State) (i : Nat) (v : Val) (o : Nat) (h : s.vals[i]? = some v) :
    ({ s with vals := s.vals.eraseIdx i } : State).extW o + v.weaks.count o = s.extW o := by
  have := sumList_map_eraseIdx s.vals i v (fun v => v.weaks.count o) h
  simp only [extW]; omega

theorem ext_withVals_eraseIdx_of_ge (s : State) (i o : Nat) (h : s.vals.length ≤ i) :
    ({ s with vals := s.vals.eraseIdx i } : State).ext o = s.ext o := by
  simp only [ext, List.eraseIdx_of_length_le h]

theorem extW_withVals_eraseIdx_of_ge (s : State) (i o : Nat) (h : s.vals.length ≤ i) :
    ({ s with vals := s.vals.eraseIdx i } : State).extW o = s.extW o := by
  simp only [extW, List.eraseIdx_of_length_le h]

/-- `try_unwrap`: one handle leaves `roots`, the unwrapped value joins `vals` -/
theorem ext_withRootsVals_eraseIdx_append (s : State) (i : Nat) (v : Val) (o : Nat) :
    ({ s with roots := s.roots.eraseIdx i, vals := s.vals ++ [v] } : State).ext o
        + (if s.roots[i]? = some o then 1 else 0)
      = s.ext o + v.held.count o := by
  have := count_eraseIdx_add s.roots i o
  simp only [ext, List.map_append, sumList_append, List.map_cons, List.map_nil, sumList_singleton]; omega

@[simp ↓] theorem extW_withRootsVals (s : State) (r : List Nat) (vs : List Val) (o : Nat) :
    ({ s with roots := r, vals := vs } : State).extW o = ({ s with vals := vs } : State).extW o := rfl

/-! ### membership -/

theorem ext_pos_of_mem_roots {s : State} {o : Nat} (h : o ∈ s.roots) : 0 < s.ext o := by
  have := (count_pos_iff_mem s.roots o).mpr h
  simp only [ext]; omega

theorem ext_pos_of_mem_raws {s : State} {o : Nat} (h : o ∈ s.raws) : 0 < s.ext o := by
  have := (count_pos_iff_mem s.raws o).mpr h
  simp only [ext]; omega

theorem ext_pos_of_mem_vals {s : State} {o : Nat} {v : Val} (hv : v ∈ s.vals) (h : o ∈ v.held) :
    0 < s.ext o := by
  have h1 := (count_pos_iff_mem v.held o).mpr h
  have h2 := le_sumList_map_of_mem (fun v : Val => v.held.count o) hv
  simp only [ext]; omega

theorem extW_pos_of_mem_wroots {s : State} {o : Nat} (h : o ∈ s.wroots) : 0 < s.extW o := by
  have := (count_pos_iff_mem s.wroots o).mpr h
  simp only [extW]; omega

theorem ext_pos_iff (s : State) (o : Nat) :
    0 < s.ext o ↔ o ∈ s.roots ∨ o ∈ s.raws ∨ ∃ v ∈ s.vals, o ∈ v.held := by
  have h1 := count_pos_iff_mem s.roots o
  have h2 := count_pos_iff_mem s.raws o
  have h3 := sumList_map_pos_iff s.vals (fun v => v.held.count o)
  simp only [List.count_pos_iff] at h3
  simp only [ext, ← h1, ← h2, ← h3]; omega

end State
end Cactus

namespace Cactus
namespace State

/-! ## E. Heap updates by `setObj`

`ext`, `extW`, `pend`, `pendW`, `owed` and all non-heap fields are untouched (section B). -/

theorem getElem?_setObj (s : State) (a i : Nat) (ob' : Obj) :
    (s.setObj a ob').heap[i]? = if a = i then (if a < s.heap.length then some ob' else none) else s.heap[i]? := by
  simp [setObj, List.getElem?_set]

theorem getElem?_setObj_same {s : State} {a : Nat} (ob' : Obj) (h : a < s.heap.length) :
    (s.setObj a ob').heap[a]? = some ob' := setObj_get_same s a ob' h

theorem getElem?_setObj_other (s : State) {a a' : Nat} (ob' : Obj) (h : a' ≠ a) :
    (s.setObj a ob').heap[a']? = s.heap[a']? := setObj_get_other s a a' ob' (Ne.symm h)

/-- writing outside the heap does nothing -/
theorem setObj_of_ge {s : State} {a : Nat} (ob' : Obj) (h : s.heap.length ≤ a) : s.setObj a ob' = s := by
  simp [setObj, List.set_eq_of_length_le h]

@[simp] theorem setObj_setObj (s : State) (a : Nat) (x y : Obj) : (s.setObj a x).setObj a y = s.setObj a y := by
  simp [setObj]

/-- writing back the object that is there does nothing -/
theorem setObj_self {s : State} {a : Nat} {ob : Obj} (h : s.heap[a]? = some ob) : s.setObj a ob = s := by
  obtain ⟨hlt, he⟩ := List.getElem?_eq_some_iff.mp h
  subst he
  simp [setObj]

theorem setObj_comm (s : State) {a b : Nat} (x y : Obj) (h : a ≠ b) :
    (s.setObj a x).setObj b y = (s.setObj b y).setObj a x := by
  simp [setObj, List.set_comm _ _ h]

/-! ### at the updated index -/

section same
variable {s : State} {a : Nat} (ob' : Obj) (h : a < s.heap.length)
include h

theorem cell_setObj_same' : (s.setObj a ob').cell a = if ob'.freed then none else some ob' :=
  cell_of_get (getElem?_setObj_same ob' h)
theorem strongOf_setObj_same : (s.setObj a ob').strongOf a = ob'.strong :=
  strongOf_of_get (getElem?_setObj_same ob' h)
theorem isLive_setObj_same : (s.setObj a ob').isLive a = (!ob'.freed && !ob'.strong.isDead) :=
  isLive_of_get (getElem?_setObj_same ob' h)
theorem tableOf_setObj_same : (s.setObj a ob').tableOf a = if ob'.freed then none else ob'.links :=
  tableOf_of_get (getElem?_setObj_same ob' h)
theorem tbl_setObj_same : (s.setObj a ob').tbl a = if ob'.freed then [] else ob'.links.getD [] :=
  tbl_of_get (getElem?_setObj_same ob' h)
theorem heldOf_setObj_same : (s.setObj a ob').heldOf a = ob'.heldList :=
  heldOf_of_get (getElem?_setObj_same ob' h)
theorem weaksOf_setObj_same : (s.setObj a ob').weaksOf a = ob'.weakList :=
  weaksOf_of_get (getElem?_setObj_same ob' h)
theorem H_setObj_same (t : Nat) : (s.setObj a ob').H a t = ob'.heldList.count t :=
  H_of_get (getElem?_setObj_same ob' h) t
theorem strongNat_setObj_same : (s.setObj a ob').strongNat a = ob'.strong.toNat :=
  strongNat_of_get (getElem?_setObj_same ob' h)
theorem weakNat_setObj_same : (s.setObj a ob').weakNat a = ob'.weak :=
  weakNat_of_get (getElem?_setObj_same ob' h)
theorem implicitNat_setObj_same : (s.setObj a ob').implicitNat a = if ob'.implicit then 1 else 0 :=
  implicitNat_of_get (getElem?_setObj_same ob' h)
theorem F_setObj_same (b : Nat) :
    (s.setObj a ob').F a b = Table.get (if ob'.freed then [] else ob'.links.getD []) ⟨b, .fwd⟩ := by
  rw [F, tbl_setObj_same ob' h]
theorem B_setObj_same (b : Nat) :
    (s.setObj a ob').B a b = Table.get (if ob'.freed then [] else ob'.links.getD []) ⟨b, .bwd⟩ := by
  rw [B, tbl_setObj_same ob' h]

end same

/-! ### at another index -/

section other
variable (s : State) {a a' : Nat} (ob' : Obj) (h : a' ≠ a)
include h

theorem cell_setObj_other' : (s.setObj a ob').cell a' = s.cell a' :=
  cell_setObj_other s a a' ob' (Ne.symm h)
theorem strongOf_setObj_other : (s.setObj a ob').strongOf a' = s.strongOf a' := by
  simp only [strongOf, getElem?_setObj_other s ob' h]
theorem isLive_setObj_other : (s.setObj a ob').isLive a' = s.isLive a' := by
  simp only [isLive, getElem?_setObj_other s ob' h]
theorem tableOf_setObj_other : (s.setObj a ob').tableOf a' = s.tableOf a' := by
  simp only [tableOf, cell_setObj_other' s ob' h]
theorem tbl_setObj_other : (s.setObj a ob').tbl a' = s.tbl a' := by
  simp only [tbl, tableOf_setObj_other s ob' h]
theorem heldOf_setObj_other : (s.setObj a ob').heldOf a' = s.heldOf a' := by
  simp only [heldOf, getElem?_setObj_other s ob' h]
theorem weaksOf_setObj_other : (s.setObj a ob').weaksOf a' = s.weaksOf a' := by
  simp only [weaksOf, getElem?_setObj_other s ob' h]
theorem H_setObj_other (t : Nat) : (s.setObj a ob').H a' t = s.H a' t := by
  simp only [H, heldOf_setObj_other s ob' h]
theorem F_setObj_other (b : Nat) : (s.setObj a ob').F a' b = s.F a' b := by
  simp only [F, tbl_setObj_other s ob' h]
theorem B_setObj_other (b : Nat) : (s.setObj a ob').B a' b = s.B a' b := by
  simp only [B, tbl_setObj_other s ob' h]
theorem strongNat_setObj_other : (s.setObj a ob').strongNat a' = s.strongNat a' := by
  simp only [strongNat, getElem?_setObj_other s ob' h]
theorem weakNat_setObj_other : (s.setObj a ob').weakNat a' = s.weakNat a' := by
  simp only [weakNat, getElem?_setObj_other s ob' h]
theorem implicitNat_setObj_other : (s.setObj a ob').implicitNat a' = s.implicitNat a' := by
  simp only [implicitNat, getElem?_setObj_other s ob' h]

end other

/-! ### the new object keeps a component of the old one: the functions reading only that
component are unchanged *everywhere* -/

section keep
variable {s : State} {a : Nat} {ob ob' : Obj} (h : s.heap[a]? = some ob)
include h

theorem heldOf_setObj_of_value_eq (hv : ob'.value = ob.value) (x : Nat) :
    (s.setObj a ob').heldOf x = s.heldOf x := by
  by_cases hx : x = a
  · subst hx; rw [heldOf_setObj_same ob' (get_lt h), heldOf_of_get h, Obj.heldList_congr hv]
  · exact heldOf_setObj_other s ob' hx
theorem weaksOf_setObj_of_value_eq (hv : ob'.value = ob.value) (x : Nat) :
    (s.setObj a ob').weaksOf x = s.weaksOf x := by
  by_cases hx : x = a
  · subst hx; rw [weaksOf_setObj_same ob' (get_lt h), weaksOf_of_get h, Obj.weakList_congr hv]
  · exact weaksOf_setObj_other s ob' hx
theorem H_setObj_of_value_eq (hv : ob'.value = ob.value) (x t : Nat) :
    (s.setObj a ob').H x t = s.H x t := by
  simp only [H, heldOf_setObj_of_value_eq h hv]
theorem strongNat_setObj_of_strong_eq (hs : ob'.strong = ob.strong) (x : Nat) :
    (s.setObj a ob').strongNat x = s.strongNat x := by
  by_cases hx : x = a
  · subst hx; rw [strongNat_setObj_same ob' (get_lt h), strongNat_of_get h, hs]
  · exact strongNat_setObj_other s ob' hx
theorem strongOf_setObj_of_strong_eq (hs : ob'.strong = ob.strong) (x : Nat) :
    (s.setObj a ob').strongOf x = s.strongOf x := by
  by_cases hx : x = a
  · subst hx; rw [strongOf_setObj_same ob' (get_lt h), strongOf_of_get h, hs]
  · exact strongOf_setObj_other s ob' hx
theorem weakNat_setObj_of_weak_eq (hw : ob'.weak = ob.weak) (x : Nat) :
    (s.setObj a ob').weakNat x = s.weakNat x := by
  by_cases hx : x = a
  · subst hx; rw [weakNat_setObj_same ob' (get_lt h), weakNat_of_get h, hw]
  · exact weakNat_setObj_other s ob' hx
theorem implicitNat_setObj_of_implicit_eq (hi : ob'.implicit = ob.implicit) (x : Nat) :
    (s.setObj a ob').implicitNat x = s.implicitNat x := by
  by_cases hx : x = a
  · subst hx; rw [implicitNat_setObj_same ob' (get_lt h), implicitNat_of_get h, hi]
  · exact implicitNat_setObj_other s ob' hx
theorem isLive_setObj_of_eq (hf : ob'.freed = ob.freed) (hs : ob'.strong.isDead = ob.strong.isDead) (x : Nat) :
    (s.setObj a ob').isLive x = s.isLive x := by
  by_cases hx : x = a
  · subst hx; rw [isLive_setObj_same ob' (get_lt h), isLive_of_get h, hf, hs]
  · exact isLive_setObj_other s ob' hx
theorem tableOf_setObj_of_links_eq (hl : ob'.links = ob.links) (hf : ob'.freed = ob.freed) (x : Nat) :
    (s.setObj a ob').tableOf x = s.tableOf x := by
  by_cases hx : x = a
  · subst hx; rw [tableOf_setObj_same ob' (get_lt h), tableOf_of_get h, hl, hf]
  · exact tableOf_setObj_other s ob' hx
theorem tbl_setObj_of_links_eq (hl : ob'.links = ob.links) (hf : ob'.freed = ob.freed) (x : Nat) :
    (s.setObj a ob').tbl x = s.tbl x := by
  simp only [tbl, tableOf_setObj_of_links_eq h hl hf]
theorem F_setObj_of_links_eq (hl : ob'.links = ob.links) (hf : ob'.freed = ob.freed) (x y : Nat) :
    (s.setObj a ob').F x y = s.F x y := by
  simp only [F, tbl_setObj_of_links_eq h hl hf]
theorem B_setObj_of_links_eq (hl : ob'.links = ob.links) (hf : ob'.freed = ob.freed) (x y : Nat) :
    (s.setObj a ob').B x y = s.B x y := by
  simp only [B, tbl_setObj_of_links_eq h hl hf]

end keep

/-! ### `inHeap`, `inHeapW` -/

section inheap
variable {s : State} {a : Nat} {ob : Obj} (ob' : Obj) (h : s.heap[a]? = some ob)
include h

/-- general form: the handles of the old value leave, those of the new value arrive -/
theorem inHeap_setObj (t : Nat) :
    (s.setObj a ob').inHeap t + (s.heldOf a).count t = s.inHeap t + ob'.heldList.count t := by
  have hlt := get_lt h
  have := sumList_range_update s.heap.length a (fun i => (s.heldOf i).count t)
    (fun i => ((s.setObj a ob').heldOf i).count t) hlt
    (fun i _ hia => by simp only [heldOf_setObj_other s ob' hia])
  simp only [heldOf_setObj_same ob' hlt] at this
  simpa [inHeap] using this

theorem inHeapW_setObj (t : Nat) :
    (s.setObj a ob').inHeapW t + (s.weaksOf a).count t = s.inHeapW t + ob'.weakList.count t := by
  have hlt := get_lt h
  have := sumList_range_update s.heap.length a (fun i => (s.weaksOf i).count t)
    (fun i => ((s.setObj a ob').weaksOf i).count t) hlt
    (fun i _ hia => by simp only [weaksOf_setObj_other s ob' hia])
  simp only [weaksOf_setObj_same ob' hlt] at this
  simpa [inHeapW] using this

theorem inHeap_setObj' (t : Nat) :
    (s.setObj a ob').inHeap t + ob.heldList.count t = s.inHeap t + ob'.heldList.count t := by
  rw [← heldOf_of_get h]; exact inHeap_setObj ob' h t

theorem inHeapW_setObj' (t : Nat) :
    (s.setObj a ob').inHeapW t + ob.weakList.count t = s.inHeapW t + ob'.weakList.count t := by
  rw [← weaksOf_of_get h]; exact inHeapW_setObj ob' h t

theorem inHeap_setObj_of_value_eq (hv : ob'.value = ob.value) (t : Nat) :
    (s.setObj a ob').inHeap t = s.inHeap t := by
  have := inHeap_setObj' ob' h t; rw [Obj.heldList_congr hv] at this; omega

theorem inHeapW_setObj_of_value_eq (hv : ob'.value = ob.value) (t : Nat) :
    (s.setObj a ob').inHeapW t = s.inHeapW t := by
  have := inHeapW_setObj' ob' h t; rw [Obj.weakList_congr hv] at this; omega

/-- the value is moved out -/
theorem inHeap_setObj_move_out {v : Val} (hv : ob.value = some v) (hv' : ob'.value = none) (t : Nat) :
    (s.setObj a ob').inHeap t + v.held.count t = s.inHeap t := by
  have := inHeap_setObj' ob' h t
  rw [Obj.heldList_of_some hv, Obj.heldList_of_none hv'] at this; simpa using this

theorem inHeapW_setObj_move_out {v : Val} (hv : ob.value = some v) (hv' : ob'.value = none) (t : Nat) :
    (s.setObj a ob').inHeapW t + v.weaks.count t = s.inHeapW t := by
  have := inHeapW_setObj' ob' h t
  rw [Obj.weakList_of_some hv, Obj.weakList_of_none hv'] at this; simpa using this

/-- the value is replaced -/
theorem inHeap_setObj_replace {v v' : Val} (hv : ob.value = some v) (hv' : ob'.value = some v') (t : Nat) :
    (s.setObj a ob').inHeap t + v.held.count t = s.inHeap t + v'.held.count t := by
  have := inHeap_setObj' ob' h t
  rwa [Obj.heldList_of_some hv, Obj.heldList_of_some hv'] at this

theorem inHeapW_setObj_replace {v v' : Val} (hv : ob.value = some v) (hv' : ob'.value = some v') (t : Nat) :
    (s.setObj a ob').inHeapW t + v.weaks.count t = s.inHeapW t + v'.weaks.count t := by
  have := inHeapW_setObj' ob' h t
  rwa [Obj.weakList_of_some hv, Obj.weakList_of_some hv'] at this

/-- the old value was already moved out -/
theorem inHeap_setObj_of_none (hv : ob.value = none) (hv' : ob'.value = none) (t : Nat) :
    (s.setObj a ob').inHeap t = s.inHeap t :=
  inHeap_setObj_of_value_eq ob' h (hv'.trans hv.symm) t

theorem inHeapW_setObj_of_none (hv : ob.value = none) (hv' : ob'.value = none) (t : Nat) :
    (s.setObj a ob').inHeapW t = s.inHeapW t :=
  inHeapW_setObj_of_value_eq ob' h (hv'.trans hv.symm) t

end inheap

end State
end Cactus

namespace Cactus

/-- the object created by `Rc::new` -/
def Obj.fresh (v : Val) : Obj :=
  { strong := .cnt 1, weak := 1, links := some [], value := some v, freed := false }

@[simp] theorem Obj.fresh_strong (v : Val) : (Obj.fresh v).strong = .cnt 1 := rfl
@[simp] theorem Obj.fresh_weak (v : Val) : (Obj.fresh v).weak = 1 := rfl
@[simp] theorem Obj.fresh_links (v : Val) : (Obj.fresh v).links = some [] := rfl
@[simp] theorem Obj.fresh_value (v : Val) : (Obj.fresh v).value = some v := rfl
@[simp] theorem Obj.fresh_freed (v : Val) : (Obj.fresh v).freed = false := rfl
@[simp] theorem Obj.fresh_implicit (v : Val) : (Obj.fresh v).implicit = true := rfl
@[simp] theorem Obj.fresh_heldList (v : Val) : (Obj.fresh v).heldList = v.held := rfl
@[simp] theorem Obj.fresh_weakList (v : Val) : (Obj.fresh v).weakList = v.weaks := rfl

namespace State

/-! ## F. `alloc`

`ext`, `extW`, `pend`, `pendW`, `owed` and all non-heap fields are untouched (section B). -/

theorem alloc_heap (s : State) (v : Val) : (s.alloc v).heap = s.heap ++ [Obj.fresh v] := rfl

@[simp] theorem alloc_heap_length (s : State) (v : Val) : (s.alloc v).heap.length = s.heap.length + 1 := by
  simp [alloc_heap]

theorem getElem?_alloc (s : State) (v : Val) (i : Nat) :
    (s.alloc v).heap[i]? = if i = s.heap.length then some (Obj.fresh v) else s.heap[i]? := by
  rw [alloc_heap, List.getElem?_append]
  by_cases h1 : i < s.heap.length
  · simp [h1, Nat.ne_of_lt h1]
  · by_cases h2 : i = s.heap.length
    · simp [h2]
    · have : s.heap[i]? = none := get_none_iff.mpr (by omega)
      simp [h1, h2]
      omega

@[simp] theorem getElem?_alloc_new (s : State) (v : Val) : (s.alloc v).heap[s.heap.length]? = some (Obj.fresh v) := by
  rw [getElem?_alloc, if_pos rfl]

theorem getElem?_alloc_old (s : State) (v : Val) {i : Nat} (h : i ≠ s.heap.length) :
    (s.alloc v).heap[i]? = s.heap[i]? := by
  rw [getElem?_alloc, if_neg h]

theorem getElem?_alloc_of_lt (s : State) (v : Val) {i : Nat} (h : i < s.heap.length) :
    (s.alloc v).heap[i]? = s.heap[i]? := getElem?_alloc_old s v (Nat.ne_of_lt h)

theorem get_alloc_of_get {s : State} {i : Nat} {ob : Obj} (v : Val) (h : s.heap[i]? = some ob) :
    (s.alloc v).heap[i]? = some ob := by
  rw [getElem?_alloc_of_lt s v (get_lt h), h]

/-! ### at the new index -/

section new
variable (s : State) (v : Val)

@[simp] theorem cell_alloc_new : (s.alloc v).cell s.heap.length = some (Obj.fresh v) := by
  rw [cell_of_get (getElem?_alloc_new s v)]; rfl
@[simp] theorem strongOf_alloc_new : (s.alloc v).strongOf s.heap.length = .cnt 1 :=
  strongOf_of_get (getElem?_alloc_new s v)
@[simp] theorem isLive_alloc_new : (s.alloc v).isLive s.heap.length = true := by
  rw [isLive_of_get (getElem?_alloc_new s v)]; rfl
@[simp] theorem tableOf_alloc_new : (s.alloc v).tableOf s.heap.length = some [] := by
  rw [tableOf_of_get (getElem?_alloc_new s v)]; rfl
@[simp] theorem tbl_alloc_new : (s.alloc v).tbl s.heap.length = [] := by
  rw [tbl_of_get (getElem?_alloc_new s v)]; rfl
@[simp] theorem heldOf_alloc_new : (s.alloc v).heldOf s.heap.length = v.held :=
  heldOf_of_get (getElem?_alloc_new s v)
@[simp] theorem weaksOf_alloc_new : (s.alloc v).weaksOf s.heap.length = v.weaks :=
  weaksOf_of_get (getElem?_alloc_new s v)
@[simp] theorem H_alloc_new (t : Nat) : (s.alloc v).H s.heap.length t = v.held.count t :=
  H_of_get (getElem?_alloc_new s v) t
@[simp] theorem F_alloc_new (b : Nat) : (s.alloc v).F s.heap.length b = 0 := by simp [F]
@[simp] theorem B_alloc_new (b : Nat) : (s.alloc v).B s.heap.length b = 0 := by simp [B]
@[simp] theorem strongNat_alloc_new : (s.alloc v).strongNat s.heap.length = 1 :=
  strongNat_of_get (getElem?_alloc_new s v)
@[simp] theorem weakNat_alloc_new : (s.alloc v).weakNat s.heap.length = 1 :=
  weakNat_of_get (getElem?_alloc_new s v)
@[simp] theorem implicitNat_alloc_new : (s.alloc v).implicitNat s.heap.length = 1 := by
  rw [implicitNat_of_get (getElem?_alloc_new s v)]; rfl

end new

/-! ### at an old index (any index other than the new one) -/

section old
variable (s : State) (v : Val) {i : Nat} (h : i ≠ s.heap.length)
include h

theorem cell_alloc_old : (s.alloc v).cell i = s.cell i := by
  simp only [cell, getElem?_alloc_old s v h]
theorem strongOf_alloc_old : (s.alloc v).strongOf i = s.strongOf i := by
  simp only [strongOf, getElem?_alloc_old s v h]
theorem isLive_alloc_old : (s.alloc v).isLive i = s.isLive i := by
  simp only [isLive, getElem?_alloc_old s v h]
theorem tableOf_alloc_old : (s.alloc v).tableOf i = s.tableOf i := by
  simp only [tableOf, cell_alloc_old s v h]
theorem tbl_alloc_old : (s.alloc v).tbl i = s.tbl i := by
  simp only [tbl, tableOf_alloc_old s v h]
theorem heldOf_alloc_old : (s.alloc v).heldOf i = s.heldOf i := by
  simp only [heldOf, getElem?_alloc_old s v h]
theorem weaksOf_alloc_old : (s.alloc v).weaksOf i = s.weaksOf i := by
  simp only [weaksOf, getElem?_alloc_old s v h]
theorem H_alloc_old (t : Nat) : (s.alloc v).H i t = s.H i t := by
  simp only [H, heldOf_alloc_old s v h]
theorem F_alloc_old (b : Nat) : (s.alloc v).F i b = s.F i b := by
  simp only [F, tbl_alloc_old s v h]
theorem B_alloc_old (b : Nat) : (s.alloc v).B i b = s.B i b := by
  simp only [B, tbl_alloc_old s v h]
theorem strongNat_alloc_old : (s.alloc v).strongNat i = s.strongNat i := by
  simp only [strongNat, getElem?_alloc_old s v h]
theorem weakNat_alloc_old : (s.alloc v).weakNat i = s.weakNat i := by
  simp only [weakNat, getElem?_alloc_old s v h]
theorem implicitNat_alloc_old : (s.alloc v).implicitNat i = s.implicitNat i := by
  simp only [implicitNat, getElem?_alloc_old s v h]

end old

/-! ### unconditional forms -/

theorem isLive_alloc_iff (s : State) (v : Val) (i : Nat) :
    (s.alloc v).isLive i = true ↔ s.isLive i = true ∨ i = s.heap.length := by
  by_cases h : i = s.heap.length
  · subst h; simp
  · simp [isLive_alloc_old s v h, h]

theorem isLive_alloc_of_isLive {s : State} {i : Nat} (v : Val) (h : s.isLive i = true) :
    (s.alloc v).isLive i = true := (isLive_alloc_iff s v i).mpr (Or.inl h)

theorem strongNat_alloc (s : State) (v : Val) (i : Nat) :
    (s.alloc v).strongNat i = s.strongNat i + (if s.heap.length = i then 1 else 0) := by
  by_cases h : i = s.heap.length
  · subst h; simp [strongNat_of_get_none (get_none_iff.mpr (Nat.le_refl _))]
  · simp [strongNat_alloc_old s v h, Ne.symm h]

theorem weakNat_alloc (s : State) (v : Val) (i : Nat) :
    (s.alloc v).weakNat i = s.weakNat i + (if s.heap.length = i then 1 else 0) := by
  by_cases h : i = s.heap.length
  · subst h; simp [weakNat_of_get_none (get_none_iff.mpr (Nat.le_refl _))]
  · simp [weakNat_alloc_old s v h, Ne.symm h]

theorem implicitNat_alloc (s : State) (v : Val) (i : Nat) :
    (s.alloc v).implicitNat i = s.implicitNat i + (if s.heap.length = i then 1 else 0) := by
  by_cases h : i = s.heap.length
  · subst h; simp [implicitNat_of_get_none (get_none_iff.mpr (Nat.le_refl _))]
  · simp [implicitNat_alloc_old s v h, Ne.symm h]

theorem H_alloc (s : State) (v : Val) (i t : Nat) :
    (s.alloc v).H i t = s.H i t + (if s.heap.length = i then v.held.count t else 0) := by
  by_cases h : i = s.heap.length
  · subst h; simp [H_of_get_none (get_none_iff.mpr (Nat.le_refl _))]
  · simp [H_alloc_old s v h, Ne.symm h]

/-- the table of the new object is empty and the old tables are unchanged; the new index had no
readable table before -/
theorem tbl_alloc (s : State) (v : Val) (i : Nat) : (s.alloc v).tbl i = s.tbl i := by
  by_cases h : i = s.heap.length
  · subst h; simp [tbl_of_get_none (get_none_iff.mpr (Nat.le_refl _))]
  · exact tbl_alloc_old s v h

@[simp] theorem F_alloc (s : State) (v : Val) (a b : Nat) : (s.alloc v).F a b = s.F a b := by
  simp only [F, tbl_alloc]

@[simp] theorem B_alloc (s : State) (v : Val) (a b : Nat) : (s.alloc v).B a b = s.B a b := by
  simp only [B, tbl_alloc]

/-! ### `inHeap`, `inHeapW` -/

@[simp] theorem inHeap_alloc (s : State) (v : Val) (t : Nat) :
    (s.alloc v).inHeap t = s.inHeap t + v.held.count t := by
  unfold inHeap
  rw [alloc_heap_length, sumList_range_succ, heldOf_alloc_new]
  congr 1
  exact sumList_range_congr _ _ _ (fun i hi => by rw [heldOf_alloc_old s v (Nat.ne_of_lt hi)])

@[simp] theorem inHeapW_alloc (s : State) (v : Val) (t : Nat) :
    (s.alloc v).inHeapW t = s.inHeapW t + v.weaks.count t := by
  unfold inHeapW
  rw [alloc_heap_length, sumList_range_succ, weaksOf_alloc_new]
  congr 1
  exact sumList_range_congr _ _ _ (fun i hi => by rw [weaksOf_alloc_old s v (Nat.ne_of_lt hi)])

end State
end Cactus

namespace Cactus
namespace State

/-! ## G. `setLinks`, `adopt`, `unadopt` -/

/-! ### `setLinks`: explicit descriptions -/

theorem setLinks_eq {s : State} {o : Nat} {ob : Obj} {t : Table} (f : Table → Table)
    (hc : s.cell o = some ob) (hl : ob.links = some t) :
    s.setLinks o f = s.setObj o { ob with links := some (f t) } := by
  simp [setLinks, hc, hl]

theorem setLinks_of_tableOf {s : State} {o : Nat} {t : Table} (f : Table → Table) (h : s.tableOf o = some t) :
    ∃ ob, s.cell o = some ob ∧ ob.links = some t ∧ s.setLinks o f = s.setObj o { ob with links := some (f t) } := by
  obtain ⟨ob, hc, hl⟩ := tableOf_eq_some s o t h
  exact ⟨ob, hc, hl, setLinks_eq f hc hl⟩

theorem setLinks_of_cell_none {s : State} {o : Nat} (f : Table → Table) (hc : s.cell o = none) :
    s.setLinks o f = s.fail (.uaf o) := by
  simp [setLinks, hc]

theorem setLinks_of_links_none {s : State} {o : Nat} {ob : Obj} (f : Table → Table)
    (hc : s.cell o = some ob) (hl : ob.links = none) : s.setLinks o f = s.fail (.movedLinks o) := by
  simp [setLinks, hc, hl]

theorem setLinks_of_tableOf_none {s : State} {o : Nat} (f : Table → Table) (h : s.tableOf o = none) :
    s.setLinks o f = s.fail (s.linksErr o) := by
  unfold tableOf at h
  cases hc : s.cell o with
  | none => simp [setLinks, linksErr, hc]
  | some ob => rw [hc] at h; simp [setLinks, linksErr, hc, show ob.links = none from h]

/-- either `setLinks` fails or it rewrites the table of one readable object -/
theorem setLinks_cases (s : State) (o : Nat) (f : Table → Table) :
    (∃ e, s.setLinks o f = s.fail e) ∨
    (∃ ob t, s.cell o = some ob ∧ ob.links = some t ∧ s.setLinks o f = s.setObj o { ob with links := some (f t) }) := by
  cases h : s.tableOf o with
  | none => exact Or.inl ⟨_, setLinks_of_tableOf_none f h⟩
  | some t =>
    obtain ⟨ob, hc, hl, he⟩ := setLinks_of_tableOf f h
    exact Or.inr ⟨ob, t, hc, hl, he⟩

/-! #### `setLinks`: untouched, unconditionally -/

@[simp] theorem setLinks_heap_length (s : State) (o : Nat) (f : Table → Table) : (s.setLinks o f).heap.length = s.heap.length := by
  rcases setLinks_cases s o f with ⟨e, h⟩ | ⟨ob, t, hc, hl, h⟩ <;> rw [h] <;> simp
@[simp] theorem setLinks_roots (s : State) (o : Nat) (f : Table → Table) : (s.setLinks o f).roots = s.roots := by
  rcases setLinks_cases s o f with ⟨e, h⟩ | ⟨ob, t, hc, hl, h⟩ <;> rw [h] <;> simp
@[simp] theorem setLinks_wroots (s : State) (o : Nat) (f : Table → Table) : (s.setLinks o f).wroots = s.wroots := by
  rcases setLinks_cases s o f with ⟨e, h⟩ | ⟨ob, t, hc, hl, h⟩ <;> rw [h] <;> simp
@[simp] theorem setLinks_vals (s : State) (o : Nat) (f : Table → Table) : (s.setLinks o f).vals = s.vals := by
  rcases setLinks_cases s o f with ⟨e, h⟩ | ⟨ob, t, hc, hl, h⟩ <;> rw [h] <;> simp
@[simp] theorem setLinks_raws (s : State) (o : Nat) (f : Table → Table) : (s.setLinks o f).raws = s.raws := by
  rcases setLinks_cases s o f with ⟨e, h⟩ | ⟨ob, t, hc, hl, h⟩ <;> rw [h] <;> simp
@[simp] theorem setLinks_stack (s : State) (o : Nat) (f : Table → Table) : (s.setLinks o f).stack = s.stack := by
  rcases setLinks_cases s o f with ⟨e, h⟩ | ⟨ob, t, hc, hl, h⟩ <;> rw [h] <;> simp
@[simp] theorem setLinks_unwinding (s : State) (o : Nat) (f : Table → Table) : (s.setLinks o f).unwinding = s.unwinding := by
  rcases setLinks_cases s o f with ⟨e, h⟩ | ⟨ob, t, hc, hl, h⟩ <;> rw [h] <;> simp
@[simp] theorem setLinks_hint (s : State) (o : Nat) (f : Table → Table) : (s.setLinks o f).hint = s.hint := by
  rcases setLinks_cases s o f with ⟨e, h⟩ | ⟨ob, t, hc, hl, h⟩ <;> rw [h] <;> simp
@[simp] theorem setLinks_nextVid (s : State) (o : Nat) (f : Table → Table) : (s.setLinks o f).nextVid = s.nextVid := by
  rcases setLinks_cases s o f with ⟨e, h⟩ | ⟨ob, t, hc, hl, h⟩ <;> rw [h] <;> simp
@[simp] theorem ext_setLinks (s : State) (o : Nat) (f : Table → Table) (x : Nat) : (s.setLinks o f).ext x = s.ext x := by
  rcases setLinks_cases s o f with ⟨e, h⟩ | ⟨ob, t, hc, hl, h⟩ <;> rw [h] <;> simp
@[simp] theorem extW_setLinks (s : State) (o : Nat) (f : Table → Table) (x : Nat) : (s.setLinks o f).extW x = s.extW x := by
  rcases setLinks_cases s o f with ⟨e, h⟩ | ⟨ob, t, hc, hl, h⟩ <;> rw [h] <;> simp
@[simp] theorem pend_setLinks (s : State) (o : Nat) (f : Table → Table) (x : Nat) : (s.setLinks o f).pend x = s.pend x := by
  rcases setLinks_cases s o f with ⟨e, h⟩ | ⟨ob, t, hc, hl, h⟩ <;> rw [h] <;> simp
@[simp] theorem pendW_setLinks (s : State) (o : Nat) (f : Table → Table) (x : Nat) : (s.setLinks o f).pendW x = s.pendW x := by
  rcases setLinks_cases s o f with ⟨e, h⟩ | ⟨ob, t, hc, hl, h⟩ <;> rw [h] <;> simp
@[simp] theorem owed_setLinks (s : State) (o : Nat) (f : Table → Table) (x : Nat) : (s.setLinks o f).owed x = s.owed x := by
  rcases setLinks_cases s o f with ⟨e, h⟩ | ⟨ob, t, hc, hl, h⟩ <;> rw [h] <;> simp
@[simp] theorem heldOf_setLinks (s : State) (o : Nat) (f : Table → Table) (x : Nat) : (s.setLinks o f).heldOf x = s.heldOf x := by
  rcases setLinks_cases s o f with ⟨e, h⟩ | ⟨ob, t, hc, hl, h⟩ <;> rw [h]
  · simp
  · exact heldOf_setObj_of_value_eq (get_of_cell hc) (by rfl) x
@[simp] theorem weaksOf_setLinks (s : State) (o : Nat) (f : Table → Table) (x : Nat) : (s.setLinks o f).weaksOf x = s.weaksOf x := by
  rcases setLinks_cases s o f with ⟨e, h⟩ | ⟨ob, t, hc, hl, h⟩ <;> rw [h]
  · simp
  · exact weaksOf_setObj_of_value_eq (get_of_cell hc) (by rfl) x
@[simp] theorem H_setLinks (s : State) (o : Nat) (f : Table → Table) (x y : Nat) : (s.setLinks o f).H x y = s.H x y := by
  rcases setLinks_cases s o f with ⟨e, h⟩ | ⟨ob, t, hc, hl, h⟩ <;> rw [h]
  · simp
  · exact H_setObj_of_value_eq (get_of_cell hc) (by rfl) x y
@[simp] theorem inHeap_setLinks (s : State) (o : Nat) (f : Table → Table) (x : Nat) : (s.setLinks o f).inHeap x = s.inHeap x := by
  rcases setLinks_cases s o f with ⟨e, h⟩ | ⟨ob, t, hc, hl, h⟩ <;> rw [h]
  · simp
  · exact inHeap_setObj_of_value_eq _ (get_of_cell hc) (by rfl) x
@[simp] theorem inHeapW_setLinks (s : State) (o : Nat) (f : Table → Table) (x : Nat) : (s.setLinks o f).inHeapW x = s.inHeapW x := by
  rcases setLinks_cases s o f with ⟨e, h⟩ | ⟨ob, t, hc, hl, h⟩ <;> rw [h]
  · simp
  · exact inHeapW_setObj_of_value_eq _ (get_of_cell hc) (by rfl) x
@[simp] theorem strongNat_setLinks (s : State) (o : Nat) (f : Table → Table) (x : Nat) : (s.setLinks o f).strongNat x = s.strongNat x := by
  rcases setLinks_cases s o f with ⟨e, h⟩ | ⟨ob, t, hc, hl, h⟩ <;> rw [h]
  · simp
  · exact strongNat_setObj_of_strong_eq (get_of_cell hc) (by rfl) x
@[simp] theorem strongOf_setLinks (s : State) (o : Nat) (f : Table → Table) (x : Nat) : (s.setLinks o f).strongOf x = s.strongOf x := by
  rcases setLinks_cases s o f with ⟨e, h⟩ | ⟨ob, t, hc, hl, h⟩ <;> rw [h]
  · simp
  · exact strongOf_setObj_of_strong_eq (get_of_cell hc) (by rfl) x
@[simp] theorem weakNat_setLinks (s : State) (o : Nat) (f : Table → Table) (x : Nat) : (s.setLinks o f).weakNat x = s.weakNat x := by
  rcases setLinks_cases s o f with ⟨e, h⟩ | ⟨ob, t, hc, hl, h⟩ <;> rw [h]
  · simp
  · exact weakNat_setObj_of_weak_eq (get_of_cell hc) (by rfl) x
@[simp] theorem implicitNat_setLinks (s : State) (o : Nat) (f : Table → Table) (x : Nat) : (s.setLinks o f).implicitNat x = s.implicitNat x := by
  rcases setLinks_cases s o f with ⟨e, h⟩ | ⟨ob, t, hc, hl, h⟩ <;> rw [h]
  · simp
  · exact implicitNat_setObj_of_implicit_eq (get_of_cell hc) (by rfl) x
@[simp] theorem isLive_setLinks (s : State) (o : Nat) (f : Table → Table) (x : Nat) : (s.setLinks o f).isLive x = s.isLive x := by
  rcases setLinks_cases s o f with ⟨e, h⟩ | ⟨ob, t, hc, hl, h⟩ <;> rw [h]
  · simp
  · exact isLive_setObj_of_eq (get_of_cell hc) (by rfl) (by rfl) x

/-! ### `setLinks`: what changes -/

@[simp] theorem setLinks_log (s : State) (o : Nat) (f : Table → Table) : (s.setLinks o f).log = s.log := by
  rcases setLinks_cases s o f with ⟨e, h⟩ | ⟨ob, t, hc, hl, h⟩ <;> rw [h] <;> simp

/-- complete description of the readable tables after `setLinks` -/
theorem tableOf_setLinks (s : State) (o : Nat) (f : Table → Table) (x : Nat) :
    (s.setLinks o f).tableOf x = if x = o then (s.tableOf o).map f else s.tableOf x := by
  by_cases hx : x = o
  · subst hx
    cases h : s.tableOf x with
    | none => rw [setLinks_of_tableOf_none f h]; simp [h]
    | some t => simp [tableOf_setLinks_same s x f t h]
  · simp [hx, tableOf_setLinks_other s o x f (Ne.symm hx)]

theorem tbl_setLinks_same {s : State} {o : Nat} {t : Table} (f : Table → Table) (h : s.tableOf o = some t) :
    (s.setLinks o f).tbl o = f t := by
  simp [tbl, tableOf_setLinks, h]

theorem tbl_setLinks_other (s : State) {o x : Nat} (f : Table → Table) (h : x ≠ o) :
    (s.setLinks o f).tbl x = s.tbl x := by
  simp [tbl, tableOf_setLinks, h]

theorem tbl_setLinks_of_none {s : State} {o : Nat} (f : Table → Table) (h : s.tableOf o = none) (x : Nat) :
    (s.setLinks o f).tbl x = s.tbl x := by
  rw [setLinks_of_tableOf_none f h]; simp

theorem F_setLinks_same {s : State} {o : Nat} {t : Table} (f : Table → Table) (h : s.tableOf o = some t) (b : Nat) :
    (s.setLinks o f).F o b = (f t).get ⟨b, .fwd⟩ := by
  rw [F, tbl_setLinks_same f h]

theorem B_setLinks_same {s : State} {o : Nat} {t : Table} (f : Table → Table) (h : s.tableOf o = some t) (b : Nat) :
    (s.setLinks o f).B o b = (f t).get ⟨b, .bwd⟩ := by
  rw [B, tbl_setLinks_same f h]

theorem F_setLinks_other (s : State) {o x : Nat} (f : Table → Table) (h : x ≠ o) (b : Nat) :
    (s.setLinks o f).F x b = s.F x b := by
  rw [F, tbl_setLinks_other s f h]; rfl

theorem B_setLinks_other (s : State) {o x : Nat} (f : Table → Table) (h : x ≠ o) (b : Nat) :
    (s.setLinks o f).B x b = s.B x b := by
  rw [B, tbl_setLinks_other s f h]; rfl

theorem cell_setLinks_other (s : State) {o x : Nat} (f : Table → Table) (h : x ≠ o) :
    (s.setLinks o f).cell x = s.cell x := by
  rcases setLinks_cases s o f with ⟨e, he⟩ | ⟨ob, t, hc, hl, he⟩ <;> rw [he]
  · simp
  · exact cell_setObj_other' s _ h

theorem cell_setLinks_same {s : State} {o : Nat} {ob : Obj} {t : Table} (f : Table → Table)
    (hc : s.cell o = some ob) (hl : ob.links = some t) :
    (s.setLinks o f).cell o = some { ob with links := some (f t) } := by
  rw [setLinks_eq f hc hl, cell_setObj_same' _ (cell_some_lt s o ob hc)]
  simp [freed_of_cell hc]

/-- readability of tables is not affected -/
@[simp] theorem tableOf_setLinks_isSome (s : State) (o : Nat) (f : Table → Table) (x : Nat) :
    ((s.setLinks o f).tableOf x).isSome = (s.tableOf x).isSome := by
  rw [tableOf_setLinks]; split
  · subst_vars; simp
  · rfl

@[simp] theorem cell_setLinks_isSome (s : State) (o : Nat) (f : Table → Table) (x : Nat) :
    ((s.setLinks o f).cell x).isSome = (s.cell x).isSome := by
  rcases setLinks_cases s o f with ⟨e, he⟩ | ⟨ob, t, hc, hl, he⟩ <;> rw [he]
  · simp
  · by_cases hx : x = o
    · subst hx
      rw [cell_setObj_same' _ (cell_some_lt s x ob hc), hc]
      simp [freed_of_cell hc]
    · rw [cell_setObj_other' s _ hx]

/-! ### `setLinks`: the error field -/

theorem setLinks_err_of_tableOf {s : State} {o : Nat} {t : Table} (f : Table → Table) (h : s.tableOf o = some t) :
    (s.setLinks o f).err = s.err := setLinks_err_of_some s o f t h

theorem setLinks_err_of_tableOf_none {s : State} {o : Nat} (f : Table → Table) (h : s.tableOf o = none)
    (he : s.err = none) : (s.setLinks o f).err = some (s.linksErr o) := by
  rw [setLinks_of_tableOf_none f h, fail_err_of_none s _ he]

theorem setLinks_err_eq_none_iff (s : State) (o : Nat) (f : Table → Table) :
    (s.setLinks o f).err = none ↔ s.err = none ∧ (s.tableOf o).isSome = true := by
  cases h : s.tableOf o with
  | some t => simp [setLinks_err_of_tableOf f h]
  | none =>
    rw [setLinks_of_tableOf_none f h]
    have := fail_err_isSome s (s.linksErr o)
    constructor
    · intro h'; simp [h'] at this
    · simp

/-- errors are sticky -/
theorem setLinks_err_of_some' {s : State} {e : Err} (o : Nat) (f : Table → Table) (h : s.err = some e) :
    (s.setLinks o f).err = some e := by
  rcases setLinks_cases s o f with ⟨e', he⟩ | ⟨ob, t, hc, hl, he⟩ <;> rw [he]
  · exact fail_err_of_some s e' e h
  · simpa using h

/-! ### `adopt`, `unadopt`: all counting functions are untouched -/

@[simp] theorem adopt_heap_length (s : State) (a b : Nat) (same : Bool) : (s.adopt a b same).heap.length = s.heap.length := by
  unfold adopt; split <;> simp
@[simp] theorem adopt_roots (s : State) (a b : Nat) (same : Bool) : (s.adopt a b same).roots = s.roots := by
  unfold adopt; split <;> simp
@[simp] theorem adopt_wroots (s : State) (a b : Nat) (same : Bool) : (s.adopt a b same).wroots = s.wroots := by
  unfold adopt; split <;> simp
@[simp] theorem adopt_vals (s : State) (a b : Nat) (same : Bool) : (s.adopt a b same).vals = s.vals := by
  unfold adopt; split <;> simp
@[simp] theorem adopt_raws (s : State) (a b : Nat) (same : Bool) : (s.adopt a b same).raws = s.raws := by
  unfold adopt; split <;> simp
@[simp] theorem adopt_stack (s : State) (a b : Nat) (same : Bool) : (s.adopt a b same).stack = s.stack := by
  unfold adopt; split <;> simp
@[simp] theorem adopt_unwinding (s : State) (a b : Nat) (same : Bool) : (s.adopt a b same).unwinding = s.unwinding := by
  unfold adopt; split <;> simp
@[simp] theorem adopt_hint (s : State) (a b : Nat) (same : Bool) : (s.adopt a b same).hint = s.hint := by
  unfold adopt; split <;> simp
@[simp] theorem adopt_nextVid (s : State) (a b : Nat) (same : Bool) : (s.adopt a b same).nextVid = s.nextVid := by
  unfold adopt; split <;> simp
@[simp] theorem adopt_log (s : State) (a b : Nat) (same : Bool) : (s.adopt a b same).log = s.log := by
  unfold adopt; split <;> simp
@[simp] theorem ext_adopt (s : State) (a b : Nat) (same : Bool) (x : Nat) : (s.adopt a b same).ext x = s.ext x := by
  unfold adopt; split <;> simp
@[simp] theorem extW_adopt (s : State) (a b : Nat) (same : Bool) (x : Nat) : (s.adopt a b same).extW x = s.extW x := by
  unfold adopt; split <;> simp
@[simp] theorem pend_adopt (s : State) (a b : Nat) (same : Bool) (x : Nat) : (s.adopt a b same).pend x = s.pend x := by
  unfold adopt; split <;> simp
@[simp] theorem pendW_adopt (s : State) (a b : Nat) (same : Bool) (x : Nat) : (s.adopt a b same).pendW x = s.pendW x := by
  unfold adopt; split <;> simp
@[simp] theorem owed_adopt (s : State) (a b : Nat) (same : Bool) (x : Nat) : (s.adopt a b same).owed x = s.owed x := by
  unfold adopt; split <;> simp
@[simp] theorem inHeap_adopt (s : State) (a b : Nat) (same : Bool) (x : Nat) : (s.adopt a b same).inHeap x = s.inHeap x := by
  unfold adopt; split <;> simp
@[simp] theorem inHeapW_adopt (s : State) (a b : Nat) (same : Bool) (x : Nat) : (s.adopt a b same).inHeapW x = s.inHeapW x := by
  unfold adopt; split <;> simp
@[simp] theorem strongNat_adopt (s : State) (a b : Nat) (same : Bool) (x : Nat) : (s.adopt a b same).strongNat x = s.strongNat x := by
  unfold adopt; split <;> simp
@[simp] theorem strongOf_adopt (s : State) (a b : Nat) (same : Bool) (x : Nat) : (s.adopt a b same).strongOf x = s.strongOf x := by
  unfold adopt; split <;> simp
@[simp] theorem weakNat_adopt (s : State) (a b : Nat) (same : Bool) (x : Nat) : (s.adopt a b same).weakNat x = s.weakNat x := by
  unfold adopt; split <;> simp
@[simp] theorem implicitNat_adopt (s : State) (a b : Nat) (same : Bool) (x : Nat) : (s.adopt a b same).implicitNat x = s.implicitNat x := by
  unfold adopt; split <;> simp
@[simp] theorem isLive_adopt (s : State) (a b : Nat) (same : Bool) (x : Nat) : (s.adopt a b same).isLive x = s.isLive x := by
  unfold adopt; split <;> simp
@[simp] theorem heldOf_adopt (s : State) (a b : Nat) (same : Bool) (x : Nat) : (s.adopt a b same).heldOf x = s.heldOf x := by
  unfold adopt; split <;> simp
@[simp] theorem weaksOf_adopt (s : State) (a b : Nat) (same : Bool) (x : Nat) : (s.adopt a b same).weaksOf x = s.weaksOf x := by
  unfold adopt; split <;> simp
@[simp] theorem H_adopt (s : State) (a b : Nat) (same : Bool) (x y : Nat) : (s.adopt a b same).H x y = s.H x y := by
  unfold adopt; split <;> simp
@[simp] theorem tableOf_adopt_isSome (s : State) (a b : Nat) (same : Bool) (x : Nat) : ((s.adopt a b same).tableOf x).isSome = (s.tableOf x).isSome := by
  unfold adopt; split <;> simp
@[simp] theorem cell_adopt_isSome (s : State) (a b : Nat) (same : Bool) (x : Nat) : ((s.adopt a b same).cell x).isSome = (s.cell x).isSome := by
  unfold adopt; split <;> simp

@[simp] theorem unadopt_heap_length (s : State) (a b : Nat) (same : Bool) : (s.unadopt a b same).heap.length = s.heap.length := by
  unfold unadopt; split <;> simp
@[simp] theorem unadopt_roots (s : State) (a b : Nat) (same : Bool) : (s.unadopt a b same).roots = s.roots := by
  unfold unadopt; split <;> simp
@[simp] theorem unadopt_wroots (s : State) (a b : Nat) (same : Bool) : (s.unadopt a b same).wroots = s.wroots := by
  unfold unadopt; split <;> simp
@[simp] theorem unadopt_vals (s : State) (a b : Nat) (same : Bool) : (s.unadopt a b same).vals = s.vals := by
  unfold unadopt; split <;> simp
@[simp] theorem unadopt_raws (s : State) (a b : Nat) (same : Bool) : (s.unadopt a b same).raws = s.raws := by
  unfold unadopt; split <;> simp
@[simp] theorem unadopt_stack (s : State) (a b : Nat) (same : Bool) : (s.unadopt a b same).stack = s.stack := by
  unfold unadopt; split <;> simp
@[simp] theorem unadopt_unwinding (s : State) (a b : Nat) (same : Bool) : (s.unadopt a b same).unwinding = s.unwinding := by
  unfold unadopt; split <;> simp
@[simp] theorem unadopt_hint (s : State) (a b : Nat) (same : Bool) : (s.unadopt a b same).hint = s.hint := by
  unfold unadopt; split <;> simp
@[simp] theorem unadopt_nextVid (s : State) (a b : Nat) (same : Bool) : (s.unadopt a b same).nextVid = s.nextVid := by
  unfold unadopt; split <;> simp
@[simp] theorem unadopt_log (s : State) (a b : Nat) (same : Bool) : (s.unadopt a b same).log = s.log := by
  unfold unadopt; split <;> simp
@[simp] theorem ext_unadopt (s : State) (a b : Nat) (same : Bool) (x : Nat) : (s.unadopt a b same).ext x = s.ext x := by
  unfold unadopt; split <;> simp
@[simp] theorem extW_unadopt (s : State) (a b : Nat) (same : Bool) (x : Nat) : (s.unadopt a b same).extW x = s.extW x := by
  unfold unadopt; split <;> simp
@[simp] theorem pend_unadopt (s : State) (a b : Nat) (same : Bool) (x : Nat) : (s.unadopt a b same).pend x = s.pend x := by
  unfold unadopt; split <;> simp
@[simp] theorem pendW_unadopt (s : State) (a b : Nat) (same : Bool) (x : Nat) : (s.unadopt a b same).pendW x = s.pendW x := by
  unfold unadopt; split <;> simp
@[simp] theorem owed_unadopt (s : State) (a b : Nat) (same : Bool) (x : Nat) : (s.unadopt a b same).owed x = s.owed x := by
  unfold unadopt; split <;> simp
@[simp] theorem inHeap_unadopt (s : State) (a b : Nat) (same : Bool) (x : Nat) : (s.unadopt a b same).inHeap x = s.inHeap x := by
  unfold unadopt; split <;> simp
@[simp] theorem inHeapW_unadopt (s : State) (a b : Nat) (same : Bool) (x : Nat) : (s.unadopt a b same).inHeapW x = s.inHeapW x := by
  unfold unadopt; split <;> simp
@[simp] theorem strongNat_unadopt (s : State) (a b : Nat) (same : Bool) (x : Nat) : (s.unadopt a b same).strongNat x = s.strongNat x := by
  unfold unadopt; split <;> simp
@[simp] theorem strongOf_unadopt (s : State) (a b : Nat) (same : Bool) (x : Nat) : (s.unadopt a b same).strongOf x = s.strongOf x := by
  unfold unadopt; split <;> simp
@[simp] theorem weakNat_unadopt (s : State) (a b : Nat) (same : Bool) (x : Nat) : (s.unadopt a b same).weakNat x = s.weakNat x := by
  unfold unadopt; split <;> simp
@[simp] theorem implicitNat_unadopt (s : State) (a b : Nat) (same : Bool) (x : Nat) : (s.unadopt a b same).implicitNat x = s.implicitNat x := by
  unfold unadopt; split <;> simp
@[simp] theorem isLive_unadopt (s : State) (a b : Nat) (same : Bool) (x : Nat) : (s.unadopt a b same).isLive x = s.isLive x := by
  unfold unadopt; split <;> simp
@[simp] theorem heldOf_unadopt (s : State) (a b : Nat) (same : Bool) (x : Nat) : (s.unadopt a b same).heldOf x = s.heldOf x := by
  unfold unadopt; split <;> simp
@[simp] theorem weaksOf_unadopt (s : State) (a b : Nat) (same : Bool) (x : Nat) : (s.unadopt a b same).weaksOf x = s.weaksOf x := by
  unfold unadopt; split <;> simp
@[simp] theorem H_unadopt (s : State) (a b : Nat) (same : Bool) (x y : Nat) : (s.unadopt a b same).H x y = s.H x y := by
  unfold unadopt; split <;> simp
@[simp] theorem tableOf_unadopt_isSome (s : State) (a b : Nat) (same : Bool) (x : Nat) : ((s.unadopt a b same).tableOf x).isSome = (s.tableOf x).isSome := by
  unfold unadopt; split <;> simp
@[simp] theorem cell_unadopt_isSome (s : State) (a b : Nat) (same : Bool) (x : Nat) : ((s.unadopt a b same).cell x).isSome = (s.cell x).isSome := by
  unfold unadopt; split <;> simp

theorem adopt_same (s : State) (a b : Nat) : s.adopt a b true = s.setLinks a (·.insert ⟨a, .loop⟩) := rfl
theorem adopt_diff (s : State) (a b : Nat) :
    s.adopt a b false = (s.setLinks a (·.insert ⟨b, .fwd⟩)).setLinks b (·.insert ⟨a, .bwd⟩) := rfl
theorem unadopt_same (s : State) (a b : Nat) : s.unadopt a b true = s.setLinks a (·.remove ⟨a, .loop⟩ 1) := rfl
theorem unadopt_diff (s : State) (a b : Nat) :
    s.unadopt a b false = (s.setLinks a (·.remove ⟨b, .fwd⟩ 1)).setLinks b (·.remove ⟨a, .bwd⟩ 1) := rfl

/-- tables of objects other than the two arguments are untouched -/
theorem tableOf_adopt_other (s : State) {a b x : Nat} (same : Bool) (ha : x ≠ a) (hb : x ≠ b) :
    (s.adopt a b same).tableOf x = s.tableOf x := by
  unfold adopt; split <;> simp [tableOf_setLinks, ha, hb]

theorem tableOf_unadopt_other (s : State) {a b x : Nat} (same : Bool) (ha : x ≠ a) (hb : x ≠ b) :
    (s.unadopt a b same).tableOf x = s.tableOf x := by
  unfold unadopt; split <;> simp [tableOf_setLinks, ha, hb]

theorem tbl_adopt_other (s : State) {a b x : Nat} (same : Bool) (ha : x ≠ a) (hb : x ≠ b) :
    (s.adopt a b same).tbl x = s.tbl x := by simp [tbl, tableOf_adopt_other s same ha hb]

theorem tbl_unadopt_other (s : State) {a b x : Nat} (same : Bool) (ha : x ≠ a) (hb : x ≠ b) :
    (s.unadopt a b same).tbl x = s.tbl x := by simp [tbl, tableOf_unadopt_other s same ha hb]

theorem adopt_err_eq_none_iff (s : State) (a b : Nat) (same : Bool) :
    (s.adopt a b same).err = none ↔
      s.err = none ∧ (s.tableOf a).isSome = true ∧ (same = true ∨ (s.tableOf b).isSome = true) := by
  cases same <;> simp [adopt, setLinks_err_eq_none_iff, and_assoc]

theorem unadopt_err_eq_none_iff (s : State) (a b : Nat) (same : Bool) :
    (s.unadopt a b same).err = none ↔
      s.err = none ∧ (s.tableOf a).isSome = true ∧ (same = true ∨ (s.tableOf b).isSome = true) := by
  cases same <;> simp [unadopt, setLinks_err_eq_none_iff, and_assoc]

/-! ### `adopt` / `unadopt`: effect on the recorded counts -/

@[simp] theorem F_adopt_same (s : State) (a b x y : Nat) : (s.adopt a b true).F x y = s.F x y := by
  simp only [F, tbl, adopt_same, tableOf_setLinks]
  by_cases hx : x = a
  · subst hx; cases h : s.tableOf x <;> simp [Table.get_insert]
  · simp [hx]

@[simp] theorem B_adopt_same (s : State) (a b x y : Nat) : (s.adopt a b true).B x y = s.B x y := by
  simp only [B, tbl, adopt_same, tableOf_setLinks]
  by_cases hx : x = a
  · subst hx; cases h : s.tableOf x <;> simp [Table.get_insert]
  · simp [hx]

theorem F_adopt_diff {s : State} {a b : Nat} (ha : (s.tableOf a).isSome = true) (hb : (s.tableOf b).isSome = true)
    (x y : Nat) : (s.adopt a b false).F x y = s.F x y + (if x = a ∧ y = b then 1 else 0) := by
  obtain ⟨ta, hta⟩ := Option.isSome_iff_exists.mp ha
  obtain ⟨tb, htb⟩ := Option.isSome_iff_exists.mp hb
  simp only [F, tbl, adopt_diff, tableOf_setLinks]
  by_cases hxb : x = b <;> by_cases hxa : x = a <;> by_cases hab : b = a <;>
    simp_all [Table.get_insert] <;> (try omega)

theorem B_adopt_diff {s : State} {a b : Nat} (ha : (s.tableOf a).isSome = true) (hb : (s.tableOf b).isSome = true)
    (x y : Nat) : (s.adopt a b false).B x y = s.B x y + (if x = b ∧ y = a then 1 else 0) := by
  obtain ⟨ta, hta⟩ := Option.isSome_iff_exists.mp ha
  obtain ⟨tb, htb⟩ := Option.isSome_iff_exists.mp hb
  simp only [B, tbl, adopt_diff, tableOf_setLinks]
  by_cases hxb : x = b <;> by_cases hxa : x = a <;> by_cases hab : b = a <;>
    simp_all [Table.get_insert] <;> (try omega)

theorem F_unadopt_same {s : State} {a : Nat} {ta : Table} (hta : s.tableOf a = some ta) (hwa : ta.WF)
    (b x y : Nat) : (s.unadopt a b true).F x y = s.F x y := by
  simp only [F, tbl, unadopt_same, tableOf_setLinks]
  by_cases hx : x = a
  · subst hx; simp [hta, Table.get_remove ta hwa]
  · simp [hx]

theorem B_unadopt_same {s : State} {a : Nat} {ta : Table} (hta : s.tableOf a = some ta) (hwa : ta.WF)
    (b x y : Nat) : (s.unadopt a b true).B x y = s.B x y := by
  simp only [B, tbl, unadopt_same, tableOf_setLinks]
  by_cases hx : x = a
  · subst hx; simp [hta, Table.get_remove ta hwa]
  · simp [hx]

theorem F_unadopt_diff {s : State} {a b : Nat} {ta tb : Table} (hta : s.tableOf a = some ta)
    (htb : s.tableOf b = some tb) (hwa : ta.WF) (hwb : tb.WF) (x y : Nat) :
    (s.unadopt a b false).F x y = if x = a ∧ y = b then s.F a b - 1 else s.F x y := by
  have hwa' := Table.WF_remove ta hwa ⟨b, .fwd⟩ 1
  simp only [F, tbl, unadopt_diff, tableOf_setLinks]
  by_cases hab : b = a
  · subst hab
    rw [hta] at htb; cases htb
    by_cases hxb : x = b
    · subst hxb; simp [hta, Table.get_remove ta hwa, Table.get_remove _ hwa']
    · simp [hxb]
  · by_cases hxb : x = b
    · subst hxb; simp [hab, htb, Table.get_remove tb hwb]
    · by_cases hxa : x = a
      · subst hxa; simp [hxb, hta, Table.get_remove ta hwa]
      · simp [hxa, hxb]

theorem B_unadopt_diff {s : State} {a b : Nat} {ta tb : Table} (hta : s.tableOf a = some ta)
    (htb : s.tableOf b = some tb) (hwa : ta.WF) (hwb : tb.WF) (x y : Nat) :
    (s.unadopt a b false).B x y = if x = b ∧ y = a then s.B b a - 1 else s.B x y := by
  have hwa' := Table.WF_remove ta hwa ⟨b, .fwd⟩ 1
  simp only [B, tbl, unadopt_diff, tableOf_setLinks]
  by_cases hab : b = a
  · subst hab
    rw [hta] at htb; cases htb
    by_cases hxb : x = b
    · subst hxb; simp [hta, Table.get_remove ta hwa, Table.get_remove _ hwa']
    · simp [hxb]
  · by_cases hxb : x = b
    · subst hxb; simp [hab, htb, Table.get_remove tb hwb]
    · by_cases hxa : x = a
      · subst hxa; simp [hxb, hta, Table.get_remove ta hwa]
      · simp [hxa, hxb]

end State
end Cactus

namespace Cactus
namespace State

/-! ## H. `setStrong`, `incStrong`, `incWeak`, `decWeakFree`, `modVal` -/

theorem fail_err_ne_none (s : State) (e : Err) : (s.fail e).err ≠ none := by
  have := fail_err_isSome s e
  intro h; simp [h] at this

/-! ### `setStrong` -/

theorem setStrong_eq {s : State} {o : Nat} {ob : Obj} (st : Strong) (hc : s.cell o = some ob) :
    s.setStrong o st = s.setObj o { ob with strong := st } := by
  simp [setStrong, hc]

theorem setStrong_of_cell_none {s : State} {o : Nat} (st : Strong) (hc : s.cell o = none) :
    s.setStrong o st = s.fail (.uaf o) := by
  simp [setStrong, hc]

theorem setStrong_cases (s : State) (o : Nat) (st : Strong) :
    (∃ e, s.setStrong o st = s.fail e) ∨
    (∃ ob, s.cell o = some ob ∧ s.setStrong o st = s.setObj o { ob with strong := st }) := by
  cases hc : s.cell o with
  | none => exact Or.inl ⟨_, setStrong_of_cell_none st hc⟩
  | some ob => exact Or.inr ⟨ob, rfl, setStrong_eq st hc⟩

theorem setStrong_err {s : State} {o : Nat} {ob : Obj} (st : Strong) (hc : s.cell o = some ob) :
    (s.setStrong o st).err = s.err := by rw [setStrong_eq st hc]; rfl

theorem setStrong_err_eq_none_iff (s : State) (o : Nat) (st : Strong) :
    (s.setStrong o st).err = none ↔ s.err = none ∧ (s.cell o).isSome = true := by
  cases hc : s.cell o with
  | none => simp [setStrong_of_cell_none st hc, fail_err_ne_none]
  | some ob => simp [setStrong_err st hc]

theorem strongNat_setStrong_same {s : State} {o : Nat} {ob : Obj} (st : Strong) (hc : s.cell o = some ob) :
    (s.setStrong o st).strongNat o = st.toNat := by
  rw [setStrong_eq st hc, strongNat_setObj_same _ (cell_some_lt s o ob hc)]

theorem strongNat_setStrong_other (s : State) {o x : Nat} (st : Strong) (h : x ≠ o) :
    (s.setStrong o st).strongNat x = s.strongNat x := by
  rcases setStrong_cases s o st with ⟨e, he⟩ | ⟨ob, hc, he⟩ <;> rw [he]
  · simp
  · exact strongNat_setObj_other s _ h

theorem isLive_setStrong_other (s : State) {o x : Nat} (st : Strong) (h : x ≠ o) :
    (s.setStrong o st).isLive x = s.isLive x := by
  rcases setStrong_cases s o st with ⟨e, he⟩ | ⟨ob, hc, he⟩ <;> rw [he]
  · simp
  · exact isLive_setObj_other s _ h

theorem isLive_setStrong_same {s : State} {o : Nat} {ob : Obj} (st : Strong) (hc : s.cell o = some ob) :
    (s.setStrong o st).isLive o = !st.isDead := by
  rw [setStrong_eq st hc, isLive_setObj_same _ (cell_some_lt s o ob hc)]
  simp [freed_of_cell hc]

/-! #### `setStrong`: untouched, unconditionally -/

@[simp] theorem setStrong_heap_length (s : State) (o : Nat) (st : Strong) : (s.setStrong o st).heap.length = s.heap.length := by
  rcases setStrong_cases s o st with ⟨e, h⟩ | ⟨ob, hc, h⟩ <;> rw [h] <;> simp
@[simp] theorem setStrong_roots (s : State) (o : Nat) (st : Strong) : (s.setStrong o st).roots = s.roots := by
  rcases setStrong_cases s o st with ⟨e, h⟩ | ⟨ob, hc, h⟩ <;> rw [h] <;> simp
@[simp] theorem setStrong_wroots (s : State) (o : Nat) (st : Strong) : (s.setStrong o st).wroots = s.wroots := by
  rcases setStrong_cases s o st with ⟨e, h⟩ | ⟨ob, hc, h⟩ <;> rw [h] <;> simp
@[simp] theorem setStrong_vals (s : State) (o : Nat) (st : Strong) : (s.setStrong o st).vals = s.vals := by
  rcases setStrong_cases s o st with ⟨e, h⟩ | ⟨ob, hc, h⟩ <;> rw [h] <;> simp
@[simp] theorem setStrong_raws (s : State) (o : Nat) (st : Strong) : (s.setStrong o st).raws = s.raws := by
  rcases setStrong_cases s o st with ⟨e, h⟩ | ⟨ob, hc, h⟩ <;> rw [h] <;> simp
@[simp] theorem setStrong_stack (s : State) (o : Nat) (st : Strong) : (s.setStrong o st).stack = s.stack := by
  rcases setStrong_cases s o st with ⟨e, h⟩ | ⟨ob, hc, h⟩ <;> rw [h] <;> simp
@[simp] theorem setStrong_unwinding (s : State) (o : Nat) (st : Strong) : (s.setStrong o st).unwinding = s.unwinding := by
  rcases setStrong_cases s o st with ⟨e, h⟩ | ⟨ob, hc, h⟩ <;> rw [h] <;> simp
@[simp] theorem setStrong_hint (s : State) (o : Nat) (st : Strong) : (s.setStrong o st).hint = s.hint := by
  rcases setStrong_cases s o st with ⟨e, h⟩ | ⟨ob, hc, h⟩ <;> rw [h] <;> simp
@[simp] theorem setStrong_nextVid (s : State) (o : Nat) (st : Strong) : (s.setStrong o st).nextVid = s.nextVid := by
  rcases setStrong_cases s o st with ⟨e, h⟩ | ⟨ob, hc, h⟩ <;> rw [h] <;> simp
@[simp] theorem ext_setStrong (s : State) (o : Nat) (st : Strong) (x : Nat) : (s.setStrong o st).ext x = s.ext x := by
  rcases setStrong_cases s o st with ⟨e, h⟩ | ⟨ob, hc, h⟩ <;> rw [h] <;> simp
@[simp] theorem extW_setStrong (s : State) (o : Nat) (st : Strong) (x : Nat) : (s.setStrong o st).extW x = s.extW x := by
  rcases setStrong_cases s o st with ⟨e, h⟩ | ⟨ob, hc, h⟩ <;> rw [h] <;> simp
@[simp] theorem pend_setStrong (s : State) (o : Nat) (st : Strong) (x : Nat) : (s.setStrong o st).pend x = s.pend x := by
  rcases setStrong_cases s o st with ⟨e, h⟩ | ⟨ob, hc, h⟩ <;> rw [h] <;> simp
@[simp] theorem pendW_setStrong (s : State) (o : Nat) (st : Strong) (x : Nat) : (s.setStrong o st).pendW x = s.pendW x := by
  rcases setStrong_cases s o st with ⟨e, h⟩ | ⟨ob, hc, h⟩ <;> rw [h] <;> simp
@[simp] theorem owed_setStrong (s : State) (o : Nat) (st : Strong) (x : Nat) : (s.setStrong o st).owed x = s.owed x := by
  rcases setStrong_cases s o st with ⟨e, h⟩ | ⟨ob, hc, h⟩ <;> rw [h] <;> simp
@[simp] theorem heldOf_setStrong (s : State) (o : Nat) (st : Strong) (x : Nat) : (s.setStrong o st).heldOf x = s.heldOf x := by
  rcases setStrong_cases s o st with ⟨e, h⟩ | ⟨ob, hc, h⟩ <;> rw [h]
  · simp
  · exact heldOf_setObj_of_value_eq (get_of_cell hc) (by rfl) x
@[simp] theorem weaksOf_setStrong (s : State) (o : Nat) (st : Strong) (x : Nat) : (s.setStrong o st).weaksOf x = s.weaksOf x := by
  rcases setStrong_cases s o st with ⟨e, h⟩ | ⟨ob, hc, h⟩ <;> rw [h]
  · simp
  · exact weaksOf_setObj_of_value_eq (get_of_cell hc) (by rfl) x
@[simp] theorem H_setStrong (s : State) (o : Nat) (st : Strong) (x y : Nat) : (s.setStrong o st).H x y = s.H x y := by
  rcases setStrong_cases s o st with ⟨e, h⟩ | ⟨ob, hc, h⟩ <;> rw [h]
  · simp
  · exact H_setObj_of_value_eq (get_of_cell hc) (by rfl) x y
@[simp] theorem inHeap_setStrong (s : State) (o : Nat) (st : Strong) (x : Nat) : (s.setStrong o st).inHeap x = s.inHeap x := by
  rcases setStrong_cases s o st with ⟨e, h⟩ | ⟨ob, hc, h⟩ <;> rw [h]
  · simp
  · exact inHeap_setObj_of_value_eq _ (get_of_cell hc) (by rfl) x
@[simp] theorem inHeapW_setStrong (s : State) (o : Nat) (st : Strong) (x : Nat) : (s.setStrong o st).inHeapW x = s.inHeapW x := by
  rcases setStrong_cases s o st with ⟨e, h⟩ | ⟨ob, hc, h⟩ <;> rw [h]
  · simp
  · exact inHeapW_setObj_of_value_eq _ (get_of_cell hc) (by rfl) x
@[simp] theorem weakNat_setStrong (s : State) (o : Nat) (st : Strong) (x : Nat) : (s.setStrong o st).weakNat x = s.weakNat x := by
  rcases setStrong_cases s o st with ⟨e, h⟩ | ⟨ob, hc, h⟩ <;> rw [h]
  · simp
  · exact weakNat_setObj_of_weak_eq (get_of_cell hc) (by rfl) x
@[simp] theorem implicitNat_setStrong (s : State) (o : Nat) (st : Strong) (x : Nat) : (s.setStrong o st).implicitNat x = s.implicitNat x := by
  rcases setStrong_cases s o st with ⟨e, h⟩ | ⟨ob, hc, h⟩ <;> rw [h]
  · simp
  · exact implicitNat_setObj_of_implicit_eq (get_of_cell hc) (by rfl) x
@[simp] theorem tableOf_setStrong (s : State) (o : Nat) (st : Strong) (x : Nat) : (s.setStrong o st).tableOf x = s.tableOf x := by
  rcases setStrong_cases s o st with ⟨e, h⟩ | ⟨ob, hc, h⟩ <;> rw [h]
  · simp
  · exact tableOf_setObj_of_links_eq (get_of_cell hc) (by rfl) (by rfl) x
@[simp] theorem tbl_setStrong (s : State) (o : Nat) (st : Strong) (x : Nat) : (s.setStrong o st).tbl x = s.tbl x := by
  rcases setStrong_cases s o st with ⟨e, h⟩ | ⟨ob, hc, h⟩ <;> rw [h]
  · simp
  · exact tbl_setObj_of_links_eq (get_of_cell hc) (by rfl) (by rfl) x
@[simp] theorem F_setStrong (s : State) (o : Nat) (st : Strong) (x y : Nat) : (s.setStrong o st).F x y = s.F x y := by
  rcases setStrong_cases s o st with ⟨e, h⟩ | ⟨ob, hc, h⟩ <;> rw [h]
  · simp
  · exact F_setObj_of_links_eq (get_of_cell hc) (by rfl) (by rfl) x y
@[simp] theorem B_setStrong (s : State) (o : Nat) (st : Strong) (x y : Nat) : (s.setStrong o st).B x y = s.B x y := by
  rcases setStrong_cases s o st with ⟨e, h⟩ | ⟨ob, hc, h⟩ <;> rw [h]
  · simp
  · exact B_setObj_of_links_eq (get_of_cell hc) (by rfl) (by rfl) x y

/-! ### `incStrong` -/

theorem incStrong_eq {s : State} {o n : Nat} {ob : Obj} (hc : s.cell o = some ob) (hs : ob.strong = .cnt (n + 1)) :
    s.incStrong o = s.setObj o { ob with strong := .cnt (n + 2) } := by
  simp [incStrong, hc, hs]

theorem incStrong_of_cell_none {s : State} {o : Nat} (hc : s.cell o = none) :
    s.incStrong o = s.fail (.uaf o) := by
  simp [incStrong, hc]

theorem incStrong_of_dead {s : State} {o : Nat} {ob : Obj} (hc : s.cell o = some ob)
    (hd : ob.strong.isDead = true) : s.incStrong o = s.fail .abort := by
  rcases (Strong.isDead_eq_true_iff _).mp hd with h | h <;> simp [incStrong, hc, h]

theorem incStrong_of_isLive {s : State} {o : Nat} (h : s.isLive o = true) :
    ∃ ob n, s.cell o = some ob ∧ ob.strong = .cnt (n + 1)
      ∧ s.incStrong o = s.setObj o { ob with strong := .cnt (n + 2) } := by
  obtain ⟨ob, n, hc, hs⟩ := (isLive_iff_cell s o).mp h
  exact ⟨ob, n, hc, hs, incStrong_eq hc hs⟩

theorem incStrong_of_not_isLive {s : State} {o : Nat} (h : s.isLive o = false) :
    ∃ e, s.incStrong o = s.fail e := by
  cases hc : s.cell o with
  | none => exact ⟨_, incStrong_of_cell_none hc⟩
  | some ob =>
    refine ⟨_, incStrong_of_dead hc ?_⟩
    rw [isLive_of_cell hc] at h; simpa using h

theorem incStrong_cases (s : State) (o : Nat) :
    (∃ e, s.incStrong o = s.fail e) ∨
    (∃ ob n, s.cell o = some ob ∧ ob.strong = .cnt (n + 1)
      ∧ s.incStrong o = s.setObj o { ob with strong := .cnt (n + 2) }) := by
  cases h : s.isLive o with
  | false => exact Or.inl (incStrong_of_not_isLive h)
  | true => exact Or.inr (incStrong_of_isLive h)

theorem incStrong_err {s : State} {o n : Nat} {ob : Obj} (hc : s.cell o = some ob) (hs : ob.strong = .cnt (n + 1)) :
    (s.incStrong o).err = s.err := by rw [incStrong_eq hc hs]; rfl

theorem incStrong_err_of_isLive {s : State} {o : Nat} (h : s.isLive o = true) : (s.incStrong o).err = s.err := by
  obtain ⟨ob, n, _, _, he⟩ := incStrong_of_isLive h
  rw [he]; rfl

theorem incStrong_err_eq_none_iff (s : State) (o : Nat) :
    (s.incStrong o).err = none ↔ s.err = none ∧ s.isLive o = true := by
  cases h : s.isLive o with
  | false =>
    obtain ⟨e, he⟩ := incStrong_of_not_isLive h
    simp [he, fail_err_ne_none]
  | true => simp [incStrong_err_of_isLive h]

theorem strongNat_incStrong_other (s : State) {o x : Nat} (h : x ≠ o) :
    (s.incStrong o).strongNat x = s.strongNat x := by
  rcases incStrong_cases s o with ⟨e, he⟩ | ⟨ob, n, hc, hs, he⟩ <;> rw [he]
  · simp
  · exact strongNat_setObj_other s _ h

theorem strongNat_incStrong {s : State} {o : Nat} (h : s.isLive o = true) (x : Nat) :
    (s.incStrong o).strongNat x = s.strongNat x + (if o = x then 1 else 0) := by
  by_cases hx : x = o
  · subst hx
    obtain ⟨ob, n, hc, hs, he⟩ := incStrong_of_isLive h
    rw [he, strongNat_setObj_same _ (cell_some_lt s x ob hc), strongNat_of_get (get_of_cell hc), hs]
    simp
  · simp [strongNat_incStrong_other s hx, Ne.symm hx]

theorem cell_incStrong_other (s : State) {o x : Nat} (h : x ≠ o) : (s.incStrong o).cell x = s.cell x := by
  rcases incStrong_cases s o with ⟨e, he⟩ | ⟨ob, n, hc, hs, he⟩ <;> rw [he]
  · simp
  · exact cell_setObj_other' s _ h

/-! #### `incStrong`: untouched, unconditionally -/

@[simp] theorem incStrong_heap_length (s : State) (o : Nat) : (s.incStrong o).heap.length = s.heap.length := by
  rcases incStrong_cases s o with ⟨e, h⟩ | ⟨ob, n, hc, hs, h⟩ <;> rw [h] <;> simp
@[simp] theorem incStrong_roots (s : State) (o : Nat) : (s.incStrong o).roots = s.roots := by
  rcases incStrong_cases s o with ⟨e, h⟩ | ⟨ob, n, hc, hs, h⟩ <;> rw [h] <;> simp
@[simp] theorem incStrong_wroots (s : State) (o : Nat) : (s.incStrong o).wroots = s.wroots := by
  rcases incStrong_cases s o with ⟨e, h⟩ | ⟨ob, n, hc, hs, h⟩ <;> rw [h] <;> simp
@[simp] theorem incStrong_vals (s : State) (o : Nat) : (s.incStrong o).vals = s.vals := by
  rcases incStrong_cases s o with ⟨e, h⟩ | ⟨ob, n, hc, hs, h⟩ <;> rw [h] <;> simp
@[simp] theorem incStrong_raws (s : State) (o : Nat) : (s.incStrong o).raws = s.raws := by
  rcases incStrong_cases s o with ⟨e, h⟩ | ⟨ob, n, hc, hs, h⟩ <;> rw [h] <;> simp
@[simp] theorem incStrong_stack (s : State) (o : Nat) : (s.incStrong o).stack = s.stack := by
  rcases incStrong_cases s o with ⟨e, h⟩ | ⟨ob, n, hc, hs, h⟩ <;> rw [h] <;> simp
@[simp] theorem incStrong_unwinding (s : State) (o : Nat) : (s.incStrong o).unwinding = s.unwinding := by
  rcases incStrong_cases s o with ⟨e, h⟩ | ⟨ob, n, hc, hs, h⟩ <;> rw [h] <;> simp
@[simp] theorem incStrong_hint (s : State) (o : Nat) : (s.incStrong o).hint = s.hint := by
  rcases incStrong_cases s o with ⟨e, h⟩ | ⟨ob, n, hc, hs, h⟩ <;> rw [h] <;> simp
@[simp] theorem incStrong_nextVid (s : State) (o : Nat) : (s.incStrong o).nextVid = s.nextVid := by
  rcases incStrong_cases s o with ⟨e, h⟩ | ⟨ob, n, hc, hs, h⟩ <;> rw [h] <;> simp
@[simp] theorem ext_incStrong (s : State) (o : Nat) (x : Nat) : (s.incStrong o).ext x = s.ext x := by
  rcases incStrong_cases s o with ⟨e, h⟩ | ⟨ob, n, hc, hs, h⟩ <;> rw [h] <;> simp
@[simp] theorem extW_incStrong (s : State) (o : Nat) (x : Nat) : (s.incStrong o).extW x = s.extW x := by
  rcases incStrong_cases s o with ⟨e, h⟩ | ⟨ob, n, hc, hs, h⟩ <;> rw [h] <;> simp
@[simp] theorem pend_incStrong (s : State) (o : Nat) (x : Nat) : (s.incStrong o).pend x = s.pend x := by
  rcases incStrong_cases s o with ⟨e, h⟩ | ⟨ob, n, hc, hs, h⟩ <;> rw [h] <;> simp
@[simp] theorem pendW_incStrong (s : State) (o : Nat) (x : Nat) : (s.incStrong o).pendW x = s.pendW x := by
  rcases incStrong_cases s o with ⟨e, h⟩ | ⟨ob, n, hc, hs, h⟩ <;> rw [h] <;> simp
@[simp] theorem owed_incStrong (s : State) (o : Nat) (x : Nat) : (s.incStrong o).owed x = s.owed x := by
  rcases incStrong_cases s o with ⟨e, h⟩ | ⟨ob, n, hc, hs, h⟩ <;> rw [h] <;> simp
@[simp] theorem heldOf_incStrong (s : State) (o : Nat) (x : Nat) : (s.incStrong o).heldOf x = s.heldOf x := by
  rcases incStrong_cases s o with ⟨e, h⟩ | ⟨ob, n, hc, hs, h⟩ <;> rw [h]
  · simp
  · exact heldOf_setObj_of_value_eq (get_of_cell hc) (by rfl) x
@[simp] theorem weaksOf_incStrong (s : State) (o : Nat) (x : Nat) : (s.incStrong o).weaksOf x = s.weaksOf x := by
  rcases incStrong_cases s o with ⟨e, h⟩ | ⟨ob, n, hc, hs, h⟩ <;> rw [h]
  · simp
  · exact weaksOf_setObj_of_value_eq (get_of_cell hc) (by rfl) x
@[simp] theorem H_incStrong (s : State) (o : Nat) (x y : Nat) : (s.incStrong o).H x y = s.H x y := by
  rcases incStrong_cases s o with ⟨e, h⟩ | ⟨ob, n, hc, hs, h⟩ <;> rw [h]
  · simp
  · exact H_setObj_of_value_eq (get_of_cell hc) (by rfl) x y
@[simp] theorem inHeap_incStrong (s : State) (o : Nat) (x : Nat) : (s.incStrong o).inHeap x = s.inHeap x := by
  rcases incStrong_cases s o with ⟨e, h⟩ | ⟨ob, n, hc, hs, h⟩ <;> rw [h]
  · simp
  · exact inHeap_setObj_of_value_eq _ (get_of_cell hc) (by rfl) x
@[simp] theorem inHeapW_incStrong (s : State) (o : Nat) (x : Nat) : (s.incStrong o).inHeapW x = s.inHeapW x := by
  rcases incStrong_cases s o with ⟨e, h⟩ | ⟨ob, n, hc, hs, h⟩ <;> rw [h]
  · simp
  · exact inHeapW_setObj_of_value_eq _ (get_of_cell hc) (by rfl) x
@[simp] theorem weakNat_incStrong (s : State) (o : Nat) (x : Nat) : (s.incStrong o).weakNat x = s.weakNat x := by
  rcases incStrong_cases s o with ⟨e, h⟩ | ⟨ob, n, hc, hs, h⟩ <;> rw [h]
  · simp
  · exact weakNat_setObj_of_weak_eq (get_of_cell hc) (by rfl) x
@[simp] theorem implicitNat_incStrong (s : State) (o : Nat) (x : Nat) : (s.incStrong o).implicitNat x = s.implicitNat x := by
  rcases incStrong_cases s o with ⟨e, h⟩ | ⟨ob, n, hc, hs, h⟩ <;> rw [h]
  · simp
  · exact implicitNat_setObj_of_implicit_eq (get_of_cell hc) (by rfl) x
@[simp] theorem tableOf_incStrong (s : State) (o : Nat) (x : Nat) : (s.incStrong o).tableOf x = s.tableOf x := by
  rcases incStrong_cases s o with ⟨e, h⟩ | ⟨ob, n, hc, hs, h⟩ <;> rw [h]
  · simp
  · exact tableOf_setObj_of_links_eq (get_of_cell hc) (by rfl) (by rfl) x
@[simp] theorem tbl_incStrong (s : State) (o : Nat) (x : Nat) : (s.incStrong o).tbl x = s.tbl x := by
  rcases incStrong_cases s o with ⟨e, h⟩ | ⟨ob, n, hc, hs, h⟩ <;> rw [h]
  · simp
  · exact tbl_setObj_of_links_eq (get_of_cell hc) (by rfl) (by rfl) x
@[simp] theorem F_incStrong (s : State) (o : Nat) (x y : Nat) : (s.incStrong o).F x y = s.F x y := by
  rcases incStrong_cases s o with ⟨e, h⟩ | ⟨ob, n, hc, hs, h⟩ <;> rw [h]
  · simp
  · exact F_setObj_of_links_eq (get_of_cell hc) (by rfl) (by rfl) x y
@[simp] theorem B_incStrong (s : State) (o : Nat) (x y : Nat) : (s.incStrong o).B x y = s.B x y := by
  rcases incStrong_cases s o with ⟨e, h⟩ | ⟨ob, n, hc, hs, h⟩ <;> rw [h]
  · simp
  · exact B_setObj_of_links_eq (get_of_cell hc) (by rfl) (by rfl) x y
@[simp] theorem isLive_incStrong (s : State) (o : Nat) (x : Nat) : (s.incStrong o).isLive x = s.isLive x := by
  rcases incStrong_cases s o with ⟨e, h⟩ | ⟨ob, n, hc, hs, h⟩ <;> rw [h]
  · simp
  · exact isLive_setObj_of_eq (get_of_cell hc) (by rfl) (by rw [hs]; rfl) x

/-! ### `incWeak` -/

theorem incWeak_eq {s : State} {o : Nat} {ob : Obj} (hc : s.cell o = some ob) (hw : ob.weak ≠ 0) :
    s.incWeak o = s.setObj o { ob with weak := ob.weak + 1 } := by
  simp [incWeak, hc, hw]

theorem incWeak_of_cell_none {s : State} {o : Nat} (hc : s.cell o = none) :
    s.incWeak o = s.fail (.uaf o) := by
  simp [incWeak, hc]

theorem incWeak_of_weak_zero {s : State} {o : Nat} {ob : Obj} (hc : s.cell o = some ob) (hw : ob.weak = 0) :
    s.incWeak o = s.fail .abort := by
  simp [incWeak, hc, hw]

theorem incWeak_cases (s : State) (o : Nat) :
    (∃ e, s.incWeak o = s.fail e) ∨
    (∃ ob, s.cell o = some ob ∧ ob.weak ≠ 0 ∧ s.incWeak o = s.setObj o { ob with weak := ob.weak + 1 }) := by
  cases hc : s.cell o with
  | none => exact Or.inl ⟨_, incWeak_of_cell_none hc⟩
  | some ob =>
    by_cases hw : ob.weak = 0
    · exact Or.inl ⟨_, incWeak_of_weak_zero hc hw⟩
    · exact Or.inr ⟨ob, rfl, hw, incWeak_eq hc hw⟩

theorem incWeak_err {s : State} {o : Nat} {ob : Obj} (hc : s.cell o = some ob) (hw : ob.weak ≠ 0) :
    (s.incWeak o).err = s.err := by rw [incWeak_eq hc hw]; rfl

theorem incWeak_err_eq_none_iff (s : State) (o : Nat) :
    (s.incWeak o).err = none ↔ s.err = none ∧ ∃ ob, s.cell o = some ob ∧ ob.weak ≠ 0 := by
  cases hc : s.cell o with
  | none => simp [incWeak_of_cell_none hc, fail_err_ne_none]
  | some ob =>
    by_cases hw : ob.weak = 0
    · simp [incWeak_of_weak_zero hc hw, fail_err_ne_none, hw]
    · simp [incWeak_err hc hw, hw]

theorem weakNat_incWeak_other (s : State) {o x : Nat} (h : x ≠ o) :
    (s.incWeak o).weakNat x = s.weakNat x := by
  rcases incWeak_cases s o with ⟨e, he⟩ | ⟨ob, hc, hw, he⟩ <;> rw [he]
  · simp
  · exact weakNat_setObj_other s _ h

theorem weakNat_incWeak {s : State} {o : Nat} {ob : Obj} (hc : s.cell o = some ob) (hw : ob.weak ≠ 0) (x : Nat) :
    (s.incWeak o).weakNat x = s.weakNat x + (if o = x then 1 else 0) := by
  by_cases hx : x = o
  · subst hx
    rw [incWeak_eq hc hw, weakNat_setObj_same _ (cell_some_lt s x ob hc), weakNat_of_get (get_of_cell hc)]
    simp
  · simp [weakNat_incWeak_other s hx, Ne.symm hx]

theorem cell_incWeak_other (s : State) {o x : Nat} (h : x ≠ o) : (s.incWeak o).cell x = s.cell x := by
  rcases incWeak_cases s o with ⟨e, he⟩ | ⟨ob, hc, hw, he⟩ <;> rw [he]
  · simp
  · exact cell_setObj_other' s _ h

/-! #### `incWeak`: untouched, unconditionally -/

@[simp] theorem incWeak_heap_length (s : State) (o : Nat) : (s.incWeak o).heap.length = s.heap.length := by
  rcases incWeak_cases s o with ⟨e, h⟩ | ⟨ob, hc, hw, h⟩ <;> rw [h] <;> simp
@[simp] theorem incWeak_roots (s : State) (o : Nat) : (s.incWeak o).roots = s.roots := by
  rcases incWeak_cases s o with ⟨e, h⟩ | ⟨ob, hc, hw, h⟩ <;> rw [h] <;> simp
@[simp] theorem incWeak_wroots (s : State) (o : Nat) : (s.incWeak o).wroots = s.wroots := by
  rcases incWeak_cases s o with ⟨e, h⟩ | ⟨ob, hc, hw, h⟩ <;> rw [h] <;> simp
@[simp] theorem incWeak_vals (s : State) (o : Nat) : (s.incWeak o).vals = s.vals := by
  rcases incWeak_cases s o with ⟨e, h⟩ | ⟨ob, hc, hw, h⟩ <;> rw [h] <;> simp
@[simp] theorem incWeak_raws (s : State) (o : Nat) : (s.incWeak o).raws = s.raws := by
  rcases incWeak_cases s o with ⟨e, h⟩ | ⟨ob, hc, hw, h⟩ <;> rw [h] <;> simp
@[simp] theorem incWeak_stack (s : State) (o : Nat) : (s.incWeak o).stack = s.stack := by
  rcases incWeak_cases s o with ⟨e, h⟩ | ⟨ob, hc, hw, h⟩ <;> rw [h] <;> simp
@[simp] theorem incWeak_unwinding (s : State) (o : Nat) : (s.incWeak o).unwinding = s.unwinding := by
  rcases incWeak_cases s o with ⟨e, h⟩ | ⟨ob, hc, hw, h⟩ <;> rw [h] <;> simp
@[simp] theorem incWeak_hint (s : State) (o : Nat) : (s.incWeak o).hint = s.hint := by
  rcases incWeak_cases s o with ⟨e, h⟩ | ⟨ob, hc, hw, h⟩ <;> rw [h] <;> simp
@[simp] theorem incWeak_nextVid (s : State) (o : Nat) : (s.incWeak o).nextVid = s.nextVid := by
  rcases incWeak_cases s o with ⟨e, h⟩ | ⟨ob, hc, hw, h⟩ <;> rw [h] <;> simp
@[simp] theorem ext_incWeak (s : State) (o : Nat) (x : Nat) : (s.incWeak o).ext x = s.ext x := by
  rcases incWeak_cases s o with ⟨e, h⟩ | ⟨ob, hc, hw, h⟩ <;> rw [h] <;> simp
@[simp] theorem extW_incWeak (s : State) (o : Nat) (x : Nat) : (s.incWeak o).extW x = s.extW x := by
  rcases incWeak_cases s o with ⟨e, h⟩ | ⟨ob, hc, hw, h⟩ <;> rw [h] <;> simp
@[simp] theorem pend_incWeak (s : State) (o : Nat) (x : Nat) : (s.incWeak o).pend x = s.pend x := by
  rcases incWeak_cases s o with ⟨e, h⟩ | ⟨ob, hc, hw, h⟩ <;> rw [h] <;> simp
@[simp] theorem pendW_incWeak (s : State) (o : Nat) (x : Nat) : (s.incWeak o).pendW x = s.pendW x := by
  rcases incWeak_cases s o with ⟨e, h⟩ | ⟨ob, hc, hw, h⟩ <;> rw [h] <;> simp
@[simp] theorem owed_incWeak (s : State) (o : Nat) (x : Nat) : (s.incWeak o).owed x = s.owed x := by
  rcases incWeak_cases s o with ⟨e, h⟩ | ⟨ob, hc, hw, h⟩ <;> rw [h] <;> simp
@[simp] theorem heldOf_incWeak (s : State) (o : Nat) (x : Nat) : (s.incWeak o).heldOf x = s.heldOf x := by
  rcases incWeak_cases s o with ⟨e, h⟩ | ⟨ob, hc, hw, h⟩ <;> rw [h]
  · simp
  · exact heldOf_setObj_of_value_eq (get_of_cell hc) (by rfl) x
@[simp] theorem weaksOf_incWeak (s : State) (o : Nat) (x : Nat) : (s.incWeak o).weaksOf x = s.weaksOf x := by
  rcases incWeak_cases s o with ⟨e, h⟩ | ⟨ob, hc, hw, h⟩ <;> rw [h]
  · simp
  · exact weaksOf_setObj_of_value_eq (get_of_cell hc) (by rfl) x
@[simp] theorem H_incWeak (s : State) (o : Nat) (x y : Nat) : (s.incWeak o).H x y = s.H x y := by
  rcases incWeak_cases s o with ⟨e, h⟩ | ⟨ob, hc, hw, h⟩ <;> rw [h]
  · simp
  · exact H_setObj_of_value_eq (get_of_cell hc) (by rfl) x y
@[simp] theorem inHeap_incWeak (s : State) (o : Nat) (x : Nat) : (s.incWeak o).inHeap x = s.inHeap x := by
  rcases incWeak_cases s o with ⟨e, h⟩ | ⟨ob, hc, hw, h⟩ <;> rw [h]
  · simp
  · exact inHeap_setObj_of_value_eq _ (get_of_cell hc) (by rfl) x
@[simp] theorem inHeapW_incWeak (s : State) (o : Nat) (x : Nat) : (s.incWeak o).inHeapW x = s.inHeapW x := by
  rcases incWeak_cases s o with ⟨e, h⟩ | ⟨ob, hc, hw, h⟩ <;> rw [h]
  · simp
  · exact inHeapW_setObj_of_value_eq _ (get_of_cell hc) (by rfl) x
@[simp] theorem strongNat_incWeak (s : State) (o : Nat) (x : Nat) : (s.incWeak o).strongNat x = s.strongNat x := by
  rcases incWeak_cases s o with ⟨e, h⟩ | ⟨ob, hc, hw, h⟩ <;> rw [h]
  · simp
  · exact strongNat_setObj_of_strong_eq (get_of_cell hc) (by rfl) x
@[simp] theorem strongOf_incWeak (s : State) (o : Nat) (x : Nat) : (s.incWeak o).strongOf x = s.strongOf x := by
  rcases incWeak_cases s o with ⟨e, h⟩ | ⟨ob, hc, hw, h⟩ <;> rw [h]
  · simp
  · exact strongOf_setObj_of_strong_eq (get_of_cell hc) (by rfl) x
@[simp] theorem implicitNat_incWeak (s : State) (o : Nat) (x : Nat) : (s.incWeak o).implicitNat x = s.implicitNat x := by
  rcases incWeak_cases s o with ⟨e, h⟩ | ⟨ob, hc, hw, h⟩ <;> rw [h]
  · simp
  · exact implicitNat_setObj_of_implicit_eq (get_of_cell hc) (by rfl) x
@[simp] theorem tableOf_incWeak (s : State) (o : Nat) (x : Nat) : (s.incWeak o).tableOf x = s.tableOf x := by
  rcases incWeak_cases s o with ⟨e, h⟩ | ⟨ob, hc, hw, h⟩ <;> rw [h]
  · simp
  · exact tableOf_setObj_of_links_eq (get_of_cell hc) (by rfl) (by rfl) x
@[simp] theorem tbl_incWeak (s : State) (o : Nat) (x : Nat) : (s.incWeak o).tbl x = s.tbl x := by
  rcases incWeak_cases s o with ⟨e, h⟩ | ⟨ob, hc, hw, h⟩ <;> rw [h]
  · simp
  · exact tbl_setObj_of_links_eq (get_of_cell hc) (by rfl) (by rfl) x
@[simp] theorem F_incWeak (s : State) (o : Nat) (x y : Nat) : (s.incWeak o).F x y = s.F x y := by
  rcases incWeak_cases s o with ⟨e, h⟩ | ⟨ob, hc, hw, h⟩ <;> rw [h]
  · simp
  · exact F_setObj_of_links_eq (get_of_cell hc) (by rfl) (by rfl) x y
@[simp] theorem B_incWeak (s : State) (o : Nat) (x y : Nat) : (s.incWeak o).B x y = s.B x y := by
  rcases incWeak_cases s o with ⟨e, h⟩ | ⟨ob, hc, hw, h⟩ <;> rw [h]
  · simp
  · exact B_setObj_of_links_eq (get_of_cell hc) (by rfl) (by rfl) x y
@[simp] theorem isLive_incWeak (s : State) (o : Nat) (x : Nat) : (s.incWeak o).isLive x = s.isLive x := by
  rcases incWeak_cases s o with ⟨e, h⟩ | ⟨ob, hc, hw, h⟩ <;> rw [h]
  · simp
  · exact isLive_setObj_of_eq (get_of_cell hc) (by rfl) (by rfl) x

/-! ### `decWeakFree` -/

theorem decWeakFree_eq_free {s : State} {o : Nat} {ob : Obj} (imp : Bool) (hc : s.cell o = some ob)
    (hw : ob.weak = 1) :
    s.decWeakFree o imp
      = (s.setObj o { ob with weak := 0, freed := true, implicit := ob.implicit && !imp }).emit (.freed o) := by
  simp [decWeakFree, hc, hw]

theorem decWeakFree_eq_dec {s : State} {o w : Nat} {ob : Obj} (imp : Bool) (hc : s.cell o = some ob)
    (hw : ob.weak = w + 2) :
    s.decWeakFree o imp = s.setObj o { ob with weak := w + 1, implicit := ob.implicit && !imp } := by
  simp [decWeakFree, hc, hw]

theorem decWeakFree_of_cell_none {s : State} {o : Nat} (imp : Bool) (hc : s.cell o = none) :
    s.decWeakFree o imp = s.fail (.uaf o) := by
  simp [decWeakFree, hc]

theorem decWeakFree_of_weak_zero {s : State} {o : Nat} {ob : Obj} (imp : Bool) (hc : s.cell o = some ob)
    (hw : ob.weak = 0) : s.decWeakFree o imp = s.fail (.underflow o) := by
  simp [decWeakFree, hc, hw]

theorem decWeakFree_cases (s : State) (o : Nat) (imp : Bool) :
    (∃ e, s.decWeakFree o imp = s.fail e) ∨
    (∃ ob, s.cell o = some ob ∧ ob.weak = 1 ∧ s.decWeakFree o imp
        = (s.setObj o { ob with weak := 0, freed := true, implicit := ob.implicit && !imp }).emit (.freed o)) ∨
    (∃ ob w, s.cell o = some ob ∧ ob.weak = w + 2 ∧ s.decWeakFree o imp
        = s.setObj o { ob with weak := w + 1, implicit := ob.implicit && !imp }) := by
  cases hc : s.cell o with
  | none => exact Or.inl ⟨_, decWeakFree_of_cell_none imp hc⟩
  | some ob =>
    match hw : ob.weak with
    | 0 => exact Or.inl ⟨_, decWeakFree_of_weak_zero imp hc hw⟩
    | 1 => exact Or.inr (Or.inl ⟨ob, rfl, hw, decWeakFree_eq_free imp hc hw⟩)
    | w + 2 => exact Or.inr (Or.inr ⟨ob, w, rfl, hw, decWeakFree_eq_dec imp hc hw⟩)

theorem decWeakFree_err {s : State} {o : Nat} {ob : Obj} (imp : Bool) (hc : s.cell o = some ob) (hw : ob.weak ≠ 0) :
    (s.decWeakFree o imp).err = s.err := by
  match hw' : ob.weak with
  | 0 => exact absurd hw' hw
  | 1 => rw [decWeakFree_eq_free imp hc hw']; rfl
  | w + 2 => rw [decWeakFree_eq_dec imp hc hw']; rfl

theorem decWeakFree_err_eq_none_iff (s : State) (o : Nat) (imp : Bool) :
    (s.decWeakFree o imp).err = none ↔ s.err = none ∧ ∃ ob, s.cell o = some ob ∧ ob.weak ≠ 0 := by
  cases hc : s.cell o with
  | none => simp [decWeakFree_of_cell_none imp hc, fail_err_ne_none]
  | some ob =>
    by_cases hw : ob.weak = 0
    · simp [decWeakFree_of_weak_zero imp hc hw, fail_err_ne_none, hw]
    · simp [decWeakFree_err imp hc hw, hw]

/-- the object at `o` after a successful `decWeakFree` -/
theorem getElem?_decWeakFree_same {s : State} {o : Nat} {ob : Obj} (imp : Bool) (hc : s.cell o = some ob)
    (hw : ob.weak ≠ 0) :
    (s.decWeakFree o imp).heap[o]?
      = some { ob with weak := ob.weak - 1, freed := decide (ob.weak = 1), implicit := ob.implicit && !imp } := by
  have hlt := cell_some_lt s o ob hc
  match hw' : ob.weak with
  | 0 => exact absurd hw' hw
  | 1 => rw [decWeakFree_eq_free imp hc hw', emit_heap, getElem?_setObj_same _ hlt]; rfl
  | w + 2 =>
    rw [decWeakFree_eq_dec imp hc hw', getElem?_setObj_same _ hlt]
    simp [freed_of_cell hc]

theorem getElem?_decWeakFree_other (s : State) {o x : Nat} (imp : Bool) (h : x ≠ o) :
    (s.decWeakFree o imp).heap[x]? = s.heap[x]? := by
  rcases decWeakFree_cases s o imp with ⟨e, he⟩ | ⟨ob, hc, hw, he⟩ | ⟨ob, w, hc, hw, he⟩ <;> rw [he]
  · simp
  · rw [emit_heap]; exact getElem?_setObj_other s _ h
  · exact getElem?_setObj_other s _ h

theorem weakNat_decWeakFree_other (s : State) {o x : Nat} (imp : Bool) (h : x ≠ o) :
    (s.decWeakFree o imp).weakNat x = s.weakNat x := by
  simp only [weakNat, getElem?_decWeakFree_other s imp h]

theorem weakNat_decWeakFree {s : State} {o : Nat} {ob : Obj} (imp : Bool) (hc : s.cell o = some ob)
    (hw : ob.weak ≠ 0) (x : Nat) :
    (s.decWeakFree o imp).weakNat x + (if o = x then 1 else 0) = s.weakNat x := by
  by_cases hx : x = o
  · subst hx
    rw [weakNat_of_get (getElem?_decWeakFree_same imp hc hw), weakNat_of_get (get_of_cell hc)]
    simp; omega
  · simp [weakNat_decWeakFree_other s imp hx, Ne.symm hx]

theorem implicitNat_decWeakFree_other (s : State) {o x : Nat} (imp : Bool) (h : x ≠ o) :
    (s.decWeakFree o imp).implicitNat x = s.implicitNat x := by
  simp only [implicitNat, getElem?_decWeakFree_other s imp h]

theorem implicitNat_decWeakFree_same {s : State} {o : Nat} {ob : Obj} (imp : Bool) (hc : s.cell o = some ob)
    (hw : ob.weak ≠ 0) :
    (s.decWeakFree o imp).implicitNat o = if imp then 0 else s.implicitNat o := by
  rw [implicitNat_of_get (getElem?_decWeakFree_same imp hc hw), implicitNat_of_get (get_of_cell hc)]
  cases imp <;> simp

/-- releasing a Weak handle (`imp = false`) never touches the ghost bit -/
@[simp] theorem implicitNat_decWeakFree_false (s : State) (o x : Nat) :
    (s.decWeakFree o false).implicitNat x = s.implicitNat x := by
  rcases decWeakFree_cases s o false with ⟨e, he⟩ | ⟨ob, hc, hw, he⟩ | ⟨ob, w, hc, hw, he⟩ <;> rw [he]
  · simp
  · rw [implicitNat_emit]; exact implicitNat_setObj_of_implicit_eq (get_of_cell hc) (by simp) x
  · exact implicitNat_setObj_of_implicit_eq (get_of_cell hc) (by simp) x

theorem cell_decWeakFree_other (s : State) {o x : Nat} (imp : Bool) (h : x ≠ o) :
    (s.decWeakFree o imp).cell x = s.cell x := by
  simp only [cell, getElem?_decWeakFree_other s imp h]

theorem isLive_decWeakFree_other (s : State) {o x : Nat} (imp : Bool) (h : x ≠ o) :
    (s.decWeakFree o imp).isLive x = s.isLive x := by
  simp only [isLive, getElem?_decWeakFree_other s imp h]

theorem tableOf_decWeakFree_other (s : State) {o x : Nat} (imp : Bool) (h : x ≠ o) :
    (s.decWeakFree o imp).tableOf x = s.tableOf x := by
  simp only [tableOf, cell_decWeakFree_other s imp h]

theorem tbl_decWeakFree_other (s : State) {o x : Nat} (imp : Bool) (h : x ≠ o) :
    (s.decWeakFree o imp).tbl x = s.tbl x := by
  simp only [tbl, tableOf_decWeakFree_other s imp h]

/-- the object is released exactly when the last weak reference goes -/
theorem cell_decWeakFree_same {s : State} {o : Nat} {ob : Obj} (imp : Bool) (hc : s.cell o = some ob)
    (hw : ob.weak ≠ 0) :
    (s.decWeakFree o imp).cell o
      = if ob.weak = 1 then none
        else some { ob with weak := ob.weak - 1, freed := false, implicit := ob.implicit && !imp } := by
  rw [cell_of_get (getElem?_decWeakFree_same imp hc hw)]
  by_cases h1 : ob.weak = 1 <;> simp [h1]

theorem isLive_decWeakFree_same {s : State} {o : Nat} {ob : Obj} (imp : Bool) (hc : s.cell o = some ob)
    (hw : ob.weak ≠ 0) :
    (s.decWeakFree o imp).isLive o = (decide (ob.weak ≠ 1) && s.isLive o) := by
  rw [isLive_of_get (getElem?_decWeakFree_same imp hc hw), isLive_of_cell hc]
  by_cases h1 : ob.weak = 1 <;> simp [h1]

theorem isLive_decWeakFree_le (s : State) (o : Nat) (imp : Bool) (x : Nat)
    (h : (s.decWeakFree o imp).isLive x = true) : s.isLive x = true := by
  by_cases hx : x = o
  · subst hx
    cases hc : s.cell x with
    | none => rw [decWeakFree_of_cell_none imp hc] at h; simpa using h
    | some ob =>
      by_cases hw : ob.weak = 0
      · rw [decWeakFree_of_weak_zero imp hc hw] at h; simpa using h
      · rw [isLive_decWeakFree_same imp hc hw] at h; simp at h; exact h.2
  · rwa [isLive_decWeakFree_other s imp hx] at h

/-! #### `decWeakFree`: untouched, unconditionally -/

@[simp] theorem decWeakFree_heap_length (s : State) (o : Nat) (imp : Bool) : (s.decWeakFree o imp).heap.length = s.heap.length := by
  rcases decWeakFree_cases s o imp with ⟨e, h⟩ | ⟨ob, hc, hw, h⟩ | ⟨ob, w, hc, hw, h⟩ <;> rw [h] <;> simp
@[simp] theorem decWeakFree_roots (s : State) (o : Nat) (imp : Bool) : (s.decWeakFree o imp).roots = s.roots := by
  rcases decWeakFree_cases s o imp with ⟨e, h⟩ | ⟨ob, hc, hw, h⟩ | ⟨ob, w, hc, hw, h⟩ <;> rw [h] <;> simp
@[simp] theorem decWeakFree_wroots (s : State) (o : Nat) (imp : Bool) : (s.decWeakFree o imp).wroots = s.wroots := by
  rcases decWeakFree_cases s o imp with ⟨e, h⟩ | ⟨ob, hc, hw, h⟩ | ⟨ob, w, hc, hw, h⟩ <;> rw [h] <;> simp
@[simp] theorem decWeakFree_vals (s : State) (o : Nat) (imp : Bool) : (s.decWeakFree o imp).vals = s.vals := by
  rcases decWeakFree_cases s o imp with ⟨e, h⟩ | ⟨ob, hc, hw, h⟩ | ⟨ob, w, hc, hw, h⟩ <;> rw [h] <;> simp
@[simp] theorem decWeakFree_raws (s : State) (o : Nat) (imp : Bool) : (s.decWeakFree o imp).raws = s.raws := by
  rcases decWeakFree_cases s o imp with ⟨e, h⟩ | ⟨ob, hc, hw, h⟩ | ⟨ob, w, hc, hw, h⟩ <;> rw [h] <;> simp
@[simp] theorem decWeakFree_stack_imp (s : State) (o : Nat) (imp : Bool) : (s.decWeakFree o imp).stack = s.stack := by
  rcases decWeakFree_cases s o imp with ⟨e, h⟩ | ⟨ob, hc, hw, h⟩ | ⟨ob, w, hc, hw, h⟩ <;> rw [h] <;> simp
@[simp] theorem decWeakFree_unwinding (s : State) (o : Nat) (imp : Bool) : (s.decWeakFree o imp).unwinding = s.unwinding := by
  rcases decWeakFree_cases s o imp with ⟨e, h⟩ | ⟨ob, hc, hw, h⟩ | ⟨ob, w, hc, hw, h⟩ <;> rw [h] <;> simp
@[simp] theorem decWeakFree_hint (s : State) (o : Nat) (imp : Bool) : (s.decWeakFree o imp).hint = s.hint := by
  rcases decWeakFree_cases s o imp with ⟨e, h⟩ | ⟨ob, hc, hw, h⟩ | ⟨ob, w, hc, hw, h⟩ <;> rw [h] <;> simp
@[simp] theorem decWeakFree_nextVid (s : State) (o : Nat) (imp : Bool) : (s.decWeakFree o imp).nextVid = s.nextVid := by
  rcases decWeakFree_cases s o imp with ⟨e, h⟩ | ⟨ob, hc, hw, h⟩ | ⟨ob, w, hc, hw, h⟩ <;> rw [h] <;> simp
@[simp] theorem ext_decWeakFree (s : State) (o : Nat) (imp : Bool) (x : Nat) : (s.decWeakFree o imp).ext x = s.ext x := by
  rcases decWeakFree_cases s o imp with ⟨e, h⟩ | ⟨ob, hc, hw, h⟩ | ⟨ob, w, hc, hw, h⟩ <;> rw [h] <;> simp
@[simp] theorem extW_decWeakFree (s : State) (o : Nat) (imp : Bool) (x : Nat) : (s.decWeakFree o imp).extW x = s.extW x := by
  rcases decWeakFree_cases s o imp with ⟨e, h⟩ | ⟨ob, hc, hw, h⟩ | ⟨ob, w, hc, hw, h⟩ <;> rw [h] <;> simp
@[simp] theorem pend_decWeakFree (s : State) (o : Nat) (imp : Bool) (x : Nat) : (s.decWeakFree o imp).pend x = s.pend x := by
  rcases decWeakFree_cases s o imp with ⟨e, h⟩ | ⟨ob, hc, hw, h⟩ | ⟨ob, w, hc, hw, h⟩ <;> rw [h] <;> simp
@[simp] theorem pendW_decWeakFree (s : State) (o : Nat) (imp : Bool) (x : Nat) : (s.decWeakFree o imp).pendW x = s.pendW x := by
  rcases decWeakFree_cases s o imp with ⟨e, h⟩ | ⟨ob, hc, hw, h⟩ | ⟨ob, w, hc, hw, h⟩ <;> rw [h] <;> simp
@[simp] theorem owed_decWeakFree (s : State) (o : Nat) (imp : Bool) (x : Nat) : (s.decWeakFree o imp).owed x = s.owed x := by
  rcases decWeakFree_cases s o imp with ⟨e, h⟩ | ⟨ob, hc, hw, h⟩ | ⟨ob, w, hc, hw, h⟩ <;> rw [h] <;> simp
@[simp] theorem heldOf_decWeakFree (s : State) (o : Nat) (imp : Bool) (x : Nat) : (s.decWeakFree o imp).heldOf x = s.heldOf x := by
  rcases decWeakFree_cases s o imp with ⟨e, h⟩ | ⟨ob, hc, hw, h⟩ | ⟨ob, w, hc, hw, h⟩ <;> rw [h]
  · simp
  · rw [heldOf_emit]; exact heldOf_setObj_of_value_eq (get_of_cell hc) (by rfl) x
  · exact heldOf_setObj_of_value_eq (get_of_cell hc) (by rfl) x
@[simp] theorem weaksOf_decWeakFree (s : State) (o : Nat) (imp : Bool) (x : Nat) : (s.decWeakFree o imp).weaksOf x = s.weaksOf x := by
  rcases decWeakFree_cases s o imp with ⟨e, h⟩ | ⟨ob, hc, hw, h⟩ | ⟨ob, w, hc, hw, h⟩ <;> rw [h]
  · simp
  · rw [weaksOf_emit]; exact weaksOf_setObj_of_value_eq (get_of_cell hc) (by rfl) x
  · exact weaksOf_setObj_of_value_eq (get_of_cell hc) (by rfl) x
@[simp] theorem H_decWeakFree (s : State) (o : Nat) (imp : Bool) (x y : Nat) : (s.decWeakFree o imp).H x y = s.H x y := by
  rcases decWeakFree_cases s o imp with ⟨e, h⟩ | ⟨ob, hc, hw, h⟩ | ⟨ob, w, hc, hw, h⟩ <;> rw [h]
  · simp
  · rw [H_emit]; exact H_setObj_of_value_eq (get_of_cell hc) (by rfl) x y
  · exact H_setObj_of_value_eq (get_of_cell hc) (by rfl) x y
@[simp] theorem inHeap_decWeakFree (s : State) (o : Nat) (imp : Bool) (x : Nat) : (s.decWeakFree o imp).inHeap x = s.inHeap x := by
  rcases decWeakFree_cases s o imp with ⟨e, h⟩ | ⟨ob, hc, hw, h⟩ | ⟨ob, w, hc, hw, h⟩ <;> rw [h]
  · simp
  · rw [inHeap_emit]; exact inHeap_setObj_of_value_eq _ (get_of_cell hc) (by rfl) x
  · exact inHeap_setObj_of_value_eq _ (get_of_cell hc) (by rfl) x
@[simp] theorem inHeapW_decWeakFree (s : State) (o : Nat) (imp : Bool) (x : Nat) : (s.decWeakFree o imp).inHeapW x = s.inHeapW x := by
  rcases decWeakFree_cases s o imp with ⟨e, h⟩ | ⟨ob, hc, hw, h⟩ | ⟨ob, w, hc, hw, h⟩ <;> rw [h]
  · simp
  · rw [inHeapW_emit]; exact inHeapW_setObj_of_value_eq _ (get_of_cell hc) (by rfl) x
  · exact inHeapW_setObj_of_value_eq _ (get_of_cell hc) (by rfl) x
@[simp] theorem strongNat_decWeakFree (s : State) (o : Nat) (imp : Bool) (x : Nat) : (s.decWeakFree o imp).strongNat x = s.strongNat x := by
  rcases decWeakFree_cases s o imp with ⟨e, h⟩ | ⟨ob, hc, hw, h⟩ | ⟨ob, w, hc, hw, h⟩ <;> rw [h]
  · simp
  · rw [strongNat_emit]; exact strongNat_setObj_of_strong_eq (get_of_cell hc) (by rfl) x
  · exact strongNat_setObj_of_strong_eq (get_of_cell hc) (by rfl) x
@[simp] theorem strongOf_decWeakFree (s : State) (o : Nat) (imp : Bool) (x : Nat) : (s.decWeakFree o imp).strongOf x = s.strongOf x := by
  rcases decWeakFree_cases s o imp with ⟨e, h⟩ | ⟨ob, hc, hw, h⟩ | ⟨ob, w, hc, hw, h⟩ <;> rw [h]
  · simp
  · rw [strongOf_emit]; exact strongOf_setObj_of_strong_eq (get_of_cell hc) (by rfl) x
  · exact strongOf_setObj_of_strong_eq (get_of_cell hc) (by rfl) x

/-! ### `modVal`, `valOf` -/

theorem valOf_of_cell {s : State} {o : Nat} {ob : Obj} (hc : s.cell o = some ob) : s.valOf o = ob.value := by
  simp [valOf, hc]

theorem valOf_of_cell_none {s : State} {o : Nat} (hc : s.cell o = none) : s.valOf o = none := by
  simp [valOf, hc]

theorem valOf_eq_some_iff (s : State) (o : Nat) (v : Val) :
    s.valOf o = some v ↔ ∃ ob, s.cell o = some ob ∧ ob.value = some v := by
  cases hc : s.cell o with
  | none => simp [valOf_of_cell_none hc]
  | some ob => simp [valOf_of_cell hc]

theorem heldOf_of_valOf {s : State} {o : Nat} {v : Val} (h : s.valOf o = some v) : s.heldOf o = v.held := by
  obtain ⟨ob, hc, hv⟩ := (valOf_eq_some_iff s o v).mp h
  rw [heldOf_of_get (get_of_cell hc), Obj.heldList_of_some hv]

theorem weaksOf_of_valOf {s : State} {o : Nat} {v : Val} (h : s.valOf o = some v) : s.weaksOf o = v.weaks := by
  obtain ⟨ob, hc, hv⟩ := (valOf_eq_some_iff s o v).mp h
  rw [weaksOf_of_get (get_of_cell hc), Obj.weakList_of_some hv]

theorem modVal_eq {s : State} {o : Nat} {ob : Obj} {v : Val} (f : Val → Val) (hc : s.cell o = some ob)
    (hv : ob.value = some v) : s.modVal o f = s.setObj o { ob with value := some (f v) } := by
  simp [modVal, hc, hv]

theorem modVal_of_cell_none {s : State} {o : Nat} (f : Val → Val) (hc : s.cell o = none) :
    s.modVal o f = s.fail (.uaf o) := by
  simp [modVal, hc]

theorem modVal_of_value_none {s : State} {o : Nat} {ob : Obj} (f : Val → Val) (hc : s.cell o = some ob)
    (hv : ob.value = none) : s.modVal o f = s.fail (.movedValue o) := by
  simp [modVal, hc, hv]

theorem modVal_of_valOf {s : State} {o : Nat} {v : Val} (f : Val → Val) (h : s.valOf o = some v) :
    ∃ ob, s.cell o = some ob ∧ ob.value = some v ∧ s.modVal o f = s.setObj o { ob with value := some (f v) } := by
  obtain ⟨ob, hc, hv⟩ := (valOf_eq_some_iff s o v).mp h
  exact ⟨ob, hc, hv, modVal_eq f hc hv⟩

theorem modVal_cases (s : State) (o : Nat) (f : Val → Val) :
    (∃ e, s.modVal o f = s.fail e) ∨
    (∃ ob v, s.cell o = some ob ∧ ob.value = some v ∧ s.modVal o f = s.setObj o { ob with value := some (f v) }) := by
  cases hc : s.cell o with
  | none => exact Or.inl ⟨_, modVal_of_cell_none f hc⟩
  | some ob =>
    cases hv : ob.value with
    | none => exact Or.inl ⟨_, modVal_of_value_none f hc hv⟩
    | some v => exact Or.inr ⟨ob, v, rfl, hv, modVal_eq f hc hv⟩

theorem modVal_err {s : State} {o : Nat} {v : Val} (f : Val → Val) (h : s.valOf o = some v) :
    (s.modVal o f).err = s.err := by
  obtain ⟨ob, _, _, he⟩ := modVal_of_valOf f h
  rw [he]; rfl

theorem modVal_err_eq_none_iff (s : State) (o : Nat) (f : Val → Val) :
    (s.modVal o f).err = none ↔ s.err = none ∧ (s.valOf o).isSome = true := by
  cases hv : s.valOf o with
  | some v => simp [modVal_err f hv]
  | none =>
    have : ∃ e, s.modVal o f = s.fail e := by
      rcases modVal_cases s o f with h | ⟨ob, v, hc, hv', _⟩
      · exact h
      · rw [valOf_of_cell hc, hv'] at hv; cases hv
    obtain ⟨e, he⟩ := this
    simp [he, fail_err_ne_none]

theorem valOf_modVal_same {s : State} {o : Nat} {v : Val} (f : Val → Val) (h : s.valOf o = some v) :
    (s.modVal o f).valOf o = some (f v) := by
  obtain ⟨ob, hc, hv, he⟩ := modVal_of_valOf f h
  rw [he, valOf, cell_setObj_same' _ (cell_some_lt s o ob hc)]
  simp [freed_of_cell hc]

theorem heldOf_modVal_same {s : State} {o : Nat} {v : Val} (f : Val → Val) (h : s.valOf o = some v) :
    (s.modVal o f).heldOf o = (f v).held := heldOf_of_valOf (valOf_modVal_same f h)

theorem weaksOf_modVal_same {s : State} {o : Nat} {v : Val} (f : Val → Val) (h : s.valOf o = some v) :
    (s.modVal o f).weaksOf o = (f v).weaks := weaksOf_of_valOf (valOf_modVal_same f h)

theorem cell_modVal_other (s : State) {o x : Nat} (f : Val → Val) (h : x ≠ o) :
    (s.modVal o f).cell x = s.cell x := by
  rcases modVal_cases s o f with ⟨e, he⟩ | ⟨ob, v, hc, hv, he⟩ <;> rw [he]
  · simp
  · exact cell_setObj_other' s _ h

theorem heldOf_modVal_other (s : State) {o x : Nat} (f : Val → Val) (h : x ≠ o) :
    (s.modVal o f).heldOf x = s.heldOf x := by
  rcases modVal_cases s o f with ⟨e, he⟩ | ⟨ob, v, hc, hv, he⟩ <;> rw [he]
  · simp
  · exact heldOf_setObj_other s _ h

theorem weaksOf_modVal_other (s : State) {o x : Nat} (f : Val → Val) (h : x ≠ o) :
    (s.modVal o f).weaksOf x = s.weaksOf x := by
  rcases modVal_cases s o f with ⟨e, he⟩ | ⟨ob, v, hc, hv, he⟩ <;> rw [he]
  · simp
  · exact weaksOf_setObj_other s _ h

theorem valOf_modVal_other (s : State) {o x : Nat} (f : Val → Val) (h : x ≠ o) :
    (s.modVal o f).valOf x = s.valOf x := by
  simp only [valOf, cell_modVal_other s f h]

theorem H_modVal_other (s : State) {o x : Nat} (f : Val → Val) (h : x ≠ o) (t : Nat) :
    (s.modVal o f).H x t = s.H x t := by
  simp only [H, heldOf_modVal_other s f h]

theorem inHeap_modVal {s : State} {o : Nat} {v : Val} (f : Val → Val) (h : s.valOf o = some v) (t : Nat) :
    (s.modVal o f).inHeap t + v.held.count t = s.inHeap t + (f v).held.count t := by
  obtain ⟨ob, hc, hv, he⟩ := modVal_of_valOf f h
  rw [he]; exact inHeap_setObj_replace _ (get_of_cell hc) hv rfl t

theorem inHeapW_modVal {s : State} {o : Nat} {v : Val} (f : Val → Val) (h : s.valOf o = some v) (t : Nat) :
    (s.modVal o f).inHeapW t + v.weaks.count t = s.inHeapW t + (f v).weaks.count t := by
  obtain ⟨ob, hc, hv, he⟩ := modVal_of_valOf f h
  rw [he]; exact inHeapW_setObj_replace _ (get_of_cell hc) hv rfl t

/-- updates that keep the handle lists (`setScript`, `setPanic`) -/
theorem inHeap_modVal_of_held_eq (s : State) (o : Nat) (f : Val → Val) (hf : ∀ v, (f v).held = v.held) (t : Nat) :
    (s.modVal o f).inHeap t = s.inHeap t := by
  cases hv : s.valOf o with
  | some v => have := inHeap_modVal f hv t; rw [hf v] at this; omega
  | none =>
    rcases modVal_cases s o f with ⟨e, he⟩ | ⟨ob, v, hc, hv', _⟩
    · rw [he]; simp
    · rw [valOf_of_cell hc, hv'] at hv; cases hv

theorem inHeapW_modVal_of_weaks_eq (s : State) (o : Nat) (f : Val → Val) (hf : ∀ v, (f v).weaks = v.weaks) (t : Nat) :
    (s.modVal o f).inHeapW t = s.inHeapW t := by
  cases hv : s.valOf o with
  | some v => have := inHeapW_modVal f hv t; rw [hf v] at this; omega
  | none =>
    rcases modVal_cases s o f with ⟨e, he⟩ | ⟨ob, v, hc, hv', _⟩
    · rw [he]; simp
    · rw [valOf_of_cell hc, hv'] at hv; cases hv

/-! #### `modVal`: untouched, unconditionally -/

@[simp] theorem modVal_heap_length (s : State) (o : Nat) (f : Val → Val) : (s.modVal o f).heap.length = s.heap.length := by
  rcases modVal_cases s o f with ⟨e, h⟩ | ⟨ob, v, hc, hv, h⟩ <;> rw [h] <;> simp
@[simp] theorem modVal_roots (s : State) (o : Nat) (f : Val → Val) : (s.modVal o f).roots = s.roots := by
  rcases modVal_cases s o f with ⟨e, h⟩ | ⟨ob, v, hc, hv, h⟩ <;> rw [h] <;> simp
@[simp] theorem modVal_wroots (s : State) (o : Nat) (f : Val → Val) : (s.modVal o f).wroots = s.wroots := by
  rcases modVal_cases s o f with ⟨e, h⟩ | ⟨ob, v, hc, hv, h⟩ <;> rw [h] <;> simp
@[simp] theorem modVal_vals (s : State) (o : Nat) (f : Val → Val) : (s.modVal o f).vals = s.vals := by
  rcases modVal_cases s o f with ⟨e, h⟩ | ⟨ob, v, hc, hv, h⟩ <;> rw [h] <;> simp
@[simp] theorem modVal_raws (s : State) (o : Nat) (f : Val → Val) : (s.modVal o f).raws = s.raws := by
  rcases modVal_cases s o f with ⟨e, h⟩ | ⟨ob, v, hc, hv, h⟩ <;> rw [h] <;> simp
@[simp] theorem modVal_stack (s : State) (o : Nat) (f : Val → Val) : (s.modVal o f).stack = s.stack := by
  rcases modVal_cases s o f with ⟨e, h⟩ | ⟨ob, v, hc, hv, h⟩ <;> rw [h] <;> simp
@[simp] theorem modVal_unwinding (s : State) (o : Nat) (f : Val → Val) : (s.modVal o f).unwinding = s.unwinding := by
  rcases modVal_cases s o f with ⟨e, h⟩ | ⟨ob, v, hc, hv, h⟩ <;> rw [h] <;> simp
@[simp] theorem modVal_hint (s : State) (o : Nat) (f : Val → Val) : (s.modVal o f).hint = s.hint := by
  rcases modVal_cases s o f with ⟨e, h⟩ | ⟨ob, v, hc, hv, h⟩ <;> rw [h] <;> simp
@[simp] theorem modVal_nextVid (s : State) (o : Nat) (f : Val → Val) : (s.modVal o f).nextVid = s.nextVid := by
  rcases modVal_cases s o f with ⟨e, h⟩ | ⟨ob, v, hc, hv, h⟩ <;> rw [h] <;> simp
@[simp] theorem ext_modVal (s : State) (o : Nat) (f : Val → Val) (x : Nat) : (s.modVal o f).ext x = s.ext x := by
  rcases modVal_cases s o f with ⟨e, h⟩ | ⟨ob, v, hc, hv, h⟩ <;> rw [h] <;> simp
@[simp] theorem extW_modVal (s : State) (o : Nat) (f : Val → Val) (x : Nat) : (s.modVal o f).extW x = s.extW x := by
  rcases modVal_cases s o f with ⟨e, h⟩ | ⟨ob, v, hc, hv, h⟩ <;> rw [h] <;> simp
@[simp] theorem pend_modVal (s : State) (o : Nat) (f : Val → Val) (x : Nat) : (s.modVal o f).pend x = s.pend x := by
  rcases modVal_cases s o f with ⟨e, h⟩ | ⟨ob, v, hc, hv, h⟩ <;> rw [h] <;> simp
@[simp] theorem pendW_modVal (s : State) (o : Nat) (f : Val → Val) (x : Nat) : (s.modVal o f).pendW x = s.pendW x := by
  rcases modVal_cases s o f with ⟨e, h⟩ | ⟨ob, v, hc, hv, h⟩ <;> rw [h] <;> simp
@[simp] theorem owed_modVal (s : State) (o : Nat) (f : Val → Val) (x : Nat) : (s.modVal o f).owed x = s.owed x := by
  rcases modVal_cases s o f with ⟨e, h⟩ | ⟨ob, v, hc, hv, h⟩ <;> rw [h] <;> simp
@[simp] theorem strongNat_modVal (s : State) (o : Nat) (f : Val → Val) (x : Nat) : (s.modVal o f).strongNat x = s.strongNat x := by
  rcases modVal_cases s o f with ⟨e, h⟩ | ⟨ob, v, hc, hv, h⟩ <;> rw [h]
  · simp
  · exact strongNat_setObj_of_strong_eq (get_of_cell hc) (by rfl) x
@[simp] theorem strongOf_modVal (s : State) (o : Nat) (f : Val → Val) (x : Nat) : (s.modVal o f).strongOf x = s.strongOf x := by
  rcases modVal_cases s o f with ⟨e, h⟩ | ⟨ob, v, hc, hv, h⟩ <;> rw [h]
  · simp
  · exact strongOf_setObj_of_strong_eq (get_of_cell hc) (by rfl) x
@[simp] theorem weakNat_modVal (s : State) (o : Nat) (f : Val → Val) (x : Nat) : (s.modVal o f).weakNat x = s.weakNat x := by
  rcases modVal_cases s o f with ⟨e, h⟩ | ⟨ob, v, hc, hv, h⟩ <;> rw [h]
  · simp
  · exact weakNat_setObj_of_weak_eq (get_of_cell hc) (by rfl) x
@[simp] theorem implicitNat_modVal (s : State) (o : Nat) (f : Val → Val) (x : Nat) : (s.modVal o f).implicitNat x = s.implicitNat x := by
  rcases modVal_cases s o f with ⟨e, h⟩ | ⟨ob, v, hc, hv, h⟩ <;> rw [h]
  · simp
  · exact implicitNat_setObj_of_implicit_eq (get_of_cell hc) (by rfl) x
@[simp] theorem isLive_modVal (s : State) (o : Nat) (f : Val → Val) (x : Nat) : (s.modVal o f).isLive x = s.isLive x := by
  rcases modVal_cases s o f with ⟨e, h⟩ | ⟨ob, v, hc, hv, h⟩ <;> rw [h]
  · simp
  · exact isLive_setObj_of_eq (get_of_cell hc) (by rfl) (by rfl) x
@[simp] theorem tableOf_modVal (s : State) (o : Nat) (f : Val → Val) (x : Nat) : (s.modVal o f).tableOf x = s.tableOf x := by
  rcases modVal_cases s o f with ⟨e, h⟩ | ⟨ob, v, hc, hv, h⟩ <;> rw [h]
  · simp
  · exact tableOf_setObj_of_links_eq (get_of_cell hc) (by rfl) (by rfl) x
@[simp] theorem tbl_modVal (s : State) (o : Nat) (f : Val → Val) (x : Nat) : (s.modVal o f).tbl x = s.tbl x := by
  rcases modVal_cases s o f with ⟨e, h⟩ | ⟨ob, v, hc, hv, h⟩ <;> rw [h]
  · simp
  · exact tbl_setObj_of_links_eq (get_of_cell hc) (by rfl) (by rfl) x
@[simp] theorem F_modVal (s : State) (o : Nat) (f : Val → Val) (x y : Nat) : (s.modVal o f).F x y = s.F x y := by
  rcases modVal_cases s o f with ⟨e, h⟩ | ⟨ob, v, hc, hv, h⟩ <;> rw [h]
  · simp
  · exact F_setObj_of_links_eq (get_of_cell hc) (by rfl) (by rfl) x y
@[simp] theorem B_modVal (s : State) (o : Nat) (f : Val → Val) (x y : Nat) : (s.modVal o f).B x y = s.B x y := by
  rcases modVal_cases s o f with ⟨e, h⟩ | ⟨ob, v, hc, hv, h⟩ <;> rw [h]
  · simp
  · exact B_setObj_of_links_eq (get_of_cell hc) (by rfl) (by rfl) x y

/-! ### `log` is untouched by the operations that do not emit -/

@[simp] theorem setStrong_log (s : State) (o : Nat) (st : Strong) : (s.setStrong o st).log = s.log := by
  rcases setStrong_cases s o st with ⟨e, h⟩ | ⟨ob, hc, h⟩ <;> rw [h] <;> simp
@[simp] theorem incStrong_log (s : State) (o : Nat) : (s.incStrong o).log = s.log := by
  rcases incStrong_cases s o with ⟨e, h⟩ | ⟨ob, n, hc, hs, h⟩ <;> rw [h] <;> simp
@[simp] theorem incWeak_log (s : State) (o : Nat) : (s.incWeak o).log = s.log := by
  rcases incWeak_cases s o with ⟨e, h⟩ | ⟨ob, hc, hw, h⟩ <;> rw [h] <;> simp
@[simp] theorem modVal_log (s : State) (o : Nat) (f : Val → Val) : (s.modVal o f).log = s.log := by
  rcases modVal_cases s o f with ⟨e, h⟩ | ⟨ob, v, hc, hv, h⟩ <;> rw [h] <;> simp

end State
end Cactus

namespace Cactus

/-! ## J. Selectors (`nthMod`, `idxMod`, `useRoot`, `badRoot`): bridge to sections D and B -/

theorem getElem?_idxMod_of_nthMod {α : Type} {l : List α} {i : Nat} {a : α} (h : nthMod l i = some a) :
    l[idxMod l i]? = some a := by
  cases l with
  | nil => simp [nthMod] at h
  | cons b l => simpa [nthMod, idxMod] using h

theorem nthMod_eq_getElem?_idxMod {α : Type} (l : List α) (i : Nat) (h : l ≠ []) :
    nthMod l i = l[idxMod l i]? := by
  cases l with
  | nil => exact absurd rfl h
  | cons b l => rfl

theorem idxMod_lt_of_nthMod {α : Type} {l : List α} {i : Nat} {a : α} (h : nthMod l i = some a) :
    idxMod l i < l.length :=
  (List.getElem?_eq_some_iff.mp (getElem?_idxMod_of_nthMod h)).1

theorem mem_of_nthMod {α : Type} {l : List α} {i : Nat} {a : α} (h : nthMod l i = some a) : a ∈ l :=
  List.mem_of_getElem? (getElem?_idxMod_of_nthMod h)

@[simp] theorem nthMod_nil {α : Type} (i : Nat) : nthMod ([] : List α) i = none := rfl

namespace State

theorem useRoot_eq_some_iff (s : State) (r o : Nat) :
    s.useRoot r = some o ↔ nthMod s.roots r = some o ∧ s.isLive o = true := by
  unfold useRoot
  cases h : nthMod s.roots r with
  | none => simp
  | some o' =>
    by_cases hl : s.isLive o' = true
    · simp only [hl, if_true, Option.some.injEq]
      constructor
      · rintro rfl; exact ⟨rfl, hl⟩
      · rintro ⟨rfl, _⟩; rfl
    · simp only [hl, Option.some.injEq]
      constructor
      · intro h'; cases h'
      · rintro ⟨rfl, h'⟩; exact absurd h' hl

theorem useRoot_some {s : State} {r o : Nat} (h : s.useRoot r = some o) :
    s.roots[idxMod s.roots r]? = some o ∧ s.isLive o = true :=
  ⟨getElem?_idxMod_of_nthMod ((useRoot_eq_some_iff s r o).mp h).1, ((useRoot_eq_some_iff s r o).mp h).2⟩

theorem ext_pos_of_useRoot {s : State} {r o : Nat} (h : s.useRoot r = some o) : 0 < s.ext o :=
  ext_pos_of_mem_roots (mem_of_nthMod ((useRoot_eq_some_iff s r o).mp h).1)

/-- `badRoot` is `s` itself or a failure -/
theorem badRoot_cases (s : State) (r : Nat) : s.badRoot r = s ∨ ∃ e, s.badRoot r = s.fail e := by
  unfold badRoot
  split
  · split
    · exact Or.inl rfl
    · exact Or.inr ⟨_, rfl⟩
  · exact Or.inl rfl

/-- when no usable root is selected and the state has no error yet, `badRoot` leaves the state alone
only if the selector is out of range -/
theorem badRoot_of_useRoot_none {s : State} {r : Nat} (h : s.useRoot r = none) :
    s.badRoot r = s ∨ ∃ o, s.badRoot r = s.fail (.dangling o) := by
  unfold useRoot at h
  unfold badRoot
  cases hn : nthMod s.roots r with
  | none => exact Or.inl rfl
  | some o =>
    rw [hn] at h
    by_cases hl : s.isLive o = true
    · simp [hl] at h
    · simp only [hl]; exact Or.inr ⟨o, rfl⟩

/-! ### `badRoot` touches nothing but `err` -/

@[simp] theorem badRoot_heap (s : State) (r : Nat) : (s.badRoot r).heap = s.heap := by
  rcases badRoot_cases s r with h | ⟨e, h⟩ <;> rw [h] <;> simp
@[simp] theorem badRoot_roots (s : State) (r : Nat) : (s.badRoot r).roots = s.roots := by
  rcases badRoot_cases s r with h | ⟨e, h⟩ <;> rw [h] <;> simp
@[simp] theorem badRoot_wroots (s : State) (r : Nat) : (s.badRoot r).wroots = s.wroots := by
  rcases badRoot_cases s r with h | ⟨e, h⟩ <;> rw [h] <;> simp
@[simp] theorem badRoot_vals (s : State) (r : Nat) : (s.badRoot r).vals = s.vals := by
  rcases badRoot_cases s r with h | ⟨e, h⟩ <;> rw [h] <;> simp
@[simp] theorem badRoot_raws (s : State) (r : Nat) : (s.badRoot r).raws = s.raws := by
  rcases badRoot_cases s r with h | ⟨e, h⟩ <;> rw [h] <;> simp
@[simp] theorem badRoot_stack (s : State) (r : Nat) : (s.badRoot r).stack = s.stack := by
  rcases badRoot_cases s r with h | ⟨e, h⟩ <;> rw [h] <;> simp
@[simp] theorem badRoot_unwinding (s : State) (r : Nat) : (s.badRoot r).unwinding = s.unwinding := by
  rcases badRoot_cases s r with h | ⟨e, h⟩ <;> rw [h] <;> simp
@[simp] theorem badRoot_hint (s : State) (r : Nat) : (s.badRoot r).hint = s.hint := by
  rcases badRoot_cases s r with h | ⟨e, h⟩ <;> rw [h] <;> simp
@[simp] theorem badRoot_nextVid (s : State) (r : Nat) : (s.badRoot r).nextVid = s.nextVid := by
  rcases badRoot_cases s r with h | ⟨e, h⟩ <;> rw [h] <;> simp
@[simp] theorem badRoot_log (s : State) (r : Nat) : (s.badRoot r).log = s.log := by
  rcases badRoot_cases s r with h | ⟨e, h⟩ <;> rw [h] <;> simp
@[simp] theorem cell_badRoot (s : State) (r : Nat) (x : Nat) : (s.badRoot r).cell x = s.cell x := by
  rcases badRoot_cases s r with h | ⟨e, h⟩ <;> rw [h] <;> simp
@[simp] theorem tableOf_badRoot (s : State) (r : Nat) (x : Nat) : (s.badRoot r).tableOf x = s.tableOf x := by
  rcases badRoot_cases s r with h | ⟨e, h⟩ <;> rw [h] <;> simp
@[simp] theorem tbl_badRoot (s : State) (r : Nat) (x : Nat) : (s.badRoot r).tbl x = s.tbl x := by
  rcases badRoot_cases s r with h | ⟨e, h⟩ <;> rw [h] <;> simp
@[simp] theorem isLive_badRoot (s : State) (r : Nat) (x : Nat) : (s.badRoot r).isLive x = s.isLive x := by
  rcases badRoot_cases s r with h | ⟨e, h⟩ <;> rw [h] <;> simp
@[simp] theorem strongOf_badRoot (s : State) (r : Nat) (x : Nat) : (s.badRoot r).strongOf x = s.strongOf x := by
  rcases badRoot_cases s r with h | ⟨e, h⟩ <;> rw [h] <;> simp
@[simp] theorem heldOf_badRoot (s : State) (r : Nat) (x : Nat) : (s.badRoot r).heldOf x = s.heldOf x := by
  rcases badRoot_cases s r with h | ⟨e, h⟩ <;> rw [h] <;> simp
@[simp] theorem weaksOf_badRoot (s : State) (r : Nat) (x : Nat) : (s.badRoot r).weaksOf x = s.weaksOf x := by
  rcases badRoot_cases s r with h | ⟨e, h⟩ <;> rw [h] <;> simp
@[simp] theorem ext_badRoot (s : State) (r : Nat) (x : Nat) : (s.badRoot r).ext x = s.ext x := by
  rcases badRoot_cases s r with h | ⟨e, h⟩ <;> rw [h] <;> simp
@[simp] theorem extW_badRoot (s : State) (r : Nat) (x : Nat) : (s.badRoot r).extW x = s.extW x := by
  rcases badRoot_cases s r with h | ⟨e, h⟩ <;> rw [h] <;> simp
@[simp] theorem pend_badRoot (s : State) (r : Nat) (x : Nat) : (s.badRoot r).pend x = s.pend x := by
  rcases badRoot_cases s r with h | ⟨e, h⟩ <;> rw [h] <;> simp
@[simp] theorem pendW_badRoot (s : State) (r : Nat) (x : Nat) : (s.badRoot r).pendW x = s.pendW x := by
  rcases badRoot_cases s r with h | ⟨e, h⟩ <;> rw [h] <;> simp
@[simp] theorem owed_badRoot (s : State) (r : Nat) (x : Nat) : (s.badRoot r).owed x = s.owed x := by
  rcases badRoot_cases s r with h | ⟨e, h⟩ <;> rw [h] <;> simp
@[simp] theorem inHeap_badRoot (s : State) (r : Nat) (x : Nat) : (s.badRoot r).inHeap x = s.inHeap x := by
  rcases badRoot_cases s r with h | ⟨e, h⟩ <;> rw [h] <;> simp
@[simp] theorem inHeapW_badRoot (s : State) (r : Nat) (x : Nat) : (s.badRoot r).inHeapW x = s.inHeapW x := by
  rcases badRoot_cases s r with h | ⟨e, h⟩ <;> rw [h] <;> simp
@[simp] theorem strongNat_badRoot (s : State) (r : Nat) (x : Nat) : (s.badRoot r).strongNat x = s.strongNat x := by
  rcases badRoot_cases s r with h | ⟨e, h⟩ <;> rw [h] <;> simp
@[simp] theorem weakNat_badRoot (s : State) (r : Nat) (x : Nat) : (s.badRoot r).weakNat x = s.weakNat x := by
  rcases badRoot_cases s r with h | ⟨e, h⟩ <;> rw [h] <;> simp
@[simp] theorem implicitNat_badRoot (s : State) (r : Nat) (x : Nat) : (s.badRoot r).implicitNat x = s.implicitNat x := by
  rcases badRoot_cases s r with h | ⟨e, h⟩ <;> rw [h] <;> simp
@[simp] theorem H_badRoot (s : State) (r : Nat) (x y : Nat) : (s.badRoot r).H x y = s.H x y := by
  rcases badRoot_cases s r with h | ⟨e, h⟩ <;> rw [h] <;> simp
@[simp] theorem F_badRoot (s : State) (r : Nat) (x y : Nat) : (s.badRoot r).F x y = s.F x y := by
  rcases badRoot_cases s r with h | ⟨e, h⟩ <;> rw [h] <;> simp
@[simp] theorem B_badRoot (s : State) (r : Nat) (x y : Nat) : (s.badRoot r).B x y = s.B x y := by
  rcases badRoot_cases s r with h | ⟨e, h⟩ <;> rw [h] <;> simp

end State
end Cactus
