import Cactus.Lemmas.Final
import Cactus.Spec.Std
/-!
# C07 — simulation: without adoptions the machine is `std::rc`
-/
namespace Cactus
open State

/-! ## Erasure -/

def Obj.erase (ob : Obj) : SObj :=
  { strong := match ob.strong with | .cnt n => n | .uninit => 0,
    weak := ob.weak, value := ob.value, freed := ob.freed }

def State.erase (s : State) : SState :=
  { heap := s.heap.map Obj.erase, roots := s.roots, wroots := s.wroots, vals := s.vals, raws := s.raws,
    stack := s.stack, log := s.log, err := s.err, unwinding := s.unwinding, hint := s.hint,
    nextVid := s.nextVid }

namespace Sim

@[simp] theorem erase_weak (ob : Obj) : ob.erase.weak = ob.weak := rfl
@[simp] theorem erase_value (ob : Obj) : ob.erase.value = ob.value := rfl
@[simp] theorem erase_freed (ob : Obj) : ob.erase.freed = ob.freed := rfl

@[simp] theorem e_heap (s : State) : s.erase.heap = s.heap.map Obj.erase := rfl
@[simp] theorem e_roots (s : State) : s.erase.roots = s.roots := rfl
@[simp] theorem e_wroots (s : State) : s.erase.wroots = s.wroots := rfl
@[simp] theorem e_vals (s : State) : s.erase.vals = s.vals := rfl
@[simp] theorem e_raws (s : State) : s.erase.raws = s.raws := rfl
@[simp] theorem e_stack (s : State) : s.erase.stack = s.stack := rfl
@[simp] theorem e_log (s : State) : s.erase.log = s.log := rfl
@[simp] theorem e_err (s : State) : s.erase.err = s.err := rfl
@[simp] theorem e_unwinding (s : State) : s.erase.unwinding = s.unwinding := rfl
@[simp] theorem e_hint (s : State) : s.erase.hint = s.hint := rfl
@[simp] theorem e_nextVid (s : State) : s.erase.nextVid = s.nextVid := rfl

/-- fold a structure literal over an erased heap back into an erased state -/
@[simp] theorem mk_erase (h : List Obj) (r w : List Nat) (v : List Val) (ra : List Nat) (st : List Frame)
    (l : List Ev) (e : Option Err) (u : Bool) (hi : List Nat) (n : Nat) :
    SState.mk (h.map Obj.erase) r w v ra st l e u hi n = State.erase (State.mk h r w v ra st l e u hi n) := rfl

@[simp] theorem e_fail (s : State) (e : Err) : s.erase.fail e = (s.fail e).erase := by
  unfold SState.fail State.fail
  cases h : s.err <;> simp [h] <;> rfl

@[simp] theorem e_emit (s : State) (e : Ev) : s.erase.emit e = (s.emit e).erase := rfl
@[simp] theorem e_push (s : State) (fs : List Frame) : s.erase.push fs = (s.push fs).erase := rfl

@[simp] theorem e_setObj (s : State) (o : Nat) (ob : Obj) :
    s.erase.setObj o ob.erase = (s.setObj o ob).erase := by
  unfold SState.setObj State.setObj State.erase
  simp only [List.map_set]

@[simp] theorem e_cell (s : State) (o : Nat) : s.erase.cell o = (s.cell o).map Obj.erase := by
  unfold SState.cell State.cell
  simp only [e_heap, List.getElem?_map]
  cases s.heap[o]? with
  | none => rfl
  | some ob => simp only [Option.map_some, erase_freed]; split <;> simp [*]

theorem isDead_iff (ob : Obj) : ob.strong.isDead = (ob.erase.strong == 0) := by
  unfold Obj.erase
  cases h : ob.strong with
  | uninit => rfl
  | cnt n => cases n <;> simp [Strong.isDead]

@[simp] theorem e_isLive (s : State) (o : Nat) : s.erase.isLive o = s.isLive o := by
  unfold SState.isLive State.isLive
  simp only [e_heap, List.getElem?_map]
  cases s.heap[o]? with
  | none => rfl
  | some ob => simp [isDead_iff]

@[simp] theorem e_useRoot (s : State) (r : Nat) : s.erase.useRoot r = s.useRoot r := by
  unfold SState.useRoot State.useRoot
  simp only [e_roots, e_isLive]
  cases nthMod s.roots r <;> rfl

@[simp] theorem e_badRoot (s : State) (r : Nat) : s.erase.badRoot r = (s.badRoot r).erase := by
  unfold SState.badRoot State.badRoot
  simp only [e_roots, e_isLive, e_fail]
  cases h : nthMod s.roots r with
  | none => rfl
  | some o => simp only []; split <;> rfl

@[simp] theorem e_incStrong (s : State) (o : Nat) : s.erase.incStrong o = (s.incStrong o).erase := by
  unfold SState.incStrong State.incStrong
  rw [e_cell]
  cases hc : s.cell o with
  | none => simp
  | some ob =>
    obtain ⟨st, w, l, v, f, i⟩ := ob
    cases st with
    | uninit => simp [Obj.erase]
    | cnt n =>
      cases n with
      | zero => simp [Obj.erase]
      | succ n => simp [Obj.erase]; rw [← e_setObj]; rfl

@[simp] theorem e_incWeak (s : State) (o : Nat) : s.erase.incWeak o = (s.incWeak o).erase := by
  unfold SState.incWeak State.incWeak
  rw [e_cell]
  cases hc : s.cell o with
  | none => simp
  | some ob =>
    simp only [Option.map_some, erase_weak]
    by_cases hw : ob.weak = 0
    · simp [hw]
    · simp only [hw, if_false]; rw [← e_setObj]; rfl

@[simp] theorem e_decWeakFree (s : State) (o : Nat) (imp : Bool) :
    s.erase.decWeakFree o = (s.decWeakFree o imp).erase := by
  unfold SState.decWeakFree State.decWeakFree
  rw [e_cell]
  cases hc : s.cell o with
  | none => simp
  | some ob =>
    obtain ⟨st, w, l, v, f, i⟩ := ob
    match w with
    | 0 => simp [Obj.erase]
    | 1 => simp [Obj.erase]; rw [← e_emit, ← e_setObj]; rfl
    | w + 2 => rw [← e_setObj]; rfl

@[simp] theorem e_weakDrop (s : State) (o : Nat) : s.erase.weakDrop o = (s.weakDrop o).erase := by
  exact e_decWeakFree s o false

@[simp] theorem e_modVal (s : State) (o : Nat) (f : Val → Val) : s.erase.modVal o f = (s.modVal o f).erase := by
  unfold SState.modVal State.modVal
  rw [e_cell]
  cases hc : s.cell o with
  | none => simp
  | some ob =>
    obtain ⟨st, w, l, v, fr, i⟩ := ob
    cases v with
    | none => simp [Obj.erase]
    | some v => simp [Obj.erase]; rw [← e_setObj]; rfl

@[simp] theorem e_valOf (s : State) (o : Nat) : s.erase.valOf o = s.valOf o := by
  unfold SState.valOf State.valOf
  rw [e_cell]
  cases hc : s.cell o <;> simp

@[simp] theorem e_alloc (s : State) (v : Val) : s.erase.alloc v = (s.alloc v).erase := by
  unfold SState.alloc State.alloc State.erase
  simp [Obj.erase]

theorem e_foldl_incStrong (l : List Nat) (s : State) :
    l.foldl SState.incStrong s.erase = (l.foldl State.incStrong s).erase := by
  induction l generalizing s with
  | nil => rfl
  | cons a l ih => simp only [List.foldl_cons, e_incStrong, ih]

theorem e_foldl_incWeak (l : List Nat) (s : State) :
    l.foldl SState.incWeak s.erase = (l.foldl State.incWeak s).erase := by
  induction l generalizing s with
  | nil => rfl
  | cons a l ih => simp only [List.foldl_cons, e_incWeak, ih]

@[simp] theorem e_cloneHandles (s : State) (v : Val) : s.erase.cloneHandles v = (s.cloneHandles v).erase := by
  unfold SState.cloneHandles State.cloneHandles
  rw [e_foldl_incStrong, e_foldl_incWeak]

@[simp] theorem e_dropVal (s : State) (v : Val) : s.erase.dropVal v = (s.dropVal v).erase := rfl

@[simp] theorem e_panic (s : State) : s.erase.panic = s.panic.erase := by
  unfold SState.panic State.panic
  simp only [e_unwinding, e_fail]
  split <;> rfl

@[simp] theorem e_dropFields (s : State) (h w : List Nat) : s.erase.dropFields h w = (s.dropFields h w).erase := by
  cases h with
  | cons a h => rfl
  | nil => cases w <;> rfl

theorem setObj_self (s : State) (o : Nat) (ob : Obj) (h : s.heap[o]? = some ob) : s.setObj o ob = s := by
  have : s.heap.set o ob = s.heap := by
    apply List.ext_getElem?
    intro i
    by_cases hi : o = i
    · subst hi
      rw [List.getElem?_set_self (List.getElem?_eq_some_iff.mp h).1, h]
    · rw [List.getElem?_set_ne hi]
  unfold State.setObj
  rw [this]

theorem setObj_setObj (s : State) (o : Nat) (a b : Obj) : (s.setObj o a).setObj o b = s.setObj o b := by
  unfold State.setObj
  simp [List.set_set]

theorem fail_fail (s : State) (e e' : Err) : (s.fail e).fail e' = s.fail e := by
  unfold State.fail
  cases h : s.err <;> simp [h]

theorem purgePeers_nolinks (s : State) (o : Nat) (ob : Obj) (hc : s.cell o = some ob)
    (hl : ob.links = some []) : s.purgePeers o = s := by
  unfold State.purgePeers State.tableOf State.setLinks
  simp only [hc, hl, List.foldl_nil]
  obtain ⟨st, w, l, v, f, i⟩ := ob
  cases hl
  exact setObj_self s o _ (cell_some_get s o _ hc).1

theorem e_giveUp (s : State) (o : Nat) (h : ∀ ob, s.cell o = some ob → ob.links = some []) :
    s.erase.giveUp o = (s.giveUp o).erase := by
  unfold SState.giveUp State.giveUp
  rw [e_cell]
  cases hc : s.cell o with
  | none =>
    have : s.purgePeers o = s.fail (.uaf o) := by
      unfold State.purgePeers State.tableOf State.linksErr
      simp [hc]
    rw [this]
    have : (s.fail (.uaf o)).cell o = none := by
      unfold State.cell; rw [fail_heap]; exact hc
    simp [this, fail_fail]
  | some ob =>
    rw [purgePeers_nolinks s o ob hc (h ob hc)]
    simp only [hc, Option.map_some]
    rw [← e_decWeakFree (imp := true), ← e_setObj]
    rfl

theorem e_rcDrop (s : State) (o : Nat)
    (h : ∀ ob, s.cell o = some ob → ∃ n, ob.strong = .cnt (n + 1) ∧ ob.links = some []) :
    s.erase.rcDrop o = (s.rcDrop o).erase := by
  unfold SState.rcDrop State.rcDrop
  rw [e_cell]
  cases hc : s.cell o with
  | none => simp
  | some ob =>
    obtain ⟨n, hs, hl⟩ := h ob hc
    have hf := (cell_some_get s o ob hc).2
    obtain ⟨st, w, l, v, f, i⟩ := ob
    simp only at hs hl hf
    subst hs hl hf
    simp only [Option.map_some, Obj.erase, List.isEmpty_nil, if_true]
    cases n with
    | succ n => simp only [Nat.succ_ne_zero, if_false]; rw [← e_setObj]; rfl
    | zero =>
      simp only [if_true]
      unfold State.beginSingle
      rw [cell_setObj_same s o _ _ hc]
      cases v with
      | none => simp only [Bool.false_eq_true, if_false]; rw [← e_fail, ← e_setObj]; rfl
      | some v =>
        simp only [Bool.false_eq_true, if_false, setObj_setObj]
        rw [← e_push, ← e_setObj]; rfl

theorem erase_setObj_of_erase_eq (s : State) (o : Nat) (ob ob' : Obj) (h : s.heap[o]? = some ob)
    (he : ob'.erase = ob.erase) : (s.setObj o ob').erase = s.erase := by
  have : (s.heap.set o ob').map Obj.erase = s.heap.map Obj.erase := by
    apply List.ext_getElem?
    intro i
    by_cases hi : o = i
    · subst hi
      obtain ⟨hlt, heq⟩ := List.getElem?_eq_some_iff.mp h
      simp [he, hlt, heq]
    · simp [List.getElem?_set_ne hi]
  unfold State.setObj State.erase
  simp only [this]

theorem e_finishSingle (s : State) (o : Nat) (h : ∀ ob, s.cell o = some ob → ob.links.isSome = true) :
    s.erase.finishSingle o = (s.finishSingle o).erase := by
  unfold SState.finishSingle State.finishSingle
  cases hc : s.cell o with
  | none =>
    unfold SState.decWeakFree
    simp [hc]
  | some ob =>
    have hl := h ob hc
    cases hl' : ob.links with
    | none => simp [hl'] at hl
    | some t =>
      simp only [hl']
      rw [← e_decWeakFree (imp := true), erase_setObj_of_erase_eq s o ob { ob with links := none } (cell_some_get s o _ hc).1 rfl]

end Sim

/-- the part of the API that `std::rc` has too -/
def Act.shared : Act → Prop
  | .adopt _ _ => False
  | .unadopt _ _ => False
  | .link _ _ => False
  | .unlink _ _ => False
  | _ => True

instance : DecidablePred Act.shared := fun a => by
  cases a <;> simp only [Act.shared] <;> infer_instance

/-- every live object has an empty link table (what the simulation of one action needs) -/
def State.LiveLinks (s : State) : Prop :=
  ∀ o ob, s.cell o = some ob → ∀ n, ob.strong = .cnt (n + 1) → ob.links = some []

namespace Sim

macro "esimp" : tactic => `(tactic| simp only [e_useRoot, e_badRoot, e_roots, e_wroots, e_vals, e_raws, e_isLive,
  e_valOf, e_cell, e_incStrong, e_incWeak, e_modVal, e_alloc, e_cloneHandles, e_fail, e_emit, e_push, e_weakDrop, e_dropVal, e_panic, e_dropFields,
  e_heap, e_nextVid, e_stack, e_err, e_log, e_unwinding, e_hint, List.length_map, mk_erase])

theorem applyAct_erase (s : State) (fh fw : List Nat) (a : Act) (hs : a.shared) (hl : s.LiveLinks) :
    stdApplyAct s.erase fh fw a = (applyAct s fh fw a).erase := by
  cases a <;> simp only [Act.shared] at hs <;> simp only [applyAct, stdApplyAct]
  case new => esimp
  case clone r => esimp; cases s.useRoot r <;> rfl
  case drop r => esimp; cases s.useRoot r <;> rfl
  case store r q =>
    esimp
    cases s.useRoot r with
    | none => cases s.useRoot q <;> rfl
    | some t =>
      cases s.useRoot q with
      | none => rfl
      | some o => simp only []; split <;> rfl
  case take q k =>
    esimp
    cases s.useRoot q with
    | none => rfl
    | some o =>
      simp only []
      cases s.valOf o with
      | none => rfl
      | some v => simp only []; cases nthMod v.held k <;> rfl
  case downgrade r => esimp; cases s.useRoot r <;> rfl
  case upgrade w =>
    esimp
    cases nthMod s.wroots w with
    | none => rfl
    | some o =>
      simp only []
      cases hc : s.cell o with
      | none => rfl
      | some ob =>
        simp only [Option.map_some, isDead_iff]
        by_cases h0 : ob.erase.strong = 0 <;> simp [h0] <;> rfl
  case cloneWeak w => esimp; cases nthMod s.wroots w <;> rfl
  case dropWeak w => esimp; cases nthMod s.wroots w <;> rfl
  case storeWeak w q => esimp; cases nthMod s.wroots w <;> cases s.useRoot q <;> rfl
  case tryUnwrap r =>
    esimp
    cases s.useRoot r with
    | none => rfl
    | some o =>
      simp only []
      cases hc : s.cell o with
      | none => rfl
      | some ob =>
        have hl' := hl o ob hc
        obtain ⟨st, w, l, v, f, i⟩ := ob
        simp only [Option.map_some]
        have hk : ∀ n, st = .cnt (n + 1) → ∀ ob', s.cell o = some ob' → ob'.links = some [] := by
          intro n hn ob' hc'
          rw [hc] at hc'
          cases hc'
          exact hl' n hn
        cases st with
        | uninit => cases v <;> rfl
        | cnt n =>
          match n with
          | 0 => cases v <;> rfl
          | n + 2 => cases v <;> rfl
          | 1 =>
            cases v with
            | none => rfl
            | some v =>
              simp only [Obj.erase]
              rw [e_giveUp]
              · rfl
              · intro ob' hc'; exact hk 0 rfl ob' hc'
  case dropValue i => esimp; cases nthMod s.vals i <;> rfl
  case getMut r =>
    esimp
    cases s.useRoot r with
    | none => rfl
    | some o =>
      simp only []
      cases hc : s.cell o with
      | none => rfl
      | some ob =>
        obtain ⟨st, w, l, v, f, i⟩ := ob
        cases st with
        | uninit => simp [Obj.erase]
        | cnt n => simp [Obj.erase]
  case intoRaw r => esimp; cases s.useRoot r <;> rfl
  case fromRaw i => esimp; cases nthMod s.raws i <;> rfl
  case incStrong i =>
    esimp
    cases nthMod s.raws i with
    | none => rfl
    | some o => simp only []; split <;> rfl
  case decStrong i =>
    esimp
    cases nthMod s.raws i with
    | none => rfl
    | some o => simp only []; split <;> rfl
  case ptrEq r1 r2 => esimp; cases s.useRoot r1 <;> cases s.useRoot r2 <;> rfl
  case counts r =>
    esimp
    cases s.useRoot r with
    | none => rfl
    | some o => simp only []; cases hc : s.cell o <;> rfl
  case wcounts w =>
    esimp
    cases nthMod s.wroots w with
    | none => rfl
    | some o =>
      simp only []
      cases hc : s.cell o with
      | none => rfl
      | some ob =>
        obtain ⟨st, w, l, v, f, i⟩ := ob
        cases st with
        | uninit => rfl
        | cnt n => cases n <;> simp [Obj.erase] <;> rfl
  case setPanic q => esimp; cases s.useRoot q <;> rfl
  case setShallow q => esimp; cases s.useRoot q <;> rfl
  case upgradeField k =>
    esimp
    cases nthMod fw k with
    | none => rfl
    | some o =>
      simp only []
      cases hc : s.cell o with
      | none => rfl
      | some ob =>
        simp only [Option.map_some, isDead_iff]
        by_cases h0 : ob.erase.strong = 0 <;> simp [h0] <;> rfl
  case cloneField k => esimp; cases nthMod fh k <;> rfl
  case downgradeField k => esimp; cases nthMod fh k <;> rfl
  case makeMut r =>
    esimp
    cases s.useRoot r with
    | none => rfl
    | some o =>
      simp only []
      cases hc : s.cell o with
      | none => rfl
      | some ob =>
        have hl' := hl o ob hc
        simp only [Option.map_some, erase_value, erase_weak]
        cases hv : ob.value with
        | none => rfl
        | some v =>
          simp only []
          by_cases h1 : ob.strong = .cnt 1
          · have h1' : ob.erase.strong = 1 := by simp [Obj.erase, h1]
            simp only [h1, h1', ne_eq, not_true_eq_false, if_false]
            by_cases hw : ob.weak = 1
            · simp only [hw, not_true_eq_false, if_false]
            · simp only [hw, not_false_eq_true, if_true]
              rw [e_giveUp]
              · rfl
              · intro ob' hc'
                have hc'' : (s.alloc v).cell o = some ob' := hc'
                rw [cell_alloc_old s v (Nat.ne_of_lt (cell_some_lt s o _ hc)), hc] at hc''
                cases hc''
                exact hl' 0 h1
          · have h1' : ¬ ob.erase.strong = 1 := by
              intro h; apply h1
              unfold Obj.erase at h
              cases hst : ob.strong with
              | uninit => simp [hst] at h
              | cnt n => simp [hst] at h; rw [h]
            simp only [h1, h1', ne_eq, not_false_eq_true, if_true]
            by_cases hsh : v.shallow = true
            · simp only [hsh, if_true]
              esimp
            · simp only [hsh, Bool.false_eq_true, if_false]
              esimp

end Sim

/-! ## The invariant of adoption-free histories -/

def Val.ok (v : Val) : Prop := ∀ a ∈ v.script, a.shared

/-- no table entries; scripts use the shared API only; an object whose table has been dropped no
longer owns its implicit weak reference (no group teardown is in flight) -/
def Obj.ok (ob : Obj) : Prop :=
  (ob.links = some [] ∨ ob.links = none)
  ∧ (ob.strong = .uninit → ob.implicit = true → ob.links = none → ob.weak = 0)
  ∧ (∀ v, ob.value = some v → v.ok)

def Frame.ok : Frame → Prop
  | .dropVal v => v.ok
  | .script _ _ acts => ∀ a ∈ acts, a.shared
  | _ => True

def State.NoLinks (s : State) : Prop := ∀ ob ∈ s.heap, ob.links = some [] ∨ ob.links = none

def State.SharedScripts (s : State) : Prop :=
  (∀ ob ∈ s.heap, ∀ v, ob.value = some v → v.ok) ∧ (∀ v ∈ s.vals, v.ok) ∧ (∀ f ∈ s.stack, f.ok)

/-- no group teardown in flight -/
def State.NoGroup (s : State) : Prop :=
  ∀ ob ∈ s.heap, ob.strong = .uninit → ob.implicit = true → ob.links = none → ob.weak = 0

/-- the invariant of adoption-free histories: `NoLinks ∧ NoGroup ∧ SharedScripts` (`Std_iff`); it
mentions `heap`, `vals`, `stack` only -/
def State.Std (s : State) : Prop :=
  (∀ ob ∈ s.heap, ob.ok) ∧ (∀ v ∈ s.vals, v.ok) ∧ (∀ f ∈ s.stack, f.ok)

theorem State.Std.heap {s : State} (h : s.Std) : ∀ ob ∈ s.heap, ob.ok := h.1
theorem State.Std.vals {s : State} (h : s.Std) : ∀ v ∈ s.vals, v.ok := h.2.1
theorem State.Std.stack {s : State} (h : s.Std) : ∀ f ∈ s.stack, f.ok := h.2.2

theorem State.Std.noLinks {s : State} (h : s.Std) : s.NoLinks := fun ob hm => (h.heap ob hm).1
theorem State.Std.noGroup {s : State} (h : s.Std) : s.NoGroup := fun ob hm => (h.heap ob hm).2.1
theorem State.Std.sharedScripts {s : State} (h : s.Std) : s.SharedScripts :=
  ⟨fun ob hm => (h.heap ob hm).2.2, h.vals, h.stack⟩
theorem State.Std.mk' {s : State} (h1 : s.NoLinks) (h2 : s.NoGroup) (h3 : s.SharedScripts) : s.Std :=
  ⟨fun ob hm => ⟨h1 ob hm, h2 ob hm, h3.1 ob hm⟩, h3.2.1, h3.2.2⟩

theorem Std_init : ({} : State).Std := ⟨by simp, by simp, by simp⟩

namespace Sim

theorem Std.of_eq {s s' : State} (h : s.Std) (hh : s'.heap = s.heap) (hv : s'.vals = s.vals)
    (hs : s'.stack = s.stack) : s'.Std :=
  ⟨by rw [hh]; exact h.heap, by rw [hv]; exact h.vals, by rw [hs]; exact h.stack⟩

theorem cell_mem {s : State} {o : Nat} {ob : Obj} (h : s.cell o = some ob) : ob ∈ s.heap :=
  List.mem_of_getElem? (cell_some_get s o ob h).1

theorem std_fail {s : State} (h : s.Std) (e : Err) : (s.fail e).Std :=
  Std.of_eq h (fail_heap s e) (fail_vals s e) (fail_stack s e)

theorem std_emit {s : State} (h : s.Std) (e : Ev) : (s.emit e).Std := Std.of_eq h rfl rfl rfl

theorem std_push {s : State} (h : s.Std) (fs : List Frame) (hf : ∀ f ∈ fs, f.ok) : (s.push fs).Std :=
  ⟨h.heap, h.vals, by
    intro f hm
    simp only [State.push, List.mem_append] at hm
    exact hm.elim (hf f) (h.stack f)⟩

theorem std_setObj {s : State} (h : s.Std) (o : Nat) (ob : Obj) (hob : ob.ok) : (s.setObj o ob).Std :=
  ⟨by
    intro ob' hm
    rcases List.mem_or_eq_of_mem_set hm with hm | rfl
    · exact h.heap ob' hm
    · exact hob, h.vals, h.stack⟩

theorem std_alloc {s : State} (h : s.Std) (v : Val) (hv : v.ok) : (s.alloc v).Std :=
  ⟨by
    intro ob hm
    simp only [State.alloc, List.mem_append, List.mem_singleton] at hm
    rcases hm with hm | rfl
    · exact h.heap ob hm
    · exact ⟨Or.inl rfl, by simp, by intro v' hv'; cases hv'; exact hv⟩, h.vals, h.stack⟩

theorem ok_strong {ob : Obj} (h : ob.ok) (n : Nat) : ({ ob with strong := .cnt n } : Obj).ok :=
  ⟨h.1, by simp, h.2.2⟩

theorem ok_weak {ob : Obj} (h : ob.ok) (hw : ob.weak ≠ 0) (w : Nat) : ({ ob with weak := w } : Obj).ok :=
  ⟨h.1, fun a b c => absurd (h.2.1 a b c) hw, h.2.2⟩

theorem std_incStrong {s : State} (h : s.Std) (o : Nat) : (s.incStrong o).Std := by
  unfold State.incStrong
  split
  · rename_i ob hc
    split
    · exact std_setObj h o _ (ok_strong (h.heap _ (cell_mem hc)) _)
    · exact std_fail h _
  · exact std_fail h _

theorem std_incWeak {s : State} (h : s.Std) (o : Nat) : (s.incWeak o).Std := by
  unfold State.incWeak
  split
  · rename_i ob hc
    split
    · exact std_fail h _
    · rename_i hw
      exact std_setObj h o _ (ok_weak (h.heap _ (cell_mem hc)) hw _)
  · exact std_fail h _

theorem std_decWeakFree {s : State} (h : s.Std) (o : Nat) (imp : Bool) : (s.decWeakFree o imp).Std := by
  unfold State.decWeakFree
  split
  · rename_i ob hc
    have hok := h.heap _ (cell_mem hc)
    split
    · exact std_fail h _
    · refine std_emit (std_setObj h o _ ?_) _
      exact ⟨hok.1, fun _ _ _ => rfl, hok.2.2⟩
    · rename_i w hw
      refine std_setObj h o _ ⟨hok.1, ?_, hok.2.2⟩
      intro a b c
      simp only [Bool.and_eq_true] at b
      have := hok.2.1 a b.1 c
      omega
  · exact std_fail h _

theorem std_modVal {s : State} (h : s.Std) (o : Nat) (f : Val → Val) (hf : ∀ v, v.ok → (f v).ok) :
    (s.modVal o f).Std := by
  unfold State.modVal
  split
  · rename_i ob hc
    have hok := h.heap _ (cell_mem hc)
    split
    · rename_i v hv
      refine std_setObj h o _ ⟨hok.1, hok.2.1, ?_⟩
      intro v' hv'
      cases hv'
      exact hf v (hok.2.2 v hv)
    · exact std_fail h _
  · exact std_fail h _

theorem std_valOf {s : State} (h : s.Std) {o : Nat} {v : Val} (hv : s.valOf o = some v) : v.ok := by
  unfold State.valOf at hv
  split at hv
  · rename_i ob hc
    exact (h.heap _ (cell_mem hc)).2.2 v hv
  · cases hv

theorem std_foldl_incStrong {s : State} (h : s.Std) (l : List Nat) : (l.foldl State.incStrong s).Std := by
  induction l generalizing s with
  | nil => exact h
  | cons a l ih => exact ih (std_incStrong h a)

theorem std_foldl_incWeak {s : State} (h : s.Std) (l : List Nat) : (l.foldl State.incWeak s).Std := by
  induction l generalizing s with
  | nil => exact h
  | cons a l ih => exact ih (std_incWeak h a)

theorem std_cloneHandles {s : State} (h : s.Std) (v : Val) : (s.cloneHandles v).Std :=
  std_foldl_incWeak (std_foldl_incStrong h _) _

theorem std_purgePeers {s : State} (h : s.Std) (o : Nat) : (s.purgePeers o).Std := by
  unfold State.purgePeers
  split
  · rename_i t ht
    obtain ⟨ob, hc, hl⟩ := tableOf_eq_some s o t ht
    have hok := h.heap _ (cell_mem hc)
    have : t = [] := by
      rcases hok.1 with h1 | h1 <;> rw [hl] at h1 <;> cases h1
      rfl
    subst this
    simp only [List.foldl_nil]
    unfold State.setLinks
    simp only [hc, hl]
    exact std_setObj h o _ ⟨Or.inl rfl, by simp, hok.2.2⟩
  · exact std_fail h _

theorem std_giveUp {s : State} (h : s.Std) (o : Nat) : (s.giveUp o).Std := by
  unfold State.giveUp
  have hp := std_purgePeers h o
  split
  · rename_i ob hc
    exact std_decWeakFree (std_setObj hp o _ ⟨Or.inr rfl, by simp, by simp⟩) o true
  · exact std_fail hp _

theorem std_badRoot {s : State} (h : s.Std) (r : Nat) : (s.badRoot r).Std := by
  unfold State.badRoot
  split
  · split
    · exact h
    · exact std_fail h _
  · exact h

/-- record updates that leave `heap`, `vals`, `stack` alone -/
macro "re " h:term : tactic => `(tactic| exact $h)

theorem std_cell {s : State} (h : s.Std) {o : Nat} {ob : Obj} (hc : s.cell o = some ob) : ob.ok :=
  h.heap _ (cell_mem hc)

theorem std_upgrade {s : State} (h : s.Std) (o : Nat) :
    (match s.cell o with
      | some ob =>
        if ob.strong.isDead then s.emit (retBool false)
        else
          let s1 := (s.incStrong o).emit (retBool true)
          { s1 with roots := s1.roots ++ [o] }
      | none => s.fail (.uaf o)).Std := by
  split
  · split
    · exact std_emit h _
    · exact std_emit (std_incStrong h o) (retBool true)
  · exact std_fail h _

theorem applyAct_std (s : State) (fh fw : List Nat) (a : Act) (hs : a.shared) (h : s.Std) :
    (applyAct s fh fw a).Std := by
  cases a <;> simp only [Act.shared] at hs <;> simp only [applyAct]
  case new => re (std_alloc h { vid := s.nextVid, held := [], weaks := [], script := [], panics := false } (by simp [Val.ok]))
  case clone r =>
    split
    · re (std_incStrong h _)
    · exact std_badRoot h r
  case drop r =>
    split
    · exact std_push (s := _) h _ (by simp [Frame.ok])
    · exact std_badRoot h r
  case store r q =>
    split
    · split
      · exact h
      · exact std_modVal (by exact h) _ _ (fun _ hv => hv)
    · exact std_badRoot (std_badRoot h r) q
  case take q k =>
    split
    · split
      · split
        · re (std_modVal h _ _ (fun _ hv => hv))
        · exact h
      · exact std_fail h _
    · exact std_badRoot h q
  case downgrade r =>
    split
    · re (std_incWeak h _)
    · exact std_badRoot h r
  case upgrade w =>
    split
    · exact std_upgrade h _
    · exact h
  case cloneWeak w =>
    split
    · re (std_incWeak h _)
    · exact h
  case dropWeak w =>
    split
    · exact std_push (s := _) h _ (by simp [Frame.ok])
    · exact h
  case storeWeak w q =>
    split
    · exact std_modVal (by exact h) _ _ (fun _ hv => hv)
    · exact std_badRoot h q
    · exact h
  case tryUnwrap r =>
    split
    · split
      · rename_i ob hc
        split
        · rename_i v hst hv
          refine std_emit (std_giveUp (s := { s with roots := s.roots.eraseIdx (idxMod s.roots r), vals := s.vals ++ [v] }) ⟨h.heap, ?_, h.stack⟩ _) _
          intro v' hm
          simp only [List.mem_append, List.mem_singleton] at hm
          rcases hm with hm | rfl
          · exact h.vals _ hm
          · exact (std_cell h hc).2.2 _ hv
        · exact std_fail h _
        · exact std_emit h _
      · exact std_fail h _
    · exact std_badRoot h r
  case dropValue i =>
    split
    · rename_i v hv
      refine std_push (s := { s with vals := s.vals.eraseIdx (idxMod s.vals i) }) ⟨h.heap, ?_, h.stack⟩ _ ?_
      · intro v' hm
        exact h.vals _ (List.mem_of_mem_eraseIdx hm)
      · intro f hf
        simp only [List.mem_singleton] at hf
        subst hf
        have : v ∈ s.vals := by
          unfold nthMod at hv
          split at hv
          · cases hv
          · exact List.mem_of_getElem? hv
        exact h.vals _ this
    · exact h
  case makeMut r =>
    split
    · split
      · rename_i ob hc
        split
        · rename_i v hv
          have hvok := (std_cell h hc).2.2 _ hv
          split
          · refine std_push (std_emit (s := _) ?_ _) _ (by simp [Frame.ok])
            by_cases hsh : v.shallow = true
            · simp only [hsh, if_true]
              re (std_alloc h { v with vid := s.nextVid, held := [], weaks := [], shallow := true } hvok)
            · simp only [hsh, Bool.false_eq_true, if_false]
              re (std_alloc (std_cloneHandles h v) { v with vid := s.nextVid, shallow := false } hvok)
          · split
            · refine std_emit (std_giveUp (s := _) ?_ _) _
              re (std_alloc h v hvok)
            · exact std_emit h _
        · exact std_fail h _
      · exact std_fail h _
    · exact std_badRoot h r
  case getMut r =>
    split
    · split
      · exact std_emit h _
      · exact std_fail h _
    · exact std_badRoot h r
  case intoRaw r =>
    split
    · re h
    · exact std_badRoot h r
  case fromRaw i =>
    split
    · re h
    · exact h
  case incStrong i =>
    split
    · split
      · re (std_incStrong h _)
      · exact std_fail h _
    · exact h
  case decStrong i =>
    split
    · split
      · exact std_push (s := _) h _ (by simp [Frame.ok])
      · exact std_fail h _
    · exact h
  case ptrEq r1 r2 =>
    split
    · exact std_emit h _
    · exact std_badRoot (std_badRoot h r1) r2
  case counts r =>
    split
    · split
      · exact std_emit (std_emit h _) _
      · exact std_fail h _
    · exact std_badRoot h r
  case wcounts w =>
    split
    · split
      · split <;> exact std_emit (std_emit h _) _
      · exact std_fail h _
    · exact h
  case setPanic q =>
    split
    · exact std_modVal h _ _ (fun _ hv => hv)
    · exact std_badRoot h q
  case setShallow q =>
    split
    · exact std_modVal h _ _ (fun _ hv => hv)
    · exact std_badRoot h q
  case upgradeField k =>
    split
    · exact std_upgrade h _
    · exact h
  case cloneField k =>
    split
    · re (std_incStrong h _)
    · exact h
  case downgradeField k =>
    split
    · re (std_incWeak h _)
    · exact h

theorem std_beginSingle {s : State} (h : s.Std) (o : Nat) (hl : ∀ ob, s.cell o = some ob → ob.links ≠ none) :
    (s.beginSingle o).Std := by
  unfold State.beginSingle
  split
  · rename_i ob hc
    have hok := std_cell h hc
    split
    · exact std_decWeakFree h o true
    · split
      · rename_i v hv
        refine std_push (std_setObj h o _ ?_) _ ?_
        · exact ⟨hok.1, fun _ _ c => absurd c (hl ob hc), by simp⟩
        intro f hf
        simp only [List.mem_cons, List.mem_nil_iff, or_false] at hf
        rcases hf with rfl | rfl
        · exact hok.2.2 v hv
        · trivial
      · exact std_fail h _
  · exact std_fail h _

theorem std_rcDrop {s : State} (h : s.Std) (o : Nat) : (s.rcDrop o).Std := by
  unfold State.rcDrop
  split
  · exact std_fail h _
  · rename_i ob hc
    have hok := std_cell h hc
    have hf := (cell_some_get s o ob hc).2
    split
    · exact h
    · exact h
    · rename_i n hst
      split
      · exact std_fail h _
      · rename_i t ht
        have : t = [] := by
          rcases hok.1 with h1 | h1 <;> rw [ht] at h1 <;> cases h1
          rfl
        subst this
        have h1 : (s.setObj o { ob with strong := .cnt n }).Std := std_setObj h o _ (ok_strong hok n)
        simp only [List.isEmpty_nil, if_true]
        split
        · apply std_beginSingle h1
          intro ob' hc'
          rw [cell_setObj_same s o ob _ hc] at hc'
          simp only [hf, Bool.false_eq_true, if_false, Option.some.injEq] at hc'
          subst hc'
          simp [ht]
        · exact h1

theorem std_finishSingle {s : State} (h : s.Std) (o : Nat) : (s.finishSingle o).Std := by
  unfold State.finishSingle
  split
  · rename_i ob hc
    have hok := std_cell h hc
    have hf := (cell_some_get s o ob hc).2
    split
    · unfold State.decWeakFree
      rw [cell_setObj_same s o ob _ hc]
      simp only [hf, Bool.false_eq_true, if_false]
      split
      · rename_i hw
        refine std_fail (std_setObj h o _ ?_) _
        exact ⟨Or.inr rfl, fun _ _ _ => hw, hok.2.2⟩
      · rw [setObj_setObj]
        refine std_emit (std_setObj h o _ ?_) _
        exact ⟨Or.inr rfl, fun _ _ _ => rfl, hok.2.2⟩
      · rw [setObj_setObj]
        refine std_setObj h o _ ?_
        exact ⟨Or.inr rfl, by simp, hok.2.2⟩
    · exact std_fail h _
  · exact std_fail h _

theorem std_phase3 {s : State} (h : s.Std) (ks : List Nat) : (ks.foldl State.phase3One s).Std := by
  induction ks generalizing s with
  | nil => exact h
  | cons k ks ih =>
    apply ih
    unfold State.phase3One
    split
    · split
      · exact std_decWeakFree h k true
      · exact h
    · exact std_fail h _

theorem std_dropFields {s : State} (h : s.Std) (hs ws : List Nat) : (s.dropFields hs ws).Std := by
  cases hs with
  | cons a hs => exact std_push h _ (by simp [Frame.ok])
  | nil =>
    cases ws with
    | cons w ws => exact std_push h _ (by simp [Frame.ok])
    | nil => exact h

theorem step_std (s : State) (h : s.Std) : (step s).Std := by
  unfold step
  split
  · exact h
  · split
    · exact h
    · rename_i f rest hst
      have hf : f.ok := h.stack f (by rw [hst]; exact List.mem_cons_self)
      have h0 : ({ s with stack := rest } : State).Std :=
        ⟨h.heap, h.vals, fun g hg => h.stack g (by rw [hst]; exact List.mem_cons_of_mem _ hg)⟩
      cases f with
      | rcDrop o => exact std_rcDrop h0 o
      | weakDrop o => exact std_decWeakFree h0 o false
      | dropVal v =>
        refine std_push (std_emit h0 _) _ ?_
        intro g hg
        simp only [List.mem_append, List.mem_cons, List.mem_nil_iff, or_false] at hg
        rcases hg with (rfl | hg) | rfl
        · exact hf
        · split at hg
          · simp only [List.mem_cons, List.mem_nil_iff, or_false] at hg; subst hg; trivial
          · cases hg
        · trivial
      | script hh ww acts =>
        cases acts with
        | nil => exact h0
        | cons a as =>
          have hfa : ∀ b ∈ a :: as, b.shared := hf
          refine applyAct_std _ hh ww a (hfa a List.mem_cons_self) (std_push h0 _ ?_)
          intro g hg
          simp only [List.mem_cons, List.mem_nil_iff, or_false] at hg
          subst hg
          exact fun b hb => hfa b (List.mem_cons_of_mem _ hb)
      | panic =>
        simp only [State.panic]
        split
        · exact std_fail h0 _
        · exact ⟨h0.heap, h0.vals, fun g hg => h0.stack g (List.mem_filter.mp hg).1⟩
      | dropFields hh ww => exact std_dropFields h0 hh ww
      | finishSingle o => exact std_finishSingle h0 o
      | phase3 ks => exact std_phase3 h0 ks

end Sim

/-- operations of the shared API -/
def Op.shared : Op → Prop
  | .act a => a.shared
  | .setScript _ acts => ∀ a ∈ acts, a.shared
  | .shuffle _ _ => True

namespace Sim

theorem applyOp_std (s : State) (op : Op) (hop : op.shared) (h : s.Std) : (applyOp s op).Std := by
  cases op with
  | act a => exact applyAct_std s [] [] a hop h
  | setScript q acts =>
    simp only [applyOp]
    split
    · exact std_modVal h _ _ (fun _ _ => hop)
    · exact std_badRoot h q
  | shuffle q i =>
    simp only [applyOp]
    split
    · rename_i o ho
      unfold State.setLinks
      split
      · rename_i ob hc
        have hok := std_cell h hc
        split
        · rename_i t ht
          have : t = [] := by
            rcases hok.1 with h1 | h1 <;> rw [ht] at h1 <;> cases h1
            rfl
          subst this
          refine std_setObj h o _ ?_
          exact ⟨Or.inl rfl, by simp, hok.2.2⟩
        · exact std_fail h _
      · exact std_fail h _
    · exact std_badRoot h q

theorem liveLinks_of {s : State} (hO : s.InvO) (h : s.NoLinks) : s.LiveLinks := by
  intro o ob hc n hn
  have hget := (cell_some_get s o ob hc).1
  have hl := ((hO o ob hget).1 n hn).2.1
  rcases h ob (cell_mem hc) with h1 | h1
  · exact h1
  · rw [h1] at hl; cases hl

/-- the step of the machine is the step of `std::rc` -/
theorem step_erase (s : State) (h : s.Std) (hI : s.Inv) (hS : s.InvS) : stdStep s.erase = (step s).erase := by
  unfold stdStep step
  simp only [e_err, e_stack]
  cases herr : s.err with
  | some e => rfl
  | none =>
    obtain ⟨hO, _, _, hW, hK⟩ := hI herr
    have hS2 := (hS herr).2.1
    have hLL := liveLinks_of hO h.noLinks
    simp only []
    cases hst : s.stack with
    | nil => rfl
    | cons f rest =>
      simp only []
      cases f with
      | rcDrop o =>
        esimp
        apply e_rcDrop
        intro ob hc
        replace hc : s.cell o = some ob := hc
        obtain ⟨hget, hfr⟩ := cell_some_get s o ob hc
        have hp : 0 < s.pend o := by
          simp only [State.pend, hst, State.sumList, Frame.strongTo, List.map_cons, List.foldr_cons, if_true]
          omega
        by_cases hlive : s.isLive o = true
        · obtain ⟨ob', n, hc', hn⟩ := (isLive_iff_cell s o).mp hlive
          rw [hc] at hc'; cases hc'
          exact ⟨n, hn, hLL o ob hc n hn⟩
        · exfalso
          obtain ⟨ob', hget', hu, hln, himp⟩ := hS2 o hp (by simpa using hlive)
          rw [hget] at hget'; cases hget'
          have hw := (std_cell h hc).2.1 hu himp hln
          have := ((hO o ob hget).2.2.2).mpr hw
          rw [hfr] at this; cases this
      | weakDrop o => esimp
      | dropVal v => esimp
      | script hh ww acts =>
        cases acts with
        | nil => rfl
        | cons a as =>
          have hf : (Frame.script hh ww (a :: as)).ok := h.stack _ (by rw [hst]; exact List.mem_cons_self)
          esimp
          exact applyAct_erase _ hh ww a (hf a List.mem_cons_self) (fun o ob hc => hLL o ob hc)
      | panic => esimp
      | dropFields hh ww => esimp
      | finishSingle o =>
        esimp
        apply e_finishSingle
        intro ob hc
        replace hc : s.cell o = some ob := hc
        obtain ⟨ob', hget', _, hl', _⟩ := hK.1 o (by rw [hst]; exact List.mem_cons_self)
        rw [(cell_some_get s o ob hc).1] at hget'; cases hget'
        simp [hl']
      | phase3 ks =>
        cases ks with
        | nil => rfl
        | cons k ks =>
          exfalso
          obtain ⟨ob, hget, hu, hln, himp⟩ := hK.2.1 (k :: ks) (by rw [hst]; exact List.mem_cons_self) k
            List.mem_cons_self
          have hw := (h.heap ob (List.mem_of_getElem? hget)).2.1 hu himp hln
          have := hW k (List.getElem?_eq_some_iff.mp hget).1
          simp [State.weakNat, State.implicitNat, hget, hw, himp] at this

theorem endOp_std (s : State) (h : s.Std) : (endOp s).Std := by
  unfold endOp
  split
  · exact h
  · exact h

theorem begin_std (s : State) (hint : List Nat) (h : s.Std) : (s.begin hint).Std := h

theorem applyOp_erase (s : State) (op : Op) (hop : op.shared) (hLL : s.LiveLinks) :
    stdApplyOp s.erase op = (applyOp s op).erase := by
  cases op with
  | act a => exact applyAct_erase s [] [] a hop hLL
  | setScript q acts =>
    simp only [stdApplyOp, applyOp]
    esimp
    cases s.useRoot q <;> rfl
  | shuffle q i =>
    simp only [stdApplyOp, applyOp]
    esimp
    cases hu : s.useRoot q with
    | none => rfl
    | some o =>
      simp only []
      have hlive : s.isLive o = true := by
        unfold State.useRoot at hu
        split at hu
        · split at hu
          · cases hu; assumption
          · cases hu
        · cases hu
      obtain ⟨ob, n, hc, hn⟩ := (isLive_iff_cell s o).mp hlive
      have hl := hLL o ob hc n hn
      have : s.setLinks o (·.swapAt i) = s := by
        unfold State.setLinks
        simp only [hc, hl]
        obtain ⟨st, w, l, v, f, im⟩ := ob
        cases hl
        exact setObj_self s o _ (cell_some_get s o _ hc).1
      rw [this]

theorem P_of_noLinks {s : State} (h : s.NoLinks) : s.P := by
  intro a b _
  have : s.tbl a = [] := by
    unfold State.tbl
    cases ht : s.tableOf a with
    | none => rfl
    | some t =>
      obtain ⟨ob, hc, hl⟩ := tableOf_eq_some s a t ht
      rcases h ob (cell_mem hc) with h1 | h1 <;> rw [hl] at h1 <;> cases h1
      rfl
  simp [State.F, this]

theorem endOp_erase (s : State) : stdEndOp s.erase = (endOp s).erase := by
  unfold stdEndOp endOp
  by_cases hu : s.unwinding = true
  · have hu' : s.erase.unwinding = true := hu
    rw [if_pos hu, if_pos hu']; rfl
  · have hu' : ¬ s.erase.unwinding = true := hu
    rw [if_neg hu, if_neg hu']

/-- reachable in an adoption-free history -/
structure Good (s : State) : Prop where
  reach : ReachableP s
  std : s.Std

theorem Good.step {s : State} (h : Good s) : Good (Cactus.step s) :=
  have hs := step_std s h.std
  ⟨.step h.reach (P_of_noLinks hs.noLinks), hs⟩

theorem Good.step_erase {s : State} (h : Good s) : stdStep s.erase = (Cactus.step s).erase :=
  Sim.step_erase s h.std (reachable_Inv h.reach.reachable) (reachableP_invS h.reach)

theorem drain_erase (f : Nat) (s : State) (h : Good s) :
    stdDrain f s.erase = (drain f s).erase ∧ Good (drain f s) := by
  induction f generalizing s with
  | zero =>
    unfold stdDrain drain
    simp only [e_stack]
    cases hst : s.stack with
    | nil => exact ⟨rfl, h⟩
    | cons a r => exact ⟨by simp only [e_fail], .outOfFuel h.reach, std_fail h.std _⟩
  | succ f ih =>
    unfold stdDrain drain
    simp only [e_stack, e_err]
    cases herr : s.err with
    | some e => exact ⟨rfl, h⟩
    | none =>
      cases hst : s.stack with
      | nil => exact ⟨rfl, h⟩
      | cons a r =>
        simp only []
        rw [h.step_erase]
        exact ih _ h.step

theorem execOp_of_none {fuel : Nat} {s : State} {op : Op} {hint : List Nat} (h : s.err = none) :
    execOp fuel s op hint = endOp (drain fuel (applyOp (s.begin hint) op)) := by
  unfold execOp
  split
  · rename_i e he; rw [h] at he; cases he
  · rfl

theorem execOp_of_some {fuel : Nat} {s : State} {op : Op} {hint : List Nat} {e : Err} (h : s.err = some e) :
    execOp fuel s op hint = s := by
  unfold execOp
  split
  · rfl
  · rename_i he; rw [h] at he; cases he

theorem stdExecOp_of_none {fuel : Nat} {s : SState} {op : Op} {hint : List Nat} (h : s.err = none) :
    stdExecOp fuel s op hint = stdEndOp (stdDrain fuel (stdApplyOp { s with hint := hint } op)) := by
  unfold stdExecOp
  split
  · rename_i e he; rw [h] at he; cases he
  · rfl

theorem stdExecOp_of_some {fuel : Nat} {s : SState} {op : Op} {hint : List Nat} {e : Err} (h : s.err = some e) :
    stdExecOp fuel s op hint = s := by
  unfold stdExecOp
  split
  · rfl
  · rename_i he; rw [h] at he; cases he

theorem execOp_erase (fuel : Nat) (s : State) (op : Op) (hint : List Nat) (hop : op.shared) (h : Good s)
    (hq : s.err = none → s.stack = []) :
    stdExecOp fuel s.erase op hint = (execOp fuel s op hint).erase ∧ Good (execOp fuel s op hint) := by
  cases herr : s.err with
  | some e => rw [execOp_of_some herr, stdExecOp_of_some (s := s.erase) herr]; exact ⟨rfl, h⟩
  | none =>
    rw [execOp_of_none herr, stdExecOp_of_none (s := s.erase) herr]
    have hI := reachable_Inv h.reach.reachable herr
    have hLL : (s.begin hint).LiveLinks := fun o ob hc => liveLinks_of hI.1 h.std.noLinks o ob hc
    have hstd : (applyOp (s.begin hint) op).Std := applyOp_std _ op hop (begin_std s hint h.std)
    have hg : Good (applyOp (s.begin hint) op) :=
      ⟨.op op hint h.reach (hq herr) (P_of_noLinks hstd.noLinks), hstd⟩
    have he : stdApplyOp { s.erase with hint := hint } op = (applyOp (s.begin hint) op).erase :=
      applyOp_erase (s.begin hint) op hop hLL
    obtain ⟨hd, hgd⟩ := drain_erase fuel _ hg
    refine ⟨?_, .endOp hgd.reach, endOp_std _ hgd.std⟩
    rw [he, hd, endOp_erase]

theorem foldl_erase (fuel : Nat) (ops : List (Op × List Nat)) (hops : ∀ oh ∈ ops, oh.1.shared) (s : State)
    (h : Good s) (hq : s.err = none → s.stack = []) :
    ops.foldl (fun s oh => stdExecOp fuel s oh.1 oh.2) s.erase
      = (ops.foldl (fun s oh => execOp fuel s oh.1 oh.2) s).erase
    ∧ Good (ops.foldl (fun s oh => execOp fuel s oh.1 oh.2) s) := by
  induction ops generalizing s with
  | nil => exact ⟨rfl, h⟩
  | cons oh rest ih =>
    simp only [List.foldl_cons]
    obtain ⟨he, hg⟩ := execOp_erase fuel s oh.1 oh.2 (hops oh List.mem_cons_self) h hq
    rw [he]
    exact ih (fun x hx => hops x (List.mem_cons_of_mem _ hx)) _ hg (execOp_quiescent fuel s oh.1 oh.2 hq)

end Sim

/-! ## Statements -/

theorem State.Std_iff (s : State) : s.Std ↔ s.NoLinks ∧ s.NoGroup ∧ s.SharedScripts :=
  ⟨fun h => ⟨h.noLinks, h.noGroup, h.sharedScripts⟩, fun h => State.Std.mk' h.1 h.2.1 h.2.2⟩

/-- `Std` (= `NoLinks ∧ NoGroup ∧ SharedScripts`) is preserved by every shared action, … -/
theorem applyAct_Std (s : State) (fh fw : List Nat) (a : Act) (ha : a.shared) (h : s.Std) :
    (applyAct s fh fw a).Std := Sim.applyAct_std s fh fw a ha h

/-- … by every shared top-level operation (`shuffle` included: nothing to permute), … -/
theorem applyOp_Std (s : State) (op : Op) (hop : op.shared) (h : s.Std) : (applyOp s op).Std :=
  Sim.applyOp_std s op hop h

/-- … and by every machine step. -/
theorem step_Std (s : State) (h : s.Std) : (step s).Std := Sim.step_std s h

/-- one shared action of the machine is the same action of `std::rc` -/
theorem applyAct_erase (s : State) (fh fw : List Nat) (a : Act) (hN : s.NoLinks) (hI : s.Inv)
    (he : s.err = none) (ha : a.shared) :
    (applyAct s fh fw a).erase = stdApplyAct s.erase fh fw a :=
  (Sim.applyAct_erase s fh fw a ha (Sim.liveLinks_of (hI he).1 hN)).symm

theorem applyOp_erase (s : State) (op : Op) (hN : s.NoLinks) (hI : s.Inv) (he : s.err = none)
    (hop : op.shared) : (applyOp s op).erase = stdApplyOp s.erase op :=
  (Sim.applyOp_erase s op hop (Sim.liveLinks_of (hI he).1 hN)).symm

/-- one machine step is one step of `std::rc` (`InvS` costs nothing here: without table entries
the adoption contract `P` holds trivially, `Sim.P_of_noLinks`) -/
theorem step_erase (s : State) (h : s.Std) (hI : s.Inv) (hS : s.InvS) : (step s).erase = stdStep s.erase :=
  (Sim.step_erase s h hI hS).symm

/-- **C07**: on histories that use the shared API only, the machine and the reference model of
`std::rc` produce the same state — heap (counts, values, released allocations), handles, and the
event log — whatever the fuel hints -/
theorem run_erase (ops : List (Op × List Nat)) (hops : ∀ oh ∈ ops, oh.1.shared) :
    (run ops).erase = stdRun ops :=
  (Sim.foldl_erase defaultFuel ops hops {} ⟨.init, Std_init⟩ (fun _ => rfl)).1.symm

/-- in particular the observable traces coincide: destructions `destroyed vid`, releases `freed o`,
return values `ret c`, `panicked` -/
theorem run_log (ops : List (Op × List Nat)) (hops : ∀ oh ∈ ops, oh.1.shared) :
    (run ops).log = (stdRun ops).log := by
  rw [← run_erase ops hops]; rfl

theorem run_err (ops : List (Op × List Nat)) (hops : ∀ oh ∈ ops, oh.1.shared) :
    (run ops).err = (stdRun ops).err := by
  rw [← run_erase ops hops]; rfl

/-- and no table ever gets an entry -/
theorem run_Std (ops : List (Op × List Nat)) (hops : ∀ oh ∈ ops, oh.1.shared) : (run ops).Std :=
  (Sim.foldl_erase defaultFuel ops hops {} ⟨.init, Std_init⟩ (fun _ => rfl)).2.std

end Cactus
