import Cactus.Model.Table

/-!
# Basic facts about link tables
-/
namespace Cactus
namespace Table

@[simp] theorem get_nil (l : Link) : get [] l = 0 := rfl

@[simp] theorem get_cons (k : Link) (c : Nat) (r : Table) (l : Link) :
    get ((k, c) :: r) l = if k = l then c else get r l := rfl

theorem WF_nil : WF ([] : Table) := by
  simp [WF]

theorem WF_cons (k : Link) (c : Nat) (r : Table) :
    WF ((k, c) :: r) ↔ (∀ c', (k, c') ∉ r) ∧ 0 < c ∧ WF r := by
  simp only [WF, List.map_cons, List.nodup_cons, List.mem_map, List.mem_cons]
  constructor
  · rintro ⟨⟨h1, h2⟩, h3⟩
    refine ⟨?_, h3 _ (Or.inl rfl), h2, fun e he => h3 e (Or.inr he)⟩
    intro c' hc'
    exact h1 ⟨(k, c'), hc', rfl⟩
  · rintro ⟨h1, h2, h3, h4⟩
    refine ⟨⟨?_, h3⟩, ?_⟩
    · rintro ⟨⟨k', c'⟩, hm, rfl⟩
      exact h1 c' hm
    · rintro e (rfl | he)
      · exact h2
      · exact h4 e he

/-- absent keys read as zero (no WF needed) -/
theorem get_eq_zero_of_not_mem (t : Table) (l : Link) (h : ∀ c, (l, c) ∉ t) : t.get l = 0 := by
  induction t with
  | nil => rfl
  | cons e r ih =>
    obtain ⟨k, c⟩ := e
    simp only [get_cons]
    split
    · next hk => subst hk; exact absurd List.mem_cons_self (h c)
    · exact ih (fun c' hc' => h c' (List.mem_cons_of_mem _ hc'))

theorem mem_get (t : Table) (hw : t.WF) (l : Link) (c : Nat) (h : (l, c) ∈ t) : t.get l = c := by
  induction t with
  | nil => cases h
  | cons e r ih =>
    obtain ⟨k, c'⟩ := e
    rw [WF_cons] at hw
    simp only [get_cons]
    rcases List.mem_cons.1 h with heq | hm
    · cases heq; simp
    · split
      · next hk => subst hk; exact absurd hm (hw.1 c)
      · exact ih hw.2.2 hm

theorem mem_keys_iff_get_pos (t : Table) (hw : t.WF) (l : Link) :
    (∃ c, (l, c) ∈ t) ↔ 0 < t.get l := by
  constructor
  · rintro ⟨c, hc⟩
    rw [mem_get t hw l c hc]
    exact hw.2 _ hc
  · intro h
    apply Classical.byContradiction
    intro hn
    have := get_eq_zero_of_not_mem t l (fun c hc => hn ⟨c, hc⟩)
    omega

theorem not_mem_of_get_eq_zero (t : Table) (hw : t.WF) (l : Link) (h : t.get l = 0) (c : Nat) :
    (l, c) ∉ t := by
  intro hm
  have := (mem_keys_iff_get_pos t hw l).1 ⟨c, hm⟩
  omega

theorem get_insert (t : Table) (k l : Link) :
    (t.insert k).get l = t.get l + (if l = k then 1 else 0) := by
  induction t with
  | nil => simp [insert, eq_comm]
  | cons e r ih =>
    obtain ⟨k', c⟩ := e
    simp only [insert]
    split
    · next hk =>
      subst hk
      simp only [get_cons]
      by_cases h : k' = l
      · subst h; simp
      · have h' : ¬ l = k' := fun e => h e.symm
        simp [h, h']
    · next hk =>
      simp only [get_cons, ih]
      by_cases h : k' = l
      · subst h; simp [hk]
      · simp [h]

theorem mem_insert (t : Table) (k l : Link) (c : Nat) (h : (l, c) ∈ t.insert k) :
    l = k ∨ (l, c) ∈ t := by
  induction t with
  | nil =>
    simp only [insert, List.mem_singleton, Prod.mk.injEq] at h
    exact Or.inl h.1
  | cons e r ih =>
    obtain ⟨k', c'⟩ := e
    simp only [insert] at h
    split at h
    · next hk =>
      subst hk
      rcases List.mem_cons.1 h with heq | hm
      · cases heq; exact Or.inl rfl
      · exact Or.inr (List.mem_cons_of_mem _ hm)
    · rcases List.mem_cons.1 h with heq | hm
      · cases heq; exact Or.inr List.mem_cons_self
      · rcases ih hm with h1 | h1
        · exact Or.inl h1
        · exact Or.inr (List.mem_cons_of_mem _ h1)

theorem WF_insert (t : Table) (hw : t.WF) (k : Link) : (t.insert k).WF := by
  induction t with
  | nil =>
    simp only [insert]
    rw [WF_cons]
    exact ⟨fun _ h => (nomatch h), Nat.one_pos, WF_nil⟩
  | cons e r ih =>
    obtain ⟨k', c⟩ := e
    rw [WF_cons] at hw
    simp only [insert]
    split
    · rw [WF_cons]; exact ⟨hw.1, Nat.succ_pos _, hw.2.2⟩
    · next hk =>
      rw [WF_cons]
      refine ⟨?_, hw.2.1, ih hw.2.2⟩
      intro c' hc'
      rcases mem_insert r k k' c' hc' with h1 | h1
      · exact hk h1
      · exact hw.1 c' h1

theorem mem_remove (t : Table) (k l : Link) (n c : Nat) (h : (l, c) ∈ t.remove k n) :
    ∃ c', (l, c') ∈ t := by
  induction t with
  | nil => cases h
  | cons e r ih =>
    obtain ⟨k', c'⟩ := e
    simp only [remove] at h
    split at h
    · next hk =>
      subst hk
      split at h
      · rcases List.mem_cons.1 h with heq | hm
        · cases heq; exact ⟨c', List.mem_cons_self⟩
        · exact ⟨c, List.mem_cons_of_mem _ hm⟩
      · exact ⟨c, List.mem_cons_of_mem _ h⟩
    · rcases List.mem_cons.1 h with heq | hm
      · cases heq; exact ⟨c, List.mem_cons_self⟩
      · obtain ⟨c'', h1⟩ := ih hm
        exact ⟨c'', List.mem_cons_of_mem _ h1⟩

theorem WF_remove (t : Table) (hw : t.WF) (k : Link) (n : Nat) : (t.remove k n).WF := by
  induction t with
  | nil => exact WF_nil
  | cons e r ih =>
    obtain ⟨k', c⟩ := e
    rw [WF_cons] at hw
    simp only [remove]
    split
    · split
      · rw [WF_cons]; exact ⟨hw.1, by omega, hw.2.2⟩
      · exact hw.2.2
    · rw [WF_cons]
      refine ⟨?_, hw.2.1, ih hw.2.2⟩
      intro c' hc'
      obtain ⟨c'', h1⟩ := mem_remove r k k' n c' hc'
      exact hw.1 c'' h1

theorem get_remove (t : Table) (hw : t.WF) (k l : Link) (n : Nat) :
    (t.remove k n).get l = if l = k then t.get k - n else t.get l := by
  induction t with
  | nil => simp [remove]
  | cons e r ih =>
    obtain ⟨k', c⟩ := e
    rw [WF_cons] at hw
    have ih := ih hw.2.2
    simp only [remove]
    split
    · next hk =>
      subst hk
      have h0 : get r k' = 0 := get_eq_zero_of_not_mem r k' hw.1
      split
      · simp only [get_cons]
        by_cases h : k' = l
        · subst h; simp
        · have h' : ¬ l = k' := fun e => h e.symm
          simp [h, h']
      · simp only [get_cons]
        by_cases h : k' = l
        · subst h; simp [h0]; omega
        · have h' : ¬ l = k' := fun e => h e.symm
          simp [h, h']
    · next hk =>
      simp only [get_cons, ih, hk, if_false]
      by_cases h : k' = l
      · subst h; simp [hk]
      · simp [h]

theorem remove_absent (t : Table) (k : Link) (n : Nat) (h : t.get k = 0) (hw : t.WF) :
    t.remove k n = t := by
  induction t with
  | nil => rfl
  | cons e r ih =>
    obtain ⟨k', c⟩ := e
    rw [WF_cons] at hw
    simp only [get_cons] at h
    simp only [remove]
    split
    · next hk => simp [hk] at h; omega
    · next hk => simp [hk] at h; rw [ih h hw.2.2]

theorem WF_filter (t : Table) (hw : t.WF) (p : Link × Nat → Bool) : WF (t.filter p) := by
  induction t with
  | nil => exact WF_nil
  | cons e r ih =>
    obtain ⟨k, c⟩ := e
    rw [WF_cons] at hw
    simp only [List.filter_cons]
    split
    · rw [WF_cons]
      exact ⟨fun c' hc' => hw.1 c' (List.mem_filter.1 hc').1, hw.2.1, ih hw.2.2⟩
    · exact ih hw.2.2

theorem get_filter (t : Table) (hw : t.WF) (p : Link × Nat → Bool) (l : Link) :
    get (t.filter p) l = if p (l, t.get l) then t.get l else 0 := by
  induction t with
  | nil => exact (ite_self _).symm
  | cons e r ih =>
    obtain ⟨k, c⟩ := e
    rw [WF_cons] at hw
    have ih := ih hw.2.2
    simp only [List.filter_cons, get_cons]
    by_cases hk : k = l
    · subst hk
      have h0 : get (List.filter p r) k = 0 :=
        get_eq_zero_of_not_mem _ k (fun c' hc' => hw.1 c' (List.mem_filter.1 hc').1)
      by_cases hp : p (k, c) = true
      · simp [hp]
      · simp [hp, h0]
    · by_cases hp : p (k, c) = true
      · simp [hp, hk, ih]
      · simp [hp, hk, ih]

theorem WF_perm (t u : Table) (hw : t.WF) (h : t.Perm u) : u.WF := by
  refine ⟨(List.Perm.nodup_iff (h.map _)).1 hw.1, ?_⟩
  intro e he
  exact hw.2 e (h.mem_iff.2 he)

theorem get_perm (t u : Table) (hw : t.WF) (h : t.Perm u) (l : Link) : t.get l = u.get l := by
  have hu := WF_perm t u hw h
  by_cases hm : ∃ c, (l, c) ∈ t
  · obtain ⟨c, hc⟩ := hm
    rw [mem_get t hw l c hc, mem_get u hu l c (h.mem_iff.1 hc)]
  · rw [get_eq_zero_of_not_mem t l (fun c hc => hm ⟨c, hc⟩),
      get_eq_zero_of_not_mem u l (fun c hc => hm ⟨c, h.mem_iff.2 hc⟩)]

theorem swapAt_perm (t : Table) (i : Nat) : (t.swapAt i).Perm t := by
  induction t, i using swapAt.induct with
  | case1 a b r => simp only [swapAt]; exact List.Perm.swap _ _ _
  | case2 a r i ih => simp only [swapAt]; exact ih.cons _
  | case3 t i h1 h2 => rw [swapAt.eq_3 t i h1 h2]

theorem WF_swapAt (t : Table) (hw : t.WF) (i : Nat) : (t.swapAt i).WF :=
  WF_perm t _ hw (swapAt_perm t i).symm

theorem get_swapAt (t : Table) (hw : t.WF) (i : Nat) (l : Link) : (t.swapAt i).get l = t.get l :=
  (get_perm t _ hw (swapAt_perm t i).symm l).symm

theorem insert_ne_nil (t : Table) (k : Link) : t.insert k ≠ [] := by
  cases t with
  | nil => simp [insert]
  | cons e r =>
    obtain ⟨k', c⟩ := e
    simp only [insert]
    split <;> simp

theorem get_eq_zero_of_nil_iff (t : Table) (hw : t.WF) : t = [] ↔ ∀ l, t.get l = 0 := by
  constructor
  · rintro rfl l; rfl
  · intro h
    cases t with
    | nil => rfl
    | cons e r =>
      obtain ⟨k, c⟩ := e
      rw [WF_cons] at hw
      have := h k
      simp only [get_cons, if_true] at this
      omega

/-- `n`-fold insert of `k` -/
def insertN (t : Table) (k : Link) : Nat → Table
  | 0 => t
  | n+1 => insertN (t.insert k) k n

/-- `n`-fold `remove k 1` -/
def removeN (t : Table) (k : Link) : Nat → Table
  | 0 => t
  | n+1 => removeN (t.remove k 1) k n

theorem removeN_nil (k : Link) (n : Nat) : removeN [] k n = [] := by
  induction n with
  | zero => rfl
  | succ n ih => simpa [removeN, remove] using ih

theorem insertN_single (k : Link) (c n : Nat) : insertN [(k, c)] k n = [(k, c + n)] := by
  induction n generalizing c with
  | zero => rfl
  | succ n ih => simp only [insertN, insert, if_true]; rw [ih]; congr 2; omega

theorem removeN_single (k : Link) (c : Nat) : removeN [(k, c + 1)] k (c + 1) = [] := by
  induction c with
  | zero => simp [removeN, remove]
  | succ c ih =>
    rw [removeN]
    have : remove [(k, c + 1 + 1)] k 1 = [(k, c + 1)] := by
      simp [remove]
    rw [this]; exact ih

/-- n-fold insert then n-fold `remove · 1` on the empty table gives back the empty table. -/
theorem removeN_insertN_nil (k : Link) (n : Nat) : removeN (insertN [] k n) k n = [] := by
  cases n with
  | zero => rfl
  | succ n =>
    simp only [insertN, insert]
    rw [insertN_single]
    have : 1 + n = n + 1 := by omega
    rw [this]
    exact removeN_single k n

end Table
end Cactus
