import Cactus.Lemmas.Final

/-!
# Where the adoption contract is needed

`step_invS_rcDrop` (Safety/Drop.lean) assumes the global contract `P`
(`∀ a b, isLive a → F a b ≤ H a b`).  This file shows that the contract is used only for pairs
*inside a group that passes the orphan test in this very step*:

* `closure_lemma_local`, `closure_keys_local`: the closure lemma with the contract restricted to
  members of the traced set;
* `rcDrop_invS_core_local`, `rcDrop_invS_local`, `step_invS_rcDrop_local`: the `rcDrop` step keeps
  `InvS` under the local contract;
* `stale_record_harmless_outside_group`: a stale adoption record (recorded but not backed by a held
  handle) endangers `InvS` only if owner and target both lie in a group that passes the test;
* `acts_need_no_contract`, `ops_need_no_contract`, `frames_need_no_contract`: every other transition
  keeps `InvS` with no contract at all.
-/

namespace Cactus
open State

/-! ## the closure lemma, local contract -/

/-- **closure, list form, local contract**: the contract is needed only between members of `R` -/
theorem closure_core_local (s : State) (R : List Nat) (hC : s.InvC)
    (hP : ∀ a b, a ∈ R → b ∈ R → s.F a b ≤ s.H a b) (hnd : R.Nodup)
    (hlive : ∀ k ∈ R, s.isLive k = true)
    (hle : ∀ m ∈ R, s.strongNat m ≤ sumList (R.map (fun n => s.F n m))) :
    ∀ m ∈ R, s.ext m = 0 ∧ s.pend m = 0 ∧ s.inHeap m = sumList (R.map (fun n => s.H n m)) := by
  intro m hm
  have h1 := hle m hm
  have h2 : sumList (R.map (fun n => s.F n m)) ≤ sumList (R.map (fun n => s.H n m)) :=
    sumList_map_le R _ _ (fun n hn => hP n m hn hm)
  have h3 := sumList_H_le_inHeap s R m hnd (fun k hk => isLive_lt (hlive k hk))
  have h4 := hC m (hlive m hm)
  omega

/-- **closure lemma, local contract.**  Same statement as `closure_lemma`, but the contract is
assumed only between members of the traced set. -/
theorem closure_lemma_local (s1 : State) (o : Nat) (hO : s1.InvO) (hB : s1.InvB) (hC : s1.InvC)
    (hPloc : ∀ a b, a ∈ (cycleRefs s1 o).visited → b ∈ (cycleRefs s1 o).visited →
      s1.F a b ≤ s1.H a b)
    (ho : s1.isLive o = true) (hne : (cycleRefs s1 o).cmap.isEmpty = false)
    (hext : hasExternalOwners s1 (cycleRefs s1 o).cmap = false) :
    ∀ m ∈ (cycleRefs s1 o).visited,
      s1.ext m = 0 ∧ s1.pend m = 0
      ∧ s1.inHeap m = sumOver (cycleRefs s1 o).visited (fun n => s1.H n m) := by
  have hkv := keys_eq_visited s1 o hO hB ho hne hext
  have := closure_core_local s1 (cycleRefs s1 o).visited hC hPloc (visited_nodup s1 o hO hB ho)
    (visited_live s1 o hO hB ho) (by
      intro m hm
      have h1 := strong_le_cmap s1 o hO hB ho hext m ((hkv m).mpr hm)
      rw [cmap_get_eq s1 o hO hB ho m] at h1
      exact h1)
  exact this

/-- the same statement over the key list of the cycle map -/
theorem closure_keys_local (s1 : State) (o : Nat) (hO : s1.InvO) (hB : s1.InvB) (hC : s1.InvC)
    (hPloc : ∀ a b, a ∈ (cycleRefs s1 o).visited → b ∈ (cycleRefs s1 o).visited →
      s1.F a b ≤ s1.H a b)
    (ho : s1.isLive o = true) (hne : (cycleRefs s1 o).cmap.isEmpty = false)
    (hext : hasExternalOwners s1 (cycleRefs s1 o).cmap = false) :
    ∀ m ∈ (cycleRefs s1 o).cmap.keys,
      s1.ext m = 0 ∧ s1.pend m = 0
      ∧ s1.inHeap m = sumList ((cycleRefs s1 o).cmap.keys.map (fun n => s1.H n m)) := by
  have hkv := keys_eq_visited s1 o hO hB ho hne hext
  have hperm : (cycleRefs s1 o).cmap.keys.Perm (cycleRefs s1 o).visited :=
    (List.perm_ext_iff_of_nodup (keys_nodup s1 o hO hB ho) (visited_nodup s1 o hO hB ho)).mpr hkv
  intro m hm
  obtain ⟨h1, h2, h3⟩ := closure_lemma_local s1 o hO hB hC hPloc ho hne hext m ((hkv m).mp hm)
  refine ⟨h1, h2, ?_⟩
  rw [h3, sumList_map_perm hperm]
  rfl

/-- the global contract implies the local one (so `closure_lemma` is an instance) -/
theorem local_of_P {s1 : State} (o : Nat) (hO : s1.InvO) (hB : s1.InvB) (ho : s1.isLive o = true)
    (hP : s1.P) : ∀ a b, a ∈ (cycleRefs s1 o).visited → b ∈ (cycleRefs s1 o).visited →
      s1.F a b ≤ s1.H a b :=
  fun a b ha _ => hP a b (visited_live s1 o hO hB ho a ha)

/-! ## the trace branch, local contract -/

/-- **the trace branch of `Rc::drop` keeps the safety invariant**: the contract is needed only if
the orphan test passes, and then only between members of the traced set -/
theorem trace_branch_invS_local (s1 : State) (o : Nat) (herr : s1.err = none) (hO : s1.InvO)
    (hB : s1.InvB) (hC : s1.InvC)
    (hPloc : (cycleRefs s1 o).cmap.isEmpty = false →
      hasExternalOwners s1 (cycleRefs s1 o).cmap = false →
      ∀ a b, a ∈ (cycleRefs s1 o).visited → b ∈ (cycleRefs s1 o).visited → s1.F a b ≤ s1.H a b)
    (hS : s1.InvSCore) (ho : s1.isLive o = true) :
    (s1.traceBranch o).InvS := by
  obtain ⟨hbad, hfuel⟩ := cycleRefs_ok s1 o hO hB ho
  unfold State.traceBranch
  simp only [hbad, hfuel]
  generalize he : Ev.traced o (cycleRefs s1 o).visited.length (cycleRefs s1 o).popped = e
  have hO2 : (s1.emit e).InvO := hO
  have hB2 : (s1.emit e).InvB := hB
  have hC2 : (s1.emit e).InvC := hC
  have hS2 : (s1.emit e).InvSCore := hS
  have hcr : cycleRefs (s1.emit e) o = cycleRefs s1 o := cycleRefs_emit s1 e o
  have ho2 : (s1.emit e).isLive o = true := ho
  have herr2 : (s1.emit e).err = none := herr
  have hfu := firstUnreadable_none (s1.emit e) o hO2 hB2 ho2
  rw [hcr] at hfu
  simp only [hfu]
  by_cases hemp : (cycleRefs s1 o).cmap.isEmpty = true
  · simp only [hemp]
    exact fun _ => hS2
  · have hemp' : (cycleRefs s1 o).cmap.isEmpty = false := by simpa using hemp
    simp only [hemp']
    cases hext : hasExternalOwners (s1.emit e) (cycleRefs s1 o).cmap with
    | true => exact fun _ => hS2
    | false =>
      intro _
      have hext1 : hasExternalOwners s1 (cycleRefs s1 o).cmap = false := hext
      have hne2 : (cycleRefs (s1.emit e) o).cmap.isEmpty = false := by rw [hcr]; exact hemp'
      have hext2 : hasExternalOwners (s1.emit e) (cycleRefs (s1.emit e) o).cmap = false := by
        rw [hcr]; exact hext
      have hP2 : ∀ a b, a ∈ (cycleRefs (s1.emit e) o).visited →
          b ∈ (cycleRefs (s1.emit e) o).visited → (s1.emit e).F a b ≤ (s1.emit e).H a b := by
        rw [hcr]; exact hPloc hemp' hext1
      have hT := dropCycle_teardown (s1.emit e) o hO2 hB2 herr2 ho2 hne2 hext2
      have hcl := closure_keys_local (s1.emit e) o hO2 hB2 hC2 hP2 ho2 hne2 hext2
      have := hT.invSCore hO2 hS2 hcl
      rw [hcr] at this
      simpa using this

/-! ## `rcDrop`, local contract -/

/-- the local contract for the `rcDrop o` step run in the (already popped) state `s0`: *if* the
object has at least two handles, and the trace started in the decremented state `s1` passes the
orphan test, then `F ≤ H` between members of the traced set -/
def State.LocalContract (s0 : State) (o : Nat) : Prop :=
  ∀ ob n, s0.cell o = some ob → ob.strong = .cnt (n + 2) →
    (cycleRefs (s0.setObj o { ob with strong := .cnt (n + 1) }) o).cmap.isEmpty = false →
    hasExternalOwners (s0.setObj o { ob with strong := .cnt (n + 1) })
      (cycleRefs (s0.setObj o { ob with strong := .cnt (n + 1) }) o).cmap = false →
    ∀ a b, a ∈ (cycleRefs (s0.setObj o { ob with strong := .cnt (n + 1) }) o).visited →
      b ∈ (cycleRefs (s0.setObj o { ob with strong := .cnt (n + 1) }) o).visited →
      (s0.setObj o { ob with strong := .cnt (n + 1) }).F a b
        ≤ (s0.setObj o { ob with strong := .cnt (n + 1) }).H a b

/-- the `rcDrop` step, stated for the state `s0` in which the frame has already been popped, under
the local contract only -/
theorem rcDrop_invS_core_local (s0 : State) (o : Nat) (herr : s0.err = none) (hO : s0.InvO)
    (hB : s0.InvB)
    (hC : ∀ t, s0.isLive t = true →
      s0.strongNat t = s0.ext t + s0.inHeap t + s0.pend t + (if t = o then 1 else 0))
    (hS : s0.InvSCore) (hPloc : s0.LocalContract o) : (s0.rcDrop o).InvS := by
  cases hc : s0.cell o with
  | none =>
    simp only [State.rcDrop, hc]
    exact InvS_fail _ _
  | some ob =>
    have hg := get_of_cell hc
    have hfr := freed_of_cell hc
    have hlt := get_lt hg
    cases hs : ob.strong with
    | uninit =>
      simp only [State.rcDrop, hc, hs]
      exact fun _ => hS
    | cnt k =>
      cases k with
      | zero =>
        simp only [State.rcDrop, hc, hs]
        exact fun _ => hS
      | succ n =>
        cases hl : ob.links with
        | none =>
          simp only [State.rcDrop, hc, hs, hl]
          exact InvS_fail _ _
        | some t =>
          cases n with
          | zero =>
            -- (c) last handle: no contract
            have hlive_o : s0.isLive o = true := by rw [isLive_of_get hg, hfr, hs]; rfl
            have hCo := hC o hlive_o
            rw [strongNat_of_get hg, hs] at hCo
            simp at hCo
            have hg1 : (s0.setObj o { ob with strong := .cnt 0 }).heap[o]?
                = some { ob with strong := .cnt 0 } := getElem?_setObj_same _ hlt
            have hl1 : ∀ x, x ≠ o → (s0.setObj o { ob with strong := .cnt 0 }).isLive x
                = s0.isLive x := fun x hx => isLive_setObj_other s0 _ hx
            have hin1 : ∀ x, (s0.setObj o { ob with strong := .cnt 0 }).inHeap x = s0.inHeap x :=
              inHeap_setObj_of_value_eq { ob with strong := .cnt 0 } hg rfl
            have hS1 : (s0.setObj o { ob with strong := .cnt 0 }).InvSCore := by
              obtain ⟨h1, h2, h3⟩ := hS
              refine ⟨fun x hx => ?_, fun x hx hnl => ?_, fun x => ?_⟩
              · rw [ext_setObj, hin1] at hx
                have hxo : x ≠ o := by intro e; subst e; omega
                rw [hl1 x hxo]
                exact h1 x hx
              · rw [pend_setObj] at hx
                have hxo : x ≠ o := by intro e; subst e; omega
                rw [hl1 x hxo] at hnl
                rw [getElem?_setObj_other s0 _ hxo]
                exact h2 x hx hnl
              · rw [setObj_stack]; exact h3 x
            have h01 : (s0.setObj o { ob with strong := .cnt 0 }).ext o
                + (s0.setObj o { ob with strong := .cnt 0 }).inHeap o
                + (s0.setObj o { ob with strong := .cnt 0 }).pend o = 0 := by
              rw [ext_setObj, hin1, pend_setObj]; omega
            by_cases hte : t.isEmpty = true
            · rw [rcDrop_eq_single_empty s0 o ob t hc hs hl hte]
              exact beginSingle_invS hg1 rfl hS1 h01
            · have hte' : t.isEmpty = false := by simpa using hte
              rw [rcDrop_eq_single_purge s0 o ob t hc hs hl hte']
              have hLO := LinksOnly.purgePeers (s0.setObj o { ob with strong := .cnt 0 }) o
              obtain ⟨ob', hg', a1, -, -, -, -⟩ := hLO.obj o _ hg1
              refine beginSingle_invS hg' a1 (hLO.invSCore hS1) ?_
              rw [hLO.ext_eq, hLO.inHeap_eq, hLO.pend_eq]
              exact h01
          | succ n =>
            have hO1 := dec_InvO hg hs hO
            have hB1 := dec_InvB hg hs hB
            have hC1 := dec_InvC hg hs hC
            have hS1 := dec_InvSCore hg hs hfr hS
            by_cases hte : t.isEmpty = true
            · rw [rcDrop_eq_dec_empty s0 o ob n t hc hs hl hte]
              exact fun _ => hS1
            · have hte' : t.isEmpty = false := by simpa using hte
              rw [State.rcDrop_eq_traceBranch s0 o ob n t hc hs hl hte']
              refine trace_branch_invS_local _ o herr hO1 hB1 hC1 (hPloc ob n hc hs) hS1 ?_
              rw [dec_isLive hg hs, isLive_of_get hg, hfr, hs]
              rfl

/-- **`InvS` is preserved by the `rcDrop` step under the local contract**: *if* this step's trace
(run in the decremented state `s1`) passes the orphan test, then the contract holds between members
of the traced set.  Nothing is assumed otherwise. -/
theorem rcDrop_invS_local {s : State} {o : Nat} {rest : List Frame} (herr : s.err = none)
    (hst : s.stack = Frame.rcDrop o :: rest) (hI : s.Inv) (hS : s.InvS)
    (hPloc : ∀ ob n, s.cell o = some ob → ob.strong = .cnt (n + 2) →
      let s1 := ({ s with stack := rest } : State).setObj o { ob with strong := .cnt (n + 1) }
      (cycleRefs s1 o).cmap.isEmpty = false →
      hasExternalOwners s1 (cycleRefs s1 o).cmap = false →
      ∀ a b, a ∈ (cycleRefs s1 o).visited → b ∈ (cycleRefs s1 o).visited →
        s1.F a b ≤ s1.H a b) :
    (({ s with stack := rest } : State).rcDrop o).InvS := by
  obtain ⟨hO, hB, hC, -, -⟩ := hI herr
  refine rcDrop_invS_core_local _ o herr (State.pop_InvO rest hO) (State.pop_InvB rest hB) ?_
    (pop_InvSCore hst (hS herr)) (fun ob n hc hs => hPloc ob n hc hs)
  intro t ht
  have h1 := hC t ht
  have h2 := pend_of_stack_cons hst t
  rw [Frame.strongTo_rcDrop] at h2
  show s.strongNat t = s.ext t + s.inHeap t + ({ s with stack := rest } : State).pend t
    + (if t = o then 1 else 0)
  by_cases hto : t = o
  · subst hto; simp at h2 ⊢; omega
  · have : ¬ o = t := fun e => hto e.symm
    simp [this, hto] at h2 ⊢; omega

/-- one machine step that runs an `rcDrop` frame keeps the safety invariant, under the local
contract only -/
theorem step_invS_rcDrop_local (s : State) (hI : s.Inv) (hS : s.InvS) (o : Nat)
    (rest : List Frame) (hst : s.stack = Frame.rcDrop o :: rest) (herr : s.err = none)
    (hPloc : ∀ ob n, s.cell o = some ob → ob.strong = .cnt (n + 2) →
      let s1 := ({ s with stack := rest } : State).setObj o { ob with strong := .cnt (n + 1) }
      (cycleRefs s1 o).cmap.isEmpty = false →
      hasExternalOwners s1 (cycleRefs s1 o).cmap = false →
      ∀ a b, a ∈ (cycleRefs s1 o).visited → b ∈ (cycleRefs s1 o).visited →
        s1.F a b ≤ s1.H a b) :
    (step s).InvS := by
  have : step s = ({ s with stack := rest } : State).rcDrop o := by
    unfold step
    simp only [herr, hst]
  rw [this]
  exact rcDrop_invS_local herr hst hI hS hPloc

/-- the global contract is a special case: `step_invS_rcDrop` follows from the local version -/
theorem step_invS_rcDrop_of_local (s : State) (hI : s.Inv) (hS : s.InvS) (hP : s.P) (o : Nat)
    (rest : List Frame) (hst : s.stack = Frame.rcDrop o :: rest) (herr : s.err = none) :
    (step s).InvS := by
  refine step_invS_rcDrop_local s hI hS o rest hst herr ?_
  intro ob n hc hs s1 _ _ a b ha _
  obtain ⟨hO, hB, -, -, -⟩ := hI herr
  have hg : ({ s with stack := rest } : State).heap[o]? = some ob := get_of_cell hc
  have hfr : ob.freed = false := freed_of_cell hc
  have hO1 : s1.InvO := dec_InvO hg hs (State.pop_InvO rest hO)
  have hB1 : s1.InvB := dec_InvB hg hs (State.pop_InvB rest hB)
  have ho1 : s1.isLive o = true := by
    show (({ s with stack := rest } : State).setObj o { ob with strong := .cnt (n + 1) }).isLive o
      = true
    rw [dec_isLive hg hs, isLive_of_get hg, hfr, hs]
    rfl
  exact (P_of_dec rest hg hs hP) a b (visited_live s1 o hO1 hB1 ho1 a ha)

/-! ## stale records -/

/-- a recorded adoption not backed by a held handle: what an elided `unadopt` leaves behind -/
def State.Stale (s : State) (a b : Nat) : Prop := s.isLive a = true ∧ s.H a b < s.F a b

/-- the contract is exactly the absence of stale records -/
theorem P_iff_no_stale (s : State) : s.P ↔ ∀ a b, ¬ s.Stale a b := by
  constructor
  · intro hP a b ⟨ha, hlt⟩
    have := hP a b ha
    omega
  · intro h a b ha
    apply Classical.byContradiction
    intro hn
    exact h a b ⟨ha, by omega⟩

/-- **C13, the part that remains true**: a stale adoption record can cause a premature destruction
only if both its owner and its target belong to a group that passes the orphan test in this step;
if no stale pair lies inside the group that this step collects, the safety invariant is kept. -/
theorem stale_record_harmless_outside_group (s : State) (hI : s.Inv) (hS : s.InvS)
    (herr : s.err = none) (o : Nat) (rest : List Frame) (hst : s.stack = Frame.rcDrop o :: rest)
    (hstale : ∀ ob n, s.cell o = some ob → ob.strong = .cnt (n + 2) →
      let s1 := ({ s with stack := rest } : State).setObj o { ob with strong := .cnt (n + 1) }
      (cycleRefs s1 o).cmap.isEmpty = false →
      hasExternalOwners s1 (cycleRefs s1 o).cmap = false →
      ∀ a b, s.Stale a b →
        ¬ (a ∈ (cycleRefs s1 o).visited ∧ b ∈ (cycleRefs s1 o).visited)) :
    (step s).InvS := by
  refine step_invS_rcDrop_local s hI hS o rest hst herr ?_
  intro ob n hc hs s1 hne hext a b ha hb
  obtain ⟨hO, hB, -, -, -⟩ := hI herr
  have hg : ({ s with stack := rest } : State).heap[o]? = some ob := get_of_cell hc
  have hfr : ob.freed = false := freed_of_cell hc
  have hO1 : s1.InvO := dec_InvO hg hs (State.pop_InvO rest hO)
  have hB1 : s1.InvB := dec_InvB hg hs (State.pop_InvB rest hB)
  have ho1 : s1.isLive o = true := by
    show (({ s with stack := rest } : State).setObj o { ob with strong := .cnt (n + 1) }).isLive o
      = true
    rw [dec_isLive hg hs, isLive_of_get hg, hfr, hs]
    rfl
  have hla : s1.isLive a = true := visited_live s1 o hO1 hB1 ho1 a ha
  have hla' : s.isLive a = true := by
    have : (({ s with stack := rest } : State).setObj o { ob with strong := .cnt (n + 1) }).isLive a
      = true := hla
    rw [dec_isLive hg hs] at this
    exact this
  have hF : s1.F a b = s.F a b := dec_F (s0 := { s with stack := rest }) hg a b
  have hH : s1.H a b = s.H a b := dec_H (s0 := { s with stack := rest }) hg a b
  apply Classical.byContradiction
  intro hn
  exact hstale ob n hc hs hne hext a b ⟨hla', by omega⟩ ⟨ha, hb⟩

/-! ## everything else needs no contract -/

/-- user-level actions preserve `InvS` without any contract -/
theorem acts_need_no_contract : type_of% @applyAct_invS := @applyAct_invS

/-- top-level operations preserve `InvS` without any contract -/
theorem ops_need_no_contract : type_of% @applyOp_invS := @applyOp_invS

/-- frames other than `rcDrop` preserve `InvS` without any contract
(this is `step_invS_nonDrop` of Safety/Acts.lean) -/
theorem frames_need_no_contract (s : State) (hI : s.Inv) (hS : s.InvS)
    (hf : ∀ o rest, s.stack ≠ .rcDrop o :: rest) : (step s).InvS :=
  step_invS_nonDrop s hI hS hf

/-- **summary**: one machine step keeps `InvS` provided that, *if* the step is an `rcDrop` whose
trace passes the orphan test, the contract holds inside the traced group -/
theorem step_invS_local (s : State) (hI : s.Inv) (hS : s.InvS)
    (hPloc : ∀ o rest ob n, s.stack = Frame.rcDrop o :: rest → s.cell o = some ob →
      ob.strong = .cnt (n + 2) →
      let s1 := ({ s with stack := rest } : State).setObj o { ob with strong := .cnt (n + 1) }
      (cycleRefs s1 o).cmap.isEmpty = false →
      hasExternalOwners s1 (cycleRefs s1 o).cmap = false →
      ∀ a b, a ∈ (cycleRefs s1 o).visited → b ∈ (cycleRefs s1 o).visited →
        s1.F a b ≤ s1.H a b) :
    (step s).InvS := by
  cases herr : s.err with
  | some e =>
    have : step s = s := by unfold step; simp only [herr]
    rw [this]; exact hS
  | none =>
    by_cases hf : ∃ o rest, s.stack = Frame.rcDrop o :: rest
    · obtain ⟨o, rest, hst⟩ := hf
      exact step_invS_rcDrop_local s hI hS o rest hst herr (fun ob n => hPloc o rest ob n hst)
    · exact step_invS_nonDrop s hI hS (fun o rest h => hf ⟨o, rest, h⟩)

end Cactus
