import Cactus.Lemmas.Final
/-!
# Completeness of the collector on the trace path (property C03)

"An orphaned adopted group is destroyed in full by the drop that orphans it."

* `orphan_test_passes`: in a state satisfying the invariants, if every strong handle to every
  object reachable from the live object `x` through recorded adoptions is itself a recorded adoption
  held by an object of that same set, then the trace from `x` yields a non-empty cycle map whose
  keys are exactly that set and the orphan test passes.
* `noStale_of_P`: hypothesis (iv) follows from (ii) and the adoption contract `P`.
* `C03_group_collected`: the `Rc::drop` step on the trace path performs the group teardown of
  exactly that set.
* `C03_last_handle_links`: the last-handle rule for an object with any link table.
-/
namespace Cactus
open State

/-! ## a value of a non-live object holds nothing -/

theorem State.H_of_not_live {s : State} (hO : s.InvO) {a : Nat} (ha : s.isLive a = false) (m : Nat) :
    s.H a m = 0 := by
  cases hg : s.heap[a]? with
  | none => exact H_of_get_none hg m
  | some ob =>
    obtain ⟨h1, h2, h3, -⟩ := hO a ob hg
    rw [H_of_get hg]
    have hv : ob.value = none := by
      cases hs : ob.strong with
      | uninit => exact (h3 hs).1
      | cnt k =>
        cases k with
        | zero => exact (h2 hs).1
        | succ k =>
          have hfr := (h1 k hs).2.2.1
          rw [isLive_of_get hg, hfr, hs] at ha
          simp [Strong.isDead] at ha
    rw [Obj.heldList_of_none hv]
    rfl

/-! ## the orphan test passes on a closed group -/

section group
variable (s : State) (x : Nat)

/-- the handles stored in the heap that designate a member of a closed group are stored in values
of visited objects -/
theorem inHeap_eq_visited (hI : s.InvCore) (hx : s.isLive x = true)
    (hii : ∀ m a, FwdReach s x m → ¬ FwdReach s x a → s.isLive a = true → s.H a m = 0)
    (m : Nat) (hm : FwdReach s x m) :
    s.inHeap m = sumList ((cycleRefs s x).visited.map (fun a => s.H a m)) := by
  obtain ⟨hO, hB, -, -, -⟩ := hI
  obtain ⟨hb, hf⟩ := cycleRefs_ok s x hO hB hx
  obtain ⟨-, hnd, -, -, hreach, -, -, -, -⟩ := cycleRefs_spec s x hb hf
  have hlt : ∀ k ∈ (cycleRefs s x).visited, k < s.heap.length :=
    fun k hk => isLive_lt (visited_live s x hO hB hx k hk)
  rw [← sumList_range_indicator s.heap.length _ (fun a => s.H a m) hnd hlt]
  unfold State.inHeap
  apply sumList_range_congr
  intro a _
  by_cases hav : a ∈ (cycleRefs s x).visited
  · rw [if_pos hav]; rfl
  · rw [if_neg hav]
    show s.H a m = 0
    cases hl : s.isLive a with
    | false => exact State.H_of_not_live hO hl m
    | true =>
      apply hii m a hm _ hl
      intro hR
      exact hav ((cycleRefs_spec s x hb hf).2.2.2.2.2.2.1 a hR)

/-- **the orphan test passes**: non-empty map, keys = reachable set, no external owner -/
theorem orphan_test_passes (hI : s.InvCore) (hx : s.isLive x = true)
    (hi : ∀ m, FwdReach s x m → s.ext m = 0 ∧ s.pend m = 0)
    (hii : ∀ m a, FwdReach s x m → ¬ FwdReach s x a → s.isLive a = true → s.H a m = 0)
    (hiii : ∀ m a, FwdReach s x m → FwdReach s x a → s.H a m ≤ s.F a m)
    (hiv : ∀ m a, FwdReach s x m → ¬ FwdReach s x a → s.isLive a = true → s.F a m = 0) :
    (cycleRefs s x).cmap.isEmpty = false
    ∧ hasExternalOwners s (cycleRefs s x).cmap = false
    ∧ (∀ k, k ∈ (cycleRefs s x).cmap.keys ↔ FwdReach s x k) := by
  have hI' := hI
  obtain ⟨hO, hB, hC, -, -⟩ := hI
  obtain ⟨hb, hf⟩ := cycleRefs_ok s x hO hB hx
  obtain ⟨hxv, hnd, hknd, -, hreach, hcl, hcomp, -, hkeys⟩ := cycleRefs_spec s x hb hf
  -- A: the strong count of a member is bounded by its cycle-owned count
  have hA : ∀ m, FwdReach s x m → s.strongNat m = s.inHeap m
      ∧ s.strongNat m ≤ (cycleRefs s x).cmap.get m := by
    intro m hm
    have hml : s.isLive m = true := hm.live hB hx
    have h0 := hC m hml
    obtain ⟨h1, h2⟩ := hi m hm
    have h3 := inHeap_eq_visited s x hI' hx hii m hm
    have h4 : sumList ((cycleRefs s x).visited.map (fun a => s.H a m))
        ≤ sumList ((cycleRefs s x).visited.map (fun a => s.F a m)) :=
      sumList_map_le _ _ _ (fun a ha => hiii m a hm (hreach a ha))
    have h5 : (cycleRefs s x).cmap.get m
        = sumList ((cycleRefs s x).visited.map (fun a => s.F a m)) := cmap_get_eq s x hO hB hx m
    constructor <;> omega
  -- B: every key is reachable
  have hBk : ∀ k, k ∈ (cycleRefs s x).cmap.keys → FwdReach s x k := by
    intro k hk
    obtain ⟨n, hn, hnm⟩ := (hkeys k).mp ((CMap.has_iff_mem_keys _ _).mpr hk)
    rcases hnm with ⟨c, hc⟩ | ⟨c, hc⟩
    · exact FwdReach.step (hreach n hn) hc
    · apply Classical.byContradiction
      intro hnR
      have hkl : s.isLive k = true := s.entry_live hB hc (by simp)
      have hnl : s.isLive n = true := (hreach n hn).live hB hx
      have hpos : 0 < s.B n k := (s.B_pos_iff hB n k).mpr ⟨c, hc⟩
      have hsym := hB.2 k n hkl hnl
      have := hiv n k (hreach n hn) hnR hkl
      omega
  -- D: the start object is a key
  have hxk : x ∈ (cycleRefs s x).cmap.keys := by
    obtain ⟨j, hso, hsn⟩ := State.live_strong hx
    have hAx := (hA x (FwdReach.refl x)).1
    have h3 := inHeap_eq_visited s x hI' hx hii x (FwdReach.refl x)
    have hpos : 0 < sumOver (cycleRefs s x).visited (fun a => s.H a x) := by
      show 0 < sumList ((cycleRefs s x).visited.map (fun a => s.H a x))
      omega
    obtain ⟨a, ha, hH⟩ := sumOver_pos hpos
    have hF := hiii x a (FwdReach.refl x) (hreach a ha)
    obtain ⟨c, hc⟩ := (s.F_pos_iff hB a x).mp (by omega)
    exact (CMap.has_iff_mem_keys _ _).mp ((hkeys x).mpr ⟨a, ha, Or.inl ⟨c, hc⟩⟩)
  have hne : (cycleRefs s x).cmap.isEmpty = false := by
    cases hm : (cycleRefs s x).cmap with
    | nil => rw [hm] at hxk; simp [CMap.keys] at hxk
    | cons e r => rfl
  -- C: no key has an external owner
  have hext : hasExternalOwners s (cycleRefs s x).cmap = false := by
    unfold hasExternalOwners
    rw [List.any_eq_false]
    intro e he
    have hek : e.1 ∈ (cycleRefs s x).cmap.keys := CMap.mem_keys_of_mem he
    have hget : (cycleRefs s x).cmap.get e.1 = e.2 := CMap.get_of_mem _ hknd e.1 e.2 he
    have hR := hBk e.1 hek
    obtain ⟨j, hso, hsn⟩ := State.live_strong (hR.live hB hx)
    have hle := (hA e.1 hR).2
    rw [hso]
    simp only [strongExceeds, decide_eq_true_eq]
    omega
  refine ⟨hne, hext, ?_⟩
  intro k
  rw [keys_eq_visited s x hO hB hx hne hext k]
  exact ⟨hreach k, hcomp k⟩

/-- hypothesis (iv) ("no stale record from outside") follows from (ii) and the contract `P` -/
theorem noStale_of_P (hP : s.P)
    (hii : ∀ m a, FwdReach s x m → ¬ FwdReach s x a → s.isLive a = true → s.H a m = 0) :
    ∀ m a, FwdReach s x m → ¬ FwdReach s x a → s.isLive a = true → s.F a m = 0 := by
  intro m a hm ha hl
  have h1 := hP a m hl
  have h2 := hii m a hm ha hl
  omega

end group

/-! ## the group rule on the trace path -/

/-- the state in which the trace of `Rc::drop` runs: the `rcDrop x` frame popped, the strong count
of `x` decremented to `n + 1` -/
abbrev State.decTop (s : State) (rest : List Frame) (x : Nat) (ob : Obj) (n : Nat) : State :=
  ({ s with stack := rest } : State).setObj x { ob with strong := .cnt (n + 1) }

theorem step_eq_traceBranch (s : State) (x : Nat) (rest : List Frame) (ob : Obj) (n : Nat) (t : Table)
    (herr : s.err = none) (hst : s.stack = .rcDrop x :: rest) (hc : s.cell x = some ob)
    (hs : ob.strong = .cnt (n + 2)) (hl : ob.links = some t) (hne : t.isEmpty = false) :
    step s = (s.decTop rest x ob n).traceBranch x := by
  have hc0 : ({ s with stack := rest } : State).cell x = some ob := by simpa using hc
  have e : step s = ({ s with stack := rest } : State).rcDrop x := by
    unfold step; simp only [herr, hst]
  rw [e]
  exact State.rcDrop_eq_traceBranch _ x ob n t hc0 hs hl hne

/-- **C03, group rule on the trace path.**  `s` is about to run `<Rc as Drop>::drop` of a handle to
`x`, `x` keeps a positive count and has a non-empty link table.  If afterwards (in `s1`) every
strong handle to every object reachable from `x` through recorded adoptions is itself a recorded
adoption held by an object of that same set, then this very step tears down exactly that set:
the orphan test passes, the step is `dropCycle` on a map whose keys are the reachable set, the
stack becomes `destructors ++ [phase3 keys] ++ rest`, and every member's value has been moved out
(its destructor is among the scheduled ones) and the member is marked `uninit` with value and
table gone. -/
theorem C03_group_collected (s : State) (x : Nat) (rest : List Frame) (ob : Obj) (n : Nat) (t : Table)
    (herr : s.err = none) (hI : s.Inv) (hst : s.stack = .rcDrop x :: rest)
    (hc : s.cell x = some ob) (hs : ob.strong = .cnt (n + 2)) (hl : ob.links = some t)
    (hne : t.isEmpty = false)
    (hi : ∀ m, FwdReach (s.decTop rest x ob n) x m →
      (s.decTop rest x ob n).ext m = 0 ∧ (s.decTop rest x ob n).pend m = 0)
    (hii : ∀ m a, FwdReach (s.decTop rest x ob n) x m → ¬ FwdReach (s.decTop rest x ob n) x a →
      (s.decTop rest x ob n).isLive a = true → (s.decTop rest x ob n).H a m = 0)
    (hiii : ∀ m a, FwdReach (s.decTop rest x ob n) x m → FwdReach (s.decTop rest x ob n) x a →
      (s.decTop rest x ob n).H a m ≤ (s.decTop rest x ob n).F a m)
    (hiv : ∀ m a, FwdReach (s.decTop rest x ob n) x m → ¬ FwdReach (s.decTop rest x ob n) x a →
      (s.decTop rest x ob n).isLive a = true → (s.decTop rest x ob n).F a m = 0) :
    let s1 := s.decTop rest x ob n
    let tr := cycleRefs s1 x
    let s2 := s1.emit (.traced x tr.visited.length tr.popped)
    tr.cmap.isEmpty = false
    ∧ hasExternalOwners s2 tr.cmap = false
    ∧ step s = s2.dropCycle tr.cmap
    ∧ (step s).err = none
    ∧ (∀ k, k ∈ tr.cmap.keys ↔ FwdReach s1 x k)
    ∧ ∃ vs : List Val,
        (step s).stack = vs.map Frame.dropVal ++ [Frame.phase3 tr.cmap.keys] ++ rest
        ∧ ∀ m, FwdReach s1 x m →
            ∃ v, (s.heap[m]?).bind (·.value) = some v
              ∧ v ∈ vs
              ∧ Frame.dropVal v ∈ (step s).stack
              ∧ ∃ ob', (step s).heap[m]? = some ob' ∧ ob'.strong = .uninit ∧ ob'.value = none
                  ∧ ob'.links = none := by
  intro s1 tr s2
  have hI1 : s1.InvCore := rcDrop_inv_dec_state herr hst hI hc hs
  have hg : s.heap[x]? = some ob := get_of_cell hc
  have hfr : ob.freed = false := freed_of_cell hc
  have hlt : x < s.heap.length := get_lt hg
  have hg1 : s1.heap[x]? = some { ob with strong := .cnt (n + 1) } :=
    getElem?_setObj_same _ hlt
  have hx1 : s1.isLive x = true := by
    rw [isLive_of_get hg1]; simp [hfr, Strong.isDead]
  have herr1 : s1.err = none := herr
  obtain ⟨hne1, hext1, hkR⟩ := orphan_test_passes s1 x hI1 hx1 hi hii hiii hiv
  have hstep : step s = s1.traceBranch x := step_eq_traceBranch s x rest ob n t herr hst hc hs hl hne
  -- the emitted state
  have hcr : cycleRefs s2 x = tr := cycleRefs_emit s1 _ x
  have hO2 : s2.InvO := hI1.1
  have hB2 : s2.InvB := hI1.2.1
  have herr2 : s2.err = none := herr1
  have hx2 : s2.isLive x = true := hx1
  have hext2 : hasExternalOwners s2 tr.cmap = false := hext1
  have hbr : s1.traceBranch x = s2.dropCycle tr.cmap := by
    obtain ⟨hbad, hfuel⟩ := cycleRefs_ok s1 x hI1.1 hI1.2.1 hx1
    have hfu := firstUnreadable_none s2 x hO2 hB2 hx2
    rw [hcr] at hfu
    unfold State.traceBranch
    simp only [hbad, hfuel]
    show (if tr.cmap.isEmpty = true then s2 else
      match firstUnreadable s2 tr.cmap with
      | some b => s2.fail (.uaf b)
      | none => if hasExternalOwners s2 tr.cmap = true then s2 else s2.dropCycle tr.cmap) = _
    rw [hne1, hfu, hext2]
    simp
  have hT : Teardown s2 (s2.dropCycle tr.cmap) tr.cmap.keys (s2.cyc2 tr.cmap).2 := by
    have := dropCycle_teardown s2 x hO2 hB2 herr2 hx2 (by rw [hcr]; exact hne1)
      (by rw [hcr]; exact hext2)
    rw [hcr] at this
    exact this
  have herr' : (s2.dropCycle tr.cmap).err = none := by
    have hR := cycleReady_of_inv s2 x hO2 hB2 herr2 hx2 (by rw [hcr]; exact hext2)
    rw [hcr] at hR
    rw [dropCycle_eq s2 tr.cmap hR]
    exact herr2
  refine ⟨hne1, hext2, hstep.trans hbr, ?_, hkR, ?_⟩
  · rw [hstep, hbr]; exact herr'
  · obtain ⟨vs', hperm, hstk⟩ := hT.stack
    refine ⟨vs', ?_, ?_⟩
    · rw [hstep, hbr, hstk]; rfl
    · intro m hm
      have hmk : m ∈ tr.cmap.keys := (hkR m).mpr hm
      obtain ⟨obm, j, hgm, -, hsm, hgm'⟩ := hT.key_obj hmk
      obtain ⟨h1, -⟩ := hO2 m obm hgm
      obtain ⟨hv, -, -, -⟩ := h1 j hsm
      cases hvv : obm.value with
      | none => rw [hvv] at hv; cases hv
      | some v =>
        have hbind2 : (s2.heap[m]?).bind (fun o => o.value) = some v := by
          rw [hgm]; exact hvv
        have hvmem : v ∈ (s2.cyc2 tr.cmap).2 := by
          have : some v ∈ (s2.cyc2 tr.cmap).2.map some := by
            rw [hT.vals, ← hbind2]
            exact List.mem_map.mpr ⟨m, hmk, rfl⟩
          obtain ⟨w, hw, hwe⟩ := List.mem_map.mp this
          cases hwe
          exact hw
        have hvmem' : v ∈ vs' := hperm.mem_iff.mpr hvmem
        -- the value in the original state
        have hbind : (s.heap[m]?).bind (fun o => o.value) = some v := by
          have hgm1 : s1.heap[m]? = some obm := hgm
          by_cases hmx : m = x
          · subst hmx
            rw [hg1] at hgm1
            cases hgm1
            rw [hg]
            exact hvv
          · have : s1.heap[m]? = s.heap[m]? := getElem?_setObj_other _ _ hmx
            rw [← this, hgm1]
            exact hvv
        refine ⟨v, hbind, hvmem', ?_, p2Obj obm, ?_, rfl, rfl, rfl⟩
        · rw [hstep, hbr, hstk]
          simp only [List.mem_append, List.mem_map]
          exact Or.inl (Or.inl ⟨v, hvmem', rfl⟩)
        · rw [hstep, hbr]; exact hgm'

/-! ## the last-handle rule with adoptions -/

/-- **C03, last-handle rule (any link table).**  Dropping the last strong handle of `x` moves its
value out and schedules its destructor in that very step, above the rest of the stack, and marks
`x` uninit. -/
theorem C03_last_handle_links (s : State) (x : Nat) (rest : List Frame) (ob : Obj)
    (herr : s.err = none) (hI : s.Inv) (hst : s.stack = .rcDrop x :: rest)
    (hc : s.cell x = some ob) (hs : ob.strong = .cnt 1) :
    ∃ v, ob.value = some v
      ∧ (step s).stack = Frame.dropVal v :: Frame.finishSingle x :: rest
      ∧ Frame.dropVal v ∈ (step s).stack
      ∧ ∃ ob', (step s).heap[x]? = some ob' ∧ ob'.strong = .uninit ∧ ob'.value = none := by
  obtain ⟨hO, -, -, -, -⟩ := hI herr
  have hg : s.heap[x]? = some ob := get_of_cell hc
  have hfr : ob.freed = false := freed_of_cell hc
  have hlt : x < s.heap.length := get_lt hg
  obtain ⟨hv, hlk, -, -⟩ := (hO x ob hg).1 0 hs
  cases hvv : ob.value with
  | none => rw [hvv] at hv; cases hv
  | some v =>
  cases hll : ob.links with
  | none => rw [hll] at hlk; cases hlk
  | some t =>
  have hc0 : ({ s with stack := rest } : State).cell x = some ob := by simpa using hc
  -- the state on which `beginSingle` runs
  have key : ∀ sp : State, sp.stack = rest →
      (∃ ob2, sp.cell x = some ob2 ∧ ob2.strong = .cnt 0 ∧ ob2.value = some v) →
      (sp.beginSingle x).stack = Frame.dropVal v :: Frame.finishSingle x :: rest
      ∧ ∃ ob', (sp.beginSingle x).heap[x]? = some ob' ∧ ob'.strong = .uninit ∧ ob'.value = none := by
    intro sp hsp ⟨ob2, hc2, hs2, hv2⟩
    rw [beginSingle_of_cnt hc2 hs2 hv2]
    refine ⟨by simp [hsp], { ob2 with strong := .uninit, value := none }, ?_, rfl, rfl⟩
    rw [push_heap]
    exact getElem?_setObj_same _ (get_lt (get_of_cell hc2))
  have hcell0 : (({ s with stack := rest } : State).setObj x { ob with strong := .cnt 0 }).cell x
      = some { ob with strong := .cnt 0 } := by
    rw [cell_setObj_same _ x ob _ hc0]
    simp [hfr]
  have hres : (step s).stack = Frame.dropVal v :: Frame.finishSingle x :: rest
      ∧ ∃ ob', (step s).heap[x]? = some ob' ∧ ob'.strong = .uninit ∧ ob'.value = none := by
    have hstep : step s = ({ s with stack := rest } : State).rcDrop x := by
      unfold step
      simp only [herr, hst]
    rw [hstep]
    cases hemp : t.isEmpty with
    | true =>
      rw [rcDrop_eq_single_empty _ x ob t hc0 hs hll hemp]
      exact key _ rfl ⟨_, hcell0, rfl, hvv⟩
    | false =>
      rw [rcDrop_eq_single_purge _ x ob t hc0 hs hll hemp]
      have hLO := LinksOnly.purgePeers
        (({ s with stack := rest } : State).setObj x { ob with strong := .cnt 0 }) x
      obtain ⟨ob2, hg2, hE⟩ := hLO.obj x _ (get_of_cell hcell0)
      obtain ⟨e1, e3, e4, _, _⟩ := hE
      refine key _ hLO.stack ⟨ob2, ?_, e1, e3.trans hvv⟩
      rw [cell_of_get hg2, e4]
      simp [hfr]
  exact ⟨v, rfl, hres.1, by rw [hres.1]; exact List.mem_cons_self, hres.2⟩

end Cactus
