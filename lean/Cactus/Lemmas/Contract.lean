import Cactus.Lemmas.Final
/-!
# The adoption contract as a syntactic condition on histories

`ReachableP` (Spec/Reach.lean) asks for the contract `P` in every state passed through.  Here we
show that this semantic hypothesis follows from a syntactic one: the history never uses the two
primitive calls `adopt` and `take` on their own (it uses the paired forms `link` / `unlink`).

* `State.PLe s s'`: "contract-monotone" step (recorded adoptions of survivors do not grow, their
  stored handles do not shrink, fresh objects record nothing).  `P` is preserved along `PLe`.
* `step_P`, `applyAct_P`, `applyOp_P`: the machine keeps `P`.
* `State.ScriptsC`: every destructor script in the state is contract-respecting; preserved.
* `ReachableC`, `ReachableC.reachableP`, `contract_respecting_history_safe`, `run_reachableC`.
-/
namespace Cactus

/-- the actions that cannot break the adoption contract on their own: everything except the two
primitive calls `adopt` (records an adoption without storing a handle) and `take` (removes a stored
handle without `unadopt`) -/
def Act.respects : Act → Prop
  | .adopt _ _ => False
  | .take _ _ => False
  | _ => True

instance : DecidablePred Act.respects := fun a => by
  cases a <;> simp only [Act.respects] <;> infer_instance

/-- contract-respecting operations -/
def Op.respects : Op → Prop
  | .act a => a.respects
  | .setScript _ acts => ∀ a ∈ acts, a.respects
  | .shuffle _ _ => True

instance : DecidablePred Op.respects := fun o => by
  cases o <;> simp only [Op.respects] <;> infer_instance

namespace State

/-! ## contract-monotone steps -/

/-- every object live afterwards either records no adoption at all, or was live before, records no
more adoptions and stores no fewer handles -/
def PLe (s s' : State) : Prop :=
  ∀ a, s'.isLive a = true →
    (∀ b, s'.F a b = 0) ∨ (s.isLive a = true ∧ ∀ b, s'.F a b ≤ s.F a b ∧ s.H a b ≤ s'.H a b)

theorem PLe.P {s s' : State} (h : PLe s s') (hP : s.P) : s'.P := by
  intro a b ha
  rcases h a ha with h0 | ⟨hl, hb⟩
  · rw [h0 b]; exact Nat.zero_le _
  · have := hP a b hl
    have := hb b
    omega

theorem PLe.refl (s : State) : PLe s s :=
  fun _ ha => Or.inr ⟨ha, fun _ => ⟨Nat.le_refl _, Nat.le_refl _⟩⟩

theorem PLe.trans {s s' s'' : State} (h1 : PLe s s') (h2 : PLe s' s'') : PLe s s'' := by
  intro a ha
  rcases h2 a ha with h0 | ⟨hl, hb⟩
  · exact Or.inl h0
  · rcases h1 a hl with h0 | ⟨hl', hb'⟩
    · left
      intro b
      have := (hb b).1
      have := h0 b
      omega
    · right
      refine ⟨hl', fun b => ?_⟩
      have := hb b
      have := hb' b
      omega

theorem PLe.of_eq {s s' : State} (hl : ∀ x, s'.isLive x = s.isLive x)
    (hF : ∀ a b, s'.F a b = s.F a b) (hH : ∀ a b, s'.H a b = s.H a b) : PLe s s' := by
  intro a ha
  right
  rw [hl] at ha
  exact ⟨ha, fun b => by rw [hF, hH]; exact ⟨Nat.le_refl _, Nat.le_refl _⟩⟩

theorem PLe.of_heap {s s' : State} (hh : s'.heap = s.heap) : PLe s s' :=
  PLe.of_eq (isLive_congr hh) (F_congr hh) (H_congr hh)

theorem PLe.fail (s : State) (e : Err) : PLe s (s.fail e) := PLe.of_heap (fail_heap s e)
theorem PLe.emit (s : State) (e : Ev) : PLe s (s.emit e) := PLe.of_heap rfl
theorem PLe.push (s : State) (fs : List Frame) : PLe s (s.push fs) := PLe.of_heap rfl

theorem PLe.badRoot (s : State) (r : Nat) : PLe s (s.badRoot r) := by
  rcases badRoot_cases s r with e | ⟨e, he⟩
  · rw [e]; exact PLe.refl s
  · rw [he]; exact PLe.fail s e

/-- the general heap update: if the new object is live then so was the old one, no recorded count
grew and no stored handle was lost -/
theorem PLe.setObj {s : State} {o : Nat} {ob ob' : Obj} (hg : s.heap[o]? = some ob)
    (h : (!ob'.freed && !ob'.strong.isDead) = true →
      (!ob.freed && !ob.strong.isDead) = true
      ∧ (∀ l, (ob'.links.getD []).get l ≤ (ob.links.getD []).get l)
      ∧ ∀ b, ob.heldList.count b ≤ ob'.heldList.count b) : PLe s (s.setObj o ob') := by
  intro a ha
  right
  by_cases hao : a = o
  · subst hao
    have hlt := get_lt hg
    rw [isLive_setObj_same ob' hlt] at ha
    obtain ⟨h1, h2, h3⟩ := h ha
    have hf' : ob'.freed = false := by
      cases hf : ob'.freed <;> simp [hf] at ha ⊢
    have hf : ob.freed = false := by
      cases hf : ob.freed <;> simp [hf] at h1 ⊢
    refine ⟨by rw [isLive_of_get hg]; exact h1, fun b => ⟨?_, ?_⟩⟩
    · rw [F_setObj_same ob' hlt, F_def, tbl_of_get hg, hf, hf']
      exact h2 _
    · rw [H_setObj_same ob' hlt, H_of_get hg]
      exact h3 b
  · rw [isLive_setObj_other s ob' hao] at ha
    refine ⟨ha, fun b => ?_⟩
    rw [F_setObj_other s ob' hao, H_setObj_other s ob' hao]
    exact ⟨Nat.le_refl _, Nat.le_refl _⟩

/-- the new object is not live -/
theorem PLe.setObj_dead {s : State} {o : Nat} {ob ob' : Obj} (hg : s.heap[o]? = some ob)
    (hd : (!ob'.freed && !ob'.strong.isDead) = false) : PLe s (s.setObj o ob') :=
  PLe.setObj hg (fun h => by rw [hd] at h; cases h)

/-- only counters change -/
theorem PLe.setObj_keep {s : State} {o : Nat} {ob ob' : Obj} (hg : s.heap[o]? = some ob)
    (hf : ob'.freed = ob.freed) (hs : ob.strong.isDead = true → ob'.strong.isDead = true)
    (hl : ob'.links = ob.links) (hv : ob'.value = ob.value) : PLe s (s.setObj o ob') := by
  refine PLe.setObj hg (fun h => ⟨?_, ?_, ?_⟩)
  · rw [hf] at h
    cases hd : ob.strong.isDead with
    | false => simp only [Bool.and_eq_true, Bool.not_eq_true'] at h ⊢; exact ⟨h.1, trivial⟩
    | true => simp [hs hd] at h
  · intro l; rw [hl]; exact Nat.le_refl _
  · intro b; rw [Obj.heldList_congr hv]; exact Nat.le_refl _

theorem PLe.incStrong (s : State) (o : Nat) : PLe s (s.incStrong o) :=
  PLe.of_eq (by simp) (by simp) (by simp)

theorem PLe.incWeak (s : State) (o : Nat) : PLe s (s.incWeak o) :=
  PLe.of_eq (by simp) (by simp) (by simp)

theorem PLe.foldl {α : Type} (g : State → α → State) (hg : ∀ s a, PLe s (g s a)) :
    ∀ (l : List α) (s : State), PLe s (l.foldl g s) := by
  intro l
  induction l with
  | nil => intro s; exact PLe.refl s
  | cons a l ih => intro s; exact (hg s a).trans (ih (g s a))

theorem PLe.cloneHandles (s : State) (v : Val) : PLe s (s.cloneHandles v) := by
  unfold State.cloneHandles
  exact (PLe.foldl _ PLe.incStrong _ s).trans (PLe.foldl _ PLe.incWeak _ _)

theorem PLe.decWeakFree (s : State) (o : Nat) (imp : Bool) : PLe s (s.decWeakFree o imp) := by
  rcases decWeakFree_cases s o imp with ⟨e, h⟩ | ⟨ob, hc, hw, h⟩ | ⟨ob, w, hc, hw, h⟩ <;> rw [h]
  · exact PLe.fail s e
  · exact (PLe.setObj_dead (get_of_cell hc) (by simp)).trans (PLe.emit _ _)
  · exact PLe.setObj_keep (get_of_cell hc) rfl (fun h => h) rfl rfl

/-- a table update that does not increase any recorded count -/
theorem PLe.setLinks {s : State} {o : Nat} {f : Table → Table}
    (hf : ∀ t, s.tableOf o = some t → ∀ l, (f t).get l ≤ t.get l) : PLe s (s.setLinks o f) := by
  rcases setLinks_cases s o f with ⟨e, h⟩ | ⟨ob, t, hc, hl, h⟩ <;> rw [h]
  · exact PLe.fail s e
  · refine PLe.setObj (get_of_cell hc) (fun hlive => ⟨hlive, ?_, fun b => Nat.le_refl _⟩)
    intro l
    have ht : s.tableOf o = some t := by rw [tableOf_of_cell hc, hl]
    simpa [hl] using hf t ht l

/-- storing more handles -/
theorem PLe.modVal {s : State} {o : Nat} {f : Val → Val}
    (hf : ∀ v b, v.held.count b ≤ (f v).held.count b) : PLe s (s.modVal o f) := by
  rcases modVal_cases s o f with ⟨e, h⟩ | ⟨ob, v, hc, hv, h⟩ <;> rw [h]
  · exact PLe.fail s e
  · refine PLe.setObj (get_of_cell hc) (fun hlive => ⟨hlive, fun l => Nat.le_refl _, fun b => ?_⟩)
    rw [Obj.heldList_of_some hv]
    exact hf v b

theorem PLe.alloc (s : State) (v : Val) : PLe s (s.alloc v) := by
  intro a ha
  rcases (isLive_alloc_iff s v a).mp ha with hl | rfl
  · right
    refine ⟨hl, fun b => ?_⟩
    rw [F_alloc, H_alloc, if_neg (Nat.ne_of_gt (isLive_lt hl))]
    exact ⟨Nat.le_refl _, Nat.le_refl _⟩
  · left; intro b; exact F_alloc_new s v b

/-- the allocation of `make_mut`'s clone branch (a shallow `Clone` copies no handle) -/
theorem PLe.cloneAlloc (s : State) (v v' : Val) (c : Bool) :
    PLe s ((if c then s else s.cloneHandles v).alloc v') := by
  cases c
  · exact (PLe.cloneHandles s v).trans (PLe.alloc _ _)
  · exact PLe.alloc _ _

/-- `purgePeers x` in a state whose readable tables are those of a state with `InvO`, `InvB` in
which `x` is live -/
theorem PLe.purgePeers {s s1 : State} {x : Nat} (hO : s.InvO) (hB : s.InvB)
    (hx : s.isLive x = true) (hT : ∀ p, s1.tableOf p = s.tableOf p) (herr : s1.err = none) :
    PLe s1 (s1.purgePeers x) := by
  obtain ⟨t, ht⟩ := live_tableOf hO hx
  obtain ⟨-, c2, c3, -⟩ := purgePeers_of_InvB hO hB hx hT ht herr
  intro a ha
  right
  rw [isLive_purgePeers] at ha
  refine ⟨ha, fun b => ⟨?_, by rw [H_purgePeers]; exact Nat.le_refl _⟩⟩
  by_cases hax : a = x
  · subst hax
    rw [F_of_tableOf c2]; exact Nat.zero_le _
  · obtain ⟨hn, hs⟩ := c3 a hax
    cases hta : s.tableOf a with
    | none => rw [F_of_tableOf_none (hn.mpr hta)]; exact Nat.zero_le _
    | some tp =>
      obtain ⟨tp', e1, -, z1, -, e2, -⟩ := hs tp hta
      rw [F_of_tableOf e1, F_of_tableOf ((hT a).trans hta)]
      by_cases hb : b = x
      · subst hb; rw [z1]; exact Nat.zero_le _
      · rw [e2 ⟨b, .fwd⟩ (by simp [hb]) (by simp)]
        exact Nat.le_refl _

theorem PLe.beginSingle (s : State) (o : Nat) : PLe s (s.beginSingle o) := by
  unfold State.beginSingle
  split
  · rename_i ob hc
    split
    · exact PLe.decWeakFree s o true
    · split
      · exact (PLe.setObj_dead (get_of_cell hc) (by simp)).trans (PLe.push _ _)
      · exact PLe.fail _ _
  · exact PLe.fail _ _

theorem PLe.finishSingle (s : State) (o : Nat) : PLe s (s.finishSingle o) := by
  unfold State.finishSingle
  split
  · rename_i ob hc
    split
    · refine (PLe.setObj (ob' := { ob with links := none }) (get_of_cell hc)
        (fun hlive => ⟨hlive, fun l => ?_, fun b => Nat.le_refl _⟩)).trans (PLe.decWeakFree _ o true)
      simp
    · exact PLe.fail _ _
  · exact PLe.fail _ _

theorem PLe.giveUp {s s1 : State} {x : Nat} (hO : s.InvO) (hB : s.InvB)
    (hx : s.isLive x = true) (hT : ∀ p, s1.tableOf p = s.tableOf p) (herr : s1.err = none) :
    PLe s1 (s1.giveUp x) := by
  have h1 := PLe.purgePeers hO hB hx hT herr
  unfold State.giveUp
  split
  · rename_i ob hc
    exact h1.trans ((PLe.setObj_dead (get_of_cell hc) (by simp)).trans (PLe.decWeakFree _ x true))
  · exact h1.trans (PLe.fail _ _)

theorem PLe.phase3One (s : State) (k : Nat) : PLe s (s.phase3One k) := by
  unfold State.phase3One
  split
  · split
    · exact PLe.decWeakFree s k true
    · exact PLe.refl s
  · exact PLe.fail _ _

theorem PLe.dropFields (s : State) (hs ws : List Nat) : PLe s (s.dropFields hs ws) := by
  obtain ⟨fs, hfs⟩ := dropFields_eq_push s hs ws
  rw [hfs]; exact PLe.push s fs

theorem PLe.panic (s : State) : PLe s s.panic := PLe.of_heap (panic_heap s)

theorem PLe.dropVal (s : State) (v : Val) : PLe s (s.dropVal v) := PLe.of_heap rfl

end State

open State

/-! ## `Rc::drop` -/

/-- a group teardown is contract-monotone: members die, survivors are untouched -/
theorem Teardown.PLe {s s' : State} {ks : List Nat} {vs : List Val} (h : Teardown s s' ks vs) :
    PLe s s' := by
  intro a ha
  right
  obtain ⟨hl, hak⟩ := (h.isLive_iff a).mp ha
  refine ⟨hl, fun b => ?_⟩
  rw [F_def, F_def, h.tbl_other hak, H_def, H_def]
  simp only [State.heldOf, h.other a hak]
  exact ⟨Nat.le_refl _, Nat.le_refl _⟩

/-- the trace branch of `Rc::drop` keeps the contract -/
theorem trace_branch_P (s1 : State) (o : Nat) (herr : s1.err = none) (hO : s1.InvO)
    (hB : s1.InvB) (hP : s1.P) (ho : s1.isLive o = true) : (s1.traceBranch o).P := by
  obtain ⟨hbad, hfuel⟩ := cycleRefs_ok s1 o hO hB ho
  unfold State.traceBranch
  simp only [hbad, hfuel]
  generalize he : Ev.traced o (cycleRefs s1 o).visited.length (cycleRefs s1 o).popped = e
  have hO2 : (s1.emit e).InvO := hO
  have hB2 : (s1.emit e).InvB := hB
  have hP2 : (s1.emit e).P := hP
  have hcr : cycleRefs (s1.emit e) o = cycleRefs s1 o := cycleRefs_emit s1 e o
  have ho2 : (s1.emit e).isLive o = true := ho
  have herr2 : (s1.emit e).err = none := herr
  have hfu := firstUnreadable_none (s1.emit e) o hO2 hB2 ho2
  rw [hcr] at hfu
  simp only [hfu]
  by_cases hemp : (cycleRefs s1 o).cmap.isEmpty = true
  · simp only [hemp]
    exact hP2
  · have hemp' : (cycleRefs s1 o).cmap.isEmpty = false := by simpa using hemp
    simp only [hemp']
    cases hext : hasExternalOwners (s1.emit e) (cycleRefs s1 o).cmap with
    | true => exact hP2
    | false =>
      have hne2 : (cycleRefs (s1.emit e) o).cmap.isEmpty = false := by rw [hcr]; exact hemp'
      have hext2 : hasExternalOwners (s1.emit e) (cycleRefs (s1.emit e) o).cmap = false := by
        rw [hcr]; exact hext
      have hT := dropCycle_teardown (s1.emit e) o hO2 hB2 herr2 ho2 hne2 hext2
      have := hT.PLe.P hP2
      rw [hcr] at this
      simpa using this

/-- the `rcDrop` step keeps the contract (`s0`: the frame has already been popped) -/
theorem rcDrop_P_core (s0 : State) (o : Nat) (herr : s0.err = none) (hO : s0.InvO)
    (hB : s0.InvB) (hP : s0.P) : (s0.rcDrop o).P := by
  cases hc : s0.cell o with
  | none =>
    simp only [State.rcDrop, hc]
    exact (PLe.fail _ _).P hP
  | some ob =>
    have hg := get_of_cell hc
    have hfr := freed_of_cell hc
    have hlt := get_lt hg
    cases hs : ob.strong with
    | uninit =>
      simp only [State.rcDrop, hc, hs]
      exact hP
    | cnt k =>
      cases k with
      | zero =>
        simp only [State.rcDrop, hc, hs]
        exact hP
      | succ n =>
        cases hl : ob.links with
        | none =>
          simp only [State.rcDrop, hc, hs, hl]
          exact (PLe.fail _ _).P hP
        | some t =>
          have hlive_o : s0.isLive o = true := by rw [isLive_of_get hg, hfr, hs]; rfl
          cases n with
          | zero =>
            have h1 : PLe s0 (s0.setObj o { ob with strong := .cnt 0 }) :=
              PLe.setObj_dead hg (by simp)
            by_cases hte : t.isEmpty = true
            · rw [rcDrop_eq_single_empty s0 o ob t hc hs hl hte]
              exact (h1.trans (PLe.beginSingle _ o)).P hP
            · have hte' : t.isEmpty = false := by simpa using hte
              rw [rcDrop_eq_single_purge s0 o ob t hc hs hl hte']
              have h2 : PLe (s0.setObj o { ob with strong := .cnt 0 })
                  ((s0.setObj o { ob with strong := .cnt 0 }).purgePeers o) :=
                PLe.purgePeers hO hB hlive_o
                  (tableOf_setObj_of_links_eq (ob' := { ob with strong := .cnt 0 }) hg rfl rfl) herr
              exact (h1.trans (h2.trans (PLe.beginSingle _ o))).P hP
          | succ n =>
            have hO1 := dec_InvO hg hs hO
            have hB1 := dec_InvB hg hs hB
            have hP1 := P_of_dec' hg hs hP
            by_cases hte : t.isEmpty = true
            · rw [rcDrop_eq_dec_empty s0 o ob n t hc hs hl hte]
              exact hP1
            · have hte' : t.isEmpty = false := by simpa using hte
              rw [State.rcDrop_eq_traceBranch s0 o ob n t hc hs hl hte']
              refine trace_branch_P _ o herr hO1 hB1 hP1 ?_
              rw [dec_isLive hg hs]
              exact hlive_o

namespace State

/-! ## the user-level actions -/

theorem P_congr {s s' : State} (hh : s'.heap = s.heap) (h : s.P) : s'.P := (PLe.of_heap hh).P h

theorem valOf_setLinks (s : State) (o : Nat) (f : Table → Table) (x : Nat) :
    (s.setLinks o f).valOf x = s.valOf x := by
  rcases setLinks_cases s o f with ⟨e, h⟩ | ⟨ob, t, hc, hl, h⟩ <;> rw [h]
  · simp [valOf]
  · by_cases hx : x = o
    · subst hx
      rw [valOf, cell_setObj_same' _ (cell_some_lt s x ob hc), valOf_of_cell hc]
      simp [freed_of_cell hc]
    · rw [valOf, cell_setObj_other' s _ hx]; rfl

theorem Table.get_remove_le (t : Table) (hw : t.WF) (k l : Link) (n : Nat) :
    (t.remove k n).get l ≤ t.get l := by
  rw [Table.get_remove t hw]
  split
  · next h => subst h; omega
  · exact Nat.le_refl _

theorem PLe.unadopt {s : State} (hB : s.InvB) (a b : Nat) (same : Bool) :
    PLe s (s.unadopt a b same) := by
  cases same with
  | true =>
    rw [unadopt_same]
    exact PLe.setLinks (fun t ht l => Table.get_remove_le t (hB.1 a t ht).1 _ l 1)
  | false =>
    rw [unadopt_diff]
    refine (PLe.setLinks (fun t ht l => Table.get_remove_le t (hB.1 a t ht).1 _ l 1)).trans
      (PLe.setLinks (fun t ht l => Table.get_remove_le t ?_ _ l 1))
    rw [tableOf_setLinks] at ht
    split at ht
    · cases hta : s.tableOf a with
      | none => rw [hta] at ht; cases ht
      | some ta =>
        rw [hta] at ht
        cases ht
        exact Table.WF_remove ta (hB.1 a ta hta).1 _ 1
    · exact (hB.1 b t ht).1

/-- `link`: one more recorded adoption `o → t`, one more handle to `t` stored in `o` -/
theorem link_P {s : State} (hO : s.InvO) (hP : s.P) {o t : Nat} (ho : s.isLive o = true)
    (ht : s.isLive t = true) (rs : List Nat) :
    (({ s.adopt o t false with roots := rs } : State).modVal o
      (fun v => { v with held := v.held ++ [t] })).P := by
  obtain ⟨v, hv⟩ := valOf_of_live hO ho
  have hv1 : ({ s.adopt o t false with roots := rs } : State).valOf o = some v := by
    show (s.adopt o t false).valOf o = some v
    rw [adopt_diff, valOf_setLinks, valOf_setLinks]; exact hv
  obtain ⟨to, hto⟩ := live_tableOf hO ho
  obtain ⟨tt, htt⟩ := live_tableOf hO ht
  intro a b ha
  have ha' : s.isLive a = true := by
    rw [isLive_modVal] at ha
    have : (s.adopt o t false).isLive a = true := ha
    rwa [isLive_adopt] at this
  have hPab := hP a b ha'
  rw [F_modVal]
  show (s.adopt o t false).F a b ≤ _
  rw [F_adopt_diff (by rw [hto]; rfl) (by rw [htt]; rfl)]
  by_cases hao : a = o
  · subst hao
    rw [H_def, heldOf_modVal_same _ hv1]
    rw [H_def, heldOf_of_valOf hv] at hPab
    simp only [count_append, count_singleton_ite]
    by_cases hbt : b = t
    · subst hbt; simp; omega
    · have : ¬ t = b := fun e => hbt e.symm
      simp [hbt, this]; omega
  · rw [H_modVal_other _ _ hao]
    show _ ≤ (s.adopt o t false).H a b
    rw [H_adopt]
    simp [hao]; exact hPab

/-- `unlink`: the handle stored at position `i` of `o` leaves, the recorded adoption with it -/
theorem unlink_P {s : State} (hO : s.InvO) (hB : s.InvB) (hP : s.P) {o t : Nat} {v : Val}
    (hv : s.valOf o = some v) {i : Nat} (hk : v.held[i]? = some t) (f : Val → Val)
    (hf : (f v).held = v.held.eraseIdx i) (ho : s.isLive o = true) :
    (if (s.modVal o f).isLive t = true then (s.modVal o f).unadopt o t false
      else (s.modVal o f).fail (.dangling t)).P := by
  have hH : ∀ a b, (s.modVal o f).H a b
      = if a = o then (v.held.eraseIdx i).count b else s.H a b := by
    intro a b
    by_cases hao : a = o
    · subst hao; rw [if_pos rfl, H_def, heldOf_modVal_same _ hv, hf]
    · rw [if_neg hao, H_modVal_other _ _ hao]
  have hHo : ∀ b, s.H o b = v.held.count b := fun b => by rw [H_def, heldOf_of_valOf hv]
  split
  · next hlt =>
    have hlt' : s.isLive t = true := by simpa using hlt
    obtain ⟨to, hto⟩ := live_tableOf hO ho
    obtain ⟨tt, htt⟩ := live_tableOf hO hlt'
    intro a b ha
    have ha' : s.isLive a = true := by simpa using ha
    have hPab := hP a b ha'
    rw [F_unadopt_diff (ta := to) (tb := tt) (by simpa using hto) (by simpa using htt)
      (hB.1 o to hto).1 (hB.1 t tt htt).1, H_unadopt, hH]
    simp only [F_modVal]
    by_cases hao : a = o
    · subst hao
      rw [hHo] at hPab
      by_cases hbt : b = t
      · subst hbt
        have := count_eraseIdx_of_eq v.held i b hk
        simp; omega
      · have : v.held[i]? ≠ some b := by rw [hk]; intro e; cases e; exact hbt rfl
        rw [count_eraseIdx_of_ne v.held i b this]
        simp [hbt]; exact hPab
    · simp [hao]; exact hPab
  · next hlt =>
    have hlt' : s.isLive t = false := by simpa using hlt
    intro a b ha
    have ha' : s.isLive a = true := by simpa using ha
    have hPab := hP a b ha'
    rw [F_fail, H_fail, hH, F_modVal]
    by_cases hao : a = o
    · subst hao
      rw [if_pos rfl]
      rw [hHo] at hPab
      by_cases hbt : b = t
      · subst hbt
        rw [F_eq_zero_of_not_live hB a hlt']; exact Nat.zero_le _
      · have : v.held[i]? ≠ some b := by rw [hk]; intro e; cases e; exact hbt rfl
        rw [count_eraseIdx_of_ne v.held i b this]
        exact hPab
    · rw [if_neg hao]; exact hPab

end State

open State

theorem P_badRoot {s : State} (hP : s.P) (r : Nat) : (s.badRoot r).P := (PLe.badRoot s r).P hP

/-- **contract-respecting actions keep the contract** (core form) -/
theorem applyAct_P_core (s : State) (fh fw : List Nat) (a : Act) (ha : a.respects)
    (herr : s.err = none) (hI : s.InvCore) (hP : s.P) : (applyAct s fh fw a).P := by
  obtain ⟨hO, hB, -, -, hK⟩ := hI
  cases a with
  | adopt r1 r2 => exact absurd ha id
  | take q k => exact absurd ha id
  | new =>
    simp only [applyAct]
    exact P_congr rfl ((PLe.alloc s _).P hP)
  | clone r =>
    simp only [applyAct]
    split
    · exact P_congr rfl ((PLe.incStrong s _).P hP)
    · exact P_badRoot hP r
  | drop r =>
    simp only [applyAct]
    split
    · exact P_congr rfl hP
    · exact P_badRoot hP r
  | unadopt r1 r2 =>
    simp only [applyAct]
    split
    · exact (PLe.unadopt hB _ _ _).P hP
    · exact P_badRoot (P_badRoot hP r1) r2
  | store r q =>
    simp only [applyAct]
    split
    · split
      · exact hP
      · refine (PLe.modVal (fun v b => ?_)).P (P_congr (s := s) rfl hP)
        simp only [count_append]; omega
    · exact P_badRoot (P_badRoot hP r) q
  | link r q =>
    simp only [applyAct]
    cases h1 : s.useRoot r with
    | none => exact P_badRoot (P_badRoot hP r) q
    | some t =>
      cases h2 : s.useRoot q with
      | none => exact P_badRoot (P_badRoot hP r) q
      | some o =>
        simp only []
        split
        · exact hP
        · exact link_P hO hP (useRoot_some h2).2 (useRoot_some h1).2 _
  | unlink q k =>
    simp only [applyAct]
    cases h1 : s.useRoot q with
    | none => exact P_badRoot hP q
    | some o =>
      dsimp only
      cases hv : s.valOf o with
      | none => exact (PLe.fail _ _).P hP
      | some v =>
        dsimp only
        cases hk : nthMod v.held k with
        | none => exact hP
        | some t =>
          simp only []
          exact P_congr rfl (unlink_P hO hB hP hv (getElem?_idxMod_of_nthMod hk) _ rfl (useRoot_some h1).2)
  | downgrade r =>
    simp only [applyAct]
    split
    · exact P_congr rfl ((PLe.incWeak s _).P hP)
    · exact P_badRoot hP r
  | upgrade w =>
    simp only [applyAct]
    split
    · split
      · split
        · exact hP
        · exact P_congr rfl ((PLe.incStrong s _).P hP)
      · exact (PLe.fail _ _).P hP
    · exact hP
  | cloneWeak w =>
    simp only [applyAct]
    split
    · exact P_congr rfl ((PLe.incWeak s _).P hP)
    · exact hP
  | dropWeak w =>
    simp only [applyAct]
    split
    · exact P_congr rfl hP
    · exact hP
  | storeWeak w q =>
    simp only [applyAct]
    split
    · refine PLe.P (PLe.modVal ?_) (P_congr (s := s) rfl hP)
      intro v b; exact Nat.le_refl _
    · exact P_badRoot hP q
    · exact hP
  | tryUnwrap r =>
    simp only [applyAct]
    cases hu : s.useRoot r with
    | none => exact P_badRoot hP r
    | some o =>
      dsimp only
      cases hc : s.cell o with
      | none => exact (PLe.fail _ _).P hP
      | some ob =>
        dsimp only
        split
        · rename_i v hs hv
          refine P_congr (emit_heap _ _) ?_
          refine PLe.P (PLe.giveUp (s := s) hO hB (useRoot_some hu).2 (fun _ => rfl) ?_)
            (P_congr (s := s) rfl hP)
          exact herr
        · exact (PLe.fail _ _).P hP
        · exact hP
  | dropValue i =>
    simp only [applyAct]
    split
    · exact P_congr rfl hP
    · exact hP
  | makeMut r =>
    simp only [applyAct]
    cases hu : s.useRoot r with
    | none => exact P_badRoot hP r
    | some o =>
      dsimp only
      cases hc : s.cell o with
      | none => exact (PLe.fail _ _).P hP
      | some ob =>
        dsimp only
        cases hv : ob.value with
        | none => exact (PLe.fail _ _).P hP
        | some v =>
          dsimp only
          split
          · exact P_congr rfl ((PLe.cloneAlloc s v _ v.shallow).P hP)
          · split
            · refine P_congr (emit_heap _ _) ?_
              have hlo := (useRoot_some hu).2
              obtain ⟨hO1, hB1, -⟩ := InvOBK_alloc (s := s)
                (s' := { s.alloc v with roots := (s.alloc v).roots.set (idxMod s.roots r) s.heap.length })
                (v := v) hO hB hK rfl (fun _ hm => hm) (fun _ hm => hm) (fun _ => rfl)
              refine (PLe.giveUp hO1 hB1 ?_ (fun _ => rfl) herr).P
                (P_congr (s := s.alloc v) rfl ((PLe.alloc s v).P hP))
              exact isLive_alloc_of_isLive v hlo
            · exact hP
  | getMut r =>
    simp only [applyAct]
    split
    · split
      · exact hP
      · exact (PLe.fail _ _).P hP
    · exact P_badRoot hP r
  | intoRaw r =>
    simp only [applyAct]
    split
    · exact P_congr rfl hP
    · exact P_badRoot hP r
  | fromRaw i =>
    simp only [applyAct]
    split
    · exact P_congr rfl hP
    · exact hP
  | incStrong i =>
    simp only [applyAct]
    split
    · split
      · exact P_congr rfl ((PLe.incStrong s _).P hP)
      · exact (PLe.fail _ _).P hP
    · exact hP
  | decStrong i =>
    simp only [applyAct]
    split
    · split
      · exact P_congr rfl hP
      · exact (PLe.fail _ _).P hP
    · exact hP
  | ptrEq r1 r2 =>
    simp only [applyAct]
    split
    · exact hP
    · exact P_badRoot (P_badRoot hP r1) r2
  | counts r =>
    simp only [applyAct]
    split
    · split
      · exact hP
      · exact (PLe.fail _ _).P hP
    · exact P_badRoot hP r
  | wcounts w =>
    simp only [applyAct]
    split
    · split
      · split <;> exact hP
      · exact (PLe.fail _ _).P hP
    · exact hP
  | setPanic q =>
    simp only [applyAct]
    split
    · refine PLe.P (PLe.modVal ?_) hP
      intro v b; exact Nat.le_refl _
    · exact P_badRoot hP q
  | setShallow q =>
    simp only [applyAct]
    split
    · refine PLe.P (PLe.modVal ?_) hP
      intro v b; exact Nat.le_refl _
    · exact P_badRoot hP q
  | upgradeField k =>
    simp only [applyAct]
    split
    · split
      · split
        · exact hP
        · exact P_congr rfl ((PLe.incStrong s _).P hP)
      · exact (PLe.fail _ _).P hP
    · exact hP
  | cloneField k =>
    simp only [applyAct]
    split
    · exact P_congr rfl ((PLe.incStrong s _).P hP)
    · exact hP
  | downgradeField k =>
    simp only [applyAct]
    split
    · exact P_congr rfl ((PLe.incWeak s _).P hP)
    · exact hP

/-- **contract-respecting operations keep the contract** (core form) -/
theorem applyOp_P_core (s : State) (op : Op) (hop : op.respects) (herr : s.err = none)
    (hI : s.InvCore) (hP : s.P) : (applyOp s op).P := by
  cases op with
  | act a => exact applyAct_P_core s [] [] a hop herr hI hP
  | setScript q acts =>
    simp only [applyOp]
    split
    · refine PLe.P (PLe.modVal ?_) hP
      intro v b; exact Nat.le_refl _
    · exact P_badRoot hP q
  | shuffle q i =>
    simp only [applyOp]
    split
    · rename_i o _
      refine PLe.P (PLe.setLinks ?_) hP
      intro t ht l
      rw [Table.get_swapAt t (hI.2.1.1 o t ht).1]
      exact Nat.le_refl _
    · exact P_badRoot hP q

/-! ## destructor scripts -/

/-- the destructor of the value is contract-respecting -/
def Val.C (v : Val) : Prop := ∀ a ∈ v.script, a.respects

theorem Val.C_of_script_eq {v v0 : Val} (h : v.script = v0.script) (h0 : v0.C) : v.C := by
  unfold Val.C; rw [h]; exact h0

/-- the scripts a frame will run are contract-respecting -/
def Frame.C : Frame → Prop
  | .script _ _ acts => ∀ a ∈ acts, a.respects
  | .dropVal v => v.C
  | _ => True

namespace State

/-- every value in the heap has a contract-respecting destructor -/
def HeapC (s : State) : Prop :=
  ∀ (o : Nat) (ob : Obj) (v : Val), s.heap[o]? = some ob → ob.value = some v → v.C

/-- every destructor script in the state is contract-respecting: scripts of running destructors,
of values about to be destroyed, of values in the heap and of unwrapped values -/
def ScriptsC (s : State) : Prop :=
  (∀ f ∈ s.stack, f.C) ∧ s.HeapC ∧ (∀ v ∈ s.vals, v.C)

/-- every value in the heap of `s'` has the script of the value at the same place in `s` -/
def HLe (s s' : State) : Prop :=
  ∀ (x : Nat) (ob' : Obj) (v : Val), s'.heap[x]? = some ob' → ob'.value = some v →
    ∃ ob v0, s.heap[x]? = some ob ∧ ob.value = some v0 ∧ v.script = v0.script

/-- `s'` has the stack and unwrapped values of `s`, and no new script in the heap -/
structure SLe (s s' : State) : Prop where
  stack : s'.stack = s.stack
  vals : s'.vals = s.vals
  heap : HLe s s'

theorem HLe.heapC {s s' : State} (h : HLe s s') (hC : s.HeapC) : s'.HeapC := by
  intro x ob' v hx hv
  obtain ⟨ob, v0, hg, hv0, hs⟩ := h x ob' v hx hv
  exact Val.C_of_script_eq hs (hC x ob v0 hg hv0)

theorem SLe.scriptsC {s s' : State} (h : SLe s s') (hC : s.ScriptsC) : s'.ScriptsC := by
  refine ⟨?_, h.heap.heapC hC.2.1, ?_⟩
  · rw [h.stack]; exact hC.1
  · rw [h.vals]; exact hC.2.2

theorem SLe.refl (s : State) : SLe s s :=
  ⟨rfl, rfl, fun _ ob v hx hv => ⟨ob, v, hx, hv, rfl⟩⟩

theorem SLe.trans {s s' s'' : State} (h1 : SLe s s') (h2 : SLe s' s'') : SLe s s'' := by
  refine ⟨h2.stack.trans h1.stack, h2.vals.trans h1.vals, ?_⟩
  intro x ob'' v hx hv
  obtain ⟨ob', v', hg', hv', hs'⟩ := h2.heap x ob'' v hx hv
  obtain ⟨ob, v0, hg, hv0, hs⟩ := h1.heap x ob' v' hg' hv'
  exact ⟨ob, v0, hg, hv0, hs'.trans hs⟩

theorem SLe.of_eq {s s' : State} (hh : s'.heap = s.heap) (hs : s'.stack = s.stack)
    (hv : s'.vals = s.vals) : SLe s s' :=
  ⟨hs, hv, fun _ ob v hx hvx => ⟨ob, v, by rw [← hh]; exact hx, hvx, rfl⟩⟩

theorem SLe.fail (s : State) (e : Err) : SLe s (s.fail e) := SLe.of_eq (by simp) (by simp) (by simp)
theorem SLe.emit (s : State) (e : Ev) : SLe s (s.emit e) := SLe.of_eq rfl rfl rfl

theorem SLe.badRoot (s : State) (r : Nat) : SLe s (s.badRoot r) := by
  rcases badRoot_cases s r with e | ⟨e, he⟩
  · rw [e]; exact SLe.refl s
  · rw [he]; exact SLe.fail s e

theorem SLe.setObj {s : State} {o : Nat} {ob ob' : Obj} (hg : s.heap[o]? = some ob)
    (h : ∀ v, ob'.value = some v → ∃ v0, ob.value = some v0 ∧ v.script = v0.script) :
    SLe s (s.setObj o ob') := by
  refine ⟨rfl, rfl, ?_⟩
  intro x obx v hx hvx
  by_cases hxo : x = o
  · subst hxo
    rw [getElem?_setObj_same _ (get_lt hg)] at hx
    cases hx
    obtain ⟨v0, hv0, hs⟩ := h v hvx
    exact ⟨ob, v0, hg, hv0, hs⟩
  · rw [getElem?_setObj_other s _ hxo] at hx
    exact ⟨obx, v, hx, hvx, rfl⟩

/-- the value is kept -/
theorem SLe.setObj_keep {s : State} {o : Nat} {ob ob' : Obj} (hg : s.heap[o]? = some ob)
    (hv : ob'.value = ob.value) : SLe s (s.setObj o ob') :=
  SLe.setObj hg (fun v h => ⟨v, by rw [← hv]; exact h, rfl⟩)

/-- the value is moved out -/
theorem SLe.setObj_none {s : State} {o : Nat} {ob ob' : Obj} (hg : s.heap[o]? = some ob)
    (hv : ob'.value = none) : SLe s (s.setObj o ob') :=
  SLe.setObj hg (fun v h => by rw [hv] at h; cases h)

theorem SLe.setLinks (s : State) (o : Nat) (f : Table → Table) : SLe s (s.setLinks o f) := by
  rcases setLinks_cases s o f with ⟨e, h⟩ | ⟨ob, t, hc, hl, h⟩ <;> rw [h]
  · exact SLe.fail s e
  · exact SLe.setObj_keep (get_of_cell hc) rfl

theorem SLe.incStrong (s : State) (o : Nat) : SLe s (s.incStrong o) := by
  rcases incStrong_cases s o with ⟨e, h⟩ | ⟨ob, n, hc, hs, h⟩ <;> rw [h]
  · exact SLe.fail s e
  · exact SLe.setObj_keep (get_of_cell hc) rfl

theorem SLe.incWeak (s : State) (o : Nat) : SLe s (s.incWeak o) := by
  rcases incWeak_cases s o with ⟨e, h⟩ | ⟨ob, hc, hw, h⟩ <;> rw [h]
  · exact SLe.fail s e
  · exact SLe.setObj_keep (get_of_cell hc) rfl

theorem SLe.decWeakFree (s : State) (o : Nat) (imp : Bool) : SLe s (s.decWeakFree o imp) := by
  rcases decWeakFree_cases s o imp with ⟨e, h⟩ | ⟨ob, hc, hw, h⟩ | ⟨ob, w, hc, hw, h⟩ <;> rw [h]
  · exact SLe.fail s e
  · exact (SLe.setObj_keep (ob' := { ob with weak := 0, freed := true, implicit := ob.implicit && !imp })
      (get_of_cell hc) rfl).trans (SLe.emit _ _)
  · exact SLe.setObj_keep (get_of_cell hc) rfl

theorem SLe.modVal {s : State} {o : Nat} {f : Val → Val} (hf : ∀ v, (f v).script = v.script) :
    SLe s (s.modVal o f) := by
  rcases modVal_cases s o f with ⟨e, h⟩ | ⟨ob, v, hc, hv, h⟩ <;> rw [h]
  · exact SLe.fail s e
  · refine SLe.setObj (get_of_cell hc) (fun v' hv' => ⟨v, hv, ?_⟩)
    cases hv'
    exact hf v

theorem SLe.foldl {α : Type} (g : State → α → State) (hg : ∀ s a, SLe s (g s a)) :
    ∀ (l : List α) (s : State), SLe s (l.foldl g s) := by
  intro l
  induction l with
  | nil => intro s; exact SLe.refl s
  | cons a l ih => intro s; exact (hg s a).trans (ih (g s a))

theorem SLe.cloneHandles (s : State) (v : Val) : SLe s (s.cloneHandles v) := by
  unfold State.cloneHandles
  exact (SLe.foldl _ SLe.incStrong _ s).trans (SLe.foldl _ SLe.incWeak _ _)

theorem SLe.adopt (s : State) (a b : Nat) (same : Bool) : SLe s (s.adopt a b same) := by
  unfold State.adopt
  split
  · exact SLe.setLinks _ _ _
  · exact (SLe.setLinks _ _ _).trans (SLe.setLinks _ _ _)

theorem SLe.unadopt (s : State) (a b : Nat) (same : Bool) : SLe s (s.unadopt a b same) := by
  unfold State.unadopt
  split
  · exact SLe.setLinks _ _ _
  · exact (SLe.setLinks _ _ _).trans (SLe.setLinks _ _ _)

theorem SLe.purgeOne (x : Nat) (s : State) (e : Link × Nat) : SLe s (purgeOne x s e) := by
  unfold State.purgeOne
  split
  · exact SLe.refl s
  · exact SLe.setLinks _ _ _

theorem SLe.purgePeers (s : State) (x : Nat) : SLe s (s.purgePeers x) := by
  unfold State.purgePeers
  split
  · exact (SLe.foldl _ (SLe.purgeOne x) _ s).trans (SLe.setLinks _ _ _)
  · exact SLe.fail _ _

theorem SLe.giveUp (s : State) (o : Nat) : SLe s (s.giveUp o) := by
  unfold State.giveUp
  split
  · rename_i ob hc
    exact (SLe.purgePeers s o).trans
      ((SLe.setObj_none (get_of_cell hc) rfl).trans (SLe.decWeakFree _ o true))
  · exact (SLe.purgePeers s o).trans (SLe.fail _ _)

theorem SLe.finishSingle (s : State) (o : Nat) : SLe s (s.finishSingle o) := by
  unfold State.finishSingle
  split
  · rename_i ob hc
    split
    · exact (SLe.setObj_keep (ob' := { ob with links := none }) (get_of_cell hc) rfl).trans
        (SLe.decWeakFree _ o true)
    · exact SLe.fail _ _
  · exact SLe.fail _ _

theorem SLe.phase3One (s : State) (k : Nat) : SLe s (s.phase3One k) := by
  unfold State.phase3One
  split
  · split
    · exact SLe.decWeakFree s k true
    · exact SLe.refl s
  · exact SLe.fail _ _

theorem SLe.phase1One (keys : List Nat) (s : State) (e : Nat × Nat) :
    SLe s (phase1One keys s e) := by
  unfold State.phase1One
  split
  · rename_i ob hc
    split
    · exact SLe.setObj_keep (get_of_cell hc) rfl
    · exact SLe.fail _ _
    · exact SLe.fail _ _
  · exact SLe.fail _ _

/-! ### `ScriptsC` under the steps that move values around -/

theorem ScriptsC.congr {s s' : State} (h : s.ScriptsC) (hh : s'.heap = s.heap)
    (hs : s'.stack = s.stack) (hv : s'.vals = s.vals) : s'.ScriptsC :=
  (SLe.of_eq hh hs hv).scriptsC h

theorem ScriptsC.push {s : State} (h : s.ScriptsC) {fs : List Frame} (hf : ∀ f ∈ fs, f.C) :
    (s.push fs).ScriptsC := by
  refine ⟨?_, h.2.1, h.2.2⟩
  intro f hm
  rw [push_stack, List.mem_append] at hm
  rcases hm with hm | hm
  · exact hf f hm
  · exact h.1 f hm

theorem ScriptsC.pop {s : State} {f : Frame} {rest : List Frame} (h : s.ScriptsC)
    (hst : s.stack = f :: rest) : ({ s with stack := rest } : State).ScriptsC ∧ f.C := by
  refine ⟨⟨fun g hg => h.1 g ?_, h.2.1, h.2.2⟩, h.1 f ?_⟩
  · rw [hst]; exact List.mem_cons_of_mem _ hg
  · rw [hst]; exact List.mem_cons_self

theorem ScriptsC.alloc {s : State} (h : s.ScriptsC) {v : Val} (hv : v.C) : (s.alloc v).ScriptsC := by
  refine ⟨h.1, ?_, h.2.2⟩
  intro x ob v' hx hv'
  rw [getElem?_alloc] at hx
  split at hx
  · cases hx
    cases hv'
    exact hv
  · exact h.2.1 x ob v' hx hv'

theorem ScriptsC.valOf {s : State} (h : s.ScriptsC) {o : Nat} {ob : Obj} {v : Val}
    (hc : s.cell o = some ob) (hv : ob.value = some v) : v.C :=
  h.2.1 o ob v (get_of_cell hc) hv

theorem ScriptsC.beginSingle {s : State} (h : s.ScriptsC) (o : Nat) : (s.beginSingle o).ScriptsC := by
  unfold State.beginSingle
  split
  · rename_i ob hc
    split
    · exact (SLe.decWeakFree s o true).scriptsC h
    · split
      · rename_i v hv
        refine ScriptsC.push ((SLe.setObj_none (get_of_cell hc) rfl).scriptsC h) ?_
        intro f hf
        simp only [List.mem_cons, List.not_mem_nil, or_false] at hf
        rcases hf with rfl | rfl
        · exact h.valOf hc hv
        · trivial
      · exact (SLe.fail _ _).scriptsC h
  · exact (SLe.fail _ _).scriptsC h

/-- the accumulator of phase 2: the state keeps `ScriptsC`, the collected values are respecting -/
theorem phase2_fold_scriptsC (ks : List Nat) (acc : State × List Val) (h : acc.1.ScriptsC)
    (hv : ∀ v ∈ acc.2, v.C) :
    (ks.foldl phase2One acc).1.ScriptsC ∧ ∀ v ∈ (ks.foldl phase2One acc).2, v.C := by
  induction ks generalizing acc with
  | nil => exact ⟨h, hv⟩
  | cons k ks ih =>
    rw [List.foldl_cons]
    apply ih
    · unfold State.phase2One
      split
      · rename_i ob hc
        split
        · split
          · exact (SLe.setObj_none (get_of_cell hc) rfl).scriptsC h
          · exact (SLe.fail _ _).scriptsC h
        · exact h
      · exact (SLe.fail _ _).scriptsC h
    · unfold State.phase2One
      split
      · rename_i ob hc
        split
        · split
          · rename_i v hvv
            intro v' hv'
            simp only [List.mem_append, List.mem_cons, List.not_mem_nil, or_false] at hv'
            rcases hv' with hv' | rfl
            · exact hv v' hv'
            · exact h.valOf hc hvv
          · exact hv
        · exact hv
      · exact hv

theorem ScriptsC.dropCycle {s : State} (h : s.ScriptsC) (c : CMap) : (s.dropCycle c).ScriptsC := by
  unfold State.dropCycle
  have h1 : (c.foldl (phase1One c.keys) s).ScriptsC :=
    (SLe.foldl _ (SLe.phase1One c.keys) c s).scriptsC h
  obtain ⟨h2, h3⟩ := phase2_fold_scriptsC c.keys (c.foldl (phase1One c.keys) s, []) h1
    (fun v hv => by cases hv)
  refine ScriptsC.push h2 ?_
  intro f hf
  simp only [List.mem_append, List.mem_map, List.mem_cons, List.not_mem_nil, or_false] at hf
  rcases hf with ⟨v, hv, rfl⟩ | rfl
  · exact h3 v ((reorder_perm s.hint _).mem_iff.mp hv)
  · trivial

theorem ScriptsC.rcDrop {s : State} (h : s.ScriptsC) (o : Nat) : (s.rcDrop o).ScriptsC := by
  unfold State.rcDrop
  split
  · exact (SLe.fail _ _).scriptsC h
  · rename_i ob hc
    split
    · exact h
    · exact h
    · rename_i n hs
      split
      · exact (SLe.fail _ _).scriptsC h
      · rename_i t ht
        have h1 : (s.setObj o { ob with strong := .cnt n }).ScriptsC :=
          (SLe.setObj_keep (ob' := { ob with strong := .cnt n }) (get_of_cell hc) rfl).scriptsC h
        simp only []
        split
        · split
          · exact h1.beginSingle o
          · exact h1
        · split
          · exact ((SLe.purgePeers _ o).scriptsC h1).beginSingle o
          · have h2 : ∀ e, ((s.setObj o { ob with strong := .cnt n }).emit e).ScriptsC :=
              fun e => (SLe.emit _ e).scriptsC h1
            split
            · exact (SLe.fail _ _).scriptsC (h2 _)
            · split
              · exact (SLe.fail _ _).scriptsC (h2 _)
              · split
                · exact h2 _
                · split
                  · exact (SLe.fail _ _).scriptsC (h2 _)
                  · split
                    · exact h2 _
                    · exact (h2 _).dropCycle _

end State
theorem State.ScriptsC.modVal {s : State} (h : s.ScriptsC) (o : Nat) (f : Val → Val)
    (hf : ∀ v, (f v).script = v.script) : (s.modVal o f).ScriptsC :=
  (State.SLe.modVal hf).scriptsC h

open State

theorem ScriptsC_badRoot {s : State} (h : s.ScriptsC) (r : Nat) : (s.badRoot r).ScriptsC :=
  (SLe.badRoot s r).scriptsC h

/-- every action keeps `ScriptsC` (no action installs a script) -/
theorem applyAct_scriptsC (s : State) (fh fw : List Nat) (a : Act) (h : s.ScriptsC) :
    (applyAct s fh fw a).ScriptsC := by
  cases a with
  | new =>
    simp only [applyAct]
    exact (h.alloc (v := { vid := s.nextVid, held := [], weaks := [], script := [], panics := false }) (fun a ha => by cases ha)).congr rfl rfl rfl
  | clone r =>
    simp only [applyAct]
    split
    · exact ((SLe.incStrong s _).scriptsC h).congr rfl rfl rfl
    · exact ScriptsC_badRoot h r
  | drop r =>
    simp only [applyAct]
    split
    · refine ScriptsC.push (h.congr (s' := { s with roots := _ }) rfl rfl rfl) ?_
      intro f hf
      simp only [List.mem_cons, List.not_mem_nil, or_false] at hf
      subst hf; trivial
    · exact ScriptsC_badRoot h r
  | adopt r1 r2 =>
    simp only [applyAct]
    split
    · exact (SLe.adopt s _ _ _).scriptsC h
    · exact ScriptsC_badRoot (ScriptsC_badRoot h r1) r2
  | unadopt r1 r2 =>
    simp only [applyAct]
    split
    · exact (SLe.unadopt s _ _ _).scriptsC h
    · exact ScriptsC_badRoot (ScriptsC_badRoot h r1) r2
  | store r q =>
    simp only [applyAct]
    split
    · split
      · exact h
      · apply ScriptsC.modVal
        · exact h.congr (s := s) rfl rfl rfl
        · intro _; rfl
    · exact ScriptsC_badRoot (ScriptsC_badRoot h r) q
  | take q k =>
    simp only [applyAct]
    split
    · split
      · split
        · refine ScriptsC.congr (s := s.modVal _ _) ?_ rfl rfl rfl
          apply ScriptsC.modVal h
          intro _; rfl
        · exact h
      · exact (SLe.fail _ _).scriptsC h
    · exact ScriptsC_badRoot h q
  | link r q =>
    simp only [applyAct]
    split
    · split
      · exact h
      · apply ScriptsC.modVal
        · exact ((SLe.adopt s _ _ false).scriptsC h).congr rfl rfl rfl
        · intro _; rfl
    · exact ScriptsC_badRoot (ScriptsC_badRoot h r) q
  | unlink q k =>
    simp only [applyAct]
    cases h1 : s.useRoot q with
    | none => exact ScriptsC_badRoot h q
    | some o =>
      dsimp only
      cases hv : s.valOf o with
      | none => exact (SLe.fail _ _).scriptsC h
      | some v =>
        dsimp only
        cases hk : nthMod v.held k with
        | none => exact h
        | some t =>
          simp only []
          have h1 : (s.modVal o (fun v => { v with held := v.held.eraseIdx (idxMod v.held k) })).ScriptsC :=
            ScriptsC.modVal h _ _ (fun _ => rfl)
          refine ScriptsC.congr
            (s := if (s.modVal o (fun v => { v with held := v.held.eraseIdx (idxMod v.held k) })).isLive t = true
              then (s.modVal o (fun v => { v with held := v.held.eraseIdx (idxMod v.held k) })).unadopt o t false
              else (s.modVal o (fun v => { v with held := v.held.eraseIdx (idxMod v.held k) })).fail (.dangling t))
            ?_ rfl rfl rfl
          split
          · exact (SLe.unadopt _ _ _ _).scriptsC h1
          · exact (SLe.fail _ _).scriptsC h1
  | downgrade r =>
    simp only [applyAct]
    split
    · exact ((SLe.incWeak s _).scriptsC h).congr rfl rfl rfl
    · exact ScriptsC_badRoot h r
  | upgrade w =>
    simp only [applyAct]
    split
    · split
      · split
        · exact (SLe.emit _ _).scriptsC h
        · exact ((SLe.incStrong s _).scriptsC h).congr rfl rfl rfl
      · exact (SLe.fail _ _).scriptsC h
    · exact h
  | cloneWeak w =>
    simp only [applyAct]
    split
    · exact ((SLe.incWeak s _).scriptsC h).congr rfl rfl rfl
    · exact h
  | dropWeak w =>
    simp only [applyAct]
    split
    · refine ScriptsC.push (h.congr (s' := { s with wroots := _ }) rfl rfl rfl) ?_
      intro f hf
      simp only [List.mem_cons, List.not_mem_nil, or_false] at hf
      subst hf; trivial
    · exact h
  | storeWeak w q =>
    simp only [applyAct]
    split
    · apply ScriptsC.modVal
      · exact h.congr (s := s) rfl rfl rfl
      · intro _; rfl
    · exact ScriptsC_badRoot h q
    · exact h
  | tryUnwrap r =>
    simp only [applyAct]
    split
    · split
      · rename_i o _ ob hc
        split
        · rename_i v hs hv
          refine (SLe.emit _ _).scriptsC ((SLe.giveUp _ _).scriptsC ?_)
          refine ⟨h.1, h.2.1, ?_⟩
          intro v' hv'
          simp only [List.mem_append, List.mem_cons, List.not_mem_nil, or_false] at hv'
          rcases hv' with hv' | rfl
          · exact h.2.2 v' hv'
          · exact h.valOf hc hv
        · exact (SLe.fail _ _).scriptsC h
        · exact (SLe.emit _ _).scriptsC h
      · exact (SLe.fail _ _).scriptsC h
    · exact ScriptsC_badRoot h r
  | dropValue i =>
    simp only [applyAct]
    split
    · rename_i v hn
      refine ScriptsC.push (s := { s with vals := s.vals.eraseIdx (idxMod s.vals i) }) ⟨h.1, h.2.1, ?_⟩ ?_
      · intro v' hv'
        exact h.2.2 v' (List.mem_of_mem_eraseIdx hv')
      · intro f hf
        simp only [List.mem_cons, List.not_mem_nil, or_false] at hf
        subst hf
        exact h.2.2 v (mem_of_nthMod hn)
    · exact h
  | makeMut r =>
    simp only [applyAct]
    split
    · split
      · rename_i o _ ob hc
        split
        · rename_i v hv
          have hvC : v.C := h.valOf hc hv
          split
          · refine ScriptsC.push ?_ ?_
            · refine (SLe.emit _ _).scriptsC (ScriptsC.congr
                (s := (if v.shallow then s else s.cloneHandles v).alloc
                  (if v.shallow then { v with vid := s.nextVid, held := [], weaks := [] }
                    else { v with vid := s.nextVid }))
                ?_ rfl rfl rfl)
              cases v.shallow
              · exact ((SLe.cloneHandles s v).scriptsC h).alloc hvC
              · exact h.alloc hvC
            · intro f hf
              simp only [List.mem_cons, List.not_mem_nil, or_false] at hf
              subst hf; trivial
          · split
            · refine (SLe.emit _ _).scriptsC ((SLe.giveUp _ _).scriptsC ?_)
              exact (h.alloc hvC).congr rfl rfl rfl
            · exact (SLe.emit _ _).scriptsC h
        · exact (SLe.fail _ _).scriptsC h
      · exact (SLe.fail _ _).scriptsC h
    · exact ScriptsC_badRoot h r
  | getMut r =>
    simp only [applyAct]
    split
    · split
      · exact (SLe.emit _ _).scriptsC h
      · exact (SLe.fail _ _).scriptsC h
    · exact ScriptsC_badRoot h r
  | intoRaw r =>
    simp only [applyAct]
    split
    · exact h.congr rfl rfl rfl
    · exact ScriptsC_badRoot h r
  | fromRaw i =>
    simp only [applyAct]
    split
    · exact h.congr rfl rfl rfl
    · exact h
  | incStrong i =>
    simp only [applyAct]
    split
    · split
      · exact ((SLe.incStrong s _).scriptsC h).congr rfl rfl rfl
      · exact (SLe.fail _ _).scriptsC h
    · exact h
  | decStrong i =>
    simp only [applyAct]
    split
    · split
      · refine ScriptsC.push (h.congr (s' := { s with raws := _ }) rfl rfl rfl) ?_
        intro f hf
        simp only [List.mem_cons, List.not_mem_nil, or_false] at hf
        subst hf; trivial
      · exact (SLe.fail _ _).scriptsC h
    · exact h
  | ptrEq r1 r2 =>
    simp only [applyAct]
    split
    · exact (SLe.emit _ _).scriptsC h
    · exact ScriptsC_badRoot (ScriptsC_badRoot h r1) r2
  | counts r =>
    simp only [applyAct]
    split
    · split
      · exact (SLe.emit _ _).scriptsC ((SLe.emit _ _).scriptsC h)
      · exact (SLe.fail _ _).scriptsC h
    · exact ScriptsC_badRoot h r
  | wcounts w =>
    simp only [applyAct]
    split
    · split
      · split <;> exact (SLe.emit _ _).scriptsC ((SLe.emit _ _).scriptsC h)
      · exact (SLe.fail _ _).scriptsC h
    · exact h
  | setPanic q =>
    simp only [applyAct]
    split
    · apply ScriptsC.modVal h
      intro _; rfl
    · exact ScriptsC_badRoot h q
  | setShallow q =>
    simp only [applyAct]
    split
    · apply ScriptsC.modVal h
      intro _; rfl
    · exact ScriptsC_badRoot h q
  | upgradeField k =>
    simp only [applyAct]
    split
    · split
      · split
        · exact (SLe.emit _ _).scriptsC h
        · exact ((SLe.incStrong s _).scriptsC h).congr rfl rfl rfl
      · exact (SLe.fail _ _).scriptsC h
    · exact h
  | cloneField k =>
    simp only [applyAct]
    split
    · exact ((SLe.incStrong s _).scriptsC h).congr rfl rfl rfl
    · exact h
  | downgradeField k =>
    simp only [applyAct]
    split
    · exact ((SLe.incWeak s _).scriptsC h).congr rfl rfl rfl
    · exact h

/-- contract-respecting operations keep `ScriptsC` -/
theorem applyOp_scriptsC (s : State) (op : Op) (hop : op.respects) (h : s.ScriptsC) :
    (applyOp s op).ScriptsC := by
  cases op with
  | act a => exact applyAct_scriptsC s [] [] a h
  | setScript q acts =>
    simp only [applyOp]
    split
    · rename_i o _
      rcases modVal_cases s o (fun v => { v with script := acts }) with ⟨e, he⟩ | ⟨ob, v, hc, hv, he⟩ <;>
        rw [he]
      · exact (SLe.fail _ _).scriptsC h
      · refine ⟨h.1, ?_, h.2.2⟩
        intro x obx vx hx hvx
        by_cases hxo : x = o
        · subst hxo
          rw [getElem?_setObj_same _ (get_lt (get_of_cell hc))] at hx
          cases hx
          cases hvx
          exact hop
        · rw [getElem?_setObj_other s _ hxo] at hx
          exact h.2.1 x obx vx hx hvx
    · exact ScriptsC_badRoot h q
  | shuffle q i =>
    simp only [applyOp]
    split
    · exact (SLe.setLinks _ _ _).scriptsC h
    · exact ScriptsC_badRoot h q

theorem State.ScriptsC.panic {s : State} (h : s.ScriptsC) : s.panic.ScriptsC := by
  unfold State.panic
  split
  · exact (SLe.fail _ _).scriptsC h
  · exact ⟨fun g hg => h.1 g (List.mem_filter.mp hg).1, h.2.1, h.2.2⟩

/-- one machine step keeps `ScriptsC` -/
theorem step_scriptsC (s : State) (h : s.ScriptsC) : (step s).ScriptsC := by
  unfold step
  split
  · exact h
  · split
    · exact h
    · rename_i f rest hst
      obtain ⟨h0, hf⟩ := h.pop hst
      split
      · exact h0.rcDrop _
      · exact (SLe.decWeakFree _ _ false).scriptsC h0
      · rename_i v
        unfold State.dropVal
        refine ScriptsC.push ((SLe.emit _ _).scriptsC h0) ?_
        intro g hg
        simp only [List.mem_append, List.mem_cons, List.not_mem_nil, or_false] at hg
        rcases hg with (rfl | hg) | rfl
        · exact hf
        · split at hg
          · simp only [List.mem_cons, List.not_mem_nil, or_false] at hg
            subst hg; trivial
          · cases hg
        · trivial
      · exact h0
      · rename_i hh ww a as
        apply applyAct_scriptsC
        refine ScriptsC.push h0 ?_
        intro g hg
        simp only [List.mem_cons, List.not_mem_nil, or_false] at hg
        subst hg
        exact fun b hb => hf b (List.mem_cons_of_mem _ hb)
      · exact h0.panic
      · rename_i hh ww
        cases hh with
        | cons a hh =>
          refine ScriptsC.push h0 ?_
          intro g hg
          simp only [List.mem_cons, List.not_mem_nil, or_false] at hg
          rcases hg with rfl | rfl <;> trivial
        | nil =>
          cases ww with
          | cons a ww =>
            refine ScriptsC.push h0 ?_
            intro g hg
            simp only [List.mem_cons, List.not_mem_nil, or_false] at hg
            rcases hg with rfl | rfl <;> trivial
          | nil => exact h0
      · exact (SLe.finishSingle _ _).scriptsC h0
      · exact (SLe.foldl _ SLe.phase3One _ _).scriptsC h0

theorem endOp_scriptsC (s : State) (h : s.ScriptsC) : (endOp s).ScriptsC := by
  unfold endOp
  split
  · exact h.congr rfl rfl rfl
  · exact h

theorem begin_scriptsC (s : State) (hint : List Nat) (h : s.ScriptsC) : (s.begin hint).ScriptsC :=
  h.congr rfl rfl rfl

theorem ScriptsC_init : ({} : State).ScriptsC := by
  refine ⟨?_, ?_, ?_⟩
  · intro f hf; cases hf
  · intro o ob v hx _
    have : (({} : State).heap)[o]? = none := rfl
    rw [this] at hx; cases hx
  · intro v hv; cases hv

/-! ## machine steps keep the contract -/

/-- **one machine step keeps the contract**, for every frame kind, provided the scripts in the
state are contract-respecting (only the `script` frame needs that, and the invariant) -/
theorem step_P (s : State) (hI : s.Inv) (hC : s.ScriptsC) (hP : s.P) : (step s).P := by
  unfold step
  split
  · exact hP
  · rename_i herr
    split
    · exact hP
    · rename_i f rest hst
      have hP0 : ({ s with stack := rest } : State).P := P_congr rfl hP
      obtain ⟨hO, hB, -, -, -⟩ := hI herr
      split
      · exact rcDrop_P_core _ _ herr (pop_InvO rest hO) (pop_InvB rest hB) hP0
      · exact (PLe.decWeakFree _ _ false).P hP0
      · exact (PLe.dropVal _ _).P hP0
      · exact hP0
      · rename_i hh ww a as
        have ha : a.respects := by
          have := hC.1 _ (by rw [hst]; exact List.mem_cons_self)
          exact this a List.mem_cons_self
        exact applyAct_P_core _ hh ww a ha herr (script_push_invCore hst (hI herr)) (P_congr rfl hP)
      · exact (PLe.panic _).P hP0
      · exact (PLe.dropFields _ _ _).P hP0
      · exact (PLe.finishSingle _ _).P hP0
      · exact (PLe.foldl _ PLe.phase3One _ _).P hP0

/-- **contract-respecting actions keep the contract** -/
theorem applyAct_P (s : State) (fh fw : List Nat) (a : Act) (ha : a.respects)
    (herr : s.err = none) (hI : s.Inv) (hP : s.P) : (applyAct s fh fw a).P :=
  applyAct_P_core s fh fw a ha herr (hI herr) hP

/-- **contract-respecting operations keep the contract** -/
theorem applyOp_P (s : State) (op : Op) (hop : op.respects) (herr : s.err = none) (hI : s.Inv)
    (hP : s.P) : (applyOp s op).P :=
  applyOp_P_core s op hop herr (hI herr) hP

/-! ## contract-respecting histories -/

/-- like `Reachable`, but every operation of the history is contract-respecting -/
inductive ReachableC : State → Prop
  | init : ReachableC {}
  | op {s : State} (o : Op) (hint : List Nat) : ReachableC s → s.stack = [] → o.respects →
      ReachableC (applyOp (s.begin hint) o)
  | step {s : State} : ReachableC s → ReachableC (step s)
  | endOp {s : State} : ReachableC s → ReachableC (endOp s)
  | outOfFuel {s : State} : ReachableC s → ReachableC (s.fail .fuel)

theorem ReachableC.reachable {s : State} (h : ReachableC s) : Reachable s := by
  induction h with
  | init => exact .init
  | op o hint _ hq _ ih => exact .op o hint ih hq
  | step _ ih => exact .step ih
  | endOp _ ih => exact .endOp ih
  | outOfFuel _ ih => exact .outOfFuel ih

/-- the scripts of a contract-respecting history are contract-respecting -/
theorem ReachableC.scriptsC {s : State} (h : ReachableC s) : s.ScriptsC := by
  induction h with
  | init => exact ScriptsC_init
  | op o hint _ _ ho ih => exact applyOp_scriptsC _ o ho (begin_scriptsC _ hint ih)
  | step _ ih => exact step_scriptsC _ ih
  | endOp _ ih => exact endOp_scriptsC _ ih
  | outOfFuel _ ih => exact (SLe.fail _ _).scriptsC ih

/-- **a contract-respecting history satisfies the adoption contract in every state it passes
through** (as long as the machine has not stopped with an error) -/
theorem ReachableC.reachableP {s : State} (h : ReachableC s) (herr : s.err = none) :
    ReachableP s := by
  induction h with
  | init => exact .init
  | @op s o hint hr hq ho ih =>
    have herr0 : s.err = none := applyOp_err_none (s := s.begin hint) herr
    have hp := ih herr0
    refine .op o hint hp hq ?_
    exact applyOp_P _ o ho herr0 (begin_inv s hint (reachable_Inv hp.reachable))
      (P_congr (s := s) rfl (reachableP_P hp))
  | @step s hr ih =>
    have herr0 : s.err = none := step_err_none herr
    have hp := ih herr0
    exact .step hp (step_P s (reachable_Inv hp.reachable) hr.scriptsC (reachableP_P hp))
  | @endOp s hr ih =>
    exact .endOp (ih (by rw [← endOp_err s]; exact herr))
  | @outOfFuel s hr ih =>
    exact absurd herr (fail_err_ne_none s _)

/-- the contract holds in every error-free state of a contract-respecting history -/
theorem ReachableC.P {s : State} (h : ReachableC s) (herr : s.err = none) : s.P :=
  reachableP_P (h.reachableP herr)

/-- **safety of contract-respecting histories**: every object reachable from the program's handles
through handles stored in live values is live -/
theorem contract_respecting_history_safe {s : State} (h : ReachableC s) (herr : s.err = none)
    {o : Nat} (hr : s.Reach o) : s.isLive o = true :=
  reach_live (reachableP_invS (h.reachableP herr) herr) hr

theorem drain_reachableC (f : Nat) (s : State) (h : ReachableC s) : ReachableC (drain f s) := by
  induction f generalizing s with
  | zero =>
    unfold drain
    split
    · exact h
    · exact .outOfFuel h
  | succ f ih =>
    unfold drain
    split
    · exact ih _ (.step h)
    · exact h

/-- every state produced by running a contract-respecting history (any fuel, any hints) is
`ReachableC` and quiescent -/
theorem foldl_execOp_reachableC (fuel : Nat) (ops : List (Op × List Nat))
    (hops : ∀ oh ∈ ops, oh.1.respects) (s : State)
    (hr : ReachableC s) (hq : s.err = none → s.stack = []) :
    ReachableC (ops.foldl (fun s oh => execOp fuel s oh.1 oh.2) s)
    ∧ ((ops.foldl (fun s oh => execOp fuel s oh.1 oh.2) s).err = none →
        (ops.foldl (fun s oh => execOp fuel s oh.1 oh.2) s).stack = []) := by
  induction ops generalizing s with
  | nil => exact ⟨hr, hq⟩
  | cons oh rest ih =>
    simp only [List.foldl_cons]
    apply ih (fun x hx => hops x (List.mem_cons_of_mem _ hx))
    · unfold execOp
      split
      · exact hr
      · rename_i he
        exact .endOp (drain_reachableC fuel _ (.op oh.1 oh.2 hr (hq he) (hops oh List.mem_cons_self)))
    · exact execOp_quiescent fuel s oh.1 oh.2 hq

/-- **run-level form**: the final state of a history of contract-respecting operations -/
theorem run_reachableC (ops : List (Op × List Nat)) (hops : ∀ oh ∈ ops, oh.1.respects) :
    ReachableC (run ops) :=
  (foldl_execOp_reachableC defaultFuel ops hops {} .init (fun _ => rfl)).1

/-- a history of contract-respecting operations that ends without error satisfies `ReachableP`,
hence everything reachable from the program's handles is live at its end -/
theorem run_contract_safe (ops : List (Op × List Nat)) (hops : ∀ oh ∈ ops, oh.1.respects)
    (herr : (run ops).err = none) {o : Nat} (hr : (run ops).Reach o) :
    (run ops).isLive o = true :=
  contract_respecting_history_safe (run_reachableC ops hops) herr hr

end Cactus
