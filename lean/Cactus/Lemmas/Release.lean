import Cactus.Lemmas.Final
/-!
# Destroyed objects return all memory (panic-free executions)
-/
namespace Cactus
open State

/-! ## definitions -/

def Act.noPanic : Act → Prop
  | .setPanic _ => False
  | _ => True

def Op.noPanic : Op → Prop
  | .act a => a.noPanic
  | .setScript _ acts => ∀ a ∈ acts, a.noPanic
  | .shuffle _ _ => True

/-- no destructor panics: no unwinding in progress, no pending `panic` frame, no value (in the heap,
held by the program, or waiting to be destroyed) is set to panic, and no stored or running script
contains `setPanic` -/
def State.NoPanic (s : State) : Prop :=
  s.unwinding = false ∧ Frame.panic ∉ s.stack
  ∧ (∀ ob ∈ s.heap, ∀ v, ob.value = some v → v.panics = false)
  ∧ (∀ v ∈ s.vals, v.panics = false)
  ∧ (∀ v, Frame.dropVal v ∈ s.stack → v.panics = false)
  ∧ (∀ ob ∈ s.heap, ∀ v, ob.value = some v → ∀ a ∈ v.script, a.noPanic)
  ∧ (∀ v ∈ s.vals, ∀ a ∈ v.script, a.noPanic)
  ∧ (∀ v, Frame.dropVal v ∈ s.stack → ∀ a ∈ v.script, a.noPanic)
  ∧ (∀ h w acts, Frame.script h w acts ∈ s.stack → ∀ a ∈ acts, a.noPanic)

/-- like `Reachable`, but no operation of the history is (or installs) a `setPanic` -/
inductive ReachableNP : State → Prop
  | init : ReachableNP {}
  | op {s : State} (o : Op) (hint : List Nat) : ReachableNP s → s.stack = [] → o.noPanic →
      ReachableNP (applyOp (s.begin hint) o)
  | step {s : State} : ReachableNP s → ReachableNP (step s)
  | endOp {s : State} : ReachableNP s → ReachableNP (endOp s)
  | outOfFuel {s : State} : ReachableNP s → ReachableNP (s.fail .fuel)

/-- an implicit weak reference that a dead object still owns is owed by exactly one pending frame -/
def State.InvN (s : State) : Prop :=
  ∀ o ob, s.heap[o]? = some ob → ob.strong.isDead = true → ob.implicit = true → s.owed o = 1

theorem ReachableNP.reachable {s : State} (h : ReachableNP s) : Reachable s := by
  induction h with
  | init => exact .init
  | op o hint _ hq _ ih => exact .op o hint ih hq
  | step _ ih => exact .step ih
  | endOp _ ih => exact .endOp ih
  | outOfFuel _ ih => exact .outOfFuel ih

/-! ## working forms -/

def Val.np (v : Val) : Prop := v.panics = false ∧ ∀ a ∈ v.script, a.noPanic

def Frame.np : Frame → Prop
  | .panic => False
  | .dropVal v => v.np
  | .script _ _ acts => ∀ a ∈ acts, a.noPanic
  | _ => True

/-- what the two new invariants observe of an object -/
def Obj.ob2 (ob : Obj) : Bool × Bool × Option Val := (ob.strong.isDead, ob.implicit, ob.value)

def look2 (h : List Obj) (x : Nat) : Option (Bool × Bool × Option Val) := (h[x]?).map Obj.ob2

/-- "dead and still owning its implicit weak reference" -/
def di (h : List Obj) (x : Nat) : Bool :=
  match h[x]? with
  | some ob => ob.strong.isDead && ob.implicit
  | none => false

/-- the value stored at `x` (whether or not the allocation has been released) -/
def rawVal (h : List Obj) (x : Nat) : Option Val :=
  match h[x]? with
  | some ob => ob.value
  | none => none

theorem di_eq_look2 (h : List Obj) (x : Nat) :
    di h x = match look2 h x with | some (d, i, _) => d && i | none => false := by
  unfold di look2; cases h[x]? <;> rfl

theorem rawVal_eq_look2 (h : List Obj) (x : Nat) :
    rawVal h x = match look2 h x with | some (_, _, v) => v | none => none := by
  unfold rawVal look2; cases h[x]? <;> rfl

theorem di_of_get {h : List Obj} {x : Nat} {ob : Obj} (hg : h[x]? = some ob) :
    di h x = (ob.strong.isDead && ob.implicit) := by simp [di, hg]

theorem rawVal_of_get {h : List Obj} {x : Nat} {ob : Obj} (hg : h[x]? = some ob) :
    rawVal h x = ob.value := by simp [rawVal, hg]

theorem di_true_iff {h : List Obj} {x : Nat} :
    di h x = true ↔ ∃ ob, h[x]? = some ob ∧ ob.strong.isDead = true ∧ ob.implicit = true := by
  unfold di
  cases hg : h[x]? with
  | none => simp
  | some ob => simp

theorem rawVal_eq_some_iff {h : List Obj} {x : Nat} {v : Val} :
    rawVal h x = some v ↔ ∃ ob, h[x]? = some ob ∧ ob.value = some v := by
  unfold rawVal
  cases hg : h[x]? with
  | none => simp
  | some ob => simp

/-- every value stored in the heap is panic-free -/
def HOK (h : List Obj) : Prop := ∀ x v, rawVal h x = some v → v.np

structure State.NP (s : State) : Prop where
  unw : s.unwinding = false
  stk : ∀ f ∈ s.stack, f.np
  heap : HOK s.heap
  vals : ∀ v ∈ s.vals, v.np

theorem State.NoPanic_iff_NP (s : State) : s.NoPanic ↔ s.NP := by
  constructor
  · rintro ⟨h1, h2, h3, h4, h5, h6, h7, h8, h9⟩
    refine ⟨h1, ?_, ?_, fun v hv => ⟨h4 v hv, h7 v hv⟩⟩
    · intro f hf
      cases f with
      | panic => exact absurd hf h2
      | dropVal v => exact ⟨h5 v hf, h8 v hf⟩
      | script h w acts => exact h9 h w acts hf
      | _ => trivial
    · intro x v hv
      obtain ⟨ob, hg, hv⟩ := rawVal_eq_some_iff.mp hv
      have hm := mem_of_getElem?_eq_some hg
      exact ⟨h3 ob hm v hv, h6 ob hm v hv⟩
  · rintro ⟨h1, h2, h3, h4⟩
    have hheap : ∀ ob ∈ s.heap, ∀ v, ob.value = some v → v.np := by
      intro ob hm v hv
      obtain ⟨x, hx⟩ := List.getElem?_of_mem hm
      exact h3 x v (rawVal_eq_some_iff.mpr ⟨ob, hx, hv⟩)
    refine ⟨h1, fun hm => h2 _ hm, fun ob hm v hv => (hheap ob hm v hv).1, fun v hv => (h4 v hv).1,
      fun v hm => (h2 _ hm).1, fun ob hm v hv => (hheap ob hm v hv).2, fun v hv => (h4 v hv).2,
      fun v hm => (h2 _ hm).2, fun h w acts hm => h2 _ hm⟩

/-! ## the observation under the state primitives -/

theorem look2_setObj_same {s : State} {o : Nat} {ob : Obj} (ob' : Obj) (hg : s.heap[o]? = some ob)
    (hp : ob'.ob2 = ob.ob2) (x : Nat) : look2 (s.setObj o ob').heap x = look2 s.heap x := by
  unfold look2
  by_cases hx : x = o
  · subst hx
    rw [getElem?_setObj_same _ (get_lt hg), hg]; simp [hp]
  · rw [getElem?_setObj_other s _ hx]

theorem look2_setObj_other (s : State) {o x : Nat} (ob' : Obj) (hx : x ≠ o) :
    look2 (s.setObj o ob').heap x = look2 s.heap x := by
  unfold look2; rw [getElem?_setObj_other s _ hx]

@[simp] theorem look2_setLinks (s : State) (o : Nat) (f : Table → Table) (x : Nat) :
    look2 (s.setLinks o f).heap x = look2 s.heap x := by
  rcases setLinks_cases s o f with ⟨e, h⟩ | ⟨ob, t, hc, hl, h⟩ <;> rw [h]
  · simp
  · exact look2_setObj_same _ (get_of_cell hc) (by rfl) x

@[simp] theorem look2_incStrong (s : State) (o : Nat) (x : Nat) :
    look2 (s.incStrong o).heap x = look2 s.heap x := by
  rcases incStrong_cases s o with ⟨e, h⟩ | ⟨ob, n, hc, hs, h⟩ <;> rw [h]
  · simp
  · exact look2_setObj_same _ (get_of_cell hc) (by simp [Obj.ob2, hs, Strong.isDead]) x

@[simp] theorem look2_incWeak (s : State) (o : Nat) (x : Nat) :
    look2 (s.incWeak o).heap x = look2 s.heap x := by
  rcases incWeak_cases s o with ⟨e, h⟩ | ⟨ob, hc, hw, h⟩ <;> rw [h]
  · simp
  · exact look2_setObj_same _ (get_of_cell hc) (by rfl) x

@[simp] theorem look2_decWeakFree_false (s : State) (o : Nat) (x : Nat) :
    look2 (s.decWeakFree o false).heap x = look2 s.heap x := by
  rcases decWeakFree_cases s o false with ⟨e, h⟩ | ⟨ob, hc, hw, h⟩ | ⟨ob, w, hc, hw, h⟩ <;> rw [h]
  · simp
  · rw [emit_heap]; exact look2_setObj_same _ (get_of_cell hc) (by simp [Obj.ob2]) x
  · exact look2_setObj_same _ (get_of_cell hc) (by simp [Obj.ob2]) x

@[simp] theorem look2_adopt (s : State) (a b : Nat) (same : Bool) (x : Nat) :
    look2 (s.adopt a b same).heap x = look2 s.heap x := by
  unfold adopt; split <;> simp

@[simp] theorem look2_unadopt (s : State) (a b : Nat) (same : Bool) (x : Nat) :
    look2 (s.unadopt a b same).heap x = look2 s.heap x := by
  unfold unadopt; split <;> simp

@[simp] theorem look2_purgePeers (s : State) (o : Nat) (x : Nat) :
    look2 (s.purgePeers o).heap x = look2 s.heap x :=
  purgePeers_invariant (fun s => look2 s.heap x) (by simp) (by simp) s o

@[simp] theorem look2_cloneHandles (s : State) (v : Val) (x : Nat) :
    look2 (s.cloneHandles v).heap x = look2 s.heap x :=
  cloneHandles_invariant (fun s => look2 s.heap x) (by simp) (by simp) s v

theorem look2_alloc_old (s : State) (v : Val) {x : Nat} (hx : x ≠ s.heap.length) :
    look2 (s.alloc v).heap x = look2 s.heap x := by
  unfold look2; rw [getElem?_alloc_old s v hx]

@[simp] theorem look2_alloc_new (s : State) (v : Val) :
    look2 (s.alloc v).heap s.heap.length = some (false, true, some v) := by
  unfold look2; rw [getElem?_alloc_new]; rfl

/-! ### `di` -/

@[simp] theorem di_setLinks (s : State) (o : Nat) (f : Table → Table) (x : Nat) :
    di (s.setLinks o f).heap x = di s.heap x := by simp [di_eq_look2]
@[simp] theorem di_incStrong (s : State) (o : Nat) (x : Nat) :
    di (s.incStrong o).heap x = di s.heap x := by simp [di_eq_look2]
@[simp] theorem di_incWeak (s : State) (o : Nat) (x : Nat) :
    di (s.incWeak o).heap x = di s.heap x := by simp [di_eq_look2]
@[simp] theorem di_decWeakFree_false (s : State) (o : Nat) (x : Nat) :
    di (s.decWeakFree o false).heap x = di s.heap x := by simp [di_eq_look2]
@[simp] theorem di_adopt (s : State) (a b : Nat) (same : Bool) (x : Nat) :
    di (s.adopt a b same).heap x = di s.heap x := by simp [di_eq_look2]
@[simp] theorem di_unadopt (s : State) (a b : Nat) (same : Bool) (x : Nat) :
    di (s.unadopt a b same).heap x = di s.heap x := by simp [di_eq_look2]
@[simp] theorem di_purgePeers (s : State) (o : Nat) (x : Nat) :
    di (s.purgePeers o).heap x = di s.heap x := by simp [di_eq_look2]
@[simp] theorem di_cloneHandles (s : State) (v : Val) (x : Nat) :
    di (s.cloneHandles v).heap x = di s.heap x := by simp [di_eq_look2]

@[simp] theorem di_alloc (s : State) (v : Val) (x : Nat) : di (s.alloc v).heap x = di s.heap x := by
  by_cases hx : x = s.heap.length
  · subst hx
    rw [di_eq_look2, look2_alloc_new, di]
    simp
  · simp [di_eq_look2, look2_alloc_old s v hx]

theorem di_setObj_other (s : State) {o x : Nat} (ob' : Obj) (hx : x ≠ o) :
    di (s.setObj o ob').heap x = di s.heap x := by
  rw [di_eq_look2, di_eq_look2, look2_setObj_other s ob' hx]

theorem di_setObj_same {s : State} {o : Nat} (ob' : Obj) (hlt : o < s.heap.length) :
    di (s.setObj o ob').heap o = (ob'.strong.isDead && ob'.implicit) :=
  di_of_get (getElem?_setObj_same _ hlt)

theorem di_setObj_of_eq {s : State} {o : Nat} {ob : Obj} (ob' : Obj) (hg : s.heap[o]? = some ob)
    (hs : ob'.strong.isDead = ob.strong.isDead) (hi : ob'.implicit = ob.implicit) (x : Nat) :
    di (s.setObj o ob').heap x = di s.heap x := by
  by_cases hx : x = o
  · subst hx; rw [di_setObj_same _ (get_lt hg), di_of_get hg, hs, hi]
  · exact di_setObj_other s _ hx

@[simp] theorem di_modVal (s : State) (o : Nat) (f : Val → Val) (x : Nat) :
    di (s.modVal o f).heap x = di s.heap x := by
  rcases modVal_cases s o f with ⟨e, h⟩ | ⟨ob, v, hc, hv, h⟩ <;> rw [h]
  · simp
  · exact di_setObj_of_eq _ (get_of_cell hc) (by rfl) (by rfl) x

@[simp] theorem di_badRoot (s : State) (r : Nat) (x : Nat) : di (s.badRoot r).heap x = di s.heap x := by
  simp

/-- releasing a weak reference never makes an object "dead with implicit" -/
theorem di_decWeakFree_le (s : State) (o : Nat) (imp : Bool) (x : Nat)
    (h : di (s.decWeakFree o imp).heap x = true) : di s.heap x = true := by
  rcases decWeakFree_cases s o imp with ⟨e, he⟩ | ⟨ob, hc, hw, he⟩ | ⟨ob, w, hc, hw, he⟩ <;> rw [he] at h
  · simpa using h
  · rw [emit_heap] at h
    by_cases hx : x = o
    · subst hx
      rw [di_setObj_same _ (get_lt (get_of_cell hc))] at h
      rw [di_of_get (get_of_cell hc)]
      simp at h ⊢; exact ⟨h.1, h.2.1⟩
    · rwa [di_setObj_other s _ hx] at h
  · by_cases hx : x = o
    · subst hx
      rw [di_setObj_same _ (get_lt (get_of_cell hc))] at h
      rw [di_of_get (get_of_cell hc)]
      simp at h ⊢; exact ⟨h.1, h.2.1⟩
    · rwa [di_setObj_other s _ hx] at h

/-- releasing the implicit weak reference clears the flag -/
theorem di_decWeakFree_true_same (s : State) (o : Nat) (he : (s.decWeakFree o true).err = none) :
    di (s.decWeakFree o true).heap o = false := by
  obtain ⟨-, ob, hc, hw⟩ := (decWeakFree_err_eq_none_iff s o true).mp he
  rw [di_of_get (getElem?_decWeakFree_same true hc hw)]
  simp

theorem di_decWeakFree_other (s : State) {o x : Nat} (imp : Bool) (hx : x ≠ o) :
    di (s.decWeakFree o imp).heap x = di s.heap x := by
  unfold di; rw [getElem?_decWeakFree_other s imp hx]

/-! ### `rawVal` -/

@[simp] theorem rawVal_setLinks (s : State) (o : Nat) (f : Table → Table) (x : Nat) :
    rawVal (s.setLinks o f).heap x = rawVal s.heap x := by simp [rawVal_eq_look2]
@[simp] theorem rawVal_incStrong (s : State) (o : Nat) (x : Nat) :
    rawVal (s.incStrong o).heap x = rawVal s.heap x := by simp [rawVal_eq_look2]
@[simp] theorem rawVal_incWeak (s : State) (o : Nat) (x : Nat) :
    rawVal (s.incWeak o).heap x = rawVal s.heap x := by simp [rawVal_eq_look2]
@[simp] theorem rawVal_adopt (s : State) (a b : Nat) (same : Bool) (x : Nat) :
    rawVal (s.adopt a b same).heap x = rawVal s.heap x := by simp [rawVal_eq_look2]
@[simp] theorem rawVal_unadopt (s : State) (a b : Nat) (same : Bool) (x : Nat) :
    rawVal (s.unadopt a b same).heap x = rawVal s.heap x := by simp [rawVal_eq_look2]
@[simp] theorem rawVal_purgePeers (s : State) (o : Nat) (x : Nat) :
    rawVal (s.purgePeers o).heap x = rawVal s.heap x := by simp [rawVal_eq_look2]
@[simp] theorem rawVal_cloneHandles (s : State) (v : Val) (x : Nat) :
    rawVal (s.cloneHandles v).heap x = rawVal s.heap x := by simp [rawVal_eq_look2]

theorem rawVal_setObj_other (s : State) {o x : Nat} (ob' : Obj) (hx : x ≠ o) :
    rawVal (s.setObj o ob').heap x = rawVal s.heap x := by
  rw [rawVal_eq_look2, rawVal_eq_look2, look2_setObj_other s ob' hx]

theorem rawVal_setObj_same {s : State} {o : Nat} (ob' : Obj) (hlt : o < s.heap.length) :
    rawVal (s.setObj o ob').heap o = ob'.value :=
  rawVal_of_get (getElem?_setObj_same _ hlt)

theorem rawVal_setObj_of_eq {s : State} {o : Nat} {ob : Obj} (ob' : Obj) (hg : s.heap[o]? = some ob)
    (hv : ob'.value = ob.value) (x : Nat) :
    rawVal (s.setObj o ob').heap x = rawVal s.heap x := by
  by_cases hx : x = o
  · subst hx; rw [rawVal_setObj_same _ (get_lt hg), rawVal_of_get hg, hv]
  · exact rawVal_setObj_other s _ hx

@[simp] theorem rawVal_decWeakFree (s : State) (o : Nat) (imp : Bool) (x : Nat) :
    rawVal (s.decWeakFree o imp).heap x = rawVal s.heap x := by
  rcases decWeakFree_cases s o imp with ⟨e, h⟩ | ⟨ob, hc, hw, h⟩ | ⟨ob, w, hc, hw, h⟩ <;> rw [h]
  · simp
  · rw [emit_heap]; exact rawVal_setObj_of_eq _ (get_of_cell hc) (by rfl) x
  · exact rawVal_setObj_of_eq _ (get_of_cell hc) (by rfl) x

@[simp] theorem rawVal_badRoot (s : State) (r : Nat) (x : Nat) :
    rawVal (s.badRoot r).heap x = rawVal s.heap x := by simp

theorem rawVal_alloc (s : State) (v : Val) (x : Nat) :
    rawVal (s.alloc v).heap x = if x = s.heap.length then some v else rawVal s.heap x := by
  by_cases hx : x = s.heap.length
  · subst hx; rw [rawVal_eq_look2, look2_alloc_new]; simp
  · simp [rawVal_eq_look2, look2_alloc_old s v hx, hx]

/-- a value found in the heap after `modVal` is an old one or the image of an old one -/
theorem rawVal_modVal {s : State} {o : Nat} {f : Val → Val} {x : Nat} {v : Val}
    (h : rawVal (s.modVal o f).heap x = some v) :
    rawVal s.heap x = some v ∨ ∃ v0, rawVal s.heap x = some v0 ∧ v = f v0 := by
  rcases modVal_cases s o f with ⟨e, he⟩ | ⟨ob, v0, hc, hv, he⟩ <;> rw [he] at h
  · left; simpa using h
  · by_cases hx : x = o
    · subst hx
      rw [rawVal_setObj_same _ (get_lt (get_of_cell hc))] at h
      right
      refine ⟨v0, by rw [rawVal_of_get (get_of_cell hc), hv], ?_⟩
      simpa using h.symm
    · left; rwa [rawVal_setObj_other s _ hx] at h

end Cactus

namespace Cactus
open State

/-! ## the actions: `owed` and "dead with implicit" -/

@[simp] theorem cloneHandles_stack (s : State) (v : Val) : (s.cloneHandles v).stack = s.stack :=
  cloneHandles_invariant (fun s => s.stack) (by simp) (by simp) s v
@[simp] theorem cloneHandles_vals (s : State) (v : Val) : (s.cloneHandles v).vals = s.vals :=
  cloneHandles_invariant (fun s => s.vals) (by simp) (by simp) s v
@[simp] theorem cloneHandles_unwinding (s : State) (v : Val) :
    (s.cloneHandles v).unwinding = s.unwinding :=
  cloneHandles_invariant (fun s => s.unwinding) (by simp) (by simp) s v
@[simp] theorem giveUp_stack (s : State) (o : Nat) : (s.giveUp o).stack = s.stack := by
  unfold giveUp; split <;> simp
@[simp] theorem giveUp_vals (s : State) (o : Nat) : (s.giveUp o).vals = s.vals := by
  unfold giveUp; split <;> simp
@[simp] theorem giveUp_unwinding (s : State) (o : Nat) : (s.giveUp o).unwinding = s.unwinding := by
  unfold giveUp; split <;> simp

@[simp] theorem owed_cloneHandles (s : State) (v : Val) (x : Nat) :
    (s.cloneHandles v).owed x = s.owed x :=
  cloneHandles_invariant (fun s => s.owed x) (by simp) (by simp) s v

@[simp] theorem owed_giveUp (s : State) (o : Nat) (x : Nat) : (s.giveUp o).owed x = s.owed x := by
  unfold giveUp; split <;> simp

theorem di_giveUp_le (s : State) (o : Nat) (x : Nat) (he : (s.giveUp o).err = none)
    (h : di (s.giveUp o).heap x = true) : di s.heap x = true := by
  unfold giveUp at he h
  split at he
  · rename_i ob hc
    rw [hc] at h
    simp only [] at h
    by_cases hx : x = o
    · subst hx
      rw [di_decWeakFree_true_same _ _ he] at h
      cases h
    · rwa [di_decWeakFree_other _ _ hx, di_setObj_other _ _ hx, di_purgePeers] at h
  · exact absurd he (fail_err_ne_none _ _)

theorem owed_applyAct (s : State) (fh fw : List Nat) (a : Act) (x : Nat) :
    (applyAct s fh fw a).owed x = s.owed x := by
  cases a <;> simp only [applyAct] <;> (repeat' split) <;> first | (simp; done) | simp [owed_def]

theorem di_applyAct_le (s : State) (fh fw : List Nat) (a : Act) (x : Nat)
    (he : (applyAct s fh fw a).err = none) (h : di (applyAct s fh fw a).heap x = true) :
    di s.heap x = true := by
  generalize hres : applyAct s fh fw a = s' at he h
  cases a <;> simp only [applyAct] at hres <;> (repeat' split at hres) <;> subst hres <;>
    first
    | (simpa using h)
    | (simp only [emit_heap, emit_err] at he h
       have := di_giveUp_le _ _ _ he h
       simpa using this)

/-! ## the actions: `NP` -/

@[simp] theorem Frame.np_rcDrop (o : Nat) : (Frame.rcDrop o).np ↔ True := Iff.rfl
@[simp] theorem Frame.np_weakDrop (o : Nat) : (Frame.weakDrop o).np ↔ True := Iff.rfl
@[simp] theorem Frame.np_dropFields (h w : List Nat) : (Frame.dropFields h w).np ↔ True := Iff.rfl
@[simp] theorem Frame.np_finishSingle (o : Nat) : (Frame.finishSingle o).np ↔ True := Iff.rfl
@[simp] theorem Frame.np_phase3 (ks : List Nat) : (Frame.phase3 ks).np ↔ True := Iff.rfl
@[simp] theorem Frame.np_panic : Frame.panic.np ↔ False := Iff.rfl
@[simp] theorem Frame.np_dropVal (v : Val) : (Frame.dropVal v).np ↔ v.np := Iff.rfl
@[simp] theorem Frame.np_script (h w : List Nat) (acts : List Act) :
    (Frame.script h w acts).np ↔ ∀ a ∈ acts, a.noPanic := Iff.rfl


@[simp] theorem HOK_setLinks (s : State) (o : Nat) (f : Table → Table) :
    HOK (s.setLinks o f).heap ↔ HOK s.heap := by simp [HOK]
@[simp] theorem HOK_incStrong (s : State) (o : Nat) : HOK (s.incStrong o).heap ↔ HOK s.heap := by
  simp [HOK]
@[simp] theorem HOK_incWeak (s : State) (o : Nat) : HOK (s.incWeak o).heap ↔ HOK s.heap := by
  simp [HOK]
@[simp] theorem HOK_adopt (s : State) (a b : Nat) (same : Bool) :
    HOK (s.adopt a b same).heap ↔ HOK s.heap := by simp [HOK]
@[simp] theorem HOK_unadopt (s : State) (a b : Nat) (same : Bool) :
    HOK (s.unadopt a b same).heap ↔ HOK s.heap := by simp [HOK]
@[simp] theorem HOK_purgePeers (s : State) (o : Nat) : HOK (s.purgePeers o).heap ↔ HOK s.heap := by
  simp [HOK]
@[simp] theorem HOK_cloneHandles (s : State) (v : Val) : HOK (s.cloneHandles v).heap ↔ HOK s.heap := by
  simp [HOK]
@[simp] theorem HOK_decWeakFree (s : State) (o : Nat) (imp : Bool) :
    HOK (s.decWeakFree o imp).heap ↔ HOK s.heap := by simp [HOK]

theorem HOK_setObj {s : State} (o : Nat) {ob' : Obj} (h : HOK s.heap)
    (hv : ∀ v, ob'.value = some v → v.np) : HOK (s.setObj o ob').heap := by
  intro x v hx
  by_cases hxo : x = o
  · subst hxo
    by_cases hlt : x < s.heap.length
    · rw [rawVal_setObj_same _ hlt] at hx; exact hv v hx
    · rw [setObj_of_ge _ (Nat.le_of_not_lt hlt)] at hx; exact h x v hx
  · rw [rawVal_setObj_other s _ hxo] at hx; exact h x v hx

theorem HOK_modVal {s : State} (o : Nat) {f : Val → Val} (h : HOK s.heap)
    (hf : ∀ v, v.np → (f v).np) : HOK (s.modVal o f).heap := by
  intro x v hx
  rcases rawVal_modVal hx with h1 | ⟨v0, h1, rfl⟩
  · exact h x v h1
  · exact hf v0 (h x v0 h1)

theorem HOK_alloc {s : State} {v : Val} (h : HOK s.heap) (hv : v.np) : HOK (s.alloc v).heap := by
  intro x w hx
  rw [rawVal_alloc] at hx
  split at hx
  · cases hx; exact hv
  · exact h x w hx

theorem HOK_giveUp {s : State} (o : Nat) (h : HOK s.heap) : HOK (s.giveUp o).heap := by
  unfold giveUp
  split
  · rw [HOK_decWeakFree]
    exact HOK_setObj o (by simpa using h) (by intro v hv; cases hv)
  · simpa using h

theorem State.NP.val_of_cell {s : State} (h : s.NP) {o : Nat} {ob : Obj} {v : Val} (hc : s.cell o = some ob)
    (hv : ob.value = some v) : v.np :=
  h.heap o v (by rw [rawVal_of_get (get_of_cell hc), hv])

theorem np_with_held {v : Val} (l : List Nat) (h : v.np) : ({ v with held := l } : Val).np := h
theorem np_with_weaks {v : Val} (l : List Nat) (h : v.np) : ({ v with weaks := l } : Val).np := h
theorem np_with_vid {v : Val} (n : Nat) (h : v.np) : ({ v with vid := n } : Val).np := h

theorem NP_of {s s' : State} (h : s.NP) (hu : s'.unwinding = s.unwinding)
    (hs : ∀ f ∈ s'.stack, f ∈ s.stack ∨ f.np) (hh : HOK s'.heap)
    (hv : ∀ v ∈ s'.vals, v ∈ s.vals ∨ v.np) : s'.NP :=
  ⟨hu.trans h.unw, fun f hf => (hs f hf).elim (h.stk f) id, hh,
    fun v hm => (hv v hm).elim (h.vals v) id⟩

theorem NP_same {s s' : State} (h : s.NP) (hu : s'.unwinding = s.unwinding)
    (hs : s'.stack = s.stack) (hh : s'.heap = s.heap) (hv : s'.vals = s.vals) : s'.NP :=
  ⟨hu.trans h.unw, hs ▸ h.stk, hh ▸ h.heap, hv ▸ h.vals⟩

theorem applyAct_NP_new (s : State) (fh fw : List Nat) (h : s.NP) : (applyAct s fh fw .new).NP := by
  simp only [applyAct]
  refine NP_of h rfl (fun f hf => Or.inl hf) ?_ (fun v hv => Or.inl hv)
  exact HOK_alloc h.heap ⟨rfl, by simp⟩

theorem applyAct_NP_tryUnwrap (s : State) (fh fw : List Nat) (r : Nat) (h : s.NP) :
    (applyAct s fh fw (.tryUnwrap r)).NP := by
  simp only [applyAct]
  repeat' split
  · rename_i o _ ob hc _ _ v hs hv
    refine NP_of h (by simp) (fun f hf => Or.inl (by simpa using hf)) ?_ ?_
    · rw [emit_heap]; exact HOK_giveUp _ h.heap
    · intro w hw
      simp only [emit_vals, giveUp_vals, List.mem_append, List.mem_singleton] at hw
      rcases hw with hw | rfl
      · exact Or.inl hw
      · exact Or.inr (h.val_of_cell hc hv)
  all_goals first
    | exact h
    | exact NP_same h (by simp) (by simp) (by simp) (by simp)

theorem applyAct_NP_dropValue (s : State) (fh fw : List Nat) (i : Nat) (h : s.NP) :
    (applyAct s fh fw (.dropValue i)).NP := by
  simp only [applyAct]
  split
  · rename_i v hv
    have hm : v ∈ s.vals := List.mem_of_getElem? (getElem?_idxMod_of_nthMod hv)
    refine NP_of h rfl ?_ h.heap (fun w hw => Or.inl (List.mem_of_mem_eraseIdx hw))
    intro f hf
    simp only [push_stack, List.cons_append, List.nil_append, List.mem_cons] at hf
    rcases hf with rfl | hf
    · exact Or.inr (h.vals v hm)
    · exact Or.inl hf
  · exact h

theorem applyAct_NP_makeMut (s : State) (fh fw : List Nat) (r : Nat) (h : s.NP) :
    (applyAct s fh fw (.makeMut r)).NP := by
  simp only [applyAct]
  split
  · rename_i o _
    split
    · rename_i ob hc
      split
      · rename_i v hv
        split
        · have hvn : v.np := h.val_of_cell hc hv
          by_cases hsh : v.shallow = true
          · simp only [hsh, if_true]
            refine NP_of h (by simp) (fun f hf => ?_) ?_ (fun v hv => Or.inl (by simpa using hv))
            · simp only [push_stack, List.cons_append, List.nil_append, List.mem_cons] at hf
              rcases hf with rfl | hf
              · exact Or.inr trivial
              · exact Or.inl (by simpa using hf)
            · show HOK (s.alloc _).heap
              exact HOK_alloc h.heap hvn
          · simp only [hsh]
            refine NP_of h (by simp) (fun f hf => ?_) ?_ (fun v hv => Or.inl (by simpa using hv))
            · simp only [push_stack, List.cons_append, List.nil_append, List.mem_cons] at hf
              rcases hf with rfl | hf
              · exact Or.inr trivial
              · exact Or.inl (by simpa using hf)
            · show HOK ((s.cloneHandles v).alloc _).heap
              exact HOK_alloc (by simpa using h.heap) hvn
        · split
          · refine NP_of h (by simp) (fun f hf => Or.inl (by simpa using hf)) ?_
              (fun v hv => Or.inl (by simpa using hv))
            rw [emit_heap]
            refine HOK_giveUp _ ?_
            show HOK (s.alloc v).heap
            exact HOK_alloc h.heap (h.val_of_cell hc hv)
          · exact NP_same h (by simp) (by simp) (by simp) (by simp)
      · exact NP_same h (by simp) (by simp) (by simp) (by simp)
    · exact NP_same h (by simp) (by simp) (by simp) (by simp)
  · exact NP_same h (by simp) (by simp) (by simp) (by simp)

theorem applyAct_NP (s : State) (fh fw : List Nat) (a : Act) (h : s.NP) (ha : a.noPanic) :
    (applyAct s fh fw a).NP := by
  have h3' : HOK s.heap := h.heap
  cases a with
  | new => exact applyAct_NP_new s fh fw h
  | tryUnwrap r => exact applyAct_NP_tryUnwrap s fh fw r h
  | dropValue i => exact applyAct_NP_dropValue s fh fw i h
  | makeMut r => exact applyAct_NP_makeMut s fh fw r h
  | setPanic q => exact False.elim ha
  | _ =>
    simp only [applyAct] <;> (repeat' split) <;>
    first
    | exact h
    | (refine NP_of h (by simp) (fun f hf => ?_) ?_ (fun v hv => Or.inl (by simpa using hv))
       · first
         | exact Or.inl (by simpa using hf)
         | (simp only [push_stack, List.cons_append, List.nil_append, List.mem_cons] at hf
            rcases hf with rfl | hf
            · exact Or.inr trivial
            · exact Or.inl hf)
       · try dsimp only
         repeat (first
           | exact h3'
           | refine HOK_modVal _ ?_ (fun v hv => hv)
           | simp only [fail_heap, emit_heap, HOK_adopt, HOK_unadopt, HOK_incStrong, HOK_incWeak,
               badRoot_heap]))

/-! ## top-level operations -/

theorem owed_applyOp (s : State) (op : Op) (x : Nat) : (applyOp s op).owed x = s.owed x := by
  cases op with
  | act a => exact owed_applyAct s [] [] a x
  | setScript q acts => simp only [applyOp]; split <;> simp
  | shuffle q i => simp only [applyOp]; split <;> simp

theorem di_applyOp_le (s : State) (op : Op) (x : Nat) (he : (applyOp s op).err = none)
    (h : di (applyOp s op).heap x = true) : di s.heap x = true := by
  cases op with
  | act a => exact di_applyAct_le s [] [] a x he h
  | setScript q acts => simp only [applyOp] at h; split at h <;> simpa using h
  | shuffle q i => simp only [applyOp] at h; split at h <;> simpa using h

theorem applyOp_NP (s : State) (op : Op) (h : s.NP) (ho : op.noPanic) : (applyOp s op).NP := by
  cases op with
  | act a => exact applyAct_NP s [] [] a h ho
  | setScript q acts =>
    simp only [applyOp]; split
    · refine NP_of h (by simp) (fun f hf => Or.inl (by simpa using hf)) ?_
        (fun v hv => Or.inl (by simpa using hv))
      exact HOK_modVal _ h.heap (fun v hv => ⟨hv.1, ho⟩)
    · exact NP_same h (by simp) (by simp) (by simp) (by simp)
  | shuffle q i =>
    simp only [applyOp]; split
    · exact NP_of h (by simp) (fun f hf => Or.inl (by simpa using hf)) (by simpa using h.heap)
        (fun v hv => Or.inl (by simpa using hv))
    · exact NP_same h (by simp) (by simp) (by simp) (by simp)

end Cactus

namespace Cactus
open State

/-! ## the trace branch of `Rc::drop`, by cases -/

theorem traceBranch_cases (s1 : State) (o : Nat) (herr : s1.err = none) (hI : s1.InvCore)
    (ho : s1.isLive o = true) :
    (∃ e, s1.traceBranch o = s1.emit e)
    ∨ (∃ e ks vs, Teardown (s1.emit e) (s1.traceBranch o) ks vs
        ∧ (s1.traceBranch o).unwinding = s1.unwinding) := by
  obtain ⟨hbad, hfuel⟩ := cycleRefs_ok s1 o hI.1 hI.2.1 ho
  unfold State.traceBranch
  simp only [hbad, hfuel]
  generalize he : Ev.traced o (cycleRefs s1 o).visited.length (cycleRefs s1 o).popped = e
  have hI2 : (s1.emit e).InvCore := State.InvCore_emit hI e
  have hcr : cycleRefs (s1.emit e) o = cycleRefs s1 o := cycleRefs_emit s1 e o
  have ho2 : (s1.emit e).isLive o = true := ho
  have herr2 : (s1.emit e).err = none := herr
  have hfu := firstUnreadable_none (s1.emit e) o hI2.1 hI2.2.1 ho2
  rw [hcr] at hfu
  simp only [hfu]
  by_cases hemp : (cycleRefs s1 o).cmap.isEmpty = true
  · simp only [hemp]
    exact Or.inl ⟨e, rfl⟩
  · have hemp' : (cycleRefs s1 o).cmap.isEmpty = false := by simpa using hemp
    simp only [hemp']
    cases hext : hasExternalOwners (s1.emit e) (cycleRefs s1 o).cmap with
    | true => exact Or.inl ⟨e, by simp⟩
    | false =>
      right
      have hne2 : (cycleRefs (s1.emit e) o).cmap.isEmpty = false := by rw [hcr]; exact hemp'
      have hext2 : hasExternalOwners (s1.emit e) (cycleRefs (s1.emit e) o).cmap = false := by
        rw [hcr]; exact hext
      have hT := dropCycle_teardown (s1.emit e) o hI2.1 hI2.2.1 herr2 ho2 hne2 hext2
      have hR := cycleReady_of_inv (s1.emit e) o hI2.1 hI2.2.1 herr2 ho2 hext2
      have hsp := dropCycle_spec (s1.emit e) _ hR
      rw [hcr] at hT hsp
      refine ⟨e, _, _, by simpa using hT, ?_⟩
      simpa using hsp.2.2.2.2.2.2.2.2.1

/-! ## `InvN'`: a dead object that still owns its implicit weak is owed by some pending frame -/

def State.InvN' (s : State) : Prop := ∀ x, di s.heap x = true → 1 ≤ s.owed x

theorem InvN'_of {u u' : State} (p : Nat → Prop)
    (hN : ∀ x, ¬ p x → di u.heap x = true → 1 ≤ u.owed x)
    (hp : ∀ x, p x → di u'.heap x = true → 1 ≤ u'.owed x)
    (hd : ∀ x, ¬ p x → di u'.heap x = true → di u.heap x = true)
    (ho : ∀ x, ¬ p x → u.owed x ≤ u'.owed x) : u'.InvN' := by
  intro x hx
  by_cases hpx : p x
  · exact hp x hpx hx
  · exact Nat.le_trans (hN x hpx (hd x hpx hx)) (ho x hpx)

theorem InvN'_mono {u u' : State} (hN : u.InvN')
    (hd : ∀ x, di u'.heap x = true → di u.heap x = true)
    (ho : ∀ x, u.owed x ≤ u'.owed x) : u'.InvN' :=
  InvN'_of (fun _ => False) (fun x _ => hN x) (fun _ h => h.elim) (fun x _ => hd x) (fun x _ => ho x)

theorem pop_InvN' {s : State} {f : Frame} {rest : List Frame} (hst : s.stack = f :: rest)
    (hN : s.InvN') (hf : ∀ x, Frame.owes x f = 0) : ({ s with stack := rest } : State).InvN' := by
  refine InvN'_mono hN (fun x h => h) (fun x => ?_)
  rw [owed_of_stack_cons hst x, hf x]; omega

/-! ### single-object teardown -/

theorem beginSingle_InvN' (w : State) (o : Nat)
    (hN : ∀ x, x ≠ o → di w.heap x = true → 1 ≤ w.owed x)
    (he : (w.beginSingle o).err = none) : (w.beginSingle o).InvN' := by
  unfold beginSingle at he ⊢
  cases hc : w.cell o with
  | none => simp only [hc] at he; exact absurd he (fail_err_ne_none _ _)
  | some ob =>
    cases hs : ob.strong with
    | uninit =>
      simp only [hc, hs] at he ⊢
      refine InvN'_of (· = o) hN ?_ ?_ ?_
      · rintro x rfl hx; rw [di_decWeakFree_true_same _ _ he] at hx; cases hx
      · intro x hx h; rwa [di_decWeakFree_other _ _ hx] at h
      · intro x _; simp
    | cnt k =>
      cases hv : ob.value with
      | none => simp only [hc, hs, hv] at he; exact absurd he (fail_err_ne_none _ _)
      | some v =>
        simp only [hc, hs, hv] at he ⊢
        refine InvN'_of (· = o) hN ?_ ?_ ?_
        · rintro x rfl _; simp
        · intro x hx h; rwa [push_heap, di_setObj_other _ _ hx] at h
        · intro x _; simp

theorem finishSingle_InvN' (w : State) (o : Nat)
    (hN : ∀ x, x ≠ o → di w.heap x = true → 1 ≤ w.owed x)
    (he : (w.finishSingle o).err = none) : (w.finishSingle o).InvN' := by
  unfold finishSingle at he ⊢
  cases hc : w.cell o with
  | none => simp only [hc] at he; exact absurd he (fail_err_ne_none _ _)
  | some ob =>
    cases hl : ob.links with
    | none => simp only [hc, hl] at he; exact absurd he (fail_err_ne_none _ _)
    | some t =>
      simp only [hc, hl] at he ⊢
      refine InvN'_of (· = o) hN ?_ ?_ ?_
      · rintro x rfl hx; rw [di_decWeakFree_true_same _ _ he] at hx; cases hx
      · intro x hx h; rwa [di_decWeakFree_other _ _ hx, di_setObj_other _ _ hx] at h
      · intro x _; simp

/-! ### phase 3 of the group teardown -/

theorem phase3One_err_none {w : State} {k : Nat} (h : (phase3One w k).err = none) : w.err = none := by
  unfold phase3One at h
  split at h
  · split at h
    · exact ((decWeakFree_err_eq_none_iff _ _ _).mp h).1
    · exact h
  · exact absurd h (fail_err_ne_none _ _)

theorem di_phase3One_le (w : State) (k x : Nat) (h : di (phase3One w k).heap x = true) :
    di w.heap x = true := by
  unfold phase3One at h
  split at h
  · split at h
    · exact di_decWeakFree_le _ _ _ _ h
    · exact h
  · simpa using h

theorem di_phase3One_same (w : State) (k : Nat) (he : (phase3One w k).err = none) :
    di (phase3One w k).heap k = false := by
  unfold phase3One at he ⊢
  split
  · rename_i ob hc
    simp only [hc] at he
    split
    · rename_i hd; simp only [hd, if_true] at he; exact di_decWeakFree_true_same _ _ he
    · rename_i hd
      rw [di_of_get (get_of_cell hc)]
      simp only [Bool.not_eq_true] at hd
      simp [hd]
  · rename_i hc; simp only [hc] at he; exact absurd he (fail_err_ne_none _ _)

@[simp] theorem owed_phase3One (w : State) (k x : Nat) : (phase3One w k).owed x = w.owed x := by
  unfold phase3One; split
  · split <;> simp
  · simp

theorem phase3_fold_err_none : ∀ (ks : List Nat) (w : State), (ks.foldl phase3One w).err = none →
    w.err = none
  | [], _, h => h
  | k :: ks, w, h => phase3One_err_none (phase3_fold_err_none ks (phase3One w k) h)

theorem di_phase3_fold_le : ∀ (ks : List Nat) (w : State) (x : Nat),
    di (ks.foldl phase3One w).heap x = true → di w.heap x = true
  | [], _, _, h => h
  | k :: ks, w, x, h => di_phase3One_le w k x (di_phase3_fold_le ks (phase3One w k) x h)

theorem owed_phase3_fold : ∀ (ks : List Nat) (w : State) (x : Nat),
    (ks.foldl phase3One w).owed x = w.owed x
  | [], _, _ => rfl
  | k :: ks, w, x => (owed_phase3_fold ks (phase3One w k) x).trans (owed_phase3One w k x)

theorem di_phase3_fold_mem : ∀ (ks : List Nat) (w : State) (k : Nat),
    (ks.foldl phase3One w).err = none → k ∈ ks → di (ks.foldl phase3One w).heap k = false
  | [], _, _, _, hk => by cases hk
  | k' :: ks, w, k, he, hk => by
    by_cases hm : k ∈ ks
    · exact di_phase3_fold_mem ks (phase3One w k') k he hm
    · have hkk : k = k' := by
        rcases List.mem_cons.mp hk with h | h
        · exact h
        · exact absurd h hm
      subst hkk
      have h1 := di_phase3One_same w k (phase3_fold_err_none ks _ he)
      cases hd : di (List.foldl phase3One w (k :: ks)).heap k with
      | false => rfl
      | true =>
        have := di_phase3_fold_le ks (phase3One w k) k hd
        rw [h1] at this; cases this

theorem phase3_InvN' (w : State) (ks : List Nat)
    (hN : ∀ x, x ∉ ks → di w.heap x = true → 1 ≤ w.owed x)
    (he : (ks.foldl phase3One w).err = none) : (ks.foldl phase3One w).InvN' := by
  refine InvN'_of (· ∈ ks) hN ?_ ?_ ?_
  · intro x hx h; rw [di_phase3_fold_mem ks w x he hx] at h; cases h
  · intro x _ h; exact di_phase3_fold_le ks w x h
  · intro x _; rw [owed_phase3_fold]; exact Nat.le_refl _

/-! ### group teardown -/

theorem Teardown.InvN' {s s' : State} {ks : List Nat} {vs : List Val} (h : Teardown s s' ks vs)
    (hN : s.InvN') : s'.InvN' := by
  refine InvN'_of (· ∈ ks) (fun x _ => hN x) ?_ ?_ ?_
  · intro x hx _
    rw [h.owed_eq x]
    have := List.count_pos_iff.mpr hx
    omega
  · intro x hx hd
    unfold di at hd ⊢
    rwa [h.other x hx] at hd
  · intro x _; rw [h.owed_eq x]; omega

theorem traceBranch_InvN' (s1 : State) (o : Nat) (herr : s1.err = none) (hI : s1.InvCore)
    (ho : s1.isLive o = true) (hN : s1.InvN') : (s1.traceBranch o).InvN' := by
  rcases traceBranch_cases s1 o herr hI ho with ⟨e, h⟩ | ⟨e, ks, vs, hT, -⟩
  · rw [h]; exact hN
  · exact hT.InvN' hN

/-! ### `Rc::drop` -/

theorem rcDrop_InvN' {s : State} {o : Nat} {rest : List Frame}
    (hst : s.stack = .rcDrop o :: rest) (herr : s.err = none) (h : s.Inv) (hN : s.InvN')
    (he : (({ s with stack := rest } : State).rcDrop o).err = none) :
    (({ s with stack := rest } : State).rcDrop o).InvN' := by
  have hN0 : ({ s with stack := rest } : State).InvN' := pop_InvN' hst hN (fun _ => rfl)
  generalize hs0 : ({ s with stack := rest } : State) = s0 at he hN0 ⊢
  have hcell : ∀ x, s0.cell x = s.cell x := by intro x; subst hs0; rfl
  cases hc : s.cell o with
  | none =>
    simp only [State.rcDrop, hcell, hc] at he
    exact absurd he (fail_err_ne_none _ _)
  | some ob =>
    have hc0 : s0.cell o = some ob := by rw [hcell, hc]
    have hg0 := get_of_cell hc0
    have hlt0 := get_lt hg0
    cases hs : ob.strong with
    | uninit => simp only [State.rcDrop, hc0, hs]; exact hN0
    | cnt n =>
      cases n with
      | zero => simp only [State.rcDrop, hc0, hs]; exact hN0
      | succ n =>
        cases hl : ob.links with
        | none =>
          simp only [State.rcDrop, hc0, hs, hl] at he
          exact absurd he (fail_err_ne_none _ _)
        | some t =>
          cases n with
          | zero =>
            cases hemp : t.isEmpty with
            | true =>
              rw [rcDrop_eq_single_empty s0 o ob t hc0 hs hl hemp] at he ⊢
              refine beginSingle_InvN' _ o (fun x hx hd => ?_) he
              rw [di_setObj_other _ _ hx] at hd
              rw [owed_setObj]; exact hN0 x hd
            | false =>
              rw [rcDrop_eq_single_purge s0 o ob t hc0 hs hl hemp] at he ⊢
              refine beginSingle_InvN' _ o (fun x hx hd => ?_) he
              rw [di_purgePeers, di_setObj_other _ _ hx] at hd
              rw [owed_purgePeers, owed_setObj]; exact hN0 x hd
          | succ n =>
            have hN1 : (s0.setObj o { ob with strong := .cnt (n + 1) }).InvN' := by
              refine InvN'_mono hN0 (fun x hd => ?_) (fun x => by simp)
              rwa [di_setObj_of_eq _ hg0 (by simp [hs, Strong.isDead]) (by rfl)] at hd
            cases hemp : t.isEmpty with
            | true =>
              rw [rcDrop_eq_dec_empty s0 o ob n t hc0 hs hl hemp]
              exact hN1
            | false =>
              rw [State.rcDrop_eq_traceBranch s0 o ob n t hc0 hs hl hemp]
              have hI1 := rcDrop_inv_dec_state herr hst h hc hs
              rw [hs0] at hI1
              refine traceBranch_InvN' _ o (by subst hs0; exact herr) hI1 ?_ hN1
              rw [isLive_of_get (getElem?_setObj_same _ hlt0)]
              simp [freed_of_cell hc0, Strong.isDead]

/-! ### one machine step -/

theorem step_eq_of_stack {s : State} {f : Frame} {rest : List Frame} (herr : s.err = none)
    (hst : s.stack = f :: rest) :
    step s = match f with
      | .rcDrop o => ({ s with stack := rest } : State).rcDrop o
      | .weakDrop o => ({ s with stack := rest } : State).weakDrop o
      | .dropVal v => ({ s with stack := rest } : State).dropVal v
      | .script _ _ [] => ({ s with stack := rest } : State)
      | .script h w (a :: as) => applyAct (({ s with stack := rest } : State).push [.script h w as]) h w a
      | .panic => ({ s with stack := rest } : State).panic
      | .dropFields h w => ({ s with stack := rest } : State).dropFields h w
      | .finishSingle o => ({ s with stack := rest } : State).finishSingle o
      | .phase3 ks => ks.foldl State.phase3One ({ s with stack := rest } : State) := by
  cases f with
  | script h w acts => cases acts <;> (unfold step; simp only [herr, hst])
  | _ => unfold step; simp only [herr, hst]

theorem step_InvN' (s : State) (h : s.Inv) (hNP : s.NP) (hN : s.InvN')
    (he : (step s).err = none) : (step s).InvN' := by
  have herr : s.err = none := step_err_none he
  cases hst : s.stack with
  | nil =>
    have : step s = s := by unfold step; simp only [herr, hst]
    rw [this]; exact hN
  | cons f rest =>
    have e := step_eq_of_stack herr hst
    cases f with
    | rcDrop o => rw [e] at he ⊢; exact rcDrop_InvN' hst herr h hN he
    | weakDrop o =>
      rw [e]
      have hN0 := pop_InvN' hst hN (fun _ => rfl)
      exact InvN'_mono hN0 (fun x hd => by simpa [weakDrop] using hd) (fun x => by simp [weakDrop])
    | dropVal v =>
      rw [e]
      have hN0 := pop_InvN' hst hN (fun _ => rfl)
      refine InvN'_mono hN0 (fun x hd => ?_) (fun x => by rw [owed_dropVal]; exact Nat.le_refl _)
      simpa [State.dropVal] using hd
    | script hh ww acts =>
      have hN0 := pop_InvN' hst hN (fun _ => rfl)
      cases acts with
      | nil => rw [e]; exact hN0
      | cons a as =>
        rw [e] at he ⊢
        refine InvN'_mono hN0 (fun x hd => ?_) (fun x => ?_)
        · have := di_applyAct_le _ hh ww a x he hd
          simpa using this
        · rw [owed_applyAct, owed_push]; simp
    | panic =>
      exact absurd (hNP.stk _ (by rw [hst]; exact List.mem_cons_self)) (by simp)
    | dropFields hh ww =>
      rw [e]
      have hN0 := pop_InvN' hst hN (fun _ => rfl)
      refine InvN'_mono hN0 (fun x hd => ?_) (fun x => by rw [owed_dropFields]; exact Nat.le_refl _)
      obtain ⟨fs, hfs⟩ := dropFields_eq_push ({ s with stack := rest } : State) hh ww
      simp only [] at hd
      rw [hfs] at hd; simpa using hd
    | finishSingle o =>
      rw [e] at he ⊢
      refine finishSingle_InvN' _ o (fun x hx hd => ?_) he
      have := hN x hd
      rw [owed_of_stack_cons hst x, Frame.owes_finishSingle, if_neg (fun e => hx e.symm)] at this
      omega
    | phase3 ks =>
      rw [e] at he ⊢
      refine phase3_InvN' _ ks (fun x hx hd => ?_) he
      have := hN x hd
      rw [owed_of_stack_cons hst x, Frame.owes_phase3, List.count_eq_zero_of_not_mem hx] at this
      omega

/-! ## `NP` is preserved by every machine step -/

theorem pop_NP {s : State} {f : Frame} {rest : List Frame} (hst : s.stack = f :: rest) (h : s.NP) :
    ({ s with stack := rest } : State).NP :=
  NP_of h rfl (fun g hg => Or.inl (by rw [hst]; exact List.mem_cons_of_mem _ hg)) h.heap
    (fun v hv => Or.inl hv)

theorem NP_setObj_of_value {w : State} {o : Nat} {ob : Obj} (ob' : Obj) (hw : w.NP)
    (hg : w.heap[o]? = some ob) (hv : ob'.value = ob.value ∨ ob'.value = none) :
    (w.setObj o ob').NP := by
  refine NP_of hw rfl (fun f hf => Or.inl hf) ?_ (fun v hv => Or.inl hv)
  refine HOK_setObj o hw.heap (fun v hv' => ?_)
  rcases hv with hv | hv
  · exact hw.heap o v (by rw [rawVal_of_get hg, ← hv, hv'])
  · rw [hv] at hv'; cases hv'

theorem NP_decWeakFree {w : State} (o : Nat) (imp : Bool) (hw : w.NP) : (w.decWeakFree o imp).NP :=
  NP_of hw (by simp) (fun f hf => Or.inl (by simpa using hf)) (by simpa using hw.heap)
    (fun v hv => Or.inl (by simpa using hv))

theorem NP_fail {w : State} (e : Err) (hw : w.NP) : (w.fail e).NP :=
  NP_same hw (by simp) (by simp) (by simp) (by simp)

theorem beginSingle_NP (w : State) (o : Nat) (hw : w.NP) : (w.beginSingle o).NP := by
  unfold beginSingle
  cases hc : w.cell o with
  | none => exact NP_fail _ hw
  | some ob =>
    cases hs : ob.strong with
    | uninit => simp only [hs]; exact NP_decWeakFree o true hw
    | cnt k =>
      cases hv : ob.value with
      | none => simp only [hs, hv]; exact NP_fail _ hw
      | some v =>
        simp only [hs, hv]
        have h1 : (w.setObj o { ob with strong := .uninit, value := none }).NP :=
          NP_setObj_of_value _ hw (get_of_cell hc) (Or.inr rfl)
        refine NP_of h1 rfl (fun f hf => ?_) h1.heap (fun v hv => Or.inl hv)
        simp only [push_stack, List.cons_append, List.nil_append, List.mem_cons] at hf
        rcases hf with rfl | rfl | hf
        · exact Or.inr (hw.val_of_cell hc hv)
        · exact Or.inr trivial
        · exact Or.inl hf

theorem finishSingle_NP (w : State) (o : Nat) (hw : w.NP) : (w.finishSingle o).NP := by
  unfold finishSingle
  cases hc : w.cell o with
  | none => exact NP_fail _ hw
  | some ob =>
    cases hl : ob.links with
    | none => simp only [hl]; exact NP_fail _ hw
    | some t =>
      simp only [hl]
      exact NP_decWeakFree o true (NP_setObj_of_value _ hw (get_of_cell hc) (Or.inl rfl))

theorem phase3One_NP (w : State) (k : Nat) (hw : w.NP) : (phase3One w k).NP := by
  unfold phase3One
  split
  · split
    · exact NP_decWeakFree k true hw
    · exact hw
  · exact NP_fail _ hw

theorem phase3_fold_NP : ∀ (ks : List Nat) (w : State), w.NP → (ks.foldl phase3One w).NP
  | [], _, h => h
  | k :: ks, w, h => phase3_fold_NP ks (phase3One w k) (phase3One_NP w k h)

theorem Teardown.NP {s s' : State} {ks : List Nat} {vs : List Val} (h : Teardown s s' ks vs)
    (hu : s'.unwinding = s.unwinding) (hs : s.NP) : s'.NP := by
  refine NP_of hs hu ?_ ?_ (fun v hv => Or.inl (h.pvals ▸ hv))
  · intro f hf
    obtain ⟨vs', hp, hst⟩ := h.stack
    rw [hst] at hf
    simp only [List.mem_append, List.mem_map, List.mem_singleton] at hf
    rcases hf with (⟨v, hv, rfl⟩ | rfl) | hf
    · right
      have hv' : some v ∈ vs.map some := List.mem_map.mpr ⟨v, hp.mem_iff.mp hv, rfl⟩
      rw [h.vals] at hv'
      obtain ⟨k, -, hk⟩ := List.mem_map.mp hv'
      refine hs.heap k v ?_
      unfold rawVal
      cases hg : s.heap[k]? with
      | none => rw [hg] at hk; cases hk
      | some ob => rw [hg] at hk; simpa using hk
    · exact Or.inr trivial
    · exact Or.inl hf
  · intro x v hx
    by_cases hk : x ∈ ks
    · obtain ⟨ob, n, -, -, -, hg'⟩ := h.key_obj hk
      rw [rawVal_of_get hg'] at hx
      cases hx
    · unfold rawVal at hx
      rw [h.other x hk] at hx
      exact hs.heap x v hx

theorem traceBranch_NP (s1 : State) (o : Nat) (herr : s1.err = none) (hI : s1.InvCore)
    (ho : s1.isLive o = true) (hN : s1.NP) : (s1.traceBranch o).NP := by
  rcases traceBranch_cases s1 o herr hI ho with ⟨e, h⟩ | ⟨e, ks, vs, hT, hu⟩
  · rw [h]; exact NP_same hN rfl rfl rfl rfl
  · exact hT.NP hu (NP_same hN rfl rfl rfl rfl)

theorem rcDrop_NP {s : State} {o : Nat} {rest : List Frame}
    (hst : s.stack = .rcDrop o :: rest) (herr : s.err = none) (h : s.Inv) (hN : s.NP) :
    (({ s with stack := rest } : State).rcDrop o).NP := by
  have hN0 : ({ s with stack := rest } : State).NP := pop_NP hst hN
  generalize hs0 : ({ s with stack := rest } : State) = s0 at hN0 ⊢
  have hcell : ∀ x, s0.cell x = s.cell x := by intro x; subst hs0; rfl
  cases hc : s.cell o with
  | none =>
    simp only [State.rcDrop, hcell, hc]
    exact NP_fail _ hN0
  | some ob =>
    have hc0 : s0.cell o = some ob := by rw [hcell, hc]
    have hg0 := get_of_cell hc0
    have hlt0 := get_lt hg0
    cases hs : ob.strong with
    | uninit => simp only [State.rcDrop, hc0, hs]; exact hN0
    | cnt n =>
      cases n with
      | zero => simp only [State.rcDrop, hc0, hs]; exact hN0
      | succ n =>
        cases hl : ob.links with
        | none =>
          simp only [State.rcDrop, hc0, hs, hl]
          exact NP_fail _ hN0
        | some t =>
          cases n with
          | zero =>
            have h1 : (s0.setObj o { ob with strong := .cnt 0 }).NP :=
              NP_setObj_of_value _ hN0 hg0 (Or.inl rfl)
            cases hemp : t.isEmpty with
            | true =>
              rw [rcDrop_eq_single_empty s0 o ob t hc0 hs hl hemp]
              exact beginSingle_NP _ o h1
            | false =>
              rw [rcDrop_eq_single_purge s0 o ob t hc0 hs hl hemp]
              refine beginSingle_NP _ o ?_
              exact NP_of h1 (by simp) (fun f hf => Or.inl (by simpa using hf))
                (by simpa using h1.heap) (fun v hv => Or.inl (by simpa using hv))
          | succ n =>
            have h1 : (s0.setObj o { ob with strong := .cnt (n + 1) }).NP :=
              NP_setObj_of_value _ hN0 hg0 (Or.inl rfl)
            cases hemp : t.isEmpty with
            | true =>
              rw [rcDrop_eq_dec_empty s0 o ob n t hc0 hs hl hemp]
              exact h1
            | false =>
              rw [State.rcDrop_eq_traceBranch s0 o ob n t hc0 hs hl hemp]
              have hI1 := rcDrop_inv_dec_state herr hst h hc hs
              rw [hs0] at hI1
              refine traceBranch_NP _ o (by subst hs0; exact herr) hI1 ?_ h1
              rw [isLive_of_get (getElem?_setObj_same _ hlt0)]
              simp [freed_of_cell hc0, Strong.isDead]

theorem dropFields_NP (w : State) (hh ww : List Nat) (hw : w.NP) : (w.dropFields hh ww).NP := by
  cases hh with
  | cons a hh =>
    refine NP_of hw rfl (fun f hf => ?_) hw.heap (fun v hv => Or.inl hv)
    simp only [State.dropFields, push_stack, List.cons_append, List.nil_append, List.mem_cons] at hf
    rcases hf with rfl | rfl | hf
    · exact Or.inr trivial
    · exact Or.inr trivial
    · exact Or.inl hf
  | nil =>
    cases ww with
    | cons a ww =>
      refine NP_of hw rfl (fun f hf => ?_) hw.heap (fun v hv => Or.inl hv)
      simp only [State.dropFields, push_stack, List.cons_append, List.nil_append, List.mem_cons] at hf
      rcases hf with rfl | rfl | hf
      · exact Or.inr trivial
      · exact Or.inr trivial
      · exact Or.inl hf
    | nil => exact hw

theorem dropVal_NP (w : State) (v : Val) (hw : w.NP) (hv : v.np) : (w.dropVal v).NP := by
  refine NP_of hw rfl (fun f hf => ?_) hw.heap (fun v hv => Or.inl hv)
  simp only [State.dropVal, hv.1, push_stack, emit_stack, Bool.false_eq_true, if_false,
    List.cons_append, List.nil_append, List.append_nil, List.mem_cons] at hf
  rcases hf with rfl | rfl | hf
  · exact Or.inr hv.2
  · exact Or.inr trivial
  · exact Or.inl hf

theorem step_NP (s : State) (h : s.Inv) (hNP : s.NP) : (step s).NP := by
  cases herr : s.err with
  | some e => rw [step_of_err herr]; exact hNP
  | none =>
  cases hst : s.stack with
  | nil =>
    have : step s = s := by unfold step; simp only [herr, hst]
    rw [this]; exact hNP
  | cons f rest =>
    have e := step_eq_of_stack herr hst
    have hN0 := pop_NP hst hNP
    have hf : f.np := hNP.stk f (by rw [hst]; exact List.mem_cons_self)
    cases f with
    | rcDrop o => rw [e]; exact rcDrop_NP hst herr h hNP
    | weakDrop o => rw [e]; exact NP_decWeakFree o false hN0
    | dropVal v => rw [e]; exact dropVal_NP _ v hN0 hf
    | script hh ww acts =>
      cases acts with
      | nil => rw [e]; exact hN0
      | cons a as =>
        rw [e]
        have hf' : ∀ b ∈ a :: as, b.noPanic := hf
        refine applyAct_NP _ hh ww a ?_ (hf' a List.mem_cons_self)
        refine NP_of hN0 rfl (fun g hg => ?_) hN0.heap (fun v hv => Or.inl hv)
        simp only [push_stack, List.cons_append, List.nil_append, List.mem_cons] at hg
        rcases hg with rfl | hg
        · exact Or.inr (fun b hb => hf' b (List.mem_cons_of_mem _ hb))
        · exact Or.inl hg
    | panic => exact absurd hf (by simp)
    | dropFields hh ww => rw [e]; exact dropFields_NP _ hh ww hN0
    | finishSingle o => rw [e]; exact finishSingle_NP _ o hN0
    | phase3 ks => rw [e]; exact phase3_fold_NP ks _ hN0

end Cactus

namespace Cactus
open State

/-! ## `InvN` versus its working form -/

theorem InvN'_of_InvN {s : State} (h : s.InvN) : s.InvN' := by
  intro x hx
  obtain ⟨ob, hg, hd, hi⟩ := di_true_iff.mp hx
  rw [h x ob hg hd hi]; exact Nat.le_refl 1

theorem InvN_of_InvN' {s : State} (hK : s.InvK) (h : s.InvN') : s.InvN := by
  intro o ob hg hd hi
  have h1 := h o (di_true_iff.mpr ⟨ob, hg, hd, hi⟩)
  have h2 := hK.2.2 o
  omega

/-! ## (1) `NoPanic` is preserved by every transition of `ReachableNP` -/

theorem NoPanic_init : ({} : State).NoPanic := by
  rw [NoPanic_iff_NP]
  refine ⟨rfl, ?_, ?_, ?_⟩
  · intro f hf; cases hf
  · intro x v hv; simp [rawVal] at hv
  · intro v hv; cases hv

theorem begin_NoPanic (s : State) (hint : List Nat) (h : s.NoPanic) : (s.begin hint).NoPanic := by
  rw [NoPanic_iff_NP] at h ⊢
  exact NP_same h rfl rfl rfl rfl

theorem applyOp_NoPanic (s : State) (op : Op) (h : s.NoPanic) (ho : op.noPanic) :
    (applyOp s op).NoPanic := by
  rw [NoPanic_iff_NP] at h ⊢
  exact applyOp_NP s op h ho

theorem applyAct_NoPanic (s : State) (fh fw : List Nat) (a : Act) (h : s.NoPanic) (ha : a.noPanic) :
    (applyAct s fh fw a).NoPanic := by
  rw [NoPanic_iff_NP] at h ⊢
  exact applyAct_NP s fh fw a h ha

theorem step_NoPanic (s : State) (hI : s.Inv) (h : s.NoPanic) : (step s).NoPanic := by
  rw [NoPanic_iff_NP] at h ⊢
  exact step_NP s hI h

theorem endOp_eq_of_NoPanic (s : State) (h : s.NoPanic) : endOp s = s := by
  unfold endOp
  rw [h.1]
  simp

theorem endOp_NoPanic (s : State) (h : s.NoPanic) : (endOp s).NoPanic := by
  rw [endOp_eq_of_NoPanic s h]; exact h

theorem fail_NoPanic (s : State) (e : Err) (h : s.NoPanic) : (s.fail e).NoPanic := by
  rw [NoPanic_iff_NP] at h ⊢
  exact NP_fail e h

/-! ## (2) under `NoPanic`, `InvN` is preserved by every transition -/

theorem InvN_init : ({} : State).InvN := by
  intro o ob hg; simp at hg

theorem begin_InvN (s : State) (hint : List Nat) (h : s.InvN) : (s.begin hint).InvN := h

theorem applyOp_InvN (s : State) (op : Op) (hI : s.Inv) (hR : s.InvR) (hN : s.InvN)
    (he : (applyOp s op).err = none) : (applyOp s op).InvN := by
  have hI' := applyOp_inv s op hI hR he
  refine InvN_of_InvN' hI'.2.2.2.2 ?_
  exact InvN'_mono (InvN'_of_InvN hN) (fun x hd => di_applyOp_le s op x he hd)
    (fun x => by rw [owed_applyOp]; exact Nat.le_refl _)

theorem step_InvN (s : State) (hI : s.Inv) (hR : s.InvR) (hP : s.NoPanic) (hN : s.InvN)
    (he : (step s).err = none) : (step s).InvN := by
  have hI' := step_inv s hI hR he
  exact InvN_of_InvN' hI'.2.2.2.2
    (step_InvN' s hI ((NoPanic_iff_NP s).mp hP) (InvN'_of_InvN hN) he)

theorem endOp_InvN (s : State) (hP : s.NoPanic) (hN : s.InvN) : (endOp s).InvN := by
  rw [endOp_eq_of_NoPanic s hP]; exact hN

/-! ## (3) both hold in every state of a panic-free execution -/

theorem reachableNP_invN {s : State} (h : ReachableNP s) (he : s.err = none) :
    s.InvN ∧ s.NoPanic := by
  induction h with
  | init => exact ⟨InvN_init, NoPanic_init⟩
  | @op s o hint hr hq ho ih =>
    have h0 : (s.begin hint).err = none := applyOp_err_none he
    obtain ⟨hN, hP⟩ := ih h0
    obtain ⟨hI, hRs⟩ := reachable_core hr.reachable h0
    have hIb : (s.begin hint).Inv := begin_inv s hint (fun _ => hI)
    have hRb : (s.begin hint).InvR := begin_invR s hint hRs
    exact ⟨applyOp_InvN _ o hIb hRb (begin_InvN s hint hN) he,
      applyOp_NoPanic _ o (begin_NoPanic s hint hP) ho⟩
  | @step s hr ih =>
    have h0 : s.err = none := step_err_none he
    obtain ⟨hN, hP⟩ := ih h0
    obtain ⟨hI, hRs⟩ := reachable_core hr.reachable h0
    exact ⟨step_InvN s (fun _ => hI) hRs hP hN he, step_NoPanic s (fun _ => hI) hP⟩
  | @endOp s hr ih =>
    have h0 : s.err = none := by rw [← endOp_err s]; exact he
    obtain ⟨hN, hP⟩ := ih h0
    exact ⟨endOp_InvN s hP hN, endOp_NoPanic s hP⟩
  | @outOfFuel s _ _ => exact absurd he (fail_err_ne_none s _)

/-! ## the property: destroyed objects return all memory -/

/-- **C04.** Between operations of a panic-free execution, an object whose value has been destroyed
(or moved out) holds neither a link table nor a value nor its implicit weak reference, and its
allocation has been released exactly if no `Weak` handle to it exists. -/
theorem C04_dead_object_released {s : State} (h : ReachableNP s) (he : s.err = none)
    (hq : s.stack = []) {o : Nat} {ob : Obj} (hg : s.heap[o]? = some ob)
    (hd : ob.strong.isDead = true) :
    ob.links = none ∧ ob.value = none ∧ ob.implicit = false
      ∧ (ob.freed = true ↔ s.extW o + s.inHeapW o = 0) := by
  obtain ⟨hN, -⟩ := reachableNP_invN h he
  obtain ⟨⟨hO, -, -, hW, -⟩, -⟩ := reachable_core h.reachable he
  have himp : ob.implicit = false := by
    cases hi : ob.implicit with
    | false => rfl
    | true =>
      have := hN o ob hg hd hi
      rw [owed_of_stack_nil hq] at this
      cases this
  obtain ⟨-, h0, hu, hf⟩ := hO o ob hg
  have hw := hW o (get_lt hg)
  rw [weakNat_of_get hg, implicitNat_of_get hg, pendW_of_stack_nil hq, himp] at hw
  have hfr : ob.freed = true ↔ s.extW o + s.inHeapW o = 0 := by
    rw [hf, hw]; simp
  cases hs : ob.strong with
  | uninit =>
    obtain ⟨hv, hl⟩ := hu hs
    rcases hl with hl | ⟨-, hi⟩
    · exact ⟨hl, hv, himp, hfr⟩
    · rw [himp] at hi; cases hi
  | cnt n =>
    cases n with
    | zero =>
      obtain ⟨hv, hl⟩ := h0 hs
      exact ⟨hl, hv, himp, hfr⟩
    | succ n => rw [hs] at hd; cases hd

/-- **C04 (everything collected).** If moreover every object is dead and the program holds no
`Weak` handle and no unwrapped value, every allocation has been released. -/
theorem C04_all_collected_nothing_left {s : State} (h : ReachableNP s) (he : s.err = none)
    (hq : s.stack = [])
    (hall : ∀ (o : Nat) (ob : Obj), s.heap[o]? = some ob → ob.strong.isDead = true)
    (hw : s.wroots = []) (hv : s.vals = []) :
    ∀ (o : Nat) (ob : Obj), s.heap[o]? = some ob → ob.freed = true := by
  intro o ob hg
  obtain ⟨-, -, -, hfr⟩ := C04_dead_object_released h he hq hg (hall o ob hg)
  rw [hfr]
  have h1 : s.extW o = 0 := by simp [extW_def, hw, hv]
  have h2 : s.inHeapW o = 0 := by
    rw [inHeapW_def, sumList_range_eq_zero_iff]
    intro a ha
    obtain ⟨oa, hga⟩ : ∃ oa, s.heap[a]? = some oa := ⟨s.heap[a], List.getElem?_eq_getElem ha⟩
    obtain ⟨-, hva, -, -⟩ := C04_dead_object_released h he hq hga (hall a oa hga)
    rw [weaksOf_of_get hga]
    simp [Obj.weakList, hva]
  omega

end Cactus
