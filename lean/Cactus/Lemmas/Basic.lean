import Cactus.Model.Step
/-!
# Frame lemmas for the state primitives

Every model function is written through `fail`, `emit`, `push`, `setObj`; these lemmas say which
fields each of them leaves alone.
-/
namespace Cactus
namespace State

@[simp] theorem fail_log (s : State) (e : Err) : (s.fail e).log = s.log := by
  unfold fail; split <;> rfl
@[simp] theorem fail_heap (s : State) (e : Err) : (s.fail e).heap = s.heap := by
  unfold fail; split <;> rfl
@[simp] theorem fail_roots (s : State) (e : Err) : (s.fail e).roots = s.roots := by
  unfold fail; split <;> rfl
@[simp] theorem fail_wroots (s : State) (e : Err) : (s.fail e).wroots = s.wroots := by
  unfold fail; split <;> rfl
@[simp] theorem fail_vals (s : State) (e : Err) : (s.fail e).vals = s.vals := by
  unfold fail; split <;> rfl
@[simp] theorem fail_raws (s : State) (e : Err) : (s.fail e).raws = s.raws := by
  unfold fail; split <;> rfl
@[simp] theorem fail_stack (s : State) (e : Err) : (s.fail e).stack = s.stack := by
  unfold fail; split <;> rfl
@[simp] theorem fail_unwinding (s : State) (e : Err) : (s.fail e).unwinding = s.unwinding := by
  unfold fail; split <;> rfl
theorem fail_err_isSome (s : State) (e : Err) : (s.fail e).err.isSome = true := by
  unfold fail; split <;> simp_all
theorem fail_err_of_none (s : State) (e : Err) (h : s.err = none) : (s.fail e).err = some e := by
  unfold fail; simp [h]
/-- errors are sticky -/
theorem fail_err_of_some (s : State) (e : Err) (e0 : Err) (h : s.err = some e0) : (s.fail e).err = some e0 := by
  unfold fail; simp [h]

@[simp] theorem emit_heap (s : State) (e : Ev) : (s.emit e).heap = s.heap := rfl
@[simp] theorem emit_err (s : State) (e : Ev) : (s.emit e).err = s.err := rfl
@[simp] theorem emit_roots (s : State) (e : Ev) : (s.emit e).roots = s.roots := rfl
@[simp] theorem emit_stack (s : State) (e : Ev) : (s.emit e).stack = s.stack := rfl
@[simp] theorem emit_log (s : State) (e : Ev) : (s.emit e).log = s.log ++ [e] := rfl

@[simp] theorem push_heap (s : State) (fs : List Frame) : (s.push fs).heap = s.heap := rfl
@[simp] theorem push_err (s : State) (fs : List Frame) : (s.push fs).err = s.err := rfl
@[simp] theorem push_log (s : State) (fs : List Frame) : (s.push fs).log = s.log := rfl
@[simp] theorem push_roots (s : State) (fs : List Frame) : (s.push fs).roots = s.roots := rfl
@[simp] theorem push_stack (s : State) (fs : List Frame) : (s.push fs).stack = fs ++ s.stack := rfl

@[simp] theorem setObj_err (s : State) (o : Nat) (ob : Obj) : (s.setObj o ob).err = s.err := rfl
@[simp] theorem setObj_log (s : State) (o : Nat) (ob : Obj) : (s.setObj o ob).log = s.log := rfl
@[simp] theorem setObj_roots (s : State) (o : Nat) (ob : Obj) : (s.setObj o ob).roots = s.roots := rfl
@[simp] theorem setObj_stack (s : State) (o : Nat) (ob : Obj) : (s.setObj o ob).stack = s.stack := rfl
@[simp] theorem setObj_heap_length (s : State) (o : Nat) (ob : Obj) :
    (s.setObj o ob).heap.length = s.heap.length := by simp [setObj]
theorem setObj_get_same (s : State) (o : Nat) (ob : Obj) (h : o < s.heap.length) :
    (s.setObj o ob).heap[o]? = some ob := by simp [setObj, h]
theorem setObj_get_other (s : State) (o o' : Nat) (ob : Obj) (h : o ≠ o') :
    (s.setObj o ob).heap[o']? = s.heap[o']? := by simp [setObj, List.getElem?_set_ne h]

theorem cell_some_lt (s : State) (o : Nat) (ob : Obj) (h : s.cell o = some ob) : o < s.heap.length := by
  unfold cell at h
  split at h
  · rename_i ob' hget
    exact (List.getElem?_eq_some_iff.mp hget).1
  · cases h

theorem cell_some_get (s : State) (o : Nat) (ob : Obj) (h : s.cell o = some ob) :
    s.heap[o]? = some ob ∧ ob.freed = false := by
  unfold cell at h
  split at h
  · rename_i ob' hget
    split at h
    · cases h
    · rename_i hf
      cases h
      exact ⟨hget, by simpa using hf⟩
  · cases h

theorem cell_setObj_same (s : State) (o : Nat) (ob ob' : Obj) (h : s.cell o = some ob) :
    (s.setObj o ob').cell o = if ob'.freed then none else some ob' := by
  have hlt := cell_some_lt s o ob h
  unfold cell
  rw [setObj_get_same s o ob' hlt]

theorem cell_setObj_other (s : State) (o o' : Nat) (ob' : Obj) (h : o ≠ o') :
    (s.setObj o ob').cell o' = s.cell o' := by
  unfold cell
  rw [setObj_get_other s o o' ob' h]

theorem tableOf_eq_some (s : State) (o : Nat) (t : Table) (h : s.tableOf o = some t) :
    ∃ ob, s.cell o = some ob ∧ ob.links = some t := by
  unfold tableOf at h
  split at h
  · rename_i ob hc; exact ⟨ob, hc, h⟩
  · cases h

theorem tableOf_setLinks_same (s : State) (o : Nat) (f : Table → Table) (t : Table)
    (h : s.tableOf o = some t) : (s.setLinks o f).tableOf o = some (f t) := by
  obtain ⟨ob, hc, hl⟩ := tableOf_eq_some s o t h
  unfold setLinks
  simp only [hc, hl]
  unfold tableOf
  rw [cell_setObj_same s o ob _ hc]
  simp [(cell_some_get s o ob hc).2]

theorem tableOf_setLinks_other (s : State) (o o' : Nat) (f : Table → Table) (h : o ≠ o') :
    (s.setLinks o f).tableOf o' = s.tableOf o' := by
  unfold setLinks
  split
  · split
    · unfold tableOf; rw [cell_setObj_other _ _ _ _ h]
    · unfold tableOf cell; simp
  · unfold tableOf cell; simp

theorem setLinks_err_of_some (s : State) (o : Nat) (f : Table → Table) (t : Table)
    (h : s.tableOf o = some t) : (s.setLinks o f).err = s.err := by
  obtain ⟨ob, hc, hl⟩ := tableOf_eq_some s o t h
  unfold setLinks
  simp [hc, hl]

@[simp] theorem decWeakFree_stack (s : State) (o : Nat) : (s.decWeakFree o).stack = s.stack := by
  unfold decWeakFree; split <;> (try split) <;> simp [emit]

end State
end Cactus
