import Cactus.Lemmas.Final
import Cactus.Lemmas.Layout
import Cactus.Lemmas.GroupOrder
import Cactus.Lemmas.NoErr
/-!
# C09 — a whole collecting `Rc::drop` does not depend on the layout hint

The existing results are chained into one statement about the group teardown of `Rc::drop`
(`dropCycle`, the block of destructor frames, and the `phase3` frame):

* `collected_values_hold_dead_handles`: under `Full` the values collected by `dropCycle` hold strong
  handles to members of the group only, which are not live after `dropCycle`;
* `collection_block_ready`: the block of `dropVal` frames pushed by `dropCycle` satisfies the side
  conditions `Ready` of `dropVal_block`;
* `collection_layout_independent`: for quiet values, whatever the two hints, running the block and
  the `phase3` frame leads to states with the old stack, equal heaps and handle tables, no error,
  and logs that are permutations of each other.
-/
namespace Cactus
open State

/-! ## `Full` implies the contract -/

theorem full_contract {s : State} (hF : s.Full) : s.P :=
  fun a b ha => Nat.le_of_eq (hF a b ha)

/-! ## the hint is read by no invariant -/

theorem hint_InvCore (s : State) (h : List Nat) (hI : s.InvCore) :
    ({ s with hint := h } : State).InvCore := hI

theorem hint_InvR (s : State) (h : List Nat) (hI : s.InvR) :
    ({ s with hint := h } : State).InvR := hI

theorem hint_InvSCore (s : State) (h : List Nat) (hI : s.InvSCore) :
    ({ s with hint := h } : State).InvSCore := hI

theorem hint_Full (s : State) (h : List Nat) (hI : s.Full) :
    ({ s with hint := h } : State).Full := hI

theorem hint_cycleRefs (s : State) (h : List Nat) (x : Nat) :
    cycleRefs ({ s with hint := h } : State) x = cycleRefs s x :=
  cycleRefs_congr (s := s) (s' := { s with hint := h }) rfl x

theorem hint_hasExternalOwners (s : State) (h : List Nat) (c : CMap) :
    hasExternalOwners ({ s with hint := h } : State) c = hasExternalOwners s c := rfl

theorem hint_cycleReady (s : State) (h : List Nat) (c : CMap) (hR : CycleReady s c) :
    CycleReady ({ s with hint := h } : State) c :=
  ⟨hR.nodup, hR.noerr, hR.ready⟩

/-- phases 1 and 2 of `dropCycle` do not read the hint -/
theorem cyc2_hint (s : State) (c : CMap) (hR : CycleReady s c) (h : List Nat) :
    (({ s with hint := h } : State).cyc2 c).1.heap = (s.cyc2 c).1.heap
    ∧ (({ s with hint := h } : State).cyc2 c).2 = (s.cyc2 c).2 := by
  have hR' := hint_cycleReady s h c hR
  obtain ⟨-, -, -, k1, o1, v1⟩ := phase2_spec s c hR
  obtain ⟨-, -, -, k2, o2, v2⟩ := phase2_spec _ c hR'
  constructor
  · apply List.ext_getElem?
    intro i
    by_cases hi : i ∈ c.keys
    · obtain ⟨ob, _, _, _, hg, _⟩ := hR.ready i hi
      rw [k1 i hi ob hg, k2 i hi ob hg]
    · rw [o1 i hi, o2 i hi]
  · have e : (({ s with hint := h } : State).cyc2 c).2.map some = (s.cyc2 c).2.map some :=
      v2.trans v1.symm
    exact (List.map_inj_right (fun x y hxy => Option.some.inj hxy)).mp e

/-! ## 1. the collected values hold handles to dead members only -/

/-- every collected value is the value of a member -/
theorem Teardown.mem_vals {s s' : State} {ks : List Nat} {vs : List Val}
    (hT : Teardown s s' ks vs) {v : Val} (hv : v ∈ vs) :
    ∃ k ∈ ks, ∃ ob, s.heap[k]? = some ob ∧ ob.value = some v := by
  have hm : some v ∈ vs.map some := List.mem_map.mpr ⟨v, hv, rfl⟩
  rw [hT.vals] at hm
  obtain ⟨k, hk, hkv⟩ := List.mem_map.mp hm
  cases hg : s.heap[k]? with
  | none => rw [hg] at hkv; cases hkv
  | some ob =>
    rw [hg] at hkv
    exact ⟨k, hk, ob, hg, hkv⟩

/-- **1.** Under `Full`, after a passed orphan test, every strong handle stored in a collected
value designates a member of the group, which is not live after `dropCycle`. -/
theorem collected_values_hold_dead_handles (s2 : State) (o : Nat)
    (hI : s2.InvCore) (herr : s2.err = none) (hF : s2.Full) (ho : s2.isLive o = true)
    (hne : (cycleRefs s2 o).cmap.isEmpty = false)
    (hext : hasExternalOwners s2 (cycleRefs s2 o).cmap = false) :
    ∀ t ∈ blockHeld (s2.cyc2 (cycleRefs s2 o).cmap).2,
      t ∈ (cycleRefs s2 o).cmap.keys
      ∧ (s2.dropCycle (cycleRefs s2 o).cmap).isLive t = false := by
  intro t ht
  have hT := dropCycle_teardown s2 o hI.1 hI.2.1 herr ho hne hext
  simp only [blockHeld, List.mem_flatten, List.mem_map] at ht
  obtain ⟨l, ⟨v, hv, rfl⟩, htl⟩ := ht
  obtain ⟨k, hk, ob, hg, hval⟩ := hT.mem_vals hv
  have hH : 0 < s2.H k t := by
    have : s2.H k t = v.held.count t := by simp [State.H, State.heldOf, hg, hval]
    rw [this]
    exact List.count_pos_iff.mpr htl
  have hkv := (keys_eq_visited s2 o hI.1 hI.2.1 ho hne hext k).mp hk
  have hmem := (full_group_closed s2 o hI.1 hI.2.1 hF ho hne hext k t hkv hH).2
  exact ⟨hmem, hT.key_not_live hmem⟩

/-! ## 2. the block pushed by `dropCycle` is ready -/

/-- the invariants of the state after `dropCycle` -/
theorem dropCycle_safe (s2 : State) (o : Nat)
    (hI : s2.InvCore) (hR : s2.InvR) (hS : s2.InvSCore) (herr : s2.err = none) (hF : s2.Full)
    (ho : s2.isLive o = true)
    (hne : (cycleRefs s2 o).cmap.isEmpty = false)
    (hext : hasExternalOwners s2 (cycleRefs s2 o).cmap = false) :
    (s2.dropCycle (cycleRefs s2 o).cmap).InvCore
    ∧ (s2.dropCycle (cycleRefs s2 o).cmap).InvR
    ∧ (s2.dropCycle (cycleRefs s2 o).cmap).InvSCore := by
  have hT := dropCycle_teardown s2 o hI.1 hI.2.1 herr ho hne hext
  have hcl := closure_keys s2 o hI.1 hI.2.1 hI.2.2.1 (full_contract hF) ho hne hext
  exact ⟨dropCycle_inv s2 o hI herr ho hne hext, hR.dropCycle _, hT.invSCore hI.1 hS hcl⟩

/-- **2.** The block of destructor frames pushed by `dropCycle` satisfies the side conditions of
`dropVal_block`. -/
theorem collection_block_ready (s2 : State) (o : Nat)
    (hI : s2.InvCore) (hR : s2.InvR) (hS : s2.InvSCore) (herr : s2.err = none) (hF : s2.Full)
    (ho : s2.isLive o = true)
    (hne : (cycleRefs s2 o).cmap.isEmpty = false)
    (hext : hasExternalOwners s2 (cycleRefs s2 o).cmap = false) :
    Ready (s2.dropCycle (cycleRefs s2 o).cmap).heap
      (blockHeld (s2.cyc2 (cycleRefs s2 o).cmap).2)
      (blockWeaks (s2.cyc2 (cycleRefs s2 o).cmap).2) := by
  obtain ⟨hc3, hR3, hS3⟩ := dropCycle_safe s2 o hI hR hS herr hF ho hne hext
  have hCR := cycleReady_of_inv s2 o hI.1 hI.2.1 herr ho hext
  have hst := (dropCycle_spec s2 _ hCR).2.2.1
  rw [List.append_assoc] at hst
  have hperm := reorder_perm s2.hint (s2.cyc2 (cycleRefs s2 o).cmap).2
  have hdead := collected_values_hold_dead_handles s2 o hI herr hF ho hne hext
  have hr := ready_of_inv _ _ _ hc3 hR3 hS3 hst
    (fun t ht => (hdead t ((blockHeld_perm hperm).mem_iff.mp ht)).2)
  exact hr.perm (blockHeld_perm hperm) (blockWeaks_perm hperm)

/-! ## states equal up to the order of the log (and the hint) -/

/-- same state up to the order of the log; `hint`, `unwinding`, `nextVid` are not compared -/
structure LogEq (a b : State) : Prop where
  heap : a.heap = b.heap
  roots : a.roots = b.roots
  wroots : a.wroots = b.wroots
  vals : a.vals = b.vals
  raws : a.raws = b.raws
  stack : a.stack = b.stack
  err : a.err = b.err
  log : a.log.Perm b.log

namespace LogEq
variable {a b : State}

theorem cell (h : LogEq a b) (k : Nat) : a.cell k = b.cell k := by
  simp only [State.cell, h.heap]

theorem fail (h : LogEq a b) (e : Err) : LogEq (a.fail e) (b.fail e) := by
  have he := h.err
  unfold State.fail
  cases hb : b.err with
  | none =>
    rw [hb] at he
    simp only [he]
    exact ⟨h.heap, h.roots, h.wroots, h.vals, h.raws, h.stack, rfl, h.log⟩
  | some x =>
    rw [hb] at he
    simp only [he]
    exact ⟨h.heap, h.roots, h.wroots, h.vals, h.raws, h.stack, he.trans hb.symm, h.log⟩

theorem setObj (h : LogEq a b) (k : Nat) (ob : Obj) : LogEq (a.setObj k ob) (b.setObj k ob) :=
  ⟨by simp only [State.setObj, h.heap], h.roots, h.wroots, h.vals, h.raws, h.stack, h.err, h.log⟩

theorem emit (h : LogEq a b) (e : Ev) : LogEq (a.emit e) (b.emit e) :=
  ⟨h.heap, h.roots, h.wroots, h.vals, h.raws, h.stack, h.err, h.log.append_right [e]⟩

theorem decWeakFree (h : LogEq a b) (k : Nat) (imp : Bool) :
    LogEq (a.decWeakFree k imp) (b.decWeakFree k imp) := by
  unfold State.decWeakFree
  rw [h.cell k]
  cases b.cell k with
  | none => exact h.fail _
  | some ob =>
    simp only
    split
    · exact h.fail _
    · exact (h.setObj _ _).emit _
    · exact h.setObj _ _

theorem phase3One (h : LogEq a b) (k : Nat) : LogEq (a.phase3One k) (b.phase3One k) := by
  unfold State.phase3One
  rw [h.cell k]
  cases b.cell k with
  | none => exact h.fail _
  | some ob =>
    simp only
    split
    · exact h.decWeakFree k true
    · exact h

theorem foldl_phase3One (ks : List Nat) :
    ∀ {a b : State}, LogEq a b → LogEq (ks.foldl State.phase3One a) (ks.foldl State.phase3One b) := by
  induction ks with
  | nil => intro a b h; exact h
  | cons k ks ih => intro a b h; exact ih (h.phase3One k)

end LogEq

/-- the `phase3` frame does not read the log (nor the hint): congruence of `step` -/
theorem step_phase3_congr {a b : State} (h : LogEq a b) (ks : List Nat) (rest : List Frame)
    (hst : a.stack = .phase3 ks :: rest) (hea : a.err = none) :
    LogEq (step a) (step b) := by
  have hsb : b.stack = .phase3 ks :: rest := h.stack ▸ hst
  have heb : b.err = none := h.err ▸ hea
  have e1 : step a = ks.foldl State.phase3One { a with stack := rest } := by
    simp [step, hea, hst]
  have e2 : step b = ks.foldl State.phase3One { b with stack := rest } := by
    simp [step, heb, hsb]
  rw [e1, e2]
  exact LogEq.foldl_phase3One ks
    ⟨h.heap, h.roots, h.wroots, h.vals, h.raws, rfl, h.err, h.log⟩

/-! ## running steps keeps the invariants -/

theorem runSteps_err_none (n : Nat) : ∀ s : State, (runSteps n s).err = none → s.err = none := by
  induction n with
  | zero => intro s h; exact h
  | succ n ih => intro s h; exact step_err_none (ih (step s) h)

theorem runSteps_inv (n : Nat) : ∀ s : State, s.Inv → s.InvR → (runSteps n s).err = none →
    (runSteps n s).Inv ∧ (runSteps n s).InvR := by
  induction n with
  | zero => intro s hI hR _; exact ⟨hI, hR⟩
  | succ n ih =>
    intro s hI hR he
    have he1 : (step s).err = none := runSteps_err_none n (step s) he
    exact ih (step s) (step_inv s hI hR) (step_invR s hR he1) he

/-- the `phase3` frame of a state satisfying the invariant does not fail -/
theorem phase3_err_none {s : State} (herr : s.err = none) (hcore : s.InvCore) {ks : List Nat}
    {rest : List Frame} (hst : s.stack = .phase3 ks :: rest) :
    (step s).err = none ∧ (step s).stack = rest := by
  have e1 : step s = ks.foldl State.phase3One { s with stack := rest } := by
    simp [step, herr, hst]
  have h0 : ({ s with stack := rest } : State).InvCore :=
    pop_InvCore hst (by simp) (by simp) hcore
  rw [e1]
  refine ⟨?_, foldl_phase3One_stack _ _⟩
  rw [(InvCore_phase3_fold ks _ h0 (fun k hk => ?_) (fun k => ?_)).2]
  · exact herr
  · exact hcore.2.2.2.2.2.1 ks (by rw [hst]; exact List.mem_cons_self) k hk
  · have h1 := hcore.2.2.2.2.2.2 k
    rw [owed_of_stack_cons hst k, Frame.owes_phase3] at h1
    exact h1

/-! ## two blocks from states that agree on heap and log -/

theorem blockResult_congr (a b : State) (vs vs' : List Val) (hh : a.heap = b.heap)
    (hl : a.log = b.log) (hp : vs.Perm vs') (hgood : GoodW a.heap (blockWeaks vs)) :
    (blockResult a vs).heap = (blockResult b vs').heap
    ∧ (blockResult a vs).log.Perm (blockResult b vs').log := by
  have hw : (blockWeaks vs).Perm (blockWeaks vs') := blockWeaks_perm hp
  have h1 := runItems_spec (blockItems vs) a (by rw [rels_blockItems]; exact hgood)
  have h2 := runItems_spec (blockItems vs') b
    (by rw [rels_blockItems, ← hh]; exact hgood.perm hw)
  rw [← blockResult_eq_runItems] at h1 h2
  constructor
  · apply List.ext_getElem?
    intro i
    rw [h1.heap i, h2.heap i, hh, rels_blockItems, rels_blockItems]
    have : (List.map (fun x => x.weaks) vs).flatten.count i
        = (List.map (fun x => x.weaks) vs').flatten.count i := hw.count_eq i
    rw [this]
  · obtain ⟨l1, e1, c1⟩ := h1.log
    obtain ⟨l2, e2, c2⟩ := h2.log
    rw [e1, e2, hl]
    apply List.Perm.append_left
    rw [List.perm_iff_count]
    intro e
    rw [c1 e, c2 e, evs_blockItems, evs_blockItems, rels_blockItems, rels_blockItems, hh,
      (hp.map (fun v => Ev.destroyed v.vid)).count_eq e]
    congr 1
    exact freedCount_perm _ hw e

/-! ## 3. the whole teardown is independent of the hint -/

/-- one side of the comparison: from `{ s2 with hint := h }.dropCycle c` the block of destructor
frames runs to completion -/
theorem collection_block_run (s2 : State) (o : Nat) (h : List Nat)
    (hI : s2.InvCore) (hR : s2.InvR) (hS : s2.InvSCore) (herr : s2.err = none) (hF : s2.Full)
    (ho : s2.isLive o = true)
    (hne : (cycleRefs s2 o).cmap.isEmpty = false)
    (hext : hasExternalOwners s2 (cycleRefs s2 o).cmap = false)
    (hq : ∀ v ∈ (s2.cyc2 (cycleRefs s2 o).cmap).2, v.quiet) :
    let c := (cycleRefs s2 o).cmap
    let s3 := ({ s2 with hint := h } : State).dropCycle c
    let rest := [Frame.phase3 c.keys] ++ s2.stack
    ∃ n, runSteps n s3
          = blockResult { s3 with stack := rest } (reorder h (s2.cyc2 c).2)
        ∧ (runSteps n s3).InvCore
        ∧ s3.heap = (s2.cyc2 c).1.heap ∧ s3.log = s2.log
        ∧ s3.roots = s2.roots ∧ s3.wroots = s2.wroots ∧ s3.vals = s2.vals ∧ s3.raws = s2.raws
        ∧ s3.err = none
        ∧ GoodW s3.heap (blockWeaks (reorder h (s2.cyc2 c).2)) := by
  intro c s3 rest
  -- everything about `s2` holds for `{ s2 with hint := h }`
  have hcr := hint_cycleRefs s2 h o
  have hI' := hint_InvCore s2 h hI
  have hR' := hint_InvR s2 h hR
  have hS' := hint_InvSCore s2 h hS
  have hF' := hint_Full s2 h hF
  have hne' : (cycleRefs ({ s2 with hint := h } : State) o).cmap.isEmpty = false := by
    rw [hcr]; exact hne
  have hext' : hasExternalOwners ({ s2 with hint := h } : State)
      (cycleRefs ({ s2 with hint := h } : State) o).cmap = false := by
    rw [hcr]; exact hext
  have hCR := cycleReady_of_inv s2 o hI.1 hI.2.1 herr ho hext
  have hCR' := hint_cycleReady s2 h c hCR
  obtain ⟨hheap, hvals⟩ := cyc2_hint s2 c hCR h
  have hready := collection_block_ready ({ s2 with hint := h } : State) o hI' hR' hS' herr hF' ho
    hne' hext'
  have hsafe := dropCycle_safe ({ s2 with hint := h } : State) o hI' hR' hS' herr hF' ho hne' hext'
  rw [hcr] at hready hsafe
  rw [hvals] at hready
  obtain ⟨d1, d2, d3, d4, d5, d6, d7, d8, -⟩ := dropCycle_spec _ c hCR'
  rw [hvals, List.append_assoc] at d3
  have hperm := reorder_perm h (s2.cyc2 c).2
  have hr : Ready s3.heap (blockHeld (reorder h (s2.cyc2 c).2))
      (blockWeaks (reorder h (s2.cyc2 c).2)) :=
    hready.perm (blockHeld_perm hperm.symm) (blockWeaks_perm hperm.symm)
  obtain ⟨n, hn⟩ := run_block (reorder h (s2.cyc2 c).2) s3 rest d2 d3
    (fun v hv => hq v ((mem_reorder h _ v).mp hv)) hr
  have herrn : (runSteps n s3).err = none := by
    rw [hn, (blockResult_spec { s3 with stack := rest } _ hr.1).1]
    exact d2
  have hinv := runSteps_inv n s3 (fun _ => hsafe.1) hsafe.2.1 herrn
  exact ⟨n, hn, hinv.1 herrn, d1.trans hheap, d8, d4, d5, d6, d7, d2, hr.1⟩

/-- **3.** For two hints `h1 h2`: the destructor blocks of `{ s2 with hint := h1 }.dropCycle c`
and `{ s2 with hint := h2 }.dropCycle c` and the following `phase3` frame run to completion and
lead to two states with the stack of `s2`, equal heaps, equal handle tables, no error, and logs
that are permutations of each other. -/
theorem collection_layout_independent (s2 : State) (o : Nat) (h1 h2 : List Nat)
    (hI : s2.InvCore) (hR : s2.InvR) (hS : s2.InvSCore) (herr : s2.err = none) (hF : s2.Full)
    (ho : s2.isLive o = true)
    (hne : (cycleRefs s2 o).cmap.isEmpty = false)
    (hext : hasExternalOwners s2 (cycleRefs s2 o).cmap = false)
    (hq : ∀ v ∈ (s2.cyc2 (cycleRefs s2 o).cmap).2, v.quiet) :
    ∃ n1 n2,
      let r1 := runSteps n1 (({ s2 with hint := h1 } : State).dropCycle (cycleRefs s2 o).cmap)
      let r2 := runSteps n2 (({ s2 with hint := h2 } : State).dropCycle (cycleRefs s2 o).cmap)
      r1.stack = s2.stack ∧ r2.stack = s2.stack ∧ r1.heap = r2.heap ∧ r1.roots = r2.roots
      ∧ r1.wroots = r2.wroots ∧ r1.vals = r2.vals ∧ r1.raws = r2.raws
      ∧ r1.err = none ∧ r2.err = none ∧ r1.log.Perm r2.log := by
  obtain ⟨m1, a1, a2, a3, a4, a5, a6, a7, a8, a9, a10⟩ :=
    collection_block_run s2 o h1 hI hR hS herr hF ho hne hext hq
  obtain ⟨m2, b1, b2, b3, b4, b5, b6, b7, b8, b9, b10⟩ :=
    collection_block_run s2 o h2 hI hR hS herr hF ho hne hext hq
  generalize hc : (cycleRefs s2 o).cmap = c at *
  generalize hs31 : ({ s2 with hint := h1 } : State).dropCycle c = s31 at *
  generalize hs32 : ({ s2 with hint := h2 } : State).dropCycle c = s32 at *
  generalize hvs : (s2.cyc2 c).2 = vs at *
  -- the states after the blocks
  have hp : (reorder h1 vs).Perm (reorder h2 vs) :=
    (reorder_perm h1 vs).trans (reorder_perm h2 vs).symm
  obtain ⟨k1, k2, k3⟩ := blockResult_spec
    ({ s31 with stack := [Frame.phase3 c.keys] ++ s2.stack } : State) (reorder h1 vs) a10
  obtain ⟨l1, l2, l3⟩ := blockResult_spec
    ({ s32 with stack := [Frame.phase3 c.keys] ++ s2.stack } : State) (reorder h2 vs) b10
  obtain ⟨e1, e2⟩ := blockResult_congr
    ({ s31 with stack := [Frame.phase3 c.keys] ++ s2.stack } : State)
    ({ s32 with stack := [Frame.phase3 c.keys] ++ s2.stack } : State)
    (reorder h1 vs) (reorder h2 vs) (a3.trans b3.symm) (a4.trans b4.symm) hp a10
  rw [← a1] at k1 e1 e2
  rw [← b1] at l1 e1 e2
  have hst1 : (runSteps m1 s31).stack = Frame.phase3 c.keys :: s2.stack := by rw [k1]; rfl
  have hst2 : (runSteps m2 s32).stack = Frame.phase3 c.keys :: s2.stack := by rw [l1]; rfl
  have her1 : (runSteps m1 s31).err = none := by rw [k1]; exact a9
  have her2 : (runSteps m2 s32).err = none := by rw [l1]; exact b9
  have hle : LogEq (runSteps m1 s31) (runSteps m2 s32) := by
    refine ⟨e1, ?_, ?_, ?_, ?_, hst1.trans hst2.symm, her1.trans her2.symm, e2⟩
    · rw [k1, l1]; exact a5.trans b5.symm
    · rw [k1, l1]; exact a6.trans b6.symm
    · rw [k1, l1]; exact a7.trans b7.symm
    · rw [k1, l1]; exact a8.trans b8.symm
  -- the `phase3` frame
  have hfin := step_phase3_congr hle c.keys s2.stack hst1 her1
  obtain ⟨p1, p2⟩ := phase3_err_none her1 a2 hst1
  obtain ⟨q1, q2⟩ := phase3_err_none her2 b2 hst2
  refine ⟨m1 + 1, m2 + 1, ?_⟩
  simp only [runSteps_add]
  show (step (runSteps m1 s31)).stack = s2.stack ∧ (step (runSteps m2 s32)).stack = s2.stack ∧ _
  exact ⟨p2, q2, hfin.heap, hfin.roots, hfin.wroots, hfin.vals, hfin.raws, p1, q1, hfin.log⟩

end Cactus
