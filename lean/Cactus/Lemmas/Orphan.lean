import Cactus.Spec.Inv
import Cactus.Lemmas.Trace
import Cactus.Lemmas.Table
import Cactus.Lemmas.Basic
/-!
# The orphan test on a state that satisfies the invariants

For a live start object `x` in a state with `InvO` and `InvB` the trace `cycleRefs s x` finishes
normally, visits live objects only and all keys of its map are live.  If moreover the map is
non-empty and `hasExternalOwners` answered `false`, the keys are exactly the visited objects and
no live object outside the group adopts or is adopted by a member.
-/
namespace Cactus

/-! ## live objects -/

theorem State.isLive_iff (s : State) (o : Nat) :
    s.isLive o = true ↔ ∃ ob n, s.heap[o]? = some ob ∧ ob.freed = false ∧ ob.strong = .cnt (n + 1) := by
  unfold State.isLive
  cases h : s.heap[o]? with
  | none => simp
  | some ob =>
    cases hs : ob.strong with
    | uninit => simp [Strong.isDead, hs]
    | cnt n =>
      cases n with
      | zero => simp [Strong.isDead, hs]
      | succ n => simp [Strong.isDead, hs]

theorem State.live_tableOf {s : State} (hO : s.InvO) {a : Nat} (ha : s.isLive a = true) :
    ∃ t, s.tableOf a = some t := by
  obtain ⟨ob, n, hget, hfr, hst⟩ := (s.isLive_iff a).mp ha
  obtain ⟨h1, -⟩ := hO a ob hget
  obtain ⟨-, hl, -, -⟩ := h1 n hst
  cases hlk : ob.links with
  | none => simp [hlk] at hl
  | some t =>
    refine ⟨t, ?_⟩
    simp [State.tableOf, State.cell, hget, hfr, hlk]

theorem State.live_cell {s : State} {a : Nat} (ha : s.isLive a = true) :
    (s.cell a).isNone = false := by
  obtain ⟨ob, n, hget, hfr, -⟩ := (s.isLive_iff a).mp ha
  simp [State.cell, hget, hfr]

theorem State.live_strong {s : State} {a : Nat} (ha : s.isLive a = true) :
    ∃ n, s.strongOf a = .cnt (n + 1) ∧ s.strongNat a = n + 1 := by
  obtain ⟨ob, n, hget, -, hst⟩ := (s.isLive_iff a).mp ha
  exact ⟨n, by simp [State.strongOf, hget, hst], by simp [State.strongNat, hget, hst]⟩

/-- all readable tables are well formed (an unreadable one reads as `[]`) -/
theorem State.tbl_WF {s : State} (hB : s.InvB) (n : Nat) : (s.tbl n).WF := by
  unfold State.tbl
  cases h : s.tableOf n with
  | none => exact Table.WF_nil
  | some t => exact (hB.1 n t h).1

/-- non-loopback entries of readable tables name live objects -/
theorem State.entry_live {s : State} (hB : s.InvB) {n : Nat} {l : Link} {c : Nat}
    (h : (l, c) ∈ s.tbl n) (hk : l.kind ≠ .loop) : s.isLive l.ptr = true := by
  unfold State.tbl at h
  cases ht : s.tableOf n with
  | none => simp [ht] at h
  | some t =>
    simp only [ht, Option.getD_some] at h
    exact ((hB.1 n t ht).2 (l, c) h).2 hk

theorem State.named_live {s : State} (hB : s.InvB) {n j : Nat} (h : named (s.tbl n) j) :
    s.isLive j = true := by
  rcases h with ⟨c, hc⟩ | ⟨c, hc⟩
  · exact s.entry_live hB hc (by simp)
  · exact s.entry_live hB hc (by simp)

theorem State.F_pos_iff {s : State} (hB : s.InvB) (a b : Nat) :
    0 < s.F a b ↔ ∃ c, (⟨b, .fwd⟩, c) ∈ s.tbl a :=
  (Table.mem_keys_iff_get_pos _ (s.tbl_WF hB a) _).symm

theorem State.B_pos_iff {s : State} (hB : s.InvB) (b a : Nat) :
    0 < s.B b a ↔ ∃ c, (⟨a, .bwd⟩, c) ∈ s.tbl b :=
  (Table.mem_keys_iff_get_pos _ (s.tbl_WF hB b) _).symm

theorem FwdReach.live {s : State} (hB : s.InvB) {x n : Nat} (h : FwdReach s x n)
    (hx : s.isLive x = true) : s.isLive n = true := by
  induction h with
  | refl => exact hx
  | step _ hc _ => exact s.entry_live hB hc (by simp)

/-- a non-trivial path starts with a Forward entry of the start object -/
theorem FwdReach.start {s : State} {x n : Nat} (h : FwdReach s x n) :
    n = x ∨ ∃ j c, (⟨j, .fwd⟩, c) ∈ s.tbl x := by
  induction h with
  | refl => exact Or.inl rfl
  | step _ hc ih =>
    rcases ih with h1 | h1
    · subst h1; exact Or.inr ⟨_, _, hc⟩
    · exact Or.inr h1

/-- the last edge of a non-trivial path -/
theorem FwdReach.last {s : State} {x n : Nat} (h : FwdReach s x n) :
    n = x ∨ ∃ m c, FwdReach s x m ∧ (⟨n, .fwd⟩, c) ∈ s.tbl m := by
  cases h with
  | refl => exact Or.inl rfl
  | step h1 hc => exact Or.inr ⟨_, _, h1, hc⟩

/-! ## small list facts -/

theorem sumOver_pos {l : List Nat} {g : Nat → Nat} (h : 0 < sumOver l g) : ∃ n ∈ l, 0 < g n := by
  induction l with
  | nil => simp [sumOver] at h
  | cons a l ih =>
    simp only [sumOver, List.map_cons, List.sum_cons] at h ih
    by_cases ha : 0 < g a
    · exact ⟨a, List.mem_cons_self, ha⟩
    · obtain ⟨n, hn, hg⟩ := ih (by omega)
      exact ⟨n, List.mem_cons_of_mem _ hn, hg⟩

theorem CMap.mem_of_mem_keys (m : CMap) (k : Nat) (h : k ∈ m.keys) : (k, m.get k) ∈ m := by
  induction m with
  | nil => simp [CMap.keys] at h
  | cons hd r ih =>
    obtain ⟨k', c⟩ := hd
    simp only [CMap.keys, List.map_cons, List.mem_cons] at h ih
    by_cases hk : k' = k
    · subst hk; simp [CMap.get]
    · have : k ∈ List.map (·.1) r := by
        rcases h with h | h
        · exact absurd h.symm hk
        · exact h
      simp only [CMap.get, hk, if_false]
      exact List.mem_cons_of_mem _ (ih this)

/-! ## the trace finishes normally -/

theorem traceLoop_bad_none (s : State) (hO : s.InvO) (hB : s.InvB) (f : Nat)
    (wl vis : List Nat) (m : CMap) (p : Nat) (h : ∀ n ∈ wl, s.isLive n = true) :
    (traceLoop s f wl vis m p).bad = none := by
  induction f generalizing wl vis m p with
  | zero => rw [traceLoop_zero]
  | succ f ih =>
    cases wl with
    | nil => rfl
    | cons n wl =>
      by_cases hn : n ∈ vis
      · rw [traceLoop_skip s f n wl vis m p hn]
        exact ih _ _ _ _ (fun a ha => h a (List.mem_cons_of_mem _ ha))
      · obtain ⟨t, ht⟩ := s.live_tableOf hO (h n List.mem_cons_self)
        rw [traceLoop_scan s f n wl vis m p t hn ht]
        apply ih
        intro a ha
        rcases (scan_wl _ _ _).mp ha with h1 | ⟨c, hc⟩
        · exact h a (List.mem_cons_of_mem _ h1)
        · rw [← State.tbl_of_some ht] at hc
          exact s.entry_live hB hc (by simp)

theorem cycleRefs_ok (s : State) (x : Nat) (hO : s.InvO) (hB : s.InvB) (hx : s.isLive x = true) :
    (cycleRefs s x).bad = none ∧ (cycleRefs s x).outOfFuel = false := by
  refine ⟨?_, cycleRefs_fuel s x⟩
  unfold cycleRefs
  apply traceLoop_bad_none s hO hB
  intro n hn
  simp only [List.mem_singleton] at hn
  subst hn
  exact hx

/-! ## visited objects and keys are live -/

theorem visited_live (s : State) (x : Nat) (hO : s.InvO) (hB : s.InvB) (hx : s.isLive x = true) :
    ∀ n ∈ (cycleRefs s x).visited, s.isLive n = true := by
  obtain ⟨hb, hf⟩ := cycleRefs_ok s x hO hB hx
  obtain ⟨-, -, -, -, hreach, -⟩ := cycleRefs_spec s x hb hf
  intro n hn
  exact (hreach n hn).live hB hx

theorem keys_live (s : State) (x : Nat) (hO : s.InvO) (hB : s.InvB) (hx : s.isLive x = true) :
    ∀ k ∈ (cycleRefs s x).cmap.keys, s.isLive k = true := by
  obtain ⟨hb, hf⟩ := cycleRefs_ok s x hO hB hx
  obtain ⟨-, -, -, -, -, -, -, -, hkeys⟩ := cycleRefs_spec s x hb hf
  intro k hk
  obtain ⟨n, -, hnm⟩ := (hkeys k).mp ((CMap.has_iff_mem_keys _ _).mpr hk)
  exact s.named_live hB hnm

theorem firstUnreadable_none (s : State) (x : Nat) (hO : s.InvO) (hB : s.InvB)
    (hx : s.isLive x = true) : firstUnreadable s (cycleRefs s x).cmap = none := by
  unfold firstUnreadable
  rw [List.find?_eq_none]
  intro k hk
  simp [State.live_cell (keys_live s x hO hB hx k hk)]

theorem keys_nodup (s : State) (x : Nat) (hO : s.InvO) (hB : s.InvB) (hx : s.isLive x = true) :
    (cycleRefs s x).cmap.keys.Nodup := by
  obtain ⟨hb, hf⟩ := cycleRefs_ok s x hO hB hx
  exact (cycleRefs_spec s x hb hf).2.2.1

theorem visited_nodup (s : State) (x : Nat) (hO : s.InvO) (hB : s.InvB) (hx : s.isLive x = true) :
    (cycleRefs s x).visited.Nodup := by
  obtain ⟨hb, hf⟩ := cycleRefs_ok s x hO hB hx
  exact (cycleRefs_spec s x hb hf).2.1

theorem cmap_get_eq (s : State) (x : Nat) (hO : s.InvO) (hB : s.InvB) (hx : s.isLive x = true) :
    ∀ k, (cycleRefs s x).cmap.get k = sumOver (cycleRefs s x).visited (fun n => s.F n k) := by
  obtain ⟨hb, hf⟩ := cycleRefs_ok s x hO hB hx
  obtain ⟨-, -, -, -, -, -, -, hcnt, -⟩ := cycleRefs_spec s x hb hf
  intro k
  rw [hcnt k]
  have : (fun n => fwdCount (s.tbl n) k) = (fun n => s.F n k) := by
    funext n
    exact fwdCount_eq_get _ (s.tbl_WF hB n) k
  rw [this]

/-! ## after a passed orphan test -/

theorem strong_le_cmap (s : State) (x : Nat) (hO : s.InvO) (hB : s.InvB) (hx : s.isLive x = true)
    (hext : hasExternalOwners s (cycleRefs s x).cmap = false) :
    ∀ k ∈ (cycleRefs s x).cmap.keys, s.strongNat k ≤ (cycleRefs s x).cmap.get k := by
  intro k hk
  have hm := CMap.mem_of_mem_keys _ k hk
  unfold hasExternalOwners at hext
  rw [List.any_eq_false] at hext
  have h1 := hext _ hm
  obtain ⟨n, hso, hsn⟩ := State.live_strong (keys_live s x hO hB hx k hk)
  simp only [hso, strongExceeds] at h1
  rw [hsn]
  simpa using h1

/-- every key is the target of a Forward entry of a visited object -/
theorem key_has_adopter (s : State) (x : Nat) (hO : s.InvO) (hB : s.InvB) (hx : s.isLive x = true)
    (hext : hasExternalOwners s (cycleRefs s x).cmap = false) :
    ∀ k ∈ (cycleRefs s x).cmap.keys, ∃ n ∈ (cycleRefs s x).visited, 0 < s.F n k := by
  intro k hk
  have h1 := strong_le_cmap s x hO hB hx hext k hk
  obtain ⟨n, -, hsn⟩ := State.live_strong (keys_live s x hO hB hx k hk)
  rw [cmap_get_eq s x hO hB hx k] at h1
  exact sumOver_pos (by omega)

theorem keys_eq_visited (s : State) (x : Nat) (hO : s.InvO) (hB : s.InvB) (hx : s.isLive x = true)
    (hne : (cycleRefs s x).cmap.isEmpty = false)
    (hext : hasExternalOwners s (cycleRefs s x).cmap = false) :
    ∀ k, k ∈ (cycleRefs s x).cmap.keys ↔ k ∈ (cycleRefs s x).visited := by
  obtain ⟨hb, hf⟩ := cycleRefs_ok s x hO hB hx
  obtain ⟨hxv, -, -, -, hreach, hcl, hcomp, -, hkeys⟩ := cycleRefs_spec s x hb hf
  have hsub : ∀ k, k ∈ (cycleRefs s x).cmap.keys → k ∈ (cycleRefs s x).visited := by
    intro k hk
    obtain ⟨n, hn, hpos⟩ := key_has_adopter s x hO hB hx hext k hk
    obtain ⟨c, hc⟩ := (s.F_pos_iff hB n k).mp hpos
    exact hcl n hn k c hc
  have hkey : ∀ k, (∃ n ∈ (cycleRefs s x).visited, named (s.tbl n) k) →
      k ∈ (cycleRefs s x).cmap.keys :=
    fun k h => (CMap.has_iff_mem_keys _ _).mp ((hkeys k).mpr h)
  -- the start object is a key
  have hxk : x ∈ (cycleRefs s x).cmap.keys := by
    -- some key exists
    obtain ⟨k, hk⟩ : ∃ k, k ∈ (cycleRefs s x).cmap.keys := by
      cases hm : (cycleRefs s x).cmap with
      | nil => simp [hm] at hne
      | cons e r => exact ⟨e.1, by simp [CMap.keys]⟩
    rcases (hreach k (hsub k hk)).start with h1 | ⟨j, c, hc⟩
    · subst h1; exact hk
    · have hjv : j ∈ (cycleRefs s x).visited := hcl x hxv j c hc
      have hjl : s.isLive j = true := s.entry_live hB hc (by simp)
      have hF : 0 < s.F x j := (s.F_pos_iff hB x j).mpr ⟨c, hc⟩
      have hBj : 0 < s.B j x := by rw [← hB.2 x j hx hjl]; exact hF
      exact hkey x ⟨j, hjv, Or.inr ((s.B_pos_iff hB j x).mp hBj)⟩
  intro k
  refine ⟨hsub k, ?_⟩
  intro hk
  rcases (hreach k hk).last with h1 | ⟨m, c, hm, hc⟩
  · subst h1; exact hxk
  · exact hkey k ⟨m, hcomp m hm, Or.inl ⟨c, hc⟩⟩

theorem survivors_clean (s : State) (x : Nat) (hO : s.InvO) (hB : s.InvB) (hx : s.isLive x = true)
    (hne : (cycleRefs s x).cmap.isEmpty = false)
    (hext : hasExternalOwners s (cycleRefs s x).cmap = false) :
    ∀ a, s.isLive a = true → a ∉ (cycleRefs s x).visited → ∀ m ∈ (cycleRefs s x).visited,
      s.F a m = 0 ∧ s.B a m = 0 ∧ s.F m a = 0 ∧ s.B m a = 0 := by
  obtain ⟨hb, hf⟩ := cycleRefs_ok s x hO hB hx
  obtain ⟨-, -, -, -, -, hcl, -, -, hkeys⟩ := cycleRefs_spec s x hb hf
  intro a ha hav m hm
  have hml := visited_live s x hO hB hx m hm
  have h1 : s.F m a = 0 := by
    apply Classical.byContradiction
    intro hn
    obtain ⟨c, hc⟩ := (s.F_pos_iff hB m a).mp (by omega)
    exact hav (hcl m hm a c hc)
  have h2 : s.B m a = 0 := by
    apply Classical.byContradiction
    intro hn
    obtain ⟨c, hc⟩ := (s.B_pos_iff hB m a).mp (by omega)
    have : a ∈ (cycleRefs s x).cmap.keys :=
      (CMap.has_iff_mem_keys _ _).mp ((hkeys a).mpr ⟨m, hm, Or.inr ⟨c, hc⟩⟩)
    exact hav ((keys_eq_visited s x hO hB hx hne hext a).mp this)
  refine ⟨?_, ?_, h1, h2⟩
  · rw [hB.2 a m ha hml]; exact h2
  · rw [← hB.2 m a hml ha]; exact h1

end Cactus
