import Cactus.Lemmas.Once
/-!
# A destroyed object is never revived (C16 / C05 over whole histories)

`Obj.Le a b`: going from `a` to `b` an allocation does not come back: `freed` stays set, a dead
strong cell (`0` or the `uninit` sentinel) stays dead, a moved-out value stays moved out.
`State.Grow s t`: every allocation of `s` is still there in `t` (same index: the model never reuses
an index) and is `Obj.Le`-related to it, and the event log of `s` is a prefix of the log of `t`.

Every transition of the machine is `Grow`, from an *arbitrary* state: no invariant, no contract,
no hypothesis on the error field (sections 2-4).  `Later s t` is the reflexive-transitive closure of
the transitions that generate `Reachable` (operation start with any hint — not even required to
start from an empty control stack —, machine step, `endOp`, out-of-fuel failure); `Later s t`
implies `Grow s t`, hence dead stays dead, released stays released, moved out stays moved out, and
the log only grows (section 5); `run (ops1 ++ ops2)` is later than `run ops1` (section 6).
-/
namespace Cactus
open State

/-! ## 1. The order -/

/-- an allocation does not come back -/
structure Obj.Le (a b : Obj) : Prop where
  freed : a.freed = true → b.freed = true
  dead : a.strong.isDead = true → b.strong.isDead = true
  value : a.value = none → b.value = none

theorem Obj.Le.refl (a : Obj) : a.Le a := ⟨id, id, id⟩

theorem Obj.Le.trans {a b c : Obj} (h1 : a.Le b) (h2 : b.Le c) : a.Le c :=
  ⟨fun h => h2.freed (h1.freed h), fun h => h2.dead (h1.dead h), fun h => h2.value (h1.value h)⟩

/-- every allocation of `h` is still in `h'`, at the same index, and has not come back -/
def HeapLe (h h' : List Obj) : Prop :=
  ∀ (o : Nat) (ob : Obj), h[o]? = some ob → ∃ ob', h'[o]? = some ob' ∧ ob.Le ob'

theorem HeapLe.refl (h : List Obj) : HeapLe h h := fun _ ob hg => ⟨ob, hg, Obj.Le.refl ob⟩

theorem HeapLe.trans {a b c : List Obj} (h1 : HeapLe a b) (h2 : HeapLe b c) : HeapLe a c := by
  intro o ob hg
  obtain ⟨ob', hg', hle'⟩ := h1 o ob hg
  obtain ⟨ob'', hg'', hle''⟩ := h2 o ob' hg'
  exact ⟨ob'', hg'', hle'.trans hle''⟩

theorem HeapLe.length_le {a b : List Obj} (h : HeapLe a b) : a.length ≤ b.length := by
  cases hn : a.length with
  | zero => exact Nat.zero_le _
  | succ n =>
    have hlt : n < a.length := by omega
    obtain ⟨ob', hg', _⟩ := h n a[n] (List.getElem?_eq_getElem hlt)
    have := (List.getElem?_eq_some_iff.mp hg').1
    omega

theorem HeapLe.append (h : List Obj) (l : List Obj) : HeapLe h (h ++ l) := by
  intro o ob hg
  have hlt := (List.getElem?_eq_some_iff.mp hg).1
  exact ⟨ob, by rw [List.getElem?_append_left hlt]; exact hg, Obj.Le.refl ob⟩

theorem HeapLe.set {h : List Obj} {o : Nat} {ob ob' : Obj} (hg : h[o]? = some ob) (hle : ob.Le ob') :
    HeapLe h (h.set o ob') := by
  intro x obx hx
  by_cases hxo : o = x
  · subst hxo
    rw [hg] at hx; cases hx
    have hlt := (List.getElem?_eq_some_iff.mp hg).1
    exact ⟨ob', by simp [hlt], hle⟩
  · exact ⟨obx, by rw [List.getElem?_set_ne hxo]; exact hx, Obj.Le.refl obx⟩

/-- the order on (heap, log) pairs; `Grow` is this order on the two fields of a state -/
def HL (h : List Obj) (l : List Ev) (h' : List Obj) (l' : List Ev) : Prop :=
  HeapLe h h' ∧ l <+: l'

theorem HL.refl (h : List Obj) (l : List Ev) : HL h l h l := ⟨HeapLe.refl h, List.prefix_refl l⟩

theorem HL.trans {h1 h2 h3 : List Obj} {l1 l2 l3 : List Ev} (a : HL h1 l1 h2 l2) (b : HL h2 l2 h3 l3) :
    HL h1 l1 h3 l3 := ⟨a.1.trans b.1, a.2.trans b.2⟩

/-- nothing in `s` has come back in `t`, and the log of `s` is a prefix of the log of `t` -/
def State.Grow (s t : State) : Prop := HL s.heap s.log t.heap t.log

namespace State
namespace Grow

theorem refl (s : State) : s.Grow s := HL.refl _ _
theorem trans {a b c : State} (h1 : a.Grow b) (h2 : b.Grow c) : a.Grow c := HL.trans h1 h2

theorem heapLe {s t : State} (h : s.Grow t) : HeapLe s.heap t.heap := h.1
theorem log_prefix {s t : State} (h : s.Grow t) : s.log <+: t.log := h.2
theorem length_le {s t : State} (h : s.Grow t) : s.heap.length ≤ t.heap.length := h.1.length_le

theorem of_eq {s t : State} (hh : t.heap = s.heap) (hl : t.log = s.log) : s.Grow t := by
  unfold Grow; rw [hh, hl]; exact HL.refl _ _

/-! ### what `Grow` says about one allocation -/

theorem isLive_false {s t : State} (h : s.Grow t) {o : Nat} (ho : o < s.heap.length)
    (hd : s.isLive o = false) : t.isLive o = false := by
  obtain ⟨ob', hg', hle⟩ := h.1 o s.heap[o] (List.getElem?_eq_getElem ho)
  unfold isLive at hd ⊢
  rw [List.getElem?_eq_getElem ho] at hd
  rw [hg']
  simp only [Bool.and_eq_false_iff, Bool.not_eq_false'] at hd ⊢
  rcases hd with hf | hdd
  · exact .inl (hle.freed hf)
  · exact .inr (hle.dead hdd)

theorem freed_stays {s t : State} (h : s.Grow t) {o : Nat} {ob : Obj} (hg : s.heap[o]? = some ob)
    (hf : ob.freed = true) : ∃ ob', t.heap[o]? = some ob' ∧ ob'.freed = true := by
  obtain ⟨ob', hg', hle⟩ := h.1 o ob hg
  exact ⟨ob', hg', hle.freed hf⟩

theorem dead_stays {s t : State} (h : s.Grow t) {o : Nat} {ob : Obj} (hg : s.heap[o]? = some ob)
    (hd : ob.strong.isDead = true) : ∃ ob', t.heap[o]? = some ob' ∧ ob'.strong.isDead = true := by
  obtain ⟨ob', hg', hle⟩ := h.1 o ob hg
  exact ⟨ob', hg', hle.dead hd⟩

theorem value_none_stays {s t : State} (h : s.Grow t) {o : Nat} {ob : Obj} (hg : s.heap[o]? = some ob)
    (hv : ob.value = none) : ∃ ob', t.heap[o]? = some ob' ∧ ob'.value = none := by
  obtain ⟨ob', hg', hle⟩ := h.1 o ob hg
  exact ⟨ob', hg', hle.value hv⟩

/-- a `Weak` to a dead object can never be upgraded again: the cell, if still readable, is dead -/
theorem cell_dead {s t : State} (h : s.Grow t) {o : Nat} (ho : o < s.heap.length)
    (hd : s.isLive o = false) {ob' : Obj} (hc : t.cell o = some ob') : ob'.strong.isDead = true := by
  have hl := h.isLive_false ho hd
  have hg := cell_some_get t o ob' hc
  unfold isLive at hl
  rw [hg.1] at hl
  simpa [hg.2] using hl

/-! ## 2. The primitives -/

theorem fail (s : State) (e : Err) : s.Grow (s.fail e) := of_eq (fail_heap s e) (fail_log s e)

theorem emit (s : State) (e : Ev) : s.Grow (s.emit e) :=
  ⟨HeapLe.refl _, List.prefix_append _ _⟩

theorem push (s : State) (fs : List Frame) : s.Grow (s.push fs) := of_eq rfl rfl

theorem setObj {s : State} {o : Nat} {ob : Obj} (ob' : Obj) (hc : s.cell o = some ob) (hle : ob.Le ob') :
    s.Grow (s.setObj o ob') :=
  ⟨HeapLe.set (cell_some_get s o ob hc).1 hle, List.prefix_refl _⟩

theorem alloc (s : State) (v : Val) : s.Grow (s.alloc v) :=
  ⟨HeapLe.append _ _, List.prefix_refl _⟩

theorem foldl {α : Type} (f : State → α → State) (hf : ∀ (s : State) (a : α), s.Grow (f s a)) (l : List α)
    (s : State) : s.Grow (l.foldl f s) := by
  induction l generalizing s with
  | nil => exact refl s
  | cons a r ih => exact (hf s a).trans (ih (f s a))

end Grow
end State

/-- closes the side goals `ob.Le { ob with … }` of `Grow.setObj` -/
macro "le_tac" : tactic =>
  `(tactic| (constructor <;> intro h_le <;> simp_all [Strong.isDead]))

namespace State
namespace Grow

/-! ## 3. The library functions -/

theorem setLinks (s : State) (o : Nat) (f : Table → Table) : s.Grow (s.setLinks o f) := by
  unfold State.setLinks
  split
  · split
    · exact setObj _ ‹_› (by exact ⟨id, id, id⟩)
    · exact fail _ _
  · exact fail _ _

theorem incStrong (s : State) (o : Nat) : s.Grow (s.incStrong o) := by
  unfold State.incStrong
  split
  · split
    · exact setObj _ ‹_› (by le_tac)
    · exact fail _ _
  · exact fail _ _

theorem incWeak (s : State) (o : Nat) : s.Grow (s.incWeak o) := by
  unfold State.incWeak
  split
  · split
    · exact fail _ _
    · exact setObj _ ‹_› (by exact ⟨id, id, id⟩)
  · exact fail _ _

theorem decWeakFree (s : State) (o : Nat) (imp : Bool) : s.Grow (s.decWeakFree o imp) := by
  unfold State.decWeakFree
  split
  · split
    · exact fail _ _
    · exact (setObj _ ‹_› (by exact ⟨fun _ => rfl, id, id⟩)).trans (emit _ _)
    · exact setObj _ ‹_› (by exact ⟨id, id, id⟩)
  · exact fail _ _

theorem adopt (s : State) (a b : Nat) (same : Bool) : s.Grow (s.adopt a b same) := by
  unfold State.adopt
  split
  · exact setLinks _ _ _
  · exact (setLinks _ _ _).trans (setLinks _ _ _)

theorem unadopt (s : State) (a b : Nat) (same : Bool) : s.Grow (s.unadopt a b same) := by
  unfold State.unadopt
  split
  · exact setLinks _ _ _
  · exact (setLinks _ _ _).trans (setLinks _ _ _)

theorem purgeOne (x : Nat) (s : State) (e : Link × Nat) : s.Grow (State.purgeOne x s e) := by
  unfold State.purgeOne
  split
  · exact refl s
  · exact setLinks _ _ _

theorem purgePeers (s : State) (x : Nat) : s.Grow (s.purgePeers x) := by
  unfold State.purgePeers
  split
  · exact (foldl _ (purgeOne x) _ s).trans (setLinks _ _ _)
  · exact fail _ _

theorem beginSingle (s : State) (o : Nat) : s.Grow (s.beginSingle o) := by
  unfold State.beginSingle
  split
  · split
    · exact decWeakFree _ _ _
    · split
      · exact (setObj _ ‹_› (by exact ⟨id, fun _ => rfl, fun _ => rfl⟩)).trans (push _ _)
      · exact fail _ _
  · exact fail _ _

theorem finishSingle (s : State) (o : Nat) : s.Grow (s.finishSingle o) := by
  unfold State.finishSingle
  split
  · split
    · exact (setObj _ ‹_› (by exact ⟨id, id, id⟩)).trans (decWeakFree _ _ _)
    · exact fail _ _
  · exact fail _ _

theorem phase1One (keys : List Nat) (s : State) (e : Nat × Nat) : s.Grow (State.phase1One keys s e) := by
  unfold State.phase1One
  split
  · split
    · rename_i ob hc _ _ t st hl hst
      refine setObj _ hc ?_
      refine ⟨id, ?_, id⟩
      intro hd
      rw [hst] at hd
      cases st with
      | zero => simp [Strong.isDead]
      | succ n => simp [Strong.isDead] at hd
    · exact fail _ _
    · exact fail _ _
  · exact fail _ _

/-- phase 2 threads a pair; only the state matters here -/
theorem phase2One (acc : State × List Val) (k : Nat) : acc.1.Grow (State.phase2One acc k).1 := by
  unfold State.phase2One
  split
  · split
    · split
      · exact setObj _ ‹_› (by exact ⟨id, fun _ => rfl, fun _ => rfl⟩)
      · exact fail _ _
    · exact refl _
  · exact fail _ _

theorem phase2_foldl (ks : List Nat) (acc : State × List Val) :
    acc.1.Grow (ks.foldl State.phase2One acc).1 := by
  induction ks generalizing acc with
  | nil => exact refl _
  | cons k r ih => exact (phase2One acc k).trans (ih _)

theorem phase3One (s : State) (k : Nat) : s.Grow (s.phase3One k) := by
  unfold State.phase3One
  split
  · split
    · exact decWeakFree _ _ _
    · exact refl s
  · exact fail _ _

theorem dropCycle (s : State) (c : CMap) : s.Grow (s.dropCycle c) := by
  unfold State.dropCycle
  exact ((foldl _ (phase1One c.keys) c s).trans (phase2_foldl c.keys (_, []))).trans (push _ _)

theorem rcDrop (s : State) (o : Nat) : s.Grow (s.rcDrop o) := by
  unfold State.rcDrop
  split
  · exact fail _ _
  · rename_i ob hc
    split
    · exact refl s
    · exact refl s
    · rename_i n hst
      split
      · exact fail _ _
      · have h1 : s.Grow (s.setObj o { ob with strong := .cnt n }) :=
          setObj _ hc ⟨id, fun hd => by rw [hst] at hd; simp [Strong.isDead] at hd, id⟩
        dsimp only
        split
        · split
          · exact h1.trans (beginSingle _ _)
          · exact h1
        · split
          · exact (h1.trans (purgePeers _ _)).trans (beginSingle _ _)
          · have h2 := h1.trans (emit _ (.traced o (cycleRefs (s.setObj o { ob with strong := .cnt n }) o).visited.length
              (cycleRefs (s.setObj o { ob with strong := .cnt n }) o).popped))
            split
            · exact h2.trans (fail _ _)
            · split
              · exact h2.trans (fail _ _)
              · split
                · exact h2
                · split
                  · exact h2.trans (fail _ _)
                  · split
                    · exact h2
                    · exact h2.trans (dropCycle _ _)

theorem dropVal (s : State) (v : Val) : s.Grow (s.dropVal v) := (emit _ _).trans (push _ _)

theorem panic (s : State) : s.Grow s.panic := by
  unfold State.panic
  split
  · exact fail _ _
  · exact of_eq rfl rfl

theorem dropFields (s : State) (hs ws : List Nat) : s.Grow (s.dropFields hs ws) := by
  unfold State.dropFields
  split
  · exact push _ _
  · exact push _ _
  · exact refl s

theorem weakDrop (s : State) (o : Nat) : s.Grow (s.weakDrop o) := decWeakFree _ _ _

theorem modVal (s : State) (o : Nat) (f : Val → Val) : s.Grow (s.modVal o f) := by
  unfold State.modVal
  split
  · split
    · exact setObj _ ‹_› (by le_tac)
    · exact fail _ _
  · exact fail _ _

theorem cloneHandles (s : State) (v : Val) : s.Grow (s.cloneHandles v) :=
  (foldl _ incStrong _ s).trans (foldl _ incWeak _ _)

theorem giveUp (s : State) (o : Nat) : s.Grow (s.giveUp o) := by
  unfold State.giveUp
  split
  · exact ((purgePeers s o).trans (setObj _ ‹_› (by exact ⟨id, fun _ => rfl, fun _ => rfl⟩))).trans (decWeakFree _ _ _)
  · exact (purgePeers s o).trans (fail _ _)

theorem badRoot (s : State) (r : Nat) : s.Grow (s.badRoot r) := by
  rcases badRoot_cases s r with h | ⟨e, h⟩ <;> rw [h]
  · exact refl s
  · exact fail s e

end Grow
end State

/-! ## 4. Actions, operations, machine steps

The right-extension forms below are stated on the two fields so that a structure literal
`{ t with roots := … }` on the right reduces by `dsimp only` to the fields of `t`. -/

namespace HL
variable {h : List Obj} {l : List Ev}

theorem of_grow {t t' : State} (g : t.Grow t') (a : HL h l t.heap t.log) : HL h l t'.heap t'.log :=
  HL.trans a g

theorem fail (t : State) (e : Err) (a : HL h l t.heap t.log) : HL h l (t.fail e).heap (t.fail e).log :=
  of_grow (Grow.fail t e) a
theorem emit (t : State) (e : Ev) (a : HL h l t.heap t.log) : HL h l (t.emit e).heap (t.emit e).log :=
  of_grow (Grow.emit t e) a
theorem push (t : State) (fs : List Frame) (a : HL h l t.heap t.log) :
    HL h l (t.push fs).heap (t.push fs).log := of_grow (Grow.push t fs) a
theorem alloc (t : State) (v : Val) (a : HL h l t.heap t.log) : HL h l (t.alloc v).heap (t.alloc v).log :=
  of_grow (Grow.alloc t v) a
theorem badRoot (t : State) (r : Nat) (a : HL h l t.heap t.log) :
    HL h l (t.badRoot r).heap (t.badRoot r).log := of_grow (Grow.badRoot t r) a
theorem incStrong (t : State) (o : Nat) (a : HL h l t.heap t.log) :
    HL h l (t.incStrong o).heap (t.incStrong o).log := of_grow (Grow.incStrong t o) a
theorem incWeak (t : State) (o : Nat) (a : HL h l t.heap t.log) :
    HL h l (t.incWeak o).heap (t.incWeak o).log := of_grow (Grow.incWeak t o) a
theorem setLinks (t : State) (o : Nat) (f : Table → Table) (a : HL h l t.heap t.log) :
    HL h l (t.setLinks o f).heap (t.setLinks o f).log := of_grow (Grow.setLinks t o f) a
theorem adopt (t : State) (x y : Nat) (b : Bool) (a : HL h l t.heap t.log) :
    HL h l (t.adopt x y b).heap (t.adopt x y b).log := of_grow (Grow.adopt t x y b) a
theorem unadopt (t : State) (x y : Nat) (b : Bool) (a : HL h l t.heap t.log) :
    HL h l (t.unadopt x y b).heap (t.unadopt x y b).log := of_grow (Grow.unadopt t x y b) a
theorem modVal (t : State) (o : Nat) (f : Val → Val) (a : HL h l t.heap t.log) :
    HL h l (t.modVal o f).heap (t.modVal o f).log := of_grow (Grow.modVal t o f) a
theorem giveUp (t : State) (o : Nat) (a : HL h l t.heap t.log) :
    HL h l (t.giveUp o).heap (t.giveUp o).log := of_grow (Grow.giveUp t o) a
theorem cloneHandles (t : State) (v : Val) (a : HL h l t.heap t.log) :
    HL h l (t.cloneHandles v).heap (t.cloneHandles v).log := of_grow (Grow.cloneHandles t v) a

end HL

/-- one step of the search that proves `Grow s (… s …)` for a term built from the primitives -/
macro "grow_step" : tactic =>
  `(tactic| first
    | with_reducible exact HL.refl _ _
    | dsimp only
    | split
    | with_reducible (first
      | apply HL.fail | apply HL.emit | apply HL.push | apply HL.alloc | apply HL.badRoot
      | apply HL.incStrong | apply HL.incWeak | apply HL.setLinks | apply HL.adopt | apply HL.unadopt
      | apply HL.modVal | apply HL.giveUp | apply HL.cloneHandles))

macro "grow_tac" : tactic => `(tactic| (unfold State.Grow; repeat' grow_step))

namespace State
namespace Grow

/-- every action, top level or inside a destructor, in any state -/
theorem applyAct (s : State) (fh fw : List Nat) (a : Act) : s.Grow (Cactus.applyAct s fh fw a) := by
  cases a <;> simp only [Cactus.applyAct] <;> grow_tac

theorem begin (s : State) (hint : List Nat) : s.Grow (s.begin hint) := of_eq rfl rfl

theorem applyOp (s : State) (op : Op) : s.Grow (Cactus.applyOp s op) := by
  cases op with
  | act a => exact applyAct s [] [] a
  | setScript q acts => simp only [Cactus.applyOp]; grow_tac
  | shuffle q i => simp only [Cactus.applyOp]; grow_tac

theorem step (s : State) : s.Grow (Cactus.step s) := by
  unfold Cactus.step
  split
  · exact refl s
  · split
    · exact refl s
    · rename_i f rest _
      have h0 : s.Grow { s with stack := rest } := of_eq rfl rfl
      cases f with
      | rcDrop o => exact h0.trans (rcDrop _ o)
      | weakDrop o => exact h0.trans (weakDrop _ o)
      | dropVal v => exact h0.trans (dropVal _ v)
      | script hs ws acts =>
        cases acts with
        | nil => exact h0
        | cons a as => exact (h0.trans (push _ _)).trans (applyAct _ hs ws a)
      | panic => exact h0.trans (panic _)
      | dropFields hs ws => exact h0.trans (dropFields _ hs ws)
      | finishSingle o => exact h0.trans (finishSingle _ o)
      | phase3 ks => exact h0.trans (foldl _ phase3One ks _)

theorem endOp (s : State) : s.Grow (Cactus.endOp s) := by
  unfold Cactus.endOp
  split
  · exact (of_eq (t := { s with unwinding := false }) rfl rfl).trans (emit _ _)
  · exact refl s

theorem drain (f : Nat) (s : State) : s.Grow (Cactus.drain f s) := by
  induction f generalizing s with
  | zero =>
    unfold Cactus.drain
    split
    · exact refl s
    · exact fail _ _
  | succ f ih =>
    unfold Cactus.drain
    split
    · exact (step s).trans (ih _)
    · exact refl s

theorem execOp (fuel : Nat) (s : State) (op : Op) (hint : List Nat) :
    s.Grow (Cactus.execOp fuel s op hint) := by
  unfold Cactus.execOp
  split
  · exact refl s
  · exact (((begin s hint).trans (applyOp _ op)).trans (drain fuel _)).trans (endOp _)

end Grow
end State

/-! ### Per transition, as statements about `isLive` (no hypothesis on the state) -/

theorem step_isLive_false (s : State) (o : Nat) (ho : o < s.heap.length) (hd : s.isLive o = false) :
    (step s).isLive o = false := (Grow.step s).isLive_false ho hd

theorem applyAct_isLive_false (s : State) (fh fw : List Nat) (a : Act) (o : Nat) (ho : o < s.heap.length)
    (hd : s.isLive o = false) : (applyAct s fh fw a).isLive o = false :=
  (Grow.applyAct s fh fw a).isLive_false ho hd

theorem applyOp_isLive_false (s : State) (op : Op) (o : Nat) (ho : o < s.heap.length)
    (hd : s.isLive o = false) : (applyOp s op).isLive o = false := (Grow.applyOp s op).isLive_false ho hd

theorem endOp_isLive_false (s : State) (o : Nat) (ho : o < s.heap.length) (hd : s.isLive o = false) :
    (endOp s).isLive o = false := (Grow.endOp s).isLive_false ho hd

theorem hint_isLive_false (s : State) (h : List Nat) (o : Nat) (hd : s.isLive o = false) :
    ({ s with hint := h } : State).isLive o = false := hd

theorem fail_isLive_false (s : State) (e : Err) (o : Nat) (hd : s.isLive o = false) :
    (s.fail e).isLive o = false := by
  unfold State.isLive at hd ⊢; rw [fail_heap]; exact hd

theorem drain_isLive_false (f : Nat) (s : State) (o : Nat) (ho : o < s.heap.length)
    (hd : s.isLive o = false) : (drain f s).isLive o = false := (Grow.drain f s).isLive_false ho hd

theorem execOp_isLive_false (fuel : Nat) (s : State) (op : Op) (hint : List Nat) (o : Nat)
    (ho : o < s.heap.length) (hd : s.isLive o = false) : (execOp fuel s op hint).isLive o = false :=
  (Grow.execOp fuel s op hint).isLive_false ho hd

/-- the heap never shrinks, so an index stays allocated -/
theorem step_heap_length (s : State) : s.heap.length ≤ (step s).heap.length := (Grow.step s).length_le
theorem applyAct_heap_length (s : State) (fh fw : List Nat) (a : Act) :
    s.heap.length ≤ (applyAct s fh fw a).heap.length := (Grow.applyAct s fh fw a).length_le
theorem applyOp_heap_length (s : State) (op : Op) : s.heap.length ≤ (applyOp s op).heap.length :=
  (Grow.applyOp s op).length_le
theorem endOp_heap_length (s : State) : s.heap.length ≤ (endOp s).heap.length := (Grow.endOp s).length_le
theorem fail_heap_length (s : State) (e : Err) : s.heap.length ≤ (s.fail e).heap.length :=
  (Grow.fail s e).length_le

/-- released stays released, per transition -/
theorem step_freed (s : State) (o : Nat) (ob : Obj) (hg : s.heap[o]? = some ob) (hf : ob.freed = true) :
    ∃ ob', (step s).heap[o]? = some ob' ∧ ob'.freed = true := (Grow.step s).freed_stays hg hf
theorem applyAct_freed (s : State) (fh fw : List Nat) (a : Act) (o : Nat) (ob : Obj)
    (hg : s.heap[o]? = some ob) (hf : ob.freed = true) :
    ∃ ob', (applyAct s fh fw a).heap[o]? = some ob' ∧ ob'.freed = true :=
  (Grow.applyAct s fh fw a).freed_stays hg hf
theorem applyOp_freed (s : State) (op : Op) (o : Nat) (ob : Obj)
    (hg : s.heap[o]? = some ob) (hf : ob.freed = true) :
    ∃ ob', (applyOp s op).heap[o]? = some ob' ∧ ob'.freed = true := (Grow.applyOp s op).freed_stays hg hf

/-- a moved-out value stays moved out, per transition (dead or not) -/
theorem step_value_none (s : State) (o : Nat) (ob : Obj) (hg : s.heap[o]? = some ob) (hv : ob.value = none) :
    ∃ ob', (step s).heap[o]? = some ob' ∧ ob'.value = none := (Grow.step s).value_none_stays hg hv
theorem applyAct_value_none (s : State) (fh fw : List Nat) (a : Act) (o : Nat) (ob : Obj)
    (hg : s.heap[o]? = some ob) (hv : ob.value = none) :
    ∃ ob', (applyAct s fh fw a).heap[o]? = some ob' ∧ ob'.value = none :=
  (Grow.applyAct s fh fw a).value_none_stays hg hv
theorem applyOp_value_none (s : State) (op : Op) (o : Nat) (ob : Obj)
    (hg : s.heap[o]? = some ob) (hv : ob.value = none) :
    ∃ ob', (applyOp s op).heap[o]? = some ob' ∧ ob'.value = none := (Grow.applyOp s op).value_none_stays hg hv

/-! ## 5. Whole histories -/

/-- `Later s t`: `t` is obtained from `s` by the transitions that generate `Reachable`
(`Spec/Reach.lean`): start of an operation with any layout hint, one machine step, the operation
boundary, the out-of-fuel failure.  (The start of an operation is not even required to happen in a
quiescent state, so `Later` contains every continuation of every execution.) -/
inductive Later : State → State → Prop
  | refl (s : State) : Later s s
  | op {s t : State} (o : Op) (hint : List Nat) : Later s t → Later s (applyOp (t.begin hint) o)
  | step {s t : State} : Later s t → Later s (step t)
  | endOp {s t : State} : Later s t → Later s (endOp t)
  | outOfFuel {s t : State} : Later s t → Later s (t.fail .fuel)

namespace Later

theorem trans {a b c : State} (h1 : Later a b) (h2 : Later b c) : Later a c := by
  induction h2 with
  | refl => exact h1
  | op o hint _ ih => exact .op o hint ih
  | step _ ih => exact .step ih
  | endOp _ ih => exact .endOp ih
  | outOfFuel _ ih => exact .outOfFuel ih

/-- every reachable state is later than the initial state -/
theorem of_reachable {s : State} (h : Reachable s) : Later {} s := by
  induction h with
  | init => exact .refl _
  | op o hint _ _ ih => exact .op o hint ih
  | step _ ih => exact .step ih
  | endOp _ ih => exact .endOp ih
  | outOfFuel _ ih => exact .outOfFuel ih

/-- `drain`, `execOp` and hence `run` move along `Later` -/
theorem drain (f : Nat) (s : State) : Later s (drain f s) := by
  induction f generalizing s with
  | zero =>
    unfold Cactus.drain
    split
    · exact .refl s
    · exact .outOfFuel (.refl s)
  | succ f ih =>
    unfold Cactus.drain
    split
    · exact (Later.step (.refl s)).trans (ih _)
    · exact .refl s

theorem execOp (fuel : Nat) (s : State) (o : Op) (hint : List Nat) : Later s (execOp fuel s o hint) := by
  unfold Cactus.execOp
  split
  · exact .refl s
  · exact .endOp ((Later.op o hint (.refl s)).trans (drain fuel _))

theorem foldl_execOp (fuel : Nat) (ops : List (Op × List Nat)) (s : State) :
    Later s (ops.foldl (fun s oh => Cactus.execOp fuel s oh.1 oh.2) s) := by
  induction ops generalizing s with
  | nil => exact .refl s
  | cons oh r ih => exact (execOp fuel s oh.1 oh.2).trans (ih _)

/-- the main lemma: along any execution nothing comes back and the log only grows -/
theorem grow {s t : State} (h : Later s t) : s.Grow t := by
  induction h with
  | refl => exact Grow.refl _
  | op o hint _ ih => exact (ih.trans (Grow.begin _ hint)).trans (Grow.applyOp _ o)
  | step _ ih => exact ih.trans (Grow.step _)
  | endOp _ ih => exact ih.trans (Grow.endOp _)
  | outOfFuel _ ih => exact ih.trans (Grow.fail _ _)

end Later

theorem run_append (ops1 ops2 : List (Op × List Nat)) :
    run (ops1 ++ ops2) = ops2.foldl (fun s oh => execOp defaultFuel s oh.1 oh.2) (run ops1) := by
  unfold run; rw [List.foldl_append]

/-- the state after a longer history is later than the state after any of its prefixes -/
theorem later_run_append (ops1 ops2 : List (Op × List Nat)) : Later (run ops1) (run (ops1 ++ ops2)) := by
  rw [run_append]; exact Later.foldl_execOp _ _ _

/-! ### The statements -/

/-- a destroyed (or released) object is never live again -/
theorem later_isLive_false {s t : State} (h : Later s t) {o : Nat} (ho : o < s.heap.length)
    (hd : s.isLive o = false) : o < t.heap.length ∧ t.isLive o = false :=
  ⟨Nat.lt_of_lt_of_le ho h.grow.length_le, h.grow.isLive_false ho hd⟩

/-- a released allocation stays released (the model never reuses an index) -/
theorem later_freed {s t : State} (h : Later s t) {o : Nat} {ob : Obj} (hg : s.heap[o]? = some ob)
    (hf : ob.freed = true) : ∃ ob', t.heap[o]? = some ob' ∧ ob'.freed = true :=
  h.grow.freed_stays hg hf

/-- a dead strong cell stays dead (also while the allocation is kept alive by Weaks) -/
theorem later_dead {s t : State} (h : Later s t) {o : Nat} {ob : Obj} (hg : s.heap[o]? = some ob)
    (hd : ob.strong.isDead = true) : ∃ ob', t.heap[o]? = some ob' ∧ ob'.strong.isDead = true :=
  h.grow.dead_stays hg hd

/-- a moved-out value is never put back -/
theorem later_value_none {s t : State} (h : Later s t) {o : Nat} {ob : Obj} (hg : s.heap[o]? = some ob)
    (hv : ob.value = none) : ∃ ob', t.heap[o]? = some ob' ∧ ob'.value = none :=
  h.grow.value_none_stays hg hv

theorem later_log_prefix {s t : State} (h : Later s t) : s.log <+: t.log := h.grow.log_prefix

theorem later_heap_length {s t : State} (h : Later s t) : s.heap.length ≤ t.heap.length := h.grow.length_le

/-! ## 6. `run` -/

theorem run_isLive_false (ops1 ops2 : List (Op × List Nat)) (o : Nat) (ho : o < (run ops1).heap.length)
    (hd : (run ops1).isLive o = false) : (run (ops1 ++ ops2)).isLive o = false :=
  (later_isLive_false (later_run_append ops1 ops2) ho hd).2

theorem run_heap_length (ops1 ops2 : List (Op × List Nat)) :
    (run ops1).heap.length ≤ (run (ops1 ++ ops2)).heap.length :=
  later_heap_length (later_run_append ops1 ops2)

theorem run_log_prefix (ops1 ops2 : List (Op × List Nat)) : (run ops1).log <+: (run (ops1 ++ ops2)).log :=
  later_log_prefix (later_run_append ops1 ops2)

theorem prefix_filterMap {α β : Type} (f : α → Option β) {l l' : List α} (h : l <+: l') :
    l.filterMap f <+: l'.filterMap f := by
  obtain ⟨r, rfl⟩ := h
  rw [List.filterMap_append]
  exact List.prefix_append _ _

/-- a `destroyed v` event, once logged, stays -/
theorem later_destroyedVids_prefix {s t : State} (h : Later s t) : s.destroyedVids <+: t.destroyedVids :=
  prefix_filterMap _ (later_log_prefix h)

theorem later_freedIds_prefix {s t : State} (h : Later s t) : s.freedIds <+: t.freedIds :=
  prefix_filterMap _ (later_log_prefix h)

theorem run_destroyedVids_prefix (ops1 ops2 : List (Op × List Nat)) :
    (run ops1).destroyedVids <+: (run (ops1 ++ ops2)).destroyedVids :=
  later_destroyedVids_prefix (later_run_append ops1 ops2)

end Cactus
