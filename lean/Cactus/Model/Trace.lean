import Cactus.Model.State
/-!
# Reachability trace (`src/cycle.rs`)

`cycle_refs` is a worklist search along Forward entries that builds the map
`object ↦ Σ counts of Forward entries pointing at it from visited objects`; every adopter met
through a Backward entry gets a key with count 0.  Loopback entries are inert (fix F2:
"self-adoptions have no effect").
-/
namespace Cactus

/-- the `cycle_owned_refs` hash map; keys are Forward links, i.e. objects -/
abbrev CMap := List (Nat × Nat)

namespace CMap
def get : CMap → Nat → Nat
  | [], _ => 0
  | (k, c) :: r, j => if k = j then c else get r j
def has : CMap → Nat → Bool
  | [], _ => false
  | (k, _) :: r, j => k = j || has r j
/-- `entry(k).and_modify(+= n).or_insert(n)` -/
def add : CMap → Nat → Nat → CMap
  | [], k, n => [(k, n)]
  | (k', c) :: r, k, n => if k' = k then (k', c + n) :: r else (k', c) :: add r k n
def keys (m : CMap) : List Nat := m.map (·.1)
end CMap

/-- body of the `for (&link, &strong) in links.iter()` loop, cycle.rs:56-66 -/
def scanStep (acc : CMap × List Nat) (e : Link × Nat) : CMap × List Nat :=
  match e.1.kind with
  | .fwd => (acc.1.add e.1.ptr e.2, e.1.ptr :: acc.2)
  | .loop => acc
  | .bwd => (acc.1.add e.1.ptr 0, acc.2)

def scan (t : Table) (acc : CMap × List Nat) : CMap × List Nat := t.foldl scanStep acc

/-- the table of `o` if the library may read it: allocated, not released, not moved out -/
def State.tableOf (s : State) (o : Nat) : Option Table :=
  match s.cell o with
  | some ob => ob.links
  | none => none

structure TraceResult where
  cmap : CMap
  visited : List Nat
  popped : Nat
  bad : Option Nat          -- an object whose table could not be read
  outOfFuel : Bool
  deriving Repr

/-- the `while let Some(node) = discovered.pop()` loop, cycle.rs:49-67 (worklist head = top) -/
def traceLoop (s : State) : Nat → List Nat → List Nat → CMap → Nat → TraceResult
  | 0, _, vis, m, p => ⟨m, vis, p, none, true⟩
  | _ + 1, [], vis, m, p => ⟨m, vis, p, none, false⟩
  | f + 1, n :: wl, vis, m, p =>
    if vis.contains n then traceLoop s f wl vis m (p + 1)
    else
      match s.tableOf n with
      | none => ⟨m, vis, p + 1, some n, false⟩
      | some t => traceLoop s f (scan t (m, wl)).2 (n :: vis) (scan t (m, wl)).1 (p + 1)

/-- an upper bound on worklist pops: one per Forward entry in the heap, plus the start -/
def traceFuel (s : State) : Nat :=
  2 + (s.heap.map (fun ob => (ob.links.getD []).length)).sum

def cycleRefs (s : State) (x : Nat) : TraceResult := traceLoop s (traceFuel s) [x] [] [] 0

/-- `item.strong() > cycle_owned_refs` on the raw cell (`uninit` is `usize::MAX`) -/
def strongExceeds (st : Strong) (n : Nat) : Bool :=
  match st with
  | .cnt k => n < k
  | .uninit => true

/-- some key's counter cell is not readable (released allocation) -/
def firstUnreadable (s : State) (c : CMap) : Option Nat :=
  (c.keys.find? (fun k => (s.cell k).isNone))

/-- `has_external_owners`, cycle.rs:28-30 -/
def hasExternalOwners (s : State) (c : CMap) : Bool :=
  c.any (fun e => strongExceeds (s.strongOf e.1) e.2)

end Cactus
