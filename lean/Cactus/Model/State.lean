import Cactus.Model.Table
/-!
# Machine state of the executable model

A small-step machine: `State.stack` is the explicit control stack of pending library work and
pending user destructors.  Memory discipline (released allocation, moved-out value or table,
double free, counter underflow, abort) is reported through the sticky field `err`, so "the
library never touches freed memory" is a statement about `err`.
-/
namespace Cactus

/-- the `strong` cell of an `RcBox`; `uninit` is the sentinel `usize::MAX` (`make_uninit`) -/
inductive Strong | cnt (n : Nat) | uninit
  deriving DecidableEq, Repr, Inhabited

/-- `RcInnerPtr::is_dead`: `strong == 0 || is_uninit` -/
def Strong.isDead : Strong → Bool
  | .cnt 0 => true
  | .uninit => true
  | .cnt (_ + 1) => false

/-- user-level actions; selectors are interpreted modulo the length of the list they index
(handles `roots`, Weak handles `wroots`, unwrapped values `vals`, raw pointers `raws`) and an
inapplicable action is a no-op, identically in the model and in the harness. -/
inductive Act
  | new
  | clone (r : Nat)
  | drop (r : Nat)
  | adopt (r1 r2 : Nat)          -- `adopt_unchecked(&roots[r1], &roots[r2])`; same index = same handle
  | unadopt (r1 r2 : Nat)
  | store (r q : Nat)            -- move handle `r` into the value of the object of handle `q`
  | take (q k : Nat)             -- move stored handle `k` of that object back to the program
  | link (r q : Nat)             -- adopt(q, r) ; store r q
  | unlink (q k : Nat)           -- take q k ; unadopt(q, taken)
  | downgrade (r : Nat)
  | upgrade (w : Nat)
  | cloneWeak (w : Nat)
  | dropWeak (w : Nat)
  | storeWeak (w q : Nat)
  | tryUnwrap (r : Nat)
  | dropValue (i : Nat)
  | makeMut (r : Nat)
  | getMut (r : Nat)
  | intoRaw (r : Nat)
  | fromRaw (i : Nat)
  | incStrong (i : Nat)
  | decStrong (i : Nat)
  | ptrEq (r1 r2 : Nat)
  | counts (r : Nat)
  | wcounts (w : Nat)
  | setPanic (q : Nat)
  | setShallow (q : Nat)        -- make the value's `Clone` shallow (copies no handle); see `makeMut`
  | upgradeField (k : Nat)       -- only inside a destructor: upgrade own Weak field `k`
  | cloneField (k : Nat)         -- only inside a destructor: clone own strong field `k`
  | downgradeField (k : Nat)     -- only inside a destructor: `Rc::downgrade` of own strong field `k`
  deriving DecidableEq, Repr, Inhabited

/-- the payload stored in an `Rc`: handles it owns and what its destructor does -/
structure Val where
  vid : Nat
  held : List Nat
  weaks : List Nat
  script : List Act
  panics : Bool
  /-- `Clone for Node` copies the payload but none of the handles (so `make_mut`'s clone branch
  really gives up the old allocation's place in its group) -/
  shallow : Bool := false
  deriving DecidableEq, Repr, Inhabited

/-- one `RcBox` allocation -/
structure Obj where
  strong : Strong
  weak : Nat
  links : Option Table        -- `none` = moved out (and dropped)
  value : Option Val          -- `none` = moved out
  freed : Bool
  /-- ghost (read by no branch of the machine, ignored by the driver): the implicit weak reference
  owned by the strong side has not been released yet -/
  implicit : Bool := true
  deriving DecidableEq, Repr, Inhabited

inductive Err
  | fuel
  | dangling (o : Nat)        -- the *program* used a handle whose target is not live (history left the contract)
  | uaf (o : Nat)             -- library access to a released allocation
  | movedLinks (o : Nat)      -- library access to a moved-out link table
  | movedValue (o : Nat)      -- library access to a moved-out value
  | doubleFree (o : Nat)
  | underflow (o : Nat)
  | corrupt (o : Nat)
  | abort
  deriving DecidableEq, Repr, Inhabited

inductive Ev
  | destroyed (vid : Nat)
  | freed (o : Nat)
  | traced (o visited popped : Nat)
  | ret (code : Nat)
  | panicked
  deriving DecidableEq, Repr, Inhabited

/-- control-stack frames -/
inductive Frame
  | rcDrop (o : Nat)                                  -- `<Rc as Drop>::drop` of one handle to `o`
  | weakDrop (o : Nat)                                -- `<Weak as Drop>::drop`
  | dropVal (v : Val)                                 -- `drop(inner)`: destructor, then drop glue
  | script (held weaks : List Nat) (acts : List Act)  -- rest of a running destructor body
  | panic                                             -- the destructor body ends by panicking
  | dropFields (held weaks : List Nat)                -- drop glue of the value's fields
  | finishSingle (o : Nat)                            -- rest of `drop_unreachable*` after `drop(inner)`
  | phase3 (keys : List Nat)                          -- rest of `drop_cycle` after `drop(inners)`
  deriving DecidableEq, Repr, Inhabited

/-- frames that still run while a panic unwinds through them (drop glue); the rest are skipped -/
def Frame.isCleanup : Frame → Bool
  | .dropFields _ _ => true
  | .dropVal _ => true          -- remaining elements of the `inners` vector
  | .rcDrop _ => true           -- remaining fields being dropped
  | .weakDrop _ => true
  | _ => false

structure State where
  heap : List Obj := []
  roots : List Nat := []
  wroots : List Nat := []
  vals : List Val := []
  raws : List Nat := []
  stack : List Frame := []
  log : List Ev := []
  err : Option Err := none
  unwinding : Bool := false
  hint : List Nat := []
  nextVid : Nat := 0
  deriving Repr, Inhabited

namespace State

def fail (s : State) (e : Err) : State :=
  match s.err with
  | some _ => s
  | none => { s with err := some e }

def emit (s : State) (e : Ev) : State := { s with log := s.log ++ [e] }

def push (s : State) (fs : List Frame) : State := { s with stack := fs ++ s.stack }

def setObj (s : State) (o : Nat) (ob : Obj) : State := { s with heap := s.heap.set o ob }

/-- the allocation, if the library may still touch its counter cells -/
def cell (s : State) (o : Nat) : Option Obj :=
  match s.heap[o]? with
  | some ob => if ob.freed then none else some ob
  | none => none

/-- strong cell as seen by code that may legitimately read it -/
def strongOf (s : State) (o : Nat) : Strong :=
  match s.heap[o]? with
  | some ob => ob.strong
  | none => .uninit

/-- "the program may use a handle to `o`": allocated, not released, strong count positive -/
def isLive (s : State) (o : Nat) : Bool :=
  match s.heap[o]? with
  | some ob => !ob.freed && !ob.strong.isDead
  | none => false

end State

/-- `l[i % l.length]`, `none` on the empty list -/
def nthMod (l : List α) (i : Nat) : Option α :=
  match l with
  | [] => none
  | _ :: _ => l[i % l.length]?

def idxMod (l : List α) (i : Nat) : Nat := i % l.length

end Cactus
