/-!
# Link tables (`src/link.rs`)

`Links<T>` is a hash map `Link{ptr, kind} ↦ count`.  In the model a table is an association
list; iteration order is list order (the op `shuffle` and the `hint` of an operation make every
order reachable, see DESIGN §4.3).  This file is import-free so the driver links as a `lean_exe`.
-/
namespace Cactus

/-- `link::Kind` -/
inductive Kind | fwd | bwd | loop
  deriving DecidableEq, Repr, Inhabited

/-- `link::Link<T>`: allocation identity (here: heap index) plus kind. -/
structure Link where
  ptr : Nat
  kind : Kind
  deriving DecidableEq, Repr, Inhabited

/-- `Links<T>::registry` -/
abbrev Table := List (Link × Nat)

namespace Table

/-- count recorded for `l` (0 if absent) -/
def get : Table → Link → Nat
  | [], _ => 0
  | (k, c) :: r, l => if k = l then c else get r l

/-- `Links::insert`: `*entry(other).or_insert(0) += 1` -/
def insert : Table → Link → Table
  | [], l => [(l, 1)]
  | (k, c) :: r, l => if k = l then (k, c + 1) :: r else (k, c) :: insert r l

/-- `Links::remove(other, strong)`: saturating subtraction; the entry is deleted when the
remaining count would be zero (link.rs:49-57). -/
def remove : Table → Link → Nat → Table
  | [], _, _ => []
  | (k, c) :: r, l, n =>
    if k = l then (if n < c then (k, c - n) :: r else r) else (k, c) :: remove r l n

/-- keys are pairwise distinct and every stored count is positive -/
def WF (t : Table) : Prop := (t.map (·.1)).Nodup ∧ ∀ e ∈ t, 0 < e.2

/-- swap the entries at positions `i`, `i+1` (layout perturbation; no Rust counterpart) -/
def swapAt : Table → Nat → Table
  | a :: b :: r, 0 => b :: a :: r
  | a :: r, i + 1 => a :: swapAt r i
  | t, _ => t

end Table
end Cactus
