import Cactus.Model.Trace
/-!
# Library operations and the small-step machine

Each function names the Rust code it mirrors.  The model describes the tree *after* the
`fix:` commits F1 (drop.rs phase 1 decrements by the cycle-owned count), F2 (Loopback inert in
`cycle_refs`) and F3a/F3b (`try_unwrap` / `make_mut` purge peers and drop the table).
-/
namespace Cactus
namespace State

/-- which error a failed table access is -/
def linksErr (s : State) (o : Nat) : Err :=
  match s.cell o with
  | some _ => .movedLinks o
  | none => .uaf o

/-- `links().borrow_mut()` followed by an update -/
def setLinks (s : State) (o : Nat) (f : Table → Table) : State :=
  match s.cell o with
  | some ob =>
    match ob.links with
    | some t => s.setObj o { ob with links := some (f t) }
    | none => s.fail (.movedLinks o)
  | none => s.fail (.uaf o)

def setStrong (s : State) (o : Nat) (st : Strong) : State :=
  match s.cell o with
  | some ob => s.setObj o { ob with strong := st }
  | none => s.fail (.uaf o)

/-- `inc_strong` (rc.rs:1782): aborts on 0 and on the sentinel -/
def incStrong (s : State) (o : Nat) : State :=
  match s.cell o with
  | some ob =>
    match ob.strong with
    | .cnt (n + 1) => s.setObj o { ob with strong := .cnt (n + 2) }
    | _ => s.fail .abort
  | none => s.fail (.uaf o)

/-- `inc_weak` (rc.rs:1812): aborts on 0 -/
def incWeak (s : State) (o : Nat) : State :=
  match s.cell o with
  | some ob => if ob.weak = 0 then s.fail .abort else s.setObj o { ob with weak := ob.weak + 1 }
  | none => s.fail (.uaf o)

/-- `dec_weak(); if weak() == 0 { deallocate }` (rc.rs:1698-1708, drop.rs:206-213 &c.);
`imp` says that the reference being released is the implicit one (ghost bookkeeping only) -/
def decWeakFree (s : State) (o : Nat) (imp : Bool := false) : State :=
  match s.cell o with
  | some ob =>
    match ob.weak with
    | 0 => s.fail (.underflow o)
    | 1 => (s.setObj o { ob with weak := 0, freed := true, implicit := ob.implicit && !imp }).emit (.freed o)
    | w + 2 => s.setObj o { ob with weak := w + 1, implicit := ob.implicit && !imp }
  | none => s.fail (.uaf o)

/-- `adopt_unchecked(this, other)`, adopt.rs:136-166 -/
def adopt (s : State) (a b : Nat) (same : Bool) : State :=
  if same then s.setLinks a (·.insert ⟨a, .loop⟩)
  else (s.setLinks a (·.insert ⟨b, .fwd⟩)).setLinks b (·.insert ⟨a, .bwd⟩)

/-- `unadopt(this, other)`, adopt.rs:217-247 -/
def unadopt (s : State) (a b : Nat) (same : Bool) : State :=
  if same then s.setLinks a (·.remove ⟨a, .loop⟩ 1)
  else (s.setLinks a (·.remove ⟨b, .fwd⟩ 1)).setLinks b (·.remove ⟨a, .bwd⟩ 1)

/-- one iteration of the purge loop, drop.rs:376-393 -/
def purgeOne (x : Nat) (s : State) (e : Link × Nat) : State :=
  if e.1.ptr = x then s
  else s.setLinks e.1.ptr (fun t => (t.remove ⟨x, .fwd⟩ e.2).remove ⟨x, .bwd⟩ e.2)

/-- the purge loop over `x`'s own table followed by `links.borrow_mut().clear()` -/
def purgePeers (s : State) (x : Nat) : State :=
  match s.tableOf x with
  | some t => (t.foldl (purgeOne x) s).setLinks x (fun _ => [])
  | none => s.fail (s.linksErr x)

/-- `make_uninit` + `mem::replace(value)`: the common prefix of `drop_unreachable*`
(drop.rs:186-196, 401-414); pushes the destructor and the rest of the function -/
def beginSingle (s : State) (o : Nat) : State :=
  match s.cell o with
  | some ob =>
    match ob.strong with
    | .uninit => s.decWeakFree o true
    | .cnt _ =>
      match ob.value with
      | some v => (s.setObj o { ob with strong := .uninit, value := none }).push [.dropVal v, .finishSingle o]
      | none => s.fail (.movedValue o)
  | none => s.fail (.uaf o)

/-- rest of `drop_unreachable*`: move the table out and drop it, release the implicit weak -/
def finishSingle (s : State) (o : Nat) : State :=
  match s.cell o with
  | some ob =>
    match ob.links with
    | some _ => (s.setObj o { ob with links := none }).decWeakFree o true
    | none => s.fail (.movedLinks o)
  | none => s.fail (.uaf o)

/-- phase 1 of `drop_cycle` for one key (drop.rs:224-267 with F1): extract the intra-group
Forward entries, decrement `strong` by the cycle-owned count -/
def phase1One (keys : List Nat) (s : State) (e : Nat × Nat) : State :=
  match s.cell e.1 with
  | some ob =>
    match ob.links, ob.strong with
    | some t, .cnt st =>
      s.setObj e.1 { ob with
        links := some (t.filter (fun x => !(x.1.kind == .fwd && keys.contains x.1.ptr))),
        strong := .cnt (st - min e.2 st) }
    | some _, .uninit => s.fail (.corrupt e.1)
    | none, _ => s.fail (.movedLinks e.1)
  | none => s.fail (.uaf e.1)

/-- phase 2 for one key (drop.rs:270-296): dead members are marked uninit and their value and
table moved out -/
def phase2One (acc : State × List Val) (k : Nat) : State × List Val :=
  match acc.1.cell k with
  | some ob =>
    match ob.strong with
    | .cnt 0 =>
      match ob.value with
      | some v => (acc.1.setObj k { ob with strong := .uninit, value := none, links := none }, acc.2 ++ [v])
      | none => (acc.1.fail (.movedValue k), acc.2)
    | _ => acc
  | none => (acc.1.fail (.uaf k), acc.2)

/-- phase 3 for one key (drop.rs:316-338) -/
def phase3One (s : State) (k : Nat) : State :=
  match s.cell k with
  | some ob => if ob.strong.isDead then s.decWeakFree k true else s
  | none => s.fail (.uaf k)

end State

/-- order in which the group's values are destroyed: the iteration order of the cycle map, i.e.
arbitrary; the per-operation `hint` (a list of `vid`s) selects it -/
def reorder : List Nat → List Val → List Val
  | [], vs => vs
  | h :: hs, vs =>
    match vs.findIdx? (fun v => v.vid = h) with
    | some i =>
      match vs[i]? with
      | some v => v :: reorder hs (vs.eraseIdx i)
      | none => reorder hs vs
    | none => reorder hs vs

namespace State

/-- `drop_cycle`, drop.rs:216-339 -/
def dropCycle (s : State) (c : CMap) : State :=
  let s1 := c.foldl (phase1One c.keys) s
  let r := c.keys.foldl phase2One (s1, [])
  r.1.push ((reorder s.hint r.2).map Frame.dropVal ++ [.phase3 c.keys])

/-- `<Rc as Drop>::drop`, drop.rs:116-157 -/
def rcDrop (s : State) (o : Nat) : State :=
  match s.cell o with
  | none => s.fail (.uaf o)
  | some ob =>
    match ob.strong with
    | .uninit => s
    | .cnt 0 => s
    | .cnt (n + 1) =>
      match ob.links with
      | none => s.fail (.movedLinks o)
      | some t =>
        let s1 := s.setObj o { ob with strong := .cnt n }
        if t.isEmpty then
          (if n = 0 then s1.beginSingle o else s1)
        else if n = 0 then
          (s1.purgePeers o).beginSingle o
        else
          let tr := cycleRefs s1 o
          let s2 := s1.emit (.traced o tr.visited.length tr.popped)
          match tr.bad with
          | some b => s2.fail (s2.linksErr b)
          | none =>
            if tr.outOfFuel then s2.fail .fuel
            else if tr.cmap.isEmpty then s2
            else
              match firstUnreadable s2 tr.cmap with
              | some b => s2.fail (.uaf b)
              | none => if hasExternalOwners s2 tr.cmap then s2 else s2.dropCycle tr.cmap

/-- start destroying a moved-out value: the destructor logs, runs its script, possibly
panics; then drop glue drops the fields in declaration order -/
def dropVal (s : State) (v : Val) : State :=
  (s.emit (.destroyed v.vid)).push
    ([.script v.held v.weaks v.script] ++ (if v.panics then [.panic] else []) ++ [.dropFields v.held v.weaks])

/-- a destructor panics: abort if already unwinding, else unwind (skip every non-cleanup frame) -/
def panic (s : State) : State :=
  if s.unwinding then s.fail .abort
  else { s with unwinding := true, stack := s.stack.filter Frame.isCleanup }

def dropFields (s : State) : List Nat → List Nat → State
  | h :: hs, ws => s.push [.rcDrop h, .dropFields hs ws]
  | [], w :: ws => s.push [.weakDrop w, .dropFields [] ws]
  | [], [] => s

/-- `Weak::drop` -/
def weakDrop (s : State) (o : Nat) : State := s.decWeakFree o

def modVal (s : State) (o : Nat) (f : Val → Val) : State :=
  match s.cell o with
  | some ob =>
    match ob.value with
    | some v => s.setObj o { ob with value := some (f v) }
    | none => s.fail (.movedValue o)
  | none => s.fail (.uaf o)

def valOf (s : State) (o : Nat) : Option Val :=
  match s.cell o with
  | some ob => ob.value
  | none => none

/-- a fresh allocation holding `v` (`Rc::new`) -/
def alloc (s : State) (v : Val) : State :=
  { s with heap := s.heap ++ [{ strong := .cnt 1, weak := 1, links := some [], value := some v, freed := false }] }

/-- `Clone for Node`: clone every stored handle, fresh `vid` -/
def cloneHandles (s : State) (v : Val) : State :=
  v.weaks.foldl incWeak (v.held.foldl incStrong s)

/-- give up allocation `o` whose value has been moved/copied out by `try_unwrap`/`make_mut`
(F3): purge peers, drop the table, `dec_strong`, release the implicit weak -/
def giveUp (s : State) (o : Nat) : State :=
  match (s.purgePeers o).cell o with
  | some ob =>
    ((s.purgePeers o).setObj o { ob with strong := .cnt 0, value := none, links := none }).decWeakFree o true
  | none => (s.purgePeers o).fail (.uaf o)

end State

/-- the handle table entry must designate a live object, else the *history* is outside the
contract (it would be undefined behaviour to run it on the implementation) -/
def State.useRoot (s : State) (r : Nat) : Option Nat :=
  match nthMod s.roots r with
  | some o => if s.isLive o then some o else none
  | none => none

def State.badRoot (s : State) (r : Nat) : State :=
  match nthMod s.roots r with
  | some o => if s.isLive o then s else s.fail (.dangling o)
  | none => s

def retBool (b : Bool) : Ev := .ret (if b then 1 else 0)

/-- execute one user-level action (top level or from inside a destructor); `fh`/`fw` are the
fields of the value whose destructor is running (empty at top level) -/
def applyAct (s : State) (fh fw : List Nat) : Act → State
  | .new =>
    let v : Val := { vid := s.nextVid, held := [], weaks := [], script := [], panics := false }
    let s1 := s.alloc v
    { s1 with roots := s1.roots ++ [s.heap.length], nextVid := s.nextVid + 1 }
  | .clone r =>
    match s.useRoot r with
    | some o => let s1 := s.incStrong o; { s1 with roots := s1.roots ++ [o] }
    | none => s.badRoot r
  | .drop r =>
    match s.useRoot r with
    | some o => { s with roots := s.roots.eraseIdx (idxMod s.roots r) }.push [.rcDrop o]
    | none => s.badRoot r
  | .adopt r1 r2 =>
    match s.useRoot r1, s.useRoot r2 with
    | some a, some b => s.adopt a b (idxMod s.roots r1 = idxMod s.roots r2)
    | _, _ => (s.badRoot r1).badRoot r2
  | .unadopt r1 r2 =>
    match s.useRoot r1, s.useRoot r2 with
    | some a, some b => s.unadopt a b (idxMod s.roots r1 = idxMod s.roots r2)
    | _, _ => (s.badRoot r1).badRoot r2
  | .store r q =>
    match s.useRoot r, s.useRoot q with
    | some t, some o =>
      if idxMod s.roots r = idxMod s.roots q then s
      else { s with roots := s.roots.eraseIdx (idxMod s.roots r) }.modVal o (fun v => { v with held := v.held ++ [t] })
    | _, _ => (s.badRoot r).badRoot q
  | .take q k =>
    match s.useRoot q with
    | some o =>
      match s.valOf o with
      | some v =>
        match nthMod v.held k with
        | some t =>
          let s1 := s.modVal o (fun v => { v with held := v.held.eraseIdx (idxMod v.held k) })
          { s1 with roots := s1.roots ++ [t] }
        | none => s
      | none => s.fail (.movedValue o)
    | none => s.badRoot q
  | .link r q =>
    match s.useRoot r, s.useRoot q with
    | some t, some o =>
      if idxMod s.roots r = idxMod s.roots q then s
      else
        let s1 := s.adopt o t false
        { s1 with roots := s1.roots.eraseIdx (idxMod s.roots r) }.modVal o (fun v => { v with held := v.held ++ [t] })
    | _, _ => (s.badRoot r).badRoot q
  | .unlink q k =>
    match s.useRoot q with
    | some o =>
      match s.valOf o with
      | some v =>
        match nthMod v.held k with
        | some t =>
          let s1 := s.modVal o (fun v => { v with held := v.held.eraseIdx (idxMod v.held k) })
          let s2 := if s1.isLive t then s1.unadopt o t false else s1.fail (.dangling t)
          { s2 with roots := s2.roots ++ [t] }
        | none => s
      | none => s.fail (.movedValue o)
    | none => s.badRoot q
  | .downgrade r =>
    match s.useRoot r with
    | some o => let s1 := s.incWeak o; { s1 with wroots := s1.wroots ++ [o] }
    | none => s.badRoot r
  | .upgrade w =>
    match nthMod s.wroots w with
    | some o =>
      match s.cell o with
      | some ob =>
        if ob.strong.isDead then s.emit (retBool false)
        else let s1 := (s.incStrong o).emit (retBool true); { s1 with roots := s1.roots ++ [o] }
      | none => s.fail (.uaf o)
    | none => s
  | .cloneWeak w =>
    match nthMod s.wroots w with
    | some o => let s1 := s.incWeak o; { s1 with wroots := s1.wroots ++ [o] }
    | none => s
  | .dropWeak w =>
    match nthMod s.wroots w with
    | some o => { s with wroots := s.wroots.eraseIdx (idxMod s.wroots w) }.push [.weakDrop o]
    | none => s
  | .storeWeak w q =>
    match nthMod s.wroots w, s.useRoot q with
    | some t, some o =>
      { s with wroots := s.wroots.eraseIdx (idxMod s.wroots w) }.modVal o (fun v => { v with weaks := v.weaks ++ [t] })
    | some _, none => s.badRoot q
    | none, _ => s
  | .tryUnwrap r =>
    match s.useRoot r with
    | some o =>
      match s.cell o with
      | some ob =>
        match ob.strong, ob.value with
        | .cnt 1, some v =>
          let s1 := ({ s with roots := s.roots.eraseIdx (idxMod s.roots r), vals := s.vals ++ [v] }).giveUp o
          s1.emit (retBool true)
        | .cnt 1, none => s.fail (.movedValue o)
        | _, _ => s.emit (retBool false)
      | none => s.fail (.uaf o)
    | none => s.badRoot r
  | .dropValue i =>
    match nthMod s.vals i with
    | some v => { s with vals := s.vals.eraseIdx (idxMod s.vals i) }.push [.dropVal v]
    | none => s
  | .makeMut r =>
    match s.useRoot r with
    | some o =>
      match s.cell o with
      | some ob =>
        match ob.value with
        | some v =>
          if ob.strong ≠ .cnt 1 then
            -- clone the data into a fresh allocation, then `*this = rc` drops the old handle
            let v' : Val := if v.shallow then { v with vid := s.nextVid, held := [], weaks := [] }
                            else { v with vid := s.nextVid }
            let s1 := (if v.shallow then s else s.cloneHandles v).alloc v'
            ({ s1 with roots := s1.roots.set (idxMod s.roots r) s.heap.length, nextVid := s.nextVid + 1 }.emit (.ret 2)).push [.rcDrop o]
          else if ob.weak ≠ 1 then
            -- steal: move the value to a fresh allocation, give the old one up to its Weaks
            let s1 := (s.alloc v)
            ({ s1 with roots := s1.roots.set (idxMod s.roots r) s.heap.length }.giveUp o).emit (.ret 1)
          else s.emit (.ret 0)
        | none => s.fail (.movedValue o)
      | none => s.fail (.uaf o)
    | none => s.badRoot r
  | .getMut r =>
    match s.useRoot r with
    | some o =>
      match s.cell o with
      | some ob => s.emit (retBool (ob.strong = .cnt 1 && ob.weak = 1))
      | none => s.fail (.uaf o)
    | none => s.badRoot r
  | .intoRaw r =>
    match s.useRoot r with
    | some o => { s with roots := s.roots.eraseIdx (idxMod s.roots r), raws := s.raws ++ [o] }
    | none => s.badRoot r
  | .fromRaw i =>
    match nthMod s.raws i with
    | some o => { s with raws := s.raws.eraseIdx (idxMod s.raws i), roots := s.roots ++ [o] }
    | none => s
  | .incStrong i =>
    match nthMod s.raws i with
    | some o => if s.isLive o then let s1 := s.incStrong o; { s1 with raws := s1.raws ++ [o] } else s.fail (.dangling o)
    | none => s
  | .decStrong i =>
    match nthMod s.raws i with
    | some o =>
      if s.isLive o then { s with raws := s.raws.eraseIdx (idxMod s.raws i) }.push [.rcDrop o]
      else s.fail (.dangling o)
    | none => s
  | .ptrEq r1 r2 =>
    match s.useRoot r1, s.useRoot r2 with
    | some a, some b => s.emit (retBool (a = b))
    | _, _ => (s.badRoot r1).badRoot r2
  | .counts r =>
    match s.useRoot r with
    | some o =>
      match s.cell o with
      | some ob => (s.emit (.ret (match ob.strong with | .cnt n => n | .uninit => 0))).emit (.ret (ob.weak - 1))
      | none => s.fail (.uaf o)
    | none => s.badRoot r
  | .wcounts w =>
    match nthMod s.wroots w with
    | some o =>
      match s.cell o with
      | some ob =>
        match ob.strong with
        | .uninit => (s.emit (.ret 0)).emit (.ret 0)
        | .cnt 0 => (s.emit (.ret 0)).emit (.ret 0)
        | .cnt (n + 1) => (s.emit (.ret (n + 1))).emit (.ret (ob.weak - 1))
      | none => s.fail (.uaf o)
    | none => s
  | .setPanic q =>
    match s.useRoot q with
    | some o => s.modVal o (fun v => { v with panics := true })
    | none => s.badRoot q
  | .setShallow q =>
    match s.useRoot q with
    | some o => s.modVal o (fun v => { v with shallow := true })
    | none => s.badRoot q
  | .upgradeField k =>
    match nthMod fw k with
    | some o =>
      match s.cell o with
      | some ob =>
        if ob.strong.isDead then s.emit (retBool false)
        else let s1 := (s.incStrong o).emit (retBool true); { s1 with roots := s1.roots ++ [o] }
      | none => s.fail (.uaf o)
    | none => s
  | .cloneField k =>
    match nthMod fh k with
    | some o => let s1 := s.incStrong o; { s1 with roots := s1.roots ++ [o] }
    | none => s
  | .downgradeField k =>
    -- `Rc::downgrade(&self.out[k])`: allowed on a handle to an already destroyed peer; the new
    -- Weak keeps the peer's bare allocation alive past the end of the collection
    match nthMod fh k with
    | some o => let s1 := s.incWeak o; { s1 with wroots := s1.wroots ++ [o] }
    | none => s

/-- the history alphabet -/
inductive Op
  | act (a : Act)
  | setScript (q : Nat) (acts : List Act)
  | shuffle (q i : Nat)
  deriving DecidableEq, Repr, Inhabited

/-- one machine step: pop the top frame and run it -/
def step (s : State) : State :=
  match s.err with
  | some _ => s
  | none =>
    match s.stack with
    | [] => s
    | f :: rest =>
      let s0 := { s with stack := rest }
      match f with
      | .rcDrop o => s0.rcDrop o
      | .weakDrop o => s0.weakDrop o
      | .dropVal v => s0.dropVal v
      | .script _ _ [] => s0
      | .script h w (a :: as) => applyAct (s0.push [.script h w as]) h w a
      | .panic => s0.panic
      | .dropFields h w => s0.dropFields h w
      | .finishSingle o => s0.finishSingle o
      | .phase3 ks => ks.foldl State.phase3One s0

/-- run until the control stack is empty (or fuel runs out) -/
def drain : Nat → State → State
  | 0, s => match s.stack with | [] => s | _ :: _ => s.fail .fuel
  | f + 1, s =>
    match s.err, s.stack with
    | none, _ :: _ => drain f (step s)
    | _, _ => s

/-- apply a top-level operation to a quiescent state -/
def applyOp (s : State) : Op → State
  | .act a => applyAct s [] [] a
  | .setScript q acts =>
    match s.useRoot q with
    | some o => s.modVal o (fun v => { v with script := acts })
    | none => s.badRoot q
  | .shuffle q i =>
    match s.useRoot q with
    | some o => s.setLinks o (·.swapAt i)
    | none => s.badRoot q

/-- `catch_unwind` at the operation boundary -/
def endOp (s : State) : State :=
  if s.unwinding then { s with unwinding := false }.emit .panicked else s

/-- one operation of a history, with the layout hint for the collections it triggers -/
def execOp (fuel : Nat) (s : State) (op : Op) (hint : List Nat) : State :=
  match s.err with
  | some _ => s
  | none => endOp (drain fuel (applyOp { s with hint := hint } op))

def defaultFuel : Nat := 1000000

def run (ops : List (Op × List Nat)) : State :=
  ops.foldl (fun s oh => execOp defaultFuel s oh.1 oh.2) {}

end Cactus
