import Cactus.Model.Step
namespace Cactus.Driver
open Cactus

def parseNat? (s : String) : Option Nat := s.toNat?

def parseAct (ws : List String) : Option Act :=
  match ws with
  | ["new"] => some .new
  | ["clone", a] => a.toNat?.map .clone
  | ["drop", a] => a.toNat?.map .drop
  | ["adopt", a, b] => do some (.adopt (← a.toNat?) (← b.toNat?))
  | ["unadopt", a, b] => do some (.unadopt (← a.toNat?) (← b.toNat?))
  | ["store", a, b] => do some (.store (← a.toNat?) (← b.toNat?))
  | ["take", a, b] => do some (.take (← a.toNat?) (← b.toNat?))
  | ["link", a, b] => do some (.link (← a.toNat?) (← b.toNat?))
  | ["unlink", a, b] => do some (.unlink (← a.toNat?) (← b.toNat?))
  | ["downgrade", a] => a.toNat?.map .downgrade
  | ["upgrade", a] => a.toNat?.map .upgrade
  | ["cloneWeak", a] => a.toNat?.map .cloneWeak
  | ["dropWeak", a] => a.toNat?.map .dropWeak
  | ["storeWeak", a, b] => do some (.storeWeak (← a.toNat?) (← b.toNat?))
  | ["tryUnwrap", a] => a.toNat?.map .tryUnwrap
  | ["dropValue", a] => a.toNat?.map .dropValue
  | ["makeMut", a] => a.toNat?.map .makeMut
  | ["getMut", a] => a.toNat?.map .getMut
  | ["intoRaw", a] => a.toNat?.map .intoRaw
  | ["fromRaw", a] => a.toNat?.map .fromRaw
  | ["incStrong", a] => a.toNat?.map .incStrong
  | ["decStrong", a] => a.toNat?.map .decStrong
  | ["ptrEq", a, b] => do some (.ptrEq (← a.toNat?) (← b.toNat?))
  | ["counts", a] => a.toNat?.map .counts
  | ["wcounts", a] => a.toNat?.map .wcounts
  | ["setPanic", a] => a.toNat?.map .setPanic
  | ["setShallow", a] => a.toNat?.map .setShallow
  | ["upgradeField", a] => a.toNat?.map .upgradeField
  | ["cloneField", a] => a.toNat?.map .cloneField
  | ["downgradeField", a] => a.toNat?.map .downgradeField
  | _ => none

/-- script syntax: actions separated by `;` -/
def parseScript (s : String) : Option (List Act) :=
  let parts := (s.splitOn ";").map (fun p => (p.trimAscii.toString.splitOn " ").filter (· ≠ ""))
  (parts.filter (· ≠ [])).mapM parseAct

def parseOp (line : String) : Option Op :=
  let ws := (line.trimAscii.toString.splitOn " ").filter (· ≠ "")
  match ws with
  | "setScript" :: q :: rest =>
    do some (.setScript (← q.toNat?) (← parseScript (" ".intercalate rest)))
  | ["shuffle", a, b] => do some (.shuffle (← a.toNat?) (← b.toNat?))
  | _ => (parseAct ws).map .act

def actText : Act → String
  | .new => "new"
  | .clone a => s!"clone {a}"
  | .drop a => s!"drop {a}"
  | .adopt a b => s!"adopt {a} {b}"
  | .unadopt a b => s!"unadopt {a} {b}"
  | .store a b => s!"store {a} {b}"
  | .take a b => s!"take {a} {b}"
  | .link a b => s!"link {a} {b}"
  | .unlink a b => s!"unlink {a} {b}"
  | .downgrade a => s!"downgrade {a}"
  | .upgrade a => s!"upgrade {a}"
  | .cloneWeak a => s!"cloneWeak {a}"
  | .dropWeak a => s!"dropWeak {a}"
  | .storeWeak a b => s!"storeWeak {a} {b}"
  | .tryUnwrap a => s!"tryUnwrap {a}"
  | .dropValue a => s!"dropValue {a}"
  | .makeMut a => s!"makeMut {a}"
  | .getMut a => s!"getMut {a}"
  | .intoRaw a => s!"intoRaw {a}"
  | .fromRaw a => s!"fromRaw {a}"
  | .incStrong a => s!"incStrong {a}"
  | .decStrong a => s!"decStrong {a}"
  | .ptrEq a b => s!"ptrEq {a} {b}"
  | .counts a => s!"counts {a}"
  | .wcounts a => s!"wcounts {a}"
  | .setPanic a => s!"setPanic {a}"
  | .setShallow a => s!"setShallow {a}"
  | .upgradeField a => s!"upgradeField {a}"
  | .cloneField a => s!"cloneField {a}"
  | .downgradeField a => s!"downgradeField {a}"

def parseHint (s : String) : List Nat :=
  ((s.trimAscii.toString.splitOn " ").filter (· ≠ "")).filterMap (·.toNat?)

def insertSorted (x : Nat) : List Nat → List Nat
  | [] => [x]
  | y :: r => if x ≤ y then x :: y :: r else y :: insertSorted x r
def sortNats (l : List Nat) : List Nat := l.foldr insertSorted []

def showNats (l : List Nat) : String := ",".intercalate (l.map toString)

def kindCode : Kind → Nat | .fwd => 0 | .bwd => 1 | .loop => 2

def showTable (t : Table) : String :=
  let keys := t.map (fun e => (kindCode e.1.kind * 1000000 + e.1.ptr) * 1000000 + e.2)
  ",".intercalate ((sortNats keys).map (fun k =>
    let c := k % 1000000; let r := k / 1000000
    let kind := r / 1000000; let p := r % 1000000
    (match kind with | 0 => "f" | 1 => "b" | _ => "l") ++ toString p ++ "x" ++ toString c))

def showObj (i : Nat) (ob : Obj) : Option String :=
  if ob.freed then none else
  some (toString i ++ ":" ++
    (match ob.strong with | .cnt n => toString n | .uninit => "U") ++ ":" ++ toString ob.weak ++ ":" ++
    (match ob.strong, ob.links with
      | .cnt (_ + 1), some t => "[" ++ showTable t ++ "]"
      | _, _ => "-"))

def showErr : Option Err → String
  | none => "-"
  | some .fuel => "fuel"
  | some (.dangling o) => s!"dangling{o}"
  | some (.uaf o) => s!"uaf{o}"
  | some (.movedLinks o) => s!"movedLinks{o}"
  | some (.movedValue o) => s!"movedValue{o}"
  | some (.doubleFree o) => s!"doubleFree{o}"
  | some (.underflow o) => s!"underflow{o}"
  | some (.corrupt o) => s!"corrupt{o}"
  | some .abort => "abort"

def enumFrom (i : Nat) : List α → List (Nat × α)
  | [] => []
  | a :: r => (i, a) :: enumFrom (i + 1) r

/-- canonical observation of what one operation did and of the state it left -/
def observe (before : Nat) (s : State) : String :=
  let evs := s.log.drop before
  let d := evs.filterMap (fun e => match e with | .destroyed v => some v | _ => none)
  let f := evs.filterMap (fun e => match e with | .freed o => some o | _ => none)
  let r := evs.filterMap (fun e => match e with | .ret c => some c | _ => none)
  let p := evs.any (fun e => match e with | .panicked => true | _ => false)
  let tc := evs.filterMap (fun e => match e with | .traced _ v _ => some v | _ => none)
  let tp := evs.filterMap (fun e => match e with | .traced _ _ pp => some pp | _ => none)
  let ts := evs.filterMap (fun e => match e with | .traced o _ _ => some o | _ => none)
  let heap := (enumFrom 0 s.heap).filterMap (fun p => showObj p.1 p.2)
  -- the public count API as seen through every handle the program holds
  let cs := s.roots.map (fun o => match s.cell o with
    | some ob => (match ob.strong with
        | .cnt (n + 1) => s!"{n + 1}/{ob.weak - 1}"
        | _ => "x")
    | none => "x")
  let ws := s.wroots.map (fun o => match s.cell o with
    | some ob => (match ob.strong with
        | .cnt (n + 1) => s!"{n + 1}/{ob.weak - 1}"
        | _ => "0/0")
    | none => "x")
  s!"obs D={showNats (sortNats d)} Dseq={showNats d} F={showNats (sortNats f)} R={showNats r} P={if p then 1 else 0} " ++
  s!"T={tc.length}/{tc.sum}/{tp.sum} Ts={showNats (sortNats ts)} E={showErr s.err} roots={showNats s.roots} wroots={showNats s.wroots} " ++
  s!"vals={showNats (s.vals.map (·.vid))} raws={showNats s.raws} C={",".intercalate cs} W={",".intercalate ws} heap={" ".intercalate heap}"


/-- `makeMutField q k` — `Rc::make_mut(&mut value.held[k])` executed *in place* on a handle stored
inside the value of the object of handle `q` — is not an action of the model: the driver expands it
into the history `take q k ; makeMut <the handle just taken> ; store <it> q` (the harness really runs
it in place and then moves the slot to the end of the field vector, which the library cannot see).
The expansion is faithful unless the stored handle designates the holder itself (the in-place clone
would copy the slot, the expansion would not): that case is a no-op on both sides.  Returns the
state after the expansion. -/
def makeMutField (s : State) (q k : Nat) (hint : List Nat) : State :=
  match s.err with
  | some _ => s
  | none =>
    match s.useRoot q with
    | none => execOp defaultFuel s (.act (.take q k)) hint      -- same `badRoot` handling as `take`
    | some a =>
      match s.valOf a with
      | none => execOp defaultFuel s (.act (.take q k)) hint
      | some v =>
        match nthMod v.held k with
        | none => s
        | some t =>
          if t = a then s
          else
            let qi := idxMod s.roots q
            let s1 := execOp defaultFuel s (.act (.take qi k)) hint
            let l := s1.roots.length - 1
            let s2 := execOp defaultFuel s1 (.act (.makeMut l)) hint
            match s2.err with
            | some _ => s2
            | none => execOp defaultFuel s2 (.act (.store l qi)) hint

/-- `weakRaw w` — `Weak::from_raw(Weak::into_raw(w))` plus `Weak::as_ptr` on a Weak of the program —
is an identity on the handle and touches no counter: not an action of the model, the driver treats the
line as a no-op (the harness runs it and checks the pointer against the object's value address). -/
def isWeakRaw (line : String) : Bool :=
  match (line.trimAscii.toString.splitOn " ").filter (· ≠ "") with
  | ["weakRaw", a] => a.toNat?.isSome
  | _ => false

def parseMakeMutField (line : String) : Option (Nat × Nat) :=
  match (line.trimAscii.toString.splitOn " ").filter (· ≠ "") with
  | ["makeMutField", a, b] => do some ((← a.toNat?), (← b.toNat?))
  | _ => none

end Cactus.Driver
