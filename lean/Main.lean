import Cactus.Driver
open Cactus Cactus.Driver

/-- the pseudo-op `cleanup`: drop everything the program still holds, one op at a time -/
partial def cleanupLoop (out : IO.FS.Stream) (s : State) : IO State := do
  if s.err.isSome then return s
  let next : Option Act :=
    if !s.roots.isEmpty then some (.drop 0)
    else if !s.raws.isEmpty then some (.decStrong 0)
    else if !s.vals.isEmpty then some (.dropValue 0)
    else if !s.wroots.isEmpty then some (.dropWeak 0)
    else none
  match next with
  | none => return s
  | some a =>
    out.putStrLn ("op " ++ actText a)
    let before := s.log.length
    let s' := execOp defaultFuel s (.act a) []
    out.putStrLn (observe before s')
    cleanupLoop out s'

partial def loop (h : IO.FS.Stream) (out : IO.FS.Stream) (s : State) : IO Unit := do
  let line ← h.getLine
  if line.isEmpty then return ()
  let l := line.trimAscii.toString
  if l.isEmpty || l.startsWith "#" then loop h out s
  else if l.startsWith "case" then
    out.putStrLn l
    loop h out {}
  else if l = "cleanup" then
    let s' ← cleanupLoop out s
    loop h out s'
  else if l = "end" then
    out.putStrLn "end"
    loop h out s
  else
    let parts := l.splitOn "|"
    let opS := parts.headD ""
    let hint := parseHint ((parts.drop 1).headD "")
    match parseOp opS with
    | none =>
      match parseMakeMutField opS with
      | some (q, k) =>
        let before := s.log.length
        let s' := makeMutField s q k hint
        out.putStrLn (observe before s')
        loop h out s'
      | none =>
        if isWeakRaw opS then
          out.putStrLn (observe s.log.length s)
          loop h out s
        else
          out.putStrLn "bad-op"
          loop h out s
    | some op =>
      let before := s.log.length
      let s' := execOp defaultFuel s op hint
      out.putStrLn (observe before s')
      loop h out s'

def main : IO Unit := do
  let out ← IO.getStdout
  loop (← IO.getStdin) out {}
  out.flush
