import Cactus.Model.Table
import Cactus.Model.State
import Cactus.Model.Trace
import Cactus.Model.Step
