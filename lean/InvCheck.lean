import Cactus.Spec.Check
import Cactus.Driver
open Cactus Cactus.Driver

/-- run one operation step by step, checking the invariants after every machine step -/
partial def drainChecked (s : State) (pOk : Bool) (acc : List String) (n : Nat) : State × Bool × List String × Nat :=
  match s.err, s.stack with
  | none, _ :: _ =>
    let s' := step s
    let pOk' := pOk && s'.chkP
    let v := s'.violations pOk'
    drainChecked s' pOk' (if v.isEmpty then acc else acc ++ v) (n + 1)
  | _, _ => (s, pOk, acc, n)

partial def loop2 (h : IO.FS.Stream) (out : IO.FS.Stream) (s : State) (pOk : Bool) (name : String)
    (steps : Nat) (bad : Nat) : IO (Nat × Nat) := do
  let line ← h.getLine
  if line.isEmpty then return (steps, bad)
  let l := line.trimAscii.toString
  if l.isEmpty || l.startsWith "#" then loop2 h out s pOk name steps bad
  else if l.startsWith "case" then loop2 h out {} true l steps bad
  else if l = "end" then loop2 h out s pOk name steps bad
  else
    let parts := l.splitOn "|"
    let hint := parseHint ((parts.drop 1).headD "")
    match parseOp (parts.headD "") with
    | none => out.putStrLn s!"bad-op {l}"; loop2 h out s pOk name steps bad
    | some op =>
      if s.err.isSome then loop2 h out s pOk name steps bad else
      let s0 := applyOp { s with hint := hint } op
      let pOk0 := pOk && s0.chkP
      let v0 := s0.violations pOk0
      let (s1, pOk1, v, n) := drainChecked s0 pOk0 v0 0
      let s2 := endOp s1
      if !v.isEmpty then
        out.putStrLn s!"INV-VIOLATION {name} op={l} {v}"
      loop2 h out s2 pOk1 name (steps + n + 1) (bad + (if v.isEmpty then 0 else 1))

def main : IO Unit := do
  let out ← IO.getStdout
  let (steps, bad) ← loop2 (← IO.getStdin) out {} true "" 0 0
  out.putStrLn s!"invcheck steps={steps} violations={bad}"
  out.flush
