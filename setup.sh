#!/bin/sh
# offline build of the whole framework from files on disk
set -e
cd "$(dirname "$0")"
export CARGO_NET_OFFLINE=true
(cd lean && lake build Cactus driver invcheck)
for f in lean/Cactus/Props/C*.lean; do m=$(basename "$f" .lean); (cd lean && lake build "Cactus.Props.$m"); done
(cd harness && cargo +nightly build --release --offline)
echo setup-ok
