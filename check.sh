#!/bin/sh
# usage: ./check.sh <ID> <quick|thorough> [--replay FILE]
cd "$(dirname "$0")" || exit 2
export CARGO_NET_OFFLINE=true
exec python3 tools/check.py "$@"
