#!/bin/sh
# imports a red-team agent worktree (patch.diff + tests/demo_seeded.rs) into /verif/seeded/<id>, removes the worktree, runs seeded_verify.sh
# usage: import_seed.sh <worktree> <seed-id> <property> "<needs>"
wt=$1; id=$2; prop=$3; needs=$4
d=/verif/seeded/$id; mkdir -p $d
cp $wt/patch.diff $d/patch.diff; cp $wt/tests/demo_seeded.rs $d/demo.rs
python3 - "$id" "$prop" "$needs" <<'P'
import json,sys
id,prop,needs=sys.argv[1:4]
json.dump({"id":id,"breaks_property":prop,"needs_to_manifest":needs,"expected_checks":[prop],
 "result":"pending","verified_by":"tools/seeded_verify.sh %s; tools/seeded_run.sh %s %s"%(id,id,prop),"base_commit":"9164e17"},
 open('/verif/seeded/%s/meta.json'%id,'w'),indent=1)
P
git -C /repo worktree remove --force $wt; rm -rf $wt
/verif/tools/seeded_verify.sh $id
