"""History generators.  Every random choice derives from one `random.Random(seed)`.

A case is (name, [op lines]).  Selectors are interpreted modulo the current list length by both
the model and the harness, so any line sequence is a valid history; the generators keep an
*estimate* of the handle table so that most selectors are meaningful.
"""
import itertools
import random


class Est:
    """Estimated program-side handle table (targets by object index)."""

    def __init__(self):
        self.roots = []
        self.wroots = []
        self.nobj = 0
        self.held = {}
        self.ops = []

    def new(self):
        self.ops.append("new")
        self.roots.append(self.nobj)
        self.held[self.nobj] = []
        self.nobj += 1

    def clone(self, i):
        self.ops.append(f"clone {i}")
        if self.roots:
            self.roots.append(self.roots[i % len(self.roots)])

    def drop(self, i):
        self.ops.append(f"drop {i}")
        if self.roots:
            self.roots.pop(i % len(self.roots))

    def _move(self, kind, r, q):
        self.ops.append(f"{kind} {r} {q}")
        if self.roots:
            ri, qi = r % len(self.roots), q % len(self.roots)
            if ri != qi:
                o = self.roots[qi]
                t = self.roots.pop(ri)
                self.held.setdefault(o, []).append(t)

    def link(self, r, q):
        self._move("link", r, q)

    def store(self, r, q):
        self._move("store", r, q)

    def _out(self, kind, q, k):
        self.ops.append(f"{kind} {q} {k}")
        if self.roots:
            o = self.roots[q % len(self.roots)]
            h = self.held.setdefault(o, [])
            if h:
                self.roots.append(h.pop(k % len(h)))

    def unlink(self, q, k):
        self._out("unlink", q, k)

    def take(self, q, k):
        self._out("take", q, k)

    def make_mut_field(self, q, k):
        """`Rc::make_mut` in place on the k-th handle stored in the object of root q (the slot moves to the end)"""
        self.ops.append(f"makeMutField {q} {k}")
        if self.roots:
            o = self.roots[q % len(self.roots)]
            h = self.held.setdefault(o, [])
            if h:
                t = h[k % len(h)]
                if t == o:
                    return
                h.pop(k % len(h))
                shared = self.roots.count(t) + sum(x.count(t) for x in self.held.values()) > 0 or t in self.wroots
                if shared:
                    # cloned or stolen: a fresh allocation (estimate)
                    self.held[self.nobj] = list(self.held.get(t, []))
                    h.append(self.nobj)
                    self.nobj += 1
                else:
                    h.append(t)

    def downgrade(self, r):
        self.ops.append(f"downgrade {r}")
        if self.roots:
            self.wroots.append(self.roots[r % len(self.roots)])

    def upgrade(self, w):
        self.ops.append(f"upgrade {w}")
        if self.wroots:
            self.roots.append(self.wroots[w % len(self.wroots)])

    def drop_weak(self, w):
        self.ops.append(f"dropWeak {w}")
        if self.wroots:
            self.wroots.pop(w % len(self.wroots))

    def raw(self, line):
        self.ops.append(line)

    def find_root(self, obj):
        for i, t in enumerate(self.roots):
            if t == obj:
                return i
        return None

    def edge(self, a, b, recorded=True):
        """object a comes to hold (and, if recorded, adopt) a fresh handle to object b"""
        ia, ib = self.find_root(a), self.find_root(b)
        if ia is None or ib is None:
            return False
        self.clone(ib)
        n = len(self.roots) - 1
        if recorded:
            self.link(n, ia)
        else:
            self.store(n, ia)
        return True


SHAPES = ["ring", "ringtail", "clique", "diamond", "parallel", "selfclone", "random", "chain", "twocycles", "fanin", "none",
          "mutual", "readopt"]


def build_shape(rng, e, shape, k, unrecorded_p=0.0):
    for _ in range(k):
        e.new()
    rec = lambda: rng.random() >= unrecorded_p
    if shape == "ring":
        for i in range(k):
            e.edge(i, (i + 1) % k, rec())
    elif shape == "ringtail":
        r = max(1, k - rng.randint(1, max(1, k - 1)))
        for i in range(r):
            e.edge(i, (i + 1) % r, rec())
        for i in range(r, k):
            e.edge(rng.randrange(i), i, rec())
    elif shape == "clique":
        for i in range(k):
            for j in range(k):
                if i != j:
                    e.edge(i, j, rec())
    elif shape == "diamond":
        if k >= 4:
            for a, b in [(0, 1), (0, 2), (1, 3), (2, 3), (3, 0)]:
                e.edge(a, b, rec())
        else:
            for i in range(k):
                e.edge(i, (i + 1) % k, rec())
    elif shape == "parallel":
        for i in range(k):
            for _ in range(rng.randint(1, 3)):
                e.edge(i, (i + 1) % k, rec())
    elif shape == "selfclone":
        for i in range(k):
            if rng.random() < 0.6:
                e.edge(i, i, rec())
            if rng.random() < 0.7:
                e.edge(i, (i + 1) % k, rec())
    elif shape == "chain":
        for i in range(k - 1):
            e.edge(i, i + 1, rec())
    elif shape == "twocycles":
        for i in range(k):
            e.edge(i, (i + 1) % k, rec())
        if k >= 3:
            e.edge(0, 2, rec())
            e.edge(2, 0, rec())
    elif shape == "fanin":
        # a hub R whose targets all lead back to it, one target X having two in-group owners (R and Q):
        # the order in which R's table is walked decides what the work list looks like
        if k >= 3:
            x = k - 1
            q = k - 2
            for y in range(1, k - 2):
                e.edge(0, y, rec())
                e.edge(y, 0, rec())
            e.edge(0, q, rec())
            e.edge(0, x, rec())
            e.edge(q, x, rec())
            e.edge(x, 0, rec())
        else:
            for i in range(k):
                e.edge(i, (i + 1) % k, rec())
    elif shape == "mutual":
        # neighbours adopting each other with *unequal* multiplicities: each table then holds a Forward and a
        # Backward entry for the same peer with different counts (m39-style dedupe bugs need exactly this)
        if k == 1:
            e.edge(0, 0, rec())
        for i in range(min(k - 1, 2)):
            m, n_ = rng.sample([1, 2, 3], 2)
            for _ in range(m):
                e.edge(i, i + 1, rec())
            for _ in range(n_):
                e.edge(i + 1, i, rec())
    elif shape == "readopt":
        # 0 adopts 1 several times, gives some or all of those handles back (unadopt + take + drop), adopts 1
        # anew, and only then the cycle through 1 is closed: a Forward/Backward pair whose counts went up, down
        # and up again (m94: a back link inserted once + an early return in unadopt let the Forward count drift)
        if k == 1:
            e.edge(0, 0, rec())
        else:
            m = rng.randint(2, 3)
            for _ in range(m):
                e.edge(0, 1, rec())
            for _ in range(rng.randint(1, m)):
                ia = e.find_root(0)
                if ia is None:
                    break
                before = len(e.roots)
                e.unlink(ia, rng.randrange(3))
                if len(e.roots) > before:
                    e.drop(len(e.roots) - 1)
            for _ in range(rng.randint(1, 2)):
                e.edge(0, 1, rec())
            for i in range(1, k):
                e.edge(i, (i + 1) % k, rec())
            if rng.random() < 0.5:
                ia = e.find_root(0)
                if ia is not None:
                    e.drop(ia)
    elif shape == "random":
        for _ in range(rng.randint(1, 2 * k + 1)):
            e.edge(rng.randrange(k), rng.randrange(k), rec())


def mix(rng, e, n, alphabet):
    for _ in range(n):
        nr = max(1, len(e.roots))
        nw = max(1, len(e.wroots))
        op = rng.choice(alphabet)
        r, q = rng.randrange(nr + 1), rng.randrange(nr + 1)
        if op == "clone":
            e.clone(r)
        elif op == "drop":
            e.drop(r)
        elif op == "link":
            e.link(r, q)
        elif op == "store":
            e.store(r, q)
        elif op == "unlink":
            e.unlink(r, rng.randrange(3))
        elif op == "take":
            e.take(r, rng.randrange(3))
        elif op == "makeMutField":
            e.make_mut_field(r, rng.randrange(3))
        elif op == "downgrade":
            e.downgrade(r)
        elif op == "upgrade":
            e.upgrade(rng.randrange(nw + 1))
        elif op == "dropWeak":
            e.drop_weak(rng.randrange(nw + 1))
        elif op == "cloneWeak":
            e.raw(f"cloneWeak {rng.randrange(nw + 1)}")
            if e.wroots:
                e.wroots.append(e.wroots[0])
        elif op == "storeWeak":
            e.raw(f"storeWeak {rng.randrange(nw + 1)} {q}")
            if e.wroots:
                e.wroots.pop()
        elif op == "new":
            e.new()
        elif op == "adoptSame":
            e.raw(f"adopt {r} {r}")
        elif op == "unadoptSame":
            e.raw(f"unadopt {r} {r}")
        elif op in ("adopt", "unadopt", "ptrEq"):
            e.raw(f"{op} {r} {q}")
        elif op == "shuffle":
            e.raw(f"shuffle {r} {rng.randrange(3)}")
        elif op in ("counts", "getMut", "tryUnwrap", "makeMut", "intoRaw", "setPanic"):
            e.raw(f"{op} {r}")
            if op == "intoRaw" and e.roots:
                e.roots.pop(r % len(e.roots))
            if op == "tryUnwrap":
                pass
        elif op in ("fromRaw", "incStrong", "decStrong", "dropValue"):
            e.raw(f"{op} {rng.randrange(3)}")
        elif op == "wcounts":
            e.raw(f"wcounts {rng.randrange(nw + 1)}")
        elif op == "weakRaw":
            e.raw(f"weakRaw {rng.randrange(nw + 1)}")
        else:
            raise ValueError(op)


def drop_all(rng, e, frac=1.0):
    n = len(e.roots)
    for _ in range(int(n * frac) + (1 if frac >= 1.0 else 0)):
        if not e.roots:
            break
        e.drop(rng.randrange(len(e.roots)))


CONTRACT_ALPHA = (
    ["clone"] * 3 + ["drop"] * 5 + ["link"] * 4 + ["unlink"] * 3 + ["downgrade", "upgrade", "dropWeak", "cloneWeak",
    "storeWeak", "counts", "wcounts", "ptrEq", "unadopt", "getMut", "new", "shuffle", "store", "weakRaw"]
)
RAW_ALPHA = CONTRACT_ALPHA + ["adopt"] * 3 + ["adoptSame", "unadoptSame", "take", "take", "store", "unadopt",
                             "tryUnwrap", "makeMut", "downgrade"]
API_ALPHA = ["tryUnwrap"] * 3 + ["makeMut"] * 3 + ["makeMutField"] * 3 + ["getMut", "intoRaw", "intoRaw", "fromRaw", "fromRaw", "incStrong",
             "decStrong", "decStrong", "dropValue", "clone", "drop", "drop", "downgrade", "downgrade", "cloneWeak",
             "dropWeak", "link", "unlink", "counts", "wcounts", "upgrade", "take", "store", "store", "weakRaw", "weakRaw"]
NOADOPT_ALPHA = ["new", "clone", "clone", "drop", "drop", "drop", "store", "store", "take", "downgrade", "downgrade",
                 "upgrade", "upgrade", "cloneWeak", "dropWeak", "dropWeak", "storeWeak", "tryUnwrap", "dropValue",
                 "makeMut", "makeMutField", "makeMutField", "getMut", "intoRaw", "fromRaw", "incStrong", "decStrong", "ptrEq",
                 "counts", "wcounts", "weakRaw"]
SCRIPT_ACTS = ["clone {r}", "drop {r}", "link {r} {q}", "unlink {r} 0", "downgrade {r}", "upgrade {w}", "dropWeak {w}",
               "upgradeField {k}", "downgradeField {k}", "downgradeField {k}", "counts {r}", "unadopt {r} {q}", "wcounts {w}",
               "cloneWeak {w}"]


def stream_contract(seed, n, max_obj=5, max_mix=10, unrecorded_p=0.15):
    rng = random.Random(seed)
    for i in range(n):
        e = Est()
        shape = rng.choice(SHAPES)
        k = rng.randint(1, max_obj)
        build_shape(rng, e, shape, k, unrecorded_p if rng.random() < 0.5 else 0.0)
        if rng.random() < 0.4:
            for _ in range(rng.randint(1, 2)):
                e.downgrade(rng.randrange(max(1, len(e.roots))))
                if rng.random() < 0.4:
                    e.raw(f"storeWeak 0 {rng.randrange(max(1, len(e.roots)))}")
                    if e.wroots:
                        e.wroots.pop(0)
        mix(rng, e, rng.randint(0, max_mix), CONTRACT_ALPHA)
        drop_all(rng, e, 1.0 if rng.random() < 0.8 else 0.5)
        yield (f"contract-{seed}-{i}-{shape}{k}", e.ops)


def stream_raw(seed, n, max_obj=4, max_mix=14):
    rng = random.Random(seed ^ 0x5151)
    for i in range(n):
        e = Est()
        shape = rng.choice(SHAPES)
        k = rng.randint(1, max_obj)
        build_shape(rng, e, shape, k, 0.3)
        mix(rng, e, rng.randint(1, max_mix), RAW_ALPHA)
        drop_all(rng, e, 1.0)
        yield (f"raw-{seed}-{i}-{shape}{k}", e.ops)


def stream_elide(seed, n, max_obj=4, max_mix=8):
    """contract-respecting histories in which some recorded handles are removed with `take`
    (no `unadopt`) and then kept or dropped: the C13 quantifier"""
    rng = random.Random(seed ^ 0xE11D)
    alpha = CONTRACT_ALPHA + ["take"] * 6 + ["tryUnwrap", "makeMut", "downgrade"]
    for i in range(n):
        e = Est()
        shape = rng.choice(SHAPES[:9])
        k = rng.randint(2, max_obj)
        build_shape(rng, e, shape, k, 0.0)
        mix(rng, e, rng.randint(1, max_mix), alpha)
        drop_all(rng, e, 1.0)
        yield (f"elide-{seed}-{i}-{shape}{k}", e.ops)


def stream_api(seed, n, max_obj=4):
    rng = random.Random(seed ^ 0xA91)
    for i in range(n):
        e = Est()
        shape = rng.choice(SHAPES)
        k = rng.randint(1, max_obj)
        build_shape(rng, e, shape, k, 0.1)
        # make some objects uniquely held so that try_unwrap / make_mut take their interesting branches
        for _ in range(rng.randint(0, 2)):
            e.downgrade(rng.randrange(max(1, len(e.roots))))
        mix(rng, e, rng.randint(2, 10), API_ALPHA)
        drop_all(rng, e, 1.0)
        yield (f"api-{seed}-{i}-{shape}{k}", e.ops)


def stream_giveup(seed, n, max_obj=4):
    """C12 quantifier: an object taking part in adoptions (as owner, as target, both, with parallel and unequal
    multiplicities, self-held) is brought down to ONE strong handle held by the program — the stored handles to it
    are taken out of their holders (mostly without `unadopt`) and all but one are dropped — and then given up with
    `tryUnwrap` / `makeMut` (a Weak outstanding or not); afterwards the former peers are used and dropped."""
    rng = random.Random(seed ^ 0x61FE)
    for i in range(n):
        e = Est()
        shape = rng.choice(["mutual", "mutual", "mutual", "parallel", "clique", "selfclone", "random", "ring", "fanin"])
        k = rng.randint(2, max_obj)
        build_shape(rng, e, shape, k, 0.0)
        victim = rng.randrange(k)
        if rng.random() < 0.6:
            iv = e.find_root(victim)
            if iv is not None:
                e.downgrade(iv)
                if rng.random() < 0.3:
                    e.raw(f"storeWeak {len(e.wroots) - 1} {rng.randrange(max(1, len(e.roots)))}")
                    if e.wroots:
                        e.wroots.pop()
        if rng.random() < 0.4:
            # in-place variant: the program drops its own handles to the victim, all stored handles but one are taken
            # out and dropped, and `make_mut` runs on the one that stays stored in its holder (contract intact)
            holders = [h_ for h_ in range(k) if h_ != victim and victim in e.held.get(h_, [])]
            if holders:
                keep = rng.choice(holders)
                for holder in range(k):
                    while e.held.get(holder, []).count(victim) > (1 if holder == keep else 0):
                        ih = e.find_root(holder)
                        if ih is None:
                            break
                        kk = e.held[holder].index(victim)
                        if rng.random() < 0.5:
                            e.take(ih, kk)
                        else:
                            e.unlink(ih, kk)
                while victim in e.roots:
                    e.drop(e.roots.index(victim))
                ih = e.find_root(keep)
                if ih is not None and victim in e.held.get(keep, []):
                    e.make_mut_field(ih, e.held[keep].index(victim))
                mix(rng, e, rng.randint(0, 5), ["counts", "wcounts", "upgrade", "dropWeak", "clone", "drop", "drop", "unlink",
                                               "take", "makeMutField", "shuffle"])
                drop_all(rng, e, 1.0)
                yield (f"giveup-{seed}-{i}-{shape}{k}-inplace", e.ops)
                continue
        # take every stored handle to the victim out of its holders
        for holder in range(k):
            while victim in e.held.get(holder, []):
                ih = e.find_root(holder)
                if ih is None:
                    break
                kk = e.held[holder].index(victim)
                if rng.random() < 0.75:
                    e.take(ih, kk)
                else:
                    e.unlink(ih, kk)
        # keep one program handle to the victim
        while e.roots.count(victim) > 1:
            e.drop(e.roots.index(victim))
        iv = e.find_root(victim)
        if iv is not None:
            e.raw(f"{rng.choice(['tryUnwrap', 'tryUnwrap', 'makeMut', 'makeMut', 'getMut'])} {iv}")
        mix(rng, e, rng.randint(0, 5), ["counts", "wcounts", "upgrade", "dropWeak", "clone", "drop", "drop", "dropValue",
                                       "unlink", "take", "makeMut", "tryUnwrap", "shuffle"])
        drop_all(rng, e, 1.0)
        yield (f"giveup-{seed}-{i}-{shape}{k}", e.ops)


def stream_large(seed, n):
    """fewer but larger histories: 8-24 objects, multiplicities up to 7, hubs with many spokes, tables with dozens of
    entries (hash-map growth, small-size fast paths and thresholds in the library are invisible to the small streams)"""
    rng = random.Random(seed ^ 0x1A46E)
    for i in range(n):
        e = Est()
        kind = rng.choice(["ring", "ringtail", "hub", "multi", "dense", "clique", "twolevel", "mutualbig", "manyhandles",
                           "churn", "hubshrink", "hubshrink", "stardie", "stardie", "multibig", "faninbig", "bigsurv",
                           "weakfields", "nestglue", "nestglue"])
        k = rng.randint(8, 24)
        if kind in ("hubshrink", "stardie"):
            k = rng.randint(10, 32)
        if kind == "nestglue":
            k = 0
        if kind in ("multibig", "weakfields"):
            k = 2
        if kind == "faninbig":
            k = rng.choice([40, 130, 300])
        if kind == "bigsurv":
            k = rng.randint(40, 90)
        if kind in ("manyhandles", "churn"):
            k = rng.randint(2, 3)
        for _ in range(k):
            e.new()
        if kind == "nestglue":
            # a chain of adopted 2-rings, each kept alive only by an UNRECORDED handle stored in a value of the previous
            # ring: dropping the first ring's last outside handle makes every ring become orphaned inside the teardown
            # of the previous one (drop glue, no destructor scripts): collections nested d deep
            d = rng.choice([3, 5, 8, 9, 10, 13, 20])
            heads = []
            for g in range(d):
                e.new(); e.new()
                a, b = e.nobj - 2, e.nobj - 1
                e.edge(a, b); e.edge(b, a)
                heads.append(a)
                e.drop(e.find_root(b))
            for g in range(d - 1):
                e.edge(heads[g], heads[g + 1], recorded=False)
            for g in range(1, d):
                e.drop(e.find_root(heads[g]))
            if rng.random() < 0.5:
                e.downgrade(e.find_root(heads[0]))
            e.drop(e.find_root(heads[0]))
        elif kind == "multibig":
            # one adoption recorded hundreds of times (counts beyond any 8-bit quantity), inside a 2-ring
            for _ in range(rng.choice([130, 260, 300, 400])):
                e.edge(0, 1)
            e.edge(1, 0)
            e.raw("counts 1")
            for _ in range(rng.randint(0, 40)):
                ih = e.find_root(0)
                if ih is not None and e.held.get(0):
                    e.unlink(ih, 0)
                    e.drop(len(e.roots) - 1)
        elif kind == "faninbig":
            # hundreds of owners of one target, the target closing a cycle through one of them
            for j in range(1, k):
                e.edge(j, 0)
            e.edge(0, 1)
            e.raw("counts 0")
            order = list(range(1, k))
            rng.shuffle(order)
            for j in order:
                ij = e.find_root(j)
                if ij is not None:
                    e.drop(ij)
        elif kind == "bigsurv":
            # a big ring one member of which is also adopted by an outside owner the program keeps: dropping the
            # ring's handles must not collect it; then the owner goes
            for j in range(1, k):
                e.edge(j, 1 + (j % (k - 1)))
            e.edge(0, rng.randrange(1, k))
            for _ in range(rng.randint(0, 6)):
                e.edge(rng.randrange(1, k), rng.randrange(1, k))
            for j in range(1, k):
                ij = e.find_root(j)
                if ij is not None:
                    e.drop(ij)
            e.raw("counts 0")
        elif kind == "weakfields":
            # hundreds of Weak handles stored inside one value, and hundreds held by the program
            e.edge(0, 1)
            e.edge(1, 0)
            n_w = rng.choice([60, 300, 400])
            for _ in range(n_w):
                e.downgrade(rng.randrange(2))
                if rng.random() < 0.6:
                    e.raw(f"storeWeak {len(e.wroots) - 1} {rng.randrange(max(1, len(e.roots)))}")
                    if e.wroots:
                        e.wroots.pop()
            e.raw("wcounts 0")
            e.raw("counts 0")
        elif kind == "hubshrink":
            # a table grows to dozens of entries and shrinks again "by the book" while a parallel adoption inside a
            # ring survives (growth / shrink / compaction policies of the table)
            m = rng.randint(2, 4)
            for _ in range(m):
                e.edge(0, 1)
            e.edge(1, 0)
            for j in range(2, k):
                e.edge(0, j)
            keep = rng.randint(0, 3)
            ih = e.find_root(0)
            while ih is not None and len([t for t in e.held.get(0, []) if t >= 2]) > keep:
                kk = next(i_ for i_, t in enumerate(e.held[0]) if t >= 2)
                e.unlink(ih, kk)
                e.drop(len(e.roots) - 1)
                ih = e.find_root(0)
            for j in range(2, k):
                if rng.random() < 0.8:
                    ij = e.find_root(j)
                    if ij is not None:
                        e.drop(ij)
        elif kind == "stardie":
            # an acyclic owner with many adoptees dies on the zero-count path while the adoptees survive; the
            # survivors are then linked into a ring and released
            for j in range(1, k):
                e.edge(0, j)
            if rng.random() < 0.5:
                e.downgrade(e.find_root(0))
            while e.find_root(0) is not None:
                e.drop(e.find_root(0))
            surv = [j for j in range(1, k)]
            for a, b in zip(surv, surv[1:] + surv[:1]):
                e.edge(a, b)
        elif kind == "manyhandles":
            # counts far beyond what the small streams reach (narrow integer types, thresholds on strong/weak)
            for j in range(k):
                e.edge(j, (j + 1) % k)
            n_s = rng.choice([20, 70, 140, 270, 400])
            n_w = rng.choice([0, 20, 140, 270, 400])
            for _ in range(n_s):
                e.clone(0)
            for _ in range(n_w):
                e.downgrade(0)
            e.raw("counts 0")
            e.raw("wcounts 0")
            for _ in range(rng.randint(0, n_w)):
                e.drop_weak(rng.randrange(max(1, len(e.wroots))))
            e.raw("counts 0")
            if rng.random() < 0.5:
                e.raw("wcounts 0")
        elif kind == "churn":
            # the same adoption recorded and undone many times, then a few left in place
            for _ in range(rng.randint(15, 40)):
                e.edge(0, 1)
                ia = e.find_root(0)
                if ia is not None and e.held.get(0):
                    e.unlink(ia, len(e.held[0]) - 1)
                    e.drop(len(e.roots) - 1)
            for _ in range(rng.randint(0, 2)):
                e.edge(0, 1)
            e.edge(1, 0)
        if kind == "ring":
            for j in range(k):
                e.edge(j, (j + 1) % k)
            for _ in range(rng.randint(0, k)):
                e.edge(rng.randrange(k), rng.randrange(k))
        elif kind == "ringtail":
            r = rng.randint(3, k - 2)
            for j in range(r):
                e.edge(j, (j + 1) % r)
            for j in range(r, k):
                e.edge(rng.randrange(j), j)
        elif kind == "hub":
            # one object adopting (and adopted by) many: one table with 2(k-1) entries
            for j in range(1, k):
                e.edge(0, j)
                if rng.random() < 0.7:
                    e.edge(j, 0)
        elif kind == "multi":
            # few objects, large multiplicities
            m = rng.randint(2, 4)
            for a in range(m):
                for _ in range(rng.randint(4, 7)):
                    e.edge(a, (a + 1) % m)
            for _ in range(rng.randint(0, 6)):
                e.edge(rng.randrange(m), rng.randrange(m))
        elif kind == "dense":
            for _ in range(rng.randint(2 * k, 4 * k)):
                e.edge(rng.randrange(k), rng.randrange(k))
        elif kind == "clique":
            c = min(k, rng.randint(5, 9))
            for a in range(c):
                for b in range(c):
                    if a != b:
                        e.edge(a, b)
        elif kind == "twolevel":
            # a ring of hubs, each hub with its own spokes pointing back
            h = rng.randint(3, 5)
            for a in range(h):
                e.edge(a, (a + 1) % h)
            for j in range(h, k):
                a = rng.randrange(h)
                e.edge(a, j)
                e.edge(j, a)
        elif kind == "mutualbig":
            for a in range(0, min(k - 1, 6), 2):
                m1, m2 = rng.sample([1, 2, 4, 5, 6, 7], 2)
                for _ in range(m1):
                    e.edge(a, a + 1)
                for _ in range(m2):
                    e.edge(a + 1, a)
        if rng.random() < 0.5:
            for _ in range(rng.randint(1, 4)):
                e.downgrade(rng.randrange(max(1, len(e.roots))))
        mix(rng, e, rng.randint(0, 30), CONTRACT_ALPHA + ["unlink"] * 4 + ["makeMut", "tryUnwrap", "makeMutField", "take"])
        drop_all(rng, e, 1.0)
        yield (f"large-{seed}-{i}-{kind}{k}", e.ops)


def xl_cases(seed, n):
    """a handful of much bigger histories (thousands of operations): two big cliques hanging off one root; a ring of
    hundreds of objects with an outside owner that is absorbed into the group just before the orphaning drop"""
    rng = random.Random(seed ^ 0x71C)
    for i in range(n):
        e = Est()
        if i % 2 == 0:
            c = rng.randint(45, 50)
            for _ in range(1 + 2 * c):
                e.new()
            for base in (1, 1 + c):
                for a in range(base, base + c):
                    for b in range(base, base + c):
                        if a != b:
                            e.edge(a, b)
            e.edge(0, 1); e.edge(0, 1 + c); e.edge(1, 0); e.edge(1 + c, 0)
            order = list(range(1, 1 + 2 * c))
            rng.shuffle(order)
            for j in order:
                e.drop(e.find_root(j))
            e.raw("counts 0")
            e.drop(e.find_root(0))
            yield (f"large-{seed}-xl{i}-twocliques{c}", e.ops)
        else:
            k = rng.randint(140, 260)
            for _ in range(k + 1):
                e.new()
            # ring 1..k, outside owner 0 adopting member 1
            for j in range(1, k + 1):
                e.edge(j, 1 + (j % k))
            e.edge(0, 1)
            e.clone(e.find_root(1))
            for j in range(2, k + 1):
                e.drop(e.find_root(j))
            # two program handles to member 1 remain, plus the handle to the outside owner
            e.drop(e.find_root(1))          # a fruitless trace from member 1: the group is held through owner 0
            m = rng.randint(2, k)
            e.clone(e.find_root(1)); e.drop(e.find_root(1))
            # the owner is absorbed: member 1 comes to hold (and adopt) the program's only handle to it
            e.link(e.find_root(0), e.find_root(1))
            e.raw(f"counts {e.find_root(1)}")
            e.drop(e.find_root(1))          # orphans ring + owner
            drop_all(rng, e, 1.0)
            yield (f"large-{seed}-xl{i}-absorb{k}-{m}", e.ops)


def stream_noadopt(seed, n, max_ops=24):
    rng = random.Random(seed ^ 0x57D)
    for i in range(n):
        e = Est()
        for _ in range(rng.randint(1, 3)):
            e.new()
        mix(rng, e, rng.randint(3, max_ops), NOADOPT_ALPHA)
        yield (f"noadopt-{seed}-{i}", e.ops)


def rand_script(rng, e, maxlen=3):
    # `makeMut` inside a destructor script can make the teardown diverge (Lean: C03_teardown_can_diverge): user-code
    # recursion that must never be generated
    assert not any(t.startswith("makeMut") for t in SCRIPT_ACTS)
    acts = []
    for _ in range(rng.randint(1, maxlen)):
        t = rng.choice(SCRIPT_ACTS)
        acts.append(t.format(r=rng.randrange(6), q=rng.randrange(6), w=rng.randrange(3), k=rng.randrange(3)))
    return "; ".join(acts)


def stream_script(seed, n, max_obj=4):
    rng = random.Random(seed ^ 0x5C21)
    for i in range(n):
        e = Est()
        shape = rng.choice(SHAPES)
        k = rng.randint(1, max_obj)
        build_shape(rng, e, shape, k, 0.1)
        # weak handles to peers stored inside values, so that upgradeField has something to try
        for _ in range(rng.randint(0, 3)):
            e.downgrade(rng.randrange(max(1, len(e.roots))))
            e.raw(f"storeWeak 0 {rng.randrange(max(1, len(e.roots)))}")
            if e.wroots:
                e.wroots.pop(0)
        # a second, independent group that scripts may orphan (nested collection)
        if rng.random() < 0.5:
            base = e.nobj
            e.new(); e.new()
            e.edge(base, base + 1); e.edge(base + 1, base)
            if rng.random() < 0.5:
                e.downgrade(len(e.roots) - 1)
        for _ in range(rng.randint(1, 3)):
            e.raw(f"setScript {rng.randrange(max(1, len(e.roots)))} {rand_script(rng, e)}")
        mix(rng, e, rng.randint(0, 4), CONTRACT_ALPHA)
        drop_all(rng, e, 1.0)
        yield (f"script-{seed}-{i}-{shape}{k}", e.ops)


def nested_chain_cases(seed, n):
    """C10 at depth: groups G1..Gd, each a self-adopted object (or a 2-ring) whose destructor drops the program's handle
    to the next group: one top-level drop unwinds into d nested collections"""
    rng = random.Random(seed ^ 0xDEE9)
    for i in range(n):
        e = Est()
        d = rng.choice([3, 4, 5, 6, 7, 9, 12, 17, 24])
        two = rng.random() < 0.5
        heads = []
        for g in range(d):
            e.new()
            h = e.nobj - 1
            heads.append(h)
            if two:
                e.new()
                t = e.nobj - 1
                e.edge(h, t)
                e.edge(t, h)
                e.drop(e.find_root(t))
            else:
                e.edge(h, h)
        # roots are now exactly one handle per group, in order; every destructor drops the first remaining root
        for g in range(d - 1):
            ih = e.find_root(heads[g])
            if ih is not None:
                e.raw(f"setScript {ih} drop 0" + ("; counts 0" if rng.random() < 0.3 else ""))
        if rng.random() < 0.5:
            e.downgrade(len(e.roots) - 1)
        e.drop(0)
        drop_all(rng, e, 1.0)
        yield (f"script-{seed}-nest{i}-d{d}", e.ops)


def rescue_cases(seed, n):
    """C10: a dying owner's destructor rescues one of its adoptees (clones its own field into the program); the
    survivor is then linked into a new ring and released — whatever the zero-count purge left behind shows up"""
    rng = random.Random(seed ^ 0x4E5C)
    for i in range(n):
        e = Est()
        extra = rng.randint(0, 2)
        for _ in range(3 + extra):
            e.new()
        e.edge(0, 1)                      # head -> mid
        e.edge(1, 2)                      # mid -> leaf (mid has links of its own)
        for x in range(3, 3 + extra):
            e.edge(0, x) if rng.random() < 0.5 else e.edge(x, 1)
        if rng.random() < 0.5:
            e.downgrade(e.find_root(0))
        e.raw(f"setScript {e.find_root(0)} cloneField {rng.randrange(2)}" + ("; counts 0" if rng.random() < 0.3 else ""))
        for o in (2, 1):
            e.drop(e.find_root(o))
        e.drop(e.find_root(0))            # head dies on the zero-count path; its destructor rescues a field
        # the rescued handle is the last root; take mid's handle to leaf out (with unadopt) and close a ring
        r = len(e.roots)                  # index of the rescued handle (the estimate does not know about it)
        e.raw(f"unlink {r} 0")            # roots: …, mid, leaf
        e.raw(f"clone {r}")               # …, mid, leaf, mid'
        e.raw(f"link {r + 2} {r + 1}")    # leaf adopts mid
        e.raw(f"clone {r + 1}")           # …, mid, leaf, leaf'
        e.raw(f"link {r + 2} {r}")        # mid adopts leaf: a ring
        e.raw(f"counts {r}")
        e.roots = []                      # the estimate is no longer meaningful; cleanup drops whatever is left
        for _ in range(6):
            e.raw("drop 0")
        yield (f"script-{seed}-rescue{i}", e.ops)


def stream_panic(seed, n, max_obj=4):
    rng = random.Random(seed ^ 0x9A71C)
    for i in range(n):
        e = Est()
        shape = rng.choice(SHAPES)
        k = rng.randint(1, max_obj)
        build_shape(rng, e, shape, k, 0.1)
        if rng.random() < 0.5:
            e.downgrade(rng.randrange(max(1, len(e.roots))))
        # survivors that must stay intact: an extra object referenced by a group member
        if rng.random() < 0.5:
            e.new()
            e.edge(rng.randrange(k), e.nobj - 1, rng.random() < 0.5)
        e.raw(f"setPanic {rng.randrange(max(1, len(e.roots)))}")
        if rng.random() < 0.2:
            e.raw(f"setScript {rng.randrange(max(1, len(e.roots)))} {rand_script(rng, e, 2)}")
        mix(rng, e, rng.randint(0, 3), CONTRACT_ALPHA)
        drop_all(rng, e, 1.0)
        yield (f"panic-{seed}-{i}-{shape}{k}", e.ops)


def stream_shallow(seed, n, max_obj=4):
    """`make_mut` on members of adopted groups whose payload clones shallowly (the clone copies no
    handle, so giving up the old handle can orphan the group *inside* make_mut), with and without a
    panicking member destructor; no destructor scripts (the handle is out of the table while
    make_mut runs)"""
    rng = random.Random(seed ^ 0x5A110)
    alpha = ["makeMut"] * 5 + ["clone", "clone", "drop", "drop", "downgrade", "dropWeak", "link", "unlink", "counts",
                               "wcounts", "upgrade", "tryUnwrap", "dropValue", "getMut"]
    for i in range(n):
        e = Est()
        shape = rng.choice(["ring", "ringtail", "clique", "parallel", "selfclone", "twocycles", "diamond", "chain"])
        k = rng.randint(1, max_obj)
        build_shape(rng, e, shape, k, 0.1)
        for _ in range(rng.randint(1, k)):
            e.raw(f"setShallow {rng.randrange(max(1, len(e.roots)))}")
        if rng.random() < 0.5:
            e.raw(f"setPanic {rng.randrange(max(1, len(e.roots)))}")
        if rng.random() < 0.5:
            e.downgrade(rng.randrange(max(1, len(e.roots))))
        # leave few outside handles so that make_mut's internal drop can be the orphaning one
        for _ in range(rng.randint(0, max(0, len(e.roots) - 1))):
            if len(e.roots) > 1:
                e.drop(rng.randrange(len(e.roots)))
        mix(rng, e, rng.randint(1, 6), alpha)
        drop_all(rng, e, 1.0)
        yield (f"shallow-{seed}-{i}-{shape}{k}", e.ops)


def stream_abort(seed, n, max_obj=3):
    """a member destructor clones (abort) or merely drops/upgrades a handle to a dying peer"""
    rng = random.Random(seed ^ 0xAB027)
    for i in range(n):
        e = Est()
        shape = rng.choice(["ring", "clique", "parallel", "twocycles", "selfclone", "ringtail"])
        k = rng.randint(1, max_obj)
        build_shape(rng, e, shape, k, 0.0)
        who = rng.randrange(max(1, len(e.roots)))
        e.raw(f"setScript {who} cloneField {rng.randrange(3)}")
        drop_all(rng, e, 1.0)
        yield (f"abort-{seed}-{i}-{shape}{k}", e.ops)


def exhaustive(nobj, maxmult, with_unrecorded=False, with_same=False, limit=None, rng=None):
    """all adoption multigraphs on `nobj` objects (edge multiplicity ≤ maxmult, self-edges through
    a clone included), every order of dropping the outside handles"""
    pairs = [(a, b) for a in range(nobj) for b in range(nobj)]
    mults = list(itertools.product(range(maxmult + 1), repeat=len(pairs)))
    orders = list(itertools.permutations(range(nobj)))
    cases = []
    for mi, m in enumerate(mults):
        for oi, order in enumerate(orders):
            cases.append((mi, m, oi, order))
    if limit is not None and len(cases) > limit:
        cases = rng.sample(cases, limit)
    for mi, m, oi, order in cases:
        e = Est()
        for _ in range(nobj):
            e.new()
        for (a, b), c in zip(pairs, m):
            for j in range(c):
                e.edge(a, b, not (with_unrecorded and j == 1))
        if with_same:
            e.raw(f"adopt {mi % nobj} {mi % nobj}")
        alive = list(range(nobj))
        for o in order:
            idx = alive.index(o)
            e.drop(idx)
            alive.pop(idx)
        yield (f"exh{nobj}-{mi}-{oi}" + ("u" if with_unrecorded else "") + ("s" if with_same else ""), e.ops)


def exhaustive_elide(nobj=2, maxmult=2):
    """every adoption multigraph on `nobj` objects (multiplicity ≤ maxmult); the program drops its own
    handles to every object but the first, then empties one owner's value with `take` (no `unadopt`)
    taking every stored handle out, drops what it took out in both orders, and finally drops the
    rest: the safe part of C13 (the removed handles are dropped) in all small shapes"""
    pairs = [(a, b) for a in range(nobj) for b in range(nobj)]
    for mi, m in enumerate(itertools.product(range(maxmult + 1), repeat=len(pairs))):
        if sum(m) == 0:
            continue
        for owner in range(nobj):
            nheld = sum(c for (a, b), c in zip(pairs, m) if a == owner)
            if nheld == 0:
                continue
            for keep in range(nobj):
                for rev in (False, True):
                    e = Est()
                    for _ in range(nobj):
                        e.new()
                    for (a, b), c in zip(pairs, m):
                        for _ in range(c):
                            e.edge(a, b, True)
                    # drop the program's handles except to `keep` and to the owner (needed to reach it)
                    for o in range(nobj - 1, -1, -1):
                        if o != keep and o != owner:
                            i = e.find_root(o)
                            if i is not None:
                                e.drop(i)
                    io = e.find_root(owner)
                    if io is None:
                        continue
                    base = len(e.roots)
                    for _ in range(nheld):
                        e.take(io, 0)
                    taken = list(range(base, len(e.roots)))
                    for idx in (reversed(taken) if rev else taken):
                        pass
                    # drop the taken handles (highest index first so indices stay valid, or lowest first)
                    for _ in range(len(taken)):
                        e.drop(len(e.roots) - 1 if rev else base)
                    e.raw(f"counts 0")
                    e.clone(0)
                    e.drop(len(e.roots) - 1)
                    drop_all(random.Random(mi), e, 1.0)
                    yield (f"exh{nobj}e-{mi}-{owner}-{keep}-{int(rev)}", e.ops)


def write_cases(path, cases):
    with open(path, "w") as f:
        for name, ops in cases:
            f.write(f"case {name}\n")
            for o in ops:
                f.write(o + "\n")
            f.write("end\n")
