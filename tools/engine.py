"""Correspondence engine: model driver <-> real implementation, plus implementation oracles.

Pipeline for a list of cases (name, [op lines]):
  1. pass 1: model driver on ops + `cleanup`  ->  explicit op list, truncated before the first
     op at which the model reports an error (the harness must never be asked to run undefined
     behaviour on purpose)
  2. harness (`hexec`, linked against /repo's working tree with hooks on) runs the explicit ops
     and reports observations, the order in which values were destroyed (the layout hint) and
     oracle verdicts
  3. pass 2: model driver on the same ops with the observed hints
  4. field-by-field comparison.
"""
import concurrent.futures as cf
import re
import os
import subprocess
import tempfile

VERIF = os.path.dirname(os.path.dirname(os.path.abspath(__file__)))
DRIVER = os.path.join(VERIF, "lean", ".lake", "build", "bin", "driver")
HEXEC = os.path.join(VERIF, ".build", "target", "release", "hexec")
NPROC = int(os.environ.get("VERIF_JOBS", "16"))

FIELDS = ["D", "Dseq", "F", "R", "P", "T", "Ts", "E", "roots", "wroots", "vals", "raws", "C", "W", "heap"]


def parse_obs(line):
    assert line.startswith("obs "), line
    body = line[4:]
    head, _, heap = body.partition(" heap=")
    d = {"heap": heap.strip()}
    for tok in head.split(" "):
        if "=" in tok:
            k, _, v = tok.partition("=")
            d[k] = v
    return d


def chunks(lst, n):
    k = max(1, (len(lst) + n - 1) // n)
    return [lst[i:i + k] for i in range(0, len(lst), k)]


def _run_driver_chunk(text):
    p = subprocess.run([DRIVER], input=text.encode(), stdout=subprocess.PIPE, stderr=subprocess.PIPE)
    if p.returncode != 0:
        raise RuntimeError(f"driver failed rc={p.returncode}: {p.stderr.decode()[:500]}")
    return p.stdout.decode()


def run_driver(cases, with_cleanup):
    """cases: list of (name, [op lines possibly with '| hint']) -> {name: [(optext, obs)]}"""
    def render(chunk):
        out = []
        for name, ops in chunk:
            out.append(f"case {name}")
            out.extend(ops)
            if with_cleanup:
                out.append("cleanup")
            out.append("end")
        return "\n".join(out) + "\n"

    res = {}
    with cf.ThreadPoolExecutor(NPROC) as ex:
        outs = list(ex.map(_run_driver_chunk, [render(c) for c in chunks(cases, NPROC)]))
    for chunk, text in zip(chunks(cases, NPROC), outs):
        lines = text.split("\n")
        i = 0
        for name, ops in chunk:
            assert lines[i] == f"case {name}", (lines[i], name)
            i += 1
            seq = []
            k = 0
            pending_op = None
            while lines[i] != "end":
                l = lines[i]
                if l.startswith("op "):
                    pending_op = l[3:]
                elif l.startswith("obs "):
                    if pending_op is not None:
                        optext = pending_op
                        pending_op = None
                    else:
                        optext = ops[k].split("|")[0].strip()
                        k += 1
                    seq.append((optext, parse_obs(l)))
                elif l == "bad-op":
                    raise RuntimeError(f"driver rejected op {ops[k]!r} in case {name}")
                i += 1
            i += 1
            res[name] = seq
    return res


def _run_harness_chunk(args):
    text, mode = args
    """returns (stdout text, returncode)"""
    # watchdog: the harness executes about 10^5 operations per second; a chunk that needs a thousand times longer is
    # hanging inside the library (e.g. a trace looping through stale links).  The transcript is flushed per
    # operation, so the partial output tells which operation of which case did not return; rc 124 = "hung".
    limit = 60 + 0.005 * text.count("\n")
    try:
        p = subprocess.run([HEXEC, mode, "--no-cleanup"], input=text.encode(), stdout=subprocess.PIPE,
                           stderr=subprocess.PIPE, timeout=limit)
    except subprocess.TimeoutExpired as ex:
        out = (ex.stdout or b"").decode(errors="replace")
        return out, 124, f"hung: no progress within {limit:.0f} s"
    return p.stdout.decode(errors="replace"), p.returncode, p.stderr.decode(errors="replace")[-400:]


def parse_transcript(text):
    """-> list of case dicts in order: {name, steps:[{op,hint,obs,orc,stop}], end:{...} or None}"""
    cases = []
    cur = None
    for l in text.split("\n"):
        if l.startswith("case "):
            cur = {"name": l[5:], "steps": [], "end": None, "notes": []}
            cases.append(cur)
        elif cur is None:
            continue
        elif l.startswith("op "):
            body = l[3:]
            op, _, hint = body.partition("|")
            cur["steps"].append({"op": op.strip(), "hint": hint.strip(), "obs": None, "orc": None, "stop": None})
        elif l.startswith("obs "):
            cur["steps"][-1]["obs"] = parse_obs(l)
        elif l.startswith("orc "):
            # `fail=` carries free text (Debug-formatted tables contain spaces): cut it out before the
            # line is split into key=value tokens, otherwise every failure after the first space is lost
            # (found with seeded m98: an O8 message in front hid the O14 failure of the same step)
            body = l[4:]
            failtext = ""
            m = re.search(r" fail=(.*?)(?= zx=-?\d+ allocs=-?\d+ live_rcbox=-?\d+\s*$)", body)
            if m:
                failtext = m.group(1)
                body = body[:m.start()] + body[m.end():]
            d = {}
            for tok in body.split(" "):
                k, _, v = tok.partition("=")
                d[k] = v
            if m:
                d["fail"] = failtext
            d["fails"] = [x for x in d.get("fail", "").split(";") if x]
            cur["steps"][-1]["orc"] = d
        elif l.startswith("stop "):
            if cur["steps"]:
                cur["steps"][-1]["stop"] = l[5:]
            else:
                cur["notes"].append(l)
        elif l.startswith("note "):
            cur["notes"].append(l[5:])
        elif l.startswith("end "):
            d = {}
            for tok in l[4:].split(" "):
                k, _, v = tok.partition("=")
                d[k] = v
            cur["end"] = d
            cur = None
    return cases


def run_harness(cases, mode="cactus"):
    """cases: list of (name, [explicit op lines]) -> {name: case dict}; a case whose process died
    gets 'crash': returncode"""
    def render(chunk):
        out = []
        for name, ops in chunk:
            out.append(f"case {name}")
            out.extend(ops)
            out.append("end")
        return "\n".join(out) + "\n"

    results = {}

    def run_chunk(chunk):
        todo = list(chunk)
        while todo:
            text, rc, err = _run_harness_chunk((render(todo), mode))
            parsed = [c for c in parse_transcript(text) if c["name"] != "warmup"]
            done = 0
            for c in parsed:
                if c["end"] is not None:
                    results[c["name"]] = c
                    done += 1
                else:
                    c["crash"] = rc
                    c["stderr"] = err
                    results[c["name"]] = c
                    done += 1
                    break
            if rc == 0 and done >= len(todo):
                break
            if rc != 0 and done == 0:
                # died before producing anything for the first case
                name = todo[0][0]
                results[name] = {"name": name, "steps": [], "end": None, "notes": [], "crash": rc, "stderr": err}
                done = 1
            todo = todo[done:]

    with cf.ThreadPoolExecutor(NPROC) as ex:
        list(ex.map(run_chunk, chunks(cases, NPROC)))
    return results


class CaseRun:
    __slots__ = ("name", "ops", "explicit", "predicted_err", "impl", "model", "diffs", "oracle_fails", "crash")


def pipeline(cases, mode="cactus", abort_children=False):
    """returns list of CaseRun"""
    p1 = run_driver(cases, with_cleanup=True)
    explicit = []
    pred = {}
    for name, ops in cases:
        seq = p1[name]
        ex = []
        perr = None
        for optext, obs in seq:
            if obs["E"] != "-":
                perr = (len(ex), optext, obs["E"])
                break
            ex.append(optext)
        explicit.append((name, ex))
        pred[name] = perr
    # a case cut short because the model predicts an error must not be torn down by the harness
    # (dropping what is left would run exactly the operation the model said not to run)
    impl = run_harness([(name, ex + (["leakworld"] if pred[name] else [])) for name, ex in explicit], mode)
    # pass 2 with hints
    hinted = []
    for name, ex in explicit:
        c = impl[name]
        lines = []
        for i, optext in enumerate(ex):
            hint = c["steps"][i]["hint"] if i < len(c["steps"]) else ""
            lines.append(f"{optext} | {hint}")
        hinted.append((name, lines))
    p2 = run_driver(hinted, with_cleanup=False)
    runs = []
    opsmap = dict(cases)
    for name, ex in explicit:
        r = CaseRun()
        r.name = name
        r.ops = opsmap[name]
        r.explicit = ex
        r.predicted_err = pred[name]
        r.impl = impl[name]
        r.model = p2[name]
        r.crash = impl[name].get("crash")
        r.diffs = []
        r.oracle_fails = []
        runs.append(r)
    return runs


def compare(run, fields, tables=True):
    """fill run.diffs with (op index, field, model, impl) for the requested fields"""
    diffs = []
    steps = run.impl["steps"]
    for i, (optext, mobs) in enumerate(run.model):
        if i >= len(steps) or steps[i]["obs"] is None:
            if i < len(steps) and steps[i]["stop"]:
                diffs.append((i, "stop", mobs["E"], steps[i]["stop"]))
            elif run.crash is not None:
                diffs.append((i, "crash", mobs["E"], f"rc={run.crash}"))
            else:
                diffs.append((i, "missing", "-", "-"))
            break
        iobs = steps[i]["obs"]
        for f in fields:
            mv, iv = mobs.get(f, ""), iobs.get(f, "")
            if f == "E":
                if (mv == "-") != (iv == "-"):
                    diffs.append((i, f, mv, iv))
            elif f == "heapcounts":
                strip = lambda h: " ".join(":".join(x.split(":")[:3]) for x in h.split(" ") if x)
                if strip(mobs["heap"]) != strip(iobs["heap"]):
                    diffs.append((i, f, strip(mobs["heap"]), strip(iobs["heap"])))
            elif f == "T0":
                # pay-as-you-go, one-directional: where the model runs no trace the implementation must not either
                if mobs["T"] == "0/0/0" and iobs["T"] != "0/0/0":
                    diffs.append((i, f, mobs["T"], iobs["T"]))
            elif f == "Tle":
                # linearity, as a bound: the implementation may do less work than the model's trace,
                # and at most a constant factor more (a rewrite may push or count differently)
                mt = [int(x) for x in mobs["T"].split("/")]
                it = [int(x) for x in iobs["T"].split("/")]
                if it[0] > mt[0] or it[1] > 2 * mt[1] + 2 or it[2] > 2 * mt[2] + 2:
                    diffs.append((i, f, mobs["T"], iobs["T"]))
            elif f == "heapobjs":
                ids = lambda h: ",".join(x.split(":")[0] for x in h.split(" ") if x)
                if ids(mobs["heap"]) != ids(iobs["heap"]):
                    diffs.append((i, f, ids(mobs["heap"]), ids(iobs["heap"])))
            elif mv != iv:
                diffs.append((i, f, mv, iv))
        if diffs:
            break
    run.diffs = diffs
    return diffs


def oracle_fails(run, prefixes, require_contract=True, o1_needs_contract=True):
    out = []
    for i, st in enumerate(run.impl["steps"]):
        orc = st.get("orc")
        if not orc:
            continue
        for f in orc["fails"]:
            # reachability (O1) and completeness (O3) are only meaningful under the adoption contract
            need = require_contract or (o1_needs_contract and f.split(":")[0] in ("O1", "O3"))
            if need and orc.get("contract") != "1":
                continue
            if any(f.split(":")[0] == p for p in prefixes):
                out.append((i, f))
        if out:
            break
    run.oracle_fails = out
    return out
